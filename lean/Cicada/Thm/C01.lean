import Cicada.Lemmas.C01
/-!
# C01 — quoted and escaped arguments reach the program verbatim

`Holds01` : the first pipeline of the line is planned as one stage whose argv is exactly the program
word followed by the argument strings, with no redirection, no stdin source, not in the background and
no per-command environment — i.e. no quoted character was acted on as an operator or expanded.
The chain modelled: `line_to_cmds`, `parse_line`, the seven expansion passes of `do_expansion`,
`drain_env_tokens`, the `&` test, `split_tokens_by_pipes`, `Command::from_tokens`,
`tokens_to_redirections` (then `argv = token texts`, core.rs).

Proved (`C01_partial`): every argument list in single or double quotes (any length, any characters the
style can express, the empty string included), every environment (variables, aliases, `$HOME`, glob and
command oracles), contexts *alone*, `; q`, `&& q`, `|| q`.
The escaped style and the `| q` context are in `Thm/C01esc.lean`: `C01_esc_partial` proves the statement for all three
styles and all five contexts on exactly the complement of the 8 finding classes (`guardEsc_iff`); the classes themselves
are refuted by the witnesses below.
-/
namespace Cicada.C01
open Cicada Cicada.TokLemmas Cicada.PassLemmas Cicada.C03

/-- the plan of the first pipeline of a line (what the `plan1` correspondence stream observes) -/
def firstPlan (se : SubstEnv) (f : Nat) (line : Str) : Outcome (Except String Plan) :=
  match lineToCmds line with
  | [] => .err "empty"
  | item :: _ => planOf se f item

def Holds01 (se : SubstEnv) (f : Nat) (p : Str) (args : List (Style × Str)) (ctx : Ctx) : Prop :=
  ∃ plan, firstPlan se f (renderLine p args ctx) = .ok (.ok plan) ∧ obsOfPlan plan = expectedObs p args ctx

/-- the property at full strength: all three styles, all five contexts -/
def C01_full : Prop :=
  ∀ (se : SubstEnv) (p : Str) (args : List (Style × Str)) (ctx : Ctx),
    plainWord p = true → (lookup se.env.aliases p).isNone = true → p ≠ "xargs".toList →
    (args.all (fun x => okArg x.1 x.2) = true) →
    ∀ f, args.length + 3 < f → Holds01 se f p args ctx

theorem plainWord_facts (p : Str) (h : plainWord p = true) : p.all wordChar = true ∧ p.any isAlphaA = true := by
  simp only [plainWord, Bool.and_eq_true] at h
  refine ⟨?_, h.1⟩
  simpa [wordChar] using h.2

theorem tokOf_inert (x : Style × Str) (h : styleOk x = true) : Inert (tokOf x) := by
  obtain ⟨s, a⟩ := x
  cases s with
  | sq => exact Or.inl rfl
  | dq =>
    refine Or.inr ⟨rfl, ?_⟩
    intro c hc
    simp [styleOk, okArg] at h
    have := h c hc
    simp_all [tokOf]
  | esc => simp [styleOk] at h

/-- planning the rendered command (one pipeline, no list context) -/
theorem plan_renderCmd (se : SubstEnv) (f : Nat) (p : Str) (args : List (Style × Str))
    (hg : guard se.env p args = true) (hf : args.length + 3 < f) :
    planOf se f (renderCmd p args) =
      .ok (.ok { commands := [{ tokens := ([], p) :: args.map tokOf, redirectsTo := [], redirectFrom := none }],
                 envs := [], background := false }) := by
  simp only [guard, Bool.and_eq_true, decide_eq_true_eq] at hg
  obtain ⟨⟨⟨hp, hal⟩, hx⟩, ha⟩ := hg
  obtain ⟨hw, hl⟩ := plainWord_facts p hp
  have hal' : lookup se.env.aliases p = none := by
    cases h : lookup se.env.aliases p with
    | none => rfl
    | some v => rw [h] at hal; simp at hal
  have hin : ∀ t ∈ args.map tokOf, Inert t := by
    intro t ht
    simp only [List.mem_map] at ht
    obtain ⟨x, hx1, rfl⟩ := ht
    exact tokOf_inert x ((List.all_eq_true.mp ha) x hx1)
  cases f with
  | zero => omega
  | succ f =>
    simp only [planOf]
    rw [parseLine_renderCmd p args hw hl ha]
    rw [doExpansion_id se p _ f hw hl hin hal' (by simpa using hx) (by simp; omega)]
    simp only [Outcome.map, Outcome.bind]
    have hpe := word_no p hw '=' (by decide)
    have hpa : ArgTok ([], p) := by
      refine Or.inr ⟨?_, ?_, ?_, ?_⟩
      · intro e; exact word_no p hw '|' (by decide) '|' (by have e' : p = _ := e; rw [e']; simp) rfl
      · intro e
        have e' : p.head? = some '<' := e
        exact word_no p hw '<' (by decide) '<' (List.mem_of_mem_head? e') rfl
      · intro e; exact word_no p hw '&' (by decide) '&' (by have e' : p = _ := e; rw [e']; simp) rfl
      · exact word_no p hw '>' (by decide)
    have hq : ∀ t ∈ args.map tokOf, ArgTok t := fun t ht => Or.inl (inert_sep_ne t (hin t ht))
    have hlast : (([], p) :: args.map tokOf).length > 1 → (([], p) :: args.map tokOf).getLast? ≠ some ([], ['&']) := by
      intro hlen e
      have hmem := List.mem_of_getLast? e
      simp only [List.mem_cons] at hmem
      rcases hmem with h | h
      · -- the last token is the program word itself: then there is only one token
        cases hm : args.map tokOf with
        | nil => rw [hm] at hlen; simp at hlen
        | cons y ys =>
          rw [hm] at e
          rw [List.getLast?_cons_cons] at e
          have hmem2 := List.mem_of_getLast? e
          rw [← hm] at hmem2
          exact inert_sep_ne _ (hin _ hmem2) rfl
      · exact inert_sep_ne _ (hin _ h) rfl
    rw [planOfTokens_args p _ hpe hpa hq hlast]

/-- **C01 (single- and double-quoted arguments).** -/
theorem C01_partial (se : SubstEnv) (p : Str) (args : List (Style × Str)) (ctx : Ctx) (f : Nat)
    (hg : guard se.env p args = true) (hctx : ctx ≠ .pipe) (hf : args.length + 3 < f) :
    Holds01 se f p args ctx := by
  have hg' := hg
  simp only [guard, Bool.and_eq_true, decide_eq_true_eq] at hg'
  obtain ⟨⟨⟨hp, _⟩, _⟩, ha⟩ := hg'
  obtain ⟨hw, hl⟩ := plainWord_facts p hp
  have hne : p ≠ [] := by intro e; subst e; simp at hl
  obtain ⟨c, cs, hpc⟩ : ∃ c cs, p = c :: cs := by
    cases p with
    | nil => exact absurd rfl hne
    | cons c cs => exact ⟨c, cs, rfl⟩
  have hcw : wordChar c = true := by subst hpc; simp at hw; exact hw.1
  obtain ⟨ys, d, hsn, hd⟩ := renderCmd_snoc p args hw hne ha
  have hrc : renderCmd p args = c :: (cs ++ argsText args) := by subst hpc; simp [renderCmd, argsText]
  have hsafe : ∀ b, safeSeg none false (renderCmd p args ++ b) = safeSeg none false b := by
    intro b
    simp only [renderCmd, List.append_assoc]
    rw [safeSeg_word p _ hw]
    exact safeSeg_args args b ha
  have hnsep : ∀ t : Str, t.head? = some c → isListSep t = false := by
    intro t ht
    obtain ⟨_, _, _, _, _, _, _, _, _, a10, _, _⟩ := wordChar_facts hcw
    have a13 : c ≠ ';' := by intro e; subst e; revert hcw; decide
    have a14 : c ≠ '&' := by intro e; subst e; revert hcw; decide
    cases t with
    | nil => simp at ht
    | cons x xs =>
      simp at ht; subst ht
      simp [isListSep, a10, a13, a14]
  have htrim1 : trim (renderCmd p args) = renderCmd p args := by
    rw [hrc]; exact trim_id c d _ ys (by rw [← hrc]; exact hsn) (wordChar_nonws c hcw) hd
  have htrim2 : trim (renderCmd p args ++ [' ']) = renderCmd p args := by
    rw [hrc]; exact trim_pad_right c d _ ys (by rw [← hrc]; exact hsn) (wordChar_nonws c hcw) hd
  have hne2 : renderCmd p args ≠ [] := by rw [hrc]; simp
  -- list splitting hands `renderCmd p args` to `from_line` as the first pipeline
  have hfirst : ∃ rest, lineToCmds (renderLine p args ctx) = renderCmd p args :: rest := by
    have mk : ∀ (o : ListOp), ctx.suffix = ' ' :: (o.text ++ " q".toList) →
        ∃ rest, lineToCmds (renderLine p args ctx) = renderCmd p args :: rest := by
      intro o hs
      let pr : Prog := { first := renderCmd p args ++ [' '], rest := [(o, " q".toList)] }
      have hr : render pr = renderLine p args ctx := by
        simp [render, renderLine, pr, hs, List.append_assoc]
      have hgd : C03.guard pr = true := by
        have s1 : safeSeg none false (renderCmd p args ++ [' ']) = true := by
          rw [hsafe]; decide
        have s2 : isListSep (trim (renderCmd p args ++ [' '])) = false := by
          rw [htrim2]; exact hnsep _ (by rw [hrc]; rfl)
        have s3 : segOk " q".toList = true := by decide
        have s2' : isListSep (renderCmd p args) = false := by rw [← htrim2]; exact s2
        have s3' : segOk [' ', 'q'] = true := s3
        simp only [C03.guard, pr, List.all_cons, List.all_nil, Bool.and_true, Bool.and_eq_true]
        refine ⟨?_, s3'⟩
        simp [segOk, s1, htrim2, hne2, s2']
      refine ⟨itemsRest pr.rest, ?_⟩
      rw [← hr, lineToCmds_render pr hgd]
      simp [items, pr, htrim2]
    cases ctx with
    | alone =>
      let pr : Prog := { first := renderCmd p args, rest := [] }
      have hr : render pr = renderLine p args .alone := by simp [render, renderLine, pr, Ctx.suffix]
      have hgd : C03.guard pr = true := by
        have s1 : safeSeg none false (renderCmd p args) = true := by
          have := hsafe []; simp at this; rw [this]; rfl
        have s2 : isListSep (trim (renderCmd p args)) = false := by
          rw [htrim1]; exact hnsep _ (by rw [hrc]; rfl)
        have s2' : isListSep (renderCmd p args) = false := by rw [← htrim1]; exact s2
        simp [C03.guard, segOk, pr, s1, htrim1, hne2, s2']
      refine ⟨[], ?_⟩
      rw [← hr, lineToCmds_render pr hgd]
      simp [items, itemsRest, pr, htrim1]
    | pipe => exact absurd rfl hctx
    | semi => exact mk .semi rfl
    | and => exact mk .and rfl
    | or => exact mk .or rfl
  obtain ⟨rest, hitems⟩ := hfirst
  refine ⟨{ commands := [{ tokens := ([], p) :: args.map tokOf, redirectsTo := [], redirectFrom := none }],
             envs := [], background := false }, ?_, ?_⟩
  · simp only [firstPlan, hitems]
    exact plan_renderCmd se f p args hg hf
  · have hc : (if ctx = Ctx.pipe then [(["q".toList], ([] : List Redir), (none : Option Tok))] else []) = [] := by
      simp [hctx]
    simp only [obsOfPlan, expectedObs, expectedArgv, hc]
    congr 1
    simp only [List.map_cons, List.map_nil, List.map_map]
    congr 2
    congr 1
    apply List.map_congr_left
    intro x _
    obtain ⟨s, a⟩ := x
    cases s <;> rfl

/-- the driver's fuel is enough -/
theorem planFuel_enough (p : Str) (args : List (Style × Str)) (ctx : Ctx) :
    args.length + 3 < planFuel (renderLine p args ctx) := by
  have h : args.length ≤ (argsText args).length := by
    induction args with
    | nil => simp
    | cons x xs ih =>
      obtain ⟨s, a⟩ := x
      simp only [argsText, List.map_cons, List.flatten_cons, List.length_append, List.length_cons] at ih ⊢
      omega
  simp only [planFuel, renderLine, renderCmd, List.length_append]
  have : (List.map (fun x => ' ' :: renderArg x.1 x.2) args).flatten = argsText args := by
    simp [argsText]
  rw [this]
  omega

/-! ### the escaped style violates the property (open known findings; witnesses run through the real code by the check) -/

def wEnv : SubstEnv := { env := { exported := [("HOME".toList, "/h".toList)] }, cmdOut := fun _ => [] }

/-- `prog \~a` : the escaped tilde is expanded (KF-C01-esc-tilde) -/
theorem C01_finding_esc_tilde :
    ¬ Holds01 wEnv 6 "prog".toList [(.esc, "~a".toList)] .alone := by
  intro ⟨plan, h1, h2⟩
  have : firstPlan wEnv 6 (renderLine "prog".toList [(.esc, "~a".toList)] .alone) =
      .ok (.ok { commands := [{ tokens := [([], "prog".toList), ([], "/ha".toList)], redirectsTo := [], redirectFrom := none }],
                 envs := [], background := false }) := by
    rfl
  rw [this] at h1
  injection h1 with h1; injection h1 with h1
  subst h1
  revert h2
  simp [obsOfPlan, expectedObs, expectedArgv]

/-- `prog x \&` : an escaped `&` as last word backgrounds the command (KF-C01-esc-amp) -/
theorem C01_finding_esc_amp :
    ¬ Holds01 wEnv 6 "prog".toList [(.sq, "x".toList), (.esc, "&".toList)] .alone := by
  intro ⟨plan, h1, h2⟩
  have : firstPlan wEnv 6 (renderLine "prog".toList [(.sq, "x".toList), (.esc, "&".toList)] .alone) =
      .ok (.ok { commands := [{ tokens := [([], "prog".toList), (['\''], "x".toList)], redirectsTo := [], redirectFrom := none }],
                 envs := [], background := true }) := by
    rfl
  rw [this] at h1
  injection h1 with h1; injection h1 with h1
  subst h1
  revert h2
  simp [obsOfPlan, expectedObs, expectedArgv]

theorem C01_full_false : ¬ C01_full := by
  intro h
  exact C01_finding_esc_tilde
    (h wEnv "prog".toList [(.esc, "~a".toList)] .alone (by decide) (by rfl) (by decide) (by decide) 6 (by decide))

/-! ### non-vacuity -/
example : guard wEnv.env "prog".toList [(.sq, "a|b; $X * {x,y} ~ > f &".toList), (.dq, "<<< 'q' #".toList), (.sq, [])] = true := by decide

end Cicada.C01
