import Cicada.Lemmas.KernelChild
import Cicada.Spec.Fd
import Cicada.Lemmas.Redir
/-!
# C04 — redirections connect exactly the named descriptors to the named files

Reference: `Spec/Fd.lean` (`applyRedirs`: the left-to-right meaning of a redirection list over the three slots
0 / 1 / 2).  Model: the child's loop over `redirects_to` (`Pipeline.redirLoop`, core.rs:389-437) with its
`dup` / `dup2` / `open` calls on numbered descriptors, and the builtin path `getStdFds` / `builtinPrint`.

* `C04_redirs_external` : for EVERY redirection list and every table with 0, 1, 2 open, when the child's loop runs to
  the end (no descriptor exhaustion) the reference semantics accepts the list too, descriptors 0, 1, 2 point to exactly
  the objects the reference semantics assigns to the three slots, and the same files were opened in the same order
  (so truncation / append / creation agree).  Holds for first, middle and last stages (`notLast` arbitrary).
* `C04_unopenable_not_run` : when the reference semantics refuses the list (a target cannot be opened) the child's loop
  stops with `process::exit(1)`: the program is not run.
* `C04_parse` : for EVERY sequence of ordinary arguments and redirections in any accepted spelling (attached `n>f` or
  spaced `n> f`, prefix none / 1 / 2, truncate or append, `2>&1` / `1>&2` / `>&2`), in any order, `tokens_to_redirections`
  returns exactly the intended triples in order and leaves the other tokens untouched (`Lemmas/Redir.lean`).
* open findings (kernel-checked witnesses below): inside a command substitution `2>&1` / `1>&2` on the last stage are
  ignored (`KF-C04-capture-dup`); a builtin whose target cannot be opened prints to the original stream and reports
  status 0 (`KF-C04-builtin-unopenable`).
-/
namespace Cicada.C04
open Cicada.Kernel Cicada.Kernel.Table Cicada.Pipeline Cicada.SpecFd

/-- descriptors 0, 1, 2 of the table point to the objects of the three slots -/
structure Rel (t : Table) (sl : Slots) : Prop where
  r0 : (t 0).map (·.obj) = sl.s0.map (·.obj)
  r1 : (t 1).map (·.obj) = sl.s1.map (·.obj)
  r2 : (t 2).map (·.obj) = sl.s2.map (·.obj)

structure Std3 (t : Table) : Prop where
  o0 : (t 0).isSome
  o1 : (t 1).isSome
  o2 : (t 2).isSome

theorem alloc_ge3' {t t' : Table} (h : Std3 t) {lim fd : Nat} {e : Ent}
    (ha : t.alloc lim e = some (t', fd)) : 3 ≤ fd ∧ t' = t.set fd e := by
  obtain ⟨hf, ht'⟩ := alloc_spec ha
  refine ⟨?_, ht'⟩
  have h0 := h.o0; have h1 := h.o1; have h2 := h.o2
  rcases Nat.lt_or_ge fd 3 with hlt | hge
  · have : fd = 0 ∨ fd = 1 ∨ fd = 2 := by omega
    rcases this with rfl | rfl | rfl <;> simp [hf] at h0 h1 h2
  · exact hge

/-- allocate `e` at a fresh descriptor, `dup2` it onto `dst` ∈ {1, 2}, optionally close the fresh one: descriptor
`dst` now holds `e`'s object, the other two of 0 / 1 / 2 are untouched -/
theorem temp_onto {t t1 : Table} (h : Std3 t) {lim fd dst : Nat} {e : Ent} (ha : t.alloc lim e = some (t1, fd))
    (hd : dst < 3) (closeIt : Bool) :
    let t' := if closeIt then (t1.dup2 fd dst).close fd else t1.dup2 fd dst
    Std3 t' ∧ (t' dst).map (·.obj) = some e.obj ∧ ∀ x, x < 3 → x ≠ dst → t' x = t x := by
  obtain ⟨h3, rfl⟩ := alloc_ge3' h ha
  have hne : fd ≠ dst := by omega
  have hset : (t.set fd e) fd = some e := by simp
  have hval : ∀ x, x < 3 → ((t.set fd e).dup2 fd dst) x = if x = dst then some { e with cx := false } else t x := by
    intro x hx
    rw [dup2_apply]; simp only [hset, hne, ↓reduceIte]
    by_cases hxd : x = dst
    · simp [hxd]
    · have : x ≠ fd := by omega
      simp [hxd, this]
  have hval' : ∀ x, x < 3 → (if closeIt then ((t.set fd e).dup2 fd dst).close fd else (t.set fd e).dup2 fd dst) x
      = if x = dst then some { e with cx := false } else t x := by
    intro x hx
    cases closeIt with
    | false => simpa using hval x hx
    | true =>
      have : x ≠ fd := by omega
      simp only [↓reduceIte, close_apply, this]
      exact hval x hx
  refine ⟨⟨?_, ?_, ?_⟩, ?_, ?_⟩
  · rw [hval' 0 (by omega)]; split <;> simp [h.o0]
  · rw [hval' 1 (by omega)]; split <;> simp [h.o1]
  · rw [hval' 2 (by omega)]; split <;> simp [h.o2]
  · rw [hval' dst hd]; simp
  · intro x hx hxd; rw [hval' x hx]; simp [hxd]

/-- one step of the child's loop against one step of the reference semantics -/
theorem redirStep_rel {cfg : Cfg} {notLast : Bool} {s s' : Pipeline.RState} {sl : Slots} {r : Redir}
    (hstd : Std3 s.t) (hrel : Rel s.t sl) (hlog : s.opened = sl.opened)
    (hs : Pipeline.redirStep cfg notLast false s r = some s') :
    ∃ sl', applyRedirs cfg sl [r] = (sl', true) ∧ Std3 s'.t ∧ Rel s'.t sl' ∧ s'.opened = sl'.opened := by
  obtain ⟨from_, op, to⟩ := r
  unfold Pipeline.redirStep at hs
  simp only at hs
  unfold applyRedirs
  split at hs
  · -- 2>&1 : slot 2 := slot 1
    rename_i hc
    simp only [hc, and_self, ↓reduceIte, applyRedirs]
    refine ⟨_, rfl, ?_⟩
    have h1some := hstd.o1
    cases h1 : s.t 1 with
    | none => simp [h1] at h1some
    | some e1 =>
      have core : ∀ t', Std3 t' → (t' 2).map (·.obj) = some e1.obj → (∀ x, x < 3 → x ≠ 2 → t' x = s.t x) →
          Std3 t' ∧ Rel t' { sl with s2 := sl.s1 } := by
        intro t' hst h2 hoth
        refine ⟨hst, ⟨?_, ?_, ?_⟩⟩
        · rw [hoth 0 (by omega) (by omega)]; exact hrel.r0
        · rw [hoth 1 (by omega) (by omega)]; exact hrel.r1
        · rw [h2]; have := hrel.r1; rw [h1] at this; simpa using this
      split at hs
      · cases hs
        have hv : ∀ x, (s.t.dup2 1 2) x = if x = 2 then some { e1 with cx := false } else s.t x := by
          intro x; rw [dup2_apply]; simp [h1]
        obtain ⟨a, b⟩ := core (s.t.dup2 1 2)
          ⟨by rw [hv]; simp [hstd.o0], by rw [hv]; simp [hstd.o1], by rw [hv]; simp⟩
          (by rw [hv]; simp) (by intro x _ hx; rw [hv]; simp [hx])
        exact ⟨a, b, hlog⟩
      · simp only [Bool.not_false, ↓reduceIte] at hs
        cases hd : s.t.dup cfg.lim 1 with
        | none => simp [hd] at hs
        | some q =>
          obtain ⟨t1, fd⟩ := q
          simp only [hd, Option.some.injEq] at hs
          cases hs
          unfold Table.dup at hd
          simp only [h1] at hd
          obtain ⟨a, b, c⟩ := temp_onto hstd hd (dst := 2) (by omega) true
          simp only [↓reduceIte] at a b c
          obtain ⟨a', b'⟩ := core _ a (by simpa using b) c
          exact ⟨a', b', hlog⟩
  · rename_i hc1
    split at hs
    · -- 1>&2 : slot 1 := slot 2
      rename_i hc
      simp only [hc1, ↓reduceIte, hc, and_self, applyRedirs]
      refine ⟨_, rfl, ?_⟩
      have h2some := hstd.o2
      cases h2 : s.t 2 with
      | none => simp [h2] at h2some
      | some e2 =>
        have hcond : notLast = true ∨ (!false) = true := Or.inr rfl
        simp only [hcond, ↓reduceIte] at hs
        cases hd : s.t.dup cfg.lim 2 with
        | none => simp [hd] at hs
        | some q =>
          obtain ⟨t1, fd⟩ := q
          simp only [hd, Option.some.injEq] at hs
          cases hs
          unfold Table.dup at hd
          simp only [h2] at hd
          obtain ⟨a, b, c⟩ := temp_onto hstd hd (dst := 1) (by omega) true
          simp only [↓reduceIte] at a b c
          refine ⟨a, ⟨?_, ?_, ?_⟩, hlog⟩
          · dsimp only; rw [c 0 (by omega) (by omega)]; exact hrel.r0
          · dsimp only; rw [show ((t1.dup2 fd 1).close fd 1).map (·.obj) = some e2.obj by simpa using b]
            have := hrel.r2; rw [h2] at this; simpa using this
          · dsimp only; rw [c 2 (by omega) (by omega)]; exact hrel.r2
    · -- a file
      rename_i hc2
      simp only [hc1, hc2, ↓reduceIte]
      split at hs
      · simp at hs
      · rename_i hw
        simp only [hw, ↓reduceIte]
        split at hs
        · simp at hs
        · rename_i t1 fd ho
          unfold Table.openFile at ho
          split at hs
          · rename_i hf
            cases hs
            simp only [hf, ↓reduceIte, applyRedirs]
            refine ⟨_, rfl, ?_⟩
            obtain ⟨a, b, c⟩ := temp_onto hstd ho (dst := 1) (by omega) false
            simp only [Bool.false_eq_true, ↓reduceIte] at a b c
            refine ⟨a, ⟨?_, ?_, ?_⟩, by simp [hlog]⟩
            · dsimp only; rw [c 0 (by omega) (by omega)]; exact hrel.r0
            · simpa using b
            · dsimp only; rw [c 2 (by omega) (by omega)]; exact hrel.r2
          · rename_i hf
            cases hs
            simp only [hf, ↓reduceIte, applyRedirs]
            refine ⟨_, rfl, ?_⟩
            obtain ⟨a, b, c⟩ := temp_onto hstd ho (dst := 2) (by omega) false
            simp only [Bool.false_eq_true, ↓reduceIte] at a b c
            refine ⟨a, ⟨?_, ?_, ?_⟩, by simp [hlog]⟩
            · dsimp only; rw [c 0 (by omega) (by omega)]; exact hrel.r0
            · dsimp only; rw [c 1 (by omega) (by omega)]; exact hrel.r1
            · simpa using b

theorem applyRedirs_cons (cfg : Cfg) (sl : Slots) (r : Redir) (rs : List Redir) :
    applyRedirs cfg sl (r :: rs) =
      (match applyRedirs cfg sl [r] with
       | (sl', true) => applyRedirs cfg sl' rs
       | (sl', false) => (sl', false)) := by
  obtain ⟨from_, op, to⟩ := r
  simp only [applyRedirs]
  split
  · rfl
  · split
    · rfl
    · split <;> rfl

/-- **external programs**: whenever the child's loop over the redirections runs to the end, the reference semantics
accepts the list, 0 / 1 / 2 hold exactly the objects it assigns to the three slots, and the same files were opened in
the same order — for every redirection list, every stage position and every table with 0, 1, 2 open -/
theorem C04_redirs_external (cfg : Cfg) (notLast : Bool) : ∀ (rs : List Redir) (s : Pipeline.RState) (sl : Slots),
    Std3 s.t → Rel s.t sl → s.opened = sl.opened →
    (Pipeline.redirLoop cfg notLast false s rs).2 = true →
    (applyRedirs cfg sl rs).2 = true ∧
    Rel (Pipeline.redirLoop cfg notLast false s rs).1.t (applyRedirs cfg sl rs).1 ∧
    (Pipeline.redirLoop cfg notLast false s rs).1.opened = (applyRedirs cfg sl rs).1.opened := by
  intro rs
  induction rs with
  | nil => intro s sl _ hrel hlog _; exact ⟨rfl, hrel, hlog⟩
  | cons r rs ih =>
    intro s sl hstd hrel hlog hok
    unfold Pipeline.redirLoop at hok ⊢
    cases hs : Pipeline.redirStep cfg notLast false s r with
    | none => simp [hs] at hok
    | some s' =>
      simp only [hs] at hok ⊢
      obtain ⟨sl', h1, hstd', hrel', hlog'⟩ := redirStep_rel hstd hrel hlog hs
      rw [applyRedirs_cons, h1]
      exact ih s' sl' hstd' hrel' hlog' hok

/-- one step: if the reference semantics refuses the redirection (its target cannot be opened), so does the child -/
theorem redirStep_refused {cfg : Cfg} {notLast capture : Bool} {s : Pipeline.RState} {sl : Slots} {r : Redir}
    (h : (applyRedirs cfg sl [r]).2 = false) : Pipeline.redirStep cfg notLast capture s r = none := by
  obtain ⟨from_, op, to⟩ := r
  unfold applyRedirs at h
  unfold Pipeline.redirStep
  simp only at h ⊢
  split at h
  · simp [applyRedirs] at h
  · split at h
    · simp [applyRedirs] at h
    · rename_i h1 h2
      split at h
      · rename_i hw; rw [if_neg h1, if_neg h2]; simp [hw]
      · simp [applyRedirs] at h

/-- the reference semantics never un-refuses: what a step did to the slots does not matter for refusal of a later one -/
theorem applyRedirs_refusal_indep (cfg : Cfg) : ∀ (rs : List Redir) (sl sl2 : Slots),
    (applyRedirs cfg sl rs).2 = (applyRedirs cfg sl2 rs).2 := by
  intro rs
  induction rs with
  | nil => intro _ _; rfl
  | cons r rs ih =>
    intro sl sl2
    obtain ⟨from_, op, to⟩ := r
    simp only [applyRedirs]
    split
    · exact ih _ _
    · split
      · exact ih _ _
      · split
        · rfl
        · exact ih _ _

/-- **an unopenable target: the program is not run** — when the reference semantics refuses the list the child's loop
stops (and the child calls `process::exit(1)`), whatever the table -/
theorem C04_unopenable_not_run (cfg : Cfg) (notLast capture : Bool) : ∀ (rs : List Redir) (s : Pipeline.RState) (sl : Slots),
    (applyRedirs cfg sl rs).2 = false → (Pipeline.redirLoop cfg notLast capture s rs).2 = false := by
  intro rs
  induction rs with
  | nil => intro s sl h; simp [applyRedirs] at h
  | cons r rs ih =>
    intro s sl h
    unfold Pipeline.redirLoop
    cases hs : Pipeline.redirStep cfg notLast capture s r with
    | none => rfl
    | some s' =>
      simp only
      rw [applyRedirs_cons] at h
      cases h1 : applyRedirs cfg sl [r] with
      | mk sl' ok =>
        cases ok with
        | false =>
          have := redirStep_refused (cfg := cfg) (notLast := notLast) (capture := capture) (s := s) (sl := sl) (r := r) (by rw [h1])
          rw [this] at hs; cases hs
        | true =>
          rw [h1] at h
          exact ih s' sl' h

/-- **the parser half**: every accepted spelling is read back as the intended (descriptor, operator, target) triple -/
theorem C04_parse (items : List RedirParse.Item) (hok : ∀ it ∈ items, it.ok = true) :
    tokensToRedirections (items.flatMap RedirParse.Item.render) =
      .ok (items.filterMap RedirParse.Item.arg, items.filterMap RedirParse.Item.redir) :=
  RedirParse.tokensToRedirections_items items hok

/-- non-vacuity: `prog 2>e x >> o 2>&1 "a>b"` -/
example : tokensToRedirections (([RedirParse.Item.word [] ['p'], .file .two false false [] ['e'], .word [] ['x'],
      .file .none true true [] ['o'], .dup .two 1, .word ['"'] ['a', '>', 'b']] : List RedirParse.Item).flatMap RedirParse.Item.render) =
    .ok ([([], ['p']), ([], ['x']), (['"'], ['a', '>', 'b'])],
         [(['2'], ['>'], ['e']), (['1'], ['>', '>'], ['o']), (['2'], ['>'], ['&', '1'])]) :=
  C04_parse _ (by decide)

/-! ### findings -/

def wT0 : Table := fun fd => if fd < 3 then some { obj := .inh fd } else none
def wCfg : Cfg := { lim := 16, canWrite := fun p => p ≠ ['d'], isBuiltin := fun n => n = ['b'] }
def wCmd (n : Char) (r : List Redir) : Command := { tokens := [([], [n])], redirectsTo := r, redirectFrom := none }
def objs (t : Table) : List (Nat × Obj) := (t.toList 16).map (fun (fd, e) => (fd, e.obj))

/-- KF-C04-capture-dup: `$(p 2>&1)` — the reference semantics puts the capture pipe for stdout on 2 as well, the
captured stage keeps its stderr on the second capture pipe (core.rs:399-403 "does not make much sense") -/
theorem C04_finding_capture_dup :
    (match (runPipeline wCfg [wCmd 'p' [(['2'], ['>'], ['&', '1'])]] true false wT0 0).children with
      | [(_, .exec _ t, _)] => objs t
      | _ => []) = [(0, .inh 0), (1, .pipeW 0), (2, .pipeW 1)] ∧
    (match (specPipeline {} wCfg [wCmd 'p' [(['2'], ['>'], ['&', '1'])]] true false wT0 0).children with
      | [(_, .exec _ t, _)] => objs t
      | _ => []) = [(0, .inh 0), (1, .pipeW 0), (2, .pipeW 0)] := by
  decide +kernel

/-- KF-C04-builtin-unopenable: `b > d` with `d` unopenable — the reference semantics refuses the command, the builtin
path silently falls back to a duplicate of the shell's own stdout -/
theorem C04_finding_builtin_unopenable :
    (builtinPrint wCfg [(['1'], ['>'], ['d'])] false wT0).target = some (.inh 1) ∧
    (specPrint wCfg [(['1'], ['>'], ['d'])] false wT0).failed = true := by
  decide +kernel

/-- non-vacuity of `C04_redirs_external`: `> f 2>&1 1>&2 2>> g` on a stage with 0, 1, 2 open runs to the end and puts
`f` on 1 and (append) `g` on 2 -/
example :
    let r := Pipeline.redirLoop wCfg false false { t := wT0 }
      [(['1'], ['>'], ['f']), (['2'], ['>'], ['&', '1']), (['1'], ['>'], ['&', '2']), (['2'], ['>', '>'], ['g'])]
    r.2 = true ∧ (r.1.t 1).map (·.obj) = some (.file ['f'] 1) ∧ (r.1.t 2).map (·.obj) = some (.file ['g'] 2) ∧
    r.1.opened = [(['f'], 1), (['g'], 2)] := by
  decide +kernel

end Cicada.C04
