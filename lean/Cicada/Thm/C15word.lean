import Cicada.Lemmas.C15Word
/-!
# C15 (word level) — `$0 $1 ${n} $@ ${@}` in whole words and token lists; C16 — the positional pass is the identity
on lines without a positional reference

`Holds15 args w` : expanding the rendered word with the model's `expandArgsTok` (= `expand_args_for_single_token`)
yields exactly the concatenation of the segment values — every `$n`, `${n}` replaced by the n-th argument (nothing if
there is none), `$@` / `${@}` by the arguments from the first on joined by blanks, the adjacent text preserved, and
**the inserted values not scanned again** (the statement quantifies over all argument lists: an argument may itself
be the text `$1`, hold a newline, …).  The statement mentions no fuel.

* `C15_word_full` : `Holds15` for every argument list and every word satisfying `wwordOk`.  The guard excludes only
  - literal segments holding `$` or a newline,
  - `$n` directly followed by a digit (genuinely ambiguous: it is read as the longer number, `C15_pos_digit_extends`),
  - `$n` / `$@` directly followed by `}` (the code swallows the brace: `C15_pos_swallows_brace`,
    `C15_all_swallows_brace` state what happens instead — a finding, `$1}` loses its `}`).
  `${n}` and `${@}` may be followed by anything.
* `C15_word_spec` : the same for the segment type and `specArgs` / `wordOk` of `Spec/C15.lean` (the stream's oracle).
* `C15_tokens_full` : token level, whole token lists: single- and back-quoted tokens are untouched, every other token
  (unquoted, double-quoted, …) is expanded — the gate `is_args_in_token` never blocks a reference
  (`expandArgsInTokens_eq_map`).
* `C15_newline_blocks_expansion` : a token holding a newline is not expanded at all (the pattern's `.` does not
  match a newline) — model = code; outside the guard.
* `C15_escaped_dollar_still_expanded` : observation — `\$1` and `"\$1"` in a script line are still replaced.
* C16: `C16_gate_false_id` (exact gate), `C16_no_dollar_digit_id` (simple guard), `C16_script_path_is_rerender`,
  `C16_no_dollar_line` (guard on the LINE: no `$` at all), `C16_line_guard_needs_tokens` (why the finer guard must be
  put on the tokens), and the guard is tight: `C16_gate_tight`.
-/
namespace Cicada.C15
open Cicada

def Holds15 (args : List Str) (w : List WSeg) : Prop := expandArgsTok args (wrender w) = wspecArgs args w

/-- every argument list (any values), every well-formed word -/
def C15_word : Prop := ∀ (args : List Str) (w : List WSeg), wwordOk w = true → Holds15 args w

theorem noNl_digits' (d : Str) (h : digitsOk d = true) : noNl d = true :=
  noNl_digits d ((digitsOk_iff d).mp h).2

theorem wsegOk_noNl (after : Str) (s : WSeg) (h : wsegOk after s = true) : noNl s.render = true := by
  cases s with
  | lit t =>
    simp only [wsegOk, wlitOk, List.all_eq_true, Bool.and_eq_true, decide_eq_true_eq] at h
    simp only [WSeg.render, noNl, List.all_eq_true, decide_eq_true_eq]
    exact fun c hc => (h c hc).2
  | pos d =>
    simp only [wsegOk, Bool.and_eq_true] at h
    simp only [WSeg.render, noNl_cons, noNl_digits' d h.1]; decide
  | bpos d =>
    simp only [wsegOk] at h
    simp only [WSeg.render, noNl_cons, noNl_append_iff, noNl_digits' d h]; decide
  | all => decide
  | ball => decide

theorem wwordOk_noNl (w : List WSeg) (h : wwordOk w = true) : noNl (wrender w) = true := by
  induction w with
  | nil => rfl
  | cons s ss ih =>
    simp only [wwordOk, Bool.and_eq_true] at h
    have : wrender (s :: ss) = s.render ++ wrender ss := by simp [wrender]
    rw [this, noNl_append_iff, wsegOk_noNl _ s h.1, ih h.2]; rfl

/-- one segment: its value, then the expansion of what follows -/
theorem expandArgsTok_seg (args : List Str) (s : WSeg) (after : Str) (hs : wsegOk after s = true) (hn : noNl after = true) :
    expandArgsTok args (s.render ++ after) = s.value args ++ expandArgsTok args after := by
  cases s with
  | lit t =>
    have hnl := wsegOk_noNl after _ hs
    simp only [wsegOk, wlitOk, List.all_eq_true, Bool.and_eq_true, decide_eq_true_eq] at hs
    simp only [WSeg.render, WSeg.value] at hnl ⊢
    exact expandArgsTok_lits args t after (fun c hc => (hs c hc).1) (by rw [noNl_append_iff, hnl, hn]; rfl)
  | pos d =>
    simp only [wsegOk, Bool.and_eq_true] at hs
    have hnext : ∀ c, after.head? = some c → isDigitA c = false ∧ c ≠ '}' := by
      intro c hc
      have := hs.2
      rw [hc] at this
      simpa using this
    have hnd : noNl (d ++ after) = true := by rw [noNl_append_iff, noNl_digits' d hs.1, hn]; rfl
    simp only [WSeg.render, WSeg.value, List.cons_append]
    exact expandArgsTok_ref args _ d after hnd (argRefAt_pos d after hs.1 hnext)
  | bpos d =>
    simp only [wsegOk] at hs
    have hnd : noNl ('{' :: (d ++ '}' :: after)) = true := by
      rw [noNl_cons, noNl_append_iff, noNl_cons, noNl_digits' d hs, hn]; decide
    simp only [WSeg.render, WSeg.value, List.cons_append, List.append_assoc, List.nil_append]
    exact expandArgsTok_ref args _ d after hnd (argRefAt_bpos d after hs)
  | all =>
    have hnext : ∀ c, after.head? = some c → c ≠ '}' := by
      intro c hc
      simp only [wsegOk, hc] at hs
      simpa using hs
    have hnd : noNl ('@' :: after) = true := by rw [noNl_cons, hn]; decide
    have := expandArgsTok_ref args _ ['@'] after hnd (argRefAt_all after hnext)
    simpa [WSeg.render, WSeg.value, argValue] using this
  | ball =>
    have hnd : noNl ('{' :: '@' :: '}' :: after) = true := by simp only [noNl_cons, hn]; decide
    have := expandArgsTok_ref args _ ['@'] after hnd (argRefAt_ball after)
    simpa [WSeg.render, WSeg.value, argValue] using this

/-- **C15 (one word).**  Every reference is replaced by the argument it names, exactly once; everything else is kept. -/
theorem C15_word_full : C15_word := by
  intro args w
  induction w with
  | nil => intro _; simp [Holds15, wrender, wspecArgs, expandArgsTok_nil]
  | cons s ss ih =>
    intro hok
    simp only [wwordOk, Bool.and_eq_true] at hok
    have hr : wrender (s :: ss) = s.render ++ wrender ss := by simp [wrender]
    have hv : wspecArgs args (s :: ss) = s.value args ++ wspecArgs args ss := by simp [wspecArgs]
    unfold Holds15
    rw [hr, hv, expandArgsTok_seg args s _ hok.1 (wwordOk_noNl ss hok.2), ih hok.2]

/-- the same in the vocabulary of `Spec/C15.lean` (`specArgs`, `wordOk`: the oracle of the correspondence stream) -/
theorem C15_word_spec (args : List Str) (w : List Seg) (hok : wordOk w = true) :
    expandArgsTok args (render w) = specArgs args w := by
  have := C15_word_full args (w.map WSeg.ofSeg) (wwordOk_ofSeg w hok)
  rwa [Holds15, wrender_ofSeg, wspecArgs_ofSeg] at this

/-! ### token level -/

/-- is the token single- or back-quoted (these are never expanded) -/
def hardQuoted (sep : Str) : Bool := sep = ['`'] || sep = ['\'']

/-- the expected token after the pass -/
def specTok (args : List Str) (x : Str × List WSeg) : Tok :=
  (x.1, if hardQuoted x.1 then wrender x.2 else wspecArgs args x.2)

/-- **C15 (token lists).**  For every list of tokens (any separators: unquoted, `"`, `'`, `` ` ``, …) whose texts are
well-formed words: single- and back-quoted tokens come out untouched, all the others expanded. -/
theorem C15_tokens_full (args : List Str) (ts : List (Str × List WSeg)) (hok : ∀ x ∈ ts, wwordOk x.2 = true) :
    expandArgsInTokens args (ts.map (fun x => (x.1, wrender x.2))) = ts.map (specTok args) := by
  rw [expandArgsInTokens_eq_map, List.map_map]
  apply List.map_congr_left
  intro x hx
  obtain ⟨sep, w⟩ := x
  have := C15_word_full args w (hok _ hx)
  unfold Holds15 at this
  by_cases h : sep = ['`'] ∨ sep = ['\'']
  · have hq : hardQuoted sep = true := by simpa [hardQuoted] using h
    simp [specTok, h, hq]
  · have hq : hardQuoted sep = false := by
      simp only [not_or] at h
      simp [hardQuoted, h.1, h.2]
    simp [specTok, h, hq, this]

/-- single-quoted and back-quoted tokens are untouched whatever they hold (no guard on the text) -/
theorem C15_token_hard_quoted (args : List Str) (sep text : Str) (h : hardQuoted sep = true) :
    expandArgsInTokens args [(sep, text)] = [(sep, text)] := by
  have : sep = ['`'] ∨ sep = ['\''] := by simpa [hardQuoted] using h
  rcases this with e | e <;> simp [expandArgsInTokens, e]

/-- a double-quoted or unquoted token is expanded -/
theorem C15_token_expanded (args : List Str) (sep : Str) (w : List WSeg) (h : hardQuoted sep = false) (hok : wwordOk w = true) :
    expandArgsInTokens args [(sep, wrender w)] = [(sep, wspecArgs args w)] := by
  have := C15_tokens_full args [(sep, w)] (by simpa using hok)
  simpa [specTok, h] using this

/-! ### outside the guard: what the code does instead -/

/-- `$N}` : the `}` is swallowed although no `{` was opened (pattern `\$\{?([0-9]+|@)\}?`) -/
theorem C15_pos_swallows_brace (args : List Str) (d post : Str) (hd : digitsOk d = true) (hn : noNl post = true) :
    expandArgsTok args ('$' :: (d ++ '}' :: post)) = argValue args d ++ expandArgsTok args post := by
  have hnd : noNl (d ++ '}' :: post) = true := by
    rw [noNl_append_iff, noNl_cons, noNl_digits' d hd, hn]; decide
  exact expandArgsTok_ref args _ d post hnd (argRefAt_pos_brace d post hd)

/-- `$@}` : likewise -/
theorem C15_all_swallows_brace (args : List Str) (post : Str) (hn : noNl post = true) :
    expandArgsTok args ('$' :: '@' :: '}' :: post) = argValue args ['@'] ++ expandArgsTok args post := by
  have hnd : noNl ('@' :: '}' :: post) = true := by simp only [noNl_cons, hn]; decide
  exact expandArgsTok_ref args _ ['@'] post hnd (argRefAt_all_brace post)

/-- `$N` directly followed by digits is the reference with the longer number (genuine ambiguity, as in any shell) -/
theorem C15_pos_digit_extends (args : List Str) (d d' : Str) (w : List WSeg) (h : wwordOk (.pos (d ++ d') :: w) = true) :
    expandArgsTok args ('$' :: d ++ (d' ++ wrender w)) = argValue args (d ++ d') ++ wspecArgs args w := by
  have := C15_word_full args (.pos (d ++ d') :: w) h
  simpa [Holds15, wrender, wspecArgs, WSeg.render, WSeg.value] using this

/-- a token that holds a newline is not expanded at all: the pattern's `.` does not match a newline, so neither the
first test nor the loop ever matches (model = code) -/
theorem C15_newline_blocks_expansion (args : List Str) (t : Str) (h : '\n' ∈ t) : expandArgsTok args t = t := by
  apply expandArgsTok_nl
  cases hn : noNl t with
  | false => rfl
  | true =>
    simp only [noNl, List.all_eq_true, decide_eq_true_eq] at hn
    exact absurd rfl (hn _ h)

/-! ### the values are not scanned again: concrete witnesses; non-vacuity -/

/-- an argument that is literally `$2` is inserted as that text -/
example : expandArgsTok ["s".toList, "$2".toList, "B".toList] "x$1y${2}".toList = "x$2yB".toList := by decide
/-- … also through `$@` -/
example : expandArgsTok ["s".toList, "$2".toList, "${1}".toList] "$@".toList = "$2 ${1}".toList := by decide

example : wwordOk [.lit "a-".toList, .pos "1".toList, .bpos "2".toList, .lit "3/".toList, .all, .ball, .bpos "10".toList, .lit "}".toList,
    .pos "0".toList, .pos "1".toList, .lit "{x".toList] = true := by decide
example : wrender [.lit "a-".toList, .pos "1".toList, .bpos "2".toList, .lit "3/".toList, .all, .ball] = "a-$1${2}3/$@${@}".toList := by decide
example : wordOk [.lit "a".toList, .pos "1".toList, .bpos "2".toList, .lit "3".toList, .all] = true := by decide
example : ∀ x ∈ [("\"".toList, [WSeg.pos "1".toList]), ("'".toList, [WSeg.pos "1".toList]), ([], [WSeg.lit "v=".toList, WSeg.ball])],
    wwordOk x.2 = true := by decide
example : expandArgsTok ["s".toList, "A".toList] "$1}".toList = "A".toList := by decide
example : digitsOk "12".toList = true ∧ noNl "x".toList = true := by decide

/-- observation (model of `parse_line` + `expand_args`): in a script a backslash does not protect a positional
reference — `\$1` and `"\$1"` are still replaced (the first becomes a token with separator `\`, which the pass does
not exempt; inside double quotes the backslash stays and the `$1` behind it is expanded) -/
theorem C15_escaped_dollar_still_expanded :
    expandArgsInTokens ["s".toList, "A".toList] (parseLine "echo \\$1 \"\\$1\"".toList)
      = [([], "echo".toList), (['\\'], "A".toList), (['"'], "\\A".toList)] := by decide

end Cicada.C15

/-! ## C16: without a positional reference the script path is `tokens_to_line ∘ parse_line` -/
namespace Cicada.C16
open Cicada Cicada.C15

/-- no `$` directly followed by a digit, `@` or `{` -/
def noDollarKey : Str → Bool
  | [] => true
  | c :: cs => !(c = '$' && (match cs with
      | d :: _ => isDigitA d || d = '@' || d = '{'
      | [] => false)) && noDollarKey cs

theorem gateHead_true (cs : Str) (h : gateHead cs = true) : ∃ d ds, cs = d :: ds ∧ (isDigitA d = true ∨ d = '@' ∨ d = '{') := by
  match cs with
  | [] => simp [gateHead] at h
  | [d] =>
    refine ⟨d, [], rfl, ?_⟩
    by_cases hd : d = '{'
    · exact Or.inr (Or.inr hd)
    · have : gateHead [d] = isArgKeyChar d := by unfold gateHead; split <;> simp_all
      rw [this] at h
      have h' : isDigitA d = true ∨ d = '@' := by simpa [isArgKeyChar] using h
      exact h'.elim Or.inl (fun x => Or.inr (Or.inl x))
  | d :: x :: ds =>
    refine ⟨d, x :: ds, rfl, ?_⟩
    by_cases hd : d = '{'
    · exact Or.inr (Or.inr hd)
    · have : gateHead (d :: x :: ds) = isArgKeyChar d := by unfold gateHead; split <;> simp_all
      rw [this] at h
      have h' : isDigitA d = true ∨ d = '@' := by simpa [isArgKeyChar] using h
      exact h'.elim Or.inl (fun x => Or.inr (Or.inl x))

theorem noDollarKey_gate (t : Str) (h : noDollarKey t = true) : isArgsInToken t = false := by
  induction t with
  | nil => rfl
  | cons c cs ih =>
    simp only [noDollarKey, Bool.and_eq_true] at h
    rw [isArgsInToken_cons, ih h.2, Bool.or_false]
    cases hg : gateHead cs with
    | false => simp
    | true =>
      obtain ⟨d, ds, rfl, hd⟩ := gateHead_true cs hg
      have h1 := h.1
      by_cases hc : c = '$'
      · subst hc
        rcases hd with hd | hd | hd <;> simp [hd] at h1
      · simp [hc]

/-- **exact form**: a token list in which every token is single- or back-quoted, or below the gate `is_args_in_token` is
left unchanged by the positional pass, for every argument list -/
theorem C16_gate_false_id (args : List Str) (ts : List Tok)
    (h : ∀ tok ∈ ts, hardQuoted tok.1 = true ∨ isArgsInToken tok.2 = false) : expandArgsInTokens args ts = ts := by
  unfold expandArgsInTokens
  conv => rhs; rw [← List.map_id ts]
  apply List.map_congr_left
  intro tok htok
  obtain ⟨sep, text⟩ := tok
  rcases h _ htok with hq | hg
  · have : sep = ['`'] ∨ sep = ['\''] := by simpa [hardQuoted] using hq
    rcases this with e | e <;> simp [e]
  · simp [hg]

/-- **C16 (token level).**  Tokens that hold no `$` directly followed by a digit, `@` or `{` (outside single and back
quotes, where anything may stand) are unchanged by the positional pass, whatever the script's arguments. -/
theorem C16_no_dollar_digit_id (args : List Str) (ts : List Tok)
    (h : ∀ tok ∈ ts, hardQuoted tok.1 = true ∨ noDollarKey tok.2 = true) : expandArgsInTokens args ts = ts :=
  C16_gate_false_id args ts (fun tok htok => (h tok htok).imp id (noDollarKey_gate tok.2))

/-- consequently, for such a line the script path (script file, function body, sourced file) hands
`tokens_to_line (parse_line line)` to `run_command_line`, where `-c` hands over `line`: the two entry points differ by
the re-rendering only, independently of the script's arguments -/
theorem C16_script_path_is_rerender (args : List Str) (line : Str)
    (h : ∀ tok ∈ parseLine line, hardQuoted tok.1 = true ∨ noDollarKey tok.2 = true) :
    expandArgs args line = tokensToLine (parseLine line) := by
  unfold expandArgs
  rw [C16_no_dollar_digit_id args _ h]

theorem noDollarKey_of_no_dollar (t : Str) (h : ∀ x ∈ t, x ≠ '$') : noDollarKey t = true := by
  induction t with
  | nil => rfl
  | cons c cs ih =>
    have hc := h c (by simp)
    simp [noDollarKey, hc, ih (fun x hx => h x (by simp [hx]))]

/-- **C16 (line level).**  For every line that holds no `$` at all and every argument list, the script path hands
`tokens_to_line (parse_line line)` on (the tokenizer never invents a `$`: `parseLine_no_dollar`, an invariant of the
whole scanner `PL.step`, all quoting states included). -/
theorem C16_no_dollar_line (args : List Str) (line : Str) (h : ∀ c ∈ line, c ≠ '$') :
    expandArgs args line = tokensToLine (parseLine line) :=
  C16_script_path_is_rerender args line
    (fun tok htok => Or.inr (noDollarKey_of_no_dollar tok.2 (parseLine_no_dollar line h tok htok)))

/-- the finer guard cannot be put on the LINE: the tokenizer drops a backslash, so a line without any `$` directly
followed by a digit, `@` or `{` can still yield a token with one (`a$\1` becomes the token `a$1`) -/
theorem C16_line_guard_needs_tokens :
    noDollarKey "echo a$\\1".toList = true ∧
    expandArgs ["s".toList, "A".toList] "echo a$\\1".toList = "echo aA".toList ∧
    tokensToLine (parseLine "echo a$\\1".toList) = "echo a$1".toList := by decide

/-! ### the guard of `C16_gate_false_id` is tight -/

theorem argValue_nil (k : Str) : argValue [] k = [] := by
  unfold argValue
  split
  · simp [joinWith]
  · split <;> simp

/-- with no arguments at all every reference expands to nothing: the text gets strictly shorter -/
theorem expandArgsTok_nil_args_length : ∀ (n : Nat) (t : Str), t.length ≤ n → (expandArgsTok [] t).length ≤ t.length := by
  intro n
  induction n with
  | zero =>
    intro t ht
    have : t = [] := by cases t <;> simp_all
    subst this; simp [expandArgsTok_nil]
  | succ n ih =>
    intro t ht
    cases hn : noNl t with
    | false => rw [expandArgsTok_nl [] t hn]; exact Nat.le_refl _
    | true =>
      cases hf : findArgRef [] t with
      | none => rw [expandArgsTok_noref [] t hf]; exact Nat.le_refl _
      | some p =>
        obtain ⟨hd, k, tl⟩ := p
        have hlen := findArgRef_length t [] hd k tl hf
        have hlen2 := findArgRef_length2 t [] hd k tl hf
        rw [expandArgsTok_step [] t hd k tl hn hf, argValue_nil]
        have := ih tl (by omega)
        simp only [List.length_append, List.length_nil] at hlen2 ⊢
        omega

theorem expandArgsTok_nil_args_shorter (t : Str) (hn : noNl t = true) (hg : isArgsInToken t = true) :
    (expandArgsTok [] t).length < t.length := by
  have hs := isArgsInToken_eq_findArgRef t []
  rw [hg] at hs
  cases hf : findArgRef [] t with
  | none => rw [hf] at hs; simp at hs
  | some p =>
    obtain ⟨hd, k, tl⟩ := p
    have hlen2 := findArgRef_length2 t [] hd k tl hf
    rw [expandArgsTok_step [] t hd k tl hn hf, argValue_nil]
    have := expandArgsTok_nil_args_length tl.length tl (Nat.le_refl _)
    simp only [List.length_append, List.length_nil] at hlen2 ⊢
    omega

theorem map_eq_self {α : Type} (f : α → α) (l : List α) (h : l.map f = l) : ∀ x ∈ l, f x = x := by
  induction l with
  | nil => intro x hx; simp at hx
  | cons a as ih =>
    simp only [List.map_cons, List.cons.injEq] at h
    intro x hx
    simp only [List.mem_cons] at hx
    rcases hx with rfl | hx
    · exact h.1
    · exact ih h.2 x hx

/-- **the guard is tight**: the positional pass leaves a token list unchanged for every argument list exactly when each
token is single- or back-quoted, or below the gate, or holds a newline (then the code's pattern never matches) -/
theorem C16_gate_tight (ts : List Tok) :
    (∀ args, expandArgsInTokens args ts = ts) ↔
      ∀ tok ∈ ts, hardQuoted tok.1 = true ∨ isArgsInToken tok.2 = false ∨ noNl tok.2 = false := by
  constructor
  · intro h tok htok
    have h0 := h []
    rw [expandArgsInTokens_eq_map] at h0
    have hx := map_eq_self _ ts h0 tok htok
    obtain ⟨sep, text⟩ := tok
    by_cases hq : sep = ['`'] ∨ sep = ['\'']
    · left; simpa [hardQuoted] using hq
    · right
      simp only [hq, ↓reduceIte, Prod.mk.injEq, true_and] at hx
      cases hg : isArgsInToken text with
      | false => exact Or.inl rfl
      | true =>
        cases hn : noNl text with
        | false => exact Or.inr rfl
        | true =>
          have := expandArgsTok_nil_args_shorter text hn hg
          rw [hx] at this
          exact absurd this (Nat.lt_irrefl _)
  · intro h args
    rw [expandArgsInTokens_eq_map]
    conv => rhs; rw [← List.map_id ts]
    apply List.map_congr_left
    intro tok htok
    obtain ⟨sep, text⟩ := tok
    rcases h _ htok with hq | hg | hn
    · have : sep = ['`'] ∨ sep = ['\''] := by simpa [hardQuoted] using hq
      simp [this]
    · by_cases hq : sep = ['`'] ∨ sep = ['\'']
      · simp [hq]
      · simp [hq, expandArgsTok_gate_false args text hg]
    · by_cases hq : sep = ['`'] ∨ sep = ['\'']
      · simp [hq]
      · simp [hq, expandArgsTok_nl args text hn]

/-! ### non-vacuity -/
example : noDollarKey "a$b$?$$ $(x) $".toList = true := by decide
/-- the exact gate also lets `${NAME}` through, which the simple guard `noDollarKey` does not -/
example : isArgsInToken "a${HOME}${x1}$".toList = false ∧ noDollarKey "a${HOME}".toList = false := by decide
example : noDollarKey "a$1".toList = false ∧ noDollarKey "$@".toList = false ∧ noDollarKey "${1}".toList = false := by decide
example : ∀ c ∈ "argv 'a;b' \"c && d\" e\\ f | cat > out".toList, c ≠ '$' := by decide
example : ∀ tok ∈ parseLine "echo $HOME '$1' \"a b\" | cat".toList, hardQuoted tok.1 = true ∨ noDollarKey tok.2 = true := by decide
example : expandArgsInTokens [] [(['"'], "$1".toList)] ≠ [(['"'], "$1".toList)] := by decide

end Cicada.C16
