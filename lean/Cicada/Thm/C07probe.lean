import Cicada.Drive.C07
/-!
# C07: a pipeline launched for a command substitution owns the terminal while it runs

`DriveC07.probeOwns c s` is the model's answer to the probe action `P` of the C07 sessions: the state reached after every
launch step of a one-stage foreground pipeline (`launch`, `fork pid`, the parent's `setpgid` when `c.parentSetpgid`,
`give`, `insert`, the child's own `csetpgid pid`) and before the stage's exit.  Here the answer `(true, true)` -- the
stage's group is the terminal's foreground group, and the stage leads its group -- is a theorem for every interactive
configuration (both values of `c.parentSetpgid`) and every prompt state in which the next pid is fresh.
-/
namespace Cicada.C07probe
open Cicada.Jobs Cicada.Term Cicada.DriveC07

/-! ### shape of the action list -/

theorem launchActs_one (c : Cfg) (n0 : Nat) :
    launchActs c stageCmd n0 false [.exit 0] =
      [Act.launch false [stageCmd (n0 + 1) (.exit 0)], .fork (pidBase + n0 + 1)] ++
      (if c.parentSetpgid then [Act.psetpgid] else []) ++
      [.give, .insert, .csetpgid (pidBase + n0 + 1), .exit (pidBase + n0 + 1) 0, .launched] := by
  cases h : c.parentSetpgid <;> simp [launchActs, stageActs, h, List.range_succ]

/-- the steps the probe runs: everything before the stage's exit -/
def probeActs (c : Cfg) (n0 : Nat) : List Act :=
  [Act.launch false [stageCmd (n0 + 1) (.exit 0)], .fork (pidBase + n0 + 1)] ++
  (if c.parentSetpgid then [Act.psetpgid] else []) ++
  [.give, .insert, .csetpgid (pidBase + n0 + 1)]

theorem takeWhile_probe (c : Cfg) (n0 : Nat) :
    (launchActs c stageCmd n0 false [.exit 0]).takeWhile
      (fun a => !(a == Act.exit (pidBase + n0 + 1) 0 || a == Act.launched)) = probeActs c n0 := by
  rw [launchActs_one]
  have e1 : ∀ a b : Act, a ≠ b → (a == b) = false := fun a b hab => beq_eq_false_iff_ne.mpr hab
  have f1 := e1 (Act.fork (pidBase + n0 + 1)) (Act.exit (pidBase + n0 + 1) 0) (by simp)
  have f2 := e1 (Act.fork (pidBase + n0 + 1)) Act.launched (by simp)
  have p1 := e1 Act.psetpgid (Act.exit (pidBase + n0 + 1) 0) (by simp)
  have p2 := e1 Act.psetpgid Act.launched (by simp)
  have g1 := e1 Act.give (Act.exit (pidBase + n0 + 1) 0) (by simp)
  have g2 := e1 Act.give Act.launched (by simp)
  have i1 := e1 Act.insert (Act.exit (pidBase + n0 + 1) 0) (by simp)
  have i2 := e1 Act.insert Act.launched (by simp)
  have c1 := e1 (Act.csetpgid (pidBase + n0 + 1)) (Act.exit (pidBase + n0 + 1) 0) (by simp)
  have c2 := e1 (Act.csetpgid (pidBase + n0 + 1)) Act.launched (by simp)
  have l1 := e1 (Act.launch false [stageCmd (n0 + 1) (.exit 0)]) (Act.exit (pidBase + n0 + 1) 0) (by simp)
  have l2 := e1 (Act.launch false [stageCmd (n0 + 1) (.exit 0)]) Act.launched (by simp)
  cases h : c.parentSetpgid <;>
    simp [probeActs, h, List.takeWhile, f1, f2, p1, p2, g1, g2, i1, i2, c1, c2, l1, l2]

/-! ### the process list while a fresh child is handled -/

theorem updProc_append_fresh (procs : List Proc) (p : Proc) (f : Proc → Proc)
    (hfresh : ∀ q ∈ procs, q.pid ≠ p.pid) :
    updProc (procs ++ [p]) p.pid f = procs ++ [f p] := by
  unfold updProc
  rw [List.map_append]
  congr 1
  · conv => rhs; rw [← List.map_id procs]
    apply List.map_congr_left
    intro q hq
    simp [hfresh q hq]
  · simp

theorem findProc_append_fresh (procs : List Proc) (p : Proc)
    (hfresh : ∀ q ∈ procs, q.pid ≠ p.pid) :
    findProc (procs ++ [p]) p.pid = some p := by
  unfold findProc
  rw [List.find?_append]
  have : procs.find? (fun q => decide (q.pid = p.pid)) = none := by
    rw [List.find?_eq_none]
    intro q hq
    simp [hfresh q hq]
  simp [this]

theorem any_pid_fresh (procs : List Proc) (pid : Pid) (hfresh : ∀ q ∈ procs, q.pid ≠ pid) :
    (procs.any fun q => decide (q.pid = pid)) = false := by
  rw [List.any_eq_false]
  intro q hq
  simp [hfresh q hq]


/-! ### the run of the probe's steps -/

/-- the stage's process record while it runs, all launch steps taken -/
def stageProc (c : Cfg) (pid : Pid) : Proc :=
  { pid := pid, first := pid, pgid := pid, psetDone := c.parentSetpgid, csetDone := true }

theorem run_probeActs (c : Cfg) (s : State)
    (hi : c.interactive = true)
    (hm : s.mode = .prompt)
    (hfresh : ∀ p ∈ s.procs, p.pid ≠ pidBase + s.procs.length + 1)
    (hsh : s.shell ≠ pidBase + s.procs.length + 1) :
    ∃ s', run c s (probeActs c s.procs.length) = some s' ∧ s'.tfg = pidBase + s.procs.length + 1 ∧
      s'.procs = s.procs ++ [stageProc c (pidBase + s.procs.length + 1)] := by
  generalize hpid : pidBase + s.procs.length + 1 = pid at *
  have hpid0 : pid ≠ 0 := by omega
  have hany := any_pid_fresh s.procs pid hfresh
  cases hp : c.parentSetpgid
  · -- the child's own `setpgid` puts it in its group; `give` before it names a live pid of the session
    let p0 : Proc := { pid := pid, first := pid, pgid := s.shell }
    have hf0 : ∀ q ∈ s.procs, q.pid ≠ p0.pid := hfresh
    have hu := fun f => updProc_append_fresh s.procs p0 f hf0
    have hfd := findProc_append_fresh s.procs p0 hf0
    simp only [show p0.pid = pid from rfl] at hu hfd
    simp [probeActs, hp, hpid, run, Term.step, hm, stepFork, stepGive, stepInsert, hi, hpid0, Ne.symm hsh, hany, tcsetOk,
      hfd, hu, setpgidOk, stageProc, p0]
  · let p0 : Proc := { pid := pid, first := pid, pgid := s.shell }
    have hf0 : ∀ q ∈ s.procs, q.pid ≠ p0.pid := hfresh
    have hu := fun f => updProc_append_fresh s.procs p0 f hf0
    let p1 : Proc := { pid := pid, first := pid, pgid := pid, psetDone := true }
    have hf1 : ∀ q ∈ s.procs, q.pid ≠ p1.pid := hfresh
    have hu1 := fun f => updProc_append_fresh s.procs p1 f hf1
    have hfd := findProc_append_fresh s.procs p1 hf1
    simp only [show p0.pid = pid from rfl, show p1.pid = pid from rfl] at hu hu1 hfd
    simp [probeActs, hp, hpid, run, Term.step, hm, stepFork, stepPset, stepGive, stepInsert, hi, hpid0, Ne.symm hsh, hany, tcsetOk,
      hfd, hu, hu1, setpgidOk, stageProc, p0, p1]

/-! ### the theorem -/

/-- While the one-stage foreground pipeline of a command substitution runs (every launch step taken, the stage's exit
not yet), its group is the terminal's foreground group and the stage leads it: the model's answer to the probe `P` is
`(true, true)`, with and without the parent's `setpgid`. -/
theorem C07_substitution_owns_while_running (c : Cfg) (s : State)
    (hi : c.interactive = true)
    (hm : s.mode = .prompt)
    (hfresh : ∀ p ∈ s.procs, p.pid ≠ pidBase + s.procs.length + 1)
    (hsh : s.shell ≠ pidBase + s.procs.length + 1) :
    probeOwns c s = (true, true) := by
  obtain ⟨s', hrun, htfg, hprocs⟩ := run_probeActs c s hi hm hfresh hsh
  unfold probeOwns
  simp only [takeWhile_probe, hrun, htfg, hprocs]
  simp [stageProc]

/-- the state the probing stage observes, spelled out: the run of the probe's steps is enabled, ends with the stage's
pid as the terminal's foreground group, and has appended exactly one process record, in its own group -/
theorem C07_probe_state (c : Cfg) (s : State)
    (hi : c.interactive = true)
    (hm : s.mode = .prompt)
    (hfresh : ∀ p ∈ s.procs, p.pid ≠ pidBase + s.procs.length + 1)
    (hsh : s.shell ≠ pidBase + s.procs.length + 1) :
    ∃ s', run c s ((launchActs c stageCmd s.procs.length false [.exit 0]).takeWhile
        (fun a => !(a == Act.exit (pidBase + s.procs.length + 1) 0 || a == Act.launched))) = some s' ∧
      s'.tfg = pidBase + s.procs.length + 1 ∧
      s'.procs = s.procs ++ [stageProc c (pidBase + s.procs.length + 1)] := by
  rw [takeWhile_probe]
  exact run_probeActs c s hi hm hfresh hsh

/-- the same under the guard the sessions maintain (children are numbered in creation order, so every pid so far is at
most `pidBase + s.procs.length`; the shell's pid is not one of the children's numbers) -/
theorem C07_substitution_owns_numbered (c : Cfg) (s : State)
    (hi : c.interactive = true)
    (hm : s.mode = .prompt)
    (hnum : ∀ p ∈ s.procs, p.pid ≤ pidBase + s.procs.length)
    (hsh : s.shell ≠ pidBase + s.procs.length + 1) :
    probeOwns c s = (true, true) :=
  C07_substitution_owns_while_running c s hi hm (fun p hp => Nat.ne_of_lt (Nat.lt_succ_of_le (hnum p hp))) hsh

/-! ### non-vacuity -/

/-- the initial state of every session satisfies the hypotheses, for both configurations -/
example (c : Cfg) (hi : c.interactive = true) : probeOwns c (init shellPid) = (true, true) :=
  C07_substitution_owns_while_running c (init shellPid) hi rfl (by simp [init]) (by decide)

example : probeOwns {} (init shellPid) = (true, true) := by decide
example : probeOwns { parentSetpgid := false } (init shellPid) = (true, true) := by decide

/-- a prompt state with an earlier child (still running, in its own group, owning nothing) satisfies them too -/
example : probeOwns { parentSetpgid := false }
    { init shellPid with procs := [{ pid := pidBase + 1, first := pidBase + 1, pgid := pidBase + 1 }] } = (true, true) :=
  C07_substitution_owns_while_running _ _ rfl rfl (by decide) (by decide)

/-- the guard `interactive` is needed: without a terminal `give` does nothing and the shell keeps the terminal -/
example : probeOwns { interactive := false } (init shellPid) = (false, true) := by decide

/-- the guard on the mode is needed: in the middle of a line `launch` is not enabled -/
example : probeOwns {} { init shellPid with mode := .eol } = (false, false) := by decide

end Cicada.C07probe

section
open Cicada.C07probe
#print axioms C07_substitution_owns_while_running
#print axioms C07_probe_state
#print axioms C07_substitution_owns_numbered
end
