import Cicada.Model.History
/-!
# C18 — history stores every submitted line verbatim, durably and injection-free

* `C18_literal_roundtrip` : for **every** text `s` (quotes, percent signs, backslashes, semicolons, `--`,
  non-ASCII — anything), the SQL literal the code builds for it (`'` + quotes doubled + `'`) is read by
  SQLite's literal lexer as exactly `s`, and the lexer stops exactly at the closing quote (provided what
  follows does not start with another quote — in the statements it is `,` or `)` or a blank).  This is the
  injection-freedom of each spliced field.
* `C18_insert_values` : the VALUES part of the INSERT built by `add_raw` — command text, session id and
  directory, all three spliced through that encoding since `fix:` 3354cad — parses back to exactly
  `(trim line, session, "dir:" ++ dir ++ "|")`: one row with those values, nothing else.
* `C18_delete_exact` : `history delete ids` removes exactly the rows named.
* `C18_add_appends` : an added line is the last row, earlier rows are unchanged.
Finding kept visible: the line is `trim`med before it is stored (KF-C18-trim).
-/
namespace Cicada.Hist

theorem lexBody_dbl (s rest : Str) (h : rest.head? ≠ some '\'') : lexBody (dbl s ++ '\'' :: rest) = some (s, rest) := by
  induction s with
  | nil =>
    cases rest with
    | nil => simp [dbl, lexBody]
    | cons c cs =>
      have hc : c ≠ '\'' := by intro e; subst e; simp at h
      simp [dbl, lexBody, hc]
  | cons c cs ih =>
    by_cases hc : c = '\''
    · subst hc
      simp [dbl, lexBody, ih]
    · have : dbl (c :: cs) = c :: dbl cs := by simp [dbl, hc]
      rw [this]
      simp only [List.cons_append]
      have hstep : lexBody (c :: (dbl cs ++ '\'' :: rest)) = (lexBody (dbl cs ++ '\'' :: rest)).map (fun (s, r) => (c :: s, r)) := by
        cases hrest : dbl cs ++ '\'' :: rest with
        | nil => simp at hrest
        | cons d ds => simp [lexBody, hc]
      rw [hstep, ih]
      rfl

/-- **injection-freedom of one spliced field** -/
theorem C18_literal_roundtrip (s rest : Str) (h : rest.head? ≠ some '\'') : lexLit (lit s ++ rest) = some (s, rest) := by
  simp [lit, lexLit, lexBody_dbl s rest h]

theorem startsWith_append (p s : Str) : startsWith (p ++ s) p = true := by
  induction p with
  | nil => cases s <;> rfl
  | cons c cs ih => simp [startsWith, ih]

/-- **the INSERT stores exactly the three values** -/
theorem C18_insert_values (line session dir nums : Str) :
    parseValues nums (insertValues line session dir nums) = some (trim line, session, "dir:".toList ++ dir ++ "|".toList) := by
  unfold parseValues insertValues
  have h0 : startsWith ("VALUES(".toList ++ lit (trim line) ++ ", ".toList ++ nums ++ ", ".toList ++ lit session ++ ", ".toList ++
      lit ("dir:".toList ++ dir ++ "|".toList) ++ ");".toList) "VALUES(".toList = true := by
    simp only [List.append_assoc]; exact startsWith_append _ _
  simp only [h0, Bool.not_true, Bool.false_eq_true, ↓reduceIte]
  have e1 : ("VALUES(".toList ++ lit (trim line) ++ ", ".toList ++ nums ++ ", ".toList ++ lit session ++ ", ".toList ++
      lit ("dir:".toList ++ dir ++ "|".toList) ++ ");".toList).drop 7 =
      lit (trim line) ++ (", ".toList ++ nums ++ ", ".toList ++ (lit session ++ (", ".toList ++ (lit ("dir:".toList ++ dir ++ "|".toList) ++ ");".toList)))) := by
    simp [List.append_assoc]
  rw [e1, C18_literal_roundtrip _ _ (by simp)]
  simp only
  have h1 : startsWith (", ".toList ++ nums ++ ", ".toList ++ (lit session ++ (", ".toList ++ (lit ("dir:".toList ++ dir ++ "|".toList) ++ ");".toList))))
      (", ".toList ++ nums ++ ", ".toList) = true := startsWith_append _ _
  simp only [h1, Bool.not_true, Bool.false_eq_true, ↓reduceIte]
  rw [List.drop_left' (by rfl)]
  rw [C18_literal_roundtrip _ _ (by simp)]
  simp only
  have h2 : startsWith (", ".toList ++ (lit ("dir:".toList ++ dir ++ "|".toList) ++ ");".toList)) ", ".toList = true := startsWith_append _ _
  simp only [h2, Bool.not_true, Bool.false_eq_true, ↓reduceIte]
  have e3 : (", ".toList ++ (lit ("dir:".toList ++ dir ++ "|".toList) ++ ");".toList)).drop 2 = lit ("dir:".toList ++ dir ++ "|".toList) ++ ");".toList := rfl
  rw [e3, C18_literal_roundtrip _ _ (by simp)]
  simp

/-- `history delete` removes exactly the rows named -/
theorem C18_delete_exact (db : Db) (ids : List Nat) (r : Row) :
    r ∈ (delete db ids).rows ↔ r ∈ db.rows ∧ r.rowid ∉ ids := by
  simp [delete, List.mem_filter]

/-- an added line becomes the last row; earlier rows are unchanged -/
theorem C18_add_appends (db : Db) (line dir : Str) :
    (add db line dir).rows = db.rows ++ [{ rowid := db.next, inp := trim line, dir := dir }] := rfl

/-! ### witnesses -/
example : lexLit (lit "x'); DELETE FROM cicada_history; --".toList ++ ", 0".toList) = some ("x'); DELETE FROM cicada_history; --".toList, ", 0".toList) := by decide
/-- the snapshot spliced the directory unescaped: in a directory `d'q` the statement no longer has the shape of an INSERT -/
example : parseValues "0".toList ("VALUES(".toList ++ lit "a".toList ++ ", 0, ".toList ++ lit "s".toList ++ ", 'dir:d'q|');".toList) = none := by decide
/-- KF-C18-trim: surrounding blanks are not stored -/
example : (add {} "  lead ".toList "/".toList).rows.map (·.inp) = ["lead".toList] := by decide

end Cicada.Hist
