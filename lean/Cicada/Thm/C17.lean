import Cicada.Spec.C17
/-!
# C17 — aliases replace exactly the command word, once, and can be listed and removed

* `C17_expand` : for every alias table and every list of stages (no stage starting with `xargs`),
  `expand_alias` replaces exactly the command word of each stage by the words of its value and leaves
  every other token alone.  "Once" is structural: the function never looks at its own output
  (`C17_self`: `ls ↦ "ls -l"` gives `ls -l`, not a loop).
* `C17_table_*` : define / redefine / unalias behave as a finite map: lookups see the latest definition,
  other names are unaffected, `unalias n` removes exactly `n`.
* finding (witness below, KF-C17-xargs): the word after `xargs` is expanded although it is not a command word.
Open: the listing round trip `alias n='v'` (values containing `'` are not re-readable — KF-C17-list-squote;
checked by the correspondence stream, no theorem yet).
-/
namespace Cicada.C17
open Cicada

theorem go_false_stage (e : Env) (s : List Tok) (h : s.all (fun t => !(t.1 = [] && t.2 = ['|'])) = true) :
    ∀ rest, expandAliasGo e false (s ++ rest) = s ++ expandAliasGo e false rest := by
  induction s with
  | nil => intro rest; rfl
  | cons t ts ih =>
    intro rest
    obtain ⟨sep, w⟩ := t
    simp only [List.all_cons, Bool.and_eq_true, Bool.not_eq_true', Bool.and_eq_false_iff, decide_eq_false_iff_not] at h
    have hnp : ¬ (sep = [] ∧ w = ['|']) := by
      intro ⟨a, b⟩; rcases h.1 with h1 | h1
      · exact h1 a
      · exact h1 b
    simp [expandAliasGo, hnp, ih h.2]

theorem go_true_stage (e : Env) (s : List Tok) (h : stageOk s = true) :
    ∀ rest, expandAliasGo e true (s ++ rest) = specStage e.aliases s ++ expandAliasGo e (s = []) rest := by
  intro rest
  cases s with
  | nil => simp [specStage]
  | cons t ts =>
    obtain ⟨sep, w⟩ := t
    simp only [stageOk, List.all_cons, Bool.and_eq_true, Bool.not_eq_true', Bool.and_eq_false_iff,
      decide_eq_false_iff_not, decide_eq_true_eq] at h
    obtain ⟨⟨h1, hts⟩, hx⟩ := h
    have hnp : ¬ (sep = [] ∧ w = ['|']) := by
      intro ⟨a, b⟩; rcases h1 with h1 | h1
      · exact h1 a
      · exact h1 b
    have hts' : ts.all (fun t => !(t.1 = [] && t.2 = ['|'])) = true := hts
    have hx' : ¬ w = ['x', 'a', 'r', 'g', 's'] := hx
    simp only [List.cons_append, expandAliasGo, hnp, hx', and_false, ↓reduceIte, specStage, Bool.not_true,
      Bool.false_eq_true, List.cons_ne_nil, decide_false]
    cases hl : lookup e.aliases w with
    | none => simp [go_false_stage e ts hts', hx']
    | some v =>
      by_cases hv : v = []
      · simp [hv, go_false_stage e ts hts', hx']
      · simp [hv, go_false_stage e ts hts', List.append_assoc, hx']

/-- **C17 (replacement).** -/
theorem C17_expand (e : Env) (stages : List (List Tok)) (hg : guard stages = true) :
    expandAlias e (joinStages stages) = specAlias e.aliases stages := by
  unfold expandAlias
  suffices h : ∀ stages, guard stages = true → expandAliasGo e true (joinStages stages) = specAlias e.aliases stages from h stages hg
  intro stages
  induction stages with
  | nil => intro _; rfl
  | cons s more ih =>
    intro hg
    simp only [guard, List.all_cons, Bool.and_eq_true] at hg
    cases more with
    | nil =>
      have := go_true_stage e s hg.1 []
      simp only [List.append_nil] at this
      simp only [joinStages, specAlias, this]
      cases s <;> simp [expandAliasGo]
    | cons s2 more2 =>
      have ih' := ih (by simpa [guard] using hg.2)
      simp only [joinStages, specAlias]
      rw [go_true_stage e s hg.1]
      have : expandAliasGo e (decide (s = [])) (pipeTok :: joinStages (s2 :: more2)) =
          pipeTok :: expandAliasGo e true (joinStages (s2 :: more2)) := by
        simp [expandAliasGo, pipeTok]
      rw [this, ih']

/-- replacement is applied once: an alias that mentions itself does not loop -/
theorem C17_self (e : Env) (n v : Str) (h : lookup e.aliases n = some v) (hv : v ≠ []) (hn : n ≠ "xargs".toList) (hp : n ≠ ['|']) :
    expandAlias e [([], n)] = parseLine v := by
  have hn' : ¬ n = ['x', 'a', 'r', 'g', 's'] := hn
  simp [expandAlias, expandAliasGo, h, hv, hn', hp]

/-! ### the alias table is a finite map -/

theorem lookup_insert_same (A : List (Str × Str)) (n v : Str) : lookup (aliasInsert A n v) n = some v := by
  simp [lookup, aliasInsert]

theorem pred_eq (n m : Str) (h : m ≠ n) :
    (fun (a : Str × Str) => !decide (a.1 = n) && decide (a.1 = m)) = (fun p => decide (p.1 = m)) := by
  funext a
  by_cases ha : a.1 = m
  · have : ¬ a.1 = n := fun e => h (ha ▸ e)
    simp [ha, this, h]
  · simp [ha]

theorem lookup_filter_ne (A : List (Str × Str)) (n m : Str) (h : m ≠ n) :
    lookup (A.filter (fun p => p.1 ≠ n)) m = lookup A m := by
  simp only [lookup, ne_eq, decide_not, List.find?_filter]
  have : (fun (a : Str × Str) => decide ((!decide (a.1 = n)) = true ∧ decide (a.1 = m) = true)) = (fun p => decide (p.1 = m)) := by
    funext a
    by_cases ha : a.1 = m
    · have : ¬ a.1 = n := fun e => h (ha ▸ e)
      simp [ha, this, h]
    · simp [ha]
  rw [this]

theorem lookup_insert_other (A : List (Str × Str)) (n v m : Str) (h : m ≠ n) :
    lookup (aliasInsert A n v) m = lookup A m := by
  have hnm : ¬ n = m := fun e => h e.symm
  have := lookup_filter_ne A n m h
  simp only [lookup, aliasInsert, List.find?, hnm, decide_false] at this ⊢
  exact this

theorem lookup_remove_same (A : List (Str × Str)) (n : Str) : lookup (aliasRemove A n) n = none := by
  simp [lookup, aliasRemove, List.find?_eq_none]

theorem lookup_remove_other (A : List (Str × Str)) (n m : Str) (h : m ≠ n) :
    lookup (aliasRemove A n) m = lookup A m := lookup_filter_ne A n m h

/-- `unalias n` removes exactly n -/
theorem C17_unalias (A : List (Str × Str)) (n : Str) (t0 : Tok) (sep : Str) (h : (lookup A n).isSome = true) :
    (∀ m, m ≠ n → lookup (unaliasBuiltin A [t0, (sep, n)]).1 m = lookup A m) ∧
    lookup (unaliasBuiltin A [t0, (sep, n)]).1 n = none := by
  simp only [unaliasBuiltin, h, ↓reduceIte]
  exact ⟨fun m hm => lookup_remove_other A n m hm, lookup_remove_same A n⟩

/-! ### finding: the word after `xargs` is expanded (KF-C17-xargs) -/
def wEnv : Env := { aliases := [("ls".toList, "ls -l".toList)] }
theorem C17_finding_xargs :
    expandAlias wEnv [([], "xargs".toList), ([], "ls".toList)] = [([], "xargs".toList), ([], "ls".toList), ([], "-l".toList)] := by
  decide

/-! ### non-vacuity -/
example : guard [[([], "ls".toList), ([], "a".toList)], [(['\''], "ls".toList)], [([], "wc".toList)]] = true := by decide
example : expandAlias wEnv [([], "ls".toList), ([], "ls".toList)] = [([], "ls".toList), ([], "-l".toList), ([], "ls".toList)] := by decide

end Cicada.C17
