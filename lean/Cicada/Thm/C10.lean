import Cicada.Lemmas.C10
import Cicada.Model.Snapshot
/-!
# C10 — parameter expansion substitutes current values, once, and always terminates

`Holds10 e w` : expanding the rendered word yields exactly the concatenation of the segment values —
every `$NAME`, `${NAME}`, `$?`, `$$` replaced by its current value (nothing if unset), adjacent text
preserved, **the inserted values not scanned again**.  The function is total (no fuel in the statement),
so termination holds by construction for every environment, including values that contain `$`,
`${…}`, or a reference to the variable itself.

`C10_full_holds` is the property at full strength for the expansion of one word; it holds since the
`fix:` commit that replaced the rewrite loop (5ee3bdb).  The snapshot's loop is refuted below
(`C10_snapshot_rescans`).  Token level (`C10_token_*`): single-quoted tokens are never touched.
-/
namespace Cicada.C10
open Cicada

def Holds10 (e : Env) (w : List Seg) : Prop := expandEnvs e (render w) = specExpand e w

/-- every environment (any values), every well-formed word -/
def C10_full : Prop := ∀ (e : Env) (w : List Seg), wordOk w = true → Holds10 e w

theorem keyValue_ident (e : Env) (n : Str) (h : isIdent n = true) : e.keyValue n = (e.value n).getD [] := by
  have h1 : n ≠ ['?'] := by intro e'; subst e'; revert h; decide
  have h2 : n ≠ ['$'] := by intro e'; subst e'; revert h; decide
  simp [Env.keyValue, h1, h2]

theorem render_cons_nonempty (a : Seg) (as : List Seg) (after : Str) (h : segOk after a = true) :
    ∃ d ds, render (a :: as) = d :: ds := by
  cases a with
  | lit t =>
    simp only [segOk, litOk, Bool.and_eq_true] at h
    cases t with
    | nil => simp at h
    | cons c cs => exact ⟨c, cs ++ render as, by simp [render, Seg.render]⟩
  | var n => exact ⟨'$', n ++ render as, by simp [render, Seg.render]⟩
  | braced n => exact ⟨'$', '{' :: (n ++ ['}'] ++ render as), by simp [render, Seg.render]⟩
  | status => exact ⟨'$', '?' :: render as, by simp [render, Seg.render]⟩
  | pid => exact ⟨'$', '$' :: render as, by simp [render, Seg.render]⟩

theorem expand_render_append (e : Env) (w : List Seg) : ∀ (rest : Str), wordOk w = true →
    (∀ n, w.getLast? = some (.var n) → ∀ c, rest.head? = some c → isKeyChar c = false) →
    expandEnvs e (render w ++ rest) = specExpand e w ++ expandEnvs e rest := by
  induction w with
  | nil => intro rest _ _; simp [render, specExpand]
  | cons s ss ih =>
    intro rest hok hlast
    simp only [wordOk, Bool.and_eq_true] at hok
    obtain ⟨hs, hss⟩ := hok
    have hlast' : ∀ n, ss.getLast? = some (.var n) → ∀ c, rest.head? = some c → isKeyChar c = false := by
      intro n hn
      apply hlast n
      cases ss with
      | nil => simp at hn
      | cons a as => simpa [List.getLast?_cons_cons] using hn
    have ihs := ih rest hss hlast'
    have hr : render (s :: ss) ++ rest = s.render ++ (render ss ++ rest) := by
      simp [render, List.append_assoc]
    have hv : specExpand e (s :: ss) = s.value e ++ specExpand e ss := by simp [specExpand]
    rw [hr, hv, List.append_assoc, ← ihs]
    cases s with
    | lit t =>
      simp only [segOk, litOk, List.all_eq_true, Bool.and_eq_true, decide_eq_true_eq, ne_eq] at hs
      exact expandEnvs_lits e t _ (fun c hc => (hs.2 c hc).1.1)
    | var n =>
      simp only [segOk, Bool.and_eq_true] at hs
      have hhead : ∀ c, (render ss ++ rest).head? = some c → isKeyChar c = false := by
        intro c hc
        cases ss with
        | nil => exact hlast n (by simp) c (by simpa [render] using hc)
        | cons a as =>
          simp only [wordOk, Bool.and_eq_true] at hss
          obtain ⟨d, ds, hd⟩ := render_cons_nonempty a as _ hss.1
          rw [hd] at hc hs
          simp at hc; subst hc
          simpa using hs.2
      have := expandEnvs_ref e _ n _ (dollarRef_var n (render ss ++ rest) hs.1 hhead)
      simp only [Seg.render, Seg.value, List.cons_append]
      rw [this, keyValue_ident e n hs.1]
    | braced n =>
      simp only [segOk] at hs
      have := expandEnvs_ref e _ n _ (dollarRef_braced n (render ss ++ rest) hs)
      simp only [Seg.render, Seg.value, List.cons_append, List.append_assoc, List.nil_append]
      rw [this, keyValue_ident e n hs]
    | status =>
      have := expandEnvs_ref e _ _ _ (dollarRef_status (render ss ++ rest))
      simp only [Seg.render, Seg.value, List.cons_append, List.nil_append]
      rw [this]; simp [Env.keyValue]
    | pid =>
      have := expandEnvs_ref e _ _ _ (dollarRef_pid (render ss ++ rest))
      simp only [Seg.render, Seg.value, List.cons_append, List.nil_append]
      rw [this]; simp [Env.keyValue]


/-- **C10 (one word).** Every reference is replaced by its current value, exactly once. -/
theorem C10_full_holds : C10_full := by
  intro e w hok
  have := expand_render_append e w [] hok (by intro n _ c hc; simp at hc)
  simpa [Holds10, expandEnvs_nil] using this

/-! ### token level: quoting -/

/-- single-quoted (and backquoted) tokens are never expanded, whatever the environment -/
theorem C10_token_sq (e : Env) (pre post : List Tok) (text : Str) :
    expandEnv e (pre ++ [(['\''], text)] ++ post) = expandEnv e pre ++ [(['\''], text)] ++ expandEnv e post := by
  simp [expandEnv]

/-- an unquoted or double-quoted token that the gate accepts is expanded by the single pass -/
theorem C10_token_dq (e : Env) (q : Quote) (w : List Seg) (hq : q ≠ .sq) (hok : wordOk w = true)
    (hgate : envInToken (render w) = true) :
    expandEnv e [(q.sep, render w)] = [specToken e q w] := by
  have hs : ¬ (q.sep = ['`'] ∨ q.sep = ['\'']) := by
    cases q <;> simp [Quote.sep] at hq ⊢
  have := C10_full_holds e w hok
  unfold Holds10 at this
  simp [expandEnv, hs, hgate, specToken, hq, this]

/-! ### the values are not scanned again: concrete witnesses, and the snapshot's loop refuted -/

def wEnv : Env := { vars := [("V1".toList, "$V2".toList), ("V2".toList, "hello".toList), ("SELF".toList, "x$SELF".toList)] }

/-- `V1='$V2'`: the result is the text `$V2`, not V2's value -/
example : expandEnvs wEnv "$V1".toList = "$V2".toList := by decide
/-- a self-referential value is inserted once -/
example : expandEnvs wEnv "$SELF".toList = "x$SELF".toList := by decide

/-- the rewrite loop of the pinned snapshot expanded the inserted value again (repaired by 5ee3bdb) -/
theorem C10_snapshot_rescans : Snapshot.expandEnvLoop wEnv 8 "$V1".toList = .ok "hello".toList := by decide

/-- … and never terminated on a self-referential value: every fuel is exhausted -/
theorem C10_snapshot_self_diverges_sample : Snapshot.expandEnvLoop wEnv 40 "$SELF".toList = .diverge "env-loop" := by decide

/-! ### non-vacuity -/
example : wordOk [.lit "a".toList, .var "V1".toList, .braced "V2".toList, .lit "b".toList, .status, .pid, .var "X".toList] = true := by decide

end Cicada.C10
