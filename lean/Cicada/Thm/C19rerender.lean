import Cicada.Model.ParserLine
import Cicada.Model.Calc
/-!
# C19 / C16 (growth) — an arithmetic line survives the script interpreter's re-rendering

`parse_line` (parser_line.rs:167-172) starts with `if tools::is_arithmetic(line) { for x in line.split(' ') { push(("", x)) } return }`:
an arithmetic line is cut at its blanks into tokens with EMPTY tags (one token iff the line has no blank), and
`tokens_to_line` writes a tag-less token verbatim and joins by one blank.  Hence re-rendering is the identity on
every arithmetic line, with no guard: the parentheses of `-2 * (3 + 4)` cannot be lost.

* `C19_arith_line_tokens`    : the exact token list (`splitOnChar ' '`, all tags empty), line complete.
* `C19_arith_line_one_token` : one token `([], l)` when the line holds no blank (`C19_arith_line_one_token_iff`: exactly then).
* `C19_arith_line_rerender`  : `tokensToLine (parseLine l) = l` for every arithmetic line.
* `C19_arith_line_calc`      : so the calculator sees the same text.
-/
namespace Cicada.C19R
open Cicada

theorem join_split_blank (c : Str) : joinWith [' '] (splitOnChar ' ' c) = c := by
  induction c with
  | nil => rfl
  | cons x xs ih =>
    simp only [splitOnChar]
    cases h : splitOnChar ' ' xs with
    | nil => rw [h] at ih; simp [joinWith] at ih; subst ih; simp [splitOnChar] at h
    | cons p ps =>
      rw [h] at ih
      by_cases hx : x = ' '
      · simp [hx, joinWith, ih]
      · simp only [hx, ↓reduceIte]
        cases ps with
        | nil => simp [joinWith] at ih ⊢; exact ih
        | cons y ys => simp [joinWith] at ih ⊢; exact ih

theorem split_no_blank (l : Str) (h : ∀ c ∈ l, c ≠ ' ') : splitOnChar ' ' l = [l] := by
  induction l with
  | nil => rfl
  | cons x xs ih =>
    have hx : x ≠ ' ' := h x (by simp)
    have := ih (fun c hc => h c (by simp [hc]))
    simp [splitOnChar, this, hx]

/-- a blank in the line gives at least two pieces -/
theorem split_blank_two (l : Str) (h : ' ' ∈ l) : 2 ≤ (splitOnChar ' ' l).length := by
  induction l with
  | nil => simp at h
  | cons x xs ih =>
    simp only [splitOnChar]
    cases hs : splitOnChar ' ' xs with
    | nil =>
      have := join_split_blank xs; rw [hs] at this; simp [joinWith] at this; subst this; simp [splitOnChar] at hs
    | cons p ps =>
      by_cases hx : x = ' '
      · simp [hx]
      · have hin : ' ' ∈ xs := by
          rcases List.mem_cons.mp h with h | h
          · exact absurd h.symm hx
          · exact h
        have := ih hin; rw [hs] at this
        simpa [hx] using this

/-- tag-less tokens are written verbatim -/
theorem t2l_tagless (ws : List Str) : tokensToLine (ws.map (fun x => (([] : Str), x))) = joinWith [' '] ws := by
  simp [tokensToLine, tokenToText, Function.comp_def]

/-- **the token list of an arithmetic line**: the pieces between blanks, every tag empty; the line is complete -/
theorem C19_arith_line_tokens (l : Str) (ha : isArithmetic l = true) :
    parseLine l = (splitOnChar ' ' l).map (fun x => (([] : Str), x)) ∧ (parseLineInfo l).complete = true := by
  simp [parseLine, parseLineInfo, ha]

/-- every token of an arithmetic line has the empty tag -/
theorem C19_arith_line_tagless (l : Str) (ha : isArithmetic l = true) : ∀ t ∈ parseLine l, t.1 = [] := by
  rw [(C19_arith_line_tokens l ha).1]
  intro t ht
  simp only [List.mem_map] at ht
  obtain ⟨_, _, rfl⟩ := ht
  rfl

/-- **one token**: an arithmetic line without a blank is ONE token with an empty tag -/
theorem C19_arith_line_one_token (l : Str) (ha : isArithmetic l = true) (hb : l.contains ' ' = false) :
    parseLine l = [([], l)] := by
  have hb' : ∀ c ∈ l, c ≠ ' ' := by
    intro c hc hcb; subst hcb
    have : l.contains ' ' = true := by simpa using hc
    rw [hb] at this; cases this
  rw [(C19_arith_line_tokens l ha).1, split_no_blank l hb']; rfl

/-- ... and exactly then (the model follows `line.split(' ')`, it does not keep a blank-holding line whole) -/
theorem C19_arith_line_one_token_iff (l : Str) (ha : isArithmetic l = true) :
    parseLine l = [([], l)] ↔ l.contains ' ' = false := by
  constructor
  · intro h
    by_cases hb : l.contains ' ' = true
    · have hin : ' ' ∈ l := by simpa using hb
      have h2 := split_blank_two l hin
      have hl := congrArg List.length h
      rw [(C19_arith_line_tokens l ha).1] at hl
      simp at hl; omega
    · simpa using hb
  · exact C19_arith_line_one_token l ha

/-- **re-rendering is the identity on every arithmetic line** (no guard: blanks, parentheses, leading sign all kept) -/
theorem C19_arith_line_rerender (l : Str) (ha : isArithmetic l = true) : tokensToLine (parseLine l) = l := by
  rw [(C19_arith_line_tokens l ha).1, t2l_tagless, join_split_blank]

/-- the re-rendered text is still arithmetic and the calculator gives the same result on it -/
theorem C19_arith_line_calc (l : Str) (ha : isArithmetic l = true) :
    isArithmetic (tokensToLine (parseLine l)) = true ∧
      Calc.runCalculator (tokensToLine (parseLine l)) = Calc.runCalculator l := by
  rw [C19_arith_line_rerender l ha]; exact ⟨ha, rfl⟩

/-! ### witnesses -/

/-- the seeded regression's line: arithmetic, five tag-less tokens, re-rendered unchanged (parentheses kept) -/
example : isArithmetic "-2 * (3 + 4)".toList = true ∧
    parseLine "-2 * (3 + 4)".toList =
      [([], "-2".toList), ([], "*".toList), ([], "(3".toList), ([], "+".toList), ([], "4)".toList)] ∧
    tokensToLine (parseLine "-2 * (3 + 4)".toList) = "-2 * (3 + 4)".toList := by decide +kernel
example : tokensToLine (parseLine "-2 * (3 + 4)".toList) = "-2 * (3 + 4)".toList :=
  C19_arith_line_rerender _ (by decide +kernel)
example : Calc.runCalculator (tokensToLine (parseLine "-2 * (3 + 4)".toList)) = .ok (.int (-14)) := by decide +kernel
/-- the `[([], l)]` form of the brief does NOT hold for a line with blanks (the Rust code splits at blanks too) -/
example : isArithmetic "-2 * (3 + 4)".toList = true ∧ parseLine "-2 * (3 + 4)".toList ≠ [([], "-2 * (3 + 4)".toList)] := by
  decide +kernel
/-- non-vacuity of the one-token theorem, with a leading sign and parentheses -/
example : isArithmetic "-2*(3+4)".toList = true ∧ "-2*(3+4)".toList.contains ' ' = false ∧
    parseLine "-2*(3+4)".toList = [([], "-2*(3+4)".toList)] := by decide +kernel
example : isArithmetic "+2 * (3 + 4) ".toList = true ∧
    tokensToLine (parseLine "+2 * (3 + 4) ".toList) = "+2 * (3 + 4) ".toList := by decide +kernel

end Cicada.C19R

#print axioms Cicada.C19R.C19_arith_line_tokens
#print axioms Cicada.C19R.C19_arith_line_one_token
#print axioms Cicada.C19R.C19_arith_line_one_token_iff
#print axioms Cicada.C19R.C19_arith_line_rerender
#print axioms Cicada.C19R.C19_arith_line_calc
