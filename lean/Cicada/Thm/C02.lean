import Cicada.Lemmas.Wiring
import Cicada.Thm.C08
import Cicada.Model.Jobs
import Batteries.Data.List.Perm
/-!
# C02 — pipelines deliver every byte, terminate, and report the last stage's status

What is proved here is the part of the statement that is logic:

* **wiring** (`C02_wiring`): for EVERY number of stages, every limit and every starting table with 0, 1, 2 open, a
  pipeline of commands without redirections forks its stages so that stage `i` execs with descriptor 1 = the write end
  of pipe `i` (unless last: the shell's own 1), descriptor 0 = the read end of pipe `i - 1` (unless first: the shell's
  own 0) and descriptor 2 = the shell's own 2; by `C08_children_clean` it holds nothing else, and by
  `C08_shell_restored` the shell holds no end of any pipe once the loop is over.  So each pipe has exactly one holder of
  its write end (stage `i`) and one of its read end (stage `i + 1`): with the two kernel facts "bytes written to a pipe
  are read in order" and "a reader sees end-of-file when the last write end is closed" (facts about Linux, part of the
  world model, exercised by the process-level stream, not proved) delivery and termination follow.
* **status** (`C02_status`): `wait_fg_job` returns the status carried by the notification of the LAST pid, whatever
  order the stages finish in and whatever notifications of other children are interleaved (`C02_status_perm`: for every
  permutation of the finishing order).
-/
namespace Cicada.C02
open Cicada.Kernel Cicada.Kernel.Table Cicada.Pipeline Cicada.C08

/-- what a stage of a pipeline without redirections must hold on 0, 1, 2 when it is exec'd: `np0` numbers the first
pipe, `m + 1` is the number of stages -/
def WiredChild (t0 : Table) (np0 m : Nat) (c : Nat × ChildEnd × List (Str × Nat)) : Prop :=
  ∀ argv tc, c.2.1 = .exec argv tc →
    tc 0 = (if c.1 = 0 then t0.atExec 0 else some { obj := .pipeR (np0 + c.1 - 1) }) ∧
    tc 1 = (if c.1 = m then t0.atExec 1 else some { obj := .pipeW (np0 + c.1) }) ∧
    tc 2 = t0.atExec 2

theorem childRun_plain (cfg : Cfg) (cmd : Command) (prev cur : Option Fds) (right : List Fds) (tf : Table)
    (hp : cmd.plain) :
    (childRun cfg cmd prev cur right (none, none) none false tf).1 =
      (let t := childPipes prev cur right (none, none) tf
       if cfg.isBuiltin cmd.name then .builtin cmd.argv t
       else if cfg.found cmd.name ∧ (cmd.name.contains '/' || (t.lowestFree cfg.lim).isSome) then .exec cmd.argv t.atExec
       else .notFound cmd.argv t) := by
  obtain ⟨h1, h2⟩ := hp
  unfold childRun childStdin
  simp [Command.isFrom, Command.isHere, h1, h2, redirLoop]

/-- the invariant of the `for i in 0..length` loop for a pipeline without here-strings -/
structure LInv (t0 : Table) (np0 m : Nat) (prev : Option Fds) (rest : List Fds) (i : Nat) (t : Table) : Prop where
  wired : Wired t rest (np0 + i)
  prevOk : ∀ p, prev = some p → 0 < i ∧ t p.1 = some { obj := .pipeR (np0 + i - 1) }
  prevNone : prev = none → i = 0
  nd : (prevFds prev ++ fdsOf rest).Nodup
  ge : ∀ x ∈ prevFds prev ++ fdsOf rest, 3 ≤ x
  std : t 0 = t0 0 ∧ t 1 = t0 1 ∧ t 2 = t0 2
  len : rest.length + i = m

theorem atExec_eq_of_eq {t t' : Table} {x y : Nat} (h : t x = t' y) : t.atExec x = t'.atExec y := by
  simp [atExec_apply, h]

theorem stage_wired (cfg : Cfg) (cmd : Command) (t0 : Table) (np0 m i : Nat) (prev : Option Fds) (rest : List Fds) (t : Table)
    (hp : cmd.plain) (hI : LInv t0 np0 m prev rest i t) :
    WiredChild t0 np0 m (i, childRun cfg cmd prev rest.head? rest.tail (none, none) none false t) := by
  intro argv tc hce
  simp only at hce
  rw [childRun_plain cfg cmd prev rest.head? rest.tail t hp] at hce
  simp only at hce
  split at hce
  · cases hce
  · split at hce
    · simp only [ChildEnd.exec.injEq] at hce
      obtain ⟨_, rfl⟩ := hce
      -- entries of the neighbouring ends in the table at fork
      have hcurE : ∀ c, rest.head? = some c → t c.2 = some { obj := .pipeW (np0 + i) } := by
        intro c hc
        cases rest with
        | nil => simp at hc
        | cons q qs => simp at hc; subst hc; exact hI.wired.2.1
      have hprevE : ∀ p, prev = some p → t p.1 = some { obj := .pipeR (np0 + i - 1) } := fun p hp => (hI.prevOk p hp).2
      have hmemEq : ∀ x, x ∈ prevFds prev ++ optFds rest.head? ++ fdsOf rest.tail ↔ x ∈ prevFds prev ++ fdsOf rest := by
        intro x; cases rest <;> simp [optFds, fdsOf]
      have hndEq : (prevFds prev ++ optFds rest.head? ++ fdsOf rest.tail).Nodup := by
        cases rest with
        | nil => simpa [optFds, fdsOf] using hI.nd
        | cons q qs => simpa [optFds, fdsOf, List.append_assoc] using hI.nd
      obtain ⟨h0, h1, h2⟩ := childPipes_std prev rest.head? rest.tail t { obj := .pipeW (np0 + i) } { obj := .pipeR (np0 + i - 1) }
        hprevE hcurE (fun x hx => hI.ge x ((hmemEq x).mp hx)) hndEq
      refine ⟨?_, ?_, ?_⟩
      · cases prev with
        | none =>
          have := hI.prevNone rfl
          subst this
          simp only [Option.isSome_none, Bool.false_eq_true, ↓reduceIte] at h0
          simp only [↓reduceIte]
          exact atExec_eq_of_eq (h0.trans hI.std.1)
        | some p =>
          have hi := (hI.prevOk p rfl).1
          have : i ≠ 0 := by omega
          simp only [Option.isSome_some, ↓reduceIte] at h0
          simp [this, atExec_apply, h0]
      · cases hr : rest.head? with
        | none =>
          have hre : rest = [] := by cases rest <;> simp_all
          have him : i = m := by have := hI.len; rw [hre] at this; simpa using this
          simp only [hr, Option.isSome_none, Bool.false_eq_true, ↓reduceIte] at h1
          simp only [him, ↓reduceIte]
          exact atExec_eq_of_eq (h1.trans hI.std.2.1)
        | some c =>
          have him : i ≠ m := by
            have := hI.len
            cases rest with
            | nil => simp at hr
            | cons _ _ => simp at this; omega
          simp only [hr, Option.isSome_some, ↓reduceIte] at h1
          simp [him, atExec_apply, h1]
      · exact atExec_eq_of_eq (h2.trans hI.std.2.2)
    · cases hce

/-- the invariant is carried from stage `i` to stage `i + 1` by what the parent releases -/
theorem linv_next (t0 : Table) (np0 m i : Nat) (prev : Option Fds) (rest : List Fds) (t : Table)
    (hI : LInv t0 np0 m prev rest i t) (hne : rest ≠ []) :
    LInv t0 np0 m rest.head? rest.tail (i + 1) (release prev rest.head? (none, none) t) := by
  cases rest with
  | nil => exact absurd rfl hne
  | cons c qs =>
    simp only [List.head?_cons, List.tail_cons]
    have hnd := hI.nd
    have hge := hI.ge
    obtain ⟨hw1, hw2, hw3⟩ := hI.wired
    -- the two descriptors the parent closes, and why nothing else is affected
    have hval : ∀ x, (release prev (some c) (none, none) t) x =
        if x = c.2 ∨ (∃ p, prev = some p ∧ x = p.1) then none else t x := by
      intro x; rw [release_apply]
      by_cases h1 : x = c.2 <;> by_cases h2 : ∃ p, prev = some p ∧ x = p.1 <;> simp [h1, h2]
    have hc_nd : c.1 ≠ c.2 ∧ c.1 ∉ fdsOf qs ∧ c.2 ∉ fdsOf qs ∧ (fdsOf qs).Nodup ∧
        (∀ p, prev = some p → p.1 ≠ c.1 ∧ p.1 ≠ c.2 ∧ p.1 ∉ fdsOf qs) := by
      have h2 := (List.nodup_append.mp hnd).2.1
      have h3 := (List.nodup_append.mp hnd).2.2
      simp only [fdsOf, List.flatMap_cons, List.cons_append, List.nil_append, List.nodup_cons, List.mem_cons, not_or] at h2
      refine ⟨h2.1.1, h2.1.2, h2.2.1, h2.2.2, ?_⟩
      intro p hp
      subst hp
      have := h3 p.1 (by simp [prevFds])
      refine ⟨fun e => this c.1 (mem_fdsOf.mpr ⟨c, List.mem_cons_self, Or.inl rfl⟩) e,
              fun e => this c.2 (mem_fdsOf.mpr ⟨c, List.mem_cons_self, Or.inr rfl⟩) e, ?_⟩
      intro hm
      obtain ⟨q, hq, hxq⟩ := mem_fdsOf.mp hm
      exact this p.1 (mem_fdsOf.mpr ⟨q, List.mem_cons_of_mem _ hq, hxq⟩) rfl
    obtain ⟨hc12, hc1q, hc2q, hqnd, hpc⟩ := hc_nd
    have keep : ∀ x, x ≠ c.2 → (∀ p, prev = some p → x ≠ p.1) → (release prev (some c) (none, none) t) x = t x := by
      intro x h1 h2
      rw [hval]
      have : ¬ (x = c.2 ∨ ∃ p, prev = some p ∧ x = p.1) := by
        rintro (h | ⟨p, hp, hx⟩)
        · exact h1 h
        · exact h2 p hp hx
      rw [if_neg this]
    refine ⟨?_, ?_, ?_, ?_, ?_, ?_, ?_⟩
    · apply wired_congr qs _ _ (by simpa [Nat.add_assoc] using hw3)
      intro x hx
      apply keep
      · exact fun e => hc2q (e ▸ hx)
      · intro p hp e; exact (hpc p hp).2.2 (e ▸ hx)
    · intro p hp
      simp only [Option.some.injEq] at hp
      subst hp
      refine ⟨by omega, ?_⟩
      rw [keep c.1 hc12 (fun q hq e => (hpc q hq).1 e.symm)]
      simpa using hw1
    · intro h; cases h
    · simp only [prevFds, List.cons_append, List.nil_append, List.nodup_cons]
      exact ⟨hc1q, hqnd⟩
    · intro x hx
      apply hge
      simp only [prevFds, List.cons_append, List.nil_append, List.mem_cons] at hx
      simp only [List.mem_append]
      right
      rcases hx with rfl | hx
      · exact mem_fdsOf.mpr ⟨c, List.mem_cons_self, Or.inl rfl⟩
      · obtain ⟨q, hq, hxq⟩ := mem_fdsOf.mp hx
        exact mem_fdsOf.mpr ⟨q, List.mem_cons_of_mem _ hq, hxq⟩
    · have hlow : ∀ x, x < 3 → (release prev (some c) (none, none) t) x = t x := by
        intro x hx
        apply keep
        · have := hge c.2 (by simp only [List.mem_append]; exact Or.inr (mem_fdsOf.mpr ⟨c, List.mem_cons_self, Or.inr rfl⟩)); omega
        · intro p hp; have := hge p.1 (by simp [hp, prevFds]); omega
      exact ⟨(hlow 0 (by omega)).trans hI.std.1, (hlow 1 (by omega)).trans hI.std.2.1, (hlow 2 (by omega)).trans hI.std.2.2⟩
    · have := hI.len; simp at this ⊢; omega

theorem parentLoop_wired (cfg : Cfg) (bg : Bool) (t0 : Table) (np0 m : Nat) :
    ∀ (cmds : List Command) (prev : Option Fds) (rest : List Fds) (i : Nat) (s : PState),
      (∀ c ∈ cmds, c.plain) → LInv t0 np0 m prev rest i s.shell → rest.length + 1 = cmds.length →
      (∀ c ∈ s.children, WiredChild t0 np0 m c) →
      ∀ c ∈ (parentLoop cfg (none, none) false bg prev rest cmds i s).children, WiredChild t0 np0 m c := by
  intro cmds
  induction cmds with
  | nil => intro _ _ _ s _ _ _ hg; simpa [parentLoop] using hg
  | cons c cs ih =>
    intro prev rest i s hpl hI hlen hg
    unfold parentLoop
    have hcp := hpl c List.mem_cons_self
    have hnh : c.isHere = false := by simp [Command.isHere, hcp.2]
    have hstage : parentStage cfg c i prev rest.head? rest.tail (none, none) false bg s =
        { shell := release prev rest.head? (none, none) s.shell, np := s.np,
          children := s.children ++ [(i, childRun cfg c prev rest.head? rest.tail (none, none) none false s.shell)],
          fg := if bg then s.fg else s.fg ++ [FgPid.stage i], fed := s.fed, hsFailed := s.hsFailed } := by
      unfold parentStage
      simp only [hnh, Bool.false_eq_true, ↓reduceIte]
      rfl
    have hgood' : ∀ x ∈ (parentStage cfg c i prev rest.head? rest.tail (none, none) false bg s).children, WiredChild t0 np0 m x := by
      rw [hstage]
      intro x hx
      simp only [List.mem_append, List.mem_cons, List.not_mem_nil, or_false] at hx
      rcases hx with hx | rfl
      · exact hg x hx
      · exact stage_wired cfg c t0 np0 m i prev rest s.shell hcp hI
    cases cs with
    | nil => simpa [parentLoop] using hgood'
    | cons c' cs' =>
      have hne : rest ≠ [] := by intro e; simp [e] at hlen
      apply ih
      · exact fun x hx => hpl x (List.mem_cons_of_mem _ hx)
      · rw [parentStage_shell]; exact linv_next t0 np0 m i prev rest s.shell hI hne
      · cases rest with
        | nil => exact absurd rfl hne
        | cons _ _ => simp at hlen ⊢; omega
      · exact hgood'

/-- **wiring of a pipeline without redirections** — every stage that is exec'd holds on 0 / 1 / 2 exactly the ends of
its neighbouring pipes (the shell's own descriptors at the two ends of the pipeline) -/
theorem C02_wiring (cfg : Cfg) (cmds : List Command) (bg : Bool) (t0 : Table) (np : Nat)
    (h0 : (t0 0).isSome) (h1 : (t0 1).isSome) (h2 : (t0 2).isSome) (hpl : ∀ c ∈ cmds, c.plain) :
    ∀ c ∈ (runPipeline cfg cmds false bg t0 np).children, WiredChild t0 np (cmds.length - 1) c := by
  unfold runPipeline
  simp only [Bool.false_eq_true, and_false, ↓reduceIte, Bool.not_false]
  have hR := mkPipes_restores cfg.lim t0 (cmds.length - 1) t0 np [] (by simpa [fdsOf] using restores_refl t0)
  have hL := mkPipes_length cfg.lim (cmds.length - 1) t0 np []
  have hW := mkPipes_wired cfg.lim np (cmds.length - 1) t0 [] trivial (by simp [fdsOf])
  simp only [List.length_nil, Nat.add_zero] at hW
  generalize mkPipes cfg.lim (cmds.length - 1) t0 np [] = r at hR hL hW
  obtain ⟨t1, np1, pipes, ok⟩ := r
  simp only at hR hL hW ⊢
  cases ok with
  | false => simp
  | true =>
    simp only [Bool.not_true, Bool.false_eq_true, ↓reduceIte]
    cases cmds with
    | nil => simp [parentLoop]
    | cons c cs =>
      have hlen : pipes.length = cs.length := by have := hL rfl; simpa using this
      apply parentLoop_wired cfg bg t0 np (cs.length) (c :: cs) none pipes 0 _ hpl
      · have hge : ∀ x ∈ fdsOf pipes, 3 ≤ x := by
          intro x hx
          have hx0 := hR.2 x hx
          rcases Nat.lt_or_ge x 3 with hlt | hge
          · have : x = 0 ∨ x = 1 ∨ x = 2 := by omega
            rcases this with rfl | rfl | rfl <;> simp_all
          · exact hge
        have hlow : ∀ x, x < 3 → t1 x = t0 x := fun x hx => hR.1 x (fun hm => by have := hge x hm; omega)
        exact ⟨(by simpa using hW.1), (fun p hp => by cases hp), (fun _ => rfl), (by simpa [prevFds] using hW.2),
               (by simpa [prevFds] using hge), ⟨hlow 0 (by omega), hlow 1 (by omega), hlow 2 (by omega)⟩, (by simpa using hlen)⟩
      · simp [hlen]
      · simp

/-! ### the status: `wait_fg_job` (model: `Jobs.waitFgGo`) -/
open Cicada.Jobs

def _root_.Cicada.Jobs.Ev.isCont : Ev → Bool
  | .continued _ => true
  | _ => false

def _root_.Cicada.Jobs.Ev.terminal : Ev → Bool
  | .exited _ _ => true
  | .killed _ _ => true
  | _ => false

theorem nodup_map_inj {α β} (f : α → β) : ∀ (l : List α), (l.map f).Nodup → ∀ a ∈ l, ∀ b ∈ l, f a = f b → a = b := by
  intro l
  induction l with
  | nil => intro _ a ha; simp at ha
  | cons x xs ih =>
    intro hnd a ha b hb hab
    simp only [List.map_cons, List.nodup_cons, List.mem_map, not_exists, not_and] at hnd
    rcases List.mem_cons.mp ha with rfl | ha' <;> rcases List.mem_cons.mp hb with rfl | hb'
    · rfl
    · exact absurd hab.symm (hnd.1 b hb')
    · exact absurd hab (hnd.1 a ha')
    · exact ih hnd.2 a ha' b hb' hab

/-- a notification of one of the pipeline's own processes -/
def isFg (pids : List Pid) (e : Ev) : Bool := pids.contains e.pid

/-- the notification that carries the pipeline's status: the one of the last pid -/
def isLastEv (pids : List Pid) (e : Ev) : Bool := isFg pids e && some e.pid == pids.getLast?

/-- the wait loop, for any queue in which the pipeline's own notifications are exits / kills, one per process:
the status returned is the one carried by the last pid's notification, wherever it sits in the queue and whatever
notifications of other children (exits, stops, continues of background jobs) are interleaved -/
theorem waitFgGo_status (gid : Pid) (pids : List Pid) : ∀ (evs : List Ev) (s : Sh) (waited : Nat) (st : Int),
    (∀ e ∈ evs, isFg pids e = true → e.terminal = true) →
    ((evs.filter (isFg pids)).map Ev.pid).Nodup →
    (evs.filter (isFg pids)).length + waited = pids.length → waited < pids.length →
    (waitFgGo gid pids evs s waited st).2 =
      (match evs.find? (isLastEv pids) with | some e => e.status | none => st) := by
  intro evs
  induction evs with
  | nil => intro s waited st _ _ _ _; simp [waitFgGo]
  | cons e rest ih =>
    intro s waited st hterm hnd hcount hlt
    have hterm' : ∀ x ∈ rest, isFg pids x = true → x.terminal = true := fun x hx => hterm x (List.mem_cons_of_mem _ hx)
    by_cases hfg : isFg pids e = true
    · -- one of ours: an exit or a kill
      have hte := hterm e List.mem_cons_self hfg
      have hfg' : pids.contains e.pid = true := hfg
      simp only [List.filter_cons, hfg, ↓reduceIte, List.map_cons, List.nodup_cons, List.length_cons] at hnd hcount
      have hres : (waitFgGo gid pids (e :: rest) s waited st).2 =
          (if waited + 1 ≥ pids.length then (if some e.pid = pids.getLast? then e.status else st)
           else (match rest.find? (isLastEv pids) with
                 | some e' => e'.status
                 | none => (if some e.pid = pids.getLast? then e.status else st))) := by
        cases e with
        | continued p => simp [Ev.terminal] at hte
        | exited p c =>
          simp only [waitFgGo, Ev.pid] at hfg' ⊢
          simp only [hfg', ↓reduceIte, true_and]
          split
          · rfl
          · rename_i hw
            rw [ih _ _ _ hterm' hnd.2 (by omega) (by omega)]
            rfl
        | killed p g =>
          simp only [waitFgGo, Ev.pid] at hfg' ⊢
          simp only [hfg', ↓reduceIte, true_and]
          split
          · rfl
          · rename_i hw
            rw [ih _ _ _ hterm' hnd.2 (by omega) (by omega)]
            rfl
        | stopped p g => simp [Ev.terminal] at hte
      rw [hres]
      simp only [List.find?_cons, isLastEv, hfg, Bool.true_and]
      by_cases hl : some e.pid = pids.getLast?
      · -- this is the last pid's notification: no later one carries that pid
        have hnone : rest.find? (isLastEv pids) = none := by
          rw [List.find?_eq_none]
          intro x hx hxl
          simp only [isLastEv, Bool.and_eq_true, beq_iff_eq] at hxl
          have hxp : x.pid = e.pid := by
            have := hxl.2.trans hl.symm; simpa using this
          exact hnd.1 (List.mem_map.mpr ⟨x, List.mem_filter.mpr ⟨hx, hxl.1⟩, hxp⟩)
        simp [hl, hnone]
      · have hl' : (some e.pid == pids.getLast?) = false := by simpa using hl
        simp only [hl, ↓reduceIte, hl']
        split
        · -- the count is complete: nothing of ours is left in the queue
          rename_i hw
          have hz : (rest.filter (isFg pids)).length = 0 := by omega
          have hnone : rest.find? (isLastEv pids) = none := by
            rw [List.find?_eq_none]
            intro x hx hxl
            simp only [isLastEv, Bool.and_eq_true] at hxl
            have : x ∈ rest.filter (isFg pids) := List.mem_filter.mpr ⟨hx, hxl.1⟩
            rw [List.length_eq_zero_iff.mp hz] at this; simp at this
          simp [hnone]
        · rfl
    · -- a notification of some other child: recorded elsewhere, the count and the status are untouched
      have hfgf : isFg pids e = false := by simpa using hfg
      have hfg' : pids.contains e.pid = false := hfgf
      simp only [List.filter_cons, hfgf, Bool.false_eq_true, ↓reduceIte] at hnd hcount
      have hnl : isLastEv pids e = false := by simp [isLastEv, hfgf]
      simp only [List.find?_cons, hnl]
      have hge : ¬ waited ≥ pids.length := by omega
      cases e with
      | continued p =>
        simp only [waitFgGo]
        exact ih _ _ _ hterm' hnd hcount hlt
      | exited p c =>
        simp only [waitFgGo, Ev.pid] at hfg' ⊢
        simp only [hfg', Bool.false_eq_true, ↓reduceIte, false_and, hge]
        exact ih _ _ _ hterm' hnd hcount hlt
      | killed p g =>
        simp only [waitFgGo, Ev.pid] at hfg' ⊢
        simp only [hfg', Bool.false_eq_true, ↓reduceIte, false_and, hge]
        exact ih _ _ _ hterm' hnd hcount hlt
      | stopped p g =>
        simp only [waitFgGo, Ev.pid] at hfg' ⊢
        simp only [hfg', Bool.false_eq_true, ↓reduceIte, false_and, hge]
        exact ih _ _ _ hterm' hnd hcount hlt

/-- **the pipeline's status is the last stage's**, whatever order the stages finish in: if the queue holds exactly one
exit / kill notification per stage (in any order, with anything about other children in between), `wait_fg_job`
returns the status carried by the last pid's notification — its exit code, or 128 + signal -/
theorem C02_status (s : Sh) (gid : Pid) (pids : List Pid) (elast : Ev) (hne : pids ≠ [])
    (hterm : ∀ e ∈ s.pending, isFg pids e = true → e.terminal = true)
    (hnd : ((s.pending.filter (isFg pids)).map Ev.pid).Nodup)
    (hcount : (s.pending.filter (isFg pids)).length = pids.length)
    (hlast : elast ∈ s.pending) (hlp : some elast.pid = pids.getLast?) :
    (waitFg s gid pids).2 = elast.status := by
  unfold waitFg
  simp only [hne, ↓reduceIte]
  have hlen : 0 < pids.length := List.length_pos_iff.mpr hne
  rw [waitFgGo_status gid pids s.pending s 0 0 hterm hnd (by omega) hlen]
  have hfgl : isFg pids elast = true := by
    have : elast.pid ∈ pids := by
      have := List.getLast?_eq_some_iff.mp hlp.symm
      obtain ⟨ys, rfl⟩ := this; simp
    simpa [isFg] using this
  have hle : isLastEv pids elast = true := by simp [isLastEv, hfgl, hlp]
  cases hf : s.pending.find? (isLastEv pids) with
  | none => exact absurd hle (by simpa using List.find?_eq_none.mp hf elast hlast)
  | some e' =>
    -- the notification found is the one of the last pid: pids of our notifications are distinct
    have he'm := List.mem_of_find?_eq_some hf
    have he'l := List.find?_some hf
    simp only [isLastEv, Bool.and_eq_true, beq_iff_eq] at he'l
    have hpid : e'.pid = elast.pid := by have := he'l.2.trans hlp.symm; simpa using this
    have : e' = elast := by
      have h1 : e' ∈ s.pending.filter (isFg pids) := List.mem_filter.mpr ⟨he'm, he'l.1⟩
      have h2 : elast ∈ s.pending.filter (isFg pids) := List.mem_filter.mpr ⟨hlast, hfgl⟩
      exact nodup_map_inj Ev.pid _ hnd e' h1 elast h2 hpid
    simp [this]

/-- **every finishing order gives the same status**: permuting the queue does not change what `wait_fg_job` reports -/
theorem C02_status_perm (s1 s2 : Sh) (gid : Pid) (pids : List Pid) (hne : pids ≠ [])
    (hperm : s1.pending.Perm s2.pending)
    (hterm : ∀ e ∈ s1.pending, isFg pids e = true → e.terminal = true)
    (hnd : ((s1.pending.filter (isFg pids)).map Ev.pid).Nodup)
    (hcount : (s1.pending.filter (isFg pids)).length = pids.length) :
    (waitFg s1 gid pids).2 = (waitFg s2 gid pids).2 := by
  have hfp := hperm.filter (isFg pids)
  -- the last pid has a notification in the queue (the pids of our notifications are exactly the stages)
  have hlen : 0 < pids.length := List.length_pos_iff.mpr hne
  obtain ⟨pl, hpl⟩ : ∃ pl, pids.getLast? = some pl := by
    cases h : pids.getLast? with
    | none => simp [List.getLast?_eq_none_iff] at h; exact absurd h hne
    | some x => exact ⟨x, rfl⟩
  have hsub : ∀ p ∈ (s1.pending.filter (isFg pids)).map Ev.pid, p ∈ pids := by
    intro p hp
    obtain ⟨e, he, rfl⟩ := List.mem_map.mp hp
    have := (List.mem_filter.mp he).2
    simpa [isFg] using this
  have hplm : pl ∈ pids := by
    obtain ⟨ys, rfl⟩ := List.getLast?_eq_some_iff.mp hpl; simp
  -- a duplicate-free list of stage pids as long as the list of stages contains every stage (pigeonhole)
  have hall : pl ∈ (s1.pending.filter (isFg pids)).map Ev.pid := by
    have hsubp : (s1.pending.filter (isFg pids)).map Ev.pid ⊆ pids := hsub
    have hlen' : ((s1.pending.filter (isFg pids)).map Ev.pid).length = pids.length := by simpa using hcount
    have hsp := List.subperm_of_subset hnd hsubp
    have := (hsp.perm_of_length_le (by omega))
    exact this.symm.subset hplm
  obtain ⟨el, hel, hep⟩ := List.mem_map.mp hall
  have hel1 : el ∈ s1.pending := (List.mem_filter.mp hel).1
  rw [C02_status s1 gid pids el hne hterm hnd hcount hel1 (by rw [hep, hpl]),
      C02_status s2 gid pids el hne (fun e he => hterm e (hperm.symm.subset he))
        ((hfp.map Ev.pid).nodup_iff.mp hnd) (by rw [← hcount]; exact hfp.length_eq.symm)
        (hperm.subset hel1) (by rw [hep, hpl])]

/-- non-vacuity: three stages 11, 12, 13 finishing in the order 13 (exit 5), 11 (killed by 9), 12 (exit 0) with a
background child's exit in between: the status is 5 -/
example : (waitFg { pending := [.exited 13 5, .exited 99 1, .killed 11 9, .exited 12 0] } 11 [11, 12, 13]).2 = 5 := by decide

end Cicada.C02
