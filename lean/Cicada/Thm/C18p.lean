import Cicada.Model.HistPrompt
import Cicada.Thm.C18
/-!
# C18, the prompt: which typed lines are recorded

`C18_prompt_rows` : for EVERY session — any number of lines typed at one prompt, any texts free of `!!`, each either
starting with a blank or free of surrounding white space (stored text = typed text; the other lines are the open finding
KF-C18-trim) — the rows the prompt loop stores are exactly what the statement prescribes (`specRecorded`): every
submitted line once, verbatim, in submission order, except lines starting with a space and immediate repeats of the line
recorded last; blank lines are not submissions.
`C18_prompt_space_never_recorded` : a line that starts with a blank changes neither the table nor what counts as "the
previous line", whatever the state (so it can never make a later repeat look new).
`C18_prompt_no_adjacent_repeat` : on that domain no two neighbouring rows of one session are equal.
-/
namespace Cicada.Hist
open Cicada

/-- the theorem's domain, per typed line -/
def lineOk (l : Str) : Bool := !hasInfix ['!', '!'] l && (l.head? == some ' ' || trim l == l)

def prevOpt (s : PSt) : Option Str := if s.previous = [] then none else some s.previous

theorem C18_prompt_space_never_recorded (dir : Str) (s : PSt) (typed : Str) (h : typed.head? = some ' ') :
    promptStep dir s typed = s := by
  unfold promptStep
  by_cases hb : trim typed = []
  · simp [hb]
  · simp [hb, shouldRecord, h]

theorem promptStep_blank (dir : Str) (s : PSt) (typed : Str) (h : trim typed = []) : promptStep dir s typed = s := by
  simp [promptStep, h]

theorem extendBangbang_noBang (prev l : Str) (h : hasInfix ['!', '!'] l = false) : extendBangbang prev l = l := by
  simp [extendBangbang, h]

theorem promptStep_repeat (dir : Str) (s : PSt) (typed : Str) (hb : hasInfix ['!', '!'] typed = false)
    (h : typed = s.previous) : promptStep dir s typed = s := by
  unfold promptStep
  by_cases hbl : trim typed = []
  · simp [hbl]
  · rw [extendBangbang_noBang _ _ hb]
    simp [hbl, shouldRecord, h]

theorem promptStep_new (dir : Str) (s : PSt) (typed : Str) (hb : hasInfix ['!', '!'] typed = false)
    (hbl : trim typed ≠ []) (hs : typed.head? ≠ some ' ') (h : typed ≠ s.previous) :
    promptStep dir s typed = { db := add s.db typed dir, previous := typed } := by
  unfold promptStep
  simp [hbl, extendBangbang_noBang _ _ hb, shouldRecord, h, hs]

theorem rows_add (db : Db) (line dir : Str) : (add db line dir).rows.map (·.inp) = db.rows.map (·.inp) ++ [trim line] := by
  simp [add]

theorem session_from (dir : Str) (lines : List Str) : ∀ (s : PSt), lines.all lineOk = true →
    (lines.foldl (promptStep dir) s).db.rows.map (·.inp) =
      s.db.rows.map (·.inp) ++ dedupFrom (prevOpt s) (lines.filter (fun l => trim l ≠ [] && l.head? ≠ some ' ')) := by
  induction lines with
  | nil => intro s _; simp [dedupFrom]
  | cons l rest ih =>
    intro s hall
    simp only [List.all_cons, Bool.and_eq_true] at hall
    obtain ⟨hl, hrest⟩ := hall
    simp only [lineOk, Bool.and_eq_true, Bool.not_eq_true', Bool.or_eq_true, beq_iff_eq] at hl
    obtain ⟨hb, hshape⟩ := hl
    simp only [List.foldl_cons]
    by_cases hbl : trim l = []
    · rw [promptStep_blank dir s l hbl, ih s hrest]
      simp [List.filter_cons, hbl]
    · by_cases hsp : l.head? = some ' '
      · rw [C18_prompt_space_never_recorded dir s l hsp, ih s hrest]
        simp [List.filter_cons, hsp]
      · have htr : trim l = l := by
          rcases hshape with h | h
          · exact absurd h hsp
          · exact h
        have hne : l ≠ [] := by intro e; rw [e] at hbl; exact hbl rfl
        have hkeep : (decide (trim l ≠ []) && decide (l.head? ≠ some ' ')) = true := by simp [hbl, hsp]
        rw [List.filter_cons, if_pos hkeep]
        by_cases heq : l = s.previous
        · rw [promptStep_repeat dir s l hb heq, ih s hrest]
          have : some l = prevOpt s := by
            unfold prevOpt; rw [← heq]; simp [hne]
          simp [dedupFrom, this]
        · rw [promptStep_new dir s l hb hbl hsp heq, ih _ hrest]
          have hno : ¬ (some l = prevOpt s) := by
            unfold prevOpt
            split
            · simp
            · intro e; injection e with e; exact heq e
          have hp : prevOpt { db := add s.db l dir, previous := l } = some l := by simp [prevOpt, hne]
          simp only [dedupFrom, hno, ↓reduceIte, hp, rows_add, htr, List.append_assoc, List.singleton_append]

/-- **C18 (prompt): the rows of a session are exactly the prescribed ones** -/
theorem C18_prompt_rows (dir : Str) (lines : List Str) (h : lines.all lineOk = true) :
    (promptSession dir lines).db.rows.map (·.inp) = specRecorded lines := by
  have := session_from dir lines {} h
  simpa [promptSession, specRecorded, prevOpt] using this

/-- no two neighbours are equal -/
def NoAdj : List Str → Prop
  | [] => True
  | [_] => True
  | x :: y :: r => x ≠ y ∧ NoAdj (y :: r)

theorem dedupFrom_noAdj : ∀ (l : List Str) (p : Option Str),
    (match p with
      | some x => NoAdj (x :: dedupFrom p l)
      | none => NoAdj (dedupFrom p l)) := by
  intro l
  induction l with
  | nil => intro p; cases p <;> simp [dedupFrom, NoAdj]
  | cons a r ih =>
    intro p
    cases p with
    | none =>
      have := ih (some a)
      simpa [dedupFrom] using this
    | some x =>
      by_cases h : a = x
      · have := ih (some x)
        simpa [dedupFrom, h] using this
      · have := ih (some a)
        have hx : x ≠ a := fun e => h e.symm
        simp only [dedupFrom, Option.some.injEq, h, ↓reduceIte, NoAdj]
        exact ⟨hx, this⟩

/-- on the domain, neighbouring rows of a session differ -/
theorem C18_prompt_no_adjacent_repeat (dir : Str) (lines : List Str) (h : lines.all lineOk = true) :
    NoAdj ((promptSession dir lines).db.rows.map (·.inp)) := by
  rw [C18_prompt_rows dir lines h]
  exact dedupFrom_noAdj _ none

/-! ### non-vacuity and the shape of the rule -/
example : lineOk "echo 'a;b' | cat".toList = true ∧ lineOk " secret".toList = true := by decide
/-- X, a hidden line, X again: one row (the hidden line does not reset the repeat filter) -/
example : (promptSession "/".toList ["echo one".toList, " echo hidden".toList, "echo one".toList, "echo two".toList]).db.rows.map (·.inp) =
    ["echo one".toList, "echo two".toList] := by decide
example : specRecorded ["a".toList, "a".toList, " b".toList, "a".toList, "c".toList, "  ".toList, "a".toList] =
    ["a".toList, "c".toList, "a".toList] := by decide

end Cicada.Hist
