import Cicada.Model.Jobs
/-!
# C06: the Running / Stopped column looks at the LIVE members only

`Job.allStopped` asks, for every pid still in the job, whether it is in the stopped set (`types.rs: all_members_stopped`).
`remove_pid_from_job` never removes a dead pid from the stopped set, so the set may hold stale pids; they must not count.
A seeded regression compared the SIZES of the two collections instead: a member stopped and then killed made a job with one stopped and
one running member look Stopped.
-/
namespace Cicada.Jobs

/-- a pid that is not a member of the job (any more) may sit in the stopped set without changing the answer -/
theorem C06_allStopped_ignores_stale (j : Job) (p : Pid) (h : p ∉ j.pids) :
    ({ j with stoppedSet := p :: j.stoppedSet } : Job).allStopped = j.allStopped := by
  rw [Bool.eq_iff_iff]
  simp only [Job.allStopped, List.all_eq_true]
  constructor
  · intro H x hx
    have hne : x ≠ p := fun e => h (e ▸ hx)
    have := H x hx
    simpa [List.contains_cons, hne] using this
  · intro H x hx
    have := H x hx
    simp only [List.contains_eq_mem, decide_eq_true_eq] at this
    simp [this]

/-- the answer is "every live member is in the set", not a comparison of sizes: -/
theorem C06_allStopped_iff (j : Job) : j.allStopped = true ↔ ∀ x ∈ j.pids, x ∈ j.stoppedSet := by
  simp [Job.allStopped, List.all_eq_true]

/-- sizes agree, yet the job is not stopped: members 200 (stopped) and 90 (running), stale pid 300 in the set -/
example : let j : Job := { id := 1, gid := 300, pids := [200, 90], stoppedSet := [300, 200], status := "Running", isBg := true }
    j.stoppedSet.length = j.pids.length ∧ j.allStopped = false := by decide

end Cicada.Jobs
