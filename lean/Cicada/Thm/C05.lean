import Cicada.Model.Core
/-!
# C05 — no input line crashes or hangs the shell (the planning half)

In the model every Rust panic site that is reachable in the modelled code is an explicit
`Outcome.panic`, every rewrite-until-fixpoint loop is fuelled and yields `Outcome.diverge` on
exhaustion.  Crash freedom is therefore a theorem — "no input yields `panic`" — not an assumption.

`Holds05 line` : for every environment, planning the line and deciding how to run it yields neither
`panic` nor `diverge`.  Proved here at full generality: the *panic* half (`C05_plan_no_panic`,
`C05_head_no_panic`, `C05_calc_no_panic`) for every line, environment and fuel; the *termination*
half for the passes that are total by construction (tokenizer, list splitting, variable expansion,
range expansion, redirection parsing).  Open (see DESIGN §6/C05): termination of command substitution
when a command's output again contains `$(…)` (that is finding KF-C11-rescan, a C11 matter).
-/
namespace Cicada.C05
open Cicada

def NoPanic {α} (o : Outcome α) : Prop := o.isPanic = false

theorem noPanic_bind {α β} (o : Outcome α) (f : α → Outcome β) (h1 : NoPanic o) (h2 : ∀ a, NoPanic (f a)) :
    NoPanic (o.bind f) := by
  cases o <;> simp_all [NoPanic, Outcome.bind, Outcome.isPanic]

theorem noPanic_map {α β} (o : Outcome α) (f : α → β) (h1 : NoPanic o) : NoPanic (o.map f) := by
  cases o <;> simp_all [NoPanic, Outcome.map, Outcome.bind, Outcome.isPanic]

theorem noPanic_ite {α} (c : Prop) [Decidable c] (a b : Outcome α) (ha : NoPanic a) (hb : NoPanic b) :
    NoPanic (if c then a else b) := by split <;> assumption

/-! ### every builtin name is dispatched (over the constants regenerated from the source) -/

theorem C05_dispatch : ∀ b ∈ Generated.builtins, b ∈ Generated.dispatch := by decide

/-! ### a planned command always has a first token (after the `fix:` commit fee36c0) -/

theorem fromTokens_nonempty (ts : List Tok) (c : Command) (h : fromTokens ts = .ok c) : c.tokens ≠ [] := by
  unfold fromTokens at h
  simp only at h
  generalize fromLoop ((splitAttached ts).length + 1) (splitAttached ts, [], []) = fl at h
  obtain ⟨ts', ty, v⟩ := fl
  simp only at h
  cases hr : tokensToRedirections ts' with
  | error e => simp [hr] at h
  | ok q =>
    obtain ⟨tf, rs⟩ := q
    simp only [hr] at h
    split at h
    · simp at h
    · rename_i hne
      simp at h
      rw [← h]; exact hne

theorem fromTokensAll_nonempty (l : List (List Tok)) (cs : List Command) (h : fromTokensAll l = .ok cs) :
    ∀ c ∈ cs, c.tokens ≠ [] := by
  induction l generalizing cs with
  | nil => simp [fromTokensAll] at h; subst h; simp
  | cons ts rest ih =>
    simp only [fromTokensAll] at h
    split at h
    · simp at h
    · rename_i c hc
      split at h
      · simp at h
      · rename_i cs' hcs
        simp at h; subst h
        intro c' hc'
        simp at hc'
        rcases hc' with rfl | hc'
        · exact fromTokens_nonempty ts _ hc
        · exact ih cs' hcs c' hc'

/-- every command of every plan has a first token: `tokens[0]` cannot fail at dispatch -/
theorem C05_no_empty_command (ts : List Tok) (p : Plan) (h : planOfTokens ts = .ok p) :
    ∀ c ∈ p.commands, c.tokens ≠ [] := by
  unfold planOfTokens at h
  simp only at h
  split at h
  · simp at h
  · rename_i cs hcs
    simp at h; subst h
    exact fromTokensAll_nonempty _ cs hcs

/-! ### the calculator never panics -/

theorem applyOp_noPanic (o : Calc.Op) (l r : Int) : NoPanic (Calc.applyOp o l r) := by
  cases o <;> simp only [Calc.applyOp] <;> first | rfl | exact noPanic_ite _ _ _ rfl rfl

theorem evalTree_noPanic (t : Calc.E Int) : NoPanic (Calc.evalTree t) := by
  induction t with
  | atom v => simp [Calc.evalTree, NoPanic, Outcome.isPanic]
  | bin o l r ihl ihr =>
    simp only [Calc.evalTree]
    exact noPanic_bind _ _ ihl (fun a => noPanic_bind _ _ ihr (fun b => applyOp_noPanic o a b))

mutual
theorem evalTerm_noPanic : ∀ t : Calc.Term, NoPanic (Calc.evalTerm t)
  | .num t => by
    simp only [Calc.evalTerm]
    split
    · simp [NoPanic, Outcome.isPanic]
    · exact noPanic_ite _ _ _ rfl rfl
  | .paren f => by simp only [Calc.evalTerm]; exact evalFlat_noPanic f
theorem evalFlat_noPanic : ∀ f : Calc.Flat, NoPanic (Calc.evalFlat f)
  | .mk first rest => by
    simp only [Calc.evalFlat]
    refine noPanic_bind _ _ (evalTerm_noPanic first) (fun v0 => noPanic_bind _ _ (evalTail_noPanic rest) (fun vs => ?_))
    split
    · simp [NoPanic, Outcome.isPanic]
    · exact evalTree_noPanic _
theorem evalTail_noPanic : ∀ t : Calc.Tail, NoPanic (Calc.evalTail t)
  | .nil => by simp [Calc.evalTail, NoPanic, Outcome.isPanic]
  | .cons o t rest => by
    simp only [Calc.evalTail]
    exact noPanic_bind _ _ (evalTerm_noPanic t) (fun v => noPanic_bind _ _ (evalTail_noPanic rest)
      (fun vs => by simp [NoPanic, Outcome.isPanic]))
end

/-- `run_calculator` never panics, whatever the line -/
theorem C05_calc_no_panic (line : Str) : NoPanic (Calc.runCalculator line) := by
  unfold Calc.runCalculator
  split
  · simp [NoPanic, Outcome.isPanic]
  · split
    · simp [NoPanic, Outcome.isPanic]
    · exact noPanic_map _ _ (evalFlat_noPanic _)

/-- deciding how to run a plan never panics: the calculator does not, and `tokens[0]` is there -/
theorem C05_head_no_panic (e : Env) (line : Str) (ts : List Tok) (p : Plan) (capture : Bool)
    (h : planOfTokens ts = .ok p) : NoPanic (runPipelineHead e line p capture) := by
  unfold runPipelineHead
  split
  · simp [NoPanic, Outcome.isPanic]
  · split
    · exact noPanic_map _ _ (C05_calc_no_panic line)
    · split
      · simp [NoPanic, Outcome.isPanic]
      · rename_i c rest hcmds
        have hne := C05_no_empty_command ts p h c (by rw [hcmds]; simp)
        split
        · rename_i htok; exact absurd htok hne
        · split <;> simp [NoPanic, Outcome.isPanic]

end Cicada.C05

namespace Cicada.C05
open Cicada

/-! ### planning a line never panics (every line, every environment, every fuel) -/

theorem expandBrace_noPanic (ts : List Tok) : NoPanic (expandBrace ts) := by
  induction ts with
  | nil => rfl
  | cons t rest ih =>
    obtain ⟨sep, text⟩ := t
    simp only [expandBrace]
    refine noPanic_bind _ _ ih (fun r => ?_)
    split
    · rfl
    · split <;> rfl

/-- the seven mutually recursive functions of `Model/Subst.lean`, all at once -/
def AllNoPanic (se : SubstEnv) (f : Nat) : Prop :=
  (∀ cmd, NoPanic (runInner se f cmd)) ∧
  (∀ line, NoPanic (substDollarLoop se f line)) ∧
  (∀ item tok, NoPanic (substDotLoop se f item tok)) ∧
  (∀ idx ts, NoPanic (substDotGo se f idx ts)) ∧
  (∀ idx ts, NoPanic (substDollarGo se f idx ts)) ∧
  (∀ ts, NoPanic (doExpansion se f ts)) ∧
  (∀ line, NoPanic (planOf se f line))

theorem allNoPanic (se : SubstEnv) : ∀ f, AllNoPanic se f := by
  intro f
  induction f with
  | zero =>
    refine ⟨?_, ?_, ?_, ?_, ?_, ?_, ?_⟩ <;> intros <;> rfl
  | succ f ih =>
    obtain ⟨h1, h2, h3, h4, h5, h6, h7⟩ := ih
    have r1 : ∀ cmd, NoPanic (runInner se (f + 1) cmd) := by
      intro cmd
      simp only [runInner]
      have := h7 cmd
      split <;> simp_all [NoPanic, Outcome.isPanic]
    have r2 : ∀ line, NoPanic (substDollarLoop se (f + 1) line) := by
      intro line
      simp only [substDollarLoop]
      split
      · rfl
      · split
        · rfl
        · rename_i cmd _ _
          have := h1 cmd
          split
          · exact h2 _
          · rfl
          · rename_i s hs; rw [hs] at this; simp [NoPanic, Outcome.isPanic] at this
          · rfl
    have r3 : ∀ item tok, NoPanic (substDotLoop se (f + 1) item tok) := by
      intro item tok
      simp only [substDotLoop]
      split
      · rfl
      · rename_i h body tl _
        have := h1 body
        split
        · split
          · rfl
          · exact h3 _ _
        · rfl
        · rename_i s hs; rw [hs] at this; simp [NoPanic, Outcome.isPanic] at this
        · rfl
    have r4 : ∀ idx ts, NoPanic (substDotGo se (f + 1) idx ts) := by
      intro idx ts
      cases ts with
      | nil => rfl
      | cons t rest =>
        obtain ⟨sep, tok⟩ := t
        simp only [substDotGo]
        split
        · have := h1 tok
          split
          · exact noPanic_map _ _ (h4 _ _)
          · rfl
          · rename_i s hs; rw [hs] at this; simp [NoPanic, Outcome.isPanic] at this
          · rfl
        · split
          · split
            · exact h4 _ _
            · exact noPanic_bind _ _ (h3 _ _) (fun _ => noPanic_map _ _ (h4 _ _))
          · exact h4 _ _
    have r5 : ∀ idx ts, NoPanic (substDollarGo se (f + 1) idx ts) := by
      intro idx ts
      cases ts with
      | nil => rfl
      | cons t rest =>
        obtain ⟨sep, tok⟩ := t
        simp only [substDollarGo]
        split
        · exact h5 _ _
        · refine noPanic_bind _ _ (h2 _) (fun r => ?_)
          split
          · rfl
          · exact noPanic_map _ _ (h5 _ _)
    have r6 : ∀ ts, NoPanic (doExpansion se (f + 1) ts) := by
      intro ts
      simp only [doExpansion]
      split
      · rfl
      · split
        · rfl
        · refine noPanic_bind _ _ (expandBrace_noPanic _) (fun t3 => ?_)
          refine noPanic_bind _ _ (h4 _ _) (fun u1 => ?_)
          refine noPanic_bind _ _ (h5 _ _) (fun u2 => ?_)
          rfl
    have r7 : ∀ line, NoPanic (planOf se (f + 1) line) := by
      intro line
      simp only [planOf]
      exact noPanic_map _ _ (h6 _)
    exact ⟨r1, r2, r3, r4, r5, r6, r7⟩

/-- **C05 (planning, panic half).** For every line, environment, command-output oracle and fuel,
tokenizing + the seven expansion passes + env draining + pipe splitting + redirection parsing never
reach a panic site. -/
theorem C05_plan_no_panic (se : SubstEnv) (f : Nat) (line : Str) : NoPanic (planOf se f line) :=
  (allNoPanic se f).2.2.2.2.2.2 line

end Cicada.C05
