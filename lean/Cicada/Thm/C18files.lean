import Cicada.Thm.C18p
/-!
# C18, the prompt: a history file renamed in mid-session loses nothing

The prompt loop (src/main.rs:150-174) RUNS the line first and records it AFTERWARDS; `history::add_raw` opens the file
named by `HISTORY_FILE` at that moment (creating the table if the file is new) and appends one row.  So when a
submitted line is `export HISTORY_FILE=…`, that very line is the first row of the second file.

`TSt` / `twoStep` / `twoSession` : the two-table session.  The decision what to record is literally that of `promptStep`
(blank line → nothing, not even run; `extendBangbang`; `shouldRecord typed line previous`); the row goes to `b` if the
session is on the second file after running this line, else to `a`.  `sw : Str → Bool` says whether the line that is
run (the typed line after `!!` expansion) is the switch; `second` is sticky.  A switch line that is not recorded (it
starts with a blank, or repeats the previous line) still switches.

`C18_two_files_refine` : for EVERY `dir`, `sw`, `lines`: `inp(a) ++ inp(b)` of the two-table session = the `inp` column
of the one-table session `promptSession dir lines`, and `previous` agrees.
`C18_two_files_a_frozen` : once on the second file, `a` never changes again (and `second` stays true).
`C18_two_files_rows` : on `lines.all lineOk`, `inp(a) ++ inp(b) = specRecorded lines`.
-/
namespace Cicada.Hist
open Cicada

structure TSt where
  a : Db := {}
  b : Db := {}
  second : Bool := false
  previous : Str := []
  deriving Repr

/-- one line typed at the prompt; `sw line` = running `line` renames the history file -/
def twoStep (dir : Str) (sw : Str → Bool) (t : TSt) (typed : Str) : TSt :=
  if trim typed = [] then t else
  let line := extendBangbang t.previous typed
  let second := t.second || sw line            -- the line is run before it is recorded
  if shouldRecord typed line t.previous then
    if second then { a := t.a, b := add t.b line dir, second := true, previous := line }
    else { a := add t.a line dir, b := t.b, second := false, previous := line }
  else { t with second := second }

def twoSession (dir : Str) (sw : Str → Bool) (lines : List Str) : TSt := lines.foldl (twoStep dir sw) {}

/-- the `inp` columns of the first file followed by those of the second -/
def TSt.inps (t : TSt) : List Str := t.a.rows.map (·.inp) ++ t.b.rows.map (·.inp)

/-- the simulation relation: same `previous`, same recorded texts, and the second table is still empty while the
session is on the first file (equivalently: `a` is frozen once `second = true`) -/
def Sim (t : TSt) (s : PSt) : Prop :=
  t.previous = s.previous ∧ t.inps = s.db.rows.map (·.inp) ∧ (t.second = false → t.b.rows = [])

theorem twoStep_sim (dir : Str) (sw : Str → Bool) (t : TSt) (s : PSt) (typed : Str) (h : Sim t s) :
    Sim (twoStep dir sw t typed) (promptStep dir s typed) := by
  obtain ⟨hp, hi, hb⟩ := h
  unfold twoStep promptStep
  by_cases hbl : trim typed = []
  · simp only [hbl, ↓reduceIte]; exact ⟨hp, hi, hb⟩
  · simp only [hbl, ↓reduceIte, hp]
    by_cases hr : shouldRecord typed (extendBangbang s.previous typed) s.previous = true
    · simp only [hr, ↓reduceIte]
      by_cases h2 : (t.second || sw (extendBangbang s.previous typed)) = true
      · simp only [h2, ↓reduceIte]
        refine ⟨rfl, ?_, by simp⟩
        simp only [TSt.inps] at hi ⊢
        rw [rows_add, rows_add, ← List.append_assoc, hi]
      · simp only [h2, Bool.false_eq_true, ↓reduceIte]
        have h2' : t.second = false := by
          cases hs : t.second
          · rfl
          · simp [hs] at h2
        have hbe := hb h2'
        refine ⟨rfl, ?_, fun _ => hbe⟩
        simp only [TSt.inps] at hi ⊢
        rw [hbe] at hi ⊢
        simp only [List.map_nil, List.append_nil] at hi ⊢
        rw [rows_add, rows_add, hi]
    · simp only [hr, Bool.false_eq_true, ↓reduceIte]
      refine ⟨rfl, hi, ?_⟩
      intro h2
      apply hb
      cases hs : t.second
      · rfl
      · simp [hs] at h2

theorem twoFold_sim (dir : Str) (sw : Str → Bool) (lines : List Str) : ∀ (t : TSt) (s : PSt), Sim t s →
    Sim (lines.foldl (twoStep dir sw) t) (lines.foldl (promptStep dir) s) := by
  induction lines with
  | nil => intro t s h; exact h
  | cons l rest ih =>
    intro t s h
    simp only [List.foldl_cons]
    exact ih _ _ (twoStep_sim dir sw t s l h)

/-- **C18 (prompt, two files): the rows of the first file followed by the rows of the second are exactly the rows of
the one-table session, and the repeat filter's memory agrees** — every `dir`, every switch predicate, every session -/
theorem C18_two_files_refine (dir : Str) (sw : Str → Bool) (lines : List Str) :
    (twoSession dir sw lines).a.rows.map (·.inp) ++ (twoSession dir sw lines).b.rows.map (·.inp) =
      (promptSession dir lines).db.rows.map (·.inp) ∧
    (twoSession dir sw lines).previous = (promptSession dir lines).previous := by
  have h := twoFold_sim dir sw lines {} {} ⟨rfl, rfl, fun _ => rfl⟩
  exact ⟨h.2.1, h.1⟩

/-- while the session is on the first file, the second file has no rows -/
theorem C18_two_files_b_empty_before (dir : Str) (sw : Str → Bool) (lines : List Str)
    (h : (twoSession dir sw lines).second = false) : (twoSession dir sw lines).b.rows = [] :=
  (twoFold_sim dir sw lines {} {} ⟨rfl, rfl, fun _ => rfl⟩).2.2 h

theorem twoStep_frozen (dir : Str) (sw : Str → Bool) (t : TSt) (typed : Str) (h : t.second = true) :
    (twoStep dir sw t typed).second = true ∧ (twoStep dir sw t typed).a = t.a := by
  unfold twoStep
  by_cases hbl : trim typed = []
  · simp [hbl, h]
  · by_cases hr : shouldRecord typed (extendBangbang t.previous typed) t.previous = true
    · simp [hbl, hr, h]
    · simp [hbl, hr, h]

/-- once on the second file the session stays there and the first file is never written again -/
theorem C18_two_files_a_frozen (dir : Str) (sw : Str → Bool) (lines : List Str) : ∀ (t : TSt), t.second = true →
    (lines.foldl (twoStep dir sw) t).second = true ∧ (lines.foldl (twoStep dir sw) t).a = t.a := by
  induction lines with
  | nil => intro t h; exact ⟨h, rfl⟩
  | cons l rest ih =>
    intro t h
    simp only [List.foldl_cons]
    obtain ⟨h1, h2⟩ := twoStep_frozen dir sw t l h
    obtain ⟨h3, h4⟩ := ih _ h1
    exact ⟨h3, h4.trans h2⟩

/-- **C18 (prompt, two files), against the statement**: on the domain of `C18_prompt_rows` the two files together hold
exactly the prescribed lines, in order -/
theorem C18_two_files_rows (dir : Str) (sw : Str → Bool) (lines : List Str) (h : lines.all lineOk = true) :
    (twoSession dir sw lines).a.rows.map (·.inp) ++ (twoSession dir sw lines).b.rows.map (·.inp) = specRecorded lines := by
  rw [(C18_two_files_refine dir sw lines).1, C18_prompt_rows dir lines h]

/-! ### non-vacuity -/
/-- the switch in the middle of a 6-line session (one immediate repeat): 2 rows in the first file, 3 in the second, the
switch line itself being the first row of the second file -/
example :
    let sw : Str → Bool := fun l => l == "export HISTORY_FILE=/tmp/h2.db".toList
    let ls := ["echo one".toList, "echo two".toList, "export HISTORY_FILE=/tmp/h2.db".toList, "echo three".toList,
               "echo three".toList, "echo four".toList]
    (twoSession "/".toList sw ls).a.rows.map (·.inp) = ["echo one".toList, "echo two".toList] ∧
    (twoSession "/".toList sw ls).b.rows.map (·.inp) =
      ["export HISTORY_FILE=/tmp/h2.db".toList, "echo three".toList, "echo four".toList] ∧
    (twoSession "/".toList sw ls).second = true ∧
    ls.all lineOk = true := by decide

/-- a switch line typed with a leading blank is run (the session moves to the second file) but not recorded -/
example :
    let sw : Str → Bool := fun l => l == " export HISTORY_FILE=h2".toList
    let ls := ["a".toList, " export HISTORY_FILE=h2".toList, "b".toList]
    (twoSession "/".toList sw ls).a.rows.map (·.inp) = ["a".toList] ∧
    (twoSession "/".toList sw ls).b.rows.map (·.inp) = ["b".toList] := by decide

/-- row ids restart in the second file (why only the `inp` columns are compared) -/
example :
    let sw : Str → Bool := fun l => l == "sw".toList
    (twoSession "/".toList sw ["a".toList, "sw".toList, "b".toList]).b.rows.map (·.rowid) = [1, 2] ∧
    (promptSession "/".toList ["a".toList, "sw".toList, "b".toList]).db.rows.map (·.rowid) = [1, 2, 3] := by decide

end Cicada.Hist
