import Cicada.Thm.C19peg
import Cicada.Thm.C19rerender
/-! every theorem file of property C19 -/
