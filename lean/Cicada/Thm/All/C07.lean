import Cicada.Thm.C07
import Cicada.Thm.C07probe
import Cicada.Thm.C07numbered
/-! every theorem file of property C07 -/
