import Cicada.Thm.C07
import Cicada.Thm.C07probe
/-! every theorem file of property C07 -/
