import Cicada.Thm.C03more
import Cicada.Thm.C03prefix
/-! every theorem file of property C03 -/
