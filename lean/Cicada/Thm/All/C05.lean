import Cicada.Thm.C05hl
import Cicada.Thm.C14layout
/-! every theorem file of property C05 (the module audited by `./check C05`): planning and highlighter halves, and the script
parser's fuel sufficiency (`C05_parse_total`, proved next to the layout round trip of C14) -/
