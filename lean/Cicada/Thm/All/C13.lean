import Cicada.Thm.C13glob
import Cicada.Thm.C13twice
/-! every theorem file of property C13 -/
