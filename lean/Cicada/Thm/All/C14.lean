import Cicada.Thm.C14layout
import Cicada.Thm.C15sess
/-! every theorem file of property C14 (function bodies: `C14_function_body_refines` is proved next to the session theorems of C15) -/
