import Cicada.Thm.C06c
import Cicada.Thm.C06d
/-! every theorem file of property C06 -/
