import Cicada.Thm.C06c
import Cicada.Thm.C06d
import Cicada.Thm.C06stale
/-! every theorem file of property C06 -/
