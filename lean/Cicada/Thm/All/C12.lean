import Cicada.Thm.C12glob
import Cicada.Thm.C12range
import Cicada.Thm.C12two
/-! every theorem file of property C12 (the module audited by `./check C12`) -/
