import Cicada.Thm.C15
import Cicada.Thm.C15word
/-! every theorem file of property C15 (the module audited by `./check C15`) -/
