import Cicada.Thm.C15
import Cicada.Thm.C15word
import Cicada.Thm.C15sess
/-! every theorem file of property C15 (the module audited by `./check C15`) -/
