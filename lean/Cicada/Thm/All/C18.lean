import Cicada.Thm.C18p
import Cicada.Thm.C18more
/-! every theorem file of property C18 -/
