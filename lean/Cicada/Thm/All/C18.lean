import Cicada.Thm.C18p
import Cicada.Thm.C18more
import Cicada.Thm.C18files
/-! every theorem file of property C18 -/
