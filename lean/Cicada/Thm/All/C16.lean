import Cicada.Thm.C16
import Cicada.Thm.C15word
import Cicada.Thm.C16bang
/-! every theorem file of property C16 (the module audited by `./check C16`) -/
