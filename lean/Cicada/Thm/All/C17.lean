import Cicada.Thm.C17list
import Cicada.Thm.C17quoted
/-! every theorem file of property C17 -/
