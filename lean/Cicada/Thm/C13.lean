import Cicada.Spec.C13
import Cicada.Thm.C10
import Cicada.Lemmas.Passes
/-!
# C13 — results of expansions are data and are never re-read as shell syntax

`C13_dq_var` : a plain command whose arguments are double-quoted `"$N"` / `"${N}"` deliveries is planned as
one foreground stage without any redirection, and **each value arrives as exactly one argument, verbatim**
— for every environment and every value (any characters: `| & ; < > # * { } ~`, blanks, `$`, …) that does
not itself spell a command substitution (no backquote pair, no `$(…)`).  The excluded values are a genuine
defect of the tree — a value `` `cmd` `` or `$(cmd)` *is executed*, even inside double quotes — refuted
below (`C13_finding_value_substitution`) and listed as KF-C13-value-substitution.
Unquoted deliveries: values that spell an operator (`|`, `>`, `a>b`, a last `&`, `<`) do create pipes,
files and background jobs — KF-C13-unquoted-operator (witness below).
-/
namespace Cicada.C13
open Cicada Cicada.PassLemmas Cicada.TokLemmas

/-- double-quoted variable deliveries only -/
def dqVars (ds : List Delivery) : Bool :=
  ds.all (fun d => d.dq && (d.form = .var || d.form = .braced) && C10.isIdent d.name)

/-- the token a double-quoted delivery is read as -/
def tokIn (d : Delivery) : Tok :=
  (['"'], match d.form with
    | .var => '$' :: d.name
    | .braced => '$' :: '{' :: (d.name ++ ['}'])
    | .dollarParen => '$' :: '(' :: (d.name ++ [')'])
    | .backquote => '`' :: (d.name ++ ['`']))

def tokOut (se : SubstEnv) (d : Delivery) : Tok := (['"'], d.value se)

/-- a value that does not itself spell a command substitution -/
def valueOk (v : Str) : Bool := (matchBackquote v).isNone && !shouldDoDollar v

theorem no_eq_reQuoted (t : Str) (h : ∀ c ∈ t, c ≠ '=') : reQuotedAssignWithVar t = false := by
  induction t with
  | nil => rfl
  | cons c cs ih =>
    have hc := h c (by simp)
    simp [reQuotedAssignWithVar, hc, ih (fun x hx => h x (by simp [hx]))]

theorem ident_facts (n : Str) (h : C10.isIdent n = true) :
    ∃ c cs, n = c :: cs ∧ isNameStart c = true ∧ (∀ x ∈ n, isNameChar x = true) := by
  cases n with
  | nil => simp [C10.isIdent] at h
  | cons c cs =>
    simp only [C10.isIdent, Bool.and_eq_true, List.all_eq_true] at h
    refine ⟨c, cs, rfl, h.1, ?_⟩
    intro x hx
    simp at hx
    rcases hx with rfl | hx
    · have := h.1; simp only [isNameStart, isNameChar, Bool.or_eq_true] at *; rcases this with a | a <;> simp [a]
    · exact h.2 x hx

theorem nameChar_ne (x : Char) (h : isNameChar x = true) : x ≠ '=' ∧ x ≠ '$' ∧ x ≠ '(' ∧ x ≠ '{' ∧ x ≠ '?' := by
  refine ⟨?_, ?_, ?_, ?_, ?_⟩ <;> (intro e; subst e; revert h; decide)

theorem envInToken_of (t : Str) (h1 : reDollarName t = true) (h2 : reAssignBackquote t = false)
    (h3 : reAssignDollarParen t = false) (h4 : reWholeDollarParen t = false) (h5 : reQuotedAssignWithVar t = false) :
    envInToken t = true := by
  unfold envInToken
  split
  · rfl
  · simp [h1, h2, h3, h4, h5]

theorem stripName_dollar (r : Str) : stripName ('$' :: r) = none := by
  have : isNameStart '$' = false := by decide
  simp [stripName, this]

theorem envInToken_var (n : Str) (h : C10.isIdent n = true) : envInToken ('$' :: n) = true := by
  obtain ⟨c, cs, rfl, hc, hall⟩ := ident_facts n h
  have hne : ∀ x ∈ '$' :: c :: cs, x ≠ '=' := by
    intro x hx; simp at hx
    rcases hx with rfl | hx
    · decide
    · exact (nameChar_ne x (hall x (by simpa using hx))).1
  have hc2 := nameChar_ne c (hall c (by simp))
  apply envInToken_of
  · simp [reDollarName, hc]
  · simp [reAssignBackquote, stripName_dollar]
  · simp [reAssignDollarParen, stripName_dollar]
  · simp [reWholeDollarParen, hc2.2.2.1]
  · exact no_eq_reQuoted _ hne

theorem envInToken_braced (n : Str) (h : C10.isIdent n = true) : envInToken ('$' :: '{' :: (n ++ ['}'])) = true := by
  obtain ⟨c, cs, rfl, hc, hall⟩ := ident_facts n h
  have hne : ∀ x ∈ '$' :: '{' :: (c :: cs ++ ['}']), x ≠ '=' := by
    intro x hx; simp at hx
    rcases hx with rfl | rfl | hx
    · decide
    · decide
    · rcases hx with rfl | hx | rfl
      · exact (nameChar_ne _ (hall _ (by simp))).1
      · exact (nameChar_ne x (hall x (by simp [hx]))).1
      · decide
  apply envInToken_of
  · simp [reDollarName, hc]
  · simp [reAssignBackquote, stripName_dollar]
  · simp [reAssignDollarParen, stripName_dollar]
  · simp [reWholeDollarParen]
  · exact no_eq_reQuoted _ hne

theorem expandEnvs_delivery (se : SubstEnv) (d : Delivery) (hf : d.form = .var ∨ d.form = .braced) (hn : C10.isIdent d.name = true) :
    expandEnvs se.env (tokIn d).2 = d.value se := by
  rcases hf with hf | hf
  · have := C10.C10_full_holds se.env [.var d.name] (by simp [C10.wordOk, C10.segOk, hn, C10.render])
    simpa [C10.Holds10, C10.render, C10.Seg.render, C10.specExpand, C10.Seg.value, tokIn, hf, Delivery.value] using this
  · have := C10.C10_full_holds se.env [.braced d.name] (by simp [C10.wordOk, C10.segOk, hn])
    simpa [C10.Holds10, C10.render, C10.Seg.render, C10.specExpand, C10.Seg.value, tokIn, hf, Delivery.value] using this

theorem expandEnv_deliveries (se : SubstEnv) (ds : List Delivery) (h : dqVars ds = true) :
    expandEnv se.env (ds.map tokIn) = ds.map (tokOut se) := by
  induction ds with
  | nil => rfl
  | cons d rest ih =>
    simp only [dqVars, List.all_cons, Bool.and_eq_true, Bool.or_eq_true, decide_eq_true_eq] at h
    obtain ⟨⟨⟨_, hf⟩, hn⟩, hrest⟩ := h
    have ihr := ih (by simpa [dqVars] using hrest)
    have hgate : envInToken (tokIn d).2 = true := by
      rcases hf with hf | hf
      · simp [tokIn, hf, envInToken_var d.name hn]
      · simp [tokIn, hf, envInToken_braced d.name hn]
    simp only [expandEnv, List.map_cons] at ihr ⊢
    rw [ihr]
    congr 1
    have e1 : (tokIn d).1 = ['"'] := rfl
    simp [e1, hgate, tokOut, expandEnvs_delivery se d hf hn]

/-- **C13, double-quoted variables.** -/
theorem C13_dq_var (se : SubstEnv) (p : Str) (ds : List Delivery) (f : Nat)
    (hp : C01.plainWord p = true) (ha : lookup se.env.aliases p = none) (hx : p ≠ "xargs".toList)
    (hd : dqVars ds = true) (hv : ∀ d ∈ ds, valueOk (d.value se) = true) (hf : ds.length + 3 < f) :
    doExpansion se f (([], p) :: ds.map tokIn) = .ok (([], p) :: ds.map (tokOut se)) ∧
    planOfTokens (([], p) :: ds.map (tokOut se)) =
      .ok { commands := [{ tokens := ([], p) :: ds.map (tokOut se), redirectsTo := [], redirectFrom := none }],
            envs := [], background := false } := by
  obtain ⟨hw, hl⟩ : p.all wordChar = true ∧ p.any isAlphaA = true := by
    simp only [C01.plainWord, Bool.and_eq_true] at hp
    exact ⟨by simpa [wordChar] using hp.2, hp.1⟩
  have hin : ∀ t ∈ ds.map tokIn, t.1 ≠ [] := by
    intro t ht; simp only [List.mem_map] at ht; obtain ⟨d, _, rfl⟩ := ht; simp [tokIn]
  have hout : ∀ t ∈ ds.map (tokOut se), t.1 ≠ [] := by
    intro t ht; simp only [List.mem_map] at ht; obtain ⟨d, _, rfl⟩ := ht; simp [tokOut]
  constructor
  · cases f with
    | zero => omega
    | succ f =>
      have n1 := word_no p hw '|' (by decide)
      have n2 := word_no p hw '~' (by decide)
      have n3 := word_no p hw '$' (by decide)
      have n4 := word_no p hw '{' (by decide)
      have n5 := word_no p hw '*' (by decide)
      have n6 := word_no p hw '`' (by decide)
      have hp1 : p ≠ ['|'] := by intro e; exact n1 '|' (by rw [e]; simp) rfl
      have hph : p.head? ≠ some '~' := by
        cases p with
        | nil => simp
        | cons c cs => intro e; simp at e; exact n2 c (by simp) e
      have harith : isArithmetic (tokensToLine (([], p) :: ds.map tokIn)) = false := by
        apply any_alpha_not_arith
        simp only [tokensToLine, List.map_cons]
        apply joinWith_any_head
        simpa [tokenToText] using hl
      have hns : ∀ t ∈ ([], p) :: ds.map (tokOut se), NoSubst t := by
        intro t ht
        simp at ht
        rcases ht with rfl | ⟨d, hd1, rfl⟩
        · exact Or.inr ⟨Or.inr rfl, matchBackquote_none _ n6, shouldDoDollar_false _ n3⟩
        · have := hv d hd1
          simp only [valueOk, Bool.and_eq_true, Option.isNone_iff_eq_none, Bool.not_eq_true'] at this
          exact Or.inr ⟨Or.inl rfl, this.1, this.2⟩
      have hprompt : ¬ ((([], p) :: ds.map tokIn).length ≥ 2 ∧ ((([], p) :: ds.map tokIn).getD 0 ([], [])).2 = "export".toList ∧
          startsWith ((([], p) :: ds.map tokIn).getD 1 ([], [])).2 "PROMPT=".toList = true) := by
        intro ⟨h1, _, h3⟩
        cases ds with
        | nil => simp at h1
        | cons d rest =>
          simp only [List.map_cons, List.getD_cons_succ, List.getD_cons_zero] at h3
          revert h3
          simp only [tokIn]
          cases hform : d.form <;> simp [startsWith]
      simp only [doExpansion, harith, Bool.false_eq_true, ↓reduceIte]
      rw [if_neg hprompt]
      rw [expandAlias_id se.env p _ hin hp1 hx ha, expandHome_id se.env p _ hin hph]
      have henv : expandEnv se.env (([], p) :: ds.map tokIn) = ([], p) :: ds.map (tokOut se) := by
        have := expandEnv_deliveries se ds hd
        simp only [expandEnv, List.map_cons] at this ⊢
        rw [this]
        simp [envInToken_false p n3]
      rw [henv, expandBrace_id p _ hout n4]
      simp only [Outcome.bind]
      rw [expandGlob_id se.env p _ hout n5, substDotGo_none se _ f 0 (by simp; omega) hns]
      simp only [doExpansion.applyUpdates, List.foldl_nil]
      rw [substDollarGo_none se _ f 0 (by simp; omega) hns]
      simp only [doExpansion.applyUpdates, List.foldl_nil, expandBraceRange_id p _ hout n4]
  · have hpe := word_no p hw '=' (by decide)
    have hpa : ArgTok ([], p) := by
      refine Or.inr ⟨?_, ?_, ?_, ?_⟩
      · intro e; exact word_no p hw '|' (by decide) '|' (by have e' : p = _ := e; rw [e']; simp) rfl
      · intro e
        have e' : p.head? = some '<' := e
        exact word_no p hw '<' (by decide) '<' (List.mem_of_mem_head? e') rfl
      · intro e; exact word_no p hw '&' (by decide) '&' (by have e' : p = _ := e; rw [e']; simp) rfl
      · exact word_no p hw '>' (by decide)
    have hq : ∀ t ∈ ds.map (tokOut se), ArgTok t := fun t ht => Or.inl (hout t ht)
    have hlast : (([], p) :: ds.map (tokOut se)).length > 1 → (([], p) :: ds.map (tokOut se)).getLast? ≠ some ([], ['&']) := by
      intro hlen e
      have hmem := List.mem_of_getLast? e
      simp only [List.mem_cons] at hmem
      rcases hmem with h | h
      · cases hm : ds.map (tokOut se) with
        | nil => rw [hm] at hlen; simp at hlen
        | cons y ys =>
          rw [hm] at e
          rw [List.getLast?_cons_cons] at e
          have hmem2 := List.mem_of_getLast? e
          rw [← hm] at hmem2
          exact hout _ hmem2 rfl
      · exact hout _ h rfl
    exact planOfTokens_args p _ hpe hpa hq hlast

/-! ### findings (kernel-checked on the model; the check confirms them on the implementation) -/

def wEnv : SubstEnv :=
  { env := { vars := [("X".toList, "`id`".toList), ("P".toList, "|".toList), ("G".toList, "a>b".toList)] },
    cmdOut := fun k => if k = "id".toList then "uid=0".toList else [] }

/-- `X='`id`'; prog "$X"` runs `id`: the value is executed (KF-C13-value-substitution) -/
theorem C13_finding_value_substitution :
    doExpansion wEnv 20 [([], "prog".toList), (['"'], "$X".toList)] = .ok [([], "prog".toList), (['"'], "uid=0".toList)] := by
  rfl

/-- `P='|'; prog $P q` is planned as a two-stage pipeline (KF-C13-unquoted-operator) -/
theorem C13_finding_unquoted_pipe :
    (planOf wEnv 20 "prog $P q".toList).map (fun r => r.toOption.map (fun p => p.commands.length)) = .ok (some 2) := by
  rfl

/-- `G='a>b'; prog $G` redirects stdout to file `b` -/
theorem C13_finding_unquoted_redirect :
    (planOf wEnv 20 "prog $G".toList).map (fun r => r.toOption.map (fun p => p.commands.map (·.redirectsTo))) =
      .ok (some [[("1".toList, ">".toList, "b".toList)]]) := by
  rfl

/-! ### non-vacuity: values full of metacharacters are inside the proved domain -/
example : valueOk "a>b | c & ; < x # $Y ${Z} * {p,q} ~ $(".toList = true := by decide

end Cicada.C13
