import Cicada.Thm.C06
namespace Cicada.C06
open Cicada.Jobs

/-- ids strictly increasing along the table (hence pairwise distinct) -/
def IdsOk (s : Sh) : Prop := (s.jobs.map (·.id)).Pairwise (· < ·)

theorem idsOk_of_jobs_eq {s s' : Sh} (h : s'.jobs = s.jobs) (hs : IdsOk s) : IdsOk s' := by
  unfold IdsOk at *; rw [h]; exact hs

theorem map_id_updMap (l : List Job) (i : Nat) (f : Job → Job) (hf : ∀ x, (f x).id = x.id) :
    (l.map fun x => if x.id = i then f x else x).map (·.id) = l.map (·.id) := by
  induction l with
  | nil => rfl
  | cons x xs ih =>
    simp only [List.map_cons, ih]
    split <;> simp [hf]

theorem idsOk_updJob (s : Sh) (i : Nat) (f : Job → Job) (hf : ∀ x, (f x).id = x.id) (hs : IdsOk s) : IdsOk (updJob s i f) := by
  unfold IdsOk updJob at *
  simp only
  rw [map_id_updMap _ _ _ hf]; exact hs

theorem idsOk_filter (s : Sh) (p : Job → Bool) (hs : IdsOk s) : IdsOk { s with jobs := s.jobs.filter p } := by
  unfold IdsOk at *
  simp only
  exact hs.sublist (List.Sublist.map _ List.filter_sublist)

theorem insertSorted_ids (j : Job) : ∀ (l : List Job), (l.map (·.id)).Pairwise (· < ·) → (∀ x ∈ l, x.id ≠ j.id) →
    ((insertSorted j l).map (·.id)).Pairwise (· < ·) ∧ ∀ y ∈ insertSorted j l, y = j ∨ y ∈ l := by
  intro l
  induction l with
  | nil => intro _ _; simp [insertSorted]
  | cons x xs ih =>
    intro hp hne
    simp only [List.map_cons, List.pairwise_cons] at hp
    have hx : x.id ≠ j.id := hne x List.mem_cons_self
    unfold insertSorted
    split
    · rename_i hlt
      refine ⟨?_, ?_⟩
      · simp only [List.map_cons, List.pairwise_cons]
        refine ⟨?_, hp⟩
        intro a ha
        simp only [List.mem_cons, List.mem_map] at ha
        rcases ha with rfl | ⟨y, hy, rfl⟩
        · exact hlt
        · have := hp.1 y.id (List.mem_map.mpr ⟨y, hy, rfl⟩); omega
      · intro y hy
        simp only [List.mem_cons] at hy ⊢
        rcases hy with rfl | hy
        · exact Or.inl rfl
        · exact Or.inr hy
    · rename_i hge
      have ⟨h1, h2⟩ := ih hp.2 (fun y hy => hne y (List.mem_cons_of_mem _ hy))
      refine ⟨?_, ?_⟩
      · simp only [List.map_cons, List.pairwise_cons]
        refine ⟨?_, h1⟩
        intro a ha
        obtain ⟨y, hy, rfl⟩ := List.mem_map.mp ha
        rcases h2 y hy with rfl | hy'
        · omega
        · exact hp.1 y.id (List.mem_map.mpr ⟨y, hy', rfl⟩)
      · intro y hy
        simp only [List.mem_cons] at hy ⊢
        rcases hy with rfl | hy
        · exact Or.inr (Or.inl rfl)
        · rcases h2 y hy with h | h
          · exact Or.inl h
          · exact Or.inr (Or.inr h)

theorem idsOk_insertJobGo (s : Sh) (gid pid : Pid) (bg : Bool) (hs : IdsOk s) : ∀ (f i : Nat), IdsOk (insertJobGo s gid pid bg f i) := by
  intro f
  induction f with
  | zero => intro i; exact hs
  | succ f ih =>
    intro i
    simp only [insertJobGo]
    cases hfind : s.jobs.find? (·.id = i) with
    | none =>
      simp only
      unfold IdsOk
      refine (insertSorted_ids _ s.jobs hs ?_).1
      intro x hx e
      have := List.find?_eq_none.mp hfind x hx
      simp at this; exact this e
    | some j =>
      simp only
      split
      · exact idsOk_updJob s i (fun x => { x with pids := x.pids ++ [pid] }) (fun _ => rfl) hs
      · exact ih (i + 1)

theorem idsOk_insertJob (s : Sh) (gid pid : Pid) (bg : Bool) (hs : IdsOk s) : IdsOk (insertJob s gid pid bg) :=
  idsOk_insertJobGo s gid pid bg hs _ _

theorem idsOk_removePid (s : Sh) (gid pid : Pid) (hs : IdsOk s) : IdsOk (removePid s gid pid) := by
  unfold removePid
  split
  · exact hs
  · simp only
    split
    · exact idsOk_filter s _ hs
    · exact idsOk_updJob s _ _ (fun _ => rfl) hs

theorem idsOk_ite (c : Prop) [Decidable c] (a b : Sh) (ha : IdsOk a) (hb : IdsOk b) : IdsOk (if c then a else b) := by
  split <;> assumption

theorem idsOk_markMemberStopped (s : Sh) (pid gid : Pid) (hs : IdsOk s) : IdsOk (markMemberStopped s pid gid) := by
  unfold markMemberStopped
  split
  · exact hs
  · simp only
    apply idsOk_ite
    · exact idsOk_updJob _ _ _ (fun _ => rfl) (idsOk_updJob s _ _ (fun _ => rfl) hs)
    · exact idsOk_updJob s _ _ (fun _ => rfl) hs

theorem idsOk_markMemberContinued (s : Sh) (pid gid : Pid) (hs : IdsOk s) : IdsOk (markMemberContinued s pid gid) := by
  unfold markMemberContinued
  split
  · exact hs
  · simp only
    apply idsOk_ite
    · exact idsOk_updJob _ _ _ (fun _ => rfl) (idsOk_updJob s _ _ (fun _ => rfl) hs)
    · exact idsOk_updJob s _ _ (fun _ => rfl) hs

theorem idsOk_waitFgGo (gid : Pid) (pids : List Pid) : ∀ (evs : List Ev) (s : Sh) (w : Nat) (st : Int), IdsOk s →
    IdsOk (waitFgGo gid pids evs s w st).1 := by
  intro evs
  induction evs with
  | nil => intro s w st hs; exact idsOk_of_jobs_eq rfl hs
  | cons e rest ih =>
    intro s w st hs
    cases e with
    | continued p =>
      simp only [waitFgGo]
      apply ih
      split
      · exact hs
      · exact idsOk_of_jobs_eq rfl hs
    | exited p c =>
      simp only [waitFgGo, Ev.pid]
      by_cases hfg : pids.contains p = true
      · simp only [hfg, ↓reduceIte, true_and]
        have h1 : IdsOk (removePid s gid p) := by first | exact idsOk_removePid s _ _ hs | exact idsOk_markMemberStopped s _ _ hs
        split
        · exact idsOk_of_jobs_eq rfl h1
        · exact ih _ _ _ h1
      · simp only [hfg, ↓reduceIte, false_and, Bool.false_eq_true]
        have h1 : IdsOk ({ s with reap := putMap s.reap p c }) := by first | exact idsOk_of_jobs_eq rfl hs | exact idsOk_markMemberStopped _ _ _ (idsOk_of_jobs_eq rfl hs)
        split
        · exact idsOk_of_jobs_eq rfl h1
        · exact ih _ _ _ h1
    | killed p c =>
      simp only [waitFgGo, Ev.pid]
      by_cases hfg : pids.contains p = true
      · simp only [hfg, ↓reduceIte, true_and]
        have h1 : IdsOk (removePid s gid p) := by first | exact idsOk_removePid s _ _ hs | exact idsOk_markMemberStopped s _ _ hs
        split
        · exact idsOk_of_jobs_eq rfl h1
        · exact ih _ _ _ h1
      · simp only [hfg, ↓reduceIte, false_and, Bool.false_eq_true]
        have h1 : IdsOk ({ s with kill := putMap s.kill p c }) := by first | exact idsOk_of_jobs_eq rfl hs | exact idsOk_markMemberStopped _ _ _ (idsOk_of_jobs_eq rfl hs)
        split
        · exact idsOk_of_jobs_eq rfl h1
        · exact ih _ _ _ h1
    | stopped p c =>
      simp only [waitFgGo, Ev.pid]
      by_cases hfg : pids.contains p = true
      · simp only [hfg, ↓reduceIte, true_and]
        have h1 : IdsOk (markMemberStopped s p gid) := by first | exact idsOk_removePid s _ _ hs | exact idsOk_markMemberStopped s _ _ hs
        split
        · exact idsOk_of_jobs_eq rfl h1
        · exact ih _ _ _ h1
      · simp only [hfg, ↓reduceIte, false_and, Bool.false_eq_true]
        have h1 : IdsOk (markMemberStopped { s with stop := addOnce s.stop p } p 0) := by first | exact idsOk_of_jobs_eq rfl hs | exact idsOk_markMemberStopped _ _ _ (idsOk_of_jobs_eq rfl hs)
        split
        · exact idsOk_of_jobs_eq rfl h1
        · exact ih _ _ _ h1

theorem foldl_inv {α β} (P : α → Prop) (f : α → β → α) (hf : ∀ a b, P a → P (f a b)) : ∀ (l : List β) (a : α), P a → P (l.foldl f a) := by
  intro l
  induction l with
  | nil => intro a h; exact h
  | cons x xs ih => intro a h; exact ih _ (hf a x h)

theorem idsOk_park (s : Sh) (hs : IdsOk s) : IdsOk (park s) := by
  unfold park
  apply foldl_inv IdsOk
  · intro a e ha
    cases e <;> exact idsOk_of_jobs_eq rfl ha
  · exact idsOk_of_jobs_eq rfl hs

theorem idsOk_applyParked (s : Sh) (hs : IdsOk s) : IdsOk (applyParked s) := by
  unfold applyParked
  apply foldl_inv IdsOk _ _ _ _ hs
  intro a job ha
  apply foldl_inv IdsOk _ _ _ _ ha
  intro a pid ha
  apply idsOk_ite
  · exact idsOk_removePid _ _ _ (idsOk_of_jobs_eq rfl ha)
  apply idsOk_ite
  · exact idsOk_removePid _ _ _ (idsOk_of_jobs_eq rfl ha)
  apply idsOk_ite
  · exact idsOk_markMemberStopped _ _ _ (idsOk_of_jobs_eq rfl ha)
  apply idsOk_ite
  · exact idsOk_markMemberContinued _ _ _ (idsOk_of_jobs_eq rfl ha)
  · exact ha

theorem idsOk_step (s : Sh) (o : Op) (hs : IdsOk s) : IdsOk (step s o).1 := by
  cases o with
  | launch bg gid pids =>
    simp only [step]
    exact foldl_inv IdsOk _ (fun a p ha => idsOk_insertJob a gid p bg ha) _ _ hs
  | ev e => exact idsOk_of_jobs_eq rfl hs
  | waitFg gid pids =>
    simp only [step, waitFg]
    split
    · exact hs
    · exact idsOk_waitFgGo gid pids _ _ _ _ hs
  | poll =>
    simp only [step, poll]
    split
    · exact hs
    · exact idsOk_applyParked _ (idsOk_park s hs)

/-- **C06 — job ids are unique in every reachable state**: after ANY history of launches, child events (exit, kill, stop,
continue, for any pid, in any order), foreground waits and prompt-time polls the table's ids are strictly increasing along the
table, hence pairwise distinct -/
theorem C06_ids_unique (ops : List Op) : IdsOk (ops.foldl (fun s o => (step s o).1) {}) := by
  apply foldl_inv IdsOk _ (fun a o ha => idsOk_step a o ha)
  exact List.Pairwise.nil

theorem C06_ids_nodup (ops : List Op) : ((ops.foldl (fun s o => (step s o).1) {}).jobs.map (·.id)).Nodup := by
  have h := C06_ids_unique ops
  unfold IdsOk at h
  exact h.imp (fun hlt => Nat.ne_of_lt hlt)

end Cicada.C06
