import Cicada.Thm.C14peg
import Cicada.Lemmas.LocustLayout
import Cicada.Lemmas.InterpBlank
import Cicada.Lemmas.LocustFuel
/-!
# C14, the parser half — the PEG round trip in other layouts

`Thm/C14peg.lean` (`C14_parse_render`) covers the canonical text: no indentation, no blank lines, every line ended by `\n`.
Here the same round trip for `renderL lay fin b` (`Lemmas/LocustLayout.lean`), where the `Layout` gives
  * `ind d`: blanks / tabs in front of every line of nesting depth `d` (also in front of `else if`, `else`, `fi`, `done`;
    the top level may be indented too, `ind 0 ≠ []` — the first line of a file is special, see the finding below);
  * `gapH` blank lines after every head line (`if c`, `else if c`, `else`, `for v in w`, `while c`: a body may start with blank
    lines), `gapS` blank lines after the last line of every statement (command line, `fi`, `done`: blank lines between
    statements, at the end of bodies, at the end of the file); a blank line is `bl` (blanks / tabs) and `\n`;
  * `semi`: the spelling of the heads (`if c; then` …), as before;
  * `fin = true`: the last line of the file (a command line, `fi` or `done`) has no `\n` (then no blank lines follow it).
The guard on the AST is the one of `C14_parse_render` (`okAst`).

What the grammar model does (found with `#eval`, then proved): indentation is eaten by pest's implicit `WHITESPACE*`
everywhere, also in front of the block keywords; a blank line is a `CMD` pair whose text is `\n` (the interpreter skips
pairs with blank text), so with blank lines the tree is NOT in `RBlock`; it is in `RBlockB` (`Lemmas/RepBlank.lean`: `RBlock`
with blank pairs interleaved), for which the interpreter refinement holds as well (`C14_interpreter_refines_blank`,
`Lemmas/InterpBlank.lean`).  A comment line `# …` between statements is a `CMD` pair like any command line (the grammar
knows no comments), also inside bodies; it is NOT covered here: `okAst` asks for `expandArgs args l = l` (as
`C14_interpreter_refines` does), and `expand_args` re-tokenizes the line, which drops the comment — the interpreter hands
the empty line to `run_command_line`.  Covering comments needs a clause "a line whose expansion is empty is skipped" in
`RStmt` / `semBlock`, not a change of the parser half.

* `C14_parse_layout`: for every `lay.OK`, `fin`, `b` in `okAst`: `parseLines (renderL lay fin b)` succeeds and the pairs are
  in `RBlockB lay.HasBlank args b`.
* `C14_parse_indent`: without blank lines (`gapH = gapS = 0`; any indentation, with or without the last newline) the pairs
  are in `RBlock args b` — stages (1) and (4); `C14_parse_blank` is stage (2), `C14_parse_layout` stages (3) and (4).
* `C14_layout_end_to_end`: `run_lines` on `renderL lay fin b` is no syntax error and yields `semBlock b`.
* `Layout.uniform`: `ind d` = `d` copies of a unit; decidable guard `layoutOkB`.  `renderL_plain`: the layout without
  indentation and blank lines is `render` (so `C14_parse_render` is an instance of `C14_parse_indent`).
* `C05_parse_total` (C05, "script text … terminates"): `parseLines` is total by construction; for EVERY text the result with
  the driver's fuel `parseFuel t` is the result with any larger fuel (`Lemmas/LocustFuel.lean`), likewise the inner loops
  of `CMD` / `TEST` (`C05_parse_inner_total`).

Findings (not accepted / accepted differently; `example`s at the end):
  * the FIRST line of a file is parsed without skipping blanks in front of `!KW_LIST`: an indented stray `fi` / `done` /
    `else` on line 1 is a command (`CMD`), not a syntax error (`C14_stray_fi` needs the keyword in column 0);
  * a comment after a block keyword is not layout: `fi # x` / `done # x` make the script a syntax error, `else # x` is
    run as a command inside the arm above (the `if` has no else-branch then); `else  if c` (two blanks) is a command too;
  * `if<TAB>c` is a command line (`KW_IF = "if "`).
Outside: trailing blanks at the end of lines (accepted by the grammar: `example` only), `\r\n`, different indentation for
lines of the same depth, blank lines in front of the first statement.
-/
namespace Cicada.C14
open Cicada Cicada.Locust

/-- `d` copies of the indentation unit -/
def indentOf (unit : Str) (d : Nat) : Str := (List.replicate d unit).flatten

/-- the layout of the brief: a fixed indentation unit repeated `depth` times, `gapH` / `gapS` blank lines -/
def Layout.uniform (semi : Bool) (unit bl : Str) (gapH gapS : Nat) : Layout :=
  { semi := semi, ind := indentOf unit, bl := bl, gapH := gapH, gapS := gapS }

/-- the indentation unit and the blank lines consist of blanks and tabs -/
def layoutOkB (unit bl : Str) : Bool := unit.all isWsP && bl.all isWsP

theorem indentOf_ws (unit : Str) (h : ∀ c, c ∈ unit → isWsP c = true) : ∀ d c, c ∈ indentOf unit d → isWsP c = true := by
  intro d
  induction d with
  | zero => intro c hc; simp [indentOf] at hc
  | succ d ih =>
    intro c hc
    simp only [indentOf, List.replicate_succ, List.flatten_cons, List.mem_append] at hc
    rcases hc with hc | hc
    · exact h c hc
    · exact ih c hc

theorem uniform_ok (semi : Bool) (unit bl : Str) (gapH gapS : Nat) (h : layoutOkB unit bl = true) :
    (Layout.uniform semi unit bl gapH gapS).OK := by
  simp only [layoutOkB, Bool.and_eq_true, List.all_eq_true] at h
  exact ⟨indentOf_ws unit h.1, h.2⟩

/-- the parser fuel a block needs in a layout is at most twice the length of its text, plus 2 -/
theorem C14_fuel_boundL (lay : Layout) (fin : Bool) (b : Block) : cBL lay fin b ≤ 2 * (renderL lay fin b).length + 2 := by
  have := lB_len (lay := lay) 0 b fin [] (fun _ => rfl)
  simp only [List.length_nil] at this
  simp only [renderL]
  split at this <;> omega

/-- the top rule on the text in layout `lay`, with any fuel from `cBL lay fin b` on: all of the text is consumed (up to
trailing blanks) and the pairs represent `b`, blank pairs interleaved -/
theorem C14_parse_layout_fuel (lay : Layout) (hl : lay.OK) (fin : Bool) (args : List Str) (b : Block)
    (hok : okAst args b = true) (f : Nat) (hf : cBL lay fin b ≤ f) :
    ∃ ts r, pTop f (renderL lay fin b) = (ts, r) ∧ skip r = [] ∧ RBlockB lay.HasBlank args b ts :=
  topL hl args b hok fin f hf

/-- **PEG round trip in a layout** (indentation, blank lines, last line with or without newline): the tree the grammar
model builds for `renderL lay fin b` represents `b`, with the pairs of the blank lines interleaved -/
theorem C14_parse_layout (lay : Layout) (hl : lay.OK) (fin : Bool) (args : List Str) (b : Block)
    (hok : okAst args b = true) :
    ∃ ts, parseLines (renderL lay fin b) = some (.node "EXP" (renderL lay fin b) ts) ∧
      RBlockB lay.HasBlank args b ts := by
  obtain ⟨ts, r, h1, h2, h3⟩ := C14_parse_layout_fuel lay hl fin args b hok (parseFuel (renderL lay fin b))
    (by have := C14_fuel_boundL lay fin b; simp only [parseFuel]; omega)
  refine ⟨ts, ?_, h3⟩
  simp [parseLines, h1, h2]

/-- **stages (1) and (4)**: indentation only (no blank lines), last line with or without newline — the tree represents
`b` in the strict sense of `C14_interpreter_refines` -/
theorem C14_parse_indent (lay : Layout) (hl : lay.OK) (hH : lay.gapH = 0) (hS : lay.gapS = 0) (fin : Bool)
    (args : List Str) (b : Block) (hok : okAst args b = true) :
    ∃ ts, parseLines (renderL lay fin b) = some (.node "EXP" (renderL lay fin b) ts) ∧ RBlock args b ts := by
  obtain ⟨ts, h1, h2⟩ := C14_parse_layout lay hl fin args b hok
  refine ⟨ts, h1, rBlockB_false (rBlockB_mono ?_ h2)⟩
  rintro (h | h) <;> omega

/-- **stage (2)**: blank lines only -/
theorem C14_parse_blank (semi : Bool) (bl : Str) (hbl : bl.all isWsP = true) (gapH gapS : Nat) (fin : Bool)
    (args : List Str) (b : Block) (hok : okAst args b = true) :
    ∃ ts, parseLines (renderL (Layout.uniform semi [] bl gapH gapS) fin b) =
        some (.node "EXP" (renderL (Layout.uniform semi [] bl gapH gapS) fin b) ts) ∧
      RBlockB True args b ts := by
  obtain ⟨ts, h1, h2⟩ := C14_parse_layout (Layout.uniform semi [] bl gapH gapS)
    (uniform_ok semi [] bl gapH gapS (by simpa [layoutOkB] using hbl)) fin args b hok
  exact ⟨ts, h1, rBlockB_mono (fun _ => trivial) h2⟩

/-- the layout of the brief: unit `ind` repeated `depth` times, `k` blank lines after every line -/
theorem C14_parse_layout_uniform (semi : Bool) (ind bl : Str) (k : Nat) (hw : layoutOkB ind bl = true) (fin : Bool)
    (args : List Str) (b : Block) (hok : okAst args b = true) :
    ∃ ts, parseLines (renderL (Layout.uniform semi ind bl k k) fin b) =
        some (.node "EXP" (renderL (Layout.uniform semi ind bl k k) fin b) ts) ∧
      RBlockB (0 < k) args b ts := by
  obtain ⟨ts, h1, h2⟩ := C14_parse_layout (Layout.uniform semi ind bl k k) (uniform_ok semi ind bl k k hw) fin args b hok
  exact ⟨ts, h1, rBlockB_mono (fun h => by rcases h with h | h <;> exact h) h2⟩

/-- **end to end in a layout**: running the text is not a syntax error, and whatever `run_lines` returns is what the
structured semantics of the AST prescribes (`set -e` off) -/
theorem C14_layout_end_to_end {σ} (sem : Sem σ) (lay : Layout) (hl : lay.OK) (fin : Bool) (args : List Str)
    (hE : ∀ s, sem.exitOnError s = false) (b : Block) (hok : okAst args b = true) (f : Nat) (st : σ) :
    runLines sem args f (renderL lay fin b) st ≠ .ok none ∧
    ∀ r, runLines sem args f (renderL lay fin b) st = .ok (some r) →
      ∃ g fl, semBlock sem g b false st = .ok (r.st, fl) := by
  obtain ⟨ts, hp, hR⟩ := C14_parse_layout lay hl fin args b hok
  constructor
  · unfold runLines
    simp only [hp, Outcome.map]
    cases runExp sem args f (PT.node "EXP" (renderL lay fin b) ts).kids false st none <;> simp [Outcome.bind]
  · intro r hrun
    exact C14_script_refines_blank lay.HasBlank sem args hE b _ _ ts hp hR f st r hrun

/-! ### the plain layout is the canonical text -/

/-- no indentation, no blank lines -/
def Layout.plain (sm : Bool) : Layout := { semi := sm }

theorem plain_ok (sm : Bool) : (Layout.plain sm).OK :=
  ⟨fun _ _ h => by simp [Layout.plain] at h, fun _ h => by simp [Layout.plain] at h⟩

theorem plain_eol (sm : Bool) (k : Str) : eol (Layout.plain sm) false k = '\n' :: k := rfl
theorem plain_blanks (sm : Bool) (k : Str) : blanks (Layout.plain sm) (Layout.plain sm).gapH k = k := rfl
theorem plain_ind (sm : Bool) (d : Nat) : (Layout.plain sm).ind d = [] := rfl
theorem plain_semi (sm : Bool) : (Layout.plain sm).semi = sm := rfl

theorem plain_ite (sm : Bool) (d : Nat) (arms : Arms) (els : Block) (k : Str)
    (hA : ∀ K, lA (Layout.plain sm) d [] "if ".toList arms K = rA sm "if ".toList arms K)
    (hB : ∀ K, lB (Layout.plain sm) (d + 1) false els K = rB sm els K) :
    lS (Layout.plain sm) d false (.ite arms els) k = rS sm (.ite arms els) k := by
  rw [lS_ite, rS_ite, hA, plain_eol, plain_blanks, plain_ind, hB]
  cases els.isNil <;> rfl

theorem plain_arm (sm : Bool) (d : Nat) (kw t : Str) (body : Block) (rest : Arms) (k : Str)
    (hA : ∀ K, lA (Layout.plain sm) d [] "else if ".toList rest K = rA sm "else if ".toList rest K)
    (hB : ∀ K, lB (Layout.plain sm) (d + 1) false body K = rB sm body K) :
    lA (Layout.plain sm) d [] kw (.cons t body rest) k = rA sm kw (.cons t body rest) k := by
  rw [lA_cons, rA_cons, plain_blanks, plain_ind, hB, hA, plain_semi]; rfl

theorem plain_cons (sm : Bool) (d : Nat) (s : Stmt) (b : Block) (k : Str)
    (hS : ∀ K, lS (Layout.plain sm) d false s K = rS sm s K) (hB : ∀ K, lB (Layout.plain sm) d false b K = rB sm b K) :
    lB (Layout.plain sm) d false (.cons s b) k = rB sm (.cons s b) k := by
  rw [lB_cons, rB_cons, plain_ind, hB, Bool.false_and, hS]; rfl

mutual
theorem plain_lS (sm : Bool) : ∀ (d : Nat) (s : Stmt) (k : Str), lS (Layout.plain sm) d false s k = rS sm s k
  | _, .cmd _, _ => rfl
  | _, .brk, _ => rfl
  | _, .cont, _ => rfl
  | d, .ite arms els, k => plain_ite sm d arms els k (fun K => plain_lA sm d _ arms K) (fun K => plain_lB sm (d + 1) els K)
  | d, .for v init body, k => by
    rw [lS_for, rS_for, plain_eol, plain_blanks, plain_ind, plain_lB sm (d + 1) body, plain_semi]; rfl
  | d, .whl t body, k => by
    rw [lS_whl, rS_whl, plain_eol, plain_blanks, plain_ind, plain_lB sm (d + 1) body, plain_semi]; rfl
theorem plain_lB (sm : Bool) : ∀ (d : Nat) (b : Block) (k : Str), lB (Layout.plain sm) d false b k = rB sm b k
  | _, .nil, _ => rfl
  | d, .cons s b, k => plain_cons sm d s b k (fun K => plain_lS sm d s K) (fun K => plain_lB sm d b K)
theorem plain_lA (sm : Bool) : ∀ (d : Nat) (kw : Str) (a : Arms) (k : Str), lA (Layout.plain sm) d [] kw a k = rA sm kw a k
  | _, _, .nil, _ => rfl
  | d, kw, .cons t body rest, k =>
    plain_arm sm d kw t body rest k (fun K => plain_lA sm d _ rest K) (fun K => plain_lB sm (d + 1) body K)
end

/-- the plain layout is the canonical text: `C14_parse_render` is the instance `lay := Layout.plain semi`, `fin := false`
of `C14_parse_indent` -/
theorem renderL_plain (sm : Bool) (b : Block) : renderL (Layout.plain sm) false b = render sm b := plain_lB sm 0 b []

/-- `C14_parse_render`, once more -/
example (sm : Bool) (args : List Str) (b : Block) (hok : okAst args b = true) :
    ∃ ts, parseLines (render sm b) = some (.node "EXP" (render sm b) ts) ∧ RBlock args b ts := by
  rw [← renderL_plain]; exact C14_parse_indent _ (plain_ok sm) rfl rfl false args b hok

/-! ### non-vacuity -/

mutual
/-- a pair tree as the list of its pairs `(depth, rule, text)` in document order (for `decide`: `PT` has no decidable
equality) -/
def flatPT (d : Nat) : PT → List (Nat × String × Str)
  | .node r t k => (d, r, t) :: flatPTs (d + 1) k
def flatPTs (d : Nat) : List PT → List (Nat × String × Str)
  | [] => []
  | a :: as => flatPT d a ++ flatPTs d as
end

/-- two blanks per level, blank lines of one tab, one blank line after heads and two after statements -/
def exLay : Layout := Layout.uniform false "  ".toList "\t".toList 1 2

example : exLay.OK := uniform_ok _ _ _ _ _ (by decide)

/-- `exSmall` (`Thm/C14peg.lean`: `while t / if a / break / else / c / fi / done`) in that layout, last newline missing -/
example : renderL exLay true exSmall =
    "while t\n\t\n  if a\n\t\n    break\n\t\n\t\n  else\n\t\n    c\n\t\n\t\n  fi\n\t\n\t\ndone".toList := by decide +kernel

/-- tabs, the `; then` / `; do` spelling, no blank lines -/
example : renderL (Layout.uniform true "\t".toList [] 0 0) false exSmall =
    "while t; do\n\tif a; then\n\t\tbreak\n\telse\n\t\tc\n\tfi\ndone\n".toList := by decide +kernel

/-- the default layout is the canonical text of `C14_parse_render` -/
example : renderL {} false exSmall = render false exSmall ∧ renderL { semi := true } false exAst = render true exAst := by
  decide +kernel

example : okAst [] exSmall = true := by decide

/-- an indented top level: every line of depth `d` gets `d + 1` tabs -/
def exLayTop : Layout := { ind := fun d => indentOf "\t".toList (d + 1) }

example : exLayTop.OK := ⟨fun d => indentOf_ws _ (by decide) (d + 1), fun _ h => by simp [exLayTop] at h⟩

example : renderL exLayTop false exSmall =
    "\twhile t\n\t\tif a\n\t\t\tbreak\n\t\telse\n\t\t\tc\n\t\tfi\n\tdone\n".toList := by decide +kernel

/-- comment lines are `CMD` pairs for the grammar (see the findings), but they are outside the guard: `expand_args` goes
through the tokenizer, which drops the comment, so the line is not "untouched by positional expansion" -/
example : expandArgs [] "# a comment".toList = [] ∧ okAst [] (.cons (.cmd "# a comment".toList) .nil) = false := by
  decide +kernel

/-- the indented text of `exSmall` without the last newline, parsed: indentation leaves no trace in the pairs (only in the
spans of the blocks) -/
example : (parseLines (renderL (Layout.uniform false "  ".toList [] 0 0) true exSmall)).map (flatPT 0) = some
    [(0, "EXP", "while t\n  if a\n    break\n  else\n    c\n  fi\ndone".toList),
     (1, "EXP_WHILE", "while t\n  if a\n    break\n  else\n    c\n  fi\ndone".toList),
     (2, "WHILE_HEAD", "while t\n".toList), (3, "TEST", "t".toList),
     (2, "EXP_BODY", "if a\n    break\n  else\n    c\n  fi\n".toList),
     (3, "EXP_IF", "if a\n    break\n  else\n    c\n  fi\n".toList),
     (4, "IF_IF_BR", "if a\n    break\n".toList), (5, "IF_HEAD", "if a\n".toList), (6, "TEST", "a".toList),
     (5, "EXP_BODY", "break\n".toList), (6, "CMD", "break\n".toList),
     (4, "IF_ELSE_BR", "else\n    c\n".toList), (5, "KW_ELSE", "else\n".toList),
     (5, "EXP_BODY", "c\n".toList), (6, "CMD", "c\n".toList)] := by decide +kernel

/-- blank lines are `CMD` pairs with text `\n` (in the bodies and at the top level) -/
example : (parseLines "a\n \nif t\n\nb\nfi\n\n".toList).map (flatPT 0) = some
    [(0, "EXP", "a\n \nif t\n\nb\nfi\n\n".toList), (1, "CMD", "a\n".toList), (1, "CMD", "\n".toList),
     (1, "EXP_IF", "if t\n\nb\nfi\n".toList), (2, "IF_IF_BR", "if t\n\nb\n".toList), (3, "IF_HEAD", "if t\n".toList),
     (4, "TEST", "t".toList), (3, "EXP_BODY", "\nb\n".toList), (4, "CMD", "\n".toList), (4, "CMD", "b\n".toList),
     (1, "CMD", "\n".toList)] := by decide +kernel

/-! ### findings: what the grammar does not take as layout -/

/-- an indented stray `fi` on the FIRST line is a command, not a syntax error (compare `C14_stray_fi`) -/
example : (parseLines "  fi\na\n".toList).map (flatPT 0) =
    some [(0, "EXP", "  fi\na\n".toList), (1, "CMD", "  fi\n".toList), (1, "CMD", "a\n".toList)] := by decide +kernel

/-- … on any later line it is a syntax error -/
example : parseLines "a\n  fi\n".toList = none := by decide +kernel

/-- a comment behind `fi` makes the script a syntax error -/
example : parseLines "if a\nb\nfi # x\n".toList = none := by decide +kernel

/-- a comment behind `else` turns the `else` line into a command of the first arm: there is no else-branch -/
example : (parseLines "if a\nb\nelse # x\nc\nfi\n".toList).map (flatPT 0) = some
    [(0, "EXP", "if a\nb\nelse # x\nc\nfi\n".toList), (1, "EXP_IF", "if a\nb\nelse # x\nc\nfi\n".toList),
     (2, "IF_IF_BR", "if a\nb\nelse # x\nc\n".toList), (3, "IF_HEAD", "if a\n".toList), (4, "TEST", "a".toList),
     (3, "EXP_BODY", "b\nelse # x\nc\n".toList), (4, "CMD", "b\n".toList), (4, "CMD", "else # x\n".toList),
     (4, "CMD", "c\n".toList)] := by decide +kernel

/-- comment lines are `CMD` pairs, wherever a command may stand -/
example : (parseLines "# c\nif a\n  # d\n  b\nfi\n".toList).map (flatPT 0) = some
    [(0, "EXP", "# c\nif a\n  # d\n  b\nfi\n".toList), (1, "CMD", "# c\n".toList),
     (1, "EXP_IF", "if a\n  # d\n  b\nfi\n".toList), (2, "IF_IF_BR", "if a\n  # d\n  b\n".toList),
     (3, "IF_HEAD", "if a\n".toList), (4, "TEST", "a".toList), (3, "EXP_BODY", "# d\n  b\n".toList),
     (4, "CMD", "# d\n".toList), (4, "CMD", "b\n".toList)] := by decide +kernel

/-- trailing blanks at the end of lines are accepted (not covered by `C14_parse_layout`) -/
example : (parseLines "if a  \nb \t\nfi  \n".toList).map (flatPT 0) = some
    [(0, "EXP", "if a  \nb \t\nfi  \n".toList), (1, "EXP_IF", "if a  \nb \t\nfi  \n".toList),
     (2, "IF_IF_BR", "if a  \nb \t\n".toList), (3, "IF_HEAD", "if a  \n".toList), (4, "TEST", "a".toList),
     (3, "EXP_BODY", "b \t\n".toList), (4, "CMD", "b \t\n".toList)] := by decide +kernel

/-! ### C05, scripts: the parser never runs out of fuel -/

theorem repAny_succ (stop : Str → Bool) (f : Nat) (s : Str) (n : Nat) :
    repAny stop (f + 1) s n =
      if stop (if n > 0 then skip s else s) = true then (s, n) else
        match skip (if n > 0 then skip s else s) with
        | [] => (s, n)
        | _ :: r => repAny stop f r (n + 1) := by
  rw [repAny]; rfl

/-- the inner loop `(!stop ~ ANY)*` of `CMD` / `TEST`: any fuel above the length of the text gives the same result -/
theorem repAny_fuel_succ (stop : Str → Bool) : ∀ (f : Nat) (s : Str) (n : Nat), s.length < f →
    repAny stop f s n = repAny stop (f + 1) s n := by
  intro f
  induction f with
  | zero => intro s n h; omega
  | succ f ih =>
    intro s n h
    rw [repAny_succ stop f, repAny_succ stop (f + 1)]
    have h1 : (if n > 0 then skip s else s).length ≤ s.length := by
      split
      · exact skip_len _
      · exact Nat.le_refl _
    generalize (if n > 0 then skip s else s) = s1 at h1
    cases stop s1 with
    | true => rfl
    | false =>
      simp only [Bool.false_eq_true, ↓reduceIte]
      have h2 := skip_len s1
      cases hsk : skip s1 with
      | nil => rfl
      | cons c r =>
        rw [hsk] at h2
        simp only [List.length_cons] at h2
        exact ih r (n + 1) (by omega)

theorem repAny_fuel_add (stop : Str → Bool) (s : Str) (n k : Nat) :
    repAny stop (s.length + 1) s n = repAny stop (s.length + 1 + k) s n := by
  induction k with
  | zero => rfl
  | succ k ih => rw [ih, ← Nat.add_assoc]; exact repAny_fuel_succ stop _ s n (by omega)

/-- **C05, script text: parsing is total and never runs out of fuel.**  `parseLines` is a total function by construction
(structural recursion on the fuel), and fuel exhaustion is not a distinct result in the model (`pIf 0 _ = none`,
`pBodyItems 0 s = ([], s)`, `pTop 0 s = ([], s)` look like an ordinary failure / end of repetition).  The honest statement:
for EVERY text `t` the result with the driver's fuel `parseFuel t = 2 * |t| + 4` is the result with any larger fuel — the
fuel bound is never what ends a repetition or fails a rule (`Lemmas/LocustFuel.lean`: every successful item consumes a
character, every nesting level at least three). -/
theorem C05_parse_total (t : Str) (k : Nat) : pTop (parseFuel t) t = pTop (parseFuel t + k) t :=
  pTop_fuel_stable t k

/-- the same for `parse_lines` itself -/
theorem C05_parseLines_total (t : Str) (k : Nat) :
    parseLines t = (let (ts, r) := pTop (parseFuel t + k) t; if skip r = [] then some (.node "EXP" t ts) else none) :=
  parseLines_fuel_stable t k

/-- every fuel from `2 * |t| + 4` on gives the same pairs -/
theorem C05_parse_fuel_mono (t : Str) (f g : Nat) (h : 2 * t.length + 4 ≤ f) (hg : f ≤ g) : pTop f t = pTop g t :=
  pTop_fuel_mono t f g h hg

/-- the inner loops of `CMD` and `TEST` (`repAny` with fuel `|s| + 1`) do not run out of fuel either -/
theorem C05_parse_inner_total (stop : Str → Bool) (s : Str) (k : Nat) :
    repAny stop (s.length + 1) s 0 = repAny stop (s.length + 1 + k) s 0 :=
  repAny_fuel_add stop s 0 k

/-- non-vacuity: below the bound the fuel does matter (7 units: nothing parsed; 8 and `parseFuel`: two items) -/
example : (pTop 7 "if a\nwhile b\nc\ndone\nfi\nd\n".toList).1.length = 0 ∧
    (pTop 8 "if a\nwhile b\nc\ndone\nfi\nd\n".toList).1.length = 2 ∧
    (pTop (parseFuel "if a\nwhile b\nc\ndone\nfi\nd\n".toList) "if a\nwhile b\nc\ndone\nfi\nd\n".toList).1.length = 2 := by
  decide +kernel

end Cicada.C14
