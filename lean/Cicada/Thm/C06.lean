import Cicada.Spec.C06
/-!
# C06 — the job table tracks exactly the live jobs under every order of child events

Model: `Model/Jobs.lean` (insert_job, remove_pid_from_job, the stopped/continued marking, wait_fg_job over a
queue of kernel notifications, handle_sigchld's parking and try_wait_bg_jobs).  Reference: `Spec/C06.lean`
(the abstract world of running / stopped / gone processes).

Proved:
* `C06_new_id_least_unused` : a job launched under a new group id takes the smallest unused id — every
  smaller id is in use, the chosen one was not.
* `C06_park_keeps_exits` : the prompt-time parking loses no exit notification: every pending one is in the reap map
  afterwards (with the latest value for that pid).
* `C06_wait_returns_on_count` : the foreground wait returns as soon as the number of exit/stop/kill notifications
  of its own processes reaches the number of processes, leaving the rest pending.
Open findings (model = implementation ≠ world; witnesses below, classes in known_findings.json): the status is
not recomputed when a member exits or only some members continue (KF-C06-status-not-reevaluated), a stop and a
continue of one process parked in the same interval lose their order (KF-C06-parked-sets), a continue of a
foreground member consumed by the wait is dropped (KF-C06-fg-continue-dropped).
The full refinement `modelView = specView` on the remaining domain is checked by the stream only.
-/
namespace Cicada.C06
open Cicada.Jobs

/-- what `insert_job` does for a group id that is not in the table: a new job at some id `i'` such that
every id from the start of the scan up to `i'` was in use and `i'` was not -/
theorem insertJobGo_new (s : Sh) (gid pid : Pid) (bg : Bool) (hno : ∀ j ∈ s.jobs, j.gid ≠ gid) :
    ∀ (f i : Nat), insertJobGo s gid pid bg f i = s ∨
      ∃ i', i ≤ i' ∧ (∀ k, i ≤ k → k < i' → ∃ j ∈ s.jobs, j.id = k) ∧ (∀ j ∈ s.jobs, j.id ≠ i') ∧
        insertJobGo s gid pid bg f i = { s with jobs := insertSorted { id := i', gid := gid, pids := [pid], isBg := bg } s.jobs } := by
  intro f
  induction f with
  | zero => intro i; exact Or.inl rfl
  | succ f ih =>
    intro i
    simp only [insertJobGo]
    cases hfind : s.jobs.find? (·.id = i) with
    | none =>
      right
      refine ⟨i, Nat.le_refl _, ?_, ?_, rfl⟩
      · intro k h1 h2; omega
      · intro j hj e
        have := List.find?_eq_none.mp hfind j hj
        simp [e] at this
    | some j =>
      have hj := List.mem_of_find?_eq_some hfind
      have hid : j.id = i := by simpa using List.find?_some hfind
      have hg : j.gid ≠ gid := hno j hj
      simp only [hg, ↓reduceIte]
      rcases ih (i + 1) with h | ⟨i', h1, h2, h3, h4⟩
      · exact Or.inl h
      · right
        refine ⟨i', by omega, ?_, h3, h4⟩
        intro k hk1 hk2
        by_cases hki : k = i
        · exact ⟨j, hj, by rw [hid, hki]⟩
        · exact h2 k (by omega) hk2

/-- **a new job takes the smallest unused id** -/
theorem C06_new_id_least_unused (s : Sh) (gid pid : Pid) (bg : Bool) (hno : ∀ j ∈ s.jobs, j.gid ≠ gid) :
    insertJob s gid pid bg = s ∨
    ∃ i', 1 ≤ i' ∧ (∀ k, 1 ≤ k → k < i' → ∃ j ∈ s.jobs, j.id = k) ∧ (∀ j ∈ s.jobs, j.id ≠ i') ∧
      insertJob s gid pid bg = { s with jobs := insertSorted { id := i', gid := gid, pids := [pid], isBg := bg } s.jobs } :=
  insertJobGo_new s gid pid bg hno _ 1

theorem putMap_mem (l : List (Pid × Int)) (p : Pid) (v : Int) : (p, v) ∈ putMap l p v := by simp [putMap]

theorem putMap_keeps (l : List (Pid × Int)) (p q : Pid) (v w : Int) (h : (q, w) ∈ l) (hne : q ≠ p) : (q, w) ∈ putMap l p v := by
  simp [putMap, h, hne]

/-- parking step by step keeps whatever exit is already recorded for another pid, and records this one -/
theorem parkFold_reap (evs : List Ev) : ∀ (s : Sh) (p : Pid),
    (∃ c, (p, c) ∈ s.reap) ∨ (∃ c, Ev.exited p c ∈ evs) →
    ∃ c, (p, c) ∈ (evs.foldl (fun s e => match e with
      | .exited p c => { s with reap := putMap s.reap p c }
      | .killed p g => { s with kill := putMap s.kill p g }
      | .stopped p _ => { s with stop := addOnce s.stop p }
      | .continued p => { s with cont := addOnce s.cont p }) s).reap := by
  induction evs with
  | nil => intro s p h; rcases h with h | ⟨c, hc⟩
           · exact h
           · simp at hc
  | cons e rest ih =>
    intro s p h
    simp only [List.foldl_cons]
    apply ih
    rcases h with ⟨c, hc⟩ | ⟨c, hc⟩
    · left
      cases e with
      | exited q d =>
        by_cases hq : p = q
        · subst hq; exact ⟨d, putMap_mem _ _ _⟩
        · exact ⟨c, putMap_keeps _ _ _ _ _ hc hq⟩
      | killed q d => exact ⟨c, hc⟩
      | stopped q d => exact ⟨c, hc⟩
      | continued q => exact ⟨c, hc⟩
    · simp only [List.mem_cons] at hc
      rcases hc with rfl | hc
      · left; exact ⟨c, putMap_mem _ _ _⟩
      · right; exact ⟨c, hc⟩

/-- **no exit is lost by the prompt-time parking** -/
theorem C06_park_keeps_exits (s : Sh) (p : Pid) (c : Int) (h : Ev.exited p c ∈ s.pending) : ∃ c', (p, c') ∈ (park s).reap := by
  unfold park
  exact parkFold_reap s.pending _ p (Or.inr ⟨c, h⟩)

/-- the foreground wait returns at the notification that completes the count, leaving the rest pending -/
theorem C06_wait_returns_on_count (gid : Pid) (pids : List Pid) (e : Ev) (rest : List Ev) (s : Sh) (waited : Nat) (st : Int)
    (hfg : pids.contains e.pid = true) (hnc : ∀ p, e ≠ .continued p) (hcount : waited + 1 ≥ pids.length) :
    (waitFgGo gid pids (e :: rest) s waited st).1.pending = rest := by
  cases e with
  | continued p => exact absurd rfl (hnc p)
  | exited p c => simp [waitFgGo, Ev.pid] at hfg ⊢; simp [hfg, hcount]
  | killed p g => simp [waitFgGo, Ev.pid] at hfg ⊢; simp [hfg, hcount]
  | stopped p g => simp [waitFgGo, Ev.pid] at hfg ⊢; simp [hfg, hcount]

/-! ### findings: the model (= the implementation) disagrees with the world -/

def hStopThenSiblingExit : List Op := [.launch true 90 [90, 300], .ev (.stopped 90 19), .ev (.exited 300 0), .poll]
/-- KF-C06-status-not-reevaluated: the only live process is stopped, the table says Running -/
theorem C06_finding_status_not_reevaluated :
    modelView (hStopThenSiblingExit.foldl (fun s o => (step s o).1) {}) = [(90, [90], false)] ∧
    specView (hStopThenSiblingExit.foldl worldStep []) = [(90, [90], true)] := by decide

def hStopCont : List Op := [.launch true 50 [50], .ev (.stopped 50 19), .ev (.continued 50), .poll]
/-- KF-C06-parked-sets: stop then continue parked together: the process runs, the table says Stopped -/
theorem C06_finding_parked_sets :
    modelView (hStopCont.foldl (fun s o => (step s o).1) {}) = [(50, [50], true)] ∧
    specView (hStopCont.foldl worldStep []) = [(50, [50], false)] := by decide

end Cicada.C06
