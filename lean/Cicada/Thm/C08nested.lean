import Cicada.Thm.C08
import Cicada.Model.FdSession
/-!
# C08 — builtin stages that start programs (`source FILE` as a stage of a pipeline)

`C08_child_clean` (Thm/C08.lean) speaks about stages that reach `execve` (`ChildEnd.exec`).  A stage whose command is a
builtin (`ChildEnd.builtin argv t`) does not exec: the builtin runs in the forked child on the table `t` the child has
after its redirections, and a builtin such as `source FILE` starts further programs from that table by calling
`run_pipeline` again (`FdSession.builtinInChild` with `launch1`).  Two facts make this safe:

* `C08_builtin_child_clean` / `C08_builtin_children_clean`: the table of a builtin stage is *clean* in the sense of
  `CleanUpTo t0 t []`: 0, 1, 2 are open, and from descriptor 3 on, whatever would survive an `execve` from it is exactly
  what the shell's own table `t0` passes on.  (The table itself is NOT equal to `t0` from 3 on: the targets of the stage's
  own `> file` redirections stay open at their allocated numbers, but close-on-exec — `ex_builtin_keeps_cx_file` below.)
* `C08_nested_012`: hence a program started from that table by a one-command `runPipeline` starts with nothing from
  descriptor 3 on, when the shell's table has only close-on-exec entries there (`C08_nested_launch1`: in the form of
  `launch1` of `FdSession.runPlan.runPipe`).
* exact forms (second half of the file, a second invariant `Inv` walked through `childRun`, and the representation
  lemma `children_fromFork`): `C08_builtin_table_exact` (every entry of the builtin stage's table from 3 on is
  close-on-exec and is the shell's own entry or a redirection target of the stage: no pipe end), `C08_children_exact_012`
  (every program `run_pipeline` starts has 0, 1, 2 OPEN and nothing else), `C08_nested_exact` (both, for the nested start).
-/
namespace Cicada.C08
open Cicada.Kernel Cicada.Kernel.Table Cicada.Pipeline

/-- the table on which `childRun` decides what the stage becomes (`.builtin` runs on it, `.exec` applies `atExec` to it,
`.notFound` keeps it): after the pipe phase, `<` / `<<<`, the redirection loop and the capture block nothing that the
parent held at `fork` is left -/
theorem childRun_final_clean (cfg : Cfg) (cmd : Command) (prev cur : Option Fds) (right : List Fds) (cap : Cap) (hs : Option Fds)
    (capture : Bool) (t0 tf : Table)
    (h0 : (t0 0).isSome) (h1 : (t0 1).isSome) (h2 : (t0 2).isSome)
    (hR : Restores t0 tf (heldAtFork prev cur right cap hs))
    (hhs : cmd.isHere = false → hs = none) (hcap : capture = false → cap = (none, none))
    (ce : ChildEnd) (lg : List (Str × Nat))
    (hrun : childRun cfg cmd prev cur right cap hs capture tf = (ce, lg)) :
    (∃ c, ce = .died c) ∨
    ∃ tfin, CleanUpTo t0 tfin [] ∧
      (ce = .builtin cmd.argv tfin ∨ ce = .exec cmd.argv tfin.atExec ∨ ce = .notFound cmd.argv tfin) := by
  have hc0 := cleanUpTo_of_restores hR h0 h1 h2
  have hc1 := childPipes_clean prev cur right cap hs hc0
  unfold childRun at hrun
  cases hst : childStdin cfg cmd hs (childPipes prev cur right cap tf) with
  | none =>
    simp only [hst, Prod.mk.injEq] at hrun
    exact Or.inl ⟨1, hrun.1.symm⟩
  | some t1 =>
    have hc2 := childStdin_clean cfg cmd hs hhs hc1 hst
    simp only [hst] at hrun
    have hc3 := redirLoop_clean (cfg := cfg) (notLast := cur.isSome) (capture := capture) cmd.redirectsTo { t := t1 } hc2
    generalize redirLoop cfg cur.isSome capture { t := t1 } cmd.redirectsTo = rl at hrun hc3
    obtain ⟨s, ok⟩ := rl
    cases ok with
    | false =>
      simp only [Prod.mk.injEq] at hrun
      exact Or.inl ⟨1, hrun.1.symm⟩
    | true =>
      simp only at hrun hc3
      have hc4 : CleanUpTo t0 (if cur.isNone ∧ capture then capBlock cap s.outRed s.errRed s.t else s.t) [] := by
        by_cases hlast : cur.isNone = true
        · cases capture with
          | true =>
            have : cur.isSome = false := by cases cur <;> simp_all
            simp only [hlast, and_self, ↓reduceIte]
            apply capBlock_clean
            simpa [this] using hc3
          | false =>
            have hcn := hcap rfl
            subst hcn
            have : cur.isSome = false := by cases cur <;> simp_all
            simpa [this, capFds] using hc3
        · have : cur.isSome = true := by cases cur <;> simp_all
          simpa [hlast, this] using hc3
      generalize (if cur.isNone ∧ capture then capBlock cap s.outRed s.errRed s.t else s.t) = tfin at hrun hc4
      refine Or.inr ⟨tfin, hc4, ?_⟩
      simp only [Prod.mk.injEq] at hrun
      rw [← hrun.1]
      split
      · exact Or.inl rfl
      · split
        · exact Or.inr (Or.inl rfl)
        · exact Or.inr (Or.inr rfl)

/-- **what a builtin stage runs with** (the extension of `C08_child_clean` to `.builtin` children): under the hypotheses
of `C08_child_clean`, the table `tb` of a stage that runs a builtin has 0, 1, 2 open and, from descriptor 3 on, would pass
on at `execve` exactly what the shell's own table passes on — no end of a pipe of the pipeline, of a capture pipe or of
the here-string pipe is left in it un-flagged, and no redirection target either -/
theorem C08_builtin_child_clean (cfg : Cfg) (cmd : Command) (prev cur : Option Fds) (right : List Fds) (cap : Cap) (hs : Option Fds)
    (capture : Bool) (t0 tf : Table)
    (h0 : (t0 0).isSome) (h1 : (t0 1).isSome) (h2 : (t0 2).isSome)
    (hR : Restores t0 tf (heldAtFork prev cur right cap hs))
    (hhs : cmd.isHere = false → hs = none) (hcap : capture = false → cap = (none, none))
    (argv : List Str) (tb : Table) (lg : List (Str × Nat))
    (hrun : childRun cfg cmd prev cur right cap hs capture tf = (.builtin argv tb, lg)) :
    CleanUpTo t0 tb [] := by
  rcases childRun_final_clean cfg cmd prev cur right cap hs capture t0 tf h0 h1 h2 hR hhs hcap _ _ hrun with
    ⟨c, hc⟩ | ⟨tfin, hcl, hb | he | hn⟩
  · cases hc
  · cases hb; exact hcl
  · cases he
  · cases hn

/-- a recorded child is good when: if it reached `execve`, it holds from 3 on exactly what `t0` passes on (this is
`GoodChild`); and if it runs a builtin, its table is clean (0, 1, 2 open; from 3 on it would pass on what `t0` passes on) -/
def GoodChild2 (t0 : Table) (c : Nat × ChildEnd × List (Str × Nat)) : Prop :=
  (∀ argv tc, c.2.1 = .exec argv tc → ∀ x, 3 ≤ x → tc x = t0.atExec x) ∧
  (∀ argv tb, c.2.1 = .builtin argv tb → CleanUpTo t0 tb [])

theorem childRun_good2 (cfg : Cfg) (cmd : Command) (i : Nat) (prev cur : Option Fds) (right : List Fds) (cap : Cap) (hs : Option Fds)
    (capture : Bool) (t0 tf : Table)
    (h0 : (t0 0).isSome) (h1 : (t0 1).isSome) (h2 : (t0 2).isSome)
    (hR : Restores t0 tf (heldAtFork prev cur right cap hs))
    (hhs : cmd.isHere = false → hs = none) (hcap : capture = false → cap = (none, none)) :
    GoodChild2 t0 (i, childRun cfg cmd prev cur right cap hs capture tf) := by
  generalize hrun : childRun cfg cmd prev cur right cap hs capture tf = res
  obtain ⟨ce, lg⟩ := res
  constructor
  · intro argv tc hce x hx
    simp only at hce
    subst hce
    exact C08_child_clean cfg cmd prev cur right cap hs capture t0 tf h0 h1 h2 hR hhs hcap argv tc lg hrun x hx
  · intro argv tb hce
    simp only at hce
    subst hce
    exact C08_builtin_child_clean cfg cmd prev cur right cap hs capture t0 tf h0 h1 h2 hR hhs hcap argv tb lg hrun

theorem parentStage_child_good2 (cfg : Cfg) (cmd : Command) (i : Nat) (prev cur : Option Fds) (right : List Fds) (cap : Cap)
    (capture bg : Bool) (s : PState) (t0 : Table)
    (h0 : (t0 0).isSome) (h1 : (t0 1).isSome) (h2 : (t0 2).isSome)
    (hcap : capture = false → cap = (none, none))
    (hR : Restores t0 s.shell (prevFds prev ++ fdsOf (cur.toList ++ right) ++ capFds cap))
    (hgood : ∀ c ∈ s.children, GoodChild2 t0 c) :
    ∀ c ∈ (parentStage cfg cmd i prev cur right cap capture bg s).children, GoodChild2 t0 c := by
  have hmem : ∀ hs x, x ∈ prevFds prev ++ fdsOf (cur.toList ++ right) ++ capFds cap ++ optFds hs ↔ x ∈ heldAtFork prev cur right cap hs := by
    intro hs x
    unfold heldAtFork
    cases cur with
    | none => simp [optFds, fdsOf]
    | some p => simp [optFds, fdsOf]; try grind
  unfold parentStage
  by_cases hh : cmd.isHere = true
  · simp only [hh, ↓reduceIte]
    cases hp : s.shell.pipe cfg.lim s.np with
    | none => simpa using hgood
    | some q =>
      obtain ⟨t1, r, w⟩ := q
      simp only
      intro c hc
      simp only [List.mem_append, List.mem_cons, List.not_mem_nil, or_false] at hc
      rcases hc with hc | rfl
      · exact hgood c hc
      · have hR1 : Restores t0 t1 (heldAtFork prev cur right cap (some (r, w))) :=
          restores_congr (restores_pipe hR hp) (by intro x; rw [← hmem]; simp [optFds])
        exact childRun_good2 cfg cmd i prev cur right cap (some (r, w)) capture t0 t1 h0 h1 h2 hR1 (by simp [hh]) hcap
  · simp only [hh]
    intro c hc
    simp only [Bool.false_eq_true, ↓reduceIte, List.mem_append, List.mem_cons, List.not_mem_nil, or_false] at hc
    rcases hc with hc | rfl
    · exact hgood c hc
    · have hR1 : Restores t0 s.shell (heldAtFork prev cur right cap none) :=
        restores_congr hR (by intro x; rw [← hmem]; simp [optFds])
      exact childRun_good2 cfg cmd i prev cur right cap none capture t0 s.shell h0 h1 h2 hR1 (by simp) hcap

theorem parentLoop_children_good2 (cfg : Cfg) (cap : Cap) (capture bg : Bool) (t0 : Table)
    (h0 : (t0 0).isSome) (h1 : (t0 1).isSome) (h2 : (t0 2).isSome) (hcap : capture = false → cap = (none, none)) :
    ∀ (cmds : List Command) (prev : Option Fds) (rest : List Fds) (i : Nat) (s : PState),
      Restores t0 s.shell (prevFds prev ++ fdsOf rest ++ capFds cap) →
      (∀ c ∈ s.children, GoodChild2 t0 c) →
      ∀ c ∈ (parentLoop cfg cap capture bg prev rest cmds i s).children, GoodChild2 t0 c := by
  intro cmds
  induction cmds with
  | nil => intro _ _ _ s _ hg; simpa [parentLoop] using hg
  | cons c cs ih =>
    intro prev rest i s hR hg
    unfold parentLoop
    have hrest : rest = rest.head?.toList ++ rest.tail := by cases rest <;> simp
    have hR' : Restores t0 s.shell (prevFds prev ++ fdsOf (rest.head?.toList ++ rest.tail) ++ capFds cap) := by
      rw [← hrest]; exact hR
    apply ih
    · rw [parentStage_shell]
      have := release_restores_next prev rest.head? rest.tail cap hR'
      refine ⟨fun x hx => this.1 x (fun hm => hx ?_), fun x hx => ?_⟩
      · simp only [List.mem_append] at hm ⊢
        rcases hm with hm | hm
        · exact Or.inl hm
        · right; split at hm
          · simp at hm
          · exact hm
      · simp only [List.mem_append] at hx
        rcases hx with (hx | hx) | hx
        · exact this.2 x (by simp only [List.mem_append]; exact Or.inl (Or.inl hx))
        · exact this.2 x (by simp only [List.mem_append]; exact Or.inl (Or.inr hx))
        · exact hR.2 x (by simp only [List.mem_append]; exact Or.inr hx)
    · exact parentStage_child_good2 cfg c i prev rest.head? rest.tail cap capture bg s t0 h0 h1 h2 hcap hR' hg

/-- **every stage forked by `run_pipeline` is clean, whether it execs or runs a builtin**: for every list of commands,
capture mode, background flag, limit and starting table with 0, 1, 2 open -/
theorem C08_builtin_children_clean (cfg : Cfg) (cmds : List Command) (capture bg : Bool) (t0 : Table) (np : Nat)
    (h0 : (t0 0).isSome) (h1 : (t0 1).isSome) (h2 : (t0 2).isSome) :
    ∀ c ∈ (runPipeline cfg cmds capture bg t0 np).children, GoodChild2 t0 c := by
  unfold runPipeline
  by_cases hbc : bg = true ∧ capture = true
  · simp [hbc]
  · simp only [hbc, ↓reduceIte]
    have hR := mkPipes_restores cfg.lim t0 (cmds.length - 1) t0 np [] (by simpa [fdsOf] using restores_refl t0)
    generalize mkPipes cfg.lim (cmds.length - 1) t0 np [] = r at hR
    obtain ⟨t1, np1, pipes, ok⟩ := r
    simp only at hR ⊢
    cases ok with
    | false => simp
    | true =>
      simp only [Bool.not_true, Bool.false_eq_true, ↓reduceIte]
      cases capture with
      | false =>
        simp only [Bool.not_false, ↓reduceIte]
        apply parentLoop_children_good2 cfg _ _ _ t0 h0 h1 h2 (fun _ => rfl)
        · simpa [prevFds, capFds] using hR
        · simp
      | true =>
        simp only [Bool.not_true, Bool.false_eq_true, ↓reduceIte]
        cases hp1 : t1.pipe cfg.lim np1 with
        | none => simp
        | some q1 =>
          obtain ⟨t2, r, w⟩ := q1
          simp only
          cases hp2 : t2.pipe cfg.lim (np1 + 1) with
          | none => simp
          | some q2 =>
            obtain ⟨t3, r', w'⟩ := q2
            simp only
            apply parentLoop_children_good2 cfg _ _ _ t0 h0 h1 h2 (by simp)
            · have h3 := restores_pipe (restores_pipe hR hp1) hp2
              refine ⟨fun x hx => h3.1 x ?_, fun x hx => h3.2 x ?_⟩
              · simp only [prevFds, capFds, List.nil_append, List.mem_append, List.mem_cons, List.not_mem_nil, or_false] at hx ⊢
                grind
              · simp only [prevFds, capFds, List.nil_append, List.mem_append, List.mem_cons, List.not_mem_nil, or_false] at hx ⊢
                grind
            · simp

/-- a clean table over a shell table whose entries from 3 on are all close-on-exec: every entry from 3 on is close-on-exec -/
theorem clean_all_cx {t0 tb : Table} (hcl : CleanUpTo t0 tb [])
    (hcx : ∀ x e, 3 ≤ x → t0 x = some e → e.cx = true) :
    ∀ x e, 3 ≤ x → tb x = some e → e.cx = true := by
  intro x e hx he
  have h := hcl.same x hx (by simp)
  rw [atExec_apply, atExec_apply, he] at h
  cases h0 : t0 x with
  | none =>
    simp only [h0] at h
    cases hc : e.cx with
    | true => rfl
    | false => simp [hc] at h
  | some e0 =>
    have := hcx x e0 hx h0
    simp only [h0, this, ↓reduceIte] at h
    cases hc : e.cx with
    | true => rfl
    | false => simp [hc] at h

/-- **programs started by a builtin stage start with {0, 1, 2}** (the theorem behind the `source` stages of the descriptor
stream).  Let the shell's table `t0` have 0, 1, 2 open and only close-on-exec entries from 3 on.  For every stage of
every pipeline started from `t0` that runs a builtin on table `tb`:
(i) `tb` has 0, 1, 2 open and from 3 on only close-on-exec entries (so no end of any pipe of the outer pipeline, which
    `pipe(2)` creates without the flag, and nothing that an `execve` would pass on);
(ii) every program started from `tb` by ANY further `runPipeline` (any configuration, commands, capture and background
    flags — in particular the one-command, no-capture, foreground call of `source`) has nothing open from 3 on;
(iii) and that inner `runPipeline` leaves the stage's table as it was. -/
theorem C08_nested_012 (cfg : Cfg) (cmds : List Command) (capture bg : Bool) (t0 : Table) (np : Nat)
    (h0 : (t0 0).isSome) (h1 : (t0 1).isSome) (h2 : (t0 2).isSome)
    (hcx : ∀ x e, 3 ≤ x → t0 x = some e → e.cx = true)
    (c : Nat × ChildEnd × List (Str × Nat)) (hc : c ∈ (runPipeline cfg cmds capture bg t0 np).children)
    (argv : List Str) (tb : Table) (hb : c.2.1 = .builtin argv tb) :
    ((tb 0).isSome ∧ (tb 1).isSome ∧ (tb 2).isSome ∧ ∀ x e, 3 ≤ x → tb x = some e → e.cx = true) ∧
    (∀ (cfg' : Cfg) (cmds' : List Command) (capture' bg' : Bool) (np' : Nat),
      ∀ c' ∈ (runPipeline cfg' cmds' capture' bg' tb np').children,
        ∀ argv' tc, c'.2.1 = .exec argv' tc → ∀ x, 3 ≤ x → tc x = none) ∧
    (∀ (cfg' : Cfg) (cmds' : List Command) (capture' bg' : Bool) (np' : Nat), cmds' ≠ [] →
      (runPipeline cfg' cmds' capture' bg' tb np').shell = tb) := by
  have hcl : CleanUpTo t0 tb [] := (C08_builtin_children_clean cfg cmds capture bg t0 np h0 h1 h2 c hc).2 argv tb hb
  have hall := clean_all_cx hcl hcx
  refine ⟨⟨hcl.o0, hcl.o1, hcl.o2, hall⟩, ?_, ?_⟩
  · intro cfg' cmds' capture' bg' np' c' hc' argv' tc he x hx
    rw [C08_children_clean cfg' cmds' capture' bg' tb np' hcl.o0 hcl.o1 hcl.o2 c' hc' argv' tc he x hx, atExec_apply]
    cases hx' : tb x with
    | none => rfl
    | some e => simp [hall x e hx hx']
  · intro cfg' cmds' capture' bg' np' hne
    exact C08_shell_restored cfg' cmds' capture' bg' tb np' hne

/-- the children the model launcher reports are those of `runPipeline` (or none, when the pipeline failed) -/
theorem modelLauncher_children (cfg : Cfg) (cmds : List Command) (capture bg : Bool) (t : Table) (np : Nat) :
    (FdSession.modelLauncher.pipeline cfg cmds capture bg t np).children = [] ∨
    (FdSession.modelLauncher.pipeline cfg cmds capture bg t np).children = (runPipeline cfg cmds capture bg t np).children := by
  unfold FdSession.modelLauncher
  simp only
  split
  · left; rfl
  · right; rfl

/-- `launch1` of `FdSession.runPlan.runPipe` for the model launcher (what `source FILE` in a forked stage starts its
command with) -/
def modelLaunch1 (cfg : Cfg) (np : Nat) (t : Table) (cmd : Command) : Option Table :=
  match (FdSession.modelLauncher.pipeline cfg [cmd] false false t np).children with
  | [(_, .exec _ t', _)] => some t'
  | _ => none

/-- the same in the form the session player uses it: the table `launch1` hands to the helper started by `source` in a
builtin stage holds nothing from 3 on -/
theorem C08_nested_launch1 (cfg : Cfg) (cmds : List Command) (capture bg : Bool) (t0 : Table) (np : Nat)
    (h0 : (t0 0).isSome) (h1 : (t0 1).isSome) (h2 : (t0 2).isSome)
    (hcx : ∀ x e, 3 ≤ x → t0 x = some e → e.cx = true)
    (c : Nat × ChildEnd × List (Str × Nat)) (hc : c ∈ (runPipeline cfg cmds capture bg t0 np).children)
    (argv : List Str) (tb : Table) (hb : c.2.1 = .builtin argv tb)
    (cfg' : Cfg) (np' : Nat) (cmd' : Command) (t' : Table) (hl : modelLaunch1 cfg' np' tb cmd' = some t') :
    ∀ x, 3 ≤ x → t' x = none := by
  have hN := (C08_nested_012 cfg cmds capture bg t0 np h0 h1 h2 hcx c hc argv tb hb).2.1 cfg' [cmd'] false false np'
  unfold modelLaunch1 at hl
  rcases modelLauncher_children cfg' [cmd'] false false tb np' with hm | hm
  · rw [hm] at hl; simp at hl
  · rw [hm] at hl
    split at hl
    · rename_i i a t'' lg heq
      simp only [Option.some.injEq] at hl
      subst hl
      exact hN (i, .exec a t'', lg) (by rw [heq]; simp) a t'' rfl
    · simp at hl

/-! ### non-vacuity -/

def exCfgB : Cfg := { lim := 16, isBuiltin := fun n => n = "source".toList }

/-- `source s1.sh 2> f` -/
def exSrc : Command :=
  { tokens := [([], "source".toList), ([], "s1.sh".toList)], redirectsTo := [(['2'], ['>'], ['f'])], redirectFrom := none }

/-- `a | source s1.sh 2> f | c` from the script-mode table (the script at 3, close-on-exec) -/
def exResB : Result := runPipeline exCfgB [exCmd 'a' [] none, exSrc, exCmd 'c' [] none] false false exT0 0

def builtinView : Option (Nat × ChildEnd × List (Str × Nat)) → Option (List (Nat × Obj × Bool))
  | some (_, .builtin _ t, _) => some ((t.toList 16).map (fun (fd, e) => (fd, e.obj, e.cx)))
  | _ => none

def builtinTable : Option (Nat × ChildEnd × List (Str × Nat)) → Table
  | some (_, .builtin _ t, _) => t
  | _ => Table.empty

/-- non-vacuity, and the reason why (i) is stated through `atExec` / close-on-exec rather than as equality with the
shell's table: the middle stage is a builtin stage; its table holds its two pipe ends on 0 / 1, the redirection target on 2
AND still at its allocated number 4, close-on-exec, next to the shell's own close-on-exec script descriptor 3; the program `source` starts from that table with a one-command
`runPipeline` (also through `modelLaunch1`) has exactly 0, 1, 2 -/
example : exResB.children.length = 3 ∧
    builtinView exResB.children[1]? =
      some [(0, .pipeR 0, false), (1, .pipeW 1, false), (2, .file ['f'] 1, false), (3, .inh 3, true), (4, .file ['f'] 1, true)] ∧
    childView (runPipeline exCfgB [FdSession.fdstageCmd ['s', '1']] false false (builtinTable exResB.children[1]?) 7).children[0]? =
      some [(0, .pipeR 0), (1, .pipeW 1), (2, .file ['f'] 1)] ∧
    (modelLaunch1 exCfgB 7 (builtinTable exResB.children[1]?) (FdSession.fdstageCmd ['s', '1'])).map
        (fun t => (t.toList 16).map (fun (fd, e) => (fd, e.obj))) =
      some [(0, .pipeR 0), (1, .pipeW 1), (2, .file ['f'] 1)] := by
  decide +kernel

/-- `exT0` satisfies the close-on-exec hypothesis for every descriptor (not only below the limit) -/
example : ∀ x e, 3 ≤ x → exT0 x = some e → e.cx = true := by
  intro x e hx he
  unfold exT0 at he
  have h3 : ¬ x < 3 := by omega
  simp only [h3, ↓reduceIte] at he
  split at he
  · cases he; rfl
  · cases he

/-! ### the exact form: 0, 1, 2 stay open and un-flagged; what is flagged is the shell's own or a redirection target -/

/-- 0, 1, 2 are open and not close-on-exec -/
def Std (t : Table) : Prop := ∀ x, x < 3 → ∃ e, t x = some e ∧ e.cx = false

def isFileEnt (e : Ent) : Prop := ∃ p m, e.obj = .file p m

/-- every close-on-exec entry is a file opened on the way or the entry `t0` has at that number -/
def CxP (t0 t : Table) : Prop := ∀ x e, t x = some e → e.cx = true → isFileEnt e ∨ t0 x = some e

structure Inv (t0 t : Table) : Prop where
  std : Std t
  cxp : CxP t0 t

/-- the parent's side: no close-on-exec entry beyond those of `t0` (pipes are created without the flag) -/
def NoNewCx (t0 t : Table) : Prop := ∀ x e, t x = some e → e.cx = true → t0 x = some e

variable {t0 t : Table}

theorem Inv.close (h : Inv t0 t) {c : Nat} (hc : 3 ≤ c) : Inv t0 (t.close c) := by
  constructor
  · intro x hx
    have : x ≠ c := by omega
    simpa [this] using h.std x hx
  · intro x e he hcx
    by_cases hxc : x = c
    · simp [hxc] at he
    · simp only [close_apply, hxc, ↓reduceIte] at he; exact h.cxp x e he hcx

theorem Inv.dup2 (h : Inv t0 t) (src dst : Nat) : Inv t0 (t.dup2 src dst) := by
  have key : ∀ x, (t.dup2 src dst) x = t x ∨ ∃ e, (t.dup2 src dst) x = some e ∧ e.cx = false := by
    intro x
    rw [dup2_apply]
    cases hs : t src with
    | none => exact Or.inl rfl
    | some e =>
      simp only
      by_cases hsd : src = dst
      · simp [hsd]
      · by_cases hxd : x = dst
        · right; exact ⟨{ e with cx := false }, by simp [hsd, hxd], rfl⟩
        · simp [hsd, hxd]
  constructor
  · intro x hx
    rcases key x with hk | ⟨e, hk, he⟩
    · rw [hk]; exact h.std x hx
    · exact ⟨e, hk, he⟩
  · intro x e he hcx
    rcases key x with hk | ⟨e', hk, he'⟩
    · rw [hk] at he; exact h.cxp x e he hcx
    · rw [hk] at he; cases he; rw [he'] at hcx; cases hcx

theorem Inv.alloc (h : Inv t0 t) {lim fd : Nat} {e : Ent} {t' : Table} (ha : t.alloc lim e = some (t', fd))
    (he : e.cx = true → isFileEnt e) : Inv t0 t' ∧ 3 ≤ fd := by
  obtain ⟨hf, rfl⟩ := alloc_spec ha
  have h3 : 3 ≤ fd := by
    apply Nat.le_of_not_lt
    intro hlt
    obtain ⟨e', he', _⟩ := h.std fd hlt
    rw [hf] at he'; cases he'
  refine ⟨⟨?_, ?_⟩, h3⟩
  · intro x hx
    have : x ≠ fd := by omega
    simpa [this] using h.std x hx
  · intro x e' he' hcx
    by_cases hxf : x = fd
    · simp only [set_apply, hxf, ↓reduceIte, Option.some.injEq] at he'; subst he'; exact Or.inl (he hcx)
    · simp only [set_apply, hxf, ↓reduceIte] at he'; exact h.cxp x e' he' hcx

theorem Inv.dup (h : Inv t0 t) {lim src fd : Nat} {t' : Table} (hd : t.dup lim src = some (t', fd)) : Inv t0 t' ∧ 3 ≤ fd := by
  unfold Table.dup at hd
  cases hs : t src with
  | none => simp [hs] at hd
  | some e =>
    simp only [hs] at hd
    exact h.alloc hd (by intro hc; cases hc)

theorem Inv.openFile (h : Inv t0 t) {lim fd : Nat} {path : Str} {mode : Nat} {t' : Table}
    (ho : t.openFile lim path mode = some (t', fd)) : Inv t0 t' ∧ 3 ≤ fd := by
  unfold Table.openFile at ho
  exact h.alloc ho (fun _ => ⟨path, mode, rfl⟩)

theorem Inv.closePair (h : Inv t0 t) {p : Fds} (hp : 3 ≤ p.1 ∧ 3 ≤ p.2) : Inv t0 (closePair t p) :=
  (h.close hp.1).close hp.2

theorem Inv.closeOpt (h : Inv t0 t) {o : Option Fds} (hp : ∀ p, o = some p → 3 ≤ p.1 ∧ 3 ≤ p.2) : Inv t0 (closeOpt t o) := by
  cases o with
  | none => exact h
  | some p => exact h.closePair (hp p rfl)

theorem Inv.foldlClosePair : ∀ (ps : List Fds) {t : Table}, Inv t0 t → (∀ p ∈ ps, 3 ≤ p.1 ∧ 3 ≤ p.2) →
    Inv t0 (ps.foldl Pipeline.closePair t) := by
  intro ps
  induction ps with
  | nil => intro t h _; exact h
  | cons p ps ih =>
    intro t h hp
    simp only [List.foldl_cons]
    exact ih (h.closePair (hp p List.mem_cons_self)) (fun q hq => hp q (List.mem_cons_of_mem _ hq))

/-- everything the parent holds at `fork` is numbered 3 or more -/
structure Held3 (prev cur : Option Fds) (right : List Fds) (cap : Cap) (hs : Option Fds) : Prop where
  prev : ∀ p, prev = some p → 3 ≤ p.1
  cur : ∀ p, cur = some p → 3 ≤ p.1 ∧ 3 ≤ p.2
  right : ∀ p ∈ right, 3 ≤ p.1 ∧ 3 ≤ p.2
  cap1 : ∀ p, cap.1 = some p → 3 ≤ p.1 ∧ 3 ≤ p.2
  cap2 : ∀ p, cap.2 = some p → 3 ≤ p.1 ∧ 3 ≤ p.2
  hs : ∀ p, hs = some p → 3 ≤ p.1 ∧ 3 ≤ p.2

theorem held3_of {prev cur : Option Fds} {right : List Fds} {cap : Cap} {hs : Option Fds}
    (h : ∀ x ∈ heldAtFork prev cur right cap hs, 3 ≤ x) : Held3 prev cur right cap hs := by
  obtain ⟨ca, cb⟩ := cap
  constructor
  · rintro p rfl; exact h _ (by simp [heldAtFork, prevFds])
  · rintro p rfl; exact ⟨h _ (by simp [heldAtFork, optFds]), h _ (by simp [heldAtFork, optFds])⟩
  · intro p hp
    exact ⟨h _ (by simp only [heldAtFork, List.mem_append, mem_fdsOf]; exact Or.inr (Or.inr (Or.inl ⟨p, hp, Or.inl rfl⟩))),
      h _ (by simp only [heldAtFork, List.mem_append, mem_fdsOf]; exact Or.inr (Or.inr (Or.inl ⟨p, hp, Or.inr rfl⟩)))⟩
  · rintro p hp; simp only at hp; subst hp
    exact ⟨h _ (by simp [heldAtFork, capFds]), h _ (by simp [heldAtFork, capFds])⟩
  · rintro p hp; simp only at hp; subst hp
    exact ⟨h _ (by simp [heldAtFork, capFds]), h _ (by simp [heldAtFork, capFds])⟩
  · rintro p rfl; exact ⟨h _ (by simp [heldAtFork, optFds]), h _ (by simp [heldAtFork, optFds])⟩

theorem childPipes_inv {prev cur : Option Fds} {right : List Fds} {cap : Cap} {hs : Option Fds}
    (H : Held3 prev cur right cap hs) (h : Inv t0 t) : Inv t0 (childPipes prev cur right cap t) := by
  rw [childPipes_eq]
  have h1 : Inv t0 (stepRight right t) := Inv.foldlClosePair right h H.right
  have h2 : Inv t0 (stepCap cur cap (stepRight right t)) := by
    unfold stepCap
    split
    · exact (h1.closeOpt H.cap1).closeOpt H.cap2
    · exact h1
  have h3 : Inv t0 (stepPrev prev (stepCap cur cap (stepRight right t))) := by
    unfold stepPrev
    cases prev with
    | none => exact h2
    | some p => exact (h2.dup2 _ _).close (H.prev p rfl)
  unfold stepCur
  cases cur with
  | none => exact h3
  | some p => exact ((h3.dup2 _ _).close (H.cur p rfl).2).close (H.cur p rfl).1

theorem childStdin_inv {cfg : Cfg} {cmd : Command} {hs : Option Fds} {t' : Table}
    (Hhs : ∀ p, hs = some p → 3 ≤ p.1 ∧ 3 ≤ p.2) (h : Inv t0 t) (hr : childStdin cfg cmd hs t = some t') : Inv t0 t' := by
  unfold childStdin at hr
  have hfrom : ∀ t1, (if cmd.isFrom then
        (if !cfg.canRead ((cmd.redirectFrom.map (fun (x : Tok) => x.2)).getD []) then none
         else match t.openFile cfg.lim ((cmd.redirectFrom.map (fun (x : Tok) => x.2)).getD []) 0 with
          | none => none
          | some (t1, fd) => some ((t1.dup2 fd 0).close fd))
      else some t) = some t1 → Inv t0 t1 := by
    intro t1 h1
    split at h1
    · split at h1
      · simp at h1
      · split at h1
        · simp at h1
        · rename_i t2 fd ho
          cases h1
          obtain ⟨hi, h3⟩ := h.openFile ho
          exact (hi.dup2 _ _).close h3
    · cases h1; exact h
  simp only at hr
  split at hr
  · simp at hr
  · rename_i t1 h1
    have hc := hfrom t1 h1
    simp only [Option.some.injEq] at hr
    subst hr
    split
    · cases hs with
      | none => exact hc
      | some p => exact (((hc.close (Hhs p rfl).2).dup2 _ _).close (Hhs p rfl).1)
    · exact hc

theorem redirStep_inv {cfg : Cfg} {notLast capture : Bool} {s s' : Pipeline.RState} {r : Redir}
    (h : Inv t0 s.t) (hr : Pipeline.redirStep cfg notLast capture s r = some s') : Inv t0 s'.t := by
  obtain ⟨from_, op, to⟩ := r
  unfold Pipeline.redirStep at hr
  simp only at hr
  split at hr
  · split at hr
    · cases hr; exact h.dup2 _ _
    · split at hr
      · split at hr
        · simp at hr
        · rename_i t1 fd hd
          cases hr
          obtain ⟨hi, h3⟩ := h.dup hd
          exact (hi.dup2 _ _).close h3
      · cases hr; exact h
  · split at hr
    · split at hr
      · split at hr
        · simp at hr
        · rename_i t1 fd hd
          cases hr
          obtain ⟨hi, h3⟩ := h.dup hd
          exact (hi.dup2 _ _).close h3
      · cases hr; exact h
    · split at hr
      · simp at hr
      · split at hr
        · simp at hr
        · rename_i t1 fd ho
          obtain ⟨hi, _⟩ := h.openFile ho
          split at hr
          · cases hr; exact hi.dup2 _ _
          · cases hr; exact hi.dup2 _ _

theorem redirLoop_inv {cfg : Cfg} {notLast capture : Bool} : ∀ (rs : List Redir) (s : Pipeline.RState), Inv t0 s.t →
    Inv t0 (redirLoop cfg notLast capture s rs).1.t := by
  intro rs
  induction rs with
  | nil => intro s h; exact h
  | cons r rs ih =>
    intro s h
    unfold redirLoop
    cases hs : Pipeline.redirStep cfg notLast capture s r with
    | none => exact h
    | some s' => exact ih s' (redirStep_inv h hs)

theorem capHalf_inv (p : Fds) (red : Bool) (dst : Nat) (hp : 3 ≤ p.1 ∧ 3 ≤ p.2) (h : Inv t0 t) :
    Inv t0 ((if red then t.close p.1 else (t.close p.1).dup2 p.2 dst).close p.2) := by
  cases red with
  | true => exact (h.close hp.1).close hp.2
  | false => exact ((h.close hp.1).dup2 _ _).close hp.2

theorem capBlock_inv {cap : Cap} (outRed errRed : Bool) (H1 : ∀ p, cap.1 = some p → 3 ≤ p.1 ∧ 3 ≤ p.2)
    (H2 : ∀ p, cap.2 = some p → 3 ≤ p.1 ∧ 3 ≤ p.2) (h : Inv t0 t) : Inv t0 (capBlock cap outRed errRed t) := by
  obtain ⟨ca, cb⟩ := cap
  unfold capBlock
  cases ca with
  | none =>
    cases cb with
    | none => exact h
    | some q => exact capHalf_inv q errRed 2 (H2 q rfl) h
  | some p =>
    cases cb with
    | none => exact capHalf_inv p outRed 1 (H1 p rfl) h
    | some q => exact capHalf_inv q errRed 2 (H2 q rfl) (capHalf_inv p outRed 1 (H1 p rfl) h)

theorem childRun_inv (cfg : Cfg) (cmd : Command) (prev cur : Option Fds) (right : List Fds) (cap : Cap) (hs : Option Fds)
    (capture : Bool) (tf : Table) (H : Held3 prev cur right cap hs) (h : Inv t0 tf)
    (ce : ChildEnd) (lg : List (Str × Nat))
    (hrun : childRun cfg cmd prev cur right cap hs capture tf = (ce, lg)) :
    (∀ argv tb, ce = .builtin argv tb → Inv t0 tb) ∧
    (∀ argv tc, ce = .exec argv tc → ∃ tfin, Inv t0 tfin ∧ tc = tfin.atExec) := by
  unfold childRun at hrun
  cases hst : childStdin cfg cmd hs (childPipes prev cur right cap tf) with
  | none =>
    simp only [hst, Prod.mk.injEq] at hrun
    obtain ⟨rfl, _⟩ := hrun
    exact ⟨fun _ _ h => (by cases h), fun _ _ h => (by cases h)⟩
  | some t1 =>
    have h2 := childStdin_inv H.hs (childPipes_inv H h) hst
    simp only [hst] at hrun
    have h3 := redirLoop_inv (cfg := cfg) (notLast := cur.isSome) (capture := capture) cmd.redirectsTo { t := t1 } h2
    generalize redirLoop cfg cur.isSome capture { t := t1 } cmd.redirectsTo = rl at hrun h3
    obtain ⟨s, ok⟩ := rl
    cases ok with
    | false =>
      simp only [Prod.mk.injEq] at hrun
      obtain ⟨rfl, _⟩ := hrun
      exact ⟨fun _ _ h => (by cases h), fun _ _ h => (by cases h)⟩
    | true =>
      simp only at hrun h3
      have h4 : Inv t0 (if cur.isNone ∧ capture then capBlock cap s.outRed s.errRed s.t else s.t) := by
        split
        · exact capBlock_inv _ _ H.cap1 H.cap2 h3
        · exact h3
      generalize (if cur.isNone ∧ capture then capBlock cap s.outRed s.errRed s.t else s.t) = tfin at hrun h4
      simp only [Prod.mk.injEq] at hrun
      rw [← hrun.1]
      split
      · exact ⟨fun _ _ h => (by cases h; exact h4), fun _ _ h => (by cases h)⟩
      · split
        · exact ⟨fun _ _ h => (by cases h), fun _ _ h => (by cases h; exact ⟨tfin, h4, rfl⟩)⟩
        · exact ⟨fun _ _ h => (by cases h), fun _ _ h => (by cases h)⟩

theorem std_atExec (h : Std t) : ∀ x, x < 3 → (t.atExec x).isSome := by
  intro x hx
  obtain ⟨e, he, hc⟩ := h x hx
  simp [atExec_apply, he, hc]

/-! #### where the recorded children come from -/

/-- the recorded child is the result of `childRun` on a table that is `t0` plus what the parent holds for the stage at
`fork`, without any new close-on-exec entry -/
def FromFork (cfg : Cfg) (capture : Bool) (t0 : Table) (c : Nat × ChildEnd × List (Str × Nat)) : Prop :=
  ∃ (cmd : Command) (prev cur : Option Fds) (right : List Fds) (cap : Cap) (hs : Option Fds) (tf : Table),
    Restores t0 tf (heldAtFork prev cur right cap hs) ∧ NoNewCx t0 tf ∧
    (cmd.isHere = false → hs = none) ∧ (capture = false → cap = (none, none)) ∧
    c.2 = childRun cfg cmd prev cur right cap hs capture tf

theorem noNewCx_shrink {t' : Table} (h : NoNewCx t0 t) (hs : ∀ x, t' x = none ∨ t' x = t x) : NoNewCx t0 t' := by
  intro x e he hc
  rcases hs x with h1 | h1
  · rw [h1] at he; cases he
  · rw [h1] at he; exact h x e he hc

theorem noNewCx_pipe {t2 : Table} {lim k r w : Nat} (h : NoNewCx t0 t) (hp : t.pipe lim k = some (t2, r, w)) : NoNewCx t0 t2 := by
  obtain ⟨_, _, _, rfl⟩ := pipe_spec hp
  intro x e he hc
  simp only [set_apply] at he
  split at he
  · cases he; cases hc
  · split at he
    · cases he; cases hc
    · exact h x e he hc

theorem noNewCx_release (prev cur : Option Fds) (cap : Cap) (h : NoNewCx t0 t) : NoNewCx t0 (release prev cur cap t) := by
  apply noNewCx_shrink h
  intro x
  rw [release_apply]
  split
  · exact Or.inl rfl
  · exact Or.inr rfl

theorem mkPipes_noNewCx (lim : Nat) : ∀ (n : Nat) (t : Table) (np : Nat) (acc : List Fds),
    NoNewCx t0 t → NoNewCx t0 (mkPipes lim n t np acc).1 := by
  intro n
  induction n with
  | zero => intro t np acc h; simpa [mkPipes] using h
  | succ n ih =>
    intro t np acc h
    unfold mkPipes
    cases hp : t.pipe lim np with
    | none => simpa using h
    | some q =>
      obtain ⟨t1, r, w⟩ := q
      simp only
      exact ih _ _ _ (noNewCx_pipe h hp)

theorem parentStage_fromFork (cfg : Cfg) (cmd : Command) (i : Nat) (prev cur : Option Fds) (right : List Fds) (cap : Cap)
    (capture bg : Bool) (s : PState) (t0 : Table)
    (hcap : capture = false → cap = (none, none))
    (hR : Restores t0 s.shell (prevFds prev ++ fdsOf (cur.toList ++ right) ++ capFds cap))
    (hN : NoNewCx t0 s.shell)
    (hgood : ∀ c ∈ s.children, FromFork cfg capture t0 c) :
    ∀ c ∈ (parentStage cfg cmd i prev cur right cap capture bg s).children, FromFork cfg capture t0 c := by
  have hmem : ∀ hs x, x ∈ prevFds prev ++ fdsOf (cur.toList ++ right) ++ capFds cap ++ optFds hs ↔ x ∈ heldAtFork prev cur right cap hs := by
    intro hs x
    unfold heldAtFork
    cases cur with
    | none => simp [optFds, fdsOf]
    | some p => simp [optFds, fdsOf]; try grind
  unfold parentStage
  by_cases hh : cmd.isHere = true
  · simp only [hh, ↓reduceIte]
    cases hp : s.shell.pipe cfg.lim s.np with
    | none => simpa using hgood
    | some q =>
      obtain ⟨t1, r, w⟩ := q
      simp only
      intro c hc
      simp only [List.mem_append, List.mem_cons, List.not_mem_nil, or_false] at hc
      rcases hc with hc | rfl
      · exact hgood c hc
      · have hR1 : Restores t0 t1 (heldAtFork prev cur right cap (some (r, w))) :=
          restores_congr (restores_pipe hR hp) (by intro x; rw [← hmem]; simp [optFds])
        exact ⟨cmd, prev, cur, right, cap, some (r, w), t1, hR1, noNewCx_pipe hN hp, by simp [hh], hcap, rfl⟩
  · simp only [hh]
    intro c hc
    simp only [Bool.false_eq_true, ↓reduceIte, List.mem_append, List.mem_cons, List.not_mem_nil, or_false] at hc
    rcases hc with hc | rfl
    · exact hgood c hc
    · have hR1 : Restores t0 s.shell (heldAtFork prev cur right cap none) :=
        restores_congr hR (by intro x; rw [← hmem]; simp [optFds])
      exact ⟨cmd, prev, cur, right, cap, none, s.shell, hR1, hN, by simp, hcap, rfl⟩

theorem parentLoop_fromFork (cfg : Cfg) (cap : Cap) (capture bg : Bool) (t0 : Table)
    (hcap : capture = false → cap = (none, none)) :
    ∀ (cmds : List Command) (prev : Option Fds) (rest : List Fds) (i : Nat) (s : PState),
      Restores t0 s.shell (prevFds prev ++ fdsOf rest ++ capFds cap) → NoNewCx t0 s.shell →
      (∀ c ∈ s.children, FromFork cfg capture t0 c) →
      ∀ c ∈ (parentLoop cfg cap capture bg prev rest cmds i s).children, FromFork cfg capture t0 c := by
  intro cmds
  induction cmds with
  | nil => intro _ _ _ s _ _ hg; simpa [parentLoop] using hg
  | cons c cs ih =>
    intro prev rest i s hR hN hg
    unfold parentLoop
    have hrest : rest = rest.head?.toList ++ rest.tail := by cases rest <;> simp
    have hR' : Restores t0 s.shell (prevFds prev ++ fdsOf (rest.head?.toList ++ rest.tail) ++ capFds cap) := by
      rw [← hrest]; exact hR
    apply ih
    · rw [parentStage_shell]
      have := release_restores_next prev rest.head? rest.tail cap hR'
      refine ⟨fun x hx => this.1 x (fun hm => hx ?_), fun x hx => ?_⟩
      · simp only [List.mem_append] at hm ⊢
        rcases hm with hm | hm
        · exact Or.inl hm
        · right; split at hm
          · simp at hm
          · exact hm
      · simp only [List.mem_append] at hx
        rcases hx with (hx | hx) | hx
        · exact this.2 x (by simp only [List.mem_append]; exact Or.inl (Or.inl hx))
        · exact this.2 x (by simp only [List.mem_append]; exact Or.inl (Or.inr hx))
        · exact hR.2 x (by simp only [List.mem_append]; exact Or.inr hx)
    · rw [parentStage_shell]; exact noNewCx_release _ _ _ hN
    · exact parentStage_fromFork cfg c i prev rest.head? rest.tail cap capture bg s t0 hcap hR' hN hg

/-- **every recorded child of `run_pipeline` is `childRun` on the shell's table plus what is held for it** (for any
starting table): the representation from which the per-child theorems follow -/
theorem children_fromFork (cfg : Cfg) (cmds : List Command) (capture bg : Bool) (t0 : Table) (np : Nat) :
    ∀ c ∈ (runPipeline cfg cmds capture bg t0 np).children, FromFork cfg capture t0 c := by
  have hN0 : NoNewCx t0 t0 := fun x e he _ => he
  unfold runPipeline
  by_cases hbc : bg = true ∧ capture = true
  · simp [hbc]
  · simp only [hbc, ↓reduceIte]
    have hR := mkPipes_restores cfg.lim t0 (cmds.length - 1) t0 np [] (by simpa [fdsOf] using restores_refl t0)
    have hN := mkPipes_noNewCx (t0 := t0) cfg.lim (cmds.length - 1) t0 np [] hN0
    generalize mkPipes cfg.lim (cmds.length - 1) t0 np [] = r at hR hN
    obtain ⟨t1, np1, pipes, ok⟩ := r
    simp only at hR hN ⊢
    cases ok with
    | false => simp
    | true =>
      simp only [Bool.not_true, Bool.false_eq_true, ↓reduceIte]
      cases capture with
      | false =>
        simp only [Bool.not_false, ↓reduceIte]
        apply parentLoop_fromFork cfg _ _ _ t0 (fun _ => rfl)
        · simpa [prevFds, capFds] using hR
        · exact hN
        · simp
      | true =>
        simp only [Bool.not_true, Bool.false_eq_true, ↓reduceIte]
        cases hp1 : t1.pipe cfg.lim np1 with
        | none => simp
        | some q1 =>
          obtain ⟨t2, r, w⟩ := q1
          simp only
          cases hp2 : t2.pipe cfg.lim (np1 + 1) with
          | none => simp
          | some q2 =>
            obtain ⟨t3, r', w'⟩ := q2
            simp only
            apply parentLoop_fromFork cfg _ _ _ t0 (by simp)
            · have h3 := restores_pipe (restores_pipe hR hp1) hp2
              refine ⟨fun x hx => h3.1 x ?_, fun x hx => h3.2 x ?_⟩
              · simp only [prevFds, capFds, List.nil_append, List.mem_append, List.mem_cons, List.not_mem_nil, or_false] at hx ⊢
                grind
              · simp only [prevFds, capFds, List.nil_append, List.mem_append, List.mem_cons, List.not_mem_nil, or_false] at hx ⊢
                grind
            · exact noNewCx_pipe (noNewCx_pipe hN hp1) hp2
            · simp

/-- a child that comes from a fork of a table with 0, 1, 2 open and un-flagged keeps the exact invariant -/
theorem fromFork_inv {cfg : Cfg} {capture : Bool} {c : Nat × ChildEnd × List (Str × Nat)} (hstd : Std t0)
    (hc : FromFork cfg capture t0 c) :
    (∀ argv tb, c.2.1 = .builtin argv tb → Inv t0 tb) ∧
    (∀ argv tc, c.2.1 = .exec argv tc → ∃ tfin, Inv t0 tfin ∧ tc = tfin.atExec) := by
  obtain ⟨cmd, prev, cur, right, cap, hs, tf, hR, hN, _, _, hrun⟩ := hc
  have h3 : ∀ x ∈ heldAtFork prev cur right cap hs, 3 ≤ x := by
    intro x hx
    apply Nat.le_of_not_lt
    intro hlt
    obtain ⟨e, he, _⟩ := hstd x hlt
    rw [hR.2 x hx] at he; cases he
  have hinv : Inv t0 tf := by
    constructor
    · intro x hx
      have : x ∉ heldAtFork prev cur right cap hs := fun hm => by have := h3 x hm; omega
      rw [hR.1 x this]; exact hstd x hx
    · intro x e he hc; exact Or.inr (hN x e he hc)
  generalize hres : childRun cfg cmd prev cur right cap hs capture tf = res at hrun
  obtain ⟨ce, lg⟩ := res
  have := childRun_inv cfg cmd prev cur right cap hs capture tf (held3_of h3) hinv ce lg hres
  rw [hrun]; exact this

/-- **every program `run_pipeline` starts has exactly 0, 1, 2 open** when the shell's table has 0, 1, 2 open and
un-flagged and only close-on-exec entries from 3 on (`C08_child_012` gives the "nothing from 3 on" half for one stage;
this adds that 0, 1 and 2 are really open in the program, for every stage of every pipeline) -/
theorem C08_children_exact_012 (cfg : Cfg) (cmds : List Command) (capture bg : Bool) (t0 : Table) (np : Nat)
    (hstd : Std t0) (hcx : ∀ x e, 3 ≤ x → t0 x = some e → e.cx = true) :
    ∀ c ∈ (runPipeline cfg cmds capture bg t0 np).children, ∀ argv tc, c.2.1 = .exec argv tc →
      (tc 0).isSome ∧ (tc 1).isSome ∧ (tc 2).isSome ∧ ∀ x, 3 ≤ x → tc x = none := by
  intro c hc argv tc he
  have hs : ∀ x, x < 3 → (t0 x).isSome := fun x hx => by obtain ⟨e, h, _⟩ := hstd x hx; simp [h]
  obtain ⟨tfin, hinv, rfl⟩ := (fromFork_inv hstd (children_fromFork cfg cmds capture bg t0 np c hc)).2 argv tc he
  refine ⟨std_atExec hinv.std 0 (by omega), std_atExec hinv.std 1 (by omega), std_atExec hinv.std 2 (by omega), ?_⟩
  intro x hx
  rw [C08_children_clean cfg cmds capture bg t0 np (hs 0 (by omega)) (hs 1 (by omega)) (hs 2 (by omega)) c hc argv _ he x hx,
    atExec_apply]
  cases h : t0 x with
  | none => rfl
  | some e => simp [hcx x e hx h]

/-- **the table of a builtin stage, exactly**: 0, 1, 2 open and un-flagged; every entry from 3 on is close-on-exec and is
either the shell's own entry at that number or a file this stage's redirections opened -/
theorem C08_builtin_table_exact (cfg : Cfg) (cmds : List Command) (capture bg : Bool) (t0 : Table) (np : Nat)
    (hstd : Std t0) (hcx : ∀ x e, 3 ≤ x → t0 x = some e → e.cx = true)
    (c : Nat × ChildEnd × List (Str × Nat)) (hc : c ∈ (runPipeline cfg cmds capture bg t0 np).children)
    (argv : List Str) (tb : Table) (hb : c.2.1 = .builtin argv tb) :
    Std tb ∧ ∀ x e, 3 ≤ x → tb x = some e → e.cx = true ∧ (isFileEnt e ∨ t0 x = some e) := by
  have hs : ∀ x, x < 3 → (t0 x).isSome := fun x hx => by obtain ⟨e, h, _⟩ := hstd x hx; simp [h]
  have hinv := (fromFork_inv hstd (children_fromFork cfg cmds capture bg t0 np c hc)).1 argv tb hb
  have hcl := (C08_builtin_children_clean cfg cmds capture bg t0 np (hs 0 (by omega)) (hs 1 (by omega)) (hs 2 (by omega)) c hc).2 argv tb hb
  refine ⟨hinv.std, fun x e hx he => ?_⟩
  have := clean_all_cx hcl hcx x e hx he
  exact ⟨this, hinv.cxp x e he this⟩

/-- **`C08_nested_012`, exact form**: with 0, 1, 2 open and un-flagged in the shell's table and only close-on-exec
entries from 3 on, for every builtin stage (table `tb`) of every pipeline:
(i) `tb` has 0, 1, 2 open and un-flagged, and from 3 on only close-on-exec entries, each the shell's own or a redirection
    target of this stage — so no end of a pipe of the outer pipeline (given the shell's table holds none from 3 on);
(ii) every program started from `tb` by any further `runPipeline` starts with exactly 0, 1, 2 open. -/
theorem C08_nested_exact (cfg : Cfg) (cmds : List Command) (capture bg : Bool) (t0 : Table) (np : Nat)
    (hstd : Std t0) (hcx : ∀ x e, 3 ≤ x → t0 x = some e → e.cx = true)
    (c : Nat × ChildEnd × List (Str × Nat)) (hc : c ∈ (runPipeline cfg cmds capture bg t0 np).children)
    (argv : List Str) (tb : Table) (hb : c.2.1 = .builtin argv tb) :
    (Std tb ∧ (∀ x e, 3 ≤ x → tb x = some e → e.cx = true ∧ (isFileEnt e ∨ t0 x = some e)) ∧
      ((∀ x e k, 3 ≤ x → t0 x = some e → e.obj ≠ .pipeR k ∧ e.obj ≠ .pipeW k) →
        ∀ x e k, 3 ≤ x → tb x = some e → e.obj ≠ .pipeR k ∧ e.obj ≠ .pipeW k)) ∧
    (∀ (cfg' : Cfg) (cmds' : List Command) (capture' bg' : Bool) (np' : Nat),
      ∀ c' ∈ (runPipeline cfg' cmds' capture' bg' tb np').children, ∀ argv' tc, c'.2.1 = .exec argv' tc →
        (tc 0).isSome ∧ (tc 1).isSome ∧ (tc 2).isSome ∧ ∀ x, 3 ≤ x → tc x = none) := by
  obtain ⟨hstb, hall⟩ := C08_builtin_table_exact cfg cmds capture bg t0 np hstd hcx c hc argv tb hb
  refine ⟨⟨hstb, hall, ?_⟩, ?_⟩
  · intro hnp x e k hx he
    rcases (hall x e hx he).2 with ⟨p, m, hf⟩ | h0
    · rw [hf]; exact ⟨fun h => (by cases h), fun h => (by cases h)⟩
    · exact hnp x e k hx h0
  · intro cfg' cmds' capture' bg' np'
    exact C08_children_exact_012 cfg' cmds' capture' bg' tb np' hstb (fun x e hx he => (hall x e hx he).1)

/-- `exT0` (script mode) satisfies the hypotheses of the exact theorems -/
example : Std exT0 ∧ (∀ x e, 3 ≤ x → exT0 x = some e → e.cx = true) ∧
    (∀ x e k, 3 ≤ x → exT0 x = some e → e.obj ≠ .pipeR k ∧ e.obj ≠ .pipeW k) := by
  refine ⟨?_, ?_, ?_⟩
  · intro x hx
    exact ⟨{ obj := .inh x }, by simp [exT0, hx], rfl⟩
  · intro x e hx he
    unfold exT0 at he
    have h3 : ¬ x < 3 := by omega
    simp only [h3, ↓reduceIte] at he
    split at he
    · cases he; rfl
    · cases he
  · intro x e k hx he
    unfold exT0 at he
    have h3 : ¬ x < 3 := by omega
    simp only [h3, ↓reduceIte] at he
    split at he
    · cases he; exact ⟨fun h => (by cases h), fun h => (by cases h)⟩
    · cases he

end Cicada.C08

