import Cicada.Spec.C14
/-!
# The script interpreter refines the structured semantics (lemmas for C14)

`Rep*` relate an AST of `Spec/C14.lean` to a pair tree as `Model/Locust.lean` produces it, constraining only what
the interpreter looks at (rule names, the trimmed texts of CMD / TEST / FOR_VAR pairs, non-blank texts of block pairs).
-/
namespace Cicada.C14
open Cicada Cicada.Locust

theorem bind_ok {α β} {o : Outcome α} {k : α → Outcome β} {y : β} (h : o.bind k = .ok y) :
    ∃ x, o = .ok x ∧ k x = .ok y := by
  cases o with
  | ok a => exact ⟨a, rfl, h⟩
  | err _ => simp [Outcome.bind] at h
  | panic _ => simp [Outcome.bind] at h
  | diverge _ => simp [Outcome.bind] at h

/-- one more unit of fuel never changes a result of the reference semantics -/
theorem sem_mono_step {σ} (sem : Sem σ) : ∀ f : Nat,
    (∀ b inLoop st x, semBlock sem f b inLoop st = .ok x → semBlock sem (f + 1) b inLoop st = .ok x) ∧
    (∀ arms els inLoop st x, semArms sem f arms els inLoop st = .ok x → semArms sem (f + 1) arms els inLoop st = .ok x) ∧
    (∀ v body ws st x, semFor sem f v body ws st = .ok x → semFor sem (f + 1) v body ws st = .ok x) ∧
    (∀ t body st x, semWhile sem f t body st = .ok x → semWhile sem (f + 1) t body st = .ok x) := by
  intro f
  induction f with
  | zero =>
    refine ⟨?_, ?_, ?_, ?_⟩ <;> intros <;> simp_all [semBlock, semArms, semFor, semWhile]
  | succ f ih =>
    obtain ⟨ihB, ihA, ihF, ihW⟩ := ih
    refine ⟨?_, ?_, ?_, ?_⟩
    · intro b inLoop st x h
      cases b with
      | nil => simpa [semBlock] using h
      | cons s rest =>
        cases s with
        | cmd l => simp only [semBlock] at h ⊢; exact ihB _ _ _ _ h
        | brk =>
          simp only [semBlock] at h ⊢
          cases inLoop with
          | true => simpa using h
          | false => simp only [Bool.false_eq_true, ↓reduceIte] at h ⊢; exact ihB _ _ _ _ h
        | cont =>
          simp only [semBlock] at h ⊢
          cases inLoop with
          | true => simpa using h
          | false => simp only [Bool.false_eq_true, ↓reduceIte] at h ⊢; exact ihB _ _ _ _ h
        | ite arms els =>
          simp only [semBlock] at h ⊢
          obtain ⟨y, h1, h2⟩ := bind_ok h
          rw [ihA _ _ _ _ _ h1]
          simp only [Outcome.bind]
          obtain ⟨st', fl⟩ := y
          simp only at h2 ⊢
          split
          · rename_i hfl; simp only [hfl, ↓reduceIte] at h2; exact ihB _ _ _ _ h2
          · rename_i hfl; simpa [hfl] using h2
        | «for» v init body =>
          simp only [semBlock] at h ⊢
          obtain ⟨y, h1, h2⟩ := bind_ok h
          rw [ihF _ _ _ _ _ h1]
          simp only [Outcome.bind]
          exact ihB _ _ _ _ h2
        | whl t body =>
          simp only [semBlock] at h ⊢
          obtain ⟨y, h1, h2⟩ := bind_ok h
          rw [ihW _ _ _ _ h1]
          simp only [Outcome.bind]
          exact ihB _ _ _ _ h2
    · intro arms els inLoop st x h
      cases arms with
      | nil => simp only [semArms] at h ⊢; exact ihB _ _ _ _ h
      | cons t body rest =>
        simp only [semArms] at h ⊢
        split
        · rename_i hr; simp only [hr, ↓reduceIte] at h; exact ihB _ _ _ _ h
        · rename_i hr; simp only [hr, ↓reduceIte] at h; exact ihA _ _ _ _ _ h
    · intro v body ws st x h
      cases ws with
      | nil => simpa [semFor] using h
      | cons w ws =>
        simp only [semFor] at h ⊢
        obtain ⟨y, h1, h2⟩ := bind_ok h
        rw [ihB _ _ _ _ h1]
        simp only [Outcome.bind]
        obtain ⟨st', fl⟩ := y
        simp only at h2 ⊢
        split
        · rename_i hfl; simpa [hfl] using h2
        · rename_i hfl; simp only [hfl, ↓reduceIte] at h2; exact ihF _ _ _ _ _ h2
    · intro t body st x h
      simp only [semWhile] at h ⊢
      split
      · rename_i hr
        simp only [hr, ↓reduceIte] at h
        obtain ⟨y, h1, h2⟩ := bind_ok h
        rw [ihB _ _ _ _ h1]
        simp only [Outcome.bind]
        obtain ⟨st', fl⟩ := y
        simp only at h2 ⊢
        split
        · rename_i hfl; simpa [hfl] using h2
        · rename_i hfl; simp only [hfl, ↓reduceIte] at h2; exact ihW _ _ _ _ h2
      · rename_i hr; simpa [hr] using h

theorem sem_mono {σ} (sem : Sem σ) (f g : Nat) (hfg : f ≤ g) :
    (∀ b inLoop st x, semBlock sem f b inLoop st = .ok x → semBlock sem g b inLoop st = .ok x) ∧
    (∀ arms els inLoop st x, semArms sem f arms els inLoop st = .ok x → semArms sem g arms els inLoop st = .ok x) ∧
    (∀ v body ws st x, semFor sem f v body ws st = .ok x → semFor sem g v body ws st = .ok x) ∧
    (∀ t body st x, semWhile sem f t body st = .ok x → semWhile sem g t body st = .ok x) := by
  induction g with
  | zero =>
    have : f = 0 := by omega
    subst this
    exact ⟨fun _ _ _ _ h => h, fun _ _ _ _ _ h => h, fun _ _ _ _ _ h => h, fun _ _ _ _ h => h⟩
  | succ g ih =>
    by_cases hfg' : f = g + 1
    · subst hfg'
      exact ⟨fun _ _ _ _ h => h, fun _ _ _ _ _ h => h, fun _ _ _ _ _ h => h, fun _ _ _ _ h => h⟩
    · obtain ⟨a, b, c, d⟩ := ih (by omega)
      obtain ⟨a', b', c', d'⟩ := sem_mono_step sem g
      exact ⟨fun _ _ _ _ h => a' _ _ _ _ (a _ _ _ _ h), fun _ _ _ _ _ h => b' _ _ _ _ _ (b _ _ _ _ _ h),
             fun _ _ _ _ _ h => c' _ _ _ _ _ (c _ _ _ _ _ h), fun _ _ _ _ h => d' _ _ _ _ (d _ _ _ _ h)⟩

/-! ### which pair trees represent which ASTs -/

/-- a command line as the interpreter must see it: not blank, not a loop-control word, untouched by positional expansion -/
def PlainLine (args : List Str) (l : Str) : Prop :=
  l ≠ [] ∧ l ≠ "continue".toList ∧ l ≠ "break".toList ∧ expandArgs args l = l

mutual
inductive RStmt (args : List Str) : Stmt → PT → Prop
  | cmd {l text : Str} : trim text = l → PlainLine args l → RStmt args (.cmd l) (.node "CMD" text [])
  | brk {text : Str} : trim text = "break".toList → RStmt args .brk (.node "CMD" text [])
  | cont {text : Str} : trim text = "continue".toList → RStmt args .cont (.node "CMD" text [])
  | ite {arms : Arms} {els : Block} {text : Str} {brs : List PT} : trim text ≠ [] → RArms args arms els brs →
      RStmt args (.ite arms els) (.node "EXP_IF" text brs)
  | «for» {v init : Str} {body : Block} {text t1 t2 vt tt t3 : Str} {kids : List PT} :
      trim text ≠ [] → trim vt = v → trim tt = init → RBlock args body kids →
      RStmt args (.for v init body)
        (.node "EXP_FOR" text [.node "FOR_HEAD" t1 [.node "FOR_INIT" t2 [.node "FOR_VAR" vt [], .node "TEST" tt []]], .node "EXP_BODY" t3 kids])
  | whl {t : Str} {body : Block} {text t1 tt t3 : Str} {kids : List PT} :
      trim text ≠ [] → trim tt = t → expandArgs args t = t → RBlock args body kids →
      RStmt args (.whl t body) (.node "EXP_WHILE" text [.node "WHILE_HEAD" t1 [.node "TEST" tt []], .node "EXP_BODY" t3 kids])
inductive RBlock (args : List Str) : Block → List PT → Prop
  | nil : RBlock args .nil []
  | cons {s : Stmt} {p : PT} {rest : Block} {ps : List PT} : RStmt args s p → RBlock args rest ps → RBlock args (.cons s rest) (p :: ps)
inductive RArms (args : List Str) : Arms → Block → List PT → Prop
  | done : RArms args .nil .nil []
  | els {els : Block} {t1 t2 t3 : Str} {kids : List PT} : RBlock args els kids →
      RArms args .nil els [.node "IF_ELSE_BR" t1 [.node "KW_ELSE" t2 [], .node "EXP_BODY" t3 kids]]
  | arm {t : Str} {body : Block} {rest : Arms} {els : Block} {r hr : String} {x y tt z : Str} {kids brs : List PT} :
      (hr = "IF_HEAD" ∨ hr = "IF_ELSEIF_HEAD") → trim tt = t → expandArgs args t = t → RBlock args body kids → RArms args rest els brs →
      RArms args (.cons t body rest) els (.node r x [.node hr y [.node "TEST" tt []], .node "EXP_BODY" z kids] :: brs)
end

/-- the interpreter's two flags against the semantics' flag -/
def FlagRel {σ} (r : RunRes σ) (fl : Flag) : Prop :=
  (fl = .normal ∧ r.cont = false ∧ r.brk = false) ∨ (fl = .cont ∧ r.cont = true ∧ r.brk = false) ∨
  (fl = .brk ∧ r.cont = false ∧ r.brk = true)

/-- what the refinement says at one fuel level of the interpreter -/
structure Good {σ} (sem : Sem σ) (args : List Str) (f : Nat) : Prop where
  blk : ∀ b ts inLoop st last r, RBlock args b ts → runExp sem args f ts inLoop st last = .ok r →
    ∃ g fl, semBlock sem g b inLoop st = .ok (r.st, fl) ∧ FlagRel r fl
  arms : ∀ arms els brs inLoop st last r, RArms args arms els brs → runIf sem args f brs inLoop st last = .ok r →
    ∃ g fl, semArms sem g arms els inLoop st = .ok (r.st, fl) ∧ FlagRel r fl
  loop : ∀ v body kids ws st last r, RBlock args body kids → forLoop sem args f v kids ws st last = .ok r →
    ∃ g, semFor sem g v body ws st = .ok r.st
  whl : ∀ t body text t1 tt t3 kids st last r, trim tt = t → expandArgs args t = t → RBlock args body kids →
    runWhile sem args f (.node "EXP_WHILE" text [.node "WHILE_HEAD" t1 [.node "TEST" tt []], .node "EXP_BODY" t3 kids]) st last = .ok r →
    ∃ g, semWhile sem g t body st = .ok r.st

theorem flagRel_plain {σ} (st : σ) (last : Option Int) : FlagRel ({ st := st, last := last } : RunRes σ) .normal :=
  Or.inl ⟨rfl, rfl, rfl⟩

/-- the block part at fuel `f + 1`, given the refinement at every smaller fuel -/
theorem good_blk {σ} (sem : Sem σ) (args : List Str) (hE : ∀ s, sem.exitOnError s = false) (f : Nat)
    (ih : ∀ m, m ≤ f → Good sem args m) :
    ∀ b ts inLoop st last r, RBlock args b ts → runExp sem args (f + 1) ts inLoop st last = .ok r →
      ∃ g fl, semBlock sem g b inLoop st = .ok (r.st, fl) ∧ FlagRel r fl := by
  intro b ts inLoop st last r hR hrun
  cases hR with
  | nil =>
    simp only [runExp, Outcome.ok.injEq] at hrun
    subst hrun
    exact ⟨1, .normal, by simp [semBlock], flagRel_plain _ _⟩
  | @cons s p rest ps hs hrest =>
    have ihf := ih f (Nat.le_refl f)
    cases hs with
    | @cmd l text htx hpl =>
      obtain ⟨hne, hnc, hnb, hex⟩ := hpl
      simp only [runExp, PT.text, PT.rule, htx, hne, ↓reduceIte, hnc, hnb, hex] at hrun
      -- whatever the status, with exit-on-error off the loop goes on with the rest
      have hgo : runExp sem args f ps inLoop (sem.runLine st l).1
          (match (sem.runLine st l).2 with | some x => some x | none => last) = .ok r := by
        revert hrun
        cases (sem.runLine st l).2 with
        | none => cases last <;> simp [hE]
        | some x => simp [hE]
      obtain ⟨g, fl, hg, hfl⟩ := ihf.blk _ _ _ _ _ _ hrest hgo
      exact ⟨g + 1, fl, by simpa [semBlock] using hg, hfl⟩
    | @brk text htx =>
      have h1 : "break".toList ≠ [] := by decide
      have h2 : "break".toList ≠ "continue".toList := by decide
      simp only [runExp, PT.text, PT.rule, htx, h1, ↓reduceIte, h2] at hrun
      cases inLoop with
      | true =>
        simp only [↓reduceIte, Outcome.ok.injEq] at hrun
        subst hrun
        exact ⟨1, .brk, by simp [semBlock], Or.inr (Or.inr ⟨rfl, rfl, rfl⟩)⟩
      | false =>
        simp only [Bool.false_eq_true, ↓reduceIte] at hrun
        obtain ⟨g, fl, hg, hfl⟩ := ihf.blk _ _ _ _ _ _ hrest hrun
        exact ⟨g + 1, fl, by simpa [semBlock] using hg, hfl⟩
    | @cont text htx =>
      have h1 : "continue".toList ≠ [] := by decide
      simp only [runExp, PT.text, PT.rule, htx, h1, ↓reduceIte] at hrun
      cases inLoop with
      | true =>
        simp only [↓reduceIte, Outcome.ok.injEq] at hrun
        subst hrun
        exact ⟨1, .cont, by simp [semBlock], Or.inr (Or.inl ⟨rfl, rfl, rfl⟩)⟩
      | false =>
        simp only [Bool.false_eq_true, ↓reduceIte] at hrun
        obtain ⟨g, fl, hg, hfl⟩ := ihf.blk _ _ _ _ _ _ hrest hrun
        exact ⟨g + 1, fl, by simpa [semBlock] using hg, hfl⟩
    | @ite arms els text brs htx harms =>
      simp only [runExp, PT.text, PT.rule, PT.kids, htx, ↓reduceIte, String.reduceEq] at hrun
      obtain ⟨r1, hif, hk⟩ := bind_ok hrun
      obtain ⟨g1, fl1, hg1, hfl1⟩ := ihf.arms _ _ _ _ _ _ _ harms hif
      rcases hfl1 with ⟨rfl, hc, hb⟩ | ⟨rfl, hc, hb⟩ | ⟨rfl, hc, hb⟩
      · simp only [hc, Bool.false_eq_true, ↓reduceIte, hb] at hk
        obtain ⟨g2, fl, hg2, hfl⟩ := ihf.blk _ _ _ _ _ _ hrest hk
        refine ⟨max g1 g2 + 1, fl, ?_, hfl⟩
        simp only [semBlock]
        rw [(sem_mono sem g1 (max g1 g2) (Nat.le_max_left _ _)).2.1 _ _ _ _ _ hg1]
        simp only [Outcome.bind, ↓reduceIte]
        exact (sem_mono sem g2 (max g1 g2) (Nat.le_max_right _ _)).1 _ _ _ _ hg2
      · simp only [hc, ↓reduceIte, Outcome.ok.injEq] at hk
        subst hk
        refine ⟨g1 + 1, .cont, ?_, Or.inr (Or.inl ⟨rfl, rfl, rfl⟩)⟩
        simp [semBlock, hg1, Outcome.bind]
      · simp only [hc, Bool.false_eq_true, ↓reduceIte, hb, Outcome.ok.injEq] at hk
        subst hk
        refine ⟨g1 + 1, .brk, ?_, Or.inr (Or.inr ⟨rfl, rfl, rfl⟩)⟩
        simp [semBlock, hg1, Outcome.bind]
    | @«for» v init body text t1 t2 vt tt t3 kids htx hv hi hbody =>
      simp only [runExp, PT.text, PT.rule, htx, ↓reduceIte, String.reduceEq] at hrun
      obtain ⟨r1, hfor, hk⟩ := bind_ok hrun
      cases f with
      | zero => simp [runFor] at hfor
      | succ f' =>
        simp only [runFor, firstKid, PT.kids, PT.rule, List.find?, String.reduceEq, decide_true, decide_false,
          Option.bind, PT.text, Option.map, Option.getD, hv, hi] at hfor
        obtain ⟨g1, hg1⟩ := (ih f' (by omega)).loop _ _ _ _ _ _ _ hbody hfor
        obtain ⟨g2, fl, hg2, hfl⟩ := ihf.blk _ _ _ _ _ _ hrest hk
        refine ⟨max g1 g2 + 1, fl, ?_, hfl⟩
        simp only [semBlock]
        rw [(sem_mono sem g1 (max g1 g2) (Nat.le_max_left _ _)).2.2.1 _ _ _ _ _ hg1]
        simp only [Outcome.bind]
        exact (sem_mono sem g2 (max g1 g2) (Nat.le_max_right _ _)).1 _ _ _ _ hg2
    | @whl t body text t1 tt t3 kids htx ht hex hbody =>
      simp only [runExp, PT.text, PT.rule, htx, ↓reduceIte, String.reduceEq] at hrun
      obtain ⟨r1, hw, hk⟩ := bind_ok hrun
      obtain ⟨g1, hg1⟩ := ihf.whl _ _ _ _ _ _ _ _ _ _ ht hex hbody hw
      obtain ⟨g2, fl, hg2, hfl⟩ := ihf.blk _ _ _ _ _ _ hrest hk
      refine ⟨max g1 g2 + 1, fl, ?_, hfl⟩
      simp only [semBlock]
      rw [(sem_mono sem g1 (max g1 g2) (Nat.le_max_left _ _)).2.2.2 _ _ _ _ hg1]
      simp only [Outcome.bind]
      exact (sem_mono sem g2 (max g1 g2) (Nat.le_max_right _ _)).1 _ _ _ _ hg2

/-- the `if` part at fuel `f + 1` -/
theorem good_arms {σ} (sem : Sem σ) (args : List Str) (f : Nat) (ih : ∀ m, m ≤ f → Good sem args m) :
    ∀ arms els brs inLoop st last r, RArms args arms els brs → runIf sem args (f + 1) brs inLoop st last = .ok r →
      ∃ g fl, semArms sem g arms els inLoop st = .ok (r.st, fl) ∧ FlagRel r fl := by
  intro arms els brs inLoop st last r hR hrun
  cases hR with
  | done =>
    simp only [runIf, Outcome.ok.injEq] at hrun
    subst hrun
    exact ⟨2, .normal, by simp [semArms, semBlock], flagRel_plain _ _⟩
  | @els els t1 t2 t3 kids hbody =>
    simp only [runIf] at hrun
    obtain ⟨⟨r1, passed⟩, hbr, hk⟩ := bind_ok hrun
    cases f with
    | zero => simp [runBranch] at hbr
    | succ f' =>
      simp only [runBranch, PT.kids, PT.rule, List.find?, String.reduceEq, decide_true, decide_false, Bool.or_false,
        Bool.false_or, Option.isSome_some, firstKid, Bool.not_true, Bool.false_eq_true, ↓reduceIte, or_self, or_false, false_or] at hbr
      simp only [Outcome.map] at hbr
      obtain ⟨r2, hrx, he⟩ := bind_ok hbr
      simp only [Outcome.ok.injEq, Prod.mk.injEq] at he
      obtain ⟨rfl, rfl⟩ := he
      simp only [↓reduceIte, Outcome.ok.injEq] at hk
      subst hk
      obtain ⟨g, fl, hg, hfl⟩ := (ih f' (by omega)).blk _ _ _ _ _ _ hbody hrx
      exact ⟨g + 1, fl, by simpa [semArms] using hg, hfl⟩
  | @arm t body rest els rr hr x y tt z kids brs' hhr htx hex hbody hrest =>
    simp only [runIf] at hrun
    obtain ⟨⟨r1, passed⟩, hbr, hk⟩ := bind_ok hrun
    cases f with
    | zero => simp [runBranch] at hbr
    | succ f' =>
      rcases hhr with rfl | rfl <;>
      · simp [runBranch, PT.kids, PT.rule, List.find?, firstKid, PT.text, htx, hex] at hbr
        by_cases hp : (sem.runLine st t).2 = some 0
        · -- the condition holds: this arm's body runs and the `if` is over
          simp only [hp, ↓reduceIte, Outcome.map] at hbr
          obtain ⟨r2, hrx, he⟩ := bind_ok hbr
          simp only [Outcome.ok.injEq, Prod.mk.injEq] at he
          obtain ⟨rfl, rfl⟩ := he
          simp only [↓reduceIte, Outcome.ok.injEq] at hk
          subst hk
          obtain ⟨g, fl, hg, hfl⟩ := (ih f' (by omega)).blk _ _ _ _ _ _ hbody hrx
          exact ⟨g + 1, fl, by simpa [semArms, hp] using hg, hfl⟩
        · -- the condition fails: the arm is skipped, the next branch is tried
          simp only [hp, ↓reduceIte, Outcome.ok.injEq, Prod.mk.injEq] at hbr
          obtain ⟨rfl, rfl⟩ := hbr
          simp only [Bool.false_eq_true, ↓reduceIte] at hk
          obtain ⟨g, fl, hg, hfl⟩ := (ih (f' + 1) (by omega)).arms _ _ _ _ _ _ _ hrest hk
          exact ⟨g + 1, fl, by simpa [semArms, hp] using hg, hfl⟩

/-- the `for` loop at fuel `f + 1` -/
theorem good_loop {σ} (sem : Sem σ) (args : List Str) (f : Nat) (ih : ∀ m, m ≤ f → Good sem args m) :
    ∀ v body kids ws st last r, RBlock args body kids → forLoop sem args (f + 1) v kids ws st last = .ok r →
      ∃ g, semFor sem g v body ws st = .ok r.st := by
  intro v body kids ws st last r hbody hrun
  cases ws with
  | nil =>
    simp only [forLoop, Outcome.ok.injEq] at hrun
    subst hrun
    exact ⟨1, by simp [semFor]⟩
  | cons w ws =>
    simp only [forLoop] at hrun
    obtain ⟨r1, hrx, hk⟩ := bind_ok hrun
    obtain ⟨g1, fl, hg1, hfl⟩ := (ih f (Nat.le_refl f)).blk _ _ _ _ _ _ hbody hrx
    by_cases hb : r1.brk = true
    · simp only [hb, ↓reduceIte, Outcome.ok.injEq] at hk
      subst hk
      have hflb : fl = .brk := by
        rcases hfl with ⟨_, _, h⟩ | ⟨_, _, h⟩ | ⟨h, _, _⟩
        · rw [hb] at h; cases h
        · rw [hb] at h; cases h
        · exact h
      subst hflb
      exact ⟨g1 + 1, by simp [semFor, hg1, Outcome.bind]⟩
    · simp only [hb, Bool.false_eq_true, ↓reduceIte] at hk
      have hflb : fl ≠ .brk := by
        rcases hfl with ⟨h, _, _⟩ | ⟨h, _, _⟩ | ⟨_, _, h⟩
        · rw [h]; decide
        · rw [h]; decide
        · exact absurd h hb
      obtain ⟨g2, hg2⟩ := (ih f (Nat.le_refl f)).loop _ _ _ _ _ _ _ hbody hk
      refine ⟨max g1 g2 + 1, ?_⟩
      simp only [semFor]
      rw [(sem_mono sem g1 (max g1 g2) (Nat.le_max_left _ _)).1 _ _ _ _ hg1]
      simp only [Outcome.bind, hflb, ↓reduceIte]
      exact (sem_mono sem g2 (max g1 g2) (Nat.le_max_right _ _)).2.2.1 _ _ _ _ _ hg2

/-- the `while` loop at fuel `f + 1` -/
theorem good_whl {σ} (sem : Sem σ) (args : List Str) (f : Nat) (ih : ∀ m, m ≤ f → Good sem args m) :
    ∀ t body text t1 tt t3 kids st last r, trim tt = t → expandArgs args t = t → RBlock args body kids →
      runWhile sem args (f + 1) (.node "EXP_WHILE" text [.node "WHILE_HEAD" t1 [.node "TEST" tt []], .node "EXP_BODY" t3 kids]) st last = .ok r →
      ∃ g, semWhile sem g t body st = .ok r.st := by
  intro t body text t1 tt t3 kids st last r htx hex hbody hrun
  simp only [runWhile] at hrun
  obtain ⟨⟨r1, passed⟩, hbr, hk⟩ := bind_ok hrun
  cases f with
  | zero => simp [runBranch] at hbr
  | succ f' =>
    simp [runBranch, PT.kids, PT.rule, List.find?, firstKid, PT.text, htx, hex] at hbr
    by_cases hp : (sem.runLine st t).2 = some 0
    · simp only [hp, ↓reduceIte, Outcome.map] at hbr
      obtain ⟨r2, hrx, he⟩ := bind_ok hbr
      simp only [Outcome.ok.injEq, Prod.mk.injEq] at he
      obtain ⟨rfl, rfl⟩ := he
      obtain ⟨g1, fl, hg1, hfl⟩ := (ih f' (by omega)).blk _ _ _ _ _ _ hbody hrx
      by_cases hb : r2.brk = true
      · simp only [Bool.not_true, Bool.false_eq_true, hb, or_true, ↓reduceIte, Outcome.ok.injEq] at hk
        subst hk
        have hflb : fl = .brk := by
          rcases hfl with ⟨_, _, h⟩ | ⟨_, _, h⟩ | ⟨h, _, _⟩
          · rw [hb] at h; cases h
          · rw [hb] at h; cases h
          · exact h
        subst hflb
        exact ⟨g1 + 1, by simp [semWhile, hp, hg1, Outcome.bind]⟩
      · simp only [Bool.not_true, Bool.false_eq_true, hb, or_self, ↓reduceIte] at hk
        have hflb : fl ≠ .brk := by
          rcases hfl with ⟨h, _, _⟩ | ⟨h, _, _⟩ | ⟨_, _, h⟩
          · rw [h]; decide
          · rw [h]; decide
          · exact absurd h hb
        obtain ⟨g2, hg2⟩ := (ih (f' + 1) (Nat.le_refl _)).whl _ _ _ _ _ _ _ _ _ _ htx hex hbody hk
        refine ⟨max g1 g2 + 1, ?_⟩
        simp only [semWhile, hp, ↓reduceIte]
        rw [(sem_mono sem g1 (max g1 g2) (Nat.le_max_left _ _)).1 _ _ _ _ hg1]
        simp only [Outcome.bind, hflb, ↓reduceIte]
        exact (sem_mono sem g2 (max g1 g2) (Nat.le_max_right _ _)).2.2.2 _ _ _ _ hg2
    · simp only [hp, ↓reduceIte, Outcome.ok.injEq, Prod.mk.injEq] at hbr
      obtain ⟨rfl, rfl⟩ := hbr
      simp only [Bool.not_false, true_or, ↓reduceIte, Outcome.ok.injEq] at hk
      subst hk
      exact ⟨1, by simp [semWhile, hp]⟩

/-- **the interpreter refines the structured semantics, at every fuel** -/
theorem good_all {σ} (sem : Sem σ) (args : List Str) (hE : ∀ s, sem.exitOnError s = false) : ∀ f, Good sem args f := by
  intro f
  induction f using Nat.strongRecOn with
  | _ f ih =>
    cases f with
    | zero =>
      exact ⟨fun _ _ _ _ _ _ _ h => by simp [runExp] at h, fun _ _ _ _ _ _ _ _ h => by simp [runIf] at h,
             fun _ _ _ _ _ _ _ _ h => by simp [forLoop] at h, fun _ _ _ _ _ _ _ _ _ _ _ _ _ h => by simp [runWhile] at h⟩
    | succ f =>
      have ih' : ∀ m, m ≤ f → Good sem args m := fun m hm => ih m (by omega)
      exact ⟨good_blk sem args hE f ih', good_arms sem args f ih', good_loop sem args f ih', good_whl sem args f ih'⟩

end Cicada.C14
