import Cicada.Lemmas.RepBlank
import Cicada.Thm.C14
/-!
# The script interpreter refines the structured semantics, blank-line pairs allowed

`Lemmas/Interp.lean` redone over the relations `RStmtB` / `RBlockB` / `RArmsB` of `Lemmas/RepBlank.lean`
(pairs whose text trims to nothing may be interleaved in any statement list; `run_exp` skips them), the two C14 refinement
theorems over these relations, and conversions between the relations (`B := False` is `RBlock`; monotone in `B`).
-/
namespace Cicada.C14
open Cicada Cicada.Locust

/-- what the refinement says at one fuel level of the interpreter (`Good` over the relations with blank pairs) -/
structure GoodB {σ} (B : Prop) (sem : Sem σ) (args : List Str) (f : Nat) : Prop where
  blk : ∀ b ts inLoop st last r, RBlockB B args b ts → runExp sem args f ts inLoop st last = .ok r →
    ∃ g fl, semBlock sem g b inLoop st = .ok (r.st, fl) ∧ FlagRel r fl
  arms : ∀ arms els brs inLoop st last r, RArmsB B args arms els brs → runIf sem args f brs inLoop st last = .ok r →
    ∃ g fl, semArms sem g arms els inLoop st = .ok (r.st, fl) ∧ FlagRel r fl
  loop : ∀ v body kids ws st last r, RBlockB B args body kids → forLoop sem args f v kids ws st last = .ok r →
    ∃ g, semFor sem g v body ws st = .ok r.st
  whl : ∀ t body text t1 tt t3 kids st last r, trim tt = t → expandArgs args t = t → RBlockB B args body kids →
    runWhile sem args f (.node "EXP_WHILE" text [.node "WHILE_HEAD" t1 [.node "TEST" tt []], .node "EXP_BODY" t3 kids]) st last = .ok r →
    ∃ g, semWhile sem g t body st = .ok r.st

/-- the block part at fuel `f + 1`, given the refinement at every smaller fuel -/
theorem good_blkB {σ} (B : Prop) (sem : Sem σ) (args : List Str) (hE : ∀ s, sem.exitOnError s = false) (f : Nat)
    (ih : ∀ m, m ≤ f → GoodB B sem args m) :
    ∀ b ts inLoop st last r, RBlockB B args b ts → runExp sem args (f + 1) ts inLoop st last = .ok r →
      ∃ g fl, semBlock sem g b inLoop st = .ok (r.st, fl) ∧ FlagRel r fl := by
  intro b ts inLoop st last r hR hrun
  cases hR with
  | nil =>
    simp only [runExp, Outcome.ok.injEq] at hrun
    subst hrun
    exact ⟨1, .normal, by simp [semBlock], flagRel_plain _ _⟩
  | @blank b r0 text kids ps hB htx hrest =>
    simp only [runExp, PT.text, htx, ↓reduceIte] at hrun
    exact (ih f (Nat.le_refl f)).blk _ _ _ _ _ _ hrest hrun
  | @cons s p rest ps hs hrest =>
    have ihf := ih f (Nat.le_refl f)
    cases hs with
    | @cmd l text htx hpl =>
      obtain ⟨hne, hnc, hnb, hex⟩ := hpl
      simp only [runExp, PT.text, PT.rule, htx, hne, ↓reduceIte, hnc, hnb, hex] at hrun
      -- whatever the status, with exit-on-error off the loop goes on with the rest
      have hgo : runExp sem args f ps inLoop (sem.runLine st l).1
          (match (sem.runLine st l).2 with | some x => some x | none => last) = .ok r := by
        revert hrun
        cases (sem.runLine st l).2 with
        | none => cases last <;> simp [hE]
        | some x => simp [hE]
      obtain ⟨g, fl, hg, hfl⟩ := ihf.blk _ _ _ _ _ _ hrest hgo
      exact ⟨g + 1, fl, by simpa [semBlock] using hg, hfl⟩
    | @brk text htx =>
      have h1 : "break".toList ≠ [] := by decide
      have h2 : "break".toList ≠ "continue".toList := by decide
      simp only [runExp, PT.text, PT.rule, htx, h1, ↓reduceIte, h2] at hrun
      cases inLoop with
      | true =>
        simp only [↓reduceIte, Outcome.ok.injEq] at hrun
        subst hrun
        exact ⟨1, .brk, by simp [semBlock], Or.inr (Or.inr ⟨rfl, rfl, rfl⟩)⟩
      | false =>
        simp only [Bool.false_eq_true, ↓reduceIte] at hrun
        obtain ⟨g, fl, hg, hfl⟩ := ihf.blk _ _ _ _ _ _ hrest hrun
        exact ⟨g + 1, fl, by simpa [semBlock] using hg, hfl⟩
    | @cont text htx =>
      have h1 : "continue".toList ≠ [] := by decide
      simp only [runExp, PT.text, PT.rule, htx, h1, ↓reduceIte] at hrun
      cases inLoop with
      | true =>
        simp only [↓reduceIte, Outcome.ok.injEq] at hrun
        subst hrun
        exact ⟨1, .cont, by simp [semBlock], Or.inr (Or.inl ⟨rfl, rfl, rfl⟩)⟩
      | false =>
        simp only [Bool.false_eq_true, ↓reduceIte] at hrun
        obtain ⟨g, fl, hg, hfl⟩ := ihf.blk _ _ _ _ _ _ hrest hrun
        exact ⟨g + 1, fl, by simpa [semBlock] using hg, hfl⟩
    | @ite arms els text brs htx harms =>
      simp only [runExp, PT.text, PT.rule, PT.kids, htx, ↓reduceIte, String.reduceEq] at hrun
      obtain ⟨r1, hif, hk⟩ := bind_ok hrun
      obtain ⟨g1, fl1, hg1, hfl1⟩ := ihf.arms _ _ _ _ _ _ _ harms hif
      rcases hfl1 with ⟨rfl, hc, hb⟩ | ⟨rfl, hc, hb⟩ | ⟨rfl, hc, hb⟩
      · simp only [hc, Bool.false_eq_true, ↓reduceIte, hb] at hk
        obtain ⟨g2, fl, hg2, hfl⟩ := ihf.blk _ _ _ _ _ _ hrest hk
        refine ⟨max g1 g2 + 1, fl, ?_, hfl⟩
        simp only [semBlock]
        rw [(sem_mono sem g1 (max g1 g2) (Nat.le_max_left _ _)).2.1 _ _ _ _ _ hg1]
        simp only [Outcome.bind, ↓reduceIte]
        exact (sem_mono sem g2 (max g1 g2) (Nat.le_max_right _ _)).1 _ _ _ _ hg2
      · simp only [hc, ↓reduceIte, Outcome.ok.injEq] at hk
        subst hk
        refine ⟨g1 + 1, .cont, ?_, Or.inr (Or.inl ⟨rfl, rfl, rfl⟩)⟩
        simp [semBlock, hg1, Outcome.bind]
      · simp only [hc, Bool.false_eq_true, ↓reduceIte, hb, Outcome.ok.injEq] at hk
        subst hk
        refine ⟨g1 + 1, .brk, ?_, Or.inr (Or.inr ⟨rfl, rfl, rfl⟩)⟩
        simp [semBlock, hg1, Outcome.bind]
    | @«for» v init body text t1 t2 vt tt t3 kids htx hv hi hbody =>
      simp only [runExp, PT.text, PT.rule, htx, ↓reduceIte, String.reduceEq] at hrun
      obtain ⟨r1, hfor, hk⟩ := bind_ok hrun
      cases f with
      | zero => simp [runFor] at hfor
      | succ f' =>
        simp only [runFor, firstKid, PT.kids, PT.rule, List.find?, String.reduceEq, decide_true, decide_false,
          Option.bind, PT.text, Option.map, Option.getD, hv, hi] at hfor
        obtain ⟨g1, hg1⟩ := (ih f' (by omega)).loop _ _ _ _ _ _ _ hbody hfor
        obtain ⟨g2, fl, hg2, hfl⟩ := ihf.blk _ _ _ _ _ _ hrest hk
        refine ⟨max g1 g2 + 1, fl, ?_, hfl⟩
        simp only [semBlock]
        rw [(sem_mono sem g1 (max g1 g2) (Nat.le_max_left _ _)).2.2.1 _ _ _ _ _ hg1]
        simp only [Outcome.bind]
        exact (sem_mono sem g2 (max g1 g2) (Nat.le_max_right _ _)).1 _ _ _ _ hg2
    | @whl t body text t1 tt t3 kids htx ht hex hbody =>
      simp only [runExp, PT.text, PT.rule, htx, ↓reduceIte, String.reduceEq] at hrun
      obtain ⟨r1, hw, hk⟩ := bind_ok hrun
      obtain ⟨g1, hg1⟩ := ihf.whl _ _ _ _ _ _ _ _ _ _ ht hex hbody hw
      obtain ⟨g2, fl, hg2, hfl⟩ := ihf.blk _ _ _ _ _ _ hrest hk
      refine ⟨max g1 g2 + 1, fl, ?_, hfl⟩
      simp only [semBlock]
      rw [(sem_mono sem g1 (max g1 g2) (Nat.le_max_left _ _)).2.2.2 _ _ _ _ hg1]
      simp only [Outcome.bind]
      exact (sem_mono sem g2 (max g1 g2) (Nat.le_max_right _ _)).1 _ _ _ _ hg2

/-- the `if` part at fuel `f + 1` -/
theorem good_armsB {σ} (B : Prop) (sem : Sem σ) (args : List Str) (f : Nat) (ih : ∀ m, m ≤ f → GoodB B sem args m) :
    ∀ arms els brs inLoop st last r, RArmsB B args arms els brs → runIf sem args (f + 1) brs inLoop st last = .ok r →
      ∃ g fl, semArms sem g arms els inLoop st = .ok (r.st, fl) ∧ FlagRel r fl := by
  intro arms els brs inLoop st last r hR hrun
  cases hR with
  | done =>
    simp only [runIf, Outcome.ok.injEq] at hrun
    subst hrun
    exact ⟨2, .normal, by simp [semArms, semBlock], flagRel_plain _ _⟩
  | @els els t1 t2 t3 kids hbody =>
    simp only [runIf] at hrun
    obtain ⟨⟨r1, passed⟩, hbr, hk⟩ := bind_ok hrun
    cases f with
    | zero => simp [runBranch] at hbr
    | succ f' =>
      simp only [runBranch, PT.kids, PT.rule, List.find?, String.reduceEq, decide_true, decide_false,
        Option.isSome_some, firstKid, Bool.not_true, Bool.false_eq_true, ↓reduceIte, or_self] at hbr
      simp only [Outcome.map] at hbr
      obtain ⟨r2, hrx, he⟩ := bind_ok hbr
      simp only [Outcome.ok.injEq, Prod.mk.injEq] at he
      obtain ⟨rfl, rfl⟩ := he
      simp only [↓reduceIte, Outcome.ok.injEq] at hk
      subst hk
      obtain ⟨g, fl, hg, hfl⟩ := (ih f' (by omega)).blk _ _ _ _ _ _ hbody hrx
      exact ⟨g + 1, fl, by simpa [semArms] using hg, hfl⟩
  | @arm t body rest els rr hr x y tt z kids brs' hhr htx hex hbody hrest =>
    simp only [runIf] at hrun
    obtain ⟨⟨r1, passed⟩, hbr, hk⟩ := bind_ok hrun
    cases f with
    | zero => simp [runBranch] at hbr
    | succ f' =>
      rcases hhr with rfl | rfl <;>
      · simp [runBranch, PT.kids, PT.rule, List.find?, firstKid, PT.text, htx, hex] at hbr
        by_cases hp : (sem.runLine st t).2 = some 0
        · -- the condition holds: this arm's body runs and the `if` is over
          simp only [hp, ↓reduceIte, Outcome.map] at hbr
          obtain ⟨r2, hrx, he⟩ := bind_ok hbr
          simp only [Outcome.ok.injEq, Prod.mk.injEq] at he
          obtain ⟨rfl, rfl⟩ := he
          simp only [↓reduceIte, Outcome.ok.injEq] at hk
          subst hk
          obtain ⟨g, fl, hg, hfl⟩ := (ih f' (by omega)).blk _ _ _ _ _ _ hbody hrx
          exact ⟨g + 1, fl, by simpa [semArms, hp] using hg, hfl⟩
        · -- the condition fails: the arm is skipped, the next branch is tried
          simp only [hp, ↓reduceIte, Outcome.ok.injEq, Prod.mk.injEq] at hbr
          obtain ⟨rfl, rfl⟩ := hbr
          simp only [Bool.false_eq_true, ↓reduceIte] at hk
          obtain ⟨g, fl, hg, hfl⟩ := (ih (f' + 1) (by omega)).arms _ _ _ _ _ _ _ hrest hk
          exact ⟨g + 1, fl, by simpa [semArms, hp] using hg, hfl⟩

/-- the `for` loop at fuel `f + 1` -/
theorem good_loopB {σ} (B : Prop) (sem : Sem σ) (args : List Str) (f : Nat) (ih : ∀ m, m ≤ f → GoodB B sem args m) :
    ∀ v body kids ws st last r, RBlockB B args body kids → forLoop sem args (f + 1) v kids ws st last = .ok r →
      ∃ g, semFor sem g v body ws st = .ok r.st := by
  intro v body kids ws st last r hbody hrun
  cases ws with
  | nil =>
    simp only [forLoop, Outcome.ok.injEq] at hrun
    subst hrun
    exact ⟨1, by simp [semFor]⟩
  | cons w ws =>
    simp only [forLoop] at hrun
    obtain ⟨r1, hrx, hk⟩ := bind_ok hrun
    obtain ⟨g1, fl, hg1, hfl⟩ := (ih f (Nat.le_refl f)).blk _ _ _ _ _ _ hbody hrx
    by_cases hb : r1.brk = true
    · simp only [hb, ↓reduceIte, Outcome.ok.injEq] at hk
      subst hk
      have hflb : fl = .brk := by
        rcases hfl with ⟨_, _, h⟩ | ⟨_, _, h⟩ | ⟨h, _, _⟩
        · rw [hb] at h; cases h
        · rw [hb] at h; cases h
        · exact h
      subst hflb
      exact ⟨g1 + 1, by simp [semFor, hg1, Outcome.bind]⟩
    · simp only [hb, Bool.false_eq_true, ↓reduceIte] at hk
      have hflb : fl ≠ .brk := by
        rcases hfl with ⟨h, _, _⟩ | ⟨h, _, _⟩ | ⟨_, _, h⟩
        · rw [h]; decide
        · rw [h]; decide
        · exact absurd h hb
      obtain ⟨g2, hg2⟩ := (ih f (Nat.le_refl f)).loop _ _ _ _ _ _ _ hbody hk
      refine ⟨max g1 g2 + 1, ?_⟩
      simp only [semFor]
      rw [(sem_mono sem g1 (max g1 g2) (Nat.le_max_left _ _)).1 _ _ _ _ hg1]
      simp only [Outcome.bind, hflb, ↓reduceIte]
      exact (sem_mono sem g2 (max g1 g2) (Nat.le_max_right _ _)).2.2.1 _ _ _ _ _ hg2

/-- the `while` loop at fuel `f + 1` -/
theorem good_whlB {σ} (B : Prop) (sem : Sem σ) (args : List Str) (f : Nat) (ih : ∀ m, m ≤ f → GoodB B sem args m) :
    ∀ t body text t1 tt t3 kids st last r, trim tt = t → expandArgs args t = t → RBlockB B args body kids →
      runWhile sem args (f + 1) (.node "EXP_WHILE" text [.node "WHILE_HEAD" t1 [.node "TEST" tt []], .node "EXP_BODY" t3 kids]) st last = .ok r →
      ∃ g, semWhile sem g t body st = .ok r.st := by
  intro t body text t1 tt t3 kids st last r htx hex hbody hrun
  simp only [runWhile] at hrun
  obtain ⟨⟨r1, passed⟩, hbr, hk⟩ := bind_ok hrun
  cases f with
  | zero => simp [runBranch] at hbr
  | succ f' =>
    simp [runBranch, PT.kids, PT.rule, List.find?, firstKid, PT.text, htx, hex] at hbr
    by_cases hp : (sem.runLine st t).2 = some 0
    · simp only [hp, ↓reduceIte, Outcome.map] at hbr
      obtain ⟨r2, hrx, he⟩ := bind_ok hbr
      simp only [Outcome.ok.injEq, Prod.mk.injEq] at he
      obtain ⟨rfl, rfl⟩ := he
      obtain ⟨g1, fl, hg1, hfl⟩ := (ih f' (by omega)).blk _ _ _ _ _ _ hbody hrx
      by_cases hb : r2.brk = true
      · simp only [Bool.not_true, Bool.false_eq_true, hb, or_true, ↓reduceIte, Outcome.ok.injEq] at hk
        subst hk
        have hflb : fl = .brk := by
          rcases hfl with ⟨_, _, h⟩ | ⟨_, _, h⟩ | ⟨h, _, _⟩
          · rw [hb] at h; cases h
          · rw [hb] at h; cases h
          · exact h
        subst hflb
        exact ⟨g1 + 1, by simp [semWhile, hp, hg1, Outcome.bind]⟩
      · simp only [Bool.not_true, Bool.false_eq_true, hb, or_self, ↓reduceIte] at hk
        have hflb : fl ≠ .brk := by
          rcases hfl with ⟨h, _, _⟩ | ⟨h, _, _⟩ | ⟨_, _, h⟩
          · rw [h]; decide
          · rw [h]; decide
          · exact absurd h hb
        obtain ⟨g2, hg2⟩ := (ih (f' + 1) (Nat.le_refl _)).whl _ _ _ _ _ _ _ _ _ _ htx hex hbody hk
        refine ⟨max g1 g2 + 1, ?_⟩
        simp only [semWhile, hp, ↓reduceIte]
        rw [(sem_mono sem g1 (max g1 g2) (Nat.le_max_left _ _)).1 _ _ _ _ hg1]
        simp only [Outcome.bind, hflb, ↓reduceIte]
        exact (sem_mono sem g2 (max g1 g2) (Nat.le_max_right _ _)).2.2.2 _ _ _ _ hg2
    · simp only [hp, ↓reduceIte, Outcome.ok.injEq, Prod.mk.injEq] at hbr
      obtain ⟨rfl, rfl⟩ := hbr
      simp only [Bool.not_false, true_or, ↓reduceIte, Outcome.ok.injEq] at hk
      subst hk
      exact ⟨1, by simp [semWhile, hp]⟩

/-- the interpreter refines the structured semantics at every fuel, blank pairs allowed -/
theorem good_allB {σ} (B : Prop) (sem : Sem σ) (args : List Str) (hE : ∀ s, sem.exitOnError s = false) : ∀ f, GoodB B sem args f := by
  intro f
  induction f using Nat.strongRecOn with
  | _ f ih =>
    cases f with
    | zero =>
      exact ⟨fun _ _ _ _ _ _ _ h => by simp [runExp] at h, fun _ _ _ _ _ _ _ _ h => by simp [runIf] at h,
             fun _ _ _ _ _ _ _ _ h => by simp [forLoop] at h, fun _ _ _ _ _ _ _ _ _ _ _ _ _ h => by simp [runWhile] at h⟩
    | succ f =>
      have ih' : ∀ m, m ≤ f → GoodB B sem args m := fun m hm => ih m (by omega)
      exact ⟨good_blkB B sem args hE f ih', good_armsB B sem args f ih', good_loopB B sem args f ih', good_whlB B sem args f ih'⟩


/-- **the interpreter refines the structured semantics, blank-line pairs allowed**: `C14_interpreter_refines` for
pair trees in which pairs with blank text (blank script lines) are interleaved (`RBlockB`) -/
theorem C14_interpreter_refines_blank {σ} (B : Prop) (sem : Sem σ) (args : List Str) (hE : ∀ s, sem.exitOnError s = false)
    (b : Block) (ts : List PT) (hrep : RBlockB B args b ts) (f : Nat) (inLoop : Bool) (st : σ) (last : Option Int) (r : RunRes σ)
    (hrun : runExp sem args f ts inLoop st last = .ok r) :
    ∃ g fl, semBlock sem g b inLoop st = .ok (r.st, fl) ∧ FlagRel r fl :=
  (good_allB B sem args hE f).blk b ts inLoop st last r hrep hrun

/-- `C14_script_refines` with blank-line pairs allowed in the tree -/
theorem C14_script_refines_blank {σ} (B : Prop) (sem : Sem σ) (args : List Str) (hE : ∀ s, sem.exitOnError s = false)
    (b : Block) (text : Str) (root : Str) (ts : List PT) (hparse : parseLines text = some (.node "EXP" root ts))
    (hrep : RBlockB B args b ts) (f : Nat) (st : σ) (r : RunRes σ)
    (hrun : runLines sem args f text st = .ok (some r)) :
    ∃ g fl, semBlock sem g b false st = .ok (r.st, fl) := by
  unfold runLines at hrun
  simp only [hparse, PT.kids, Outcome.map] at hrun
  obtain ⟨r', h1, h2⟩ := bind_ok hrun
  simp only [Outcome.ok.injEq, Option.some.injEq] at h2
  subst h2
  obtain ⟨g, fl, hg, _⟩ := C14_interpreter_refines_blank B sem args hE b ts hrep f false st none r' h1
  exact ⟨g, fl, hg⟩

/-! ### conversions between the relations -/

mutual
theorem rStmt_toB {B : Prop} {args : List Str} : ∀ {s : Stmt} {p : PT}, RStmt args s p → RStmtB B args s p
  | _, _, .cmd h1 h2 => .cmd h1 h2
  | _, _, .brk h => .brk h
  | _, _, .cont h => .cont h
  | _, _, .ite h ha => .ite h (rArms_toB ha)
  | _, _, .for h1 h2 h3 hb => .for h1 h2 h3 (rBlock_toB hb)
  | _, _, .whl h1 h2 h3 hb => .whl h1 h2 h3 (rBlock_toB hb)
theorem rBlock_toB {B : Prop} {args : List Str} : ∀ {b : Block} {ps : List PT}, RBlock args b ps → RBlockB B args b ps
  | _, _, .nil => .nil
  | _, _, .cons hs hr => .cons (rStmt_toB hs) (rBlock_toB hr)
theorem rArms_toB {B : Prop} {args : List Str} : ∀ {a : Arms} {els : Block} {brs : List PT}, RArms args a els brs → RArmsB B args a els brs
  | _, _, _, .done => .done
  | _, _, _, .els hb => .els (rBlock_toB hb)
  | _, _, _, .arm h1 h2 h3 hb hr => .arm h1 h2 h3 (rBlock_toB hb) (rArms_toB hr)
end

mutual
theorem rStmtB_false {args : List Str} : ∀ {s : Stmt} {p : PT}, RStmtB False args s p → RStmt args s p
  | _, _, .cmd h1 h2 => .cmd h1 h2
  | _, _, .brk h => .brk h
  | _, _, .cont h => .cont h
  | _, _, .ite h ha => .ite h (rArmsB_false ha)
  | _, _, .for h1 h2 h3 hb => .for h1 h2 h3 (rBlockB_false hb)
  | _, _, .whl h1 h2 h3 hb => .whl h1 h2 h3 (rBlockB_false hb)
theorem rBlockB_false {args : List Str} : ∀ {b : Block} {ps : List PT}, RBlockB False args b ps → RBlock args b ps
  | _, _, .nil => .nil
  | _, _, .cons hs hr => .cons (rStmtB_false hs) (rBlockB_false hr)
  | _, _, .blank hB _ _ => hB.elim
theorem rArmsB_false {args : List Str} : ∀ {a : Arms} {els : Block} {brs : List PT}, RArmsB False args a els brs → RArms args a els brs
  | _, _, _, .done => .done
  | _, _, _, .els hb => .els (rBlockB_false hb)
  | _, _, _, .arm h1 h2 h3 hb hr => .arm h1 h2 h3 (rBlockB_false hb) (rArmsB_false hr)
end

mutual
theorem rStmtB_mono {B B' : Prop} {args : List Str} (hBB : B → B') : ∀ {s : Stmt} {p : PT}, RStmtB B args s p → RStmtB B' args s p
  | _, _, .cmd h1 h2 => .cmd h1 h2
  | _, _, .brk h => .brk h
  | _, _, .cont h => .cont h
  | _, _, .ite h ha => .ite h (rArmsB_mono hBB ha)
  | _, _, .for h1 h2 h3 hb => .for h1 h2 h3 (rBlockB_mono hBB hb)
  | _, _, .whl h1 h2 h3 hb => .whl h1 h2 h3 (rBlockB_mono hBB hb)
theorem rBlockB_mono {B B' : Prop} {args : List Str} (hBB : B → B') : ∀ {b : Block} {ps : List PT}, RBlockB B args b ps → RBlockB B' args b ps
  | _, _, .nil => .nil
  | _, _, .cons hs hr => .cons (rStmtB_mono hBB hs) (rBlockB_mono hBB hr)
  | _, _, .blank hB htx hr => .blank (hBB hB) htx (rBlockB_mono hBB hr)
theorem rArmsB_mono {B B' : Prop} {args : List Str} (hBB : B → B') : ∀ {a : Arms} {els : Block} {brs : List PT}, RArmsB B args a els brs → RArmsB B' args a els brs
  | _, _, _, .done => .done
  | _, _, _, .els hb => .els (rBlockB_mono hBB hb)
  | _, _, _, .arm h1 h2 h3 hb hr => .arm h1 h2 h3 (rBlockB_mono hBB hb) (rArmsB_mono hBB hr)
end

/-- with `B := False` the relation with blank pairs is the relation of `Lemmas/Interp.lean` -/
theorem rBlockB_false_iff {args : List Str} {b : Block} {ps : List PT} : RBlockB False args b ps ↔ RBlock args b ps :=
  ⟨rBlockB_false, rBlock_toB⟩

/-- `C14_interpreter_refines` is the instance `B := False` of `C14_interpreter_refines_blank` -/
example {σ} (sem : Sem σ) (args : List Str) (hE : ∀ s, sem.exitOnError s = false)
    (b : Block) (ts : List PT) (hrep : RBlock args b ts) (f : Nat) (inLoop : Bool) (st : σ) (last : Option Int) (r : RunRes σ)
    (hrun : runExp sem args f ts inLoop st last = .ok r) :
    ∃ g fl, semBlock sem g b inLoop st = .ok (r.st, fl) ∧ FlagRel r fl :=
  C14_interpreter_refines_blank False sem args hE b ts (rBlock_toB hrep) f inLoop st last r hrun

/-- the children of the top pair for `a / (blank line) / if t / (blank line) / b / fi`: the blank lines are `CMD` pairs with text
`"\n"` (`"  \n"` inside the body) -/
def exTreeBlank : List PT :=
  [.node "CMD" "a\n".toList [],
   .node "CMD" "\n".toList [],
   .node "EXP_IF" "if t\n  \nb\nfi\n".toList
     [.node "IF_IF_BR" "if t\n  \nb\n".toList [.node "IF_HEAD" "if t\n".toList [.node "TEST" "t".toList []],
        .node "EXP_BODY" "  \nb\n".toList [.node "CMD" "  \n".toList [], .node "CMD" "b\n".toList []]]]]

/-- non-vacuity: a tree with a blank `CMD "\n"` pair between two statement pairs (and one inside an `if` body) represents
the AST without the blank lines -/
example : RBlockB True [] (.cons (.cmd "a".toList) (.cons (.ite (.cons "t".toList (.cons (.cmd "b".toList) .nil) .nil) .nil) .nil))
    exTreeBlank := by
  refine .cons (.cmd (by decide) ⟨by decide, by decide, by decide, by decide⟩)
    (.blank trivial (by decide)
      (.cons (.ite (by decide) (.arm (Or.inl rfl) (by decide) (by decide)
        (.blank trivial (by decide) (.cons (.cmd (by decide) ⟨by decide, by decide, by decide, by decide⟩) .nil)) .done)) .nil))

/-- the simplest case of the task: a blank `CMD "\n"` pair between two command pairs -/
example : RBlockB True [] (.cons (.cmd "a".toList) (.cons (.cmd "b".toList) .nil))
    [.node "CMD" "a\n".toList [], .node "CMD" "\n".toList [], .node "CMD" "b\n".toList []] :=
  .cons (.cmd (by decide) ⟨by decide, by decide, by decide, by decide⟩)
    (.blank trivial (by decide) (.cons (.cmd (by decide) ⟨by decide, by decide, by decide, by decide⟩) .nil))

/-- ... and the same tree is NOT in the relation without blanks -/
example : ¬ RBlock [] (.cons (.cmd "a".toList) (.cons (.cmd "b".toList) .nil))
    [.node "CMD" "a\n".toList [], .node "CMD" "\n".toList [], .node "CMD" "b\n".toList []] := by
  intro h
  cases h with
  | cons _ h2 =>
    cases h2 with
    | cons _ h3 => cases h3

end Cicada.C14

