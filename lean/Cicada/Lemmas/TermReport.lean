import Cicada.Lemmas.TermJobs
/-!
# A finished job is announced once and is then gone from the table

A job incarnation is identified by its (id, group id) pair.  `RepOk`: every pair announced as finished is absent
from the table, no pair was announced twice, and all group ids involved are pids of children forked so far — so a
later launch (whose group id is a fresh pid) can never bring an announced pair back.
-/
namespace Cicada.Term
open Cicada.Jobs Cicada.C07

structure RepOk (pids : List Pid) (sh : Sh) (out : List Out) : Prop where
  tableGids : ∀ k ∈ keys sh, k.2 ∈ pids
  annGids : ∀ k ∈ finKeys out, k.2 ∈ pids
  absent : ∀ k ∈ finKeys out, k ∉ keys sh
  once : (finKeys out).Nodup

theorem finKeys_append (a b : List Out) : finKeys (a ++ b) = finKeys a ++ finKeys b := by simp [finKeys]

theorem repOk_sub {pids : List Pid} {s s' : Sh} {out out' : List Out} (h : RepOk pids s out)
    (hk : (keys s').Sublist (keys s)) (ho : finKeys out' = finKeys out) : RepOk pids s' out' := by
  refine ⟨fun k hk' => h.tableGids k (hk.subset hk'), ?_, ?_, ?_⟩
  · rw [ho]; exact h.annGids
  · rw [ho]; intro k hk1 hk2; exact h.absent k hk1 (hk.subset hk2)
  · rw [ho]; exact h.once

theorem repOk_mono {pids pids' : List Pid} {s : Sh} {out : List Out} (h : RepOk pids s out) (hp : ∀ p ∈ pids, p ∈ pids') : RepOk pids' s out :=
  ⟨fun k hk => hp _ (h.tableGids k hk), fun k hk => hp _ (h.annGids k hk), h.absent, h.once⟩

theorem finKeys_ite_stopped (c : Prop) [Decidable c] (i : Nat) (g : Pid) :
    finKeys (if c then [Out.report i g "Stopped"] else []) = [] := by
  by_cases h : c <;> simp [h, finKeys, finKey]

theorem finKeys_stopOut (s : Sh) (pid gid : Pid) (r : Bool) : finKeys (stopOut s pid gid r) = [] := by
  unfold stopOut
  split
  · exact finKeys_ite_stopped _ _ _
  · rfl

theorem mem_keys_of_findGid {s : Sh} {gid : Pid} {j : Job} (h : findGid s gid = some j) : (j.id, j.gid) ∈ keys s := by
  unfold findGid at h
  simp only [keys, List.mem_map]
  exact ⟨j, List.mem_of_find?_eq_some h, rfl⟩

/-- `mark_job_as_done`: the announcement and the removal go together -/
theorem repOk_done {pids : List Pid} {s : Sh} {out : List Out} (h : RepOk pids s out) (gid pid : Pid) (w : String) (hw : w ≠ "Stopped") :
    RepOk pids (removePid s gid pid) (out ++ doneOut s gid pid w) := by
  unfold doneOut
  cases hf : findGid s gid with
  | none =>
    simp only [List.append_nil]
    exact repOk_sub h (removePid_keys _ _ _) rfl
  | some j =>
    have hjk := mem_keys_of_findGid hf
    dsimp only
    by_cases hcond : ((j.pids.erase pid).isEmpty && j.isBg) = true
    · simp only [hcond, ↓reduceIte]
      have hemp : (j.pids.erase pid).isEmpty = true := by
        simp only [Bool.and_eq_true] at hcond; exact hcond.1
      have hrem : removePid s gid pid = { s with jobs := s.jobs.filter (·.id ≠ j.id) } := by
        unfold removePid; rw [hf]; simp only [hemp, ↓reduceIte]
      have hkeys : (keys (removePid s gid pid)).Sublist (keys s) := removePid_keys _ _ _
      have hfk : finKeys (out ++ [Out.report j.id j.gid w]) = finKeys out ++ [(j.id, j.gid)] := by
        simp [finKeys_append, finKeys, finKey, hw]
      have hnew : (j.id, j.gid) ∉ finKeys out := fun hin => h.absent _ hin hjk
      refine ⟨fun k hk => h.tableGids k (hkeys.subset hk), ?_, ?_, ?_⟩
      · rw [hfk]; intro k hk
        simp only [List.mem_append, List.mem_singleton] at hk
        rcases hk with hk | rfl
        · exact h.annGids k hk
        · exact h.tableGids _ hjk
      · rw [hfk]; intro k hk hk2
        simp only [List.mem_append, List.mem_singleton] at hk
        rcases hk with hk | rfl
        · exact h.absent k hk (hkeys.subset hk2)
        · rw [hrem] at hk2
          simp only [keys, List.mem_map, List.mem_filter] at hk2
          obtain ⟨x, ⟨_, hx⟩, he⟩ := hk2
          have : x.id = j.id := by simpa using congrArg Prod.fst he
          simp [this] at hx
      · rw [hfk, List.nodup_append]
        refine ⟨h.once, by simp, ?_⟩
        intro a ha b hb
        simp only [List.mem_singleton] at hb
        subst hb
        intro e; subst e; exact hnew ha
    · simp only [hcond, Bool.false_eq_true, ↓reduceIte, List.append_nil]
      exact repOk_sub h (removePid_keys _ _ _) rfl

theorem killWord_ne (g : Int) : killWord g ≠ "Stopped" := by
  unfold killWord
  split
  · decide
  · split
    · decide
    · split
      · decide
      · split <;> decide

theorem repOk_waitEv {pids : List Pid} {s : Sh} {out : List Out} (h : RepOk pids s out) (w : Wait) (e : Ev) :
    RepOk pids (waitEv s w e).1 (out ++ (waitEv s w e).2.1) := by
  unfold waitEv
  cases e with
  | continued p =>
    dsimp only
    split <;> (simp only [List.append_nil]; exact repOk_sub h (List.Sublist.refl _) rfl)
  | exited p c =>
    dsimp only
    split
    · exact repOk_done h _ _ _ (by decide)
    · simp only [List.append_nil]; exact repOk_sub h (List.Sublist.refl _) rfl
  | killed p g =>
    dsimp only
    split
    · exact repOk_done h _ _ _ (by decide)
    · simp only [List.append_nil]; exact repOk_sub h (List.Sublist.refl _) rfl
  | stopped p g =>
    dsimp only
    split
    · refine repOk_sub h (by rw [markMemberStopped_keys]; exact List.Sublist.refl _) ?_
      rw [finKeys_append, finKeys_stopOut, List.append_nil]
    · simp only [List.append_nil]
      exact repOk_sub h (by rw [markMemberStopped_keys]; exact List.Sublist.refl _) rfl

theorem foldl_pres {α β : Type} (P : β → Prop) (f : β → α → β) (hf : ∀ b a, P b → P (f b a)) :
    ∀ (l : List α) (b : β), P b → P (l.foldl f b) := by
  intro l
  induction l with
  | nil => intro b hb; exact hb
  | cons a rest ih => intro b hb; simp only [List.foldl_cons]; exact ih _ (hf b a hb)

/-- one pid of one job in `try_wait_bg_jobs`, with what has been printed so far -/
theorem repOk_applyStep {pids : List Pid} (out0 : List Out) (report : Bool) (job : Job) (acc : Sh × List Out) (pid : Pid)
    (h : RepOk pids acc.1 (out0 ++ acc.2)) :
    RepOk pids ((fun (acc : Sh × List Out) pid =>
      let s := acc.1
      if s.reap.any (·.1 = pid) then
        let s1 := { s with reap := s.reap.filter (·.1 ≠ pid) }
        (removePid s1 job.gid pid, acc.2 ++ doneOut s1 job.gid pid "Done")
      else match s.kill.find? (·.1 = pid) with
      | some (_, g) =>
        let s1 := { s with kill := s.kill.filter (·.1 ≠ pid) }
        (removePid s1 job.gid pid, acc.2 ++ doneOut s1 job.gid pid (killWord g))
      | none =>
        if s.stop.contains pid then
          let s1 := { s with stop := s.stop.erase pid }
          (markMemberStopped s1 pid job.gid, acc.2 ++ stopOut s1 pid job.gid report)
        else if s.cont.contains pid then (markMemberContinued { s with cont := s.cont.erase pid } pid job.gid, acc.2)
        else acc) acc pid).1
      (out0 ++ ((fun (acc : Sh × List Out) pid =>
      let s := acc.1
      if s.reap.any (·.1 = pid) then
        let s1 := { s with reap := s.reap.filter (·.1 ≠ pid) }
        (removePid s1 job.gid pid, acc.2 ++ doneOut s1 job.gid pid "Done")
      else match s.kill.find? (·.1 = pid) with
      | some (_, g) =>
        let s1 := { s with kill := s.kill.filter (·.1 ≠ pid) }
        (removePid s1 job.gid pid, acc.2 ++ doneOut s1 job.gid pid (killWord g))
      | none =>
        if s.stop.contains pid then
          let s1 := { s with stop := s.stop.erase pid }
          (markMemberStopped s1 pid job.gid, acc.2 ++ stopOut s1 pid job.gid report)
        else if s.cont.contains pid then (markMemberContinued { s with cont := s.cont.erase pid } pid job.gid, acc.2)
        else acc) acc pid).2) := by
  dsimp only
  split
  · rw [← List.append_assoc]
    exact repOk_done (s := { acc.1 with reap := acc.1.reap.filter (·.1 ≠ pid) }) (repOk_sub h (List.Sublist.refl _) rfl) _ _ _ (by decide)
  · split
    · rename_i g _
      rw [← List.append_assoc]
      exact repOk_done (s := { acc.1 with kill := acc.1.kill.filter (·.1 ≠ pid) }) (repOk_sub h (List.Sublist.refl _) rfl) _ _ _ (killWord_ne g)
    · split
      · refine repOk_sub h (by rw [markMemberStopped_keys]; exact List.Sublist.refl _) ?_
        rw [← List.append_assoc, finKeys_append, finKeys_stopOut, List.append_nil]
      · split
        · exact repOk_sub h (by rw [markMemberContinued_keys]; exact List.Sublist.refl _) rfl
        · exact h

theorem repOk_applyParkedR {pids : List Pid} (out0 : List Out) (report : Bool) (s : Sh) (h : RepOk pids s out0) :
    RepOk pids (applyParkedR report s).1 (out0 ++ (applyParkedR report s).2) := by
  unfold applyParkedR
  refine foldl_pres (fun (b : Sh × List Out) => RepOk pids b.1 (out0 ++ b.2)) _ ?_ s.jobs (s, []) (by simpa using h)
  intro b job hb
  exact foldl_pres (fun (b : Sh × List Out) => RepOk pids b.1 (out0 ++ b.2)) _ (fun acc pid hacc => repOk_applyStep out0 report job acc pid hacc) job.pids b hb

theorem repOk_pollR {pids : List Pid} (report : Bool) (s : State) (h : RepOk pids s.sh s.out) :
    RepOk pids (pollR report s).sh (pollR report s).out := by
  unfold pollR
  split
  · exact h
  · exact repOk_applyParkedR s.out report _ (repOk_sub h (by rw [keys_of_jobs_eq (park_jobs _)]; exact List.Sublist.refl _) rfl)

theorem pollR_pids (report : Bool) (s : State) : (pollR report s).procs.map (·.pid) = s.procs.map (·.pid) := by
  unfold pollR
  split
  · rfl
  · simp [consume, Function.comp_def]

theorem pollR_mode (report : Bool) (s : State) : (pollR report s).mode = s.mode := by
  unfold pollR; split <;> rfl

/-- `insert_job` adds at most one (id, group id) pair, with the group id it was given -/
theorem insertJobGo_keys (s : Sh) (gid pid : Pid) (bg : Bool) : ∀ (f i : Nat) (k : Nat × Pid), k ∈ keys (insertJobGo s gid pid bg f i) →
    k.2 = gid ∨ k ∈ keys s := by
  intro f
  induction f with
  | zero => intro i k hk; exact Or.inr hk
  | succ f ih =>
    intro i k hk
    simp only [insertJobGo] at hk
    split at hk
    · split at hk
      · right
        simp only [keys, List.map_map, List.mem_map, Function.comp] at hk ⊢
        obtain ⟨j0, hj0, he⟩ := hk
        refine ⟨j0, hj0, ?_⟩
        rw [← he]
        split <;> rfl
      · exact ih (i + 1) k hk
    · simp only [keys, List.mem_map, mem_insertSorted] at hk
      obtain ⟨j, hj, he⟩ := hk
      rcases hj with rfl | hj
      · left; rw [← he]
      · right; simp only [keys, List.mem_map]; exact ⟨j, hj, he⟩

/-! ### the invariant over states -/

def pidsOf (s : State) : List Pid := s.procs.map (·.pid)

structure RepInv (s : State) : Prop where
  ok : RepOk (pidsOf s) s.sh s.out
  nonzero : ∀ p ∈ pidsOf s, p ≠ 0
  /-- the group id of a launch in progress is a pid once the first child exists … -/
  pgidPid : ∀ l, s.mode = .launching l → (l.idx > 0 ∨ l.phase ≠ .fork) → l.pgid ∈ pidsOf s
  /-- … and was never announced -/
  pgidNew : ∀ l, s.mode = .launching l → ∀ k ∈ finKeys s.out, k.2 ≠ l.pgid

theorem updProc_pids (procs : List Proc) (pid : Pid) (f : Proc → Proc) (hf : ∀ q, (f q).pid = q.pid) :
    (updProc procs pid f).map (·.pid) = procs.map (·.pid) := by
  rw [updProc_eq, List.map_map]
  apply List.map_congr_left
  intro q _
  simp only [Function.comp]
  split
  · exact hf q
  · rfl

theorem sigGroup_pids (procs : List Proc) (g : Pid) (sg : Sig) : (sigGroup procs g sg).map (·.pid) = procs.map (·.pid) := by
  rw [sigGroup_eq, List.map_map]
  apply List.map_congr_left
  intro q _
  simp only [Function.comp]
  split
  · exact ((sigProc_benign sg).1 q).1
  · rfl

/-- a step that touches neither the table, nor what was printed (as far as final announcements go), nor the
control state's launch -/
theorem repInv_same {s s' : State} (h : RepInv s) (hsh : s'.sh = s.sh) (ho : finKeys s'.out = finKeys s.out)
    (hp : pidsOf s' = pidsOf s) (hm : s'.mode = s.mode) : RepInv s' := by
  refine ⟨?_, ?_, ?_, ?_⟩
  · rw [hp, hsh]; exact repOk_sub h.ok (List.Sublist.refl _) ho
  · rw [hp]; exact h.nonzero
  · rw [hp, hm]; exact h.pgidPid
  · rw [hm, ho]; exact h.pgidNew

/-- a step that ends outside a launch -/
theorem repInv_out {s s' : State} (h : RepInv s) (hok : RepOk (pidsOf s) s'.sh s'.out) (hp : pidsOf s' = pidsOf s)
    (hm : ∀ l, s'.mode ≠ .launching l) : RepInv s' := by
  refine ⟨by rw [hp]; exact hok, by rw [hp]; exact h.nonzero, ?_, ?_⟩
  · intro l hl; exact absurd hl (hm l)
  · intro l hl; exact absurd hl (hm l)

/-- a step inside a launch that leaves table, output and the launch's group id alone -/
theorem repInv_launch_same {s st : State} {l : Launch} (h : RepInv s) (hm : s.mode = .launching l) (hpg : l.pgid ∈ pidsOf s)
    (h1 : st.sh = s.sh) (h2 : st.out = s.out) (h3 : pidsOf st = pidsOf s) (h4 : ∀ l', st.mode = .launching l' → l'.pgid = l.pgid) : RepInv st := by
  refine ⟨by rw [h3, h1, h2]; exact h.ok, by rw [h3]; exact h.nonzero, ?_, ?_⟩
  · intro l' hl' _; rw [h3, h4 l' hl']; exact hpg
  · intro l' hl' k hk; rw [h2] at hk; rw [h4 l' hl']; exact h.pgidNew l hm k hk

theorem finKeys_append_nonfinal (out : List Out) (o : List Out) (ho : ∀ x ∈ o, finKey x = none) : finKeys (out ++ o) = finKeys out := by
  rw [finKeys_append]
  have : finKeys o = [] := by
    unfold finKeys
    induction o with
    | nil => rfl
    | cons x xs ih =>
      simp only [List.filterMap_cons, ho x (by simp)]
      exact ih (fun y hy => ho y (by simp [hy]))
  rw [this, List.append_nil]

theorem listing_nonfinal (s : Sh) : ∀ x ∈ listing s, finKey x = none := by
  intro x hx
  simp only [listing, List.mem_map] at hx
  obtain ⟨j, _, rfl⟩ := hx
  rfl

theorem repInv_step {c : Cfg} {s s' : State} {a : Act} (h : RepInv s) (hs : step c s a = some s') : RepInv s' := by
  cases a with
  | launch bg cmds =>
    simp only [step] at hs
    split at hs
    · split at hs
      · simp at hs
      · simp only [Option.some.injEq] at hs; subst hs
        refine ⟨h.ok, h.nonzero, ?_, ?_⟩
        · intro l hl hor
          simp only [Mode.launching.injEq] at hl; subst hl
          simp at hor
        · intro l hl k hk
          simp only [Mode.launching.injEq] at hl; subst hl
          exact h.nonzero _ (h.ok.annGids k hk)
    · simp at hs
  | fg n ex =>
    simp only [step] at hs
    split at hs
    · unfold stepFg at hs
      split at hs
      · simp only [Option.some.injEq] at hs; subst hs
        exact repInv_out h (repOk_sub h.ok (List.Sublist.refl _) (finKeys_append_nonfinal _ _ (by simp [finKey]))) rfl (by intro l; simp)
      · split at hs
        · simp at hs
        · split at hs
          · simp only [Option.some.injEq] at hs; subst hs
            exact repInv_out h (repOk_sub h.ok (List.Sublist.refl _) (finKeys_append_nonfinal _ _ (by simp [finKey]))) rfl (by intro l; simp)
          · split at hs
            · simp only [Option.some.injEq] at hs; subst hs
              exact repInv_out h h.ok rfl (by intro l; simp)
            · split at hs
              · simp only [Option.some.injEq] at hs; subst hs
                exact repInv_out h (repOk_sub h.ok (by rw [markRunning_keys]; exact List.Sublist.refl _) rfl) (sigGroup_pids _ _ _) (by intro l; simp)
              · simp only [Option.some.injEq] at hs; subst hs
                exact repInv_out h (repOk_sub h.ok (by rw [markRunning_keys]; exact List.Sublist.refl _) rfl) (sigGroup_pids _ _ _) (by intro l; simp)
    · simp at hs
  | bg n ex =>
    simp only [step] at hs
    split at hs
    · unfold stepBg at hs
      split at hs
      · simp only [Option.some.injEq] at hs; subst hs
        exact repInv_out h (repOk_sub h.ok (List.Sublist.refl _) (finKeys_append_nonfinal _ _ (by simp [finKey]))) rfl (by intro l; simp)
      · split at hs
        · simp at hs
        · split at hs
          · simp only [Option.some.injEq] at hs; subst hs
            exact repInv_out h (repOk_sub h.ok (List.Sublist.refl _) (finKeys_append_nonfinal _ _ (by simp [finKey]))) rfl (by intro l; simp)
          · split at hs
            · simp only [Option.some.injEq] at hs; subst hs
              exact repInv_out h (repOk_sub h.ok (List.Sublist.refl _) (finKeys_append_nonfinal _ _ (by simp [finKey]))) (sigGroup_pids _ _ _) (by intro l; simp)
            · simp only [Option.some.injEq] at hs; subst hs
              exact repInv_out h (repOk_sub h.ok (by rw [markRunning_keys]; exact List.Sublist.refl _) (finKeys_append_nonfinal _ _ (by simp [finKey]))) (sigGroup_pids _ _ _) (by intro l; simp)
    · simp at hs
  | jobs =>
    simp only [step] at hs
    split at hs
    · split at hs
      · simp only [Option.some.injEq] at hs; subst hs
        exact repInv_out h h.ok rfl (by intro l; simp)
      · simp only [Option.some.injEq] at hs; subst hs
        refine repInv_out h ?_ (pollR_pids false s) (by intro l; simp)
        exact repOk_sub (repOk_pollR false s h.ok) (List.Sublist.refl _) (finKeys_append_nonfinal _ _ (listing_nonfinal _))
    · simp at hs
  | empty =>
    simp only [step] at hs
    split at hs
    · simp only [Option.some.injEq] at hs; subst hs
      exact repInv_out h h.ok rfl (by intro l; simp)
    · simp at hs
  | fork pid =>
    simp only [step] at hs
    split at hs
    · rename_i l hm
      unfold stepFork at hs
      split at hs
      · rename_i hph hcm
        split at hs
        · simp at hs
        · rename_i hfresh
          simp only [Option.some.injEq] at hs; subst hs
          simp only [Bool.or_eq_true, decide_eq_true_eq, not_or, Bool.not_eq_true] at hfresh
          obtain ⟨⟨hz, _⟩, hnew⟩ := hfresh
          have hnew' : pid ∉ pidsOf s := by
            intro hin
            simp only [pidsOf, List.mem_map] at hin
            obtain ⟨q, hq, he⟩ := hin
            have : s.procs.any (fun x => decide (x.pid = pid)) = true := List.any_eq_true.mpr ⟨q, hq, by simp [he]⟩
            rw [this] at hnew; simp at hnew
          have hpids : ∀ x, x ∈ pidsOf s → x ∈ (s.procs ++ [({ pid := pid, first := if l.idx = 0 then pid else l.pgid, pgid := s.shell } : Proc)]).map (·.pid) := by
            intro x hx; simp only [List.map_append, List.mem_append]; exact Or.inl hx
          refine ⟨repOk_mono h.ok hpids, ?_, ?_, ?_⟩
          · intro p hp
            simp only [pidsOf, List.map_append, List.mem_append, List.map_cons, List.map_nil, List.mem_singleton] at hp
            rcases hp with hp | rfl
            · exact h.nonzero p hp
            · exact hz
          · intro l' hl' _
            simp only [Mode.launching.injEq] at hl'; subst hl'
            simp only [pidsOf, List.map_append, List.mem_append, List.map_cons, List.map_nil, List.mem_singleton]
            by_cases h0 : l.idx = 0
            · right; simp [h0]
            · left; simp only [h0, ↓reduceIte]; exact h.pgidPid l hm (Or.inl (by omega))
          · intro l' hl' k hk
            simp only [Mode.launching.injEq] at hl'; subst hl'
            simp only
            by_cases h0 : l.idx = 0
            · simp only [h0, ↓reduceIte]
              intro e
              exact hnew' (e ▸ h.ok.annGids k hk)
            · simp only [h0, ↓reduceIte]; exact h.pgidNew l hm k hk
      · simp at hs
    · simp at hs
  | psetpgid =>
    simp only [step] at hs
    split at hs
    · rename_i l hm
      unfold stepPset at hs
      split at hs
      · rename_i p hph
        simp only [Option.some.injEq] at hs; subst hs
        exact repInv_launch_same h hm (h.pgidPid l hm (Or.inr (by rw [hph]; simp))) rfl rfl
          (updProc_pids _ _ _ (by intro q; split <;> rfl))
          (by intro l' hl'; simp only [Mode.launching.injEq] at hl'; subst hl'; rfl)
      · simp at hs
    · simp at hs
  | give =>
    simp only [step] at hs
    split at hs
    · rename_i l hm
      unfold stepGive at hs
      split at hs
      · rename_i p hph
        have hpg := h.pgidPid l hm (Or.inr (by rw [hph]; simp))
        have key : ∀ st : State, st.sh = s.sh → st.out = s.out → st.procs = s.procs →
            (∀ l', st.mode = .launching l' → l'.pgid = l.pgid) → RepInv st :=
          fun st h1 h2 h3 h4 => repInv_launch_same h hm hpg h1 h2 (by simp [pidsOf, h3]) h4
        split at hs
        · split at hs
          · simp only [Option.some.injEq] at hs; subst hs
            exact key _ rfl rfl rfl (by intro l' hl'; simp only [Mode.launching.injEq] at hl'; subst hl'; rfl)
          · simp only [Option.some.injEq] at hs; subst hs
            exact key _ rfl rfl rfl (by intro l' hl'; simp only [Mode.launching.injEq] at hl'; subst hl'; rfl)
        · simp only [Option.some.injEq] at hs; subst hs
          exact key _ rfl rfl rfl (by intro l' hl'; simp only [Mode.launching.injEq] at hl'; subst hl'; rfl)
      · simp at hs
    · simp at hs
  | insert =>
    simp only [step] at hs
    split at hs
    · rename_i l hm
      unfold stepInsert at hs
      split at hs
      · rename_i p cmd rest hph hcm
        have hpg := h.pgidPid l hm (Or.inr (by rw [hph]; simp))
        have hins : ∀ b, RepOk (pidsOf s) (insertJob s.sh l.pgid p b) s.out := by
          intro b
          refine ⟨?_, h.ok.annGids, ?_, h.ok.once⟩
          · intro k hk
            rcases insertJobGo_keys _ _ _ _ _ 1 k hk with he | hk0
            · rw [he]; exact hpg
            · exact h.ok.tableGids k hk0
          · intro k hk hk2
            rcases insertJobGo_keys _ _ _ _ _ 1 k hk2 with he | hk0
            · exact h.pgidNew l hm k hk he
            · exact h.ok.absent k hk hk0
        have key : ∀ st : State, RepOk (pidsOf s) st.sh st.out → st.out = s.out → st.procs = s.procs →
            (∀ l', st.mode = .launching l' → l'.pgid = l.pgid) → RepInv st := by
          intro st h1 h2 h3 h4
          have hp : pidsOf st = pidsOf s := by simp [pidsOf, h3]
          refine ⟨by rw [hp]; exact h1, by rw [hp]; exact h.nonzero, ?_, ?_⟩
          · intro l' hl' _; rw [hp, h4 l' hl']; exact hpg
          · intro l' hl' k hk; rw [h2] at hk; rw [h4 l' hl']; exact h.pgidNew l hm k hk
        by_cases hb : l.bg = true <;> by_cases hi : c.interactive = true <;> simp [hb, hi] at hs <;> subst hs
        · exact key _ (hins true) rfl rfl (by intro l' hl'; simp only [Mode.launching.injEq] at hl'; subst hl'; rfl)
        · exact key _ h.ok rfl rfl (by intro l' hl'; simp only [Mode.launching.injEq] at hl'; subst hl'; rfl)
        · exact key _ (hins false) rfl rfl (by intro l' hl'; simp only [Mode.launching.injEq] at hl'; subst hl'; rfl)
        · exact key _ h.ok rfl rfl (by intro l' hl'; simp only [Mode.launching.injEq] at hl'; subst hl'; rfl)
      · simp at hs
    · simp at hs
  | launched =>
    simp only [step] at hs
    split at hs
    · unfold stepLaunched at hs
      split at hs
      · split at hs
        · simp only [Option.some.injEq] at hs; subst hs
          refine repInv_out h (repOk_sub h.ok (List.Sublist.refl _) (finKeys_append_nonfinal _ _ ?_)) rfl (by intro l; simp)
          intro x hx
          split at hx <;> simp at hx
          subst hx; rfl
        · split at hs
          · simp only [Option.some.injEq] at hs; subst hs
            exact repInv_out h h.ok rfl (by intro l; simp)
          · simp only [Option.some.injEq] at hs; subst hs
            exact repInv_out h h.ok rfl (by intro l; simp)
      · simp at hs
    · simp at hs
  | csetpgid pid =>
    simp only [step] at hs
    split at hs
    · split at hs
      · simp only [Option.some.injEq] at hs; subst hs
        exact repInv_same h rfl rfl (updProc_pids _ _ _ (by intro q; split <;> rfl)) rfl
      · simp at hs
    · simp at hs
  | exit pid code =>
    simp only [step] at hs
    split at hs
    · split at hs
      · simp only [Option.some.injEq] at hs; subst hs
        exact repInv_same h rfl rfl (updProc_pids _ _ _ (by intro q; rfl)) rfl
      · simp at hs
    · simp at hs
  | signal pid sg =>
    simp only [step] at hs
    split at hs
    · split at hs
      · simp only [Option.some.injEq] at hs; subst hs
        exact repInv_same h rfl rfl (updProc_pids _ _ _ (fun q => ((sigProc_benign sg).1 q).1)) rfl
      · simp at hs
    · simp at hs
  | ctrlC => simp only [step, Option.some.injEq] at hs; subst hs; exact repInv_same h rfl rfl (sigGroup_pids _ _ _) rfl
  | ctrlZ => simp only [step, Option.some.injEq] at hs; subst hs; exact repInv_same h rfl rfl (sigGroup_pids _ _ _) rfl
  | waitGet pid =>
    simp only [step] at hs
    split at hs
    · rename_i w hm
      unfold stepWaitGet at hs
      split at hs
      · simp at hs
      · split at hs
        · simp at hs
        · rename_i e he
          simp only [Option.some.injEq] at hs; subst hs
          refine repInv_out h (repOk_waitEv h.ok w e) (updProc_pids _ _ _ (by intro q; rfl)) ?_
          intro l; simp only; split <;> simp
    · simp at hs
  | waitEchild =>
    simp only [step] at hs
    split at hs
    · split at hs
      · simp only [Option.some.injEq] at hs; subst hs
        exact repInv_out h h.ok rfl (by intro l; simp)
      · simp at hs
    · simp at hs
  | handback =>
    simp only [step] at hs
    split at hs
    · simp only [Option.some.injEq] at hs; subst hs
      exact repInv_out h h.ok rfl (by intro l; simp)
    · simp only [Option.some.injEq] at hs; subst hs
      exact repInv_out h h.ok rfl (by intro l; simp)
    · simp at hs
  | poll =>
    simp only [step] at hs
    split at hs
    · simp only [Option.some.injEq] at hs; subst hs
      exact repInv_out h (repOk_pollR true s h.ok) (pollR_pids true s) (by intro l; simp)
    · simp at hs

theorem repInv_reachable {c : Cfg} {s : State} (h : Reachable c s) : RepInv s := by
  induction h with
  | init p _ =>
    refine ⟨⟨?_, ?_, ?_, ?_⟩, ?_, ?_, ?_⟩ <;> simp [init, pidsOf, keys, finKeys]
  | step a _ hs ih => exact repInv_step ih hs

end Cicada.Term
