import Cicada.Spec.C12
/-! Lemmas for C12 (brace expansion): algebra of `prod`, fuel monotonicity, the round trip by mutual
structural induction over brace terms. -/
namespace Cicada.C12
open Cicada

/-! ### algebra of `prod` -/
theorem prod_nil_right (out : List Str) : prod out [[]] = out := by
  simp [prod]
theorem prod_unit_left (g : List Str) : prod [[]] g = g := by
  simp [prod]
theorem prod_assoc (a b c : List Str) : prod (prod a b) c = prod a (prod b c) := by
  simp [prod, List.flatMap_assoc, List.map_flatMap, List.flatMap_map, List.append_assoc, Function.comp_def]
theorem prod_lit (out : List Str) (c : Char) : prod out [[c]] = out.map (· ++ [c]) := by
  induction out with
  | nil => simp [prod]
  | cons x xs ih => simp_all [prod, List.flatMap_cons]

/-! ### fuel monotonicity -/
theorem mono : ∀ f : Nat,
    (∀ out s d r, braceItem f out s d = some r → braceItem (f + 1) out s d = some r) ∧
    (∀ out cm s d r, braceGroup f out cm s d = some r → braceGroup (f + 1) out cm s d = some r) := by
  intro f
  induction f with
  | zero => exact ⟨by simp [braceItem], by simp [braceGroup]⟩
  | succ n ih =>
    obtain ⟨ihI, ihG⟩ := ih
    constructor
    · intro out s d r h
      cases s with
      | nil => simpa [braceItem] using h
      | cons c cs =>
        simp only [braceItem] at h ⊢
        split
        · simpa [*] using h
        · rename_i h1; simp only [h1, if_false] at h
          split
          · rename_i h2; simp only [h2, if_true] at h
            cases hg : braceGroup n [] false cs (d + 1) with
            | none => simp [hg] at h
            | some og =>
              rw [ihG _ _ _ _ _ hg]; simp only [hg] at h
              cases og with
              | none => simp only at h; have := ihI _ _ _ _ h; simpa [h2] using this
              | some p => obtain ⟨grp, s'⟩ := p; simp only at h; simpa using ihI _ _ _ _ h
          · rename_i h2; simp only [h2, if_false] at h
            split
            · rename_i h3; simp only [h3, if_true] at h
              cases cs with
              | nil => simp only at h; have := ihI _ _ _ _ h; simpa [h3] using this
              | cons c2 cs2 => simp only at h; simpa using ihI _ _ _ _ h
            · rename_i h3; simp only [h3, if_false] at h; exact ihI _ _ _ _ h
    · intro out cm s d r h
      cases s with
      | nil => simpa [braceGroup] using h
      | cons c0 cs0 =>
        rw [braceGroup] at h ⊢
        cases hi : braceItem n [[]] (c0 :: cs0) d with
        | none => simp [hi] at h
        | some p =>
          rw [ihI _ _ _ _ hi]; simp only [hi] at h
          obtain ⟨g, s'⟩ := p
          cases s' with
          | nil => simpa using h
          | cons c cs =>
            simp only at h ⊢
            split
            · rename_i h1; simpa [h1] using h
            · rename_i h1; simp only [h1, if_false] at h
              split
              · rename_i h2; simp only [h2, if_true] at h; exact ihG _ _ _ _ _ h
              · rename_i h2; simp only [h2, if_false] at h; exact ihG _ _ _ _ _ h

theorem monoI {f g : Nat} (h : f ≤ g) {out s d r} : braceItem f out s d = some r → braceItem g out s d = some r := by
  induction h with
  | refl => exact id
  | step _ ih => exact fun x => (mono _).1 _ _ _ _ (ih x)
theorem monoG {f g : Nat} (h : f ≤ g) {out cm s d r} : braceGroup f out cm s d = some r → braceGroup g out cm s d = some r := by
  induction h with
  | refl => exact id
  | step _ ih => exact fun x => (mono _).2 _ _ _ _ _ (ih x)


theorem plainC_facts {c : Char} (h : plainC c = true) : c ≠ '{' ∧ c ≠ '}' ∧ c ≠ ',' ∧ c ≠ '\\' := by
  simp only [plainC, Bool.and_eq_true, decide_eq_true_eq, ne_eq] at h
  exact ⟨h.1.1.1, h.1.1.2, h.1.2, h.2⟩

/-! ### the round trip, by mutual structural induction -/
mutual
theorem itemW (w : Word) : ∀ (out : List Str) (rest : Str) (d f : Nat) (res), okW w = true →
    braceItem f (prod out (denote w)) rest d = some res → ∃ g, braceItem g out (render w ++ rest) d = some res := by
  cases w with
  | nil => intro out rest d f res _ h; exact ⟨f, by simpa [render, denote, prod_nil_right] using h⟩
  | cons t w =>
    intro out rest d f res hok h
    simp only [okW, Bool.and_eq_true] at hok
    obtain ⟨hokT, hokW⟩ := hok
    cases t with
    | lit c =>
      obtain ⟨p1, p2, p3, p4⟩ := plainC_facts (by simpa [okT] using hokT)
      have h' : braceItem f (prod (out.map (· ++ [c])) (denote w)) rest d = some res := by
        simpa [denote, denoteT, ← prod_assoc, prod_lit] using h
      obtain ⟨g, hg⟩ := itemW w _ rest d f res hokW h'
      refine ⟨g + 1, ?_⟩
      simp [render, renderT, braceItem, p1, p2, p3, p4, hg]
    | grp a =>
      have hokA : okA a = true := by simpa [okT] using hokT
      have e : render (Word.cons (Term.grp a) w) ++ rest = '{' :: (renderA a ++ '}' :: (render w ++ rest)) := by
        simp [render, renderT, List.append_assoc]
      have hne : ¬ (d > 0 ∧ (('{' : Char) = ',' ∨ ('{' : Char) = '}')) := by simp
      cases a with
      | one w1 =>
        have h' : braceItem f (prod (prod out ((denote w1).map (fun x => '{' :: x ++ ['}']))) (denote w)) rest d = some res := by
          simpa [denote, denoteT, prod_assoc] using h
        obtain ⟨g1, hg1⟩ := itemW w _ rest d f res hokW h'
        obtain ⟨g2, hg2⟩ := groupOne w1 (render w ++ rest) (d + 1) (by simpa [okA] using hokA) (by omega)
        refine ⟨max g1 g2 + 1, ?_⟩
        rw [e]; simp only [braceItem, hne, if_false, if_true, renderA]
        rw [monoG (Nat.le_max_right g1 g2) hg2]
        simpa using monoI (Nat.le_max_left g1 g2) hg1
      | more w1 r1 =>
        have h' : braceItem f (prod (prod out (denoteA (.more w1 r1))) (denote w)) rest d = some res := by
          simpa [denote, denoteT, denoteA, prod_assoc] using h
        obtain ⟨g1, hg1⟩ := itemW w _ rest d f res hokW h'
        obtain ⟨g2, hg2⟩ := groupA (.more w1 r1) [] false (render w ++ rest) (d + 1) hokA (by omega) (Or.inr rfl)
        refine ⟨max g1 g2 + 1, ?_⟩
        rw [e]; simp only [braceItem, hne, if_false, if_true]
        rw [monoG (Nat.le_max_right g1 g2) hg2]
        simpa using monoI (Nat.le_max_left g1 g2) hg1
theorem groupOne (w : Word) : ∀ (rest : Str) (d : Nat), okW w = true → d > 0 →
    ∃ g, braceGroup g [] false (render w ++ '}' :: rest) d =
      some (some ((denote w).map (fun x => '{' :: x ++ ['}']), rest)) := by
  intro rest d hok hd
  have base : braceItem 1 (prod [[]] (denote w)) ('}' :: rest) d = some (denote w, '}' :: rest) := by
    simp [braceItem, hd, prod_unit_left]
  obtain ⟨g, hg⟩ := itemW w [[]] ('}' :: rest) d 1 _ hok base
  refine ⟨g + 1, ?_⟩
  cases hr : render w ++ '}' :: rest with
  | nil => simp at hr
  | cons c0 cs0 =>
    simp only [braceGroup]
    rw [hr] at hg
    simp [hg]
theorem groupA (a : Alts) : ∀ (out : List Str) (cm : Bool) (rest : Str) (d : Nat), okA a = true → d > 0 →
    (cm = true ∨ isOne a = false) →
    ∃ g, braceGroup g out cm (renderA a ++ '}' :: rest) d = some (some (out ++ denoteA a, rest)) := by
  cases a with
  | one w =>
    intro out cm rest d hok hd hc
    have hcm : cm = true := by rcases hc with h | h; exact h; exact absurd h (by simp [isOne])
    have base : braceItem 1 (prod [[]] (denote w)) ('}' :: rest) d = some (denote w, '}' :: rest) := by
      simp [braceItem, hd, prod_unit_left]
    obtain ⟨g, hg⟩ := itemW w [[]] ('}' :: rest) d 1 _ (by simpa [okA] using hok) base
    refine ⟨g + 1, ?_⟩
    cases hr : render w ++ '}' :: rest with
    | nil => simp at hr
    | cons c0 cs0 =>
      simp only [renderA, hr, braceGroup]
      rw [hr] at hg
      simp [hg, hcm, denoteA]
  | more w r =>
    intro out cm rest d hok hd _
    simp only [okA, Bool.and_eq_true] at hok
    obtain ⟨hokW, hokR⟩ := hok
    obtain ⟨g2, hg2⟩ := groupA r (out ++ denote w) true rest d hokR hd (Or.inl rfl)
    have base : braceItem 1 (prod [[]] (denote w)) (',' :: (renderA r ++ '}' :: rest)) d
        = some (denote w, ',' :: (renderA r ++ '}' :: rest)) := by
      simp [braceItem, hd, prod_unit_left]
    obtain ⟨g1, hg1⟩ := itemW w [[]] _ d 1 _ hokW base
    refine ⟨max g1 g2 + 1, ?_⟩
    have e : renderA (Alts.more w r) ++ '}' :: rest = render w ++ ',' :: (renderA r ++ '}' :: rest) := by
      simp [renderA, List.append_assoc]
    rw [e]
    cases hr : render w ++ ',' :: (renderA r ++ '}' :: rest) with
    | nil => simp at hr
    | cons c0 cs0 =>
      rw [hr] at hg1
      simp only [braceGroup]
      rw [monoI (Nat.le_max_left g1 g2) hg1]
      simp only
      have : ¬ ((',' : Char) = '}') := by decide
      simp only [this, if_false, if_true]
      simpa [denoteA, List.append_assoc] using monoG (Nat.le_max_right g1 g2) hg2
end

end Cicada.C12
