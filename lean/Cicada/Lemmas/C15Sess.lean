import Cicada.Thm.C15
/-!
# Lemmas on the script-session model (`Model/ScriptSess.lean`), for `Cicada/Thm/C15sess.lean`

* `step` : what ONE statement does (the `let (st1, status) := match s with …` of `runStmts`), `stopped` : the test that ends
  a run; `runStmts_cons` / `runFile_succ` : the two functions of the model written with them (`hoist` : the definitions of a
  file registered, `nondefs` : the lines run).
* `run_invariant` : the induction over the fuel of the mutual pair, done once: a property of the state that survives a
  marker, a change of the flag, an `exit` and the registration of a definition of some file, survives every run.
* the function table: `bodyOf`, `find_setFunc_same` / `_other`, `lastDef`, `bodyOf_hoist`.
* `runStmts_append` : a run of `xs ++ ys` is the run of `xs`, then (unless that ended the run) of `ys` on the fuel left.
* `exit_status` : a run that ends with the shell exited with `n` reports `n` (every depth).
* `run_okStages` : a prefix of succeeding commands only logs its markers.
-/
namespace Cicada.C15.Sess
open Cicada.ScriptSess

/-- what one statement does (the `let (st1, status) := match s with …` of `runStmts`), with `f` the fuel left for what it starts -/
def step (cfg : Cfg) (files : List (Str × List SStmt)) (f : Nat) (s : SStmt) (st : St) (last : Nat) : St × Nat :=
  match s with
  | .stage k c => ({ st with trace := st.trace ++ [(k, c)] }, c)
  | .sete => ({ st with sete := true }, 0)
  | .exit n => ({ st with exited := some n }, n)
  | .defn _ _ => (st, last)
  | .call fn =>
    (match st.funcs.find? (·.1 = fn) with
     | some (_, body) =>
       let r := runStmts cfg files f body st 0
       (if cfg.clearAfterCall then { r.1 with sete := false } else r.1, r.2)
     | none => (st, 127))
  | .source file =>
    let r := runFile cfg files f file st
    (if cfg.clearAfterSource then { r.1 with sete := st.sete } else r.1, r.2)

/-- the run stops after this result: the shell has exited, or `set -e` is in effect and the status is a failure -/
def stopped (r : St × Nat) : Bool := r.1.exited.isSome || (r.2 != 0 && r.1.sete)

theorem runStmts_zero (cfg : Cfg) (files : List (Str × List SStmt)) (l : List SStmt) (st : St) (last : Nat) :
    runStmts cfg files 0 l st last = (st, last) := by
  simp [runStmts]

theorem runStmts_nil (cfg : Cfg) (files : List (Str × List SStmt)) (f : Nat) (st : St) (last : Nat) :
    runStmts cfg files f [] st last = (st, last) := by
  cases f <;> simp [runStmts]

theorem cons_core (e : Bool) (A r : St × Nat) (K : St → Nat → St × Nat) :
    (if e = true then A else if r.1.exited.isSome = true then (r.1, r.2) else if r.2 ≠ 0 ∧ r.1.sete = true then (r.1, r.2) else K r.1 r.2)
      = if e = true then A else if stopped r = true then r else K r.1 r.2 := by
  cases e <;> simp only [stopped, Bool.false_eq_true, ↓reduceIte]
  by_cases h1 : r.1.exited.isSome = true
  · simp [h1]
  · by_cases h2 : r.2 ≠ 0 ∧ r.1.sete = true
    · simp [h1, h2]
    · have : (r.2 != 0 && r.1.sete) = false := by
        cases hs : r.1.sete <;> simp_all
      simp [h1, h2, this]

theorem runStmts_cons (cfg : Cfg) (files : List (Str × List SStmt)) (f : Nat) (s : SStmt) (rest : List SStmt) (st : St) (last : Nat) :
    runStmts cfg files (f + 1) (s :: rest) st last =
      if st.exited.isSome then (st, last) else
      if stopped (step cfg files f s st last) then step cfg files f s st last
      else runStmts cfg files f rest (step cfg files f s st last).1 (step cfg files f s st last).2 := by
  cases s with
  | stage k c => simp only [runStmts]; exact cons_core _ _ (step cfg files f (.stage k c) st last) _
  | call fn => simp only [runStmts]; exact cons_core _ _ (step cfg files f (.call fn) st last) _
  | source fl => simp only [runStmts]; exact cons_core _ _ (step cfg files f (.source fl) st last) _
  | exit n => simp only [runStmts]; exact cons_core _ _ (step cfg files f (.exit n) st last) _
  | sete => simp only [runStmts]; exact cons_core _ _ (step cfg files f .sete st last) _
  | defn g b => simp only [runStmts]; exact cons_core _ _ (step cfg files f (.defn g b) st last) _

/-- the function table after the definitions of a file have been registered (`run_script` registers them before it runs a line) -/
def hoist (fs : List (Str × List SStmt)) (stmts : List SStmt) : List (Str × List SStmt) :=
  stmts.foldl (fun fs s => match s with | .defn fn b => setFunc fs fn b | _ => fs) fs

/-- the lines of a file that are run: everything but the definitions -/
def nondefs (stmts : List SStmt) : List SStmt := stmts.filter (fun s => !isDefn s)

theorem runFile_zero (cfg : Cfg) (files : List (Str × List SStmt)) (name : Str) (st : St) :
    runFile cfg files 0 name st = (st, 1) := by
  simp [runFile]

theorem runFile_succ (cfg : Cfg) (files : List (Str × List SStmt)) (f : Nat) (name : Str) (st : St) :
    runFile cfg files (f + 1) name st =
      match files.find? (·.1 = name) with
      | none => (st, 1)
      | some (_, stmts) =>
        ((if cfg.clearAfterSource then { (runStmts cfg files f (nondefs stmts) { st with funcs := hoist st.funcs stmts } 0).1 with sete := false }
          else (runStmts cfg files f (nondefs stmts) { st with funcs := hoist st.funcs stmts } 0).1),
         (runStmts cfg files f (nondefs stmts) { st with funcs := hoist st.funcs stmts } 0).2) := by
  simp only [runFile, hoist, nondefs]
  generalize List.find? (fun x => decide (x.fst = name)) files = o
  cases o with
  | none => rfl
  | some p => rfl

theorem hoist_cons (fs : List (Str × List SStmt)) (s : SStmt) (l : List SStmt) :
    hoist fs (s :: l) = hoist (match s with | .defn fn b => setFunc fs fn b | _ => fs) l := rfl

/-- **invariant principle**: a property of the session state that survives a logged marker, a change of the `set -e`
flag, an `exit`, and the registration of a definition standing at the top level of some file of the session, survives
every run -/
theorem run_invariant (cfg : Cfg) (files : List (Str × List SStmt)) (P : St → Prop)
    (hT : ∀ st x, P st → P { st with trace := st.trace ++ [x] })
    (hS : ∀ st b, P st → P { st with sete := b })
    (hE : ∀ st n, P st → P { st with exited := some n })
    (hF : ∀ st fn b, (∃ p ∈ files, SStmt.defn fn b ∈ p.2) → P st → P { st with funcs := setFunc st.funcs fn b }) :
    ∀ F, (∀ l st last, P st → P (runStmts cfg files F l st last).1) ∧ (∀ name st, P st → P (runFile cfg files F name st).1) := by
  intro F
  induction F with
  | zero =>
    refine ⟨fun l st last h => ?_, fun name st h => ?_⟩
    · rw [runStmts_zero]; exact h
    · rw [runFile_zero]; exact h
  | succ f ih =>
    have hstep : ∀ s st last, P st → P (step cfg files f s st last).1 := by
      intro s st last h
      cases s with
      | stage k c => exact hT st (k, c) h
      | sete => exact hS st true h
      | exit n => exact hE st n h
      | defn g b => exact h
      | call fn =>
        simp only [step]
        split
        · rename_i g body _
          have := ih.1 body st 0 h
          split
          · exact hS _ false this
          · exact this
        · exact h
      | source fl =>
        simp only [step]
        have := ih.2 fl st h
        split
        · exact hS _ _ this
        · exact this
    refine ⟨fun l st last h => ?_, fun name st h => ?_⟩
    · cases l with
      | nil => rw [runStmts_nil]; exact h
      | cons s rest =>
        rw [runStmts_cons]
        split
        · exact h
        · split
          · exact hstep s st last h
          · exact ih.1 _ _ _ (hstep s st last h)
    · rw [runFile_succ]
      split
      · exact h
      · rename_i nm stmts hfind
        have hmem : (nm, stmts) ∈ files := List.mem_of_find?_eq_some hfind
        have hh : ∀ l st, (∀ s ∈ l, s ∈ stmts) → P st → P { st with funcs := hoist st.funcs l } := by
          intro l
          induction l with
          | nil => intro st _ h; exact h
          | cons s l ihl =>
            intro st hs h
            rw [hoist_cons]
            have hl : ∀ s ∈ l, s ∈ stmts := fun x hx => hs x (List.mem_cons_of_mem _ hx)
            cases s with
            | defn g b => exact ihl { st with funcs := setFunc st.funcs g b } hl (hF st g b ⟨_, hmem, hs _ (List.mem_cons_self ..)⟩ h)
            | stage k c => exact ihl st hl h
            | call fn => exact ihl st hl h
            | source fl => exact ihl st hl h
            | exit n => exact ihl st hl h
            | sete => exact ihl st hl h
        have := ih.1 (nondefs stmts) _ 0 (hh stmts st (fun _ h => h) h)
        split
        · exact hS _ false this
        · exact this

/-- the body a name is bound to -/
def bodyOf (st : St) (fn : Str) : Option (List SStmt) := (st.funcs.find? (·.1 = fn)).map (·.2)

theorem find_setFunc_same (fs : List (Str × List SStmt)) (fn : Str) (b : List SStmt) :
    (setFunc fs fn b).find? (·.1 = fn) = some (fn, b) := by
  simp only [setFunc, List.find?_append, List.find?_filter]
  have hp : (fun a : Str × List SStmt => decide (decide (a.1 ≠ fn) = true ∧ decide (a.1 = fn) = true)) = fun _ => false := by
    funext a; by_cases h : a.1 = fn <;> simp [h]
  rw [hp]
  have : List.find? (fun _ : Str × List SStmt => false) fs = none := by
    induction fs with
    | nil => rfl
    | cons x xs ih => simp [List.find?]
  rw [this]
  simp

theorem find_setFunc_other (fs : List (Str × List SStmt)) (g fn : Str) (b : List SStmt) (h : g ≠ fn) :
    (setFunc fs g b).find? (·.1 = fn) = fs.find? (·.1 = fn) := by
  simp only [setFunc, List.find?_append, List.find?_filter]
  have hp : (fun a : Str × List SStmt => decide (decide (a.1 ≠ g) = true ∧ decide (a.1 = fn) = true)) = fun a => decide (a.1 = fn) := by
    funext a
    by_cases h1 : a.1 = fn
    · have : ¬ fn = g := fun e => h e.symm
      simp [h1, this]
    · simp [h1]
  rw [hp]
  cases fs.find? (·.1 = fn) <;> simp [h]

/-- the body, if the statement is a definition of `fn` -/
def defBody (fn : Str) : SStmt → Option (List SStmt)
  | .defn g b => if g = fn then some b else none
  | .stage _ _ => none
  | .call _ => none
  | .source _ => none
  | .exit _ => none
  | .sete => none

/-- the last definition of `fn` among the statements of a file -/
def lastDef (fn : Str) : List SStmt → Option (List SStmt)
  | [] => none
  | s :: rest => (lastDef fn rest).or (defBody fn s)

theorem lastDef_cons (fn : Str) (s : SStmt) (rest : List SStmt) : lastDef fn (s :: rest) = (lastDef fn rest).or (defBody fn s) := rfl

theorem find_hoist (fn : Str) : ∀ (stmts : List SStmt) (fs : List (Str × List SStmt)),
    (hoist fs stmts).find? (·.1 = fn) =
      match lastDef fn stmts with
      | some b => some (fn, b)
      | none => fs.find? (·.1 = fn) := by
  intro stmts
  induction stmts with
  | nil => intro fs; rfl
  | cons s l ih =>
    intro fs
    rw [hoist_cons, ih, lastDef_cons]
    cases hl : lastDef fn l with
    | some b => rfl
    | none =>
      cases s with
      | defn g b =>
        by_cases hg : g = fn
        · subst hg; simp [defBody, find_setFunc_same]
        · simp [defBody, hg, find_setFunc_other _ _ _ _ hg]
      | stage k c => rfl
      | call g => rfl
      | source fl => rfl
      | exit n => rfl
      | sete => rfl

theorem defBody_some (fn : Str) (s : SStmt) (b : List SStmt) (h : defBody fn s = some b) : s = .defn fn b := by
  cases s with
  | defn g b' =>
    by_cases hg : g = fn
    · subst hg; simp [defBody] at h; subst h; rfl
    · simp [defBody, hg] at h
  | stage k c => simp [defBody] at h
  | call g => simp [defBody] at h
  | source fl => simp [defBody] at h
  | exit n => simp [defBody] at h
  | sete => simp [defBody] at h

theorem lastDef_mem (fn : Str) : ∀ (stmts : List SStmt) (b : List SStmt), lastDef fn stmts = some b → SStmt.defn fn b ∈ stmts := by
  intro stmts
  induction stmts with
  | nil => intro b h; simp [lastDef] at h
  | cons s l ih =>
    intro b h
    rw [lastDef_cons] at h
    cases hl : lastDef fn l with
    | some b' =>
      rw [hl] at h
      simp only [Option.some_or, Option.some.injEq] at h
      subst h
      exact List.mem_cons_of_mem _ (ih _ hl)
    | none =>
      rw [hl] at h
      simp only [Option.none_or] at h
      rw [defBody_some fn s b h]
      exact List.mem_cons_self ..

theorem lastDef_isSome (fn : Str) (b : List SStmt) : ∀ (stmts : List SStmt), SStmt.defn fn b ∈ stmts → (lastDef fn stmts).isSome = true := by
  intro stmts
  induction stmts with
  | nil => intro h; simp at h
  | cons s l ih =>
    intro h
    rw [lastDef_cons]
    cases hl : lastDef fn l with
    | some b' => rfl
    | none =>
      rcases List.mem_cons.mp h with e | e
      · rw [← e]; simp [defBody]
      · have := ih e; rw [hl] at this; simp at this

theorem bodyOf_setFunc_same (st : St) (fn : Str) (b : List SStmt) :
    bodyOf { st with funcs := setFunc st.funcs fn b } fn = some b := by
  simp [bodyOf, find_setFunc_same]

theorem bodyOf_setFunc_other (st : St) (g fn : Str) (b : List SStmt) (h : g ≠ fn) :
    bodyOf { st with funcs := setFunc st.funcs g b } fn = bodyOf st fn := by
  simp [bodyOf, find_setFunc_other _ _ _ _ h]

/-- the table a file's lines run with: the last definition of the file, else what was bound before -/
theorem bodyOf_hoist (st : St) (fn : Str) (stmts : List SStmt) :
    bodyOf { st with funcs := hoist st.funcs stmts } fn = (lastDef fn stmts).or (bodyOf st fn) := by
  simp only [bodyOf, find_hoist]
  cases lastDef fn stmts <;> simp

theorem isSome_and_unique {o : Option (List SStmt)} {b : List SStmt} (h1 : o.isSome = true) (h2 : ∀ b', o = some b' → b' = b) : o = some b := by
  cases o with
  | none => simp at h1
  | some x => rw [h2 x rfl]

theorem runStmts_exited (cfg : Cfg) (files : List (Str × List SStmt)) (F : Nat) (l : List SStmt) (st : St) (last : Nat)
    (h : st.exited.isSome = true) : runStmts cfg files F l st last = (st, last) := by
  cases F with
  | zero => exact runStmts_zero ..
  | succ f =>
    cases l with
    | nil => exact runStmts_nil ..
    | cons s rest => rw [runStmts_cons, if_pos h]

/-- a result that stopped the run stays the result of any longer list -/
theorem runStmts_append (cfg : Cfg) (files : List (Str × List SStmt)) : ∀ (xs : List SStmt), xs ≠ [] → ∀ (F : Nat) (ys : List SStmt) (st : St) (last : Nat),
    runStmts cfg files F (xs ++ ys) st last =
      if stopped (runStmts cfg files F xs st last) then runStmts cfg files F xs st last
      else runStmts cfg files (F - xs.length) ys (runStmts cfg files F xs st last).1 (runStmts cfg files F xs st last).2 := by
  intro xs
  induction xs with
  | nil => intro h; exact absurd rfl h
  | cons x xs ih =>
    intro _ F ys st last
    cases F with
    | zero => simp [runStmts_zero]
    | succ f =>
      rw [List.cons_append, runStmts_cons, runStmts_cons]
      by_cases he : st.exited.isSome = true
      · simp [he, stopped]
      · simp only [he, Bool.false_eq_true, ↓reduceIte]
        by_cases hs : stopped (step cfg files f x st last) = true
        · simp [hs]
        · simp only [hs, Bool.false_eq_true, ↓reduceIte]
          by_cases hx : xs = []
          · subst hx
            simp [runStmts_nil, hs]
          · rw [ih hx]
            simp [Nat.add_sub_add_right]

/-- whatever ends with the shell exited with `n`, at whatever depth the `exit n` stood, reports the status `n` -/
theorem exit_status (cfg : Cfg) (files : List (Str × List SStmt)) (n : Nat) : ∀ F,
    (∀ l st last, st.exited = none → (runStmts cfg files F l st last).1.exited = some n → (runStmts cfg files F l st last).2 = n) ∧
    (∀ name st, st.exited = none → (runFile cfg files F name st).1.exited = some n → (runFile cfg files F name st).2 = n) := by
  intro F
  induction F with
  | zero =>
    refine ⟨fun l st last h0 h => ?_, fun name st h0 h => ?_⟩
    · rw [runStmts_zero] at h; rw [h0] at h; simp at h
    · rw [runFile_zero] at h; rw [h0] at h; simp at h
  | succ f ih =>
    have hstep : ∀ s st last, st.exited = none → (step cfg files f s st last).1.exited = some n → (step cfg files f s st last).2 = n := by
      intro s st last h0 h
      cases s with
      | stage k c => simp [step, h0] at h
      | sete => simp [step, h0] at h
      | exit m => simp only [step] at h ⊢; exact Option.some.inj h
      | defn g b => simp [step, h0] at h
      | call fn =>
        simp only [step] at h ⊢
        split at h
        · rename_i g body _
          simp only
          apply ih.1 body st 0 h0
          split at h
          · exact h
          · exact h
        · simp [h0] at h
      | source fl =>
        simp only [step] at h ⊢
        apply ih.2 fl st h0
        split at h
        · exact h
        · exact h
    refine ⟨fun l st last h0 h => ?_, fun name st h0 h => ?_⟩
    · cases l with
      | nil => rw [runStmts_nil] at h; rw [h0] at h; simp at h
      | cons s rest =>
        have he : ¬ st.exited.isSome = true := by simp [h0]
        rw [runStmts_cons, if_neg he] at h ⊢
        by_cases hs : stopped (step cfg files f s st last) = true
        · rw [if_pos hs] at h ⊢
          exact hstep s st last h0 h
        · rw [if_neg hs] at h ⊢
          have : (step cfg files f s st last).1.exited = none := by
            simp only [stopped, Bool.or_eq_true, not_or] at hs
            cases hx : (step cfg files f s st last).1.exited with
            | none => rfl
            | some m => rw [hx] at hs; simp at hs
          exact ih.1 _ _ _ this h
    · rw [runFile_succ] at h ⊢
      split at h
      · rw [h0] at h; simp at h
      · rename_i nm stmts hfind
        simp only
        apply ih.1 (nondefs stmts) { st with funcs := hoist st.funcs stmts } 0 h0
        split at h
        · exact h
        · exact h

/-- a command that succeeds -/
def okStage : SStmt → Bool
  | .stage _ c => c == 0
  | _ => false

/-- the markers a list of commands logs -/
def markers : List SStmt → List (Nat × Nat)
  | [] => []
  | .stage k c :: rest => (k, c) :: markers rest
  | _ :: rest => markers rest

theorem run_okStages (cfg : Cfg) (files : List (Str × List SStmt)) : ∀ (pre : List SStmt), pre.all okStage = true →
    ∀ (F : Nat) (rest : List SStmt) (st : St), st.exited = none → pre.length ≤ F →
    runStmts cfg files F (pre ++ rest) st 0 = runStmts cfg files (F - pre.length) rest { st with trace := st.trace ++ markers pre } 0 := by
  intro pre
  induction pre with
  | nil => intro _ F rest st _ _; simp [markers]
  | cons s pre ih =>
    intro hall F rest st h0 hF
    simp only [List.all_cons, Bool.and_eq_true] at hall
    obtain ⟨f, rfl⟩ : ∃ f, F = f + 1 := ⟨F - 1, by simp at hF; omega⟩
    cases s with
    | stage k c =>
      have hc : c = 0 := by simpa [okStage] using hall.1
      subst hc
      have he : ¬ st.exited.isSome = true := by simp [h0]
      rw [List.cons_append, runStmts_cons, if_neg he]
      have hs : stopped (step cfg files f (.stage k 0) st 0) = false := by simp [stopped, step, h0]
      rw [hs]
      simp only [Bool.false_eq_true, ↓reduceIte, step]
      rw [ih hall.2 f rest { st with trace := st.trace ++ [(k, 0)] } h0 (by simp at hF; omega)]
      simp [markers, Nat.add_sub_add_right, List.append_assoc]
    | call g => simp [okStage] at hall
    | source g => simp [okStage] at hall
    | exit n => simp [okStage] at hall
    | sete => simp [okStage] at hall
    | defn g b => simp [okStage] at hall

theorem bodyOf_sete (st : St) (x : Bool) (fn : Str) : bodyOf { st with sete := x } fn = bodyOf st fn := rfl

theorem runStmts_single (cfg : Cfg) (files : List (Str × List SStmt)) (G : Nat) (s : SStmt) (st : St) (last : Nat) (h0 : st.exited = none) :
    runStmts cfg files (G + 1) [s] st last = step cfg files G s st last := by
  rw [runStmts_cons]
  simp [h0, runStmts_nil]

end Cicada.C15.Sess
