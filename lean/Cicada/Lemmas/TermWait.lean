import Cicada.Lemmas.TermReport
/-!
# What a pending status change says about its process, and the counter of `wait_fg_job`

`NoteOk`: the status change the kernel holds for a child describes the child's present state (a later change
replaces an unreported one).  `WaitInv`: while the shell is inside `wait_fg_job` its counter is below the number
of processes it waits for.  Together: a wait for ONE process returns exactly when that process is stopped or gone.
-/
namespace Cicada.Term
open Cicada.Jobs Cicada.C07

def NoteOk (p : Proc) : Prop :=
  ∀ e, p.note = some e → e.pid = p.pid ∧
    (match e with
     | .stopped _ _ => p.st = .stopped
     | .exited _ _ => p.st = .zombie
     | .killed _ _ => p.st = .zombie
     | .continued _ => p.st = .running)

structure WaitInv (s : State) : Prop where
  notes : ∀ p ∈ s.procs, NoteOk p
  counter : ∀ w, s.mode = .waiting w → w.waited < w.pids.length

theorem sigProc_noteOk (p : Proc) (sg : Sig) (h : NoteOk p) : NoteOk (sigProc p sg) := by
  unfold sigProc
  cases hst : p.st <;> cases sg <;> simp only
  all_goals first
    | exact h
    | (intro e he; simp only [Option.some.injEq] at he; subst he; exact ⟨rfl, rfl⟩)
    | (split
       · intro e he; simp only [Option.some.injEq] at he; subst he; exact ⟨rfl, rfl⟩
       · intro e he; simp only [Option.some.injEq] at he; subst he; exact ⟨rfl, rfl⟩)
    | (intro e he
       have := h e he
       refine ⟨this.1, ?_⟩
       cases e <;> simp_all)

theorem consume_noteOk (p : Proc) : NoteOk (consume p) := by
  intro e he; simp [consume] at he

theorem noteOk_map {l : List Proc} {f : Proc → Proc} (hf : ∀ q, NoteOk q → NoteOk (f q)) (h : ∀ p ∈ l, NoteOk p) :
    ∀ p ∈ l.map f, NoteOk p := by
  intro p hp
  rw [List.mem_map] at hp
  obtain ⟨q, hq, rfl⟩ := hp
  exact hf q (h q hq)

theorem noteOk_ite {f : Proc → Proc} (hf : ∀ q, NoteOk q → NoteOk (f q)) (P : Proc → Prop) [DecidablePred P] :
    ∀ q, NoteOk q → NoteOk (if P q then f q else q) := by
  intro q hq
  by_cases h : P q <;> simp [h, hq, hf q hq]

/-- a field update that touches neither the state nor the note -/
theorem noteOk_congr {p q : Proc} (h : NoteOk p) (h1 : q.pid = p.pid) (h2 : q.st = p.st) (h3 : q.note = p.note) : NoteOk q := by
  intro e he
  rw [h3] at he
  have := h e he
  rw [h1, h2]
  exact this

theorem waitInv_procs {s s' : State} (h : WaitInv s) (hp : ∀ p ∈ s'.procs, NoteOk p) (hm : s'.mode = s.mode) : WaitInv s' :=
  ⟨hp, by rw [hm]; exact h.counter⟩

theorem waitInv_nowait {s' : State} (hp : ∀ p ∈ s'.procs, NoteOk p) (hm : ∀ w, s'.mode ≠ .waiting w) : WaitInv s' :=
  ⟨hp, fun w hw => absurd hw (hm w)⟩

theorem pollR_notes (r : Bool) (s : State) (h : ∀ p ∈ s.procs, NoteOk p) : ∀ p ∈ (pollR r s).procs, NoteOk p := by
  unfold pollR
  split
  · exact h
  · exact noteOk_map (fun q _ => consume_noteOk q) h

theorem waitInv_step {c : Cfg} {s s' : State} {a : Act} (h : WaitInv s) (hs : step c s a = some s') : WaitInv s' := by
  cases a with
  | launch bg cmds =>
    simp only [step] at hs
    split at hs
    · split at hs
      · simp at hs
      · simp only [Option.some.injEq] at hs; subst hs
        exact waitInv_nowait h.notes (by intro w; simp)
    · simp at hs
  | fg n ex =>
    simp only [step] at hs
    split at hs
    · unfold stepFg at hs
      split at hs
      · simp only [Option.some.injEq] at hs; subst hs; exact waitInv_nowait h.notes (by intro w; simp)
      · split at hs
        · simp at hs
        · split at hs
          · simp only [Option.some.injEq] at hs; subst hs; exact waitInv_nowait h.notes (by intro w; simp)
          · split at hs
            · simp only [Option.some.injEq] at hs; subst hs; exact waitInv_nowait h.notes (by intro w; simp)
            · have hn : ∀ g, ∀ p ∈ sigGroup s.procs g .cont, NoteOk p := by
                intro g
                rw [sigGroup_eq]
                exact noteOk_map (noteOk_ite (fun q hq => sigProc_noteOk q .cont hq) _) h.notes
              split at hs
              · simp only [Option.some.injEq] at hs; subst hs; exact waitInv_nowait (hn _) (by intro w; simp)
              · rename_i j _ _ hne
                simp only [Option.some.injEq] at hs; subst hs
                refine ⟨hn _, ?_⟩
                intro w hw
                simp only [Mode.waiting.injEq] at hw; subst hw
                simp only
                cases hj : j.pids with
                | nil => simp [hj] at hne
                | cons x xs => simp
    · simp at hs
  | bg n ex =>
    simp only [step] at hs
    split at hs
    · unfold stepBg at hs
      have hn : ∀ g, ∀ p ∈ sigGroup s.procs g .cont, NoteOk p := by
        intro g
        rw [sigGroup_eq]
        exact noteOk_map (noteOk_ite (fun q hq => sigProc_noteOk q .cont hq) _) h.notes
      split at hs
      · simp only [Option.some.injEq] at hs; subst hs; exact waitInv_nowait h.notes (by intro w; simp)
      · split at hs
        · simp at hs
        · split at hs
          · simp only [Option.some.injEq] at hs; subst hs; exact waitInv_nowait h.notes (by intro w; simp)
          · split at hs
            · simp only [Option.some.injEq] at hs; subst hs; exact waitInv_nowait (hn _) (by intro w; simp)
            · simp only [Option.some.injEq] at hs; subst hs; exact waitInv_nowait (hn _) (by intro w; simp)
    · simp at hs
  | jobs =>
    simp only [step] at hs
    split at hs
    · split at hs
      · simp only [Option.some.injEq] at hs; subst hs; exact waitInv_nowait h.notes (by intro w; simp)
      · simp only [Option.some.injEq] at hs; subst hs
        exact waitInv_nowait (pollR_notes false s h.notes) (by intro w; simp)
    · simp at hs
  | empty =>
    simp only [step] at hs
    split at hs
    · simp only [Option.some.injEq] at hs; subst hs; exact waitInv_nowait h.notes (by intro w; simp)
    · simp at hs
  | fork pid =>
    simp only [step] at hs
    split at hs
    · unfold stepFork at hs
      split at hs
      · split at hs
        · simp at hs
        · simp only [Option.some.injEq] at hs; subst hs
          refine waitInv_nowait ?_ (by intro w; simp)
          intro p hp
          simp only [List.mem_append, List.mem_singleton] at hp
          rcases hp with hp | rfl
          · exact h.notes p hp
          · intro e he; simp at he
      · simp at hs
    · simp at hs
  | psetpgid =>
    simp only [step] at hs
    split at hs
    · unfold stepPset at hs
      split at hs
      · simp only [Option.some.injEq] at hs; subst hs
        refine waitInv_nowait ?_ (by intro w; simp)
        rw [updProc_eq]
        refine noteOk_map (noteOk_ite ?_ _) h.notes
        intro q hq
        split
        · exact noteOk_congr hq rfl rfl rfl
        · exact hq
      · simp at hs
    · simp at hs
  | give =>
    simp only [step] at hs
    split at hs
    · unfold stepGive at hs
      split at hs
      · split at hs
        · split at hs
          · simp only [Option.some.injEq] at hs; subst hs; exact waitInv_nowait h.notes (by intro w; simp)
          · simp only [Option.some.injEq] at hs; subst hs; exact waitInv_nowait h.notes (by intro w; simp)
        · simp only [Option.some.injEq] at hs; subst hs; exact waitInv_nowait h.notes (by intro w; simp)
      · simp at hs
    · simp at hs
  | insert =>
    simp only [step] at hs
    split at hs
    · rename_i l hm
      unfold stepInsert at hs
      split at hs
      · by_cases hb : l.bg = true <;> by_cases hi : c.interactive = true <;> simp [hb, hi] at hs <;> subst hs <;>
          exact waitInv_nowait h.notes (by intro w; simp)
      · simp at hs
    · simp at hs
  | launched =>
    simp only [step] at hs
    split at hs
    · rename_i l hm
      unfold stepLaunched at hs
      split at hs
      · split at hs
        · simp only [Option.some.injEq] at hs; subst hs; exact waitInv_nowait h.notes (by intro w; simp)
        · split at hs
          · simp only [Option.some.injEq] at hs; subst hs; exact waitInv_nowait h.notes (by intro w; simp)
          · rename_i hne
            simp only [Option.some.injEq] at hs; subst hs
            refine ⟨h.notes, ?_⟩
            intro w hw
            simp only [Mode.waiting.injEq] at hw; subst hw
            simp only
            cases hj : l.fgPids with
            | nil => simp [hj] at hne
            | cons x xs => simp
      · simp at hs
    · simp at hs
  | csetpgid pid =>
    simp only [step] at hs
    split at hs
    · split at hs
      · simp only [Option.some.injEq] at hs; subst hs
        refine waitInv_procs h ?_ rfl
        rw [updProc_eq]
        refine noteOk_map (noteOk_ite ?_ _) h.notes
        intro q hq
        split <;> exact noteOk_congr hq rfl rfl rfl
      · simp at hs
    · simp at hs
  | exit pid code =>
    simp only [step] at hs
    split at hs
    · split at hs
      · simp only [Option.some.injEq] at hs; subst hs
        refine waitInv_procs h ?_ rfl
        intro p hp
        rw [updProc_eq, List.mem_map] at hp
        obtain ⟨q, hq, rfl⟩ := hp
        by_cases hqp : q.pid = pid
        · simp only [hqp, ↓reduceIte]
          intro e he
          simp only [Option.some.injEq] at he; subst he
          exact ⟨rfl, rfl⟩
        · simp only [hqp, ↓reduceIte]; exact h.notes q hq
      · simp at hs
    · simp at hs
  | signal pid sg =>
    simp only [step] at hs
    split at hs
    · split at hs
      · simp only [Option.some.injEq] at hs; subst hs
        refine waitInv_procs h ?_ rfl
        rw [updProc_eq]
        exact noteOk_map (noteOk_ite (fun q hq => sigProc_noteOk q sg hq) _) h.notes
      · simp at hs
    · simp at hs
  | ctrlC =>
    simp only [step, Option.some.injEq] at hs; subst hs
    refine waitInv_procs h ?_ rfl
    rw [sigGroup_eq]
    exact noteOk_map (noteOk_ite (fun q hq => sigProc_noteOk q .int hq) _) h.notes
  | ctrlZ =>
    simp only [step, Option.some.injEq] at hs; subst hs
    refine waitInv_procs h ?_ rfl
    rw [sigGroup_eq]
    exact noteOk_map (noteOk_ite (fun q hq => sigProc_noteOk q .tstp hq) _) h.notes
  | waitGet pid =>
    simp only [step] at hs
    split at hs
    · rename_i w hm
      have hlt := h.counter w hm
      unfold stepWaitGet at hs
      split at hs
      · simp at hs
      · split at hs
        · simp at hs
        · rename_i e he
          simp only [Option.some.injEq] at hs; subst hs
          have hn : ∀ p ∈ updProc s.procs pid consume, NoteOk p := by
            rw [updProc_eq]
            exact noteOk_map (noteOk_ite (fun q _ => consume_noteOk q) _) h.notes
          refine ⟨hn, ?_⟩
          intro w' hw'
          simp only at hw'
          split at hw'
          · simp at hw'
          · rename_i hcond
            simp only [Mode.waiting.injEq] at hw'; subst hw'
            simp only
            simp only [Bool.and_eq_true, Bool.not_eq_true', decide_eq_true_eq, not_and, Nat.not_le] at hcond
            by_cases hc : (waitEv s.sh w e).2.2.2 = false
            · exact hcond hc
            · -- a `continued` notification: the counter did not move
              have : (waitEv s.sh w e).2.2.1 = w.waited := by
                cases e with
                | continued p => simp [waitEv]
                | exited p x => exfalso; apply hc; simp only [waitEv]; split <;> rfl
                | killed p x => exfalso; apply hc; simp only [waitEv]; split <;> rfl
                | stopped p x => exfalso; apply hc; simp only [waitEv]; split <;> rfl
              rw [this]; exact hlt
    · simp at hs
  | waitEchild =>
    simp only [step] at hs
    split at hs
    · split at hs
      · simp only [Option.some.injEq] at hs; subst hs; exact waitInv_nowait h.notes (by intro w; simp)
      · simp at hs
    · simp at hs
  | handback =>
    simp only [step] at hs
    split at hs
    · simp only [Option.some.injEq] at hs; subst hs; exact waitInv_nowait h.notes (by intro w; simp)
    · simp only [Option.some.injEq] at hs; subst hs; exact waitInv_nowait h.notes (by intro w; simp)
    · simp at hs
  | poll =>
    simp only [step] at hs
    split at hs
    · simp only [Option.some.injEq] at hs; subst hs
      exact waitInv_nowait (pollR_notes true s h.notes) (by intro w; simp)
    · simp at hs

theorem waitInv_reachable {c : Cfg} {s : State} (h : Reachable c s) : WaitInv s := by
  induction h with
  | init p _ => exact ⟨by simp [init], by intro w hw; simp [init] at hw⟩
  | step a _ hs ih => exact waitInv_step ih hs

end Cicada.Term
