import Cicada.Lemmas.Tokenizer
/-!
Pass-is-identity lemmas: every expansion pass and the planning steps leave alone a token list made of
one plain program word followed by "inert" quoted tokens.
-/
namespace Cicada.PassLemmas
open Cicada Cicada.TokLemmas

/-- a token no pass may touch: single-quoted, or double-quoted without `$` and backquote -/
def Inert (t : Tok) : Prop := t.1 = ['\''] ∨ (t.1 = ['"'] ∧ ∀ c ∈ t.2, c ≠ '$' ∧ c ≠ '`')

theorem inert_sep_ne (t : Tok) (h : Inert t) : t.1 ≠ [] := by
  rcases h with h | ⟨h, _⟩ <;> simp [h]

/-! ### text-level gates are false on `$`-free / `` ` ``-free / `{`-free / `*`-free text -/

theorem reDollarSpecial_false (t : Str) (h : ∀ c ∈ t, c ≠ '$') : reDollarSpecial t = false := by
  induction t with
  | nil => rfl
  | cons c cs ih =>
    have hc := h c (by simp)
    simp [reDollarSpecial, hc, ih (fun x hx => h x (by simp [hx]))]

theorem reDollarName_false (t : Str) (h : ∀ c ∈ t, c ≠ '$') : reDollarName t = false := by
  induction t with
  | nil => rfl
  | cons c cs ih =>
    have hc := h c (by simp)
    simp [reDollarName, hc, ih (fun x hx => h x (by simp [hx]))]

theorem envInToken_false (t : Str) (h : ∀ c ∈ t, c ≠ '$') : envInToken t = false := by
  simp [envInToken, reDollarSpecial_false t h, reDollarName_false t h]

theorem reDollarParen_false (t : Str) (h : ∀ c ∈ t, c ≠ '$') : reDollarParen t = false := by
  induction t with
  | nil => rfl
  | cons c cs ih =>
    have hc := h c (by simp)
    simp [reDollarParen, hc, ih (fun x hx => h x (by simp [hx]))]

theorem shouldDoDollar_false (t : Str) (h : ∀ c ∈ t, c ≠ '$') : shouldDoDollar t = false := by
  simp [shouldDoDollar, reDollarParen_false t h]

theorem matchBackquote_none (t : Str) (h : ∀ c ∈ t, c ≠ '`') : matchBackquote t = none := by
  have : ∀ t : Str, (∀ c ∈ t, c ≠ '`') → t.dropWhile (fun x => !decide (x = '`')) = [] := by
    intro t
    induction t with
    | nil => intro _; rfl
    | cons c cs ih =>
      intro h
      have hc := h c (by simp)
      simp [List.dropWhile, hc, ih (fun x hx => h x (by simp [hx]))]
  have e := this t h
  simp only [matchBackquote, ne_eq, decide_not]
  rw [e]

theorem needExpandBrace_false (t : Str) (h : ∀ c ∈ t, c ≠ '{') : needExpandBrace t = false := by
  induction t with
  | nil => rfl
  | cons c cs ih =>
    have hc := h c (by simp)
    simp [needExpandBrace, hc, ih (fun x hx => h x (by simp [hx]))]

theorem findRange_none (t : Str) (h : ∀ c ∈ t, c ≠ '{') : findRange t = none := by
  have key : ∀ (t acc : Str), (∀ c ∈ t, c ≠ '{') → findRangeGo acc t = none := by
    intro t
    induction t with
    | nil => intro acc _; rfl
    | cons c cs ih =>
      intro acc h
      have hc := h c (by simp)
      simp [findRangeGo, hc, ih _ (fun x hx => h x (by simp [hx]))]
  exact key t [] h

/-! ### facts about a plain program word -/

theorem word_no (p : Str) (hp : p.all wordChar = true) (x : Char) (hx : wordChar x = false) : ∀ c ∈ p, c ≠ x := by
  intro c hc e
  subst e
  have := (List.all_eq_true.mp hp) c hc
  rw [hx] at this
  exact Bool.noConfusion this

/-- the token list the passes see: program word + inert tokens -/
def Shape (p : Str) (ts qs : List Tok) : Prop :=
  ts = ([], p) :: qs ∧ p.all wordChar = true ∧ p ≠ [] ∧ ∀ t ∈ qs, Inert t

/-! ### the passes -/

theorem expandAliasGo_false_inert (e : Env) (qs : List Tok) (h : ∀ t ∈ qs, t.1 ≠ []) :
    expandAliasGo e false qs = qs := by
  induction qs with
  | nil => rfl
  | cons t rest ih =>
    obtain ⟨sep, text⟩ := t
    have hne := h (sep, text) (by simp)
    simp only at hne
    simp [expandAliasGo, hne, ih (fun x hx => h x (by simp [hx]))]

theorem expandAlias_id (e : Env) (p : Str) (qs : List Tok) (h : ∀ t ∈ qs, t.1 ≠ [])
    (hp1 : p ≠ ['|']) (hp2 : p ≠ "xargs".toList) (hp3 : lookup e.aliases p = none) :
    expandAlias e (([], p) :: qs) = ([], p) :: qs := by
  have hp2' : ¬ p = ['x', 'a', 'r', 'g', 's'] := hp2
  simp [expandAlias, expandAliasGo, hp1, hp2', hp3, expandAliasGo_false_inert e qs h]

theorem map_inert_id (f : Tok → Tok) (qs : List Tok) (h : ∀ t ∈ qs, t.1 ≠ []) (hf : ∀ t, t.1 ≠ [] → f t = t) :
    qs.map f = qs := by
  induction qs with
  | nil => rfl
  | cons t rest ih =>
    simp [hf t (h t (by simp)), ih (fun x hx => h x (by simp [hx]))]

theorem expandHome_id (e : Env) (p : Str) (qs : List Tok) (h : ∀ t ∈ qs, t.1 ≠ []) (hp : p.head? ≠ some '~') :
    expandHome e (([], p) :: qs) = ([], p) :: qs := by
  simp only [expandHome, List.map_cons]
  congr 1
  · simp [hp]
  · exact map_inert_id _ qs h (by intro t ht; obtain ⟨a, b⟩ := t; simp at ht; simp [ht])

theorem expandEnv_id (e : Env) (p : Str) (qs : List Tok) (h : ∀ t ∈ qs, Inert t) (hp : ∀ c ∈ p, c ≠ '$') :
    expandEnv e (([], p) :: qs) = ([], p) :: qs := by
  simp only [expandEnv, List.map_cons]
  congr 1
  · simp [envInToken_false p hp]
  · induction qs with
    | nil => rfl
    | cons t rest ih =>
      obtain ⟨sep, text⟩ := t
      simp only [List.map_cons]
      congr 1
      · rcases h (sep, text) (by simp) with h1 | ⟨h1, h2⟩
        · simp only at h1; simp [h1]
        · simp only at h1 h2
          have := envInToken_false text (fun c hc => (h2 c hc).1)
          simp [h1, this]
      · exact ih (fun x hx => h x (by simp [hx]))

theorem expandBrace_id (p : Str) (qs : List Tok) (h : ∀ t ∈ qs, t.1 ≠ []) (hp : ∀ c ∈ p, c ≠ '{') :
    expandBrace (([], p) :: qs) = .ok (([], p) :: qs) := by
  have hq : expandBrace qs = .ok qs := by
    induction qs with
    | nil => rfl
    | cons t rest ih =>
      obtain ⟨sep, text⟩ := t
      have hne := h (sep, text) (by simp)
      simp only at hne
      simp [expandBrace, ih (fun x hx => h x (by simp [hx])), Outcome.bind, hne]
  simp [expandBrace, hq, Outcome.bind, needExpandBrace_false p hp]

theorem expandGlobGo_inert (e : Env) (qs : List Tok) (h : ∀ t ∈ qs, t.1 ≠ []) : expandGlobGo e qs = some qs := by
  induction qs with
  | nil => rfl
  | cons t rest ih =>
    obtain ⟨sep, text⟩ := t
    have hne := h (sep, text) (by simp)
    simp only at hne
    simp [expandGlobGo, globToken, hne, ih (fun x hx => h x (by simp [hx]))]

theorem expandGlob_id (e : Env) (p : Str) (qs : List Tok) (h : ∀ t ∈ qs, t.1 ≠ []) (hp : ∀ c ∈ p, c ≠ '*') :
    expandGlob e (([], p) :: qs) = ([], p) :: qs := by
  have : ¬ ('*' ∈ p) := fun hm => hp '*' hm rfl
  simp [expandGlob, expandGlobGo, globToken, this, expandGlobGo_inert e qs h]

theorem expandRangeGo_inert (qs : List Tok) (h : ∀ t ∈ qs, t.1 ≠ []) : expandRangeGo qs = some qs := by
  induction qs with
  | nil => rfl
  | cons t rest ih =>
    obtain ⟨sep, text⟩ := t
    have hne := h (sep, text) (by simp)
    simp only at hne
    simp [expandRangeGo, rangeToken, hne, ih (fun x hx => h x (by simp [hx]))]

theorem expandBraceRange_id (p : Str) (qs : List Tok) (h : ∀ t ∈ qs, t.1 ≠ []) (hp : ∀ c ∈ p, c ≠ '{') :
    expandBraceRange (([], p) :: qs) = ([], p) :: qs := by
  simp [expandBraceRange, expandRangeGo, rangeToken, findRange_none p hp, expandRangeGo_inert qs h]

end Cicada.PassLemmas

namespace Cicada.PassLemmas
open Cicada Cicada.TokLemmas

/-- tokens on which both substitution passes do nothing -/
def NoSubst (t : Tok) : Prop :=
  t.1 = ['\''] ∨ ((t.1 = ['"'] ∨ t.1 = []) ∧ matchBackquote t.2 = none ∧ shouldDoDollar t.2 = false)

theorem inert_noSubst (t : Tok) (h : Inert t) : NoSubst t := by
  rcases h with h | ⟨h1, h2⟩
  · exact Or.inl h
  · exact Or.inr ⟨Or.inl h1, matchBackquote_none _ (fun c hc => (h2 c hc).2), shouldDoDollar_false _ (fun c hc => (h2 c hc).1)⟩

theorem substDotGo_none (se : SubstEnv) (ts : List Tok) : ∀ (f idx : Nat), ts.length < f → (∀ t ∈ ts, NoSubst t) →
    substDotGo se f idx ts = .ok [] := by
  induction ts with
  | nil => intro f idx hf _; cases f with
    | zero => omega
    | succ f => rfl
  | cons t rest ih =>
    intro f idx hf h
    cases f with
    | zero => simp at hf
    | succ f =>
      obtain ⟨sep, tok⟩ := t
      have hrest := ih f (idx + 1) (by simp at hf; omega) (fun x hx => h x (by simp [hx]))
      rcases h (sep, tok) (by simp) with h1 | ⟨h1, hm, _⟩
      · simp only at h1
        subst h1
        simp [substDotGo, hrest]
      · simp only at h1 hm
        rcases h1 with h1 | h1 <;> subst h1 <;> simp [substDotGo, hm, hrest]

theorem substDollarGo_none (se : SubstEnv) (ts : List Tok) : ∀ (f idx : Nat), ts.length < f → (∀ t ∈ ts, NoSubst t) →
    substDollarGo se f idx ts = .ok (some []) := by
  induction ts with
  | nil => intro f idx hf _; cases f with
    | zero => omega
    | succ f => rfl
  | cons t rest ih =>
    intro f idx hf h
    cases f with
    | zero => simp at hf
    | succ f =>
      obtain ⟨sep, tok⟩ := t
      have hrest := ih f (idx + 1) (by simp at hf; omega) (fun x hx => h x (by simp [hx]))
      rcases h (sep, tok) (by simp) with h1 | ⟨_, _, hm⟩
      · simp only at h1
        subst h1
        simp [substDollarGo, hrest]
      · simp only at hm
        simp [substDollarGo, hm, hrest]

theorem joinWith_any_head (sep x : Str) (rest : List Str) (f : Char → Bool) (h : x.any f = true) :
    (joinWith sep (x :: rest)).any f = true := by
  cases rest with
  | nil => simpa [joinWith] using h
  | cons y ys => simp [joinWith, List.any_append, h]

/-- **the whole expansion is the identity** on a plain program word followed by inert tokens -/
theorem doExpansion_id (se : SubstEnv) (p : Str) (qs : List Tok) (f : Nat)
    (hw : p.all wordChar = true) (hl : p.any isAlphaA = true) (hq : ∀ t ∈ qs, Inert t)
    (ha : lookup se.env.aliases p = none) (hx : p ≠ "xargs".toList) (hf : qs.length + 2 < f) :
    doExpansion se f (([], p) :: qs) = .ok (([], p) :: qs) := by
  cases f with
  | zero => omega
  | succ f =>
    have n1 := word_no p hw '|' (by decide)
    have n2 := word_no p hw '~' (by decide)
    have n3 := word_no p hw '$' (by decide)
    have n4 := word_no p hw '{' (by decide)
    have n5 := word_no p hw '*' (by decide)
    have n6 := word_no p hw '`' (by decide)
    have hp1 : p ≠ ['|'] := by intro e; exact n1 '|' (by simp [e]) rfl
    have hph : p.head? ≠ some '~' := by
      cases p with
      | nil => simp
      | cons c cs => intro e; simp at e; exact n2 c (by simp) e
    have harith : isArithmetic (tokensToLine (([], p) :: qs)) = false := by
      apply any_alpha_not_arith
      simp only [tokensToLine, List.map_cons]
      apply joinWith_any_head
      simpa [tokenToText] using hl
    have hqs : ∀ t ∈ qs, t.1 ≠ [] := fun t ht => inert_sep_ne t (hq t ht)
    have hns : ∀ t ∈ ([], p) :: qs, NoSubst t := by
      intro t ht
      simp at ht
      rcases ht with rfl | ht
      · exact Or.inr ⟨Or.inr rfl, matchBackquote_none _ n6, shouldDoDollar_false _ n3⟩
      · exact inert_noSubst t (hq t ht)
    simp only [doExpansion, harith, Bool.false_eq_true, ↓reduceIte]
    split
    · rfl
    · rw [expandAlias_id se.env p qs hqs hp1 hx ha, expandHome_id se.env p qs hqs hph,
        expandEnv_id se.env p qs hq n3, expandBrace_id p qs hqs n4]
      simp only [Outcome.bind]
      rw [expandGlob_id se.env p qs hqs n5,
        substDotGo_none se _ f 0 (by simp; omega) hns]
      simp only [doExpansion.applyUpdates, List.foldl_nil]
      rw [substDollarGo_none se _ f 0 (by simp; omega) hns]
      simp only [doExpansion.applyUpdates, List.foldl_nil, expandBraceRange_id p qs hqs n4]

end Cicada.PassLemmas

namespace Cicada.PassLemmas
open Cicada Cicada.TokLemmas

/-- tokens that planning treats as plain argument words: quoted, or unquoted text free of `| < > & =`-operators -/
def ArgTok (t : Tok) : Prop :=
  t.1 ≠ [] ∨ (t.2 ≠ ['|'] ∧ t.2.head? ≠ some '<' ∧ t.2 ≠ ['&'] ∧ ∀ c ∈ t.2, c ≠ '>')

theorem ArgTok.ne_lt {t : Tok} (h : t.1 = []) (ha : ArgTok t) : t.2 ≠ ['<'] ∧ t.2 ≠ ['<', '<', '<'] := by
  rcases ha with h1 | ⟨_, h2, _, _⟩
  · exact absurd h h1
  · constructor <;> (intro e; rw [e] at h2; simp at h2)

/-- argument words are not touched by the pre-pass that splits `<file` / `<<<word` -/
theorem splitAttached_args : ∀ (ts : List Tok), (∀ t ∈ ts, ArgTok t) → splitAttached ts = ts := by
  intro ts
  induction ts with
  | nil => intro _; rfl
  | cons t rest ih =>
    intro h
    obtain ⟨sep, text⟩ := t
    have ht := h (sep, text) List.mem_cons_self
    have hr := ih (fun x hx => h x (List.mem_cons_of_mem _ hx))
    unfold splitAttached
    have hnot : ∀ k, sep = [] → text.take (k + 1) ≠ '<' :: List.replicate k '<' := by
      intro k hs e
      rcases ht with h1 | ⟨_, h2, _, _⟩
      · exact h1 hs
      · cases text with
        | nil => simp at e
        | cons c cs => simp at e h2; exact h2 e.1
    have c1 : ¬ (sep = [] ∧ text.length > 3 ∧ text.take 3 = ['<', '<', '<']) := fun ⟨a, _, b⟩ => hnot 2 a (by simpa using b)
    have c2 : ¬ (sep = [] ∧ text.length > 1 ∧ text.take 1 = ['<'] ∧ text.take 2 ≠ ['<', '<']) := fun ⟨a, _, b, _⟩ => hnot 0 a (by simpa using b)
    rw [if_neg c1, if_neg c2, hr]

theorem splitByPipesGo_noPipe (ts : List Tok) : ∀ (cmd : List Tok) (cmds : List (List Tok)),
    (∀ t ∈ ts, ¬ (t.1 = [] ∧ t.2 = ['|'])) →
    splitByPipesGo cmd ts cmds = if cmd ++ ts = [] then [] else cmds ++ [cmd ++ ts] := by
  induction ts with
  | nil => intro cmd cmds _; simp [splitByPipesGo]
  | cons t rest ih =>
    intro cmd cmds h
    obtain ⟨sep, v⟩ := t
    have h1 := h (sep, v) (by simp)
    simp only at h1
    simp only [splitByPipesGo, h1, ↓reduceIte]
    rw [ih _ _ (fun x hx => h x (by simp [hx]))]
    simp [List.append_assoc]

theorem redirGo_args (ts : List Tok) : ∀ (st : RState), st.cont = false → (∀ t ∈ ts, ArgTok t) →
    redirGo st ts = .ok { st with toks := st.toks ++ ts } := by
  induction ts with
  | nil => intro st _ _; simp [redirGo]
  | cons t rest ih =>
    intro st hc h
    obtain ⟨sep, word⟩ := t
    have hstep : redirStep st (sep, word) = .ok { st with toks := st.toks ++ [(sep, word)] } := by
      rcases h (sep, word) (by simp) with h1 | ⟨_, _, _, h5⟩
      · simp only at h1; simp [redirStep, h1, hc]
      · simp only at h5
        have : ¬ ('>' ∈ word) := fun hm => h5 '>' hm rfl
        by_cases hs : sep = []
        · simp [redirStep, hs, hc, this]
        · simp [redirStep, hs, hc]
    simp only [redirGo, hstep]
    rw [ih _ (by simpa using hc) (fun x hx => h x (by simp [hx]))]
    simp [List.append_assoc]

theorem tokensToRedirections_args (ts : List Tok) (h : ∀ t ∈ ts, ArgTok t) :
    tokensToRedirections ts = .ok (ts, []) := by
  simp [tokensToRedirections, redirGo_args ts {} rfl h]

theorem fromLoop_args (ts : List Tok) (n : Nat) (h : ∀ t ∈ ts, ArgTok t) :
    fromLoop n (ts, [], []) = (ts, [], []) := by
  cases n with
  | zero => rfl
  | succ n =>
    have : ts.any (fun x => x.1 = [] ∧ (x.2 = ['<'] ∨ x.2 = ['<', '<', '<'])) = false := by
      simp only [List.any_eq_false, decide_eq_true_eq]
      intro x hx ⟨h1, h2⟩
      have := ArgTok.ne_lt h1 (h x hx)
      rcases h2 with h2 | h2
      · exact this.1 h2
      · exact this.2 h2
    simp only [fromLoop]
    rw [this]
    simp

theorem fromTokens_args (ts : List Tok) (hne : ts ≠ []) (h : ∀ t ∈ ts, ArgTok t) :
    fromTokens ts = .ok { tokens := ts, redirectsTo := [], redirectFrom := none } := by
  simp [fromTokens, splitAttached_args ts h, fromLoop_args ts _ h, tokensToRedirections_args ts h, hne]

theorem reEnvAssign_none (p : Str) (h : ∀ c ∈ p, c ≠ '=') : reEnvAssign p = none := by
  have key : ∀ p : Str, (∀ c ∈ p, c ≠ '=') → ∀ v, p.dropWhile isNameChar ≠ '=' :: v := by
    intro p
    induction p with
    | nil => intro _ v; simp
    | cons c cs ih =>
      intro h v
      simp only [List.dropWhile]
      split
      · exact ih (fun x hx => h x (by simp [hx])) v
      · intro e; simp at e; exact h c (by simp) e.1
  unfold reEnvAssign
  split
  · rename_i v hv; exact absurd hv (key p h v)
  · rfl

/-- planning a program word followed by argument tokens: one stage, its argv is the token texts -/
theorem planOfTokens_args (p : Str) (qs : List Tok) (hp : ∀ c ∈ p, c ≠ '=') (hpa : ArgTok ([], p))
    (hq : ∀ t ∈ qs, ArgTok t) (hlast : (([], p) :: qs).length > 1 → (([], p) :: qs).getLast? ≠ some ([], ['&'])) :
    planOfTokens (([], p) :: qs) =
      .ok { commands := [{ tokens := ([], p) :: qs, redirectsTo := [], redirectFrom := none }], envs := [], background := false } := by
  have hall : ∀ t ∈ ([], p) :: qs, ArgTok t := by
    intro t ht; simp at ht; rcases ht with rfl | ht
    · exact hpa
    · exact hq t ht
  have hnp : ∀ t ∈ ([], p) :: qs, ¬ (t.1 = [] ∧ t.2 = ['|']) := by
    intro t ht ⟨h1, h2⟩
    rcases hall t ht with h3 | ⟨h3, _⟩
    · exact h3 h1
    · exact h3 h2
  have hbg : ¬ ((([], p) :: qs).length > 1 ∧ (([], p) :: qs).getLast? = some ([], ['&'])) := by
    intro ⟨h1, h2⟩; exact hlast h1 h2
  have hdrain : drainEnvTokens (([], p) :: qs) = ([], ([], p) :: qs) := by
    simp [drainEnvTokens, reEnvAssign_none p hp]
  unfold planOfTokens
  rw [hdrain]
  simp only
  rw [if_neg hbg]
  simp only [splitByPipes, splitByPipesGo_noPipe _ [] [] hnp]
  simp [fromTokensAll, fromTokens_args _ (by simp) hall]

end Cicada.PassLemmas
