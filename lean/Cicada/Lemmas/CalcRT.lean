import Cicada.Lemmas.Pratt
/-! Character-level lemmas for the calculator PEG (`Model/Calc.lean`): decimal literals (`showInt` is an `int`
text, `pNum` reads it back, `evalTerm` gives its saturated value), a renderer for the parser's own tree type
(`Term / Flat / Tail`) with a layout of blanks, the round trip `pExpr f (rFlat L e ++ rest) = some (e, rest)` for
every fuel `f ≥ needFlat e`, the bound `needFlat e ≤ length + 1`, `calculate_render`, and totality of the Pratt
loop within `length + 1` steps (`loop_total`, `pratt_flat`). -/
namespace Cicada.Calc
open Cicada

/-! ## decimal literals -/

theorem digitChar_facts : ∀ d : Fin 10, isDigitA (Nat.digitChar d.val) = true ∧ (Nat.digitChar d.val).toNat - 48 = d.val := by
  decide

theorem digitChar_digit {d : Nat} (h : d < 10) : isDigitA (Nat.digitChar d) = true := (digitChar_facts ⟨d, h⟩).1
theorem digitChar_val {d : Nat} (h : d < 10) : (Nat.digitChar d).toNat - 48 = d := (digitChar_facts ⟨d, h⟩).2

def digVal (ds : Str) : Nat := ds.foldl (fun a c => a * 10 + (c.toNat - 48)) 0

theorem toDigits_step (n : Nat) (h : 10 ≤ n) : Nat.toDigits 10 n = Nat.toDigits 10 (n / 10) ++ [Nat.digitChar (n % 10)] := by
  have h0 : 0 < n / 10 := by omega
  have h2 : n % 10 < 10 := by omega
  have := @Nat.toDigits_append_toDigits 10 (n / 10) (n % 10) (by omega) h0 h2
  rw [Nat.div_add_mod] at this
  rw [← this, Nat.toDigits_of_lt_base h2]

theorem toDigits_spec (n : Nat) : Nat.toDigits 10 n ≠ [] ∧ (Nat.toDigits 10 n).all isDigitA = true ∧ digVal (Nat.toDigits 10 n) = n := by
  induction n using Nat.strongRecOn with
  | _ n ih =>
    by_cases h : n < 10
    · rw [Nat.toDigits_of_lt_base h]
      simp [digVal, digitChar_digit h, digitChar_val h]
    · obtain ⟨a, b, c⟩ := ih (n / 10) (by omega)
      rw [toDigits_step n (by omega)]
      refine ⟨by simp, ?_, ?_⟩
      · simp [b, digitChar_digit (Nat.mod_lt n (by omega : 0 < 10))]
      · unfold digVal at c ⊢
        rw [List.foldl_append, c]
        simp [digitChar_val (Nat.mod_lt n (by omega : 0 < 10))]
        omega

theorem showInt_ofNat (n : Nat) : showInt (n : Int) = Nat.toDigits 10 n := by
  show (toString (Int.ofNat n)).toList = _
  simp [toString, Int.repr, Nat.repr]

theorem showInt_negSucc (n : Nat) : showInt (Int.negSucc n) = '-' :: Nat.toDigits 10 (n + 1) := by
  show (toString (Int.negSucc n)).toList = _
  simp [toString, Int.repr, Nat.repr]


/-- a non-empty run of ASCII digits -/
def isDigs (ds : Str) : Bool := !ds.isEmpty && ds.all isDigitA
/-- the text of the grammar's `int`: optional sign, then digits -/
def isLit : Str → Bool
  | c :: ds => if c = '-' ∨ c = '+' then isDigs ds else isDigs (c :: ds)
  | [] => false
/-- the next character does not extend a number (`num` is atomic and greedy) -/
def noExt : Str → Bool
  | [] => true
  | c :: _ => !(isDigitA c || c = '.' || c = 'e' || c = 'E')

theorem takeDigits (ds rest : Str) (h : ds.all isDigitA = true) (hr : noExt rest = true) :
    (ds ++ rest).takeWhile isDigitA = ds ∧ (ds ++ rest).dropWhile isDigitA = rest := by
  induction ds with
  | nil =>
    cases rest with
    | nil => simp
    | cons c r =>
      simp only [noExt, Bool.not_eq_true', Bool.or_eq_false_iff] at hr
      simp [hr.1.1.1]
  | cons d ds ih =>
    simp only [List.all_cons, Bool.and_eq_true] at h
    simp [h.1, ih h.2]

theorem digit_not_sign {c : Char} (h : isDigitA c = true) : c ≠ '-' ∧ c ≠ '+' ∧ c ≠ '(' ∧ isWsC c = false := by
  refine ⟨?_, ?_, ?_, ?_⟩ <;> (try intro e; subst e; revert h; decide)
  unfold isWsC
  have : c ≠ ' ' := by intro e; subst e; revert h; decide
  have : c ≠ '\t' := by intro e; subst e; revert h; decide
  simp [*]

theorem pInt_minus (r : Str) : pInt ('-' :: r) =
    if r.takeWhile isDigitA = [] then none else some ('-' :: r.takeWhile isDigitA, r.dropWhile isDigitA) := by
  simp [pInt]
theorem pInt_plus (r : Str) : pInt ('+' :: r) =
    if r.takeWhile isDigitA = [] then none else some ('+' :: r.takeWhile isDigitA, r.dropWhile isDigitA) := by
  simp [pInt]
theorem pInt_other (c : Char) (r : Str) (h1 : c ≠ '-') (h2 : c ≠ '+') : pInt (c :: r) =
    if (c :: r).takeWhile isDigitA = [] then none else some ((c :: r).takeWhile isDigitA, (c :: r).dropWhile isDigitA) := by
  unfold pInt
  split
  rename_i sgn r' heq
  split at heq
  · rename_i heq2; simp at heq2; exact absurd heq2.1 h2
  · rename_i heq2; simp at heq2; exact absurd heq2.1 h1
  · simp at heq; obtain ⟨rfl, rfl⟩ := heq; simp

theorem pInt_digs (ds rest : Str) (h : isDigs ds = true) (hr : noExt rest = true) :
    pInt (ds ++ rest) = some (ds, rest) := by
  simp only [isDigs, Bool.and_eq_true, Bool.not_eq_true', List.isEmpty_eq_false_iff] at h
  obtain ⟨t1, t2⟩ := takeDigits ds rest h.2 hr
  cases ds with
  | nil => exact absurd rfl h.1
  | cons d ds =>
    have hd : isDigitA d = true := by have := h.2; simp at this; exact this.1
    obtain ⟨n1, n2, _⟩ := digit_not_sign hd
    rw [List.cons_append, pInt_other d _ n1 n2, ← List.cons_append, t1, t2]
    simp

theorem pInt_lit (s rest : Str) (h : isLit s = true) (hr : noExt rest = true) :
    pInt (s ++ rest) = some (s, rest) := by
  cases s with
  | nil => simp [isLit] at h
  | cons c ds =>
    simp only [isLit] at h
    split at h
    · rename_i hc
      have h' := h
      simp only [isDigs, Bool.and_eq_true, Bool.not_eq_true', List.isEmpty_eq_false_iff] at h'
      obtain ⟨t1, t2⟩ := takeDigits ds rest h'.2 hr
      rcases hc with rfl | rfl
      · rw [List.cons_append, pInt_minus, t1, t2]; simp [h'.1]
      · rw [List.cons_append, pInt_plus, t1, t2]; simp [h'.1]
    · exact pInt_digs _ _ h hr

theorem pNum_lit (s rest : Str) (h : isLit s = true) (hr : noExt rest = true) :
    pNum (s ++ rest) = some (s, rest) := by
  unfold pNum
  rw [pInt_lit s rest h hr]
  cases rest with
  | nil => simp
  | cons c r =>
    simp only [noExt, Bool.not_eq_true', Bool.or_eq_false_iff, decide_eq_false_iff_not] at hr
    obtain ⟨⟨⟨_, h2⟩, h3⟩, h4⟩ := hr
    simp [h2, h3, h4]

theorem pNum_paren (r : Str) : pNum ('(' :: r) = none := by
  unfold pNum
  rw [pInt_other _ _ (by decide) (by decide)]
  simp [show isDigitA '(' = false by decide]

/-! ## rendering the parser's own output type, with a layout -/

/-- where blanks go: before / after an operator, after `(`, before `)` -/
structure Layout where
  pre : Str := []
  post : Str := []
  inOpen : Str := []
  inClose : Str := []

def allWs (s : Str) : Bool := s.all isWsC
def Layout.ok (L : Layout) : Bool := allWs L.pre && allWs L.post && allWs L.inOpen && allWs L.inClose

mutual
def rTerm (L : Layout) : Term → Str
  | .num s => s
  | .paren f => '(' :: (L.inOpen ++ (rFlat L f ++ (L.inClose ++ [')'])))
def rFlat (L : Layout) : Flat → Str
  | .mk t tl => rTerm L t ++ rTail L tl
def rTail (L : Layout) : Tail → Str
  | .nil => []
  | .cons o t tl => L.pre ++ (o.char :: (L.post ++ (rTerm L t ++ rTail L tl)))
end

mutual
/-- every literal is the text of an `int` -/
def okTerm : Term → Bool
  | .num s => isLit s
  | .paren f => okFlat f
def okFlat : Flat → Bool
  | .mk t tl => okTerm t && okTail tl
def okTail : Tail → Bool
  | .nil => true
  | .cons _ t tl => okTerm t && okTail tl
end

mutual
/-- fuel the recursive-descent parser needs -/
def needTerm : Term → Nat
  | .num _ => 1
  | .paren f => needFlat f + 1
def needFlat : Flat → Nat
  | .mk t tl => max (needTerm t) (needTail tl) + 1
def needTail : Tail → Nat
  | .nil => 0
  | .cons _ t tl => max (needTerm t) (needTail tl) + 1
end

/-- what may follow an `expr`: blanks, then the end or `)` -/
def stopOK (rest : Str) : Bool :=
  match skip rest with
  | [] => true
  | c :: _ => c = ')'

theorem skip_ws (pad s : Str) (h : allWs pad = true) : skip (pad ++ s) = skip s := by
  induction pad with
  | nil => rfl
  | cons c p ih =>
    simp only [allWs, List.all_cons, Bool.and_eq_true] at h
    simp only [skip, List.cons_append, List.dropWhile_cons, h.1, if_true]
    exact ih h.2

theorem skip_nonws (c : Char) (s : Str) (h : isWsC c = false) : skip (c :: s) = c :: s := by
  simp [skip, h]

def extCh (c : Char) : Bool := isDigitA c || c = '.' || c = 'e' || c = 'E'
theorem noExt_cons (c : Char) (s : Str) (h : extCh c = false) : noExt (c :: s) = true := by
  simp only [noExt]; unfold extCh at h; simp [h]

theorem opChar_facts (o : Op) (s : Str) : Op.ofChar o.char = some o ∧ isWsC o.char = false ∧ noExt (o.char :: s) = true := by
  cases o <;> exact ⟨rfl, by decide, noExt_cons _ _ (by decide)⟩

theorem ws_noExt (c : Char) (s : Str) (h : isWsC c = true) : noExt (c :: s) = true := by
  simp only [isWsC, Bool.or_eq_true, decide_eq_true_eq] at h
  rcases h with rfl | rfl <;> exact noExt_cons _ _ (by decide)

theorem stopOK_noExt (rest : Str) (h : stopOK rest = true) : noExt rest = true := by
  cases rest with
  | nil => rfl
  | cons c r =>
    by_cases hc : isWsC c = true
    · exact ws_noExt c r hc
    · simp only [Bool.not_eq_true] at hc
      simp only [stopOK, skip_nonws c r hc, decide_eq_true_eq] at h
      subst h; exact noExt_cons _ _ (by decide)

theorem pad_noExt (pad s : Str) (hp : allWs pad = true) (hs : noExt s = true) : noExt (pad ++ s) = true := by
  cases pad with
  | nil => exact hs
  | cons c p =>
    simp only [allWs, List.all_cons, Bool.and_eq_true] at hp
    exact ws_noExt c _ hp.1

/-- a rendered term starts with a character that is not a blank -/
theorem rTerm_head (L : Layout) (t : Term) (h : okTerm t = true) (x : Str) :
    ∃ c r, rTerm L t ++ x = c :: r ∧ isWsC c = false := by
  cases t with
  | paren f => exact ⟨'(', _, by simp only [rTerm, List.cons_append]; rfl, by decide⟩
  | num s =>
    cases s with
    | nil => simp [okTerm, isLit] at h
    | cons c ds =>
      refine ⟨c, ds ++ x, by simp [rTerm], ?_⟩
      simp only [okTerm, isLit] at h
      split at h
      · rename_i hc; rcases hc with rfl | rfl <;> decide
      · simp only [isDigs, List.all_cons, Bool.and_eq_true] at h
        exact (digit_not_sign h.2.1).2.2.2

theorem skip_rTerm (L : Layout) (t : Term) (h : okTerm t = true) (pad x : Str) (hp : allWs pad = true) :
    skip (pad ++ (rTerm L t ++ x)) = rTerm L t ++ x := by
  obtain ⟨c, r, e, hc⟩ := rTerm_head L t h x
  rw [skip_ws _ _ hp, e, skip_nonws c r hc]

theorem pTail_stop (f : Nat) (rest : Str) (h : stopOK rest = true) : pTail f rest = (.nil, rest) := by
  cases f with
  | zero => simp [pTail]
  | succ f =>
    unfold pTail
    unfold stopOK at h
    split
    · rename_i c r heq
      rw [heq] at h
      simp only [decide_eq_true_eq] at h
      subst h; rfl
    · rfl

theorem rTail_noExt (L : Layout) (hL : L.ok = true) (tl : Tail) (rest : Str) (hr : stopOK rest = true) :
    noExt (rTail L tl ++ rest) = true := by
  simp only [Layout.ok, Bool.and_eq_true] at hL
  cases tl with
  | nil => simpa [rTail] using stopOK_noExt rest hr
  | cons o t tl =>
    simp only [rTail, List.append_assoc, List.cons_append]
    exact pad_noExt _ _ hL.1.1.1 (opChar_facts o _).2.2

/-! ## the PEG round trip on the parser's output type -/

mutual
theorem pTerm_render (L : Layout) (hL : L.ok = true) : ∀ (t : Term) (f : Nat) (rest : Str),
    okTerm t = true → needTerm t ≤ f → noExt rest = true → pTerm f (rTerm L t ++ rest) = some (t, rest)
  | .num s, f, rest, hok, hf, hr => by
    simp only [needTerm] at hf
    obtain ⟨f, rfl⟩ : ∃ g, f = g + 1 := ⟨f - 1, by omega⟩
    simp only [okTerm] at hok
    simp only [rTerm, pTerm, pNum_lit s rest hok hr]
  | .paren e, f, rest, hok, hf, hr => by
    simp only [needTerm] at hf
    obtain ⟨f, rfl⟩ : ∃ g, f = g + 1 := ⟨f - 1, by omega⟩
    simp only [okTerm] at hok
    have hL' := hL
    simp only [Layout.ok, Bool.and_eq_true] at hL'
    have hstop : stopOK (L.inClose ++ ')' :: rest) = true := by
      simp [stopOK, skip_ws _ _ hL'.2, skip_nonws ')' rest (by decide)]
    have ih := pExpr_render L hL e f (L.inClose ++ ')' :: rest) hok (by omega) hstop
    have hsk : skip (L.inOpen ++ (rFlat L e ++ (L.inClose ++ ')' :: rest))) = rFlat L e ++ (L.inClose ++ ')' :: rest) := by
      cases e with
      | mk t tl =>
        simp only [okFlat, Bool.and_eq_true] at hok
        simp only [rFlat, List.append_assoc]
        exact skip_rTerm L t hok.1 _ _ hL'.1.2
    simp only [rTerm, List.cons_append, List.append_assoc, List.nil_append, pTerm, pNum_paren, hsk, ih,
      skip_ws _ _ hL'.2, skip_nonws ')' rest (by decide)]
theorem pExpr_render (L : Layout) (hL : L.ok = true) : ∀ (e : Flat) (f : Nat) (rest : Str),
    okFlat e = true → needFlat e ≤ f → stopOK rest = true → pExpr f (rFlat L e ++ rest) = some (e, rest)
  | .mk t tl, f, rest, hok, hf, hr => by
    simp only [needFlat] at hf
    obtain ⟨f, rfl⟩ : ∃ g, f = g + 1 := ⟨f - 1, by omega⟩
    simp only [okFlat, Bool.and_eq_true] at hok
    have h1 := pTerm_render L hL t f (rTail L tl ++ rest) hok.1 (by omega) (rTail_noExt L hL tl rest hr)
    have h2 := pTail_render L hL tl f rest hok.2 (by omega) hr
    simp only [rFlat, List.append_assoc, pExpr, h1, h2]
theorem pTail_render (L : Layout) (hL : L.ok = true) : ∀ (tl : Tail) (f : Nat) (rest : Str),
    okTail tl = true → needTail tl ≤ f → stopOK rest = true → pTail f (rTail L tl ++ rest) = (tl, rest)
  | .nil, f, rest, _, _, hr => by
    simpa [rTail] using pTail_stop f rest hr
  | .cons o t tl, f, rest, hok, hf, hr => by
    simp only [needTail] at hf
    obtain ⟨f, rfl⟩ : ∃ g, f = g + 1 := ⟨f - 1, by omega⟩
    simp only [okTail, Bool.and_eq_true] at hok
    have hL' := hL
    simp only [Layout.ok, Bool.and_eq_true] at hL'
    have h1 := pTerm_render L hL t f (rTail L tl ++ rest) hok.1 (by omega) (rTail_noExt L hL tl rest hr)
    have h2 := pTail_render L hL tl f rest hok.2 (by omega) hr
    obtain ⟨o1, o2, _⟩ := opChar_facts o []
    simp only [rTail, List.append_assoc, List.cons_append, pTail, skip_ws _ _ hL'.1.1.1, skip_nonws _ _ o2, o1,
      skip_rTerm L t hok.1 _ _ hL'.1.1.2, h1, h2]
end

/-! ## the fuel of `calculate` (twice the length plus two) is enough -/

theorem isLit_length (s : Str) (h : isLit s = true) : 1 ≤ s.length := by
  cases s with
  | nil => simp [isLit] at h
  | cons c ds => simp

mutual
theorem needTerm_le (L : Layout) : ∀ t : Term, okTerm t = true → needTerm t ≤ (rTerm L t).length
  | .num s, h => by simpa [needTerm, rTerm] using isLit_length s (by simpa [okTerm] using h)
  | .paren e, h => by
    have := needFlat_le L e (by simpa [okTerm] using h)
    simp only [needTerm, rTerm, List.length_cons, List.length_append, List.length_nil]; omega
theorem needFlat_le (L : Layout) : ∀ e : Flat, okFlat e = true → needFlat e ≤ (rFlat L e).length + 1
  | .mk t tl, h => by
    simp only [okFlat, Bool.and_eq_true] at h
    have := needTerm_le L t h.1
    have := needTail_le L tl h.2
    simp only [needFlat, rFlat, List.length_append]; omega
theorem needTail_le (L : Layout) : ∀ tl : Tail, okTail tl = true → needTail tl ≤ (rTail L tl).length
  | .nil, _ => by simp [needTail]
  | .cons o t tl, h => by
    simp only [okTail, Bool.and_eq_true] at h
    have := needTerm_le L t h.1
    have := needTail_le L tl h.2
    simp only [needTail, rTail, List.length_cons, List.length_append]; omega
end

theorem stopOK_ws (trail : Str) (h : allWs trail = true) : stopOK trail = true ∧ skip trail = [] := by
  have : skip trail = [] := by have := skip_ws trail [] h; simpa [skip] using this
  simp [stopOK, this]

/-- **PEG round trip, whole line**: any rendering of a parser tree whose literals are `int` texts, with any
blanks (spaces / tabs) at the four places of the layout and around the line, is parsed back by `calculate`
(the model's parser with its own fuel, twice the length plus two) to exactly that tree -/
theorem calculate_render (L : Layout) (hL : L.ok = true) (e : Flat) (he : okFlat e = true)
    (lead trail : Str) (hl : allWs lead = true) (ht : allWs trail = true) :
    calculate (lead ++ (rFlat L e ++ trail)) = some e := by
  obtain ⟨s1, s2⟩ := stopOK_ws trail ht
  have hsk : skip (lead ++ (rFlat L e ++ trail)) = rFlat L e ++ trail := by
    cases e with
    | mk t tl =>
      simp only [okFlat, Bool.and_eq_true] at he
      simp only [rFlat, List.append_assoc]
      exact skip_rTerm L t he.1 _ _ hl
  have hfuel : needFlat e ≤ 2 * (lead ++ (rFlat L e ++ trail)).length + 2 := by
    have := needFlat_le L e he
    simp only [List.length_append]; omega
  unfold calculate
  rw [hsk, pExpr_render L hL e _ trail he hfuel s1]
  simp [s2]

/-! ## the Pratt loop answers within `length + 1` steps of fuel -/

theorem loop_total {α : Type} : ∀ (f : Nat) (lhs : E α) (rbp : Nat) (rest : List (Op × α)), rest.length < f →
    ∃ r, loop f lhs rbp rest = some r ∧ r.2.length ≤ rest.length := by
  intro f
  induction f with
  | zero => intro _ _ _ h; omega
  | succ f ih =>
    intro lhs rbp rest h
    cases rest with
    | nil => exact ⟨(lhs, []), by simp [loop], by simp⟩
    | cons p rest =>
      obtain ⟨o, a⟩ := p
      simp only [List.length_cons] at h
      by_cases hp : rbp < prec o
      · obtain ⟨r1, e1, l1⟩ := ih (.atom a) (rbpOf o) rest (by omega)
        obtain ⟨r2, e2, l2⟩ := ih (.bin o lhs r1.1) rbp r1.2 (by omega)
        refine ⟨r2, ?_, by simp only [List.length_cons]; omega⟩
        simp only [loop, hp, if_true, e1, e2]
      · exact ⟨(lhs, (o, a) :: rest), by simp [loop, hp], by simp⟩

/-- the model's `pratt` (fuel `2·length + 2`) returns the tree for every flat form of a parenthesis-free tree -/
theorem pratt_flat {α : Type} (e : E α) (h : WF e) : pratt (hd e) (tl e) = some e := by
  obtain ⟨r, hr, _⟩ := loop_total (2 * (tl e).length + 2) (.atom (hd e)) 0 (tl e) (by omega)
  obtain ⟨g, hg⟩ := pratt_roundtrip e h
  have a := loop_mono' _ (max (2 * (tl e).length + 2) g) (Nat.le_max_left _ _) _ _ _ _ hr
  have b := loop_mono' _ (max (2 * (tl e).length + 2) g) (Nat.le_max_right _ _) _ _ _ _ hg
  rw [a] at b
  have : r = (e, []) := Option.some.inj b
  simp [pratt, hr, this]

/-! ## integer literals: `showInt` is an `int` text and is read back -/

theorem isDigs_head {ds : Str} (h : isDigs ds = true) : ∃ d r, ds = d :: r ∧ isDigitA d = true ∧ r.all isDigitA = true := by
  cases ds with
  | nil => simp [isDigs] at h
  | cons d r => simp only [isDigs, List.all_cons, Bool.and_eq_true] at h; exact ⟨d, r, rfl, h.2.1, h.2.2⟩

theorem isDigs_toDigits (n : Nat) : isDigs (Nat.toDigits 10 n) = true := by
  obtain ⟨a, b, _⟩ := toDigits_spec n
  simp [isDigs, b, a]

theorem parseI64_digs (ds : Str) (h : isDigs ds = true) :
    parseI64 ds = if i64Min ≤ (digVal ds : Int) ∧ (digVal ds : Int) ≤ i64Max then some (digVal ds : Int) else none := by
  obtain ⟨d, r, rfl, hd, hr⟩ := isDigs_head h
  obtain ⟨n1, n2, _⟩ := digit_not_sign hd
  unfold parseI64
  split
  rename_i neg ds' heq
  split at heq
  · rename_i heq2; simp at heq2; exact absurd heq2.1 n1
  · rename_i heq2; simp at heq2; exact absurd heq2.1 n2
  · simp only [Prod.mk.injEq] at heq
    obtain ⟨rfl, rfl⟩ := heq
    simp [hd, hr, digVal]

theorem parseI64_neg (ds : Str) (h : isDigs ds = true) :
    parseI64 ('-' :: ds) = if i64Min ≤ -(digVal ds : Int) ∧ -(digVal ds : Int) ≤ i64Max then some (-(digVal ds : Int)) else none := by
  obtain ⟨d, r, rfl, hd, hr⟩ := isDigs_head h
  simp [parseI64, hd, hr, digVal]

/-- the value `eval_int` gives a literal: itself in the 64-bit range, saturated outside it -/
def satLit (z : Int) : Int := if i64Min ≤ z ∧ z ≤ i64Max then z else if z < 0 then i64Min else i64Max

theorem isLit_showInt (z : Int) : isLit (showInt z) = true := by
  cases z with
  | ofNat n =>
    have h := isDigs_toDigits n
    obtain ⟨d, r, e, hd, hr⟩ := isDigs_head h
    obtain ⟨n1, n2, _⟩ := digit_not_sign hd
    show isLit (showInt (n : Int)) = true
    rw [showInt_ofNat]
    rw [e] at h ⊢
    simp only [isLit, n1, n2, or_self, if_false]
    exact h
  | negSucc n =>
    rw [showInt_negSucc]
    simp only [isLit, true_or, if_true, isDigs_toDigits]

theorem evalTerm_showInt (z : Int) : evalTerm (.num (showInt z)) = .ok (satLit z) := by
  cases z with
  | ofNat n =>
    have h := isDigs_toDigits n
    obtain ⟨_, hall, hv⟩ := toDigits_spec n
    obtain ⟨d, r, e, hd, hr⟩ := isDigs_head h
    obtain ⟨n1, n2, _⟩ := digit_not_sign hd
    show evalTerm (.num (showInt (n : Int))) = .ok (satLit (n : Int))
    have hmin : i64Min ≤ (n : Int) := by unfold i64Min; omega
    rw [showInt_ofNat]
    simp only [evalTerm, parseI64_digs _ h, hv, satLit, hmin, true_and]
    by_cases hmax : (n : Int) ≤ i64Max
    · simp [hmax]
    · have : ¬ ((n : Int) < 0) := by omega
      simp only [hmax, if_false, this]
      rw [e] at hall ⊢
      simp [n1, n2, hall]
  | negSucc n =>
    have hz : Int.negSucc n = -((n + 1 : Nat) : Int) := by omega
    rw [showInt_negSucc, hz]
    generalize n + 1 = m
    have h := isDigs_toDigits m
    obtain ⟨_, hall, hv⟩ := toDigits_spec m
    have hmax : -(m : Int) ≤ i64Max := by unfold i64Max; omega
    simp only [evalTerm, parseI64_neg _ h, hv, satLit, hmax, and_true]
    by_cases hmin : i64Min ≤ -(m : Int)
    · simp only [hmin, if_true]
    · have : -(m : Int) < 0 := by unfold i64Min at hmin; omega
      have hm0 : m ≠ 0 := by omega
      simp [hmin, hm0, hall]

/-- the integer a literal text denotes -/
def litVal : Str → Int
  | c :: ds => if c = '-' then -(digVal ds : Int) else if c = '+' then (digVal ds : Int) else (digVal (c :: ds) : Int)
  | [] => 0

theorem litVal_showInt (z : Int) : litVal (showInt z) = z := by
  cases z with
  | ofNat n =>
    obtain ⟨_, _, hv⟩ := toDigits_spec n
    obtain ⟨d, r, e, hd, hr⟩ := isDigs_head (isDigs_toDigits n)
    obtain ⟨n1, n2, _⟩ := digit_not_sign hd
    show litVal (showInt (n : Int)) = (n : Int)
    rw [showInt_ofNat]
    rw [e] at hv ⊢
    simp only [litVal, n1, n2, if_false, hv]
  | negSucc n =>
    obtain ⟨_, _, hv⟩ := toDigits_spec (n + 1)
    rw [showInt_negSucc]
    simp only [litVal, if_true, hv]
    omega

/-- every `int` text evaluates to its value, saturated to 64 bits -/
theorem evalTerm_lit (s : Str) (h : isLit s = true) : evalTerm (.num s) = .ok (satLit (litVal s)) := by
  cases s with
  | nil => simp [isLit] at h
  | cons c ds =>
    simp only [isLit] at h
    by_cases hm : c = '-'
    · subst hm
      simp only [true_or, if_true] at h
      obtain ⟨d, r, rfl, hd, hr⟩ := isDigs_head h
      have hmax : -(digVal (d :: r) : Int) ≤ i64Max := by unfold i64Max; omega
      simp only [evalTerm, parseI64_neg _ h, satLit, litVal, if_true, hmax, and_true]
      by_cases hmin : i64Min ≤ -(digVal (d :: r) : Int)
      · simp only [hmin, if_true]
      · have h0 : digVal (d :: r) ≠ 0 := by unfold i64Min at hmin; omega
        simp [hmin, h0, hd, hr]
    · by_cases hp : c = '+'
      · subst hp
        simp only [or_true, if_true] at h
        obtain ⟨d, r, rfl, hd, hr⟩ := isDigs_head h
        have hmin : i64Min ≤ (digVal (d :: r) : Int) := by unfold i64Min; omega
        have e : parseI64 ('+' :: d :: r) = parseI64 (d :: r) := by
          obtain ⟨n1, n2, _⟩ := digit_not_sign hd
          rw [parseI64_digs _ h]
          simp [parseI64, hd, hr, digVal]
        simp only [evalTerm, e, parseI64_digs _ h, satLit, litVal, hm, if_false, if_true, hmin, true_and]
        by_cases hmax : (digVal (d :: r) : Int) ≤ i64Max
        · simp only [hmax, if_true]
        · have : ¬ ((digVal (d :: r) : Int) < 0) := by omega
          simp [hmax, this, hd, hr]
      · simp only [hm, hp, or_self, if_false] at h
        obtain ⟨d, r, e, hd, hr⟩ := isDigs_head h
        have hmin : i64Min ≤ (digVal (c :: ds) : Int) := by unfold i64Min; omega
        simp only [evalTerm, parseI64_digs _ h, satLit, litVal, hm, hp, if_false, hmin, true_and]
        by_cases hmax : (digVal (c :: ds) : Int) ≤ i64Max
        · simp only [hmax, if_true]
        · have : ¬ ((digVal (c :: ds) : Int) < 0) := by omega
          have hall : (c :: ds).all isDigitA = true := by rw [e]; simp [hd, hr]
          simp only [hmax, if_false, this]
          simp [hm, hp, hall]

/-! ## the Pratt loop is natural in the atoms -/

def mapE {α β : Type} (g : α → β) : E α → E β
  | .atom a => .atom (g a)
  | .bin o l r => .bin o (mapE g l) (mapE g r)

def mapOps {α β : Type} (g : α → β) (xs : List (Op × α)) : List (Op × β) := xs.map (fun p => (p.1, g p.2))

theorem loop_map {α β : Type} (g : α → β) : ∀ (f : Nat) (lhs : E α) (rbp : Nat) (rest : List (Op × α)),
    loop f (mapE g lhs) rbp (mapOps g rest) = (loop f lhs rbp rest).map (fun r => (mapE g r.1, mapOps g r.2)) := by
  intro f
  induction f with
  | zero => intro _ _ _; rfl
  | succ f ih =>
    intro lhs rbp rest
    cases rest with
    | nil => rfl
    | cons p rest =>
      obtain ⟨o, a⟩ := p
      simp only [mapOps, List.map_cons, loop]
      split
      · have h1 := ih (.atom a) (rbpOf o) rest
        simp only [mapE, mapOps] at h1
        rw [h1]
        cases loop f (E.atom a) (rbpOf o) rest with
        | none => rfl
        | some r1 =>
          have h2 := ih (.bin o lhs r1.1) rbp r1.2
          simp only [mapE, mapOps] at h2
          simp only [Option.map_some, h2]
      · rfl

theorem pratt_map {α β : Type} (g : α → β) (a : α) (xs : List (Op × α)) :
    pratt (g a) (mapOps g xs) = (pratt a xs).map (mapE g) := by
  have := loop_map g (2 * xs.length + 2) (.atom a) 0 xs
  simp only [mapE] at this
  simp only [pratt, mapOps, List.length_map] at this ⊢
  rw [this]
  cases loop (2 * xs.length + 2) (E.atom a) 0 xs <;> rfl

theorem pratt_total {α : Type} (a : α) (xs : List (Op × α)) : ∃ e, pratt a xs = some e := by
  obtain ⟨r, hr, _⟩ := loop_total (2 * xs.length + 2) (.atom a) 0 xs (by omega)
  exact ⟨r.1, by simp [pratt, hr]⟩

/-! ## soundness of the parser on lines without `.`, `e`, `E`: every literal is an `int` text -/

def cleanCh (c : Char) : Bool := !(c = '.' || c = 'e' || c = 'E')
def clean (s : Str) : Bool := s.all cleanCh

theorem clean_suffix {s r : Str} (h : clean s = true) (hs : r <:+ s) : clean r = true := by
  simp only [clean, List.all_eq_true] at h ⊢
  exact fun c hc => h c (hs.subset hc)

theorem clean_skip {s : Str} (h : clean s = true) : clean (skip s) = true :=
  clean_suffix h (List.dropWhile_suffix _)

theorem isLit_of_isDigs {ds : Str} (h : isDigs ds = true) : isLit ds = true := by
  obtain ⟨d, r, rfl, hd, hr⟩ := isDigs_head h
  obtain ⟨n1, n2, _⟩ := digit_not_sign hd
  simp only [isLit, n1, n2, or_self, if_false, h]

theorem isDigs_takeWhile (s : Str) (h : s.takeWhile isDigitA ≠ []) : isDigs (s.takeWhile isDigitA) = true := by
  simp only [isDigs, Bool.and_eq_true, Bool.not_eq_true', List.isEmpty_eq_false_iff]
  exact ⟨h, List.all_takeWhile⟩

theorem pInt_sound (s i r : Str) (h : pInt s = some (i, r)) : isLit i = true ∧ s = i ++ r := by
  cases s with
  | nil => simp [pInt] at h
  | cons c r0 =>
    by_cases hm : c = '-'
    · subst hm
      rw [pInt_minus] at h
      split at h
      · simp at h
      · rename_i hne
        simp only [Option.some.injEq, Prod.mk.injEq] at h
        obtain ⟨rfl, rfl⟩ := h
        exact ⟨by simp only [isLit, true_or, if_true]; exact isDigs_takeWhile _ hne, by simp⟩
    · by_cases hp : c = '+'
      · subst hp
        rw [pInt_plus] at h
        split at h
        · simp at h
        · rename_i hne
          simp only [Option.some.injEq, Prod.mk.injEq] at h
          obtain ⟨rfl, rfl⟩ := h
          exact ⟨by simp only [isLit, or_true, if_true]; exact isDigs_takeWhile _ hne, by simp⟩
      · rw [pInt_other c r0 hm hp] at h
        split at h
        · simp at h
        · rename_i hne
          simp only [Option.some.injEq, Prod.mk.injEq] at h
          obtain ⟨rfl, rfl⟩ := h
          exact ⟨isLit_of_isDigs (isDigs_takeWhile _ hne), by simp⟩

theorem pNum_sound (s n r : Str) (hc : clean s = true) (h : pNum s = some (n, r)) : isLit n = true ∧ s = n ++ r := by
  unfold pNum at h
  cases hi : pInt s with
  | none => rw [hi] at h; simp at h
  | some p =>
    obtain ⟨i, r1⟩ := p
    obtain ⟨h1, h2⟩ := pInt_sound s i r1 hi
    have hc1 : clean r1 = true := clean_suffix hc ⟨i, h2.symm⟩
    rw [hi] at h
    cases r1 with
    | nil =>
      simp at h
      obtain ⟨rfl, rfl⟩ := h
      exact ⟨h1, h2⟩
    | cons c r' =>
      simp only [clean, List.all_cons, Bool.and_eq_true, cleanCh, Bool.not_eq_true', Bool.or_eq_false_iff,
        decide_eq_false_iff_not] at hc1
      obtain ⟨⟨⟨c1, c2⟩, c3⟩, _⟩ := hc1
      simp [c1, c2, c3] at h
      obtain ⟨rfl, rfl⟩ := h
      exact ⟨h1, h2⟩

theorem clean_tail {c : Char} {r : Str} (h : clean (c :: r) = true) : clean r = true :=
  clean_suffix h (List.suffix_cons c r)

theorem parser_sound : ∀ f : Nat,
    (∀ s t r, clean s = true → pTerm f s = some (t, r) → okTerm t = true ∧ clean r = true) ∧
    (∀ s e r, clean s = true → pExpr f s = some (e, r) → okFlat e = true ∧ clean r = true) ∧
    (∀ s tl r, clean s = true → pTail f s = (tl, r) → okTail tl = true ∧ clean r = true) := by
  intro f
  induction f with
  | zero =>
    refine ⟨by intro s t r _ h; simp [pTerm] at h, by intro s e r _ h; simp [pExpr] at h, ?_⟩
    intro s tl r hc h
    simp only [pTail, Prod.mk.injEq] at h
    obtain ⟨rfl, rfl⟩ := h
    exact ⟨rfl, hc⟩
  | succ f ih =>
    obtain ⟨ihT, ihE, ihL⟩ := ih
    refine ⟨?_, ?_, ?_⟩
    · intro s t r hc h
      simp only [pTerm] at h
      cases hn : pNum s with
      | some p =>
        obtain ⟨n, r1⟩ := p
        rw [hn] at h
        simp only [Option.some.injEq, Prod.mk.injEq] at h
        obtain ⟨rfl, rfl⟩ := h
        obtain ⟨h1, h2⟩ := pNum_sound s n r1 hc hn
        exact ⟨by simpa [okTerm] using h1, clean_suffix hc ⟨n, h2.symm⟩⟩
      | none =>
        rw [hn] at h
        simp only at h
        split at h
        · rename_i r0
          cases he : pExpr f (skip r0) with
          | none => rw [he] at h; simp at h
          | some p =>
            obtain ⟨e, r1⟩ := p
            rw [he] at h
            obtain ⟨h1, h2⟩ := ihE _ e r1 (clean_skip (clean_tail hc)) he
            simp only at h
            split at h
            · rename_i r2 hs
              simp only [Option.some.injEq, Prod.mk.injEq] at h
              obtain ⟨rfl, rfl⟩ := h
              have := clean_skip h2
              rw [hs] at this
              exact ⟨by simpa [okTerm] using h1, clean_tail this⟩
            · simp at h
        · simp at h
    · intro s e r hc h
      simp only [pExpr] at h
      cases ht : pTerm f s with
      | none => rw [ht] at h; simp at h
      | some p =>
        obtain ⟨t, r1⟩ := p
        rw [ht] at h
        obtain ⟨h1, h2⟩ := ihT s t r1 hc ht
        obtain ⟨h3, h4⟩ := ihL r1 (pTail f r1).1 (pTail f r1).2 h2 rfl
        simp only [Option.some.injEq, Prod.mk.injEq] at h
        obtain ⟨rfl, rfl⟩ := h
        exact ⟨by simp [okFlat, h1, h3], h4⟩
    · intro s tl r hc h
      simp only [pTail] at h
      split at h
      · rename_i c r0 hs
        have hc0 : clean r0 = true := by have := clean_skip hc; rw [hs] at this; exact clean_tail this
        split at h
        · simp only [Prod.mk.injEq] at h; obtain ⟨rfl, rfl⟩ := h; exact ⟨rfl, hc⟩
        · rename_i o ho
          split at h
          · simp only [Prod.mk.injEq] at h; obtain ⟨rfl, rfl⟩ := h; exact ⟨rfl, hc⟩
          · rename_i t r1 ht
            obtain ⟨h1, h2⟩ := ihT _ t r1 (clean_skip hc0) ht
            obtain ⟨h3, h4⟩ := ihL r1 (pTail f r1).1 (pTail f r1).2 h2 rfl
            simp only [Prod.mk.injEq] at h
            obtain ⟨rfl, rfl⟩ := h
            exact ⟨by simp [okTail, h1, h3], h4⟩
      · simp only [Prod.mk.injEq] at h; obtain ⟨rfl, rfl⟩ := h; exact ⟨rfl, hc⟩

/-- on a line without `.`, `e`, `E` every literal of the parser tree is an `int` text -/
theorem calculate_ok (line : Str) (hc : clean line = true) (f : Flat) (h : calculate line = some f) : okFlat f = true := by
  unfold calculate at h
  cases he : pExpr (2 * line.length + 2) (skip line) with
  | none => rw [he] at h; simp at h
  | some p =>
    obtain ⟨e, r⟩ := p
    rw [he] at h
    simp only at h
    split at h
    · injection h with h; subst h
      exact ((parser_sound _).2.1 _ e r (clean_skip hc) he).1
    · simp at h

end Cicada.Calc
