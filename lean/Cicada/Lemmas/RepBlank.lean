import Cicada.Lemmas.Interp
/-!
# Pair trees with blank-line pairs (for the layout variants of the C14 round trip)

A blank line of a script (`\n`, or blanks and `\n`) is a `CMD` pair of the grammar whose text trims to nothing; `run_exp`
skips every pair whose trimmed text is empty.  `RStmtB` / `RBlockB` / `RArmsB` are `RStmt` / `RBlock` / `RArms` of
`Lemmas/Interp.lean` with one more constructor, `RBlockB.blank`: in any list of statements pairs with blank text may be
interleaved, provided `B` holds (`B := False` gives back `RBlock`: `rBlockB_false`; `B := True` is the general relation;
a layout with `k` blank lines uses `B := 0 < k`).
-/
namespace Cicada.C14
open Cicada Cicada.Locust

mutual
inductive RStmtB (B : Prop) (args : List Str) : Stmt → PT → Prop
  | cmd {l text : Str} : trim text = l → PlainLine args l → RStmtB B args (.cmd l) (.node "CMD" text [])
  | brk {text : Str} : trim text = "break".toList → RStmtB B args .brk (.node "CMD" text [])
  | cont {text : Str} : trim text = "continue".toList → RStmtB B args .cont (.node "CMD" text [])
  | ite {arms : Arms} {els : Block} {text : Str} {brs : List PT} : trim text ≠ [] → RArmsB B args arms els brs →
      RStmtB B args (.ite arms els) (.node "EXP_IF" text brs)
  | «for» {v init : Str} {body : Block} {text t1 t2 vt tt t3 : Str} {kids : List PT} :
      trim text ≠ [] → trim vt = v → trim tt = init → RBlockB B args body kids →
      RStmtB B args (.for v init body)
        (.node "EXP_FOR" text [.node "FOR_HEAD" t1 [.node "FOR_INIT" t2 [.node "FOR_VAR" vt [], .node "TEST" tt []]], .node "EXP_BODY" t3 kids])
  | whl {t : Str} {body : Block} {text t1 tt t3 : Str} {kids : List PT} :
      trim text ≠ [] → trim tt = t → expandArgs args t = t → RBlockB B args body kids →
      RStmtB B args (.whl t body) (.node "EXP_WHILE" text [.node "WHILE_HEAD" t1 [.node "TEST" tt []], .node "EXP_BODY" t3 kids])
inductive RBlockB (B : Prop) (args : List Str) : Block → List PT → Prop
  | nil : RBlockB B args .nil []
  | cons {s : Stmt} {p : PT} {rest : Block} {ps : List PT} : RStmtB B args s p → RBlockB B args rest ps →
      RBlockB B args (.cons s rest) (p :: ps)
  /-- a pair with blank text in front of the pairs of `b` -/
  | blank {b : Block} {r : String} {text : Str} {kids ps : List PT} : B → trim text = [] → RBlockB B args b ps →
      RBlockB B args b (.node r text kids :: ps)
inductive RArmsB (B : Prop) (args : List Str) : Arms → Block → List PT → Prop
  | done : RArmsB B args .nil .nil []
  | els {els : Block} {t1 t2 t3 : Str} {kids : List PT} : RBlockB B args els kids →
      RArmsB B args .nil els [.node "IF_ELSE_BR" t1 [.node "KW_ELSE" t2 [], .node "EXP_BODY" t3 kids]]
  | arm {t : Str} {body : Block} {rest : Arms} {els : Block} {r hr : String} {x y tt z : Str} {kids brs : List PT} :
      (hr = "IF_HEAD" ∨ hr = "IF_ELSEIF_HEAD") → trim tt = t → expandArgs args t = t → RBlockB B args body kids →
      RArmsB B args rest els brs →
      RArmsB B args (.cons t body rest) els (.node r x [.node hr y [.node "TEST" tt []], .node "EXP_BODY" z kids] :: brs)
end

end Cicada.C14
