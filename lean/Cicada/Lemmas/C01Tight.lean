import Cicada.Lemmas.C01Esc
/-!
Lemmas for C01 with the TIGHT spelling of the context operator (`prog 'a'|q`, `prog "b";q`, `prog \;x&&q`, `prog 'x'||q`).

* `;q` `&&q` `||q`: list splitting (`line_to_cmds`) hands the same first pipeline to `from_line` as with the spaced spelling;
* `|q`: the tokenizer must end the last argument at the `|`.  It does unless the scanner is in the *sticky* mode
  (`sep = "\\"`, entered by a word that starts with an escaped `|` and kept while the following words start with an escaped
  character): `stickyEnd`, the same fold as the driver's.  The lemmas of `C01Esc` hide the mode behind an existential
  (`SpaceOk`); here they are restated with the mode tracked (`SpaceT`).
-/
namespace Cicada.C01
open Cicada Cicada.TokLemmas Cicada.PassLemmas Cicada.PL Cicada.C03

/-! ### the sticky mode, as a function of the argument list -/

/-- the mode after a word that starts with `c`, written in the escaped style -/
def stickyChar (st : Bool) (c : Char) : Bool := if c = '|' then true else if isSpecial c then st else false

/-- one step of the driver's `sticky` fold -/
def stickyStep (st : Bool) (x : Style × Str) : Bool :=
  match x with
  | (.esc, c :: _) => if c = '|' then true else if isSpecial c then st else false
  | _ => false

/-- the tokenizer is in the sticky mode after the last argument: that argument's tag chain starts with an escaped `|` -/
def stickyEnd (args : List (Style × Str)) : Bool := args.foldl stickyStep false

def spOf : Bool → Str
  | true => ['\\']
  | false => []

theorem spOk_spOf (b : Bool) : SpOk (spOf b) := by cases b <;> simp [SpOk, spOf]

/-- the mode after reading `a` onto the token `t` -/
def stickyW (b : Bool) (t a : Str) : Bool :=
  match t, a with
  | [], c :: _ => stickyChar b c
  | _, _ => b

theorem stickyW_ne (b : Bool) (t a : Str) (h : t ≠ []) : stickyW b t a = b := by
  cases t with
  | nil => exact absurd rfl h
  | cons x xs => rfl

theorem stickyW_nil (b : Bool) (t : Str) : stickyW b t [] = b := by cases t <;> rfl

/-! ### scanner steps at a `|` -/

theorem step_doneQ_pipe (r : List Tok) (t : Str) (hd : Bool) (q : Char) (n : Option Char) (hq : q = '\'' ∨ q = '"') :
    step (doneQ r q t hd) '|' n = B (r ++ [([q], t), ([], ['|'])]) [] hd := by
  rcases hq with h | h <;> subst h <;> simp [step, stepMid, doneQ, B, E, pushTok, resetTok]

/-- a `|` directly after an unquoted / escaped word outside the sticky mode ends the word -/
theorem step_E_pipe (r : List Tok) (t : Str) (hd : Bool) (sm : Str) (n : Option Char) :
    step (E r [] t false hd sm false) '|' n = B (r ++ [(sm, t), ([], ['|'])]) [] hd := by
  by_cases h : sm = []
  · subst h; simp [step, stepMid, E, B, pushTok, resetTok]
  · simp [step, stepMid, E, B, pushTok, resetTok, h]

/-- … in the sticky mode it is appended to the word -/
theorem step_sticky_pipe (r : List Tok) (t : Str) (hd : Bool) (n : Option Char) :
    step (E r ['\\'] t false hd [] false) '|' n = E r ['\\'] (t ++ ['|']) false hd [] false := by
  simp [step, stepMid, stepTail, E, isQ]

theorem inW_eq_E (r : List Tok) (t : Str) (hd : Bool) : inW r t hd = E r [] t false hd [] false := rfl

/-! ### reading the escaped spelling of a word, the mode tracked -/

theorem go_esc_charT (c : Char) (hc : c ≠ '$') (r : List Tok) (b : Bool) (t : Str) (nr hd : Bool) (sm : Str) (rest : Str)
    (inv : Inv (spOf b) t nr sm) :
    ∃ b' nr' sm', go (E r (spOf b) t nr hd sm false) ((if isSpecial c then ['\\', c] else [c]) ++ rest) =
        go (E r (spOf b') (t ++ [c]) nr' hd sm' false) rest ∧ Inv (spOf b') (t ++ [c]) nr' sm' ∧
        (t = [] → b' = stickyChar b c) ∧ (t ≠ [] → b' = b) := by
  by_cases hs : isSpecial c = true
  · simp only [hs, ↓reduceIte, List.cons_append, List.nil_append, go]
    rw [step_bs _ _ _ _ _ _ _ (spOk_spOf b)]
    cases b with
    | false =>
      simp only [spOf] at inv ⊢
      by_cases hl : c = '>' ∨ c = '<'
      · refine ⟨false, nr, ['\''], by rw [step_esc_ltgt _ _ _ _ _ _ _ hl], ?_, ?_, fun _ => rfl⟩
        · refine ⟨Or.inl rfl, Or.inr rfl, fun h => by simp at h, fun _ h => by simp at h, ?_, fun h => by simp at h, ?_⟩
          · intro hn
            have := inv.open_ hn
            rcases hl with rfl | rfl <;> simp [List.all_append, this, ltgt]
          · intro _ e
            have := (snoc_ne_single e).2
            rcases hl with rfl | rfl <;> simp at this
        · intro _
          rcases hl with rfl | rfl <;> simp [stickyChar, hs]
      · simp only [not_or] at hl
        by_cases hp : c = '|' ∧ nr = true ∧ t = []
        · obtain ⟨rfl, rfl, rfl⟩ := hp
          have hsm := (inv.empty rfl).2
          subst hsm
          refine ⟨true, false, [], by rw [step_esc_pipe_first]; rfl, ?_, fun _ => by simp [stickyChar], fun h => absurd rfl h⟩
          exact ⟨Or.inr rfl, Or.inl rfl, fun _ => ⟨rfl, fun h => by simp at h⟩, fun h => by simp at h, fun h => by simp at h,
            fun h => by simp at h, fun h => by simp at h⟩
        · refine ⟨false, false, sm, by rw [step_esc_other _ _ _ _ _ _ _ hl.1 hl.2 hc (fun e h => hp ⟨e, h⟩)], ?_, ?_, fun _ => rfl⟩
          · refine ⟨Or.inl rfl, inv.smOk, fun h => by simp at h, ?_, fun h => by simp at h, fun h => by simp at h, ?_⟩
            · intro _ hsm x hx
              simp only [List.mem_append, List.mem_singleton] at hx
              rcases hx with hx | rfl
              · exact inv.untagged rfl hsm x hx
              · exact ⟨hl.2, hl.1⟩
            · intro _ e
              obtain ⟨e1, e2⟩ := snoc_ne_single e
              exact hp ⟨e2, (inv.empty e1).1, e1⟩
          · intro ht
            have hcp : c ≠ '|' := fun e => hp ⟨e, (inv.empty ht).1, ht⟩
            simp [stickyChar, hs, hcp]
    | true =>
      simp only [spOf] at inv ⊢
      obtain ⟨hsm, hnr⟩ := inv.sticky rfl
      subst hsm
      refine ⟨true, false, [], by rw [step_esc_sticky], ?_, ?_, fun _ => rfl⟩
      · exact ⟨Or.inr rfl, Or.inl rfl, fun _ => ⟨rfl, fun h => by simp at h⟩, fun h => by simp at h, fun h => by simp at h,
          fun h => by simp at h, fun h => by simp at h⟩
      · intro _; simp [stickyChar, hs]
  · have hs' : isSpecial c = false := by simpa using hs
    obtain ⟨_, _, _, _, _, _, _, _, _, a10, a11, a12, _, _⟩ := notSpecial_facts hs'
    simp only [hs', Bool.false_eq_true, ↓reduceIte, List.cons_append, List.nil_append, go]
    cases nr with
    | true =>
      refine ⟨false, false, sm, by rw [step_raw_new _ _ _ _ _ _ _ hs']; rfl, ?_, fun _ => by simp [stickyChar, hs', a10], ?_⟩
      · refine ⟨Or.inl rfl, inv.smOk, fun h => by simp [spOf] at h, ?_, fun h => by simp at h, fun h => by simp at h, ?_⟩
        · intro _ hsm x hx
          simp only [List.mem_append, List.mem_singleton] at hx
          rcases hx with hx | rfl
          · cases b with
            | false => exact inv.untagged rfl hsm x hx
            | true =>
              have := (inv.sticky rfl).2 rfl
              subst this; simp at hx
          · exact ⟨a12, a11⟩
        · intro _ e
          exact a10 (snoc_ne_single e).2
      · intro ht
        cases b with
        | false => rfl
        | true => exact absurd ((inv.sticky rfl).2 rfl) ht
    | false =>
      refine ⟨b, false, sm, by rw [step_raw_in _ _ _ _ _ _ _ hs' inv.spOk], ?_, fun ht => by simpa using (inv.empty ht).1, fun _ => rfl⟩
      refine ⟨inv.spOk, inv.smOk, fun h => ⟨(inv.sticky h).1, fun h => by simp at h⟩, ?_, fun h => by simp at h, fun h => by simp at h, ?_⟩
      · intro hsp hsm x hx
        simp only [List.mem_append, List.mem_singleton] at hx
        rcases hx with hx | rfl
        · exact inv.untagged hsp hsm x hx
        · exact ⟨a12, a11⟩
      · intro _ e
        exact a10 (snoc_ne_single e).2

/-- reading the escaped spelling of `a` appends exactly `a` to the token; the mode afterwards is `stickyW` -/
theorem go_esc_wordT (a : Str) : ∀ (r : List Tok) (b : Bool) (t : Str) (nr hd : Bool) (sm : Str) (rest : Str),
    (∀ c ∈ a, c ≠ '$') → Inv (spOf b) t nr sm →
    ∃ nr' sm', go (E r (spOf b) t nr hd sm false) (renderArg .esc a ++ rest) =
        go (E r (spOf (stickyW b t a)) (t ++ a) nr' hd sm' false) rest ∧
      Inv (spOf (stickyW b t a)) (t ++ a) nr' sm' := by
  induction a with
  | nil =>
    intro r b t nr hd sm rest _ inv
    exact ⟨nr, sm, by simp [renderArg, stickyW_nil], by simpa [stickyW_nil] using inv⟩
  | cons c cs ih =>
    intro r b t nr hd sm rest h inv
    obtain ⟨b1, nr1, sm1, h1, inv1, e1, e2⟩ := go_esc_charT c (h c (by simp)) r b t nr hd sm (renderArg .esc cs ++ rest) inv
    obtain ⟨nr2, sm2, h2, inv2⟩ := ih r b1 (t ++ [c]) nr1 hd sm1 rest (fun x hx => h x (by simp [hx])) inv1
    have eb : stickyW b1 (t ++ [c]) cs = stickyW b t (c :: cs) := by
      rw [stickyW_ne _ _ _ (by simp)]
      cases t with
      | nil => exact e1 rfl
      | cons x xs => exact e2 (by simp)
    rw [eb] at h2 inv2
    refine ⟨nr2, sm2, ?_, by simpa [List.append_assoc] using inv2⟩
    rw [renderEsc_cons, List.append_assoc, h1, h2]
    simp [List.append_assoc]

/-! ### reading a whole argument list (three styles), the mode tracked -/

/-- the scanner has read a word; `r'` is the token list once that word is pushed, `st` the mode.
A blank ends the word; outside the sticky mode so does a `|`; in the sticky mode the state is the open `\`-tagged word. -/
structure SpaceT (s : St) (r' : List Tok) (st : Bool) : Prop where
  space : ∀ n, ∃ hd, step s ' ' n = B r' (spOf st) hd
  pipe : st = false → ∀ n, ∃ hd, step s '|' n = B (r' ++ [([], ['|'])]) [] hd
  stuck : st = true → ∃ r0 t hd, s = E r0 ['\\'] t false hd [] false ∧ t ≠ [] ∧ r' = r0 ++ [(['\\'], t)]

theorem go_word_escT (a : Str) (r : List Tok) (b : Bool) (hd : Bool) (rest : Str)
    (hne : a ≠ []) (hdl : ∀ c ∈ a, c ≠ '$') :
    ∃ s' tok, go (B r (spOf b) hd) (renderArg .esc a ++ rest) = go s' rest ∧ TokRel (.esc, a) tok ∧
      finish s' = r ++ [tok] ∧ (onlyLtGt a = false → SpaceT s' (r ++ [tok]) (stickyStep b (.esc, a))) := by
  obtain ⟨nr', sm', hgo, inv⟩ := go_esc_wordT a r b [] true hd [] rest hdl (Inv.start _ (spOk_spOf b))
  simp only [List.nil_append] at hgo inv
  have hst : stickyW b [] a = stickyStep b (.esc, a) := by
    cases a with
    | nil => exact absurd rfl hne
    | cons c cs => rfl
  rw [hst] at hgo inv
  cases hb : stickyStep b (.esc, a) with
  | false =>
    rw [hb] at hgo inv
    simp only [spOf] at hgo inv
    refine ⟨_, (sm', a), hgo, ?_, ?_, ?_⟩
    · refine ⟨rfl, ?_⟩
      rcases inv.smOk with h | h
      · subst h; exact Or.inr (Or.inr ⟨rfl, inv.untagged rfl rfl, inv.pipe rfl⟩)
      · exact Or.inl h
    · by_cases h : sm' = []
      · subst h; simp [finish, E, hne]
      · simp [finish, E, hne, h]
    · intro ho
      have hnr : nr' = false := by
        cases nr' with
        | false => rfl
        | true =>
          have := inv.open_ rfl
          have e : onlyLtGt a = true := by
            simp only [onlyLtGt, Bool.and_eq_true, Bool.not_eq_true', List.isEmpty_eq_false_iff]
            refine ⟨hne, ?_⟩
            rw [List.all_eq_true] at this ⊢
            intro x hx; have := this x hx; simpa [ltgt] using this
          rw [e] at ho; cases ho
      subst hnr
      refine ⟨fun n => ⟨hd, step_blank_plain _ _ _ _ _⟩, fun _ n => ⟨hd, ?_⟩, fun h => by cases h⟩
      rw [step_E_pipe]; simp
  | true =>
    rw [hb] at hgo inv
    simp only [spOf] at hgo inv
    obtain ⟨hsm, hnr0⟩ := inv.sticky rfl
    subst hsm
    have hnr : nr' = false := by
      cases nr' with
      | false => rfl
      | true => exact absurd (hnr0 rfl) hne
    subst hnr
    refine ⟨_, (['\\'], a), hgo, ⟨rfl, Or.inr (Or.inl rfl)⟩, by simp [finish, E, hne], ?_⟩
    intro _
    exact ⟨fun n => ⟨hd, step_blank_sticky _ _ _ _⟩, fun h => (by cases h), fun _ => ⟨r, a, hd, rfl, hne, rfl⟩⟩

theorem spaceT_doneQ (r : List Tok) (q : Char) (a : Str) (hd : Bool) (hq : q = '\'' ∨ q = '"') :
    SpaceT (doneQ r q a hd) (r ++ [([q], a)]) false := by
  refine ⟨fun n => ⟨hd, ?_⟩, fun _ n => ⟨hd, ?_⟩, fun h => by cases h⟩
  · rw [step_doneQ_space r a hd q n hq]; rfl
  · rw [step_doneQ_pipe r a hd q n hq]; simp

theorem go_word_anyT (x : Style × Str) (r : List Tok) (b : Bool) (hd : Bool) (rest : Str)
    (hok : wordOk x = true) :
    ∃ s' tok, go (B r (spOf b) hd) (renderArg x.1 x.2 ++ rest) = go s' rest ∧ TokRel x tok ∧
      finish s' = r ++ [tok] ∧ (escOpen x = false → SpaceT s' (r ++ [tok]) (stickyStep b x)) := by
  obtain ⟨sty, a⟩ := x
  cases sty with
  | sq =>
    have hb : ∀ c ∈ a, c ≠ '\'' := by
      intro c hc e; subst e
      simp [wordOk, okArg] at hok
      exact hok hc
    refine ⟨doneQ r '\'' a (hd || a.any (· = '$')), (['\''], a), ?_, ⟨rfl, rfl⟩, ?_, ?_⟩
    · simp only [renderArg, List.cons_append, List.nil_append, List.append_assoc, go]
      rw [step_B_quote r _ hd '\'' _ (Or.inl rfl) (spOk_spOf b), go_sq_body a r [] hd _ hb]
      simp only [List.nil_append, go]
      rw [step_close _ _ _ '\'' _ (Or.inl rfl)]
    · simp [finish, doneQ]
    · intro _
      exact spaceT_doneQ r '\'' a _ (Or.inl rfl)
  | dq =>
    have hb : ∀ c ∈ a, c ≠ '$' ∧ c ≠ '`' ∧ c ≠ '\\' ∧ c ≠ '"' := by
      intro c hc
      simp [wordOk, okArg] at hok
      have := hok c hc
      simp_all
    refine ⟨doneQ r '"' a hd, (['"'], a), ?_, ⟨rfl, rfl⟩, ?_, ?_⟩
    · simp only [renderArg, List.cons_append, List.nil_append, List.append_assoc, go]
      rw [step_B_quote r _ hd '"' _ (Or.inr rfl) (spOk_spOf b), go_dq_body a r [] hd _ hb]
      simp only [List.nil_append, go]
      rw [step_close _ _ _ '"' _ (Or.inr rfl)]
    · simp [finish, doneQ]
    · intro _
      exact spaceT_doneQ r '"' a _ (Or.inr rfl)
  | esc =>
    simp only [wordOk, Bool.and_eq_true, Bool.not_eq_true', List.isEmpty_eq_false_iff, List.all_eq_true,
      decide_eq_true_eq] at hok
    obtain ⟨s', tok, h1, h2, h3, h4⟩ := go_word_escT a r b hd rest hok.1 hok.2
    exact ⟨s', tok, h1, h2, h3, fun ho => h4 (by simpa [escOpen] using ho)⟩

theorem go_argsT (args : List (Style × Str)) : ∀ (s : St) (r' : List Tok) (st : Bool) (rest : Str),
    (args ≠ [] → SpaceT s r' st) → finish s = r' → (∀ x ∈ args, wordOk x = true) →
    (∀ x ∈ args.dropLast, escOpen x = false) →
    ∃ s' toks, go s (argsText args ++ rest) = go s' rest ∧ ArgsRel args toks ∧
      finish s' = r' ++ toks ∧
      (SpaceT s r' st → (∀ x, args.getLast? = some x → escOpen x = false) →
        SpaceT s' (r' ++ toks) (args.foldl stickyStep st)) := by
  induction args with
  | nil =>
    intro s r' st rest _ hf _ _
    exact ⟨s, [], by simp [argsText], ArgsRel.nil, by simpa using hf, fun h _ => by simpa using h⟩
  | cons x xs ih =>
    intro s r' st rest hsp hf hok hdl
    obtain ⟨hd, hstep⟩ := (hsp (by simp)).space ((renderArg x.1 x.2 ++ (argsText xs ++ rest)).head?)
    obtain ⟨s1, tok, hgo1, hrel, hfin1, hsp1'⟩ := go_word_anyT x r' st hd (argsText xs ++ rest) (hok x (by simp))
    have hxs : xs ≠ [] → SpaceT s1 (r' ++ [tok]) (stickyStep st x) := by
      intro hne
      apply hsp1'
      apply hdl
      rw [List.dropLast_cons_of_ne_nil hne]; simp
    obtain ⟨s2, toks, hgo2, hrel2, hfin2, hsp2⟩ := ih s1 (r' ++ [tok]) (stickyStep st x) rest hxs hfin1
      (fun y hy => hok y (by simp [hy]))
      (fun y hy => hdl y (by
        cases xs with
        | nil => simp at hy
        | cons z zs => rw [List.dropLast_cons_of_ne_nil (by simp)]; simp [hy]))
    refine ⟨s2, tok :: toks, ?_, ArgsRel.cons hrel hrel2, by simpa [List.append_assoc] using hfin2, ?_⟩
    · have e : argsText (x :: xs) ++ rest = ' ' :: (renderArg x.1 x.2 ++ (argsText xs ++ rest)) := by
        obtain ⟨sty, a⟩ := x
        simp [argsText, List.append_assoc]
      rw [e]
      simp only [go]
      rw [hstep, hgo1, hgo2]
    · intro _ hlast
      have : SpaceT s2 (r' ++ [tok] ++ toks) (xs.foldl stickyStep (stickyStep st x)) := by
        apply hsp2
        · cases xs with
          | nil => exact hsp1' (hlast x rfl)
          | cons z zs => exact hxs (by simp)
        · intro y hy
          cases xs with
          | nil => simp at hy
          | cons z zs => exact hlast y (by rw [List.getLast?_cons_cons]; exact hy)
      simpa [List.append_assoc] using this

/-! ### the tokenizer on the whole command with the tight `|q` suffix -/

def pipeSfxT (ctx : Ctx) : Str := if ctx = .pipe then ['|', 'q'] else []

theorem spaceT_inW (c : Char) (cs : Str) : SpaceT (inW [] (c :: cs) false) [([], c :: cs)] false := by
  refine ⟨fun n => ⟨false, by rw [step_inW_space]; rfl⟩, fun _ n => ⟨false, ?_⟩, fun h => by cases h⟩
  rw [inW_eq_E, step_E_pipe]; simp

/-- what the scanner has done when it reaches the end of the arguments -/
theorem go_cmdT (p : Str) (args : List (Style × Str)) (sfx : Str)
    (hw : p.all wordChar = true) (hl : p.any isAlphaA = true) (hok : ∀ x ∈ args, wordOk x = true)
    (hdl : ∀ x ∈ args.dropLast, escOpen x = false) :
    ∃ s' toks, ArgsRel args toks ∧ go {} (renderCmd p args ++ sfx) = go s' sfx ∧ finish s' = ([], p) :: toks ∧
      ((∀ x, args.getLast? = some x → escOpen x = false) → SpaceT s' (([], p) :: toks) (stickyEnd args)) := by
  obtain ⟨c, cs, rfl⟩ : ∃ c cs, p = c :: cs := by
    cases p with
    | nil => simp at hl
    | cons c cs => exact ⟨c, cs, rfl⟩
  simp only [List.all_cons, Bool.and_eq_true] at hw
  have h0 : go {} (renderCmd (c :: cs) args ++ sfx) = go (inW [] (c :: cs) false) (argsText args ++ sfx) := by
    simp only [renderCmd, List.cons_append, go, argsText_eq, List.append_assoc]
    have : ({} : St) = clean [] false := rfl
    rw [this, step_clean_word [] false c _ hw.1, go_word cs [] [c] false _ hw.2]
    simp
  obtain ⟨s', toks, hgo, hrel, hfin, hsp⟩ := go_argsT args (inW [] (c :: cs) false) [([], c :: cs)] false sfx
    (fun _ => spaceT_inW c cs) (by simp [finish, inW]) hok hdl
  exact ⟨s', toks, hrel, by rw [h0, hgo], by simpa using hfin, fun hlast => by simpa [stickyEnd] using hsp (spaceT_inW c cs) hlast⟩

theorem harith_cmd (p : Str) (args : List (Style × Str)) (sfx : Str) (hl : p.any isAlphaA = true) :
    isArithmetic (renderCmd p args ++ sfx) = false := by
  apply any_alpha_not_arith
  simp [renderCmd, List.any_append, hl]

/-- outside the sticky mode the tight `|q` is read as the pipe and the decoy stage -/
theorem parseLine_cmdT (p : Str) (args : List (Style × Str)) (ctx : Ctx)
    (hw : p.all wordChar = true) (hl : p.any isAlphaA = true) (hok : ∀ x ∈ args, wordOk x = true)
    (hdl : ∀ x ∈ args.dropLast, escOpen x = false)
    (hlast : ctx = .pipe → ∀ x, args.getLast? = some x → escOpen x = false)
    (hst : ctx = .pipe → stickyEnd args = false) :
    ∃ toks, ArgsRel args toks ∧ parseLine (renderCmd p args ++ pipeSfxT ctx) = ([], p) :: toks ++ pipeToks ctx := by
  obtain ⟨s', toks, hrel, hgo, hfin, hsp⟩ := go_cmdT p args (pipeSfxT ctx) hw hl hok hdl
  refine ⟨toks, hrel, ?_⟩
  simp only [parseLine, parseLineInfo, harith_cmd p args _ hl, Bool.false_eq_true, ↓reduceIte]
  rw [hgo]
  by_cases hc : ctx = .pipe
  · subst hc
    have sp := hsp (hlast rfl)
    rw [hst rfl] at sp
    obtain ⟨hd, hstep⟩ := sp.pipe rfl (some 'q')
    have e : pipeSfxT .pipe = ['|', 'q'] := rfl
    simp only [e, go, List.head?_cons, List.head?_nil]
    rw [hstep]
    have hq : isSpecial 'q' = false := by decide
    have := step_raw_new (([], p) :: toks ++ [([], ['|'])]) [] [] hd [] 'q' none hq
    simp only [B] at this ⊢
    rw [this]
    simp [finish, E, pipeToks]
  · simp only [pipeSfxT, hc, ↓reduceIte, go, pipeToks, List.append_nil]
    exact hfin

/-- in the sticky mode the tight `|q` is appended to the last word -/
theorem parseLine_cmdStuck (p : Str) (args : List (Style × Str))
    (hw : p.all wordChar = true) (hl : p.any isAlphaA = true) (hok : ∀ x ∈ args, wordOk x = true)
    (hdl : ∀ x ∈ args.dropLast, escOpen x = false)
    (hlast : ∀ x, args.getLast? = some x → escOpen x = false)
    (hst : stickyEnd args = true) :
    ∃ toks0 t, ArgsRel args (toks0 ++ [(['\\'], t)]) ∧
      parseLine (renderCmd p args ++ ['|', 'q']) = ([], p) :: toks0 ++ [(['\\'], t ++ ['|', 'q'])] := by
  obtain ⟨s', toks, hrel, hgo, hfin, hsp⟩ := go_cmdT p args ['|', 'q'] hw hl hok hdl
  have sp := hsp hlast
  rw [hst] at sp
  obtain ⟨r0, t, hd, hs, hne, hr⟩ := sp.stuck rfl
  have htoks : ∃ toks0, toks = toks0 ++ [(['\\'], t)] ∧ r0 = ([], p) :: toks0 := by
    rcases List.eq_nil_or_concat toks with rfl | ⟨toks0, y, rfl⟩
    · cases hrel
      simp [stickyEnd] at hst
    · refine ⟨toks0, ?_⟩
      rw [List.concat_eq_append] at hr ⊢
      have : (([], p) :: toks0) ++ [y] = r0 ++ [(['\\'], t)] := by simpa using hr
      have h2 := List.append_inj' this rfl
      simp at h2
      exact ⟨by rw [h2.2], h2.1.symm⟩
  obtain ⟨toks0, rfl, rfl⟩ := htoks
  refine ⟨toks0, t, hrel, ?_⟩
  simp only [parseLine, parseLineInfo, harith_cmd p args _ hl, Bool.false_eq_true, ↓reduceIte]
  rw [hgo, hs]
  simp only [go]
  rw [step_sticky_pipe, step_raw_in _ _ _ _ _ 'q' _ (by decide) (Or.inr rfl)]
  simp [finish, E]

/-! ### list splitting of the tight spelling -/

def Ctx.tight : Ctx → Str
  | .alone => []
  | .pipe => "|q".toList
  | .semi => ";q".toList
  | .and => "&&q".toList
  | .or => "||q".toList

/-- the line with the operator of the context written without blanks around it -/
def renderLineT (p : Str) (args : List (Style × Str)) (ctx : Ctx) : Str := renderCmd p args ++ ctx.tight

/-- list splitting hands the first pipeline (with its `|q` stage in the pipe context) to `from_line` -/
theorem lineToCmds_firstT (p : Str) (args : List (Style × Str)) (ctx : Ctx)
    (hw : p.all wordChar = true) (hne : p ≠ []) (ha : ∀ x ∈ args, wordOk x = true)
    (hl : ctx ≠ .pipe → lastNoWs args) :
    ∃ rest, lineToCmds (renderLineT p args ctx) = (renderCmd p args ++ pipeSfxT ctx) :: rest := by
  obtain ⟨c, cs, hpc⟩ : ∃ c cs, p = c :: cs := by
    cases p with
    | nil => exact absurd rfl hne
    | cons c cs => exact ⟨c, cs, rfl⟩
  have hcw : wordChar c = true := by subst hpc; simp at hw; exact hw.1
  have hrc : renderCmd p args = c :: (cs ++ argsText args) := by subst hpc; simp [renderCmd, argsText]
  have hsafe : ∀ b, safeSeg none false (renderCmd p args ++ b) = safeSeg none false b := by
    intro b
    simp only [renderCmd, List.append_assoc]
    rw [safeSeg_word p _ hw]
    exact safeSeg_argsG args b ha
  have hnsep : ∀ t : Str, t.head? = some c → isListSep t = false := by
    intro t ht
    obtain ⟨_, _, _, _, _, _, _, _, _, a10, _, _⟩ := wordChar_facts hcw
    have a13 : c ≠ ';' := by intro e; subst e; revert hcw; decide
    have a14 : c ≠ '&' := by intro e; subst e; revert hcw; decide
    cases t with
    | nil => simp at ht
    | cons x xs =>
      simp at ht; subst ht
      simp [isListSep, a10, a13, a14]
  have hne2 : renderCmd p args ≠ [] := by rw [hrc]; simp
  by_cases hctx : ctx = .pipe
  · subst hctx
    let pr : Prog := { first := renderCmd p args ++ ['|', 'q'], rest := [] }
    have hr : render pr = renderLineT p args .pipe := by simp [render, renderLineT, pr, Ctx.tight]
    have htrim : trim (renderCmd p args ++ ['|', 'q']) = renderCmd p args ++ ['|', 'q'] := by
      rw [hrc]
      exact trim_id c 'q' _ (c :: (cs ++ argsText args) ++ ['|']) (by simp) (wordChar_nonws c hcw) (by decide)
    have hgd : C03.guard pr = true := by
      have s1 : safeSeg none false (renderCmd p args ++ ['|', 'q']) = true := by
        rw [hsafe]; decide
      have s2 : isListSep (renderCmd p args ++ ['|', 'q']) = false := hnsep _ (by rw [hrc]; rfl)
      have hne3 : renderCmd p args ++ ['|', 'q'] ≠ [] := by simp [hne2]
      simp [C03.guard, segOk, pr, s1, htrim, hne3, s2]
    refine ⟨[], ?_⟩
    rw [← hr, lineToCmds_render pr hgd]
    simp [items, itemsRest, pr, htrim, pipeSfxT]
  · obtain ⟨ys, d, hsn, hd⟩ := renderCmd_snocG p args hw hne ha (hl hctx)
    have htrim1 : trim (renderCmd p args) = renderCmd p args := by
      rw [hrc]; exact trim_id c d _ ys (by rw [← hrc]; exact hsn) (wordChar_nonws c hcw) hd
    have e0 : renderCmd p args ++ pipeSfxT ctx = renderCmd p args := by simp [pipeSfxT, hctx]
    rw [e0]
    have s1 : safeSeg none false (renderCmd p args) = true := by
      have := hsafe []; simp at this; rw [this]; rfl
    have s2' : isListSep (renderCmd p args) = false := hnsep _ (by rw [hrc]; rfl)
    have hseg : segOk (renderCmd p args) = true := by simp [segOk, s1, htrim1, hne2, s2']
    have mk : ∀ (o : ListOp), ctx.tight = o.text ++ ['q'] →
        ∃ rest, lineToCmds (renderLineT p args ctx) = renderCmd p args :: rest := by
      intro o hs
      let pr : Prog := { first := renderCmd p args, rest := [(o, ['q'])] }
      have hr : render pr = renderLineT p args ctx := by
        simp [render, renderLineT, pr, hs]
      have hgd : C03.guard pr = true := by
        have s3 : segOk ['q'] = true := by decide
        simp only [C03.guard, pr, List.all_cons, List.all_nil, Bool.and_true, Bool.and_eq_true]
        exact ⟨hseg, s3⟩
      refine ⟨itemsRest pr.rest, ?_⟩
      rw [← hr, lineToCmds_render pr hgd]
      simp [items, pr, htrim1]
    cases ctx with
    | alone =>
      let pr : Prog := { first := renderCmd p args, rest := [] }
      have hr : render pr = renderLineT p args .alone := by simp [render, renderLineT, pr, Ctx.tight]
      have hgd : C03.guard pr = true := by
        simp only [C03.guard, pr, List.all_nil, Bool.and_true]
        exact hseg
      refine ⟨[], ?_⟩
      rw [← hr, lineToCmds_render pr hgd]
      simp [items, itemsRest, pr, htrim1]
    | pipe => exact absurd rfl hctx
    | semi => exact mk .semi rfl
    | and => exact mk .and rfl
    | or => exact mk .or rfl

end Cicada.C01
