import Cicada.Lemmas.Passes
import Cicada.Lemmas.C03
/-! Assembly lemmas for C01: tokenizer round trip on a rendered command, list-safety of the rendering. -/
namespace Cicada.C01
open Cicada Cicada.TokLemmas Cicada.PassLemmas Cicada.PL Cicada.C03

theorem argsText_eq (args : List (Style × Str)) : (args.map (fun (s, a) => ' ' :: renderArg s a)).flatten = argsText args := rfl

/-- **tokenizer round trip**: a plain word followed by single- or double-quoted arguments is read back as
exactly one token per argument, tagged with its quote -/
theorem parseLine_renderCmd (p : Str) (args : List (Style × Str))
    (hw : p.all wordChar = true) (hl : p.any isAlphaA = true) (ha : args.all styleOk = true) :
    parseLine (renderCmd p args) = ([], p) :: args.map tokOf := by
  have hne : p ≠ [] := by intro e; subst e; simp at hl
  have harith : isArithmetic (renderCmd p args) = false := by
    apply any_alpha_not_arith
    simp [renderCmd, List.any_append, hl]
  obtain ⟨c, cs, rfl⟩ : ∃ c cs, p = c :: cs := by
    cases p with
    | nil => exact absurd rfl hne
    | cons c cs => exact ⟨c, cs, rfl⟩
  simp only [List.all_cons, Bool.and_eq_true] at hw
  have h0 : go {} (renderCmd (c :: cs) args) = go (inW [] (c :: cs) false) (argsText args) := by
    simp only [renderCmd, List.cons_append, go, argsText_eq]
    have : ({} : St) = clean [] false := rfl
    rw [this, step_clean_word [] false c _ hw.1, go_word cs [] [c] false _ hw.2]
    simp
  obtain ⟨s', hd', hgo, hD⟩ := go_args args (inW [] (c :: cs) false) ([] ++ [([], c :: cs)]) false []
    (done_inW [] (c :: cs) false (by simp)) ha
  simp only [parseLine, parseLineInfo, harith, Bool.false_eq_true, ↓reduceIte]
  rw [h0]
  have : argsText args = argsText args ++ [] := by simp
  rw [this, hgo]
  simp only [go]
  rw [hD.fin]
  simp

/-! ### the rendering is list-safe (C03's `safeSeg`), so list splitting leaves it alone -/

theorem safeSeg_word (w : Str) (b : Str) (hw : w.all wordChar = true) :
    safeSeg none false (w ++ b) = safeSeg none false b := by
  induction w with
  | nil => rfl
  | cons c cs ih =>
    simp only [List.all_cons, Bool.and_eq_true] at hw
    obtain ⟨a1, a2, a3, a4, a5, a6, a7, a8, a9, a10, a11, a12⟩ := wordChar_facts hw.1
    have hw1 := hw.1
    have a13 : c ≠ ';' := by intro e; subst e; revert hw1; decide
    have a14 : c ≠ '&' := by intro e; subst e; revert hw1; decide
    simp [safeSeg, a4, a6, a7, a8, a9, a10, a13, a14, ih hw.2]

theorem safeSeg_sq (body b : Str) (hb : ∀ c ∈ body, c ≠ '\'') :
    safeSeg (some '\'') false (body ++ '\'' :: b) = safeSeg none false b := by
  induction body with
  | nil => simp [safeSeg]
  | cons c cs ih =>
    have hc := hb c (by simp)
    simp [safeSeg, hc, ih (fun x hx => hb x (by simp [hx]))]

theorem safeSeg_dq (body b : Str) (hb : ∀ c ∈ body, c ≠ '"' ∧ c ≠ '\\') :
    safeSeg (some '"') false (body ++ '"' :: b) = safeSeg none false b := by
  induction body with
  | nil => simp [safeSeg]
  | cons c cs ih =>
    have hc := hb c (by simp)
    simp [safeSeg, hc.1, hc.2, ih (fun x hx => hb x (by simp [hx]))]

theorem safeSeg_args (args : List (Style × Str)) (b : Str) (ha : args.all styleOk = true) :
    safeSeg none false (argsText args ++ b) = safeSeg none false b := by
  induction args with
  | nil => rfl
  | cons x xs ih =>
    obtain ⟨s, a⟩ := x
    simp only [List.all_cons, Bool.and_eq_true] at ha
    have e : argsText ((s, a) :: xs) ++ b = ' ' :: (renderArg s a ++ (argsText xs ++ b)) := by
      simp [argsText, List.append_assoc]
    rw [e]
    cases s with
    | sq =>
      have hb : ∀ c ∈ a, c ≠ '\'' := by
        intro c hc e; subst e
        have := ha.1; simp [styleOk, okArg] at this; exact this hc
      simp only [renderArg, List.cons_append, List.nil_append, List.append_assoc]
      simp only [safeSeg]
      simp [safeSeg_sq a _ hb, ih ha.2]
    | dq =>
      have hb : ∀ c ∈ a, c ≠ '"' ∧ c ≠ '\\' := by
        intro c hc
        have := ha.1; simp [styleOk, okArg] at this
        have := this c hc; simp_all
      simp only [renderArg, List.cons_append, List.nil_append, List.append_assoc]
      simp only [safeSeg]
      simp [safeSeg_dq a _ hb, ih ha.2]
    | esc => have := ha.1; simp [styleOk] at this

end Cicada.C01

namespace Cicada.C01
open Cicada Cicada.TokLemmas Cicada.PassLemmas Cicada.C03

theorem trimL_nonws (c : Char) (cs : Str) (h : isWs c = false) : trimL (c :: cs) = c :: cs := by
  simp [trimL, h]

theorem trimR_snoc (ys : Str) (d : Char) (hd : isWs d = false) : trimR (ys ++ [d]) = ys ++ [d] := by
  simp [trimR, trimL, hd]

theorem trim_id (c d : Char) (cs ys : Str) (e : c :: cs = ys ++ [d]) (hc : isWs c = false) (hd : isWs d = false) :
    trim (c :: cs) = c :: cs := by
  simp only [trim, trimL_nonws c cs hc]
  rw [e]; exact trimR_snoc ys d hd

theorem trim_pad_right (c d : Char) (cs ys : Str) (e : c :: cs = ys ++ [d]) (hc : isWs c = false) (hd : isWs d = false) :
    trim (c :: cs ++ [' ']) = c :: cs := by
  have h1 : trimL (c :: cs ++ [' ']) = c :: cs ++ [' '] := by
    simp [trimL, hc]
  simp only [trim, h1]
  rw [e]
  have : trimR (ys ++ [d] ++ [' ']) = trimR (ys ++ [d]) := by
    simp [trimR, trimL, isWs]
  rw [this]; exact trimR_snoc ys d hd

theorem wordChar_nonws (c : Char) (h : wordChar c = true) : isWs c = false := by
  cases hw : isWs c with
  | false => rfl
  | true =>
    exfalso
    simp only [isWs, Bool.or_eq_true, Bool.and_eq_true, decide_eq_true_eq] at hw
    have hn : c.toNat ≤ 13 ∨ c.toNat = 32 ∨ 0x85 ≤ c.toNat := by omega
    simp only [wordChar, isAlphaA, isDigitA, Bool.or_eq_true, Bool.and_eq_true, decide_eq_true_eq] at h
    have cv : ∀ a b : Char, a ≤ b → a.toNat ≤ b.toNat := fun a b hab => by
      have := Char.le_def.mp hab; exact this
    have eq : ∀ a : Char, c = a → 45 ≤ a.toNat → a.toNat ≤ 122 → 45 ≤ c.toNat ∧ c.toNat ≤ 122 :=
      fun a e h1 h2 => by rw [e]; exact ⟨h1, h2⟩
    have rg : ∀ a b : Char, a ≤ c → c ≤ b → 45 ≤ a.toNat → b.toNat ≤ 122 → 45 ≤ c.toNat ∧ c.toNat ≤ 122 :=
      fun a b h1 h2 h3 h4 => ⟨Nat.le_trans h3 (cv _ _ h1), Nat.le_trans (cv _ _ h2) h4⟩
    have hb : 45 ≤ c.toNat ∧ c.toNat ≤ 122 := by
      rcases h with h | h
      · rcases h with h | h
        · rcases h with h | h
          · rcases h with h | h
            · rcases h with h | h
              · rcases h with h | h
                · exact rg 'a' 'z' h.1 h.2 (by decide) (by decide)
                · exact rg 'A' 'Z' h.1 h.2 (by decide) (by decide)
              · exact rg '0' '9' h.1 h.2 (by decide) (by decide)
            · exact eq '_' h (by decide) (by decide)
          · exact eq '-' h (by decide) (by decide)
        · exact eq '.' h (by decide) (by decide)
      · exact eq '/' h (by decide) (by decide)
    omega

/-- the rendered command ends with a non-blank character -/
theorem renderCmd_snoc (p : Str) (args : List (Style × Str)) (hw : p.all wordChar = true) (hne : p ≠ [])
    (ha : args.all styleOk = true) : ∃ ys d, renderCmd p args = ys ++ [d] ∧ isWs d = false := by
  rcases List.eq_nil_or_concat args with rfl | ⟨as, x, rfl⟩
  · rcases List.eq_nil_or_concat p with rfl | ⟨ys, d, rfl⟩
    · exact absurd rfl hne
    · refine ⟨ys, d, by simp [renderCmd], ?_⟩
      apply wordChar_nonws
      exact (List.all_eq_true.mp hw) d (by simp)
  · obtain ⟨s, a⟩ := x
    have hx : styleOk (s, a) = true := (List.all_eq_true.mp ha) (s, a) (by simp)
    cases s with
    | sq => exact ⟨p ++ argsText as ++ ' ' :: '\'' :: a, '\'', by simp [renderCmd, argsText, renderArg, List.append_assoc], by decide⟩
    | dq => exact ⟨p ++ argsText as ++ ' ' :: '"' :: a, '"', by simp [renderCmd, argsText, renderArg, List.append_assoc], by decide⟩
    | esc => simp [styleOk] at hx

end Cicada.C01
