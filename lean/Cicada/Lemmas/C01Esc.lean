import Cicada.Lemmas.C01
/-!
Lemmas for C01 with the ESCAPED style (and the `| q` context).

* the tokenizer (`PL.step`) on the escaped spelling of a word, in the general states it can be in between
  words (`sep` may be the sticky `\` tag left by a word that began with `\|`; `sepMade` is set by `\>` / `\<`);
* list-safety (`safeSeg`) of the escaped spelling;
* the expansion passes and the planner on token lists whose tokens are "quiet".
-/
namespace Cicada.C01
open Cicada Cicada.TokLemmas Cicada.PassLemmas Cicada.PL Cicada.C03

/-! ### characters -/

theorem notSpecial_facts {c : Char} (h : isSpecial c = false) :
    c ≠ '$' ∧ c ≠ '(' ∧ c ≠ ')' ∧ c ≠ '\\' ∧ c ≠ ' ' ∧ c ≠ '\'' ∧ c ≠ '"' ∧ c ≠ '`' ∧ c ≠ '#' ∧ c ≠ '|' ∧ c ≠ '>' ∧ c ≠ '<' ∧
    c ≠ ';' ∧ c ≠ '&' := by
  refine ⟨?_, ?_, ?_, ?_, ?_, ?_, ?_, ?_, ?_, ?_, ?_, ?_, ?_, ?_⟩ <;> (intro e; subst e; revert h; decide)

/-! ### scanner states -/

/-- general state of the scanner while it reads unquoted / escaped text -/
def E (r : List Tok) (sp t : Str) (nr hd : Bool) (sm : Str) (bs : Bool) : St :=
  { result := r, sep := sp, token := t, newRound := nr, hasDollar := hd, sepMade := sm, bs := bs }

/-- between words; `sp` is `[]` or the sticky `['\\']` -/
def B (r : List Tok) (sp : Str) (hd : Bool) : St := E r sp [] true hd [] false

theorem clean_eq_B (r : List Tok) (hd : Bool) : clean r hd = B r [] hd := rfl

def SpOk (sp : Str) : Prop := sp = [] ∨ sp = ['\\']

/-- a character written as itself, at the start of a word: the sticky tag is dropped -/
theorem step_raw_new (r : List Tok) (sp t : Str) (hd : Bool) (sm : Str) (c : Char) (n : Option Char)
    (h : isSpecial c = false) :
    step (E r sp t true hd sm false) c n = E r [] (t ++ [c]) false hd sm false := by
  obtain ⟨a1, a2, a3, a4, a5, a6, a7, a8, a9, a10, _, _, _, _⟩ := notSpecial_facts h
  simp [step, E, isQ, a1, a2, a3, a4, a5, a6, a7, a8, a9, a10]

/-- a character written as itself, inside a word -/
theorem step_raw_in (r : List Tok) (sp t : Str) (hd : Bool) (sm : Str) (c : Char) (n : Option Char)
    (h : isSpecial c = false) (hsp : SpOk sp) :
    step (E r sp t false hd sm false) c n = E r sp (t ++ [c]) false hd sm false := by
  obtain ⟨a1, a2, a3, a4, a5, a6, a7, a8, a9, a10, _, _, _, _⟩ := notSpecial_facts h
  rcases hsp with rfl | rfl <;>
    simp [step, stepMid, stepTail, E, isQ, a1, a2, a3, a4, a5, a6, a7, a8, a10]

theorem step_bs (r : List Tok) (sp t : Str) (nr hd : Bool) (sm : Str) (n : Option Char) (hsp : SpOk sp) :
    step (E r sp t nr hd sm false) '\\' n = E r sp t nr hd sm true := by
  rcases hsp with rfl | rfl <;> simp [step, E]

/-- `\>` / `\<` outside the sticky mode: the token will be tagged `'`; `newRound` is left as it was -/
theorem step_esc_ltgt (r : List Tok) (t : Str) (nr hd : Bool) (sm : Str) (c : Char) (n : Option Char)
    (hc : c = '>' ∨ c = '<') :
    step (E r [] t nr hd sm true) c n = E r [] (t ++ [c]) nr hd ['\''] false := by
  rcases hc with rfl | rfl <;> simp [step, E]

/-- `\|` as the first character of a word: the word gets the sticky `\` tag -/
theorem step_esc_pipe_first (r : List Tok) (hd : Bool) (sm : Str) (n : Option Char) :
    step (E r [] [] true hd sm true) '|' n = E r ['\\'] ['|'] false hd sm false := by
  simp [step, E]

/-- an escaped character in the sticky mode -/
theorem step_esc_sticky (r : List Tok) (t : Str) (nr hd : Bool) (sm : Str) (c : Char) (n : Option Char) :
    step (E r ['\\'] t nr hd sm true) c n = E r ['\\'] (t ++ [c]) false hd sm false := by
  simp [step, E]

/-- any other escaped character -/
theorem step_esc_other (r : List Tok) (t : Str) (nr hd : Bool) (sm : Str) (c : Char) (n : Option Char)
    (h1 : c ≠ '>') (h2 : c ≠ '<') (h3 : c ≠ '$') (h4 : c = '|' → ¬ (nr = true ∧ t = [])) :
    step (E r [] t nr hd sm true) c n = E r [] (t ++ [c]) false hd sm false := by
  by_cases hp : c = '|'
  · subst hp
    have := h4 rfl
    by_cases hn : nr = true
    · have ht : t ≠ [] := fun e => this ⟨hn, e⟩
      simp [step, E, ht]
    · simp [step, E, hn]
  · simp [step, E, h1, h2, h3, hp]

/-- a blank ends a word (not in the `newRound` state) -/
theorem step_blank_plain (r : List Tok) (t : Str) (hd : Bool) (sm : Str) (n : Option Char) :
    step (E r [] t false hd sm false) ' ' n = B (r ++ [(sm, t)]) [] hd := by
  by_cases h : sm = []
  · subst h; simp [step, stepMid, stepTail, E, B, pushTok]
  · simp [step, stepMid, stepTail, E, B, pushTok, h]

theorem step_blank_sticky (r : List Tok) (t : Str) (hd : Bool) (n : Option Char) :
    step (E r ['\\'] t false hd [] false) ' ' n = B (r ++ [(['\\'], t)]) ['\\'] hd := by
  simp [step, stepMid, stepTail, E, B]

theorem step_B_blank (r : List Tok) (sp : Str) (hd : Bool) (n : Option Char) (hsp : SpOk sp) :
    step (B r sp hd) ' ' n = B r sp hd := by
  rcases hsp with rfl | rfl <;> simp [step, B, E]

theorem step_B_quote (r : List Tok) (sp : Str) (hd : Bool) (q : Char) (n : Option Char) (hq : q = '\'' ∨ q = '"')
    (hsp : SpOk sp) : step (B r sp hd) q n = inQ r q [] hd := by
  rcases hsp with rfl | rfl <;> rcases hq with h | h <;> subst h <;> simp [step, B, E, inQ, isQ]

theorem step_B_pipe (r : List Tok) (sp : Str) (hd : Bool) (n : Option Char) (hn : n ≠ some '|') (hsp : SpOk sp) :
    step (B r sp hd) '|' n = B (r ++ [([], ['|'])]) [] hd := by
  rcases hsp with rfl | rfl <;> simp [step, B, E, isQ, hn]

/-! ### reading the escaped spelling of a word -/

def ltgt (c : Char) : Bool := c = '<' || c = '>'

/-- invariant of the scanner state while it reads an escaped word: `sp` the tag, `t` the token so far, `nr` the
`newRound` flag, `sm` the `sepMade` tag -/
structure Inv (sp t : Str) (nr : Bool) (sm : Str) : Prop where
  spOk : SpOk sp
  smOk : sm = [] ∨ sm = ['\'']
  sticky : sp = ['\\'] → sm = [] ∧ (nr = true → t = [])
  untagged : sp = [] → sm = [] → ∀ c ∈ t, c ≠ '<' ∧ c ≠ '>'
  open_ : nr = true → t.all ltgt = true
  empty : t = [] → nr = true ∧ sm = []
  pipe : sp = [] → t ≠ ['|']

theorem Inv.start (sp : Str) (h : SpOk sp) : Inv sp [] true [] :=
  ⟨h, Or.inl rfl, fun _ => ⟨rfl, fun _ => rfl⟩, fun _ _ c hc => by simp at hc, fun _ => rfl, fun _ => ⟨rfl, rfl⟩,
    fun _ => by simp⟩

theorem snoc_ne_single {t : Str} {c d : Char} (h : t ++ [c] = [d]) : t = [] ∧ c = d := by
  cases t with
  | nil => simpa using h
  | cons x xs => simp at h

theorem go_esc_char (c : Char) (hc : c ≠ '$') (r : List Tok) (sp t : Str) (nr hd : Bool) (sm : Str) (rest : Str)
    (inv : Inv sp t nr sm) :
    ∃ sp' nr' sm', go (E r sp t nr hd sm false) ((if isSpecial c then ['\\', c] else [c]) ++ rest) =
        go (E r sp' (t ++ [c]) nr' hd sm' false) rest ∧ Inv sp' (t ++ [c]) nr' sm' := by
  by_cases hs : isSpecial c = true
  · simp only [hs, ↓reduceIte, List.cons_append, List.nil_append, go]
    rw [step_bs _ _ _ _ _ _ _ inv.spOk]
    rcases inv.spOk with rfl | rfl
    · by_cases hl : c = '>' ∨ c = '<'
      · refine ⟨[], nr, ['\''], by rw [step_esc_ltgt _ _ _ _ _ _ _ hl], ?_⟩
        refine ⟨Or.inl rfl, Or.inr rfl, fun h => by simp at h, fun _ h => by simp at h, ?_, fun h => by simp at h, ?_⟩
        · intro hn
          have := inv.open_ hn
          rcases hl with rfl | rfl <;> simp [List.all_append, this, ltgt]
        · intro _ e
          have := (snoc_ne_single e).2
          rcases hl with rfl | rfl <;> simp at this
      · simp only [not_or] at hl
        by_cases hp : c = '|' ∧ nr = true ∧ t = []
        · obtain ⟨rfl, rfl, rfl⟩ := hp
          have hsm := (inv.empty rfl).2
          subst hsm
          refine ⟨['\\'], false, [], by rw [step_esc_pipe_first]; rfl, ?_⟩
          exact ⟨Or.inr rfl, Or.inl rfl, fun _ => ⟨rfl, fun h => by simp at h⟩, fun h => by simp at h, fun h => by simp at h,
            fun h => by simp at h, fun h => by simp at h⟩
        · refine ⟨[], false, sm, by rw [step_esc_other _ _ _ _ _ _ _ hl.1 hl.2 hc (fun e h => hp ⟨e, h⟩)], ?_⟩
          refine ⟨Or.inl rfl, inv.smOk, fun h => by simp at h, ?_, fun h => by simp at h, fun h => by simp at h, ?_⟩
          · intro _ hsm x hx
            simp only [List.mem_append, List.mem_singleton] at hx
            rcases hx with hx | rfl
            · exact inv.untagged rfl hsm x hx
            · exact ⟨hl.2, hl.1⟩
          · intro _ e
            obtain ⟨e1, e2⟩ := snoc_ne_single e
            exact hp ⟨e2, (inv.empty e1).1, e1⟩
    · obtain ⟨hsm, hnr⟩ := inv.sticky rfl
      subst hsm
      refine ⟨['\\'], false, [], by rw [step_esc_sticky], ?_⟩
      exact ⟨Or.inr rfl, Or.inl rfl, fun _ => ⟨rfl, fun h => by simp at h⟩, fun h => by simp at h, fun h => by simp at h,
        fun h => by simp at h, fun h => by simp at h⟩
  · have hs' : isSpecial c = false := by simpa using hs
    obtain ⟨_, _, _, _, _, _, _, _, _, a10, a11, a12, _, _⟩ := notSpecial_facts hs'
    simp only [hs', Bool.false_eq_true, ↓reduceIte, List.cons_append, List.nil_append, go]
    cases nr with
    | true =>
      refine ⟨[], false, sm, by rw [step_raw_new _ _ _ _ _ _ _ hs'], ?_⟩
      refine ⟨Or.inl rfl, inv.smOk, fun h => by simp at h, ?_, fun h => by simp at h, fun h => by simp at h, ?_⟩
      · intro _ hsm x hx
        simp only [List.mem_append, List.mem_singleton] at hx
        rcases hx with hx | rfl
        · rcases inv.spOk with rfl | rfl
          · exact inv.untagged rfl hsm x hx
          · have := (inv.sticky rfl).2 rfl
            subst this; simp at hx
        · exact ⟨a12, a11⟩
      · intro _ e
        exact a10 (snoc_ne_single e).2
    | false =>
      refine ⟨sp, false, sm, by rw [step_raw_in _ _ _ _ _ _ _ hs' inv.spOk], ?_⟩
      refine ⟨inv.spOk, inv.smOk, fun h => ⟨(inv.sticky h).1, fun h => by simp at h⟩, ?_, fun h => by simp at h, fun h => by simp at h, ?_⟩
      · intro hsp hsm x hx
        simp only [List.mem_append, List.mem_singleton] at hx
        rcases hx with hx | rfl
        · exact inv.untagged hsp hsm x hx
        · exact ⟨a12, a11⟩
      · intro _ e
        exact a10 (snoc_ne_single e).2

theorem renderEsc_cons (c : Char) (cs : Str) :
    renderArg .esc (c :: cs) = (if isSpecial c then ['\\', c] else [c]) ++ renderArg .esc cs := by
  simp [renderArg]

/-- reading the escaped spelling of `a` appends exactly `a` to the token -/
theorem go_esc_word (a : Str) : ∀ (r : List Tok) (sp t : Str) (nr hd : Bool) (sm : Str) (rest : Str),
    (∀ c ∈ a, c ≠ '$') → Inv sp t nr sm →
    ∃ sp' nr' sm', go (E r sp t nr hd sm false) (renderArg .esc a ++ rest) = go (E r sp' (t ++ a) nr' hd sm' false) rest ∧
      Inv sp' (t ++ a) nr' sm' := by
  induction a with
  | nil => intro r sp t nr hd sm rest _ inv; exact ⟨sp, nr, sm, by simp [renderArg], by simpa using inv⟩
  | cons c cs ih =>
    intro r sp t nr hd sm rest h inv
    obtain ⟨sp1, nr1, sm1, h1, inv1⟩ := go_esc_char c (h c (by simp)) r sp t nr hd sm (renderArg .esc cs ++ rest) inv
    obtain ⟨sp2, nr2, sm2, h2, inv2⟩ := ih r sp1 (t ++ [c]) nr1 hd sm1 rest (fun x hx => h x (by simp [hx])) inv1
    refine ⟨sp2, nr2, sm2, ?_, by simpa [List.append_assoc] using inv2⟩
    rw [renderEsc_cons, List.append_assoc, h1, h2]
    simp [List.append_assoc]

/-! ### reading a whole argument list (three styles) -/

/-- when a blank follows, the pending word is pushed and the scanner is between words -/
def SpaceOk (s : St) (r' : List Tok) : Prop := ∀ n, ∃ sp hd, SpOk sp ∧ step s ' ' n = B r' sp hd

/-- the token an argument is read as: its text, and a tag that depends on the style -/
def TokRel (x : Style × Str) (t : Tok) : Prop :=
  t.2 = x.2 ∧
    (match x.1 with
     | .sq => t.1 = ['\'']
     | .dq => t.1 = ['"']
     | .esc => t.1 = ['\''] ∨ t.1 = ['\\'] ∨ (t.1 = [] ∧ (∀ c ∈ t.2, c ≠ '<' ∧ c ≠ '>') ∧ t.2 ≠ ['|']))

/-- an escaped argument made only of `<` / `>`: the scanner does not end the word at the following blank -/
def escOpen (x : Style × Str) : Bool := x.1 = .esc && onlyLtGt x.2

/-- what the tokenizer needs of an argument -/
def wordOk : Style × Str → Bool
  | (.sq, a) => okArg .sq a
  | (.dq, a) => okArg .dq a
  | (.esc, a) => !a.isEmpty && a.all (· ≠ '$')

theorem go_word_esc (a : Str) (r : List Tok) (sp : Str) (hd : Bool) (rest : Str) (hsp : SpOk sp)
    (hne : a ≠ []) (hdl : ∀ c ∈ a, c ≠ '$') :
    ∃ s' tok, go (B r sp hd) (renderArg .esc a ++ rest) = go s' rest ∧ TokRel (.esc, a) tok ∧
      finish s' = r ++ [tok] ∧ (onlyLtGt a = false → SpaceOk s' (r ++ [tok])) := by
  obtain ⟨sp', nr', sm', hgo, inv⟩ := go_esc_word a r sp [] true hd [] rest hdl (Inv.start sp hsp)
  simp only [List.nil_append] at hgo inv
  rcases inv.spOk with rfl | rfl
  · refine ⟨_, (sm', a), hgo, ?_, ?_, ?_⟩
    · refine ⟨rfl, ?_⟩
      rcases inv.smOk with h | h
      · subst h; exact Or.inr (Or.inr ⟨rfl, inv.untagged rfl rfl, inv.pipe rfl⟩)
      · exact Or.inl h
    · by_cases h : sm' = []
      · subst h; simp [finish, E, hne]
      · simp [finish, E, hne, h]
    · intro ho n
      have hnr : nr' = false := by
        cases nr' with
        | false => rfl
        | true =>
          have := inv.open_ rfl
          have e : onlyLtGt a = true := by
            simp only [onlyLtGt, Bool.and_eq_true, Bool.not_eq_true', List.isEmpty_eq_false_iff]
            refine ⟨hne, ?_⟩
            rw [List.all_eq_true] at this ⊢
            intro x hx; have := this x hx; simpa [ltgt] using this
          rw [e] at ho; cases ho
      subst hnr
      exact ⟨[], hd, Or.inl rfl, step_blank_plain _ _ _ _ _⟩
  · obtain ⟨hsm, _⟩ := inv.sticky rfl
    subst hsm
    refine ⟨_, (['\\'], a), hgo, ⟨rfl, Or.inr (Or.inl rfl)⟩, by simp [finish, E, hne], ?_⟩
    intro ho n
    have hnr : nr' = false := by
      cases nr' with
      | false => rfl
      | true => exact absurd ((inv.sticky rfl).2 rfl) hne
    subst hnr
    exact ⟨['\\'], hd, Or.inr rfl, step_blank_sticky _ _ _ _⟩

theorem go_word_any (x : Style × Str) (r : List Tok) (sp : Str) (hd : Bool) (rest : Str) (hsp : SpOk sp)
    (hok : wordOk x = true) :
    ∃ s' tok, go (B r sp hd) (renderArg x.1 x.2 ++ rest) = go s' rest ∧ TokRel x tok ∧
      finish s' = r ++ [tok] ∧ (escOpen x = false → SpaceOk s' (r ++ [tok])) := by
  obtain ⟨sty, a⟩ := x
  cases sty with
  | sq =>
    have hb : ∀ c ∈ a, c ≠ '\'' := by
      intro c hc e; subst e
      simp [wordOk, okArg] at hok
      exact hok hc
    refine ⟨doneQ r '\'' a (hd || a.any (· = '$')), (['\''], a), ?_, ⟨rfl, rfl⟩, ?_, ?_⟩
    · simp only [renderArg, List.cons_append, List.nil_append, List.append_assoc, go]
      rw [step_B_quote r sp hd '\'' _ (Or.inl rfl) hsp, go_sq_body a r [] hd _ hb]
      simp only [List.nil_append, go]
      rw [step_close _ _ _ '\'' _ (Or.inl rfl)]
    · simp [finish, doneQ]
    · intro _ n
      exact ⟨[], _, Or.inl rfl, step_doneQ_space r a _ '\'' n (Or.inl rfl)⟩
  | dq =>
    have hb : ∀ c ∈ a, c ≠ '$' ∧ c ≠ '`' ∧ c ≠ '\\' ∧ c ≠ '"' := by
      intro c hc
      simp [wordOk, okArg] at hok
      have := hok c hc
      simp_all
    refine ⟨doneQ r '"' a hd, (['"'], a), ?_, ⟨rfl, rfl⟩, ?_, ?_⟩
    · simp only [renderArg, List.cons_append, List.nil_append, List.append_assoc, go]
      rw [step_B_quote r sp hd '"' _ (Or.inr rfl) hsp, go_dq_body a r [] hd _ hb]
      simp only [List.nil_append, go]
      rw [step_close _ _ _ '"' _ (Or.inr rfl)]
    · simp [finish, doneQ]
    · intro _ n
      exact ⟨[], _, Or.inl rfl, step_doneQ_space r a _ '"' n (Or.inr rfl)⟩
  | esc =>
    simp only [wordOk, Bool.and_eq_true, Bool.not_eq_true', List.isEmpty_eq_false_iff, List.all_eq_true,
      decide_eq_true_eq] at hok
    obtain ⟨s', tok, h1, h2, h3, h4⟩ := go_word_esc a r sp hd rest hsp hok.1 hok.2
    exact ⟨s', tok, h1, h2, h3, fun ho => h4 (by simpa [escOpen] using ho)⟩

/-- argument list and token list correspond one to one -/
inductive ArgsRel : List (Style × Str) → List Tok → Prop
  | nil : ArgsRel [] []
  | cons {x t xs ts} : TokRel x t → ArgsRel xs ts → ArgsRel (x :: xs) (t :: ts)

theorem go_argsG (args : List (Style × Str)) : ∀ (s : St) (r' : List Tok) (rest : Str),
    (args ≠ [] → SpaceOk s r') → finish s = r' → (∀ x ∈ args, wordOk x = true) →
    (∀ x ∈ args.dropLast, escOpen x = false) →
    ∃ s' toks, go s (argsText args ++ rest) = go s' rest ∧ ArgsRel args toks ∧
      finish s' = r' ++ toks ∧
      (SpaceOk s r' → (∀ x, args.getLast? = some x → escOpen x = false) → SpaceOk s' (r' ++ toks)) := by
  induction args with
  | nil =>
    intro s r' rest _ hf _ _
    exact ⟨s, [], by simp [argsText], ArgsRel.nil, by simpa using hf, fun h _ => by simpa using h⟩
  | cons x xs ih =>
    intro s r' rest hsp hf hok hdl
    obtain ⟨sp, hd, hsp1, hstep⟩ := hsp (by simp) ((renderArg x.1 x.2 ++ (argsText xs ++ rest)).head?)
    obtain ⟨s1, tok, hgo1, hrel, hfin1, hsp1'⟩ := go_word_any x r' sp hd (argsText xs ++ rest) hsp1 (hok x (by simp))
    have hxs : xs ≠ [] → SpaceOk s1 (r' ++ [tok]) := by
      intro hne
      apply hsp1'
      apply hdl
      rw [List.dropLast_cons_of_ne_nil hne]; simp
    obtain ⟨s2, toks, hgo2, hrel2, hfin2, hsp2⟩ := ih s1 (r' ++ [tok]) rest hxs hfin1
      (fun y hy => hok y (by simp [hy]))
      (fun y hy => hdl y (by
        cases xs with
        | nil => simp at hy
        | cons z zs => rw [List.dropLast_cons_of_ne_nil (by simp)]; simp [hy]))
    refine ⟨s2, tok :: toks, ?_, ArgsRel.cons hrel hrel2, by simpa [List.append_assoc] using hfin2, ?_⟩
    · have e : argsText (x :: xs) ++ rest = ' ' :: (renderArg x.1 x.2 ++ (argsText xs ++ rest)) := by
        obtain ⟨sty, a⟩ := x
        simp [argsText, List.append_assoc]
      rw [e]
      simp only [go]
      rw [hstep, hgo1, hgo2]
    · intro _ hlast
      have : SpaceOk s2 (r' ++ [tok] ++ toks) := by
        apply hsp2
        · cases xs with
          | nil => exact hsp1' (hlast x rfl)
          | cons z zs => exact hxs (by simp)
        · intro y hy
          cases xs with
          | nil => simp at hy
          | cons z zs => exact hlast y (by rw [List.getLast?_cons_cons]; exact hy)
      simpa [List.append_assoc] using this

theorem forall2_texts {args : List (Style × Str)} {toks : List Tok} (h : ArgsRel args toks) :
    toks.map (·.2) = args.map (·.2) := by
  induction h with
  | nil => rfl
  | cons h1 _ ih => simp [h1.1, ih]

/-! ### the tokenizer on the whole command, with the `| q` suffix in the pipe context -/

def pipeSfx (ctx : Ctx) : Str := if ctx = .pipe then [' ', '|', ' ', 'q'] else []
def pipeToks (ctx : Ctx) : List Tok := if ctx = .pipe then [([], ['|']), ([], ['q'])] else []

theorem parseLine_cmdG (p : Str) (args : List (Style × Str)) (ctx : Ctx)
    (hw : p.all wordChar = true) (hl : p.any isAlphaA = true) (hok : ∀ x ∈ args, wordOk x = true)
    (hdl : ∀ x ∈ args.dropLast, escOpen x = false)
    (hlast : ctx = .pipe → ∀ x, args.getLast? = some x → escOpen x = false) :
    ∃ toks, ArgsRel args toks ∧ parseLine (renderCmd p args ++ pipeSfx ctx) = ([], p) :: toks ++ pipeToks ctx := by
  have harith : isArithmetic (renderCmd p args ++ pipeSfx ctx) = false := by
    apply any_alpha_not_arith
    simp [renderCmd, List.any_append, hl]
  obtain ⟨c, cs, rfl⟩ : ∃ c cs, p = c :: cs := by
    cases p with
    | nil => simp at hl
    | cons c cs => exact ⟨c, cs, rfl⟩
  simp only [List.all_cons, Bool.and_eq_true] at hw
  have h0 : go {} (renderCmd (c :: cs) args ++ pipeSfx ctx) = go (inW [] (c :: cs) false) (argsText args ++ pipeSfx ctx) := by
    simp only [renderCmd, List.cons_append, go, argsText_eq, List.append_assoc]
    have : ({} : St) = clean [] false := rfl
    rw [this, step_clean_word [] false c _ hw.1, go_word cs [] [c] false _ hw.2]
    simp
  have hsp0 : SpaceOk (inW [] (c :: cs) false) [([], c :: cs)] := by
    intro n
    exact ⟨[], false, Or.inl rfl, by rw [step_inW_space]; rfl⟩
  obtain ⟨s', toks, hgo, hrel, hfin, hsp⟩ := go_argsG args (inW [] (c :: cs) false) [([], c :: cs)] (pipeSfx ctx)
    (fun _ => hsp0) (by simp [finish, inW]) hok hdl
  refine ⟨toks, hrel, ?_⟩
  simp only [parseLine, parseLineInfo, harith, Bool.false_eq_true, ↓reduceIte]
  rw [h0, hgo]
  by_cases hc : ctx = .pipe
  · subst hc
    obtain ⟨sp, hd, hsp1, hstep⟩ := hsp hsp0 (hlast rfl) (some '|')
    have e : pipeSfx .pipe = [' ', '|', ' ', 'q'] := rfl
    simp only [e, go, List.head?_cons, List.head?_nil]
    rw [hstep, step_B_pipe _ _ _ _ (by simp) hsp1, step_B_blank _ _ _ _ (Or.inl rfl)]
    have hq : isSpecial 'q' = false := by decide
    have := step_raw_new ([([], c :: cs)] ++ toks ++ [([], ['|'])]) [] [] hd [] 'q' none hq
    simp only [B] at this ⊢
    rw [this]
    simp [finish, E, pipeToks]
  · simp only [pipeSfx, hc, ↓reduceIte, go, pipeToks, List.append_nil]
    rw [hfin]; simp

/-! ### list splitting: the rendering is list-safe and ends in a non-blank character -/

theorem safeSeg_esc (a b : Str) : safeSeg none false (renderArg .esc a ++ b) = safeSeg none false b := by
  induction a with
  | nil => simp [renderArg]
  | cons c cs ih =>
    rw [renderEsc_cons]
    by_cases hc : isSpecial c = true
    · simp [hc, safeSeg, ih]
    · have hc' : isSpecial c = false := by simpa using hc
      obtain ⟨_, _, _, a4, _, a6, a7, a8, a9, a10, _, _, a13, a14⟩ := notSpecial_facts hc'
      simp [hc', safeSeg, a4, a6, a7, a8, a9, a10, a13, a14, ih]

theorem safeSeg_argsG (args : List (Style × Str)) (b : Str) (ha : ∀ x ∈ args, wordOk x = true) :
    safeSeg none false (argsText args ++ b) = safeSeg none false b := by
  induction args with
  | nil => rfl
  | cons x xs ih =>
    obtain ⟨s, a⟩ := x
    have hx := ha (s, a) (by simp)
    have ih' := ih (fun y hy => ha y (by simp [hy]))
    have e : argsText ((s, a) :: xs) ++ b = ' ' :: (renderArg s a ++ (argsText xs ++ b)) := by
      simp [argsText, List.append_assoc]
    rw [e]
    cases s with
    | sq =>
      have hb : ∀ c ∈ a, c ≠ '\'' := by
        intro c hc e; subst e
        simp [wordOk, okArg] at hx; exact hx hc
      simp only [renderArg, List.cons_append, List.nil_append, List.append_assoc]
      simp only [safeSeg]
      simp [safeSeg_sq a _ hb, ih']
    | dq =>
      have hb : ∀ c ∈ a, c ≠ '"' ∧ c ≠ '\\' := by
        intro c hc
        simp [wordOk, okArg] at hx
        have := hx c hc; simp_all
      simp only [renderArg, List.cons_append, List.nil_append, List.append_assoc]
      simp only [safeSeg]
      simp [safeSeg_dq a _ hb, ih']
    | esc =>
      simp only [safeSeg]
      simp [safeSeg_esc, ih']

theorem renderEsc_snoc (ys : Str) (d : Char) : ∃ zs, renderArg .esc (ys ++ [d]) = zs ++ [d] := by
  by_cases hc : isSpecial d = true
  · exact ⟨renderArg .esc ys ++ ['\\'], by simp [renderArg, hc]⟩
  · have hc' : isSpecial d = false := by simpa using hc
    exact ⟨renderArg .esc ys, by simp [renderArg, hc']⟩

/-- the last argument, if escaped, does not end in white space -/
def lastNoWs (args : List (Style × Str)) : Prop :=
  ∀ a, args.getLast? = some (.esc, a) → ∀ d, a.getLast? = some d → isWs d = false

theorem renderCmd_snocG (p : Str) (args : List (Style × Str)) (hw : p.all wordChar = true) (hne : p ≠ [])
    (ha : ∀ x ∈ args, wordOk x = true) (hl : lastNoWs args) :
    ∃ ys d, renderCmd p args = ys ++ [d] ∧ isWs d = false := by
  rcases List.eq_nil_or_concat args with rfl | ⟨as, x, rfl⟩
  · rcases List.eq_nil_or_concat p with rfl | ⟨ys, d, rfl⟩
    · exact absurd rfl hne
    · refine ⟨ys, d, by simp [renderCmd], ?_⟩
      apply wordChar_nonws
      exact (List.all_eq_true.mp hw) d (by simp)
  · obtain ⟨s, a⟩ := x
    have hx : wordOk (s, a) = true := ha (s, a) (by simp)
    cases s with
    | sq => exact ⟨p ++ argsText as ++ ' ' :: '\'' :: a, '\'', by simp [renderCmd, argsText, renderArg, List.append_assoc], by decide⟩
    | dq => exact ⟨p ++ argsText as ++ ' ' :: '"' :: a, '"', by simp [renderCmd, argsText, renderArg, List.append_assoc], by decide⟩
    | esc =>
      simp only [wordOk, Bool.and_eq_true, Bool.not_eq_true', List.isEmpty_eq_false_iff] at hx
      rcases List.eq_nil_or_concat a with rfl | ⟨ys, d, rfl⟩
      · exact absurd rfl hx.1
      · rw [List.concat_eq_append] at *
        obtain ⟨zs, hz⟩ := renderEsc_snoc ys d
        refine ⟨p ++ argsText as ++ ' ' :: zs, d, ?_, hl (ys ++ [d]) (by simp) d (by simp)⟩
        simp [renderCmd, argsText, hz, List.append_assoc]

/-- list splitting hands the first pipeline (with its `| q` stage in the pipe context) to `from_line` -/
theorem lineToCmds_firstG (p : Str) (args : List (Style × Str)) (ctx : Ctx)
    (hw : p.all wordChar = true) (hne : p ≠ []) (ha : ∀ x ∈ args, wordOk x = true)
    (hl : ctx ≠ .pipe → lastNoWs args) :
    ∃ rest, lineToCmds (renderLine p args ctx) = (renderCmd p args ++ pipeSfx ctx) :: rest := by
  obtain ⟨c, cs, hpc⟩ : ∃ c cs, p = c :: cs := by
    cases p with
    | nil => exact absurd rfl hne
    | cons c cs => exact ⟨c, cs, rfl⟩
  have hcw : wordChar c = true := by subst hpc; simp at hw; exact hw.1
  have hrc : renderCmd p args = c :: (cs ++ argsText args) := by subst hpc; simp [renderCmd, argsText]
  have hsafe : ∀ b, safeSeg none false (renderCmd p args ++ b) = safeSeg none false b := by
    intro b
    simp only [renderCmd, List.append_assoc]
    rw [safeSeg_word p _ hw]
    exact safeSeg_argsG args b ha
  have hnsep : ∀ t : Str, t.head? = some c → isListSep t = false := by
    intro t ht
    obtain ⟨_, _, _, _, _, _, _, _, _, a10, _, _⟩ := wordChar_facts hcw
    have a13 : c ≠ ';' := by intro e; subst e; revert hcw; decide
    have a14 : c ≠ '&' := by intro e; subst e; revert hcw; decide
    cases t with
    | nil => simp at ht
    | cons x xs =>
      simp at ht; subst ht
      simp [isListSep, a10, a13, a14]
  have hne2 : renderCmd p args ≠ [] := by rw [hrc]; simp
  by_cases hctx : ctx = .pipe
  · subst hctx
    let pr : Prog := { first := renderCmd p args ++ [' ', '|', ' ', 'q'], rest := [] }
    have hr : render pr = renderLine p args .pipe := by simp [render, renderLine, pr, Ctx.suffix]
    have htrim : trim (renderCmd p args ++ [' ', '|', ' ', 'q']) = renderCmd p args ++ [' ', '|', ' ', 'q'] := by
      rw [hrc]
      exact trim_id c 'q' _ (c :: (cs ++ argsText args) ++ [' ', '|', ' ']) (by simp) (wordChar_nonws c hcw) (by decide)
    have hgd : C03.guard pr = true := by
      have s1 : safeSeg none false (renderCmd p args ++ [' ', '|', ' ', 'q']) = true := by
        rw [hsafe]; decide
      have s2 : isListSep (renderCmd p args ++ [' ', '|', ' ', 'q']) = false := hnsep _ (by rw [hrc]; rfl)
      have hne3 : renderCmd p args ++ [' ', '|', ' ', 'q'] ≠ [] := by simp [hne2]
      simp [C03.guard, segOk, pr, s1, htrim, hne3, s2]
    refine ⟨[], ?_⟩
    rw [← hr, lineToCmds_render pr hgd]
    simp [items, itemsRest, pr, htrim, pipeSfx]
  · obtain ⟨ys, d, hsn, hd⟩ := renderCmd_snocG p args hw hne ha (hl hctx)
    have htrim1 : trim (renderCmd p args) = renderCmd p args := by
      rw [hrc]; exact trim_id c d _ ys (by rw [← hrc]; exact hsn) (wordChar_nonws c hcw) hd
    have htrim2 : trim (renderCmd p args ++ [' ']) = renderCmd p args := by
      rw [hrc]; exact trim_pad_right c d _ ys (by rw [← hrc]; exact hsn) (wordChar_nonws c hcw) hd
    have e0 : renderCmd p args ++ pipeSfx ctx = renderCmd p args := by simp [pipeSfx, hctx]
    rw [e0]
    have mk : ∀ (o : ListOp), ctx.suffix = ' ' :: (o.text ++ " q".toList) →
        ∃ rest, lineToCmds (renderLine p args ctx) = renderCmd p args :: rest := by
      intro o hs
      let pr : Prog := { first := renderCmd p args ++ [' '], rest := [(o, " q".toList)] }
      have hr : render pr = renderLine p args ctx := by
        simp [render, renderLine, pr, hs, List.append_assoc]
      have hgd : C03.guard pr = true := by
        have s1 : safeSeg none false (renderCmd p args ++ [' ']) = true := by
          rw [hsafe]; decide
        have s2 : isListSep (trim (renderCmd p args ++ [' '])) = false := by
          rw [htrim2]; exact hnsep _ (by rw [hrc]; rfl)
        have s3 : segOk " q".toList = true := by decide
        have s2' : isListSep (renderCmd p args) = false := by rw [← htrim2]; exact s2
        have s3' : segOk [' ', 'q'] = true := s3
        simp only [C03.guard, pr, List.all_cons, List.all_nil, Bool.and_true, Bool.and_eq_true]
        refine ⟨?_, s3'⟩
        simp [segOk, s1, htrim2, hne2, s2']
      refine ⟨itemsRest pr.rest, ?_⟩
      rw [← hr, lineToCmds_render pr hgd]
      simp [items, pr, htrim2]
    cases ctx with
    | alone =>
      let pr : Prog := { first := renderCmd p args, rest := [] }
      have hr : render pr = renderLine p args .alone := by simp [render, renderLine, pr, Ctx.suffix]
      have hgd : C03.guard pr = true := by
        have s1 : safeSeg none false (renderCmd p args) = true := by
          have := hsafe []; simp at this; rw [this]; rfl
        have s2' : isListSep (renderCmd p args) = false := hnsep _ (by rw [hrc]; rfl)
        simp [C03.guard, segOk, pr, s1, htrim1, hne2, s2']
      refine ⟨[], ?_⟩
      rw [← hr, lineToCmds_render pr hgd]
      simp [items, itemsRest, pr, htrim1]
    | pipe => exact absurd rfl hctx
    | semi => exact mk .semi rfl
    | and => exact mk .and rfl
    | or => exact mk .or rfl

/-! ### the expansion passes on quiet tokens -/

/-- a token that every expansion pass leaves alone: single-quoted; or free of `$` and backquote and either
double-quoted, `\`-tagged, or untagged without `{`, `*` and a leading `~` -/
def Quiet (t : Tok) : Prop :=
  t.1 = ['\''] ∨
  ((∀ c ∈ t.2, c ≠ '$' ∧ c ≠ '`') ∧
    (t.1 = ['"'] ∨ t.1 = ['\\'] ∨ (t.1 = [] ∧ (∀ c ∈ t.2, c ≠ '{' ∧ c ≠ '*') ∧ t.2.head? ≠ some '~')))

theorem map_fix {α} (f : α → α) (l : List α) (h : ∀ t ∈ l, f t = t) : l.map f = l := by
  induction l with
  | nil => rfl
  | cons t rest ih => simp [h t (by simp), ih (fun x hx => h x (by simp [hx]))]

theorem expandHome_quiet (e : Env) (ts : List Tok) (h : ∀ t ∈ ts, Quiet t) : expandHome e ts = ts := by
  apply map_fix
  intro t ht
  obtain ⟨sep, text⟩ := t
  rcases h _ ht with h1 | ⟨_, h1 | h1 | ⟨_, _, h3⟩⟩
  · simp only at h1; simp [h1]
  · simp only at h1; simp [h1]
  · simp only at h1; simp [h1]
  · simp only at h3; simp [h3]

theorem expandEnv_quiet (e : Env) (ts : List Tok) (h : ∀ t ∈ ts, Quiet t) : expandEnv e ts = ts := by
  apply map_fix
  intro t ht
  obtain ⟨sep, text⟩ := t
  rcases h _ ht with h1 | ⟨h0, _⟩
  · simp only at h1; simp [h1]
  · simp only at h0
    simp [envInToken_false text (fun c hc => (h0 c hc).1)]

theorem expandBrace_quiet (ts : List Tok) (h : ∀ t ∈ ts, Quiet t) : expandBrace ts = .ok ts := by
  induction ts with
  | nil => rfl
  | cons t rest ih =>
    obtain ⟨sep, text⟩ := t
    have ih' := ih (fun x hx => h x (by simp [hx]))
    rcases h (sep, text) (by simp) with h1 | ⟨_, h1 | h1 | ⟨h1, h2, _⟩⟩
    · simp only at h1; simp [expandBrace, ih', Outcome.bind, h1]
    · simp only at h1; simp [expandBrace, ih', Outcome.bind, h1]
    · simp only at h1; simp [expandBrace, ih', Outcome.bind, h1]
    · simp only at h1 h2
      simp [expandBrace, ih', Outcome.bind, h1, needExpandBrace_false text (fun c hc => (h2 c hc).1)]

theorem expandGlob_quiet (e : Env) (ts : List Tok) (h : ∀ t ∈ ts, Quiet t) : expandGlob e ts = ts := by
  have key : expandGlobGo e ts = some ts := by
    induction ts with
    | nil => rfl
    | cons t rest ih =>
      obtain ⟨sep, text⟩ := t
      have ih' := ih (fun x hx => h x (by simp [hx]))
      rcases h (sep, text) (by simp) with h1 | ⟨_, h1 | h1 | ⟨h1, h2, _⟩⟩
      · simp only at h1; simp [expandGlobGo, globToken, ih', h1]
      · simp only at h1; simp [expandGlobGo, globToken, ih', h1]
      · simp only at h1; simp [expandGlobGo, globToken, ih', h1]
      · simp only at h1 h2
        have : ¬ ('*' ∈ text) := fun hm => (h2 '*' hm).2 rfl
        simp [expandGlobGo, globToken, ih', h1, this]
  simp [expandGlob, key]

theorem expandBraceRange_quiet (ts : List Tok) (h : ∀ t ∈ ts, Quiet t) : expandBraceRange ts = ts := by
  have key : expandRangeGo ts = some ts := by
    induction ts with
    | nil => rfl
    | cons t rest ih =>
      obtain ⟨sep, text⟩ := t
      have ih' := ih (fun x hx => h x (by simp [hx]))
      rcases h (sep, text) (by simp) with h1 | ⟨_, h1 | h1 | ⟨h1, h2, _⟩⟩
      · simp only at h1; simp [expandRangeGo, rangeToken, ih', h1]
      · simp only at h1; simp [expandRangeGo, rangeToken, ih', h1]
      · simp only at h1; simp [expandRangeGo, rangeToken, ih', h1]
      · simp only at h1 h2
        simp [expandRangeGo, rangeToken, ih', h1, findRange_none text (fun c hc => (h2 c hc).1)]
  simp [expandBraceRange, key]

theorem substDotGo_quiet (se : SubstEnv) (ts : List Tok) : ∀ (f idx : Nat), ts.length < f → (∀ t ∈ ts, Quiet t) →
    substDotGo se f idx ts = .ok [] := by
  induction ts with
  | nil => intro f idx hf _; cases f with
    | zero => omega
    | succ f => rfl
  | cons t rest ih =>
    intro f idx hf h
    cases f with
    | zero => simp at hf
    | succ f =>
      obtain ⟨sep, tok⟩ := t
      have hrest := ih f (idx + 1) (by simp at hf; omega) (fun x hx => h x (by simp [hx]))
      rcases h (sep, tok) (by simp) with h1 | ⟨h0, h1⟩
      · simp only at h1; subst h1; simp [substDotGo, hrest]
      · simp only at h0 h1
        have hm := matchBackquote_none tok (fun c hc => (h0 c hc).2)
        rcases h1 with h1 | h1 | ⟨h1, _⟩ <;> subst h1 <;> simp [substDotGo, hm, hrest]

theorem substDollarGo_quiet (se : SubstEnv) (ts : List Tok) : ∀ (f idx : Nat), ts.length < f → (∀ t ∈ ts, Quiet t) →
    substDollarGo se f idx ts = .ok (some []) := by
  induction ts with
  | nil => intro f idx hf _; cases f with
    | zero => omega
    | succ f => rfl
  | cons t rest ih =>
    intro f idx hf h
    cases f with
    | zero => simp at hf
    | succ f =>
      obtain ⟨sep, tok⟩ := t
      have hrest := ih f (idx + 1) (by simp at hf; omega) (fun x hx => h x (by simp [hx]))
      rcases h (sep, tok) (by simp) with h1 | ⟨h0, _⟩
      · simp only at h1; subst h1; simp [substDollarGo, hrest]
      · simp only at h0
        have hm := shouldDoDollar_false tok (fun c hc => (h0 c hc).1)
        simp [substDollarGo, hm, hrest]

theorem expandAliasGo_false_append (e : Env) (qs tl : List Tok) (h : ∀ t ∈ qs, ¬ (t.1 = [] ∧ t.2 = ['|'])) :
    expandAliasGo e false (qs ++ tl) = qs ++ expandAliasGo e false tl := by
  induction qs with
  | nil => rfl
  | cons t rest ih =>
    obtain ⟨sep, text⟩ := t
    have hne := h (sep, text) (by simp)
    simp only at hne
    simp [expandAliasGo, hne, ih (fun x hx => h x (by simp [hx]))]

theorem word_quiet (p : Str) (hw : p.all wordChar = true) : Quiet ([], p) := by
  refine Or.inr ⟨fun c hc => ⟨word_no p hw '$' (by decide) c hc, word_no p hw '`' (by decide) c hc⟩,
    Or.inr (Or.inr ⟨rfl, fun c hc => ⟨word_no p hw '{' (by decide) c hc, word_no p hw '*' (by decide) c hc⟩, ?_⟩)⟩
  intro e
  have e' : p.head? = some '~' := e
  exact word_no p hw '~' (by decide) '~' (List.mem_of_mem_head? e') rfl

/-- **the whole expansion is the identity** on a plain program word followed by quiet tokens that alias expansion
leaves alone -/
theorem doExpansion_quiet (se : SubstEnv) (p : Str) (ts : List Tok) (f : Nat)
    (hw : p.all wordChar = true) (hl : p.any isAlphaA = true) (hq : ∀ t ∈ ts, Quiet t)
    (ha : lookup se.env.aliases p = none) (hx : p ≠ "xargs".toList)
    (hal : expandAliasGo se.env false ts = ts) (hf : ts.length + 2 < f) :
    doExpansion se f (([], p) :: ts) = .ok (([], p) :: ts) := by
  cases f with
  | zero => omega
  | succ f =>
    have n1 := word_no p hw '|' (by decide)
    have hp1 : p ≠ ['|'] := by intro e; exact n1 '|' (by simp [e]) rfl
    have harith : isArithmetic (tokensToLine (([], p) :: ts)) = false := by
      apply any_alpha_not_arith
      simp only [tokensToLine, List.map_cons]
      apply joinWith_any_head
      simpa [tokenToText] using hl
    have hall : ∀ t ∈ ([], p) :: ts, Quiet t := by
      intro t ht
      simp at ht
      rcases ht with rfl | ht
      · exact word_quiet p hw
      · exact hq t ht
    have hx' : ¬ p = ['x', 'a', 'r', 'g', 's'] := hx
    have e1 : expandAlias se.env (([], p) :: ts) = ([], p) :: ts := by
      simp [expandAlias, expandAliasGo, hp1, hx', ha, hal]
    simp only [doExpansion, harith, Bool.false_eq_true, ↓reduceIte]
    split
    · rfl
    · rw [e1, expandHome_quiet _ _ hall, expandEnv_quiet _ _ hall, expandBrace_quiet _ hall]
      simp only [Outcome.bind]
      rw [expandGlob_quiet _ _ hall, substDotGo_quiet se _ f 0 (by simp; omega) hall]
      simp only [doExpansion.applyUpdates, List.foldl_nil]
      rw [substDollarGo_quiet se _ f 0 (by simp; omega) hall]
      simp only [List.foldl_nil, expandBraceRange_quiet _ hall]

/-! ### planning -/

/-- tokens that planning treats as plain argument words: tagged, or untagged text that is not `|`, does not start
with `<` and holds no `>` (an untagged `&` is fine unless it is the last token) -/
def ArgTok' (t : Tok) : Prop :=
  t.1 ≠ [] ∨ (t.2 ≠ ['|'] ∧ t.2.head? ≠ some '<' ∧ ∀ c ∈ t.2, c ≠ '>')

theorem splitAttached_args' : ∀ (ts : List Tok), (∀ t ∈ ts, ArgTok' t) → splitAttached ts = ts := by
  intro ts
  induction ts with
  | nil => intro _; rfl
  | cons t rest ih =>
    intro h
    obtain ⟨sep, text⟩ := t
    have ht := h (sep, text) List.mem_cons_self
    have hr := ih (fun x hx => h x (List.mem_cons_of_mem _ hx))
    unfold splitAttached
    have hnot : ∀ k, sep = [] → text.take (k + 1) ≠ '<' :: List.replicate k '<' := by
      intro k hs e
      rcases ht with h1 | ⟨_, h2, _⟩
      · exact h1 hs
      · cases text with
        | nil => simp at e
        | cons c cs => simp at e h2; exact h2 e.1
    have c1 : ¬ (sep = [] ∧ text.length > 3 ∧ text.take 3 = ['<', '<', '<']) := fun ⟨a, _, b⟩ => hnot 2 a (by simpa using b)
    have c2 : ¬ (sep = [] ∧ text.length > 1 ∧ text.take 1 = ['<'] ∧ text.take 2 ≠ ['<', '<']) := fun ⟨a, _, b, _⟩ => hnot 0 a (by simpa using b)
    rw [if_neg c1, if_neg c2, hr]

theorem redirGo_args' (ts : List Tok) : ∀ (st : RState), st.cont = false → (∀ t ∈ ts, ArgTok' t) →
    redirGo st ts = .ok { st with toks := st.toks ++ ts } := by
  induction ts with
  | nil => intro st _ _; simp [redirGo]
  | cons t rest ih =>
    intro st hc h
    obtain ⟨sep, word⟩ := t
    have hstep : redirStep st (sep, word) = .ok { st with toks := st.toks ++ [(sep, word)] } := by
      rcases h (sep, word) (by simp) with h1 | ⟨_, _, h5⟩
      · simp only at h1; simp [redirStep, h1, hc]
      · simp only at h5
        have : ¬ ('>' ∈ word) := fun hm => h5 '>' hm rfl
        by_cases hs : sep = []
        · simp [redirStep, hs, hc, this]
        · simp [redirStep, hs, hc]
    simp only [redirGo, hstep]
    rw [ih _ (by simpa using hc) (fun x hx => h x (by simp [hx]))]
    simp [List.append_assoc]

theorem fromLoop_args' (ts : List Tok) (n : Nat) (h : ∀ t ∈ ts, ArgTok' t) :
    fromLoop n (ts, [], []) = (ts, [], []) := by
  cases n with
  | zero => rfl
  | succ n =>
    have : ts.any (fun x => x.1 = [] ∧ (x.2 = ['<'] ∨ x.2 = ['<', '<', '<'])) = false := by
      simp only [List.any_eq_false, decide_eq_true_eq]
      intro x hx ⟨h1, h2⟩
      rcases h x hx with h3 | ⟨_, h3, _⟩
      · exact h3 h1
      · rcases h2 with h2 | h2 <;> (rw [h2] at h3; simp at h3)
    simp only [fromLoop]
    rw [this]
    simp

theorem fromTokens_args' (ts : List Tok) (hne : ts ≠ []) (h : ∀ t ∈ ts, ArgTok' t) :
    fromTokens ts = .ok { tokens := ts, redirectsTo := [], redirectFrom := none } := by
  have hr : tokensToRedirections ts = .ok (ts, []) := by
    simp [tokensToRedirections, redirGo_args' ts {} rfl h]
  simp [fromTokens, splitAttached_args' ts h, fromLoop_args' ts _ h, hr, hne]

theorem splitByPipesGo_append (ts : List Tok) : ∀ (cmd rest : List Tok) (cmds : List (List Tok)),
    (∀ t ∈ ts, ¬ (t.1 = [] ∧ t.2 = ['|'])) →
    splitByPipesGo cmd (ts ++ rest) cmds = splitByPipesGo (cmd ++ ts) rest cmds := by
  induction ts with
  | nil => intro cmd rest cmds _; simp
  | cons t more ih =>
    intro cmd rest cmds h
    obtain ⟨sep, v⟩ := t
    have h1 := h (sep, v) (by simp)
    simp only at h1
    simp only [List.cons_append, splitByPipesGo, h1, ↓reduceIte]
    rw [ih _ _ _ (fun x hx => h x (by simp [hx]))]
    simp [List.append_assoc]

def stage (ts : List Tok) : Command := { tokens := ts, redirectsTo := [], redirectFrom := none }

/-- planning a program word followed by argument tokens, and the decoy stage in the pipe context -/
theorem planOfTokens_G (p : Str) (qs : List Tok) (ctx : Ctx) (hp : ∀ c ∈ p, c ≠ '=') (hpa : ArgTok' ([], p))
    (hq : ∀ t ∈ qs, ArgTok' t) (hlast : ctx ≠ .pipe → qs.getLast? ≠ some ([], ['&'])) :
    planOfTokens (([], p) :: qs ++ pipeToks ctx) =
      .ok { commands := stage (([], p) :: qs) :: (if ctx = .pipe then [stage [([], ['q'])]] else []),
            envs := [], background := false } := by
  have hall : ∀ t ∈ ([], p) :: qs, ArgTok' t := by
    intro t ht; simp at ht; rcases ht with rfl | ht
    · exact hpa
    · exact hq t ht
  have hnp : ∀ t ∈ ([], p) :: qs, ¬ (t.1 = [] ∧ t.2 = ['|']) := by
    intro t ht ⟨h1, h2⟩
    rcases hall t ht with h3 | ⟨h3, _⟩
    · exact h3 h1
    · exact h3 h2
  have hdrain : ∀ tl, drainEnvTokens (([], p) :: qs ++ tl) = ([], ([], p) :: qs ++ tl) := by
    intro tl
    simp [drainEnvTokens, reEnvAssign_none p hp]
  by_cases hc : ctx = .pipe
  · subst hc
    have hbg : ¬ ((([], p) :: qs ++ pipeToks .pipe).length > 1 ∧
        (([], p) :: qs ++ pipeToks .pipe).getLast? = some ([], ['&'])) := by
      intro ⟨_, h2⟩
      have e : ([], p) :: qs ++ pipeToks .pipe = (([], p) :: qs ++ [([], ['|'])]) ++ [([], ['q'])] := by
        simp [pipeToks]
      rw [e, List.getLast?_append] at h2
      simp at h2
    have hqa : ∀ t ∈ [(([] : Str), ['q'])], ArgTok' t := by
      intro t ht; simp at ht; subst ht
      exact Or.inr ⟨by decide, by decide, by decide⟩
    unfold planOfTokens
    rw [hdrain]
    simp only
    rw [if_neg hbg]
    have hs : splitByPipes (([], p) :: qs ++ pipeToks .pipe) = [([], p) :: qs, [([], ['q'])]] := by
      simp only [splitByPipes]
      rw [splitByPipesGo_append _ _ _ _ hnp]
      simp [pipeToks, splitByPipesGo]
    rw [hs]
    simp [fromTokensAll, fromTokens_args' _ (by simp) hall, fromTokens_args' _ (by simp) hqa, stage]
  · have e0 : pipeToks ctx = [] := by simp [pipeToks, hc]
    have hbg : ¬ ((([], p) :: qs).length > 1 ∧ (([], p) :: qs).getLast? = some ([], ['&'])) := by
      intro ⟨h1, h2⟩
      cases qs with
      | nil => simp at h1
      | cons y ys =>
        rw [List.getLast?_cons_cons] at h2
        exact hlast hc h2
    have hd := hdrain []
    simp only [List.append_nil] at hd
    rw [e0, List.append_nil]
    unfold planOfTokens
    rw [hd]
    simp only
    rw [if_neg hbg]
    simp only [splitByPipes, splitByPipesGo_noPipe _ [] [] hnp]
    simp [fromTokensAll, fromTokens_args' _ (by simp) hall, stage, hc]

end Cicada.C01
