import Cicada.Model.ParserLine
/-!
# `tokens_to_redirections` reads every accepted spelling of a redirection back as the intended triple
-/
namespace Cicada.RedirParse

/-- the descriptor prefix: nothing (= 1), `1` or `2` -/
inductive FdP | none | one | two
  deriving DecidableEq, Repr

def FdP.text : FdP → Str
  | .none => []
  | .one => ['1']
  | .two => ['2']

def FdP.fd : FdP → Str
  | .none => ['1']
  | .one => ['1']
  | .two => ['2']

inductive Item where
  /-- an ordinary argument (any quoting tag); unquoted ones contain no `>` -/
  | word (sep w : Str)
  /-- `n> f`, `n>> f`: attached (`n>f`) or with a blank after the operator (two tokens) -/
  | file (p : FdP) (append spaced : Bool) (tsep target : Str)
  /-- `2>&1`, `1>&2`, `>&2` -/
  | dup (p : FdP) (to : Nat)
  deriving Repr

def opText (append : Bool) : Str := if append then ['>', '>'] else ['>']

def Item.render : Item → List Tok
  | .word sep w => [(sep, w)]
  | .file p a false _ tgt => [([], p.text ++ opText a ++ tgt)]
  | .file p a true tsep tgt => [([], p.text ++ opText a), (tsep, tgt)]
  | .dup p to => [([], p.text ++ ['>', '&'] ++ (if to = 1 then ['1'] else ['2']))]

def Item.redir : Item → Option Redir
  | .word _ _ => none
  | .file p a _ _ tgt => some (p.fd, opText a, tgt)
  | .dup p to => some (p.fd, ['>'], ['&'] ++ (if to = 1 then ['1'] else ['2']))

def Item.arg : Item → Option Tok
  | .word sep w => some (sep, w)
  | _ => none

/-- side conditions under which a spelling is one the shell accepts -/
def Item.ok : Item → Bool
  | .word sep w => sep ≠ [] || !w.contains '>'
  | .file _ _ false _ tgt => tgt ≠ [] && tgt.all (· ≠ '>') && tgt.head? ≠ some '&'
  | .file _ _ true tsep tgt => !(tsep = [] && tgt.head? = some '&')
  | .dup _ to => to = 1 || to = 2

theorem splitRedirWord_attached (p : FdP) (a : Bool) (tgt : Str) (h1 : tgt ≠ []) (h2 : tgt.all (· ≠ '>') = true) :
    splitRedirWord (p.text ++ opText a ++ tgt) = some (p.text, opText a, tgt) := by
  have hhead : ∀ c r, tgt = c :: r → c ≠ '>' := by
    intro c r e; subst e; simp at h2; exact h2.1
  cases tgt with
  | nil => exact absurd rfl h1
  | cons c r =>
    have hc := hhead c r rfl
    have hr : '>' ∉ r := by
      intro hm; simp at h2; exact h2.2 _ hm rfl
    cases p <;> cases a <;> simp [splitRedirWord, FdP.text, opText, List.takeWhile, List.dropWhile, hc] <;>
      simp_all

theorem splitRedirWord_spaced (p : FdP) (a : Bool) :
    splitRedirWord (p.text ++ opText a) = some (p.text, opText a, []) := by
  cases p <;> cases a <;> simp [splitRedirWord, FdP.text, opText, List.takeWhile, List.dropWhile]

theorem isDigitU_1 : isDigitU '1' = true := by decide +kernel
theorem isDigitU_2 : isDigitU '2' = true := by decide +kernel

theorem reAllDigitsU_fdp (p : FdP) : reAllDigitsU p.text = decide (p ≠ .none) := by
  cases p <;> simp [reAllDigitsU, FdP.text, isDigitU_1, isDigitU_2]

theorem contains_gt (p : FdP) (a : Bool) (rest : Str) : (p.text ++ opText a ++ rest).contains '>' = true := by
  cases p <;> cases a <;> simp [FdP.text, opText]

theorem rad_nil : reAllDigitsU [] = false := by simp [reAllDigitsU]
theorem rad_1 : reAllDigitsU ['1'] = true := by simp [reAllDigitsU, isDigitU_1]
theorem rad_2 : reAllDigitsU ['2'] = true := by simp [reAllDigitsU, isDigitU_2]

theorem redirStep_word (st : RState) (sep w : Str) (hc : st.cont = false) (hok : (Item.word sep w).ok = true) :
    redirStep st (sep, w) = .ok { st with toks := st.toks ++ [(sep, w)] } := by
  unfold redirStep
  simp only [Item.ok, Bool.or_eq_true, decide_eq_true_eq, Bool.not_eq_eq_eq_not, Bool.not_true] at hok
  by_cases hs : sep = []
  · subst hs
    have hw : '>' ∉ w := by
      rcases hok with h | h
      · exact absurd rfl h
      · simpa using h
    simp [hc, hw]
  · simp [hs, hc]

theorem mem_op (a : Bool) : '>' ∈ opText a := by cases a <;> simp [opText]

theorem redirStep_attached (st : RState) (p : FdP) (a : Bool) (tsep tgt : Str) (hc : st.cont = false)
    (hok : (Item.file p a false tsep tgt).ok = true) :
    redirStep st ([], p.text ++ opText a ++ tgt) = .ok { st with redirs := st.redirs ++ [(p.fd, opText a, tgt)] } := by
  simp only [Item.ok, Bool.and_eq_true, decide_eq_true_eq, ne_eq] at hok
  obtain ⟨⟨h1, h2⟩, h3⟩ := hok
  unfold redirStep
  have h3' : tgt.head? ≠ some '&' := by simpa using h3
  have hnb : ¬ (tgt.head? = some '&' ∧ tgt ≠ ['&', '1'] ∧ tgt ≠ ['&', '2']) := fun h => h3' h.1
  simp only [ne_eq, not_true_eq_false, false_and, ↓reduceIte, hc, Bool.false_eq_true, contains_gt, Bool.not_true,
    splitRedirWord_attached p a tgt h1 h2, h1, not_false_eq_true, hnb]
  cases p <;> simp [FdP.text, FdP.fd, rad_nil, rad_1, rad_2]

theorem redirStep_spaced1 (st : RState) (p : FdP) (a : Bool) (hc : st.cont = false) :
    redirStep st ([], p.text ++ opText a) = .ok { st with cont := true, s1 := p.text, s2 := opText a } := by
  unfold redirStep
  simp [hc, mem_op, splitRedirWord_spaced]

theorem redirStep_spaced2 (st : RState) (p : FdP) (op tsep tgt : Str) (hc : st.cont = true) (h1 : st.s1 = p.text) (h2 : st.s2 = op)
    (hok : ¬ (tsep = [] ∧ tgt.head? = some '&')) :
    redirStep st (tsep, tgt) = .ok { st with redirs := st.redirs ++ [(p.fd, op, tgt)], cont := false } := by
  unfold redirStep
  simp only [hc, Bool.not_true, Bool.false_eq_true, and_false, ↓reduceIte, hok, h1, h2]
  cases p <;> simp [FdP.text, FdP.fd, rad_nil, rad_1, rad_2]

theorem redirStep_dup (st : RState) (p : FdP) (to : Nat) (hc : st.cont = false) :
    redirStep st ([], p.text ++ ['>', '&'] ++ (if to = 1 then ['1'] else ['2'])) =
      .ok { st with redirs := st.redirs ++ [(p.fd, ['>'], ['&'] ++ (if to = 1 then ['1'] else ['2']))] } := by
  unfold redirStep
  by_cases h : to = 1 <;> cases p <;>
    simp [h, hc, FdP.text, FdP.fd, splitRedirWord, List.takeWhile, List.dropWhile, rad_nil, rad_1, rad_2]

/-- **every accepted spelling is read back as the intended triple, every other token is left in place**:
for every sequence of ordinary arguments and redirections (attached or spaced, with or without descriptor prefix,
truncate or append, `2>&1` / `1>&2` / `>&2`), in any order -/
theorem redirGo_items : ∀ (items : List Item) (st : RState), st.cont = false → (∀ it ∈ items, it.ok = true) →
    ∃ st', redirGo st (items.flatMap Item.render) = .ok st' ∧ st'.cont = false ∧
      st'.toks = st.toks ++ items.filterMap Item.arg ∧ st'.redirs = st.redirs ++ items.filterMap Item.redir := by
  intro items
  induction items with
  | nil => intro st hc _; exact ⟨st, rfl, hc, by simp, by simp⟩
  | cons it rest ih =>
    intro st hc hok
    have hit := hok it List.mem_cons_self
    have hrest : ∀ x ∈ rest, x.ok = true := fun x hx => hok x (List.mem_cons_of_mem _ hx)
    cases it with
    | word sep w =>
      have hgo : redirGo st ((Item.word sep w).render ++ rest.flatMap Item.render) =
          redirGo { st with toks := st.toks ++ [(sep, w)] } (rest.flatMap Item.render) := by
        simp [Item.render, redirGo, redirStep_word st sep w hc hit]
      obtain ⟨st', h1, h2, h3, h4⟩ := ih { st with toks := st.toks ++ [(sep, w)] } hc hrest
      rw [List.flatMap_cons, hgo]
      exact ⟨st', h1, h2, by rw [h3]; simp [Item.arg, List.filterMap_cons], by rw [h4]; simp [Item.redir, List.filterMap_cons]⟩
    | dup p to =>
      have hgo : redirGo st ((Item.dup p to).render ++ rest.flatMap Item.render) =
          redirGo { st with redirs := st.redirs ++ [(p.fd, ['>'], ['&'] ++ (if to = 1 then ['1'] else ['2']))] } (rest.flatMap Item.render) := by
        simp only [Item.render, List.cons_append, List.nil_append, redirGo, redirStep_dup st p to hc]
      obtain ⟨st', h1, h2, h3, h4⟩ := ih { st with redirs := st.redirs ++ [(p.fd, ['>'], ['&'] ++ (if to = 1 then ['1'] else ['2']))] } hc hrest
      rw [List.flatMap_cons, hgo]
      exact ⟨st', h1, h2, by rw [h3]; simp [Item.arg, List.filterMap_cons], by rw [h4]; simp [Item.redir, List.filterMap_cons]⟩
    | file p a spaced tsep tgt =>
      cases spaced with
      | false =>
        have hgo : redirGo st ((Item.file p a false tsep tgt).render ++ rest.flatMap Item.render) =
            redirGo { st with redirs := st.redirs ++ [(p.fd, opText a, tgt)] } (rest.flatMap Item.render) := by
          simp only [Item.render, List.cons_append, List.nil_append, redirGo, redirStep_attached st p a tsep tgt hc hit]
        obtain ⟨st', h1, h2, h3, h4⟩ := ih { st with redirs := st.redirs ++ [(p.fd, opText a, tgt)] } hc hrest
        rw [List.flatMap_cons, hgo]
        exact ⟨st', h1, h2, by rw [h3]; simp [Item.arg, List.filterMap_cons], by rw [h4]; simp [Item.redir, List.filterMap_cons]⟩
      | true =>
        have hok2 : ¬ (tsep = [] ∧ tgt.head? = some '&') := by
          simp only [Item.ok, Bool.not_eq_eq_eq_not, Bool.not_true, Bool.and_eq_false_imp, decide_eq_true_eq, decide_eq_false_iff_not] at hit
          exact fun h => hit h.1 h.2
        have hgo : redirGo st ((Item.file p a true tsep tgt).render ++ rest.flatMap Item.render) =
            redirGo { st with cont := false, s1 := p.text, s2 := opText a, redirs := st.redirs ++ [(p.fd, opText a, tgt)] } (rest.flatMap Item.render) := by
          simp only [Item.render, List.cons_append, List.nil_append, redirGo, redirStep_spaced1 st p a hc]
          rw [redirStep_spaced2 { st with cont := true, s1 := p.text, s2 := opText a } p (opText a) tsep tgt rfl rfl rfl hok2]
        obtain ⟨st', h1, h2, h3, h4⟩ := ih { st with cont := false, s1 := p.text, s2 := opText a, redirs := st.redirs ++ [(p.fd, opText a, tgt)] } rfl hrest
        rw [List.flatMap_cons, hgo]
        exact ⟨st', h1, h2, by rw [h3]; simp [Item.arg, List.filterMap_cons], by rw [h4]; simp [Item.redir, List.filterMap_cons]⟩

/-- **`tokens_to_redirections` on every well-formed list**: the redirections come back as exactly the intended triples,
in order, and the other tokens are returned untouched, in order -/
theorem tokensToRedirections_items (items : List Item) (hok : ∀ it ∈ items, it.ok = true) :
    tokensToRedirections (items.flatMap Item.render) = .ok (items.filterMap Item.arg, items.filterMap Item.redir) := by
  obtain ⟨st', h1, h2, h3, h4⟩ := redirGo_items items {} rfl hok
  unfold tokensToRedirections
  rw [h1]
  simp [h2, h3, h4]

end Cicada.RedirParse
