import Cicada.Thm.C06b
/-!
# C06 — lemmas for the refinement `modelView ~ specView` on exit-only histories

The *ghost world* `gStep` is the reference world of `Spec/C06.lean` that never forgets a job (the reference
drops the jobs without a live process at each launch).  `okOp`/`wfFrom` are the decidable well-formedness
check of a history (a function of the operation list only: the ghost world is folded along).
The invariant `Inv` links the shell state (`jobs`, the `reap`/`kill` maps, the pending queue) to the ghost
world: a job's pids in the table are exactly the pids of the world job that are not gone or whose exit is
still *in flight* (pending, or parked in a map).

Second part (`GW1`, `TR1`, `Inv1`, `okOp1`/`wfFrom1`): the same for single-process background jobs with stop and
continue events; there the notifications in flight carry the state they leave the process in (`inflSt`), at most one
per process (the ghost `dirty` list of `wfFrom1`: pids notified since the last poll).
-/
namespace Cicada.C06
open Cicada.Jobs

/-! ### generic list facts -/

theorem nodup_map_inj {α β} (f : α → β) : ∀ (l : List α), (l.map f).Nodup → ∀ a ∈ l, ∀ b ∈ l, f a = f b → a = b := by
  intro l
  induction l with
  | nil => intro _ a ha; cases ha
  | cons x xs ih =>
    intro h a ha b hb e
    simp only [List.map_cons, List.nodup_cons, List.mem_map, not_exists, not_and] at h
    simp only [List.mem_cons] at ha hb
    rcases ha with rfl | ha <;> rcases hb with rfl | hb
    · rfl
    · exact absurd e.symm (h.1 b hb)
    · exact absurd e (h.1 a ha)
    · exact ih h.2 a ha b hb e

theorem pairwise_lt_map_inj {α} (f : α → Nat) (l : List α) (h : (l.map f).Pairwise (· < ·)) :
    ∀ a ∈ l, ∀ b ∈ l, f a = f b → a = b :=
  nodup_map_inj f l (h.imp (fun hlt => Nat.ne_of_lt hlt))

/-! ### the ghost world -/

def WJob.pidsOf (j : WJob) : List Pid := j.procs.map (·.1)

/-- a world job whose process `q` (if not gone) becomes gone -/
def goneJob (q : Pid) (j : WJob) : WJob :=
  { j with procs := j.procs.map fun pr => if pr.1 = q ∧ pr.2 ≠ .gone then (pr.1, PState.gone) else pr }

theorem applyEv_exited (w : List WJob) (q : Pid) (c : Int) : applyEv w (.exited q c) = w.map (goneJob q) := by
  unfold applyEv goneJob
  apply List.map_congr_left
  intro j _
  congr 1

theorem applyEv_killed (w : List WJob) (q : Pid) (c : Int) : applyEv w (.killed q c) = w.map (goneJob q) := by
  unfold applyEv goneJob
  apply List.map_congr_left
  intro j _
  congr 1

/-- the reference world, never forgetting a job and never merging (group ids are fresh) -/
def gStep (w : List WJob) : Op → List WJob
  | .launch _ gid pids => w ++ [{ gid := gid, procs := pids.map (fun p => (p, PState.running)) }]
  | .ev e => applyEv w e
  | .waitFg _ _ => w
  | .poll => w

def isRunning (w : List WJob) (p : Pid) : Bool := w.any fun j => j.procs.any fun pr => pr.1 = p ∧ pr.2 = .running
def everLaunched (w : List WJob) (p : Pid) : Bool := w.any fun j => j.pidsOf.contains p

/-- one operation is admissible after the history that produced the ghost world `w`:
a launch brings a non-empty list of pairwise distinct, never used pids under a never used group id;
a child event is an exit or a kill of a process that runs (hence at most one per pid);
a foreground wait names a launched job and some of its pids; a poll is always admissible -/
def okOp (w : List WJob) : Op → Bool
  | .launch _ gid pids => !pids.isEmpty && decide pids.Nodup && pids.all (fun p => !everLaunched w p) && !(w.any (·.gid = gid))
  | .ev (.exited p _) => isRunning w p
  | .ev (.killed p _) => isRunning w p
  | .ev _ => false
  | .waitFg gid pids => w.any fun j => j.gid = gid && pids.all (j.pidsOf.contains ·)
  | .poll => true

def wfFrom (w : List WJob) : List Op → Bool
  | [] => true
  | o :: os => okOp w o && wfFrom (gStep w o) os

/-- facts about the ghost world kept along a well-formed history -/
structure GW (w : List WJob) : Prop where
  gids : (w.map (·.gid)).Nodup
  pids : ∀ j ∈ w, j.pidsOf.Nodup
  owner : ∀ j ∈ w, ∀ j' ∈ w, ∀ p, p ∈ j.pidsOf → p ∈ j'.pidsOf → j = j'
  nostop : ∀ j ∈ w, ∀ pr ∈ j.procs, pr.2 ≠ .stopped

theorem goneJob_gid (q : Pid) (j : WJob) : (goneJob q j).gid = j.gid := rfl

theorem goneJob_pidsOf (q : Pid) (j : WJob) : (goneJob q j).pidsOf = j.pidsOf := by
  unfold goneJob WJob.pidsOf
  simp only [List.map_map]
  apply List.map_congr_left
  intro pr _
  simp only [Function.comp]
  split <;> rfl

theorem goneJob_nostop (q : Pid) (j : WJob) (h : ∀ pr ∈ j.procs, pr.2 ≠ .stopped) : ∀ pr ∈ (goneJob q j).procs, pr.2 ≠ .stopped := by
  intro pr hpr
  simp only [goneJob, List.mem_map] at hpr
  obtain ⟨pr0, h0, rfl⟩ := hpr
  split
  · simp
  · exact h pr0 h0

theorem GW_gone (w : List WJob) (q : Pid) (h : GW w) : GW (w.map (goneJob q)) := by
  refine ⟨?_, ?_, ?_, ?_⟩
  · have : (w.map (goneJob q)).map (·.gid) = w.map (·.gid) := by
      simp only [List.map_map]; apply List.map_congr_left; intro j _; rfl
    rw [this]; exact h.gids
  · intro j hj
    obtain ⟨j0, h0, rfl⟩ := List.mem_map.mp hj
    rw [goneJob_pidsOf]; exact h.pids j0 h0
  · intro j hj j' hj' p hp hp'
    obtain ⟨j0, h0, rfl⟩ := List.mem_map.mp hj
    obtain ⟨j1, h1, rfl⟩ := List.mem_map.mp hj'
    rw [goneJob_pidsOf] at hp hp'
    rw [h.owner j0 h0 j1 h1 p hp hp']
  · intro j hj
    obtain ⟨j0, h0, rfl⟩ := List.mem_map.mp hj
    exact goneJob_nostop q j0 (h.nostop j0 h0)

theorem everLaunched_false {w : List WJob} {p : Pid} (h : everLaunched w p = false) : ∀ j ∈ w, p ∉ j.pidsOf := by
  intro j hj hp
  have : everLaunched w p = true := by
    simp only [everLaunched, List.any_eq_true]
    exact ⟨j, hj, by simpa using hp⟩
  rw [h] at this; cases this

theorem GW_launch (w : List WJob) (gid : Pid) (pids : List Pid) (h : GW w)
    (hnd : pids.Nodup) (hfresh : ∀ p ∈ pids, everLaunched w p = false) (hgid : ∀ j ∈ w, j.gid ≠ gid) :
    GW (w ++ [{ gid := gid, procs := pids.map (fun p => (p, PState.running)) }]) := by
  have hpo : ({ gid := gid, procs := pids.map (fun p => (p, PState.running)) } : WJob).pidsOf = pids := by
    simp [WJob.pidsOf, List.map_map, Function.comp_def]
  refine ⟨?_, ?_, ?_, ?_⟩
  · simp only [List.map_append, List.map_cons, List.map_nil]
    rw [List.nodup_append]
    refine ⟨h.gids, by simp, ?_⟩
    intro a ha b hb
    obtain ⟨j, hj, rfl⟩ := List.mem_map.mp ha
    simp only [List.mem_singleton] at hb
    subst hb
    exact hgid j hj
  · intro j hj
    simp only [List.mem_append, List.mem_singleton] at hj
    rcases hj with hj | rfl
    · exact h.pids j hj
    · rw [hpo]; exact hnd
  · intro j hj j' hj' p hp hp'
    simp only [List.mem_append, List.mem_singleton] at hj hj'
    rcases hj with hj | rfl <;> rcases hj' with hj' | rfl
    · exact h.owner j hj j' hj' p hp hp'
    · rw [hpo] at hp'
      exact absurd hp (everLaunched_false (hfresh p hp') j hj)
    · rw [hpo] at hp
      exact absurd hp' (everLaunched_false (hfresh p hp) j' hj')
    · rfl
  · intro j hj
    simp only [List.mem_append, List.mem_singleton] at hj
    rcases hj with hj | rfl
    · exact h.nostop j hj
    · intro pr hpr
      simp only [List.mem_map] at hpr
      obtain ⟨p, _, rfl⟩ := hpr
      simp

/-- what `isRunning` gives under `GW`: wherever `q` occurs in the world it is running -/
theorem running_everywhere {w : List WJob} (h : GW w) {q : Pid} (hr : isRunning w q = true) :
    ∀ j ∈ w, ∀ pr ∈ j.procs, pr.1 = q → pr.2 = .running := by
  simp only [isRunning, List.any_eq_true, decide_eq_true_eq] at hr
  obtain ⟨j0, hj0, pr0, hpr0, hq0, hst0⟩ := hr
  intro j hj pr hpr hq
  have hp0 : q ∈ j0.pidsOf := List.mem_map.mpr ⟨pr0, hpr0, hq0⟩
  have hp : q ∈ j.pidsOf := List.mem_map.mpr ⟨pr, hpr, hq⟩
  have := h.owner j hj j0 hj0 q hp hp0
  subst this
  have := nodup_map_inj (fun (x : Pid × PState) => x.1) j.procs (h.pids j hj) pr hpr pr0 hpr0 (by rw [hq, hq0])
  rw [this]; exact hst0

/-- the pids of a world job that the table still shows: not gone, or gone with the exit still in flight -/
def kept (D : List Pid) (wj : WJob) : List Pid :=
  (wj.procs.filter (fun pr => pr.2 ≠ .gone || D.contains pr.1)).map (·.1)

theorem kept_sub (D : List Pid) (wj : WJob) : ∀ p ∈ kept D wj, p ∈ wj.pidsOf := by
  intro p hp
  simp only [kept, List.mem_map, List.mem_filter] at hp
  obtain ⟨pr, ⟨h1, _⟩, rfl⟩ := hp
  exact List.mem_map.mpr ⟨pr, h1, rfl⟩

theorem kept_nodup (D : List Pid) (wj : WJob) (h : wj.pidsOf.Nodup) : (kept D wj).Nodup :=
  h.sublist (List.Sublist.map _ List.filter_sublist)

theorem mem_kept (D : List Pid) (wj : WJob) (p : Pid) :
    p ∈ kept D wj ↔ ∃ st, (p, st) ∈ wj.procs ∧ (st ≠ .gone ∨ p ∈ D) := by
  simp only [kept, List.mem_map, List.mem_filter]
  constructor
  · rintro ⟨⟨p', st⟩, ⟨h1, h2⟩, rfl⟩
    exact ⟨st, h1, by simpa using h2⟩
  · rintro ⟨st, h1, h2⟩
    exact ⟨(p, st), ⟨h1, by simpa using h2⟩, rfl⟩

theorem kept_congr (D D' : List Pid) (wj : WJob) (h : ∀ q ∈ wj.pidsOf, (q ∈ D ↔ q ∈ D')) : kept D wj = kept D' wj := by
  unfold kept
  congr 1
  apply List.filter_congr
  intro pr hpr
  have := h pr.1 (List.mem_map.mpr ⟨pr, hpr, rfl⟩)
  by_cases h1 : pr.1 ∈ D
  · simp [h1, this.mp h1]
  · have h2 : pr.1 ∉ D' := fun x => h1 (this.mpr x)
    simp [h1, h2]

theorem kept_gone (D D' : List Pid) (q : Pid) (j : WJob) (hD : ∀ x, x ∈ D' ↔ x ∈ D ∨ x = q)
    (hq : ∀ pr ∈ j.procs, pr.1 = q → pr.2 ≠ .gone) : kept D' (goneJob q j) = kept D j := by
  unfold kept goneJob
  simp only
  generalize j.procs = l at hq
  induction l with
  | nil => rfl
  | cons pr rest ih =>
    have ih := ih (fun pr h => hq pr (List.mem_cons_of_mem _ h))
    have h0 := hq pr List.mem_cons_self
    simp only [List.map_cons, List.filter_cons]
    by_cases hpq : pr.1 = q
    · subst hpq
      have h1 := h0 rfl
      have hq' : pr.1 ∈ D' := (hD pr.1).mpr (Or.inr rfl)
      simp [h1, hq'] at ih ⊢
      exact ih
    · have hmem : pr.1 ∈ D' ↔ pr.1 ∈ D := by rw [hD]; simp [hpq]
      by_cases h1 : pr.1 ∈ D
      · simp [hpq, h1, hmem.mpr h1] at ih ⊢; exact ih
      · have h2 : pr.1 ∉ D' := fun x => h1 (hmem.mp x)
        simp [hpq, h1, h2] at ih ⊢
        split <;> simp [ih]

theorem kept_erase (D D' : List Pid) (p : Pid) (wj : WJob) (hnd : wj.pidsOf.Nodup) (hD : ∀ x, x ∈ D' ↔ x ∈ D ∧ x ≠ p)
    (hp : ∀ pr ∈ wj.procs, pr.1 = p → pr.2 = .gone) : kept D' wj = (kept D wj).erase p := by
  rw [(kept_nodup D wj hnd).erase_eq_filter]
  unfold kept
  rw [List.filter_map, List.filter_filter]
  congr 1
  apply List.filter_congr
  intro pr hpr
  by_cases hpq : pr.1 = p
  · have h1 := hp pr hpr hpq
    have h2 : p ∉ D' := by rw [hD]; simp
    simp [h1, h2, hpq]
  · have hmem : pr.1 ∈ D' ↔ pr.1 ∈ D := by rw [hD]; simp [hpq]
    by_cases h1 : pr.1 ∈ D
    · simp [hpq, h1, hmem.mpr h1]
    · have h2 : pr.1 ∉ D' := fun x => h1 (hmem.mp x)
      simp [hpq, h1, h2]

theorem kept_nil (wj : WJob) : kept [] wj = wj.live := by
  unfold kept WJob.live
  congr 1
  apply List.filter_congr
  intro pr _
  simp

/-- the table against the ghost world, `D` being the pids whose exit is in flight -/
structure TR (jobs : List Job) (gw : List WJob) (D : List Pid) : Prop where
  gids : (jobs.map (·.gid)).Nodup
  sound : ∀ j ∈ jobs, j.status = "Running" ∧ j.pids ≠ [] ∧ ∃ wj ∈ gw, wj.gid = j.gid ∧ j.pids = kept D wj
  complete : ∀ wj ∈ gw, kept D wj ≠ [] → ∃ j ∈ jobs, j.gid = wj.gid

theorem TR_congr {jobs : List Job} {gw : List WJob} {D D' : List Pid} (h : ∀ q, q ∈ D ↔ q ∈ D') (htr : TR jobs gw D) : TR jobs gw D' := by
  have hk : ∀ wj, kept D wj = kept D' wj := fun wj => kept_congr D D' wj (fun q _ => h q)
  refine ⟨htr.gids, ?_, ?_⟩
  · intro j hj
    obtain ⟨h1, h2, wj, h3, h4, h5⟩ := htr.sound j hj
    exact ⟨h1, h2, wj, h3, h4, by rw [← hk]; exact h5⟩
  · intro wj hwj hne
    exact htr.complete wj hwj (by rw [hk]; exact hne)

theorem map_gid_updMap (l : List Job) (i : Nat) (f : Job → Job) (hf : ∀ x, (f x).gid = x.gid) :
    (l.map fun x => if x.id = i then f x else x).map (·.gid) = l.map (·.gid) := by
  induction l with
  | nil => rfl
  | cons x xs ih =>
    simp only [List.map_cons, ih]
    split <;> simp [hf]

theorem TR_removePid (s : Sh) (gw : List WJob) (D D' : List Pid) (gid p : Pid) (hids : IdsOk s) (hgw : GW gw)
    (htr : TR s.jobs gw D) (wj : WJob) (hwj : wj ∈ gw) (hgid : wj.gid = gid) (hpg : (p, PState.gone) ∈ wj.procs)
    (hpD : p ∈ D) (hD : ∀ x, x ∈ D' ↔ x ∈ D ∧ x ≠ p) : TR (removePid s gid p).jobs gw D' := by
  have hpw : p ∈ wj.pidsOf := List.mem_map.mpr ⟨_, hpg, rfl⟩
  have hkept_other : ∀ wj' ∈ gw, wj' ≠ wj → kept D' wj' = kept D wj' := by
    intro wj' h' hne
    apply kept_congr
    intro q hq
    rw [hD]
    constructor
    · exact fun x => x.1
    · intro x
      refine ⟨x, ?_⟩
      rintro rfl
      exact hne (hgw.owner wj' h' wj hwj q hq hpw)
  have hpgone : ∀ pr ∈ wj.procs, pr.1 = p → pr.2 = .gone := by
    intro pr hpr hq
    have := nodup_map_inj (fun (x : Pid × PState) => x.1) wj.procs (hgw.pids wj hwj) pr hpr _ hpg hq
    rw [this]
  have hkept_wj : kept D' wj = (kept D wj).erase p := kept_erase D D' p wj (hgw.pids wj hwj) hD hpgone
  have hpin : p ∈ kept D wj := (mem_kept D wj p).mpr ⟨.gone, hpg, Or.inr hpD⟩
  obtain ⟨j0, hj0, hg0⟩ := htr.complete wj hwj (List.ne_nil_of_mem hpin)
  have hjg := nodup_map_inj (fun (x : Job) => x.gid) s.jobs htr.gids
  have hji := pairwise_lt_map_inj (fun (x : Job) => x.id) s.jobs hids
  have hwg := nodup_map_inj (fun (x : WJob) => x.gid) gw hgw.gids
  have hfind : findGid s gid = some j0 := by
    unfold findGid
    cases hf : s.jobs.find? (·.gid = gid) with
    | none =>
      have := List.find?_eq_none.mp hf j0 hj0
      simp [hg0, hgid] at this
    | some j1 =>
      have h1 := List.mem_of_find?_eq_some hf
      have h2 : j1.gid = gid := by simpa using List.find?_some hf
      rw [hjg j1 h1 j0 hj0 (by rw [h2, hg0, hgid])]
  obtain ⟨hst0, hne0, wj0, hwj0, hg00, hp0⟩ := htr.sound j0 hj0
  have : wj0 = wj := hwg wj0 hwj0 wj hwj (by rw [hg00, hg0])
  subst this
  -- the other jobs
  have hother : ∀ j ∈ s.jobs, j ≠ j0 → j.status = "Running" ∧ j.pids ≠ [] ∧ ∃ wj' ∈ gw, wj'.gid = j.gid ∧ j.pids = kept D' wj' := by
    intro j hj hne
    obtain ⟨h1, h2, wj', h3, h4, h5⟩ := htr.sound j hj
    refine ⟨h1, h2, wj', h3, h4, ?_⟩
    rw [hkept_other wj' h3]
    · exact h5
    · rintro rfl
      exact hne (hjg j hj j0 hj0 (by rw [← h4, hg0]))
  have hcomp_other : ∀ wj' ∈ gw, wj' ≠ wj0 → kept D' wj' ≠ [] → ∃ j ∈ s.jobs, j ≠ j0 ∧ j.gid = wj'.gid := by
    intro wj' h' hne hk
    rw [hkept_other wj' h' hne] at hk
    obtain ⟨j, hj, hg⟩ := htr.complete wj' h' hk
    refine ⟨j, hj, ?_, hg⟩
    rintro rfl
    exact hne (hwg wj' h' wj0 hwj (by rw [← hg, hg0]))
  unfold removePid
  rw [hfind]
  simp only
  split
  · rename_i hemp
    have hemp' : kept D' wj0 = [] := by rw [hkept_wj, ← hp0]; simpa using hemp
    refine ⟨htr.gids.sublist (List.Sublist.map _ List.filter_sublist), ?_, ?_⟩
    · intro j hj
      simp only [List.mem_filter, decide_eq_true_eq] at hj
      exact hother j hj.1 (fun e => hj.2 (by rw [e]))
    · intro wj' h' hk
      have hne : wj' ≠ wj0 := by rintro rfl; exact hk hemp'
      obtain ⟨j, hj, hjne, hg⟩ := hcomp_other wj' h' hne hk
      refine ⟨j, ?_, hg⟩
      simp only [List.mem_filter, decide_eq_true_eq]
      exact ⟨hj, fun e => hjne (hji j hj j0 hj0 e)⟩
  · rename_i hemp
    have hne' : j0.pids.erase p ≠ [] := by simpa using hemp
    unfold updJob
    simp only
    refine ⟨?_, ?_, ?_⟩
    · rw [map_gid_updMap s.jobs j0.id (fun x => { x with pids := j0.pids.erase p }) (fun _ => rfl)]; exact htr.gids
    · intro j' hj'
      obtain ⟨j, hj, rfl⟩ := List.mem_map.mp hj'
      by_cases hid : j.id = j0.id
      · have := hji j hj j0 hj0 hid
        subst this
        simp only [↓reduceIte]
        exact ⟨hst0, hne', wj0, hwj, hg00, by rw [hkept_wj, ← hp0]⟩
      · simp only [hid, ↓reduceIte]
        exact hother j hj (fun e => hid (by rw [e]))
    · intro wj' h' hk
      by_cases hne : wj' = wj0
      · subst hne
        exact ⟨_, List.mem_map.mpr ⟨j0, hj0, rfl⟩, by simp [hg0]⟩
      · obtain ⟨j, hj, hjne, hg⟩ := hcomp_other wj' h' hne hk
        refine ⟨_, List.mem_map.mpr ⟨j, hj, rfl⟩, ?_⟩
        split <;> exact hg

/-- pids whose exit is in flight: pending in the kernel, or parked in the reap / kill map -/
def infl (s : Sh) (pend : List Ev) : List Pid := pend.map Ev.pid ++ s.reap.map (·.1) ++ s.kill.map (·.1)

def exitLike : Ev → Bool
  | .exited _ _ => true
  | .killed _ _ => true
  | _ => false

/-- the invariant (the pending queue is a parameter: `waitFgGo` carries it outside the state) -/
structure Inv (s : Sh) (pend : List Ev) (gw : List WJob) : Prop where
  ids : IdsOk s
  world : GW gw
  stop : s.stop = []
  cont : s.cont = []
  pendOk : ∀ e ∈ pend, exitLike e = true
  nd : (infl s pend).Nodup
  gone : ∀ p ∈ infl s pend, ∃ wj ∈ gw, (p, PState.gone) ∈ wj.procs
  tr : TR s.jobs gw (infl s pend)

theorem removePid_fields (s : Sh) (gid p : Pid) :
    (removePid s gid p).reap = s.reap ∧ (removePid s gid p).kill = s.kill ∧ (removePid s gid p).stop = s.stop ∧
    (removePid s gid p).cont = s.cont ∧ (removePid s gid p).pending = s.pending := by
  unfold removePid
  split
  · simp
  · simp only
    split <;> simp [updJob]

theorem infl_removePid (s : Sh) (gid p : Pid) (pend : List Ev) : infl (removePid s gid p) pend = infl s pend := by
  obtain ⟨h1, h2, _⟩ := removePid_fields s gid p
  simp only [infl, h1, h2]

theorem putMap_keys (l : List (Pid × Int)) (p : Pid) (v : Int) (h : p ∉ l.map (·.1)) : (putMap l p v).map (·.1) = l.map (·.1) ++ [p] := by
  unfold putMap
  have : l.filter (fun x => decide (x.1 ≠ p)) = l := by
    apply List.filter_eq_self.mpr
    intro a ha
    have : a.1 ≠ p := fun e => h (List.mem_map.mpr ⟨a, ha, e⟩)
    simpa using this
  rw [this]; simp

/-- a foreground member's exit is consumed: the pid leaves the table -/
theorem Inv_fgRemove (s : Sh) (e : Ev) (rest : List Ev) (gw : List WJob) (gid : Pid) (h : Inv s (e :: rest) gw)
    (wj : WJob) (hwj : wj ∈ gw) (hgid : wj.gid = gid) (hp : e.pid ∈ wj.pidsOf) : Inv (removePid s gid e.pid) rest gw := by
  have hcons : infl s (e :: rest) = e.pid :: infl s rest := by simp [infl]
  have hnd := h.nd
  rw [hcons, List.nodup_cons] at hnd
  have hpD : e.pid ∈ infl s (e :: rest) := by rw [hcons]; exact List.mem_cons_self
  obtain ⟨wj', hwj', hg'⟩ := h.gone _ hpD
  have : wj' = wj := h.world.owner wj' hwj' wj hwj e.pid (List.mem_map.mpr ⟨_, hg', rfl⟩) hp
  subst this
  obtain ⟨f1, f2, f3, f4, _⟩ := removePid_fields s gid e.pid
  refine ⟨idsOk_removePid s _ _ h.ids, h.world, by rw [f3]; exact h.stop, by rw [f4]; exact h.cont,
    fun x hx => h.pendOk x (List.mem_cons_of_mem _ hx), by rw [infl_removePid]; exact hnd.2, ?_, ?_⟩
  · intro q hq
    rw [infl_removePid] at hq
    exact h.gone q (by rw [hcons]; exact List.mem_cons_of_mem _ hq)
  · rw [infl_removePid]
    apply TR_removePid s gw (infl s (e :: rest)) (infl s rest) gid e.pid h.ids h.world h.tr wj' hwj hgid hg' hpD
    intro x
    rw [hcons]
    simp only [List.mem_cons]
    constructor
    · intro hx; exact ⟨Or.inr hx, fun e' => hnd.1 (e' ▸ hx)⟩
    · rintro ⟨hx | hx, hne⟩
      · exact absurd hx hne
      · exact hx

/-- transport of the invariant along a change of the state that keeps the table and permutes the pids in flight -/
theorem Inv_perm (s s' : Sh) (pend pend' : List Ev) (gw : List WJob) (h : Inv s pend gw)
    (hj : s'.jobs = s.jobs) (hs : s'.stop = s.stop) (hc : s'.cont = s.cont)
    (hp : ∀ e ∈ pend', exitLike e = true) (hperm : (infl s' pend').Perm (infl s pend)) : Inv s' pend' gw := by
  refine ⟨idsOk_of_jobs_eq hj h.ids, h.world, by rw [hs]; exact h.stop, by rw [hc]; exact h.cont, hp,
    (hperm.nodup_iff).mpr h.nd, fun p hp => h.gone p (hperm.mem_iff.mp hp), ?_⟩
  rw [hj]
  exact TR_congr (fun q => hperm.mem_iff.symm) h.tr

/-- another process's exit consumed by the foreground wait, or drained at the prompt: parked in the reap map -/
theorem Inv_parkReap (s : Sh) (p : Pid) (c : Int) (rest : List Ev) (gw : List WJob) (h : Inv s (.exited p c :: rest) gw) :
    Inv { s with reap := putMap s.reap p c } rest gw := by
  have hnd := h.nd
  have hpn : p ∉ s.reap.map (·.1) := by
    intro hp
    simp only [infl, List.map_cons, Ev.pid, List.cons_append, List.nodup_cons, List.mem_append] at hnd
    exact hnd.1 (Or.inl (Or.inr hp))
  refine Inv_perm s _ _ _ gw h rfl rfl rfl (fun x hx => h.pendOk x (List.mem_cons_of_mem _ hx)) ?_
  simp only [infl, putMap_keys _ _ _ hpn, List.map_cons, Ev.pid, List.cons_append, List.append_assoc, List.nil_append]
  rw [← List.append_assoc, ← List.append_assoc]
  exact List.perm_middle

theorem Inv_parkKill (s : Sh) (p : Pid) (c : Int) (rest : List Ev) (gw : List WJob) (h : Inv s (.killed p c :: rest) gw) :
    Inv { s with kill := putMap s.kill p c } rest gw := by
  have hnd := h.nd
  have hpn : p ∉ s.kill.map (·.1) := by
    intro hp
    simp only [infl, List.map_cons, Ev.pid, List.cons_append, List.nodup_cons, List.mem_append] at hnd
    exact hnd.1 (Or.inr hp)
  refine Inv_perm s _ _ _ gw h rfl rfl rfl (fun x hx => h.pendOk x (List.mem_cons_of_mem _ hx)) ?_
  simp only [infl, putMap_keys _ _ _ hpn, List.map_cons, Ev.pid, List.cons_append]
  rw [← List.append_assoc]
  exact List.perm_append_singleton _ _

theorem Inv_pending_irrel (s : Sh) (pend l : List Ev) (gw : List WJob) (h : Inv s pend gw) : Inv { s with pending := l } pend gw :=
  Inv_perm s _ pend pend gw h rfl rfl rfl h.pendOk (List.Perm.refl _)

theorem exitLike_cases {e : Ev} (h : exitLike e = true) : (∃ p c, e = .exited p c) ∨ (∃ p c, e = .killed p c) := by
  cases e with
  | exited p c => exact Or.inl ⟨p, c, rfl⟩
  | killed p c => exact Or.inr ⟨p, c, rfl⟩
  | stopped p c => cases h
  | continued p => cases h

/-- the loop of the foreground wait keeps the invariant, whatever the point where it returns -/
theorem Inv_waitFgGo (gid : Pid) (pids : List Pid) (gw : List WJob) (wj : WJob) (hwj : wj ∈ gw) (hgid : wj.gid = gid)
    (hsub : ∀ p ∈ pids, p ∈ wj.pidsOf) : ∀ (evs : List Ev) (s : Sh) (w : Nat) (st : Int), Inv s evs gw →
    Inv (waitFgGo gid pids evs s w st).1 (waitFgGo gid pids evs s w st).1.pending gw := by
  intro evs
  induction evs with
  | nil => intro s w st h; exact Inv_pending_irrel s [] [] gw h
  | cons e rest ih =>
    intro s w st h
    rcases exitLike_cases (h.pendOk e List.mem_cons_self) with ⟨p, c, rfl⟩ | ⟨p, c, rfl⟩
    · simp only [waitFgGo, Ev.pid]
      by_cases hfg : pids.contains p = true
      · simp only [hfg, ↓reduceIte, true_and]
        have h1 : Inv (removePid s gid p) rest gw :=
          Inv_fgRemove s (.exited p c) rest gw gid h wj hwj hgid (hsub p (by simpa using hfg))
        split
        · exact Inv_pending_irrel _ rest rest gw h1
        · exact ih _ _ _ h1
      · simp only [hfg, ↓reduceIte, false_and, Bool.false_eq_true]
        have h1 := Inv_parkReap s p c rest gw h
        split
        · exact Inv_pending_irrel _ rest rest gw h1
        · exact ih _ _ _ h1
    · simp only [waitFgGo, Ev.pid]
      by_cases hfg : pids.contains p = true
      · simp only [hfg, ↓reduceIte, true_and]
        have h1 : Inv (removePid s gid p) rest gw :=
          Inv_fgRemove s (.killed p c) rest gw gid h wj hwj hgid (hsub p (by simpa using hfg))
        split
        · exact Inv_pending_irrel _ rest rest gw h1
        · exact ih _ _ _ h1
      · simp only [hfg, ↓reduceIte, false_and, Bool.false_eq_true]
        have h1 := Inv_parkKill s p c rest gw h
        split
        · exact Inv_pending_irrel _ rest rest gw h1
        · exact ih _ _ _ h1

/-- draining the pending queue into the maps -/
def parkF (s : Sh) (e : Ev) : Sh :=
  match e with
  | .exited p c => { s with reap := putMap s.reap p c }
  | .killed p g => { s with kill := putMap s.kill p g }
  | .stopped p _ => { s with stop := addOnce s.stop p }
  | .continued p => { s with cont := addOnce s.cont p }

theorem park_eq (s : Sh) : park s = s.pending.foldl parkF { s with pending := [] } := rfl

theorem Inv_parkFold (gw : List WJob) : ∀ (evs : List Ev) (s : Sh), Inv s evs gw → Inv (evs.foldl parkF s) [] gw := by
  intro evs
  induction evs with
  | nil => intro s h; exact h
  | cons e rest ih =>
    intro s h
    simp only [List.foldl_cons]
    apply ih
    rcases exitLike_cases (h.pendOk e List.mem_cons_self) with ⟨p, c, rfl⟩ | ⟨p, c, rfl⟩
    · exact Inv_parkReap s p c rest gw h
    · exact Inv_parkKill s p c rest gw h

theorem parkFold_pending : ∀ (evs : List Ev) (s : Sh), (evs.foldl parkF s).pending = s.pending := by
  intro evs
  induction evs with
  | nil => intro s; rfl
  | cons e rest ih =>
    intro s
    simp only [List.foldl_cons]
    rw [ih]
    cases e <;> rfl

theorem Inv_park (s : Sh) (gw : List WJob) (h : Inv s s.pending gw) : Inv (park s) [] gw ∧ (park s).pending = [] := by
  rw [park_eq]
  exact ⟨Inv_parkFold gw _ _ (Inv_pending_irrel s _ [] gw h), by rw [parkFold_pending]⟩

/-- every pid in flight is in the table -/
theorem infl_in_table (s : Sh) (pend : List Ev) (gw : List WJob) (h : Inv s pend gw) :
    ∀ p ∈ infl s pend, ∃ j ∈ s.jobs, p ∈ j.pids := by
  intro p hp
  obtain ⟨wj, hwj, hg⟩ := h.gone p hp
  have hk : p ∈ kept (infl s pend) wj := (mem_kept _ wj p).mpr ⟨.gone, hg, Or.inr hp⟩
  obtain ⟨j, hj, hjg⟩ := h.tr.complete wj hwj (List.ne_nil_of_mem hk)
  obtain ⟨_, _, wj', hwj', hg', hp'⟩ := h.tr.sound j hj
  have := nodup_map_inj (fun (x : WJob) => x.gid) gw h.world.gids wj' hwj' wj hwj (by rw [hg', hjg])
  subst this
  exact ⟨j, hj, by rw [hp']; exact hk⟩

/-- the table's jobs name world jobs -/
theorem table_coherent (s : Sh) (pend : List Ev) (gw : List WJob) (h : Inv s pend gw) :
    ∀ j ∈ s.jobs, ∃ wj ∈ gw, wj.gid = j.gid ∧ ∀ p ∈ j.pids, p ∈ wj.pidsOf := by
  intro j hj
  obtain ⟨_, _, wj, hwj, hg, hp⟩ := h.tr.sound j hj
  exact ⟨wj, hwj, hg, by rw [hp]; exact kept_sub _ wj⟩

/-- removal of a pid whose exit was in flight, from a state that has just forgotten that exit -/
theorem Inv_remove (s s1 : Sh) (pend pend1 : List Ev) (gw : List WJob) (gid p : Pid) (h : Inv s pend gw)
    (hj : s1.jobs = s.jobs) (hs : s1.stop = s.stop) (hc : s1.cont = s.cont) (hp1 : ∀ e ∈ pend1, exitLike e = true)
    (hsub : (infl s1 pend1).Sublist (infl s pend)) (hD : ∀ x, x ∈ infl s1 pend1 ↔ x ∈ infl s pend ∧ x ≠ p)
    (hpD : p ∈ infl s pend) (wj : WJob) (hwj : wj ∈ gw) (hgid : wj.gid = gid) (hp : p ∈ wj.pidsOf) :
    Inv (removePid s1 gid p) pend1 gw := by
  obtain ⟨wj', hwj', hg'⟩ := h.gone _ hpD
  have : wj' = wj := h.world.owner wj' hwj' wj hwj p (List.mem_map.mpr ⟨_, hg', rfl⟩) hp
  subst this
  obtain ⟨f1, f2, f3, f4, _⟩ := removePid_fields s1 gid p
  have hids1 : IdsOk s1 := idsOk_of_jobs_eq hj h.ids
  refine ⟨idsOk_removePid s1 _ _ hids1, h.world, by rw [f3, hs]; exact h.stop, by rw [f4, hc]; exact h.cont,
    hp1, by rw [infl_removePid]; exact h.nd.sublist hsub, ?_, ?_⟩
  · intro q hq
    rw [infl_removePid] at hq
    exact h.gone q (hsub.subset hq)
  · rw [infl_removePid]
    exact TR_removePid s1 gw (infl s pend) (infl s1 pend1) gid p hids1 h.world (by rw [hj]; exact h.tr) wj' hwj hgid hg' hpD hD

/-- one step of `try_wait_bg_jobs` -/
def apF (gid : Pid) (s : Sh) (pid : Pid) : Sh :=
  if s.reap.any (·.1 = pid) then removePid { s with reap := s.reap.filter (·.1 ≠ pid) } gid pid
  else if s.kill.any (·.1 = pid) then removePid { s with kill := s.kill.filter (·.1 ≠ pid) } gid pid
  else if s.stop.contains pid then markMemberStopped { s with stop := s.stop.erase pid } pid gid
  else if s.cont.contains pid then markMemberContinued { s with cont := s.cont.erase pid } pid gid
  else s

theorem applyParked_eq (s : Sh) : applyParked s = s.jobs.foldl (fun s job => job.pids.foldl (apF job.gid) s) s := rfl

theorem mem_keys_filter (l : List (Pid × Int)) (p x : Pid) :
    x ∈ (l.filter (fun y => decide (y.1 ≠ p))).map (·.1) ↔ x ∈ l.map (·.1) ∧ x ≠ p := by
  simp only [List.mem_map, List.mem_filter, decide_eq_true_eq]
  constructor
  · rintro ⟨a, ⟨h1, h2⟩, rfl⟩; exact ⟨⟨a, h1, rfl⟩, h2⟩
  · rintro ⟨⟨a, h1, rfl⟩, h2⟩; exact ⟨a, ⟨h1, h2⟩, rfl⟩

theorem any_key (l : List (Pid × Int)) (p : Pid) : l.any (fun y => decide (y.1 = p)) = true ↔ p ∈ l.map (·.1) := by
  simp only [List.any_eq_true, decide_eq_true_eq, List.mem_map]

theorem apF_inv (gid : Pid) (s : Sh) (pid : Pid) (gw : List WJob) (h : Inv s [] gw)
    (wj : WJob) (hwj : wj ∈ gw) (hgid : wj.gid = gid) (hp : pid ∈ wj.pidsOf) :
    Inv (apF gid s pid) [] gw ∧ (∀ q ∈ infl (apF gid s pid) [], q ∈ infl s []) ∧ pid ∉ infl (apF gid s pid) [] := by
  have hnd := h.nd
  simp only [infl, List.map_nil, List.nil_append] at hnd
  have hdisj := (List.nodup_append.mp hnd).2.2
  unfold apF
  by_cases hr : s.reap.any (·.1 = pid) = true
  · simp only [hr, ↓reduceIte]
    have hr' := (any_key _ _).mp hr
    have hnk : pid ∉ s.kill.map (·.1) := fun hk => hdisj pid hr' pid hk rfl
    have hD : ∀ x, x ∈ infl { s with reap := s.reap.filter (·.1 ≠ pid) } [] ↔ x ∈ infl s [] ∧ x ≠ pid := by
      intro x
      simp only [infl, List.map_nil, List.nil_append, List.mem_append, mem_keys_filter]
      constructor
      · rintro (⟨h1, h2⟩ | h1)
        · exact ⟨Or.inl h1, h2⟩
        · exact ⟨Or.inr h1, fun e => hnk (e ▸ h1)⟩
      · rintro ⟨h1 | h1, h2⟩
        · exact Or.inl ⟨h1, h2⟩
        · exact Or.inr h1
    have hsub : (infl { s with reap := s.reap.filter (·.1 ≠ pid) } []).Sublist (infl s []) := by
      simp only [infl, List.map_nil, List.nil_append]
      exact List.Sublist.append (List.Sublist.map _ List.filter_sublist) (List.Sublist.refl _)
    have hpD : pid ∈ infl s [] := by simp only [infl, List.map_nil, List.nil_append, List.mem_append]; exact Or.inl hr'
    refine ⟨Inv_remove s _ [] [] gw gid pid h rfl rfl rfl (fun _ h => nomatch h) hsub hD hpD wj hwj hgid hp, ?_, ?_⟩
    · intro q hq
      rw [infl_removePid] at hq
      exact ((hD q).mp hq).1
    · rw [infl_removePid]
      intro hq
      exact ((hD pid).mp hq).2 rfl
  · simp only [hr, Bool.false_eq_true, ↓reduceIte]
    have hr' : pid ∉ s.reap.map (·.1) := fun x => hr ((any_key _ _).mpr x)
    by_cases hk : s.kill.any (·.1 = pid) = true
    · simp only [hk, ↓reduceIte]
      have hk' := (any_key _ _).mp hk
      have hD : ∀ x, x ∈ infl { s with kill := s.kill.filter (·.1 ≠ pid) } [] ↔ x ∈ infl s [] ∧ x ≠ pid := by
        intro x
        simp only [infl, List.map_nil, List.nil_append, List.mem_append, mem_keys_filter]
        constructor
        · rintro (h1 | ⟨h1, h2⟩)
          · exact ⟨Or.inl h1, fun e => hr' (e ▸ h1)⟩
          · exact ⟨Or.inr h1, h2⟩
        · rintro ⟨h1 | h1, h2⟩
          · exact Or.inl h1
          · exact Or.inr ⟨h1, h2⟩
      have hsub : (infl { s with kill := s.kill.filter (·.1 ≠ pid) } []).Sublist (infl s []) := by
        simp only [infl, List.map_nil, List.nil_append]
        exact List.Sublist.append (List.Sublist.refl _) (List.Sublist.map _ List.filter_sublist)
      have hpD : pid ∈ infl s [] := by simp only [infl, List.map_nil, List.nil_append, List.mem_append]; exact Or.inr hk'
      refine ⟨Inv_remove s _ [] [] gw gid pid h rfl rfl rfl (fun _ h => nomatch h) hsub hD hpD wj hwj hgid hp, ?_, ?_⟩
      · intro q hq
        rw [infl_removePid] at hq
        exact ((hD q).mp hq).1
      · rw [infl_removePid]
        intro hq
        exact ((hD pid).mp hq).2 rfl
    · have hk' : pid ∉ s.kill.map (·.1) := fun x => hk ((any_key _ _).mpr x)
      simp only [hk, Bool.false_eq_true, ↓reduceIte, h.stop, h.cont, List.contains_nil]
      refine ⟨h, fun q hq => hq, ?_⟩
      simp only [infl, List.map_nil, List.nil_append, List.mem_append]
      rintro (h1 | h1)
      · exact hr' h1
      · exact hk' h1

theorem apF_inner (gid : Pid) (gw : List WJob) (wj : WJob) (hwj : wj ∈ gw) (hgid : wj.gid = gid) :
    ∀ (pids : List Pid) (s : Sh), Inv s [] gw → (∀ p ∈ pids, p ∈ wj.pidsOf) →
    Inv (pids.foldl (apF gid) s) [] gw ∧ (∀ q ∈ infl (pids.foldl (apF gid) s) [], q ∈ infl s []) ∧
    ∀ p ∈ pids, p ∉ infl (pids.foldl (apF gid) s) [] := by
  intro pids
  induction pids with
  | nil => intro s h _; exact ⟨h, fun q hq => hq, fun p hp => nomatch hp⟩
  | cons p ps ih =>
    intro s h hsub
    simp only [List.foldl_cons]
    obtain ⟨a1, a2, a3⟩ := apF_inv gid s p gw h wj hwj hgid (hsub p List.mem_cons_self)
    obtain ⟨b1, b2, b3⟩ := ih (apF gid s p) a1 (fun q hq => hsub q (List.mem_cons_of_mem _ hq))
    refine ⟨b1, fun q hq => a2 q (b2 q hq), ?_⟩
    intro q hq
    simp only [List.mem_cons] at hq
    rcases hq with rfl | hq
    · exact fun x => a3 (b2 _ x)
    · exact b3 q hq

theorem apF_outer (gw : List WJob) : ∀ (jobs : List Job) (s : Sh), Inv s [] gw →
    (∀ j ∈ jobs, ∃ wj ∈ gw, wj.gid = j.gid ∧ ∀ p ∈ j.pids, p ∈ wj.pidsOf) →
    Inv (jobs.foldl (fun s job => job.pids.foldl (apF job.gid) s) s) [] gw ∧
    (∀ q ∈ infl (jobs.foldl (fun s job => job.pids.foldl (apF job.gid) s) s) [], q ∈ infl s []) ∧
    ∀ j ∈ jobs, ∀ p ∈ j.pids, p ∉ infl (jobs.foldl (fun s job => job.pids.foldl (apF job.gid) s) s) [] := by
  intro jobs
  induction jobs with
  | nil => intro s h _; exact ⟨h, fun q hq => hq, fun p hp => nomatch hp⟩
  | cons j js ih =>
    intro s h hc
    simp only [List.foldl_cons]
    obtain ⟨wj, hwj, hg, hsub⟩ := hc j List.mem_cons_self
    obtain ⟨a1, a2, a3⟩ := apF_inner j.gid gw wj hwj hg j.pids s h hsub
    obtain ⟨b1, b2, b3⟩ := ih _ a1 (fun q hq => hc q (List.mem_cons_of_mem _ hq))
    refine ⟨b1, fun q hq => a2 q (b2 q hq), ?_⟩
    intro q hq
    simp only [List.mem_cons] at hq
    rcases hq with rfl | hq
    · exact fun p hp x => a3 p hp (b2 _ x)
    · exact b3 q hq

theorem ite_pending (c : Prop) [Decidable c] (a b : Sh) (l : List Ev) (ha : a.pending = l) (hb : b.pending = l) :
    (if c then a else b).pending = l := by
  split <;> assumption

theorem markMemberStopped_pending (s : Sh) (pid gid : Pid) : (markMemberStopped s pid gid).pending = s.pending := by
  unfold markMemberStopped
  cases findGid s gid with
  | none => rfl
  | some j => exact ite_pending _ _ _ _ rfl rfl

theorem markMemberContinued_pending (s : Sh) (pid gid : Pid) : (markMemberContinued s pid gid).pending = s.pending := by
  unfold markMemberContinued
  cases findGid s gid with
  | none => rfl
  | some j => exact ite_pending _ _ _ _ rfl rfl

theorem apF_pending (gid : Pid) (s : Sh) (pid : Pid) (h : s.pending = []) : (apF gid s pid).pending = [] := by
  unfold apF
  split
  · rw [(removePid_fields _ _ _).2.2.2.2]; exact h
  split
  · rw [(removePid_fields _ _ _).2.2.2.2]; exact h
  split
  · rw [markMemberStopped_pending]; exact h
  split
  · rw [markMemberContinued_pending]; exact h
  · exact h

theorem applyParked_pending (s : Sh) (h : s.pending = []) : (applyParked s).pending = [] := by
  rw [applyParked_eq]
  exact foldl_inv (fun (s : Sh) => s.pending = []) _ (fun a job ha =>
    foldl_inv (fun (s : Sh) => s.pending = []) _ (fun a p ha => apF_pending job.gid a p ha) _ _ ha) _ _ h

/-- **the prompt-time poll re-establishes quiescence**: afterwards no exit is in flight -/
theorem Inv_poll (s : Sh) (gw : List WJob) (h : Inv s s.pending gw) :
    Inv (poll s) (poll s).pending gw ∧ infl (poll s) (poll s).pending = [] := by
  unfold poll
  split
  · rename_i hemp
    refine ⟨h, ?_⟩
    have : ∀ p, p ∉ infl s s.pending := by
      intro p hp
      obtain ⟨j, hj, _⟩ := infl_in_table s _ gw h p hp
      have : s.jobs = [] := by simpa using hemp
      rw [this] at hj; cases hj
    exact List.eq_nil_iff_forall_not_mem.mpr this
  · obtain ⟨h1, h2⟩ := Inv_park s gw h
    have hpend := applyParked_pending (park s) h2
    rw [hpend, applyParked_eq]
    obtain ⟨a1, a2, a3⟩ := apF_outer gw (park s).jobs (park s) h1 (table_coherent _ _ gw h1)
    refine ⟨a1, ?_⟩
    apply List.eq_nil_iff_forall_not_mem.mpr
    intro p hp
    obtain ⟨j, hj, hpj⟩ := infl_in_table _ _ gw h1 p (a2 p hp)
    exact a3 j hj p hpj hp

/-! ### `insert_job` along a launch -/

theorem filter_length_le {α} (p q : α → Bool) (hpq : ∀ x, p x = true → q x = true) (l : List α) :
    (l.filter p).length ≤ (l.filter q).length := by
  induction l with
  | nil => simp
  | cons x xs ih =>
    simp only [List.filter_cons]
    by_cases hp : p x = true
    · simp [hp, hpq x hp]; exact ih
    · by_cases hq : q x = true
      · simp [hp, hq]; omega
      · simp [hp, hq]; exact ih

theorem filter_length_lt {α} (p q : α → Bool) (hpq : ∀ x, p x = true → q x = true) (l : List α)
    (a : α) (ha : a ∈ l) (hqa : q a = true) (hpa : p a = false) : (l.filter p).length < (l.filter q).length := by
  induction l with
  | nil => cases ha
  | cons x xs ih =>
    simp only [List.filter_cons]
    simp only [List.mem_cons] at ha
    rcases ha with rfl | ha
    · have := filter_length_le p q hpq xs
      simp [hqa, hpa]; omega
    · have := ih ha
      by_cases hp : p x = true
      · simp [hp, hpq x hp]; exact this
      · by_cases hq : q x = true
        · simp [hp, hq]; omega
        · simp [hp, hq]; exact this

/-- the number of jobs with an id from `i` on: the fuel the scan of `insert_job` needs -/
def idsFrom (l : List Job) (i : Nat) : Nat := (l.filter (fun j => decide (i ≤ j.id))).length

theorem idsFrom_succ (l : List Job) (i : Nat) (j : Job) (hj : j ∈ l) (hid : j.id = i) : idsFrom l (i + 1) < idsFrom l i := by
  unfold idsFrom
  apply filter_length_lt _ _ _ l j hj
  · simp [hid]
  · simp [hid]
  · intro x hx; simp at hx ⊢; omega

theorem idsFrom_le_length (l : List Job) (i : Nat) : idsFrom l i ≤ l.length := List.length_filter_le _ _

theorem mem_insertSorted (j : Job) (l : List Job) (y : Job) : y ∈ insertSorted j l ↔ y = j ∨ y ∈ l := by
  induction l with
  | nil => simp [insertSorted]
  | cons x xs ih =>
    unfold insertSorted
    split
    · simp
    · simp only [List.mem_cons, ih]
      constructor
      · rintro (h | h | h)
        · exact Or.inr (Or.inl h)
        · exact Or.inl h
        · exact Or.inr (Or.inr h)
      · rintro (h | h | h)
        · exact Or.inr (Or.inl h)
        · exact Or.inl h
        · exact Or.inr (Or.inr h)

theorem insertSorted_perm (j : Job) (l : List Job) : (insertSorted j l).Perm (j :: l) := by
  induction l with
  | nil => exact List.Perm.refl _
  | cons x xs ih =>
    unfold insertSorted
    split
    · exact List.Perm.refl _
    · exact (List.Perm.cons x ih).trans (List.Perm.swap j x xs)

theorem insertSorted_map (g : Job → Job) (J : Job) (l : List Job) (hfix : ∀ x ∈ l, g x = x) (hid : (g J).id = J.id) :
    (insertSorted J l).map g = insertSorted (g J) l := by
  induction l with
  | nil => simp [insertSorted]
  | cons x xs ih =>
    have hx : g x = x := hfix x List.mem_cons_self
    have hxs : xs.map g = xs := by
      conv => rhs; rw [← List.map_id xs]
      exact List.map_congr_left (fun y hy => hfix y (List.mem_cons_of_mem _ hy))
    unfold insertSorted
    rw [hid]
    split
    · simp [hx, hxs]
    · simp only [List.map_cons, hx]
      rw [ih (fun y hy => hfix y (List.mem_cons_of_mem _ hy))]

/-- first process of a launch under a new group id: a new job at an unused id, every smaller id being in use -/
theorem insertJobGo_fresh (s : Sh) (gid pid : Pid) (bg : Bool) (hno : ∀ j ∈ s.jobs, j.gid ≠ gid) :
    ∀ (f i : Nat), idsFrom s.jobs i < f →
      ∃ i', i ≤ i' ∧ (∀ k, i ≤ k → k < i' → ∃ j ∈ s.jobs, j.id = k) ∧ (∀ j ∈ s.jobs, j.id ≠ i') ∧
        insertJobGo s gid pid bg f i = { s with jobs := insertSorted { id := i', gid := gid, pids := [pid], isBg := bg } s.jobs } := by
  intro f
  induction f with
  | zero => intro i h; omega
  | succ f ih =>
    intro i hfuel
    simp only [insertJobGo]
    cases hfind : s.jobs.find? (·.id = i) with
    | none =>
      refine ⟨i, Nat.le_refl _, ?_, ?_, rfl⟩
      · intro k h1 h2; omega
      · intro j hj e
        have := List.find?_eq_none.mp hfind j hj
        simp [e] at this
    | some j =>
      have hj := List.mem_of_find?_eq_some hfind
      have hid : j.id = i := by simpa using List.find?_some hfind
      have hg : j.gid ≠ gid := hno j hj
      simp only [hg, ↓reduceIte]
      have := idsFrom_succ s.jobs i j hj hid
      obtain ⟨i', h1, h2, h3, h4⟩ := ih (i + 1) (by omega)
      refine ⟨i', by omega, ?_, h3, h4⟩
      intro k hk1 hk2
      by_cases hki : k = i
      · exact ⟨j, hj, by rw [hid, hki]⟩
      · exact h2 k (by omega) hk2

/-- a later process of the same launch: appended to the job made for the first one -/
theorem insertJobGo_again (s : Sh) (gid pid : Pid) (bg : Bool) (i' : Nat) (ps : List Pid) (hno : ∀ j ∈ s.jobs, j.gid ≠ gid)
    (hbelow : ∀ k, 1 ≤ k → k < i' → ∃ j ∈ s.jobs, j.id = k) (hfree : ∀ j ∈ s.jobs, j.id ≠ i') :
    ∀ (f i : Nat), 1 ≤ i → i ≤ i' → idsFrom (insertSorted { id := i', gid := gid, pids := ps, isBg := bg } s.jobs) i ≤ f →
      insertJobGo { s with jobs := insertSorted { id := i', gid := gid, pids := ps, isBg := bg } s.jobs } gid pid bg f i =
        { s with jobs := insertSorted { id := i', gid := gid, pids := ps ++ [pid], isBg := bg } s.jobs } := by
  intro f
  have hJ : ({ id := i', gid := gid, pids := ps, isBg := bg } : Job) ∈ insertSorted { id := i', gid := gid, pids := ps, isBg := bg } s.jobs :=
    (mem_insertSorted _ _ _).mpr (Or.inl rfl)
  induction f with
  | zero =>
    intro i h1 h2 hfuel
    have : 0 < idsFrom (insertSorted { id := i', gid := gid, pids := ps, isBg := bg } s.jobs) i := by
      unfold idsFrom
      apply List.length_pos_of_mem (a := { id := i', gid := gid, pids := ps, isBg := bg })
      simp only [List.mem_filter, decide_eq_true_eq]
      exact ⟨hJ, h2⟩
    omega
  | succ f ih =>
    intro i h1 h2 hfuel
    simp only [insertJobGo]
    cases hfind : (insertSorted { id := i', gid := gid, pids := ps, isBg := bg } s.jobs).find? (·.id = i) with
    | none =>
      exfalso
      by_cases hi : i = i'
      · have := List.find?_eq_none.mp hfind _ hJ
        simp [hi] at this
      · obtain ⟨j, hj, hid⟩ := hbelow i h1 (by omega)
        have := List.find?_eq_none.mp hfind j ((mem_insertSorted _ _ _).mpr (Or.inr hj))
        simp [hid] at this
    | some j =>
      have hj := List.mem_of_find?_eq_some hfind
      have hid : j.id = i := by simpa using List.find?_some hfind
      rcases (mem_insertSorted _ _ _).mp hj with rfl | hjs
      · -- the job of this launch
        simp only at hid
        subst hid
        simp only [↓reduceIte]
        congr 1
        rw [insertSorted_map]
        · simp
        · intro x hx
          simp [hfree x hx]
        · simp
      · have hg : j.gid ≠ gid := hno j hjs
        simp only [hg, ↓reduceIte]
        have hne : i ≠ i' := fun e => hfree j hjs (by rw [hid, e])
        have := idsFrom_succ _ i j hj hid
        exact ih (i + 1) (by omega) (by omega) (by omega)

theorem insertJob_again (s : Sh) (gid pid : Pid) (bg : Bool) (i' : Nat) (ps : List Pid) (hno : ∀ j ∈ s.jobs, j.gid ≠ gid)
    (hbelow : ∀ k, 1 ≤ k → k < i' → ∃ j ∈ s.jobs, j.id = k) (hfree : ∀ j ∈ s.jobs, j.id ≠ i') (hi : 1 ≤ i') :
    insertJob { s with jobs := insertSorted { id := i', gid := gid, pids := ps, isBg := bg } s.jobs } gid pid bg =
      { s with jobs := insertSorted { id := i', gid := gid, pids := ps ++ [pid], isBg := bg } s.jobs } := by
  unfold insertJob
  apply insertJobGo_again s gid pid bg i' ps hno hbelow hfree _ 1 (Nat.le_refl _) hi
  have := idsFrom_le_length (insertSorted { id := i', gid := gid, pids := ps, isBg := bg } s.jobs) 1
  simp only at this ⊢
  omega

theorem launch_again (s : Sh) (gid : Pid) (bg : Bool) (i' : Nat) (hno : ∀ j ∈ s.jobs, j.gid ≠ gid)
    (hbelow : ∀ k, 1 ≤ k → k < i' → ∃ j ∈ s.jobs, j.id = k) (hfree : ∀ j ∈ s.jobs, j.id ≠ i') (hi : 1 ≤ i') :
    ∀ (rest ps : List Pid),
      rest.foldl (fun s p => insertJob s gid p bg) { s with jobs := insertSorted { id := i', gid := gid, pids := ps, isBg := bg } s.jobs } =
        { s with jobs := insertSorted { id := i', gid := gid, pids := ps ++ rest, isBg := bg } s.jobs } := by
  intro rest
  induction rest with
  | nil => intro ps; simp
  | cons p rest ih =>
    intro ps
    simp only [List.foldl_cons]
    rw [insertJob_again s gid p bg i' ps hno hbelow hfree hi, ih]
    simp

/-- **a launch under a new group id makes one job with all the processes, at the least unused id** -/
theorem launch_jobs (s : Sh) (gid : Pid) (bg : Bool) (pids : List Pid) (hno : ∀ j ∈ s.jobs, j.gid ≠ gid) (hne : pids ≠ []) :
    ∃ i', 1 ≤ i' ∧ (∀ k, 1 ≤ k → k < i' → ∃ j ∈ s.jobs, j.id = k) ∧ (∀ j ∈ s.jobs, j.id ≠ i') ∧
      pids.foldl (fun s p => insertJob s gid p bg) s =
        { s with jobs := insertSorted { id := i', gid := gid, pids := pids, isBg := bg } s.jobs } := by
  cases pids with
  | nil => exact absurd rfl hne
  | cons p rest =>
    obtain ⟨i', h1, h2, h3, h4⟩ := insertJobGo_fresh s gid p bg hno (s.jobs.length + 1) 1
      (by have := idsFrom_le_length s.jobs 1; omega)
    refine ⟨i', h1, h2, h3, ?_⟩
    simp only [List.foldl_cons]
    have : insertJob s gid p bg = { s with jobs := insertSorted { id := i', gid := gid, pids := [p], isBg := bg } s.jobs } := h4
    rw [this, launch_again s gid bg i' hno h2 h3 h1 rest [p]]
    simp

theorem kept_new (D : List Pid) (gid : Pid) (pids : List Pid) :
    kept D { gid := gid, procs := pids.map (fun p => (p, PState.running)) } = pids := by
  unfold kept
  simp only
  induction pids with
  | nil => rfl
  | cons p ps ih => simp at ih ⊢; exact ih

theorem Inv_launch (s : Sh) (gw : List WJob) (bg : Bool) (gid : Pid) (pids : List Pid) (h : Inv s s.pending gw)
    (hok : okOp gw (.launch bg gid pids) = true) :
    Inv (step s (.launch bg gid pids)).1 (step s (.launch bg gid pids)).1.pending (gStep gw (.launch bg gid pids)) := by
  simp only [okOp, Bool.and_eq_true, Bool.not_eq_true', List.isEmpty_eq_false_iff, decide_eq_true_eq, List.all_eq_true,
    List.any_eq_false] at hok
  obtain ⟨⟨⟨hne, hnd⟩, hfresh⟩, hgid⟩ := hok
  have hgid' : ∀ j ∈ gw, j.gid ≠ gid := hgid
  have hno : ∀ j ∈ s.jobs, j.gid ≠ gid := by
    intro j hj
    obtain ⟨_, _, wj, hwj, hg, _⟩ := h.tr.sound j hj
    rw [← hg]; exact hgid' wj hwj
  have hids := idsOk_step s (.launch bg gid pids) h.ids
  obtain ⟨i', _, _, hfree, heq⟩ := launch_jobs s gid bg pids hno hne
  simp only [step, gStep] at hids ⊢
  rw [heq] at hids ⊢
  have hgw' := GW_launch gw gid pids h.world hnd hfresh hgid'
  refine ⟨hids, hgw', h.stop, h.cont, h.pendOk, h.nd, ?_, ?_⟩
  · intro p hp
    obtain ⟨wj, hwj, hg⟩ := h.gone p hp
    exact ⟨wj, List.mem_append_left _ hwj, hg⟩
  · show TR (insertSorted _ s.jobs) _ (infl s s.pending)
    refine ⟨?_, ?_, ?_⟩
    · have := (insertSorted_perm { id := i', gid := gid, pids := pids, isBg := bg } s.jobs).map (·.gid)
      rw [this.nodup_iff]
      simp only [List.map_cons, List.nodup_cons]
      refine ⟨?_, h.tr.gids⟩
      intro hm
      obtain ⟨j, hj, hg⟩ := List.mem_map.mp hm
      exact hno j hj hg
    · intro j hj
      rcases (mem_insertSorted _ _ _).mp hj with rfl | hj
      · exact ⟨rfl, hne, _, List.mem_append_right _ (List.mem_singleton.mpr rfl), rfl, (kept_new _ gid pids).symm⟩
      · obtain ⟨h1, h2, wj, h3, h4, h5⟩ := h.tr.sound j hj
        exact ⟨h1, h2, wj, List.mem_append_left _ h3, h4, h5⟩
    · intro wj hwj hk
      simp only [List.mem_append, List.mem_singleton] at hwj
      rcases hwj with hwj | rfl
      · obtain ⟨j, hj, hg⟩ := h.tr.complete wj hwj hk
        exact ⟨j, (mem_insertSorted _ _ _).mpr (Or.inr hj), hg⟩
      · exact ⟨_, (mem_insertSorted _ _ _).mpr (Or.inl rfl), rfl⟩

theorem goneJob_keeps_gone (q p : Pid) (j : WJob) (h : (p, PState.gone) ∈ j.procs) : (p, PState.gone) ∈ (goneJob q j).procs := by
  simp only [goneJob, List.mem_map]
  exact ⟨(p, .gone), h, by simp⟩

theorem goneJob_makes_gone (q : Pid) (j : WJob) (st : PState) (h : (q, st) ∈ j.procs) : (q, PState.gone) ∈ (goneJob q j).procs := by
  simp only [goneJob, List.mem_map]
  refine ⟨(q, st), h, ?_⟩
  by_cases hs : st = .gone
  · simp [hs]
  · simp [hs]

/-- an exit or kill notification of a running process becomes pending -/
theorem Inv_exitEv (s : Sh) (gw : List WJob) (e : Ev) (q : Pid) (hq : e.pid = q) (hel : exitLike e = true)
    (h : Inv s s.pending gw) (hrun : isRunning gw q = true) :
    Inv { s with pending := s.pending ++ [e] } (s.pending ++ [e]) (gw.map (goneJob q)) := by
  have hre := running_everywhere h.world hrun
  have hqn : q ∉ infl s s.pending := by
    intro hq'
    obtain ⟨wj, hwj, hg⟩ := h.gone q hq'
    have := hre wj hwj _ hg rfl
    cases this
  have hperm : (infl { s with pending := s.pending ++ [e] } (s.pending ++ [e])).Perm (q :: infl s s.pending) := by
    simp only [infl, List.map_append, List.map_cons, List.map_nil, hq, List.append_assoc, List.singleton_append]
    exact List.perm_middle
  have hmem : ∀ x, x ∈ infl { s with pending := s.pending ++ [e] } (s.pending ++ [e]) ↔ x ∈ infl s s.pending ∨ x = q := by
    intro x
    rw [hperm.mem_iff, List.mem_cons]
    exact Or.comm
  refine ⟨idsOk_of_jobs_eq rfl h.ids, GW_gone gw q h.world, h.stop, h.cont, ?_, ?_, ?_, ?_⟩
  · intro x hx
    simp only [List.mem_append, List.mem_singleton] at hx
    rcases hx with hx | rfl
    · exact h.pendOk x hx
    · exact hel
  · rw [hperm.nodup_iff, List.nodup_cons]
    exact ⟨hqn, h.nd⟩
  · intro p hp
    rcases (hmem p).mp hp with hp | rfl
    · obtain ⟨wj, hwj, hg⟩ := h.gone p hp
      exact ⟨goneJob q wj, List.mem_map.mpr ⟨wj, hwj, rfl⟩, goneJob_keeps_gone q p wj hg⟩
    · simp only [isRunning, List.any_eq_true, decide_eq_true_eq] at hrun
      obtain ⟨wj, hwj, pr, hpr, hp1, _⟩ := hrun
      refine ⟨goneJob p wj, List.mem_map.mpr ⟨wj, hwj, rfl⟩, goneJob_makes_gone p wj pr.2 ?_⟩
      rw [← hp1]; exact hpr
  · have hk : ∀ wj ∈ gw, kept (infl { s with pending := s.pending ++ [e] } (s.pending ++ [e])) (goneJob q wj) = kept (infl s s.pending) wj := by
      intro wj hwj
      apply kept_gone _ _ q wj hmem
      intro pr hpr hp1
      rw [hre wj hwj pr hpr hp1]
      simp
    refine ⟨h.tr.gids, ?_, ?_⟩
    · intro j hj
      obtain ⟨h1, h2, wj, h3, h4, h5⟩ := h.tr.sound j hj
      exact ⟨h1, h2, goneJob q wj, List.mem_map.mpr ⟨wj, h3, rfl⟩, h4, by rw [hk wj h3]; exact h5⟩
    · intro wj' hwj' hne
      obtain ⟨wj, hwj, rfl⟩ := List.mem_map.mp hwj'
      rw [hk wj hwj] at hne
      exact h.tr.complete wj hwj hne

theorem Inv_waitFg (s : Sh) (gw : List WJob) (gid : Pid) (pids : List Pid) (h : Inv s s.pending gw)
    (hok : okOp gw (.waitFg gid pids) = true) :
    Inv (step s (.waitFg gid pids)).1 (step s (.waitFg gid pids)).1.pending gw := by
  simp only [okOp, List.any_eq_true, Bool.and_eq_true, decide_eq_true_eq, List.all_eq_true] at hok
  obtain ⟨wj, hwj, hg, hsub⟩ := hok
  simp only [step, waitFg]
  split
  · exact h
  · exact Inv_waitFgGo gid pids gw wj hwj hg (fun p hp => by simpa using hsub p hp) _ _ _ _ h

/-- **every admissible operation keeps the invariant** -/
theorem Inv_step (s : Sh) (gw : List WJob) (o : Op) (h : Inv s s.pending gw) (hok : okOp gw o = true) :
    Inv (step s o).1 (step s o).1.pending (gStep gw o) := by
  cases o with
  | launch bg gid pids => exact Inv_launch s gw bg gid pids h hok
  | ev e =>
    cases e with
    | exited p c =>
      simp only [step, gStep, applyEv_exited]
      exact Inv_exitEv s gw _ p rfl rfl h hok
    | killed p c =>
      simp only [step, gStep, applyEv_killed]
      exact Inv_exitEv s gw _ p rfl rfl h hok
    | stopped p c => cases hok
    | continued p => cases hok
  | waitFg gid pids => exact Inv_waitFg s gw gid pids h hok
  | poll => exact (Inv_poll s gw h).1

theorem Inv_init : Inv {} [] [] := by
  refine ⟨List.Pairwise.nil, ⟨List.Pairwise.nil, ?_, ?_, ?_⟩, rfl, rfl, ?_, List.Pairwise.nil, ?_, ⟨List.Pairwise.nil, ?_, ?_⟩⟩ <;>
    intro x hx <;> cases hx

theorem Inv_run : ∀ (ops : List Op) (s : Sh) (gw : List WJob), Inv s s.pending gw → wfFrom gw ops = true →
    Inv (ops.foldl (fun s o => (step s o).1) s) (ops.foldl (fun s o => (step s o).1) s).pending (ops.foldl gStep gw) := by
  intro ops
  induction ops with
  | nil => intro s gw h _; exact h
  | cons o os ih =>
    intro s gw h hwf
    simp only [wfFrom, Bool.and_eq_true] at hwf
    simp only [List.foldl_cons]
    exact ih _ _ (Inv_step s gw o h hwf.1) hwf.2

/-! ### the reference world against the ghost world -/

def isLive (j : WJob) : Bool := decide (j.live ≠ [])

theorem specView_eq (w : List WJob) : specView w = (w.filter isLive).map fun j =>
    (j.gid, j.live, (j.procs.filter (fun p => p.2 ≠ .gone)).all (fun p => p.2 = .stopped)) := rfl

theorem goneJob_dead (q : Pid) (j : WJob) (h : j.live = []) : goneJob q j = j := by
  unfold WJob.live at h
  have h' := List.map_eq_nil_iff.mp h
  have hall : ∀ pr ∈ j.procs, pr.2 = .gone := by
    intro pr hpr
    have := List.filter_eq_nil_iff.mp h' pr hpr
    simpa using this
  unfold goneJob
  have : j.procs.map (fun pr => if pr.1 = q ∧ pr.2 ≠ .gone then (pr.1, PState.gone) else pr) = j.procs := by
    conv => rhs; rw [← List.map_id j.procs]
    apply List.map_congr_left
    intro pr hpr
    simp [hall pr hpr]
  rw [this]

theorem filter_gone (q : Pid) (w : List WJob) :
    (w.map (goneJob q)).filter isLive = ((w.filter isLive).map (goneJob q)).filter isLive := by
  induction w with
  | nil => rfl
  | cons j js ih =>
    by_cases hl : isLive j = true
    · simp only [List.map_cons, List.filter_cons, hl, ↓reduceIte]
      rw [ih]
    · have hd : j.live = [] := by simpa [isLive] using hl
      simp only [List.map_cons, List.filter_cons, hl, goneJob_dead q j hd, Bool.false_eq_true, ↓reduceIte]
      exact ih

theorem world_step (w gw : List WJob) (o : Op) (h : w.filter isLive = gw.filter isLive) (hok : okOp gw o = true) :
    (worldStep w o).filter isLive = (gStep gw o).filter isLive := by
  cases o with
  | launch bg gid pids =>
    simp only [okOp, Bool.and_eq_true, Bool.not_eq_true', List.any_eq_false] at hok
    have hgid := hok.2
    have hany : (w.filter isLive).any (fun j => decide (j.gid = gid)) = false := by
      rw [h]
      apply List.any_eq_false.mpr
      intro j hj
      exact hgid j (List.mem_filter.mp hj).1
    simp only [worldStep, gStep]
    have : (List.filter (fun j => decide (j.live ≠ [])) w) = w.filter isLive := rfl
    rw [this, hany]
    simp only [Bool.false_eq_true, ↓reduceIte, List.filter_append, List.filter_filter, Bool.and_self]
    rw [h]
  | ev e =>
    cases e with
    | exited p c =>
      simp only [worldStep, gStep, applyEv_exited]
      rw [filter_gone p w, filter_gone p gw, h]
    | killed p c =>
      simp only [worldStep, gStep, applyEv_killed]
      rw [filter_gone p w, filter_gone p gw, h]
    | stopped p c => cases hok
    | continued p => cases hok
  | waitFg gid pids => exact h
  | poll => exact h

theorem world_run : ∀ (ops : List Op) (w gw : List WJob), w.filter isLive = gw.filter isLive → wfFrom gw ops = true →
    (ops.foldl worldStep w).filter isLive = (ops.foldl gStep gw).filter isLive := by
  intro ops
  induction ops with
  | nil => intro w gw h _; exact h
  | cons o os ih =>
    intro w gw h hwf
    simp only [wfFrom, Bool.and_eq_true] at hwf
    simp only [List.foldl_cons]
    exact ih _ _ (world_step w gw o h hwf.1) hwf.2

theorem specView_ghost (ops : List Op) (hwf : wfFrom [] ops = true) :
    specView (ops.foldl worldStep []) = specView (ops.foldl gStep []) := by
  rw [specView_eq, specView_eq, world_run ops [] [] rfl hwf]

/-! ### the views at quiescence -/

theorem spec_entry (gw : List WJob) (hgw : GW gw) (wj : WJob) (hwj : wj ∈ gw) (hl : wj.live ≠ []) :
    (wj.procs.filter (fun p => p.2 ≠ .gone)).all (fun p => p.2 = .stopped) = false := by
  unfold WJob.live at hl
  have hne : wj.procs.filter (fun p => p.2 ≠ .gone) ≠ [] := fun e => hl (by rw [e]; rfl)
  obtain ⟨pr, hpr⟩ := List.exists_mem_of_ne_nil _ hne
  apply List.all_eq_false.mpr
  refine ⟨pr, hpr, ?_⟩
  have := hgw.nostop wj hwj pr (List.mem_filter.mp hpr).1
  simpa using this

/-- with no exit in flight the table shows exactly the live jobs of the world, with exactly their live pids, all Running -/
theorem views_quiescent (s : Sh) (pend : List Ev) (gw : List WJob) (h : Inv s pend gw) (hq : infl s pend = []) :
    (modelView s).Perm (specView gw) := by
  have htr := h.tr
  rw [hq] at htr
  have hwg := nodup_map_inj (fun (x : WJob) => x.gid) gw h.world.gids
  have nd1 : (modelView s).Nodup := by
    have : (modelView s).map (·.1) = s.jobs.map (·.gid) := by
      simp [modelView, List.map_map, Function.comp_def]
    have hn := htr.gids
    rw [← this] at hn
    exact List.Pairwise.of_map (·.1) (fun a b hab e => hab (by rw [e])) hn
  have nd2 : (specView gw).Nodup := by
    have : (specView gw).map (·.1) = (gw.filter isLive).map (·.gid) := by
      simp [specView_eq, List.map_map, Function.comp_def]
    have hn : ((gw.filter isLive).map (·.gid)).Nodup := h.world.gids.sublist (List.Sublist.map _ List.filter_sublist)
    rw [← this] at hn
    exact List.Pairwise.of_map (·.1) (fun a b hab e => hab (by rw [e])) hn
  rw [List.perm_ext_iff_of_nodup nd1 nd2]
  intro x
  simp only [modelView, specView_eq, List.mem_map, List.mem_filter]
  constructor
  · rintro ⟨j, hj, rfl⟩
    obtain ⟨h1, h2, wj, h3, h4, h5⟩ := htr.sound j hj
    rw [kept_nil] at h5
    have hl : wj.live ≠ [] := by rw [← h5]; exact h2
    refine ⟨wj, ⟨h3, by simp [isLive, hl]⟩, ?_⟩
    rw [spec_entry gw h.world wj h3 hl, h4, h5, h1]
    rfl
  · rintro ⟨wj, ⟨hwj, hl⟩, rfl⟩
    have hl' : wj.live ≠ [] := by simpa [isLive] using hl
    obtain ⟨j, hj, hg⟩ := htr.complete wj hwj (by rw [kept_nil]; exact hl')
    obtain ⟨h1, h2, wj', h3, h4, h5⟩ := htr.sound j hj
    have : wj' = wj := hwg wj' h3 wj hwj (by rw [h4, hg])
    subst this
    rw [kept_nil] at h5
    refine ⟨j, hj, ?_⟩
    rw [spec_entry gw h.world wj' h3 hl', hg, h5, h1]
    rfl

/-! ## second class: single-process jobs with stop / continue events, background only -/

/-- the state a notification leaves the process in -/
def evRes : Ev → PState
  | .exited _ _ => .gone
  | .killed _ _ => .gone
  | .stopped _ _ => .stopped
  | .continued _ => .running

def setJob (q : Pid) (r : PState) (j : WJob) : WJob :=
  { j with procs := j.procs.map fun pr => if pr.1 = q ∧ pr.2 ≠ .gone then (pr.1, r) else pr }

theorem applyEv_set (w : List WJob) (e : Ev) : applyEv w e = w.map (setJob e.pid (evRes e)) := by
  cases e <;> (unfold applyEv setJob; apply List.map_congr_left; intro j _; congr 1)

theorem setJob_dead (q : Pid) (r : PState) (j : WJob) (h : j.live = []) : setJob q r j = j := by
  unfold WJob.live at h
  have h' := List.map_eq_nil_iff.mp h
  have hall : ∀ pr ∈ j.procs, pr.2 = .gone := by
    intro pr hpr
    have := List.filter_eq_nil_iff.mp h' pr hpr
    simpa using this
  unfold setJob
  have : j.procs.map (fun pr => if pr.1 = q ∧ pr.2 ≠ .gone then (pr.1, r) else pr) = j.procs := by
    conv => rhs; rw [← List.map_id j.procs]
    apply List.map_congr_left
    intro pr hpr
    simp [hall pr hpr]
  rw [this]

theorem filter_set (q : Pid) (r : PState) (w : List WJob) :
    (w.map (setJob q r)).filter isLive = ((w.filter isLive).map (setJob q r)).filter isLive := by
  induction w with
  | nil => rfl
  | cons j js ih =>
    by_cases hl : isLive j = true
    · simp only [List.map_cons, List.filter_cons, hl, ↓reduceIte]
      rw [ih]
    · have hd : j.live = [] := by simpa [isLive] using hl
      simp only [List.map_cons, List.filter_cons, hl, setJob_dead q r j hd, Bool.false_eq_true, ↓reduceIte]
      exact ih

/-- the ghost world of single-process jobs -/
structure GW1 (w : List WJob) : Prop where
  gids : (w.map (·.gid)).Nodup
  single : ∀ j ∈ w, ∃ p st, j.procs = [(p, st)]
  owner : ∀ j ∈ w, ∀ j' ∈ w, ∀ p st st', j.procs = [(p, st)] → j'.procs = [(p, st')] → j = j'

theorem setJob_single (q : Pid) (r : PState) (j : WJob) (p : Pid) (st : PState) (h : j.procs = [(p, st)]) :
    (setJob q r j).procs = [(p, if p = q ∧ st ≠ .gone then r else st)] ∧ (setJob q r j).gid = j.gid := by
  unfold setJob
  simp only [h, List.map_cons, List.map_nil]
  split <;> simp

theorem setJob_other (q : Pid) (r : PState) (j : WJob) (p : Pid) (st : PState) (h : j.procs = [(p, st)]) (hne : p ≠ q) :
    setJob q r j = j := by
  unfold setJob
  simp only [h, List.map_cons, List.map_nil, hne, false_and, ↓reduceIte]
  rw [← h]

theorem GW1_set (w : List WJob) (q : Pid) (r : PState) (h : GW1 w) : GW1 (w.map (setJob q r)) := by
  refine ⟨?_, ?_, ?_⟩
  · have : (w.map (setJob q r)).map (·.gid) = w.map (·.gid) := by
      simp only [List.map_map]; apply List.map_congr_left; intro j _; rfl
    rw [this]; exact h.gids
  · intro j hj
    obtain ⟨j0, h0, rfl⟩ := List.mem_map.mp hj
    obtain ⟨p, st, hp⟩ := h.single j0 h0
    exact ⟨p, _, (setJob_single q r j0 p st hp).1⟩
  · intro j hj j' hj' p st st' hp hp'
    obtain ⟨j0, h0, rfl⟩ := List.mem_map.mp hj
    obtain ⟨j1, h1, rfl⟩ := List.mem_map.mp hj'
    obtain ⟨p0, st0, hp0⟩ := h.single j0 h0
    obtain ⟨p1, st1, hp1⟩ := h.single j1 h1
    rw [(setJob_single q r j0 p0 st0 hp0).1] at hp
    rw [(setJob_single q r j1 p1 st1 hp1).1] at hp'
    simp only [List.cons.injEq, Prod.mk.injEq, and_true] at hp hp'
    have e0 : p0 = p := hp.1
    have e1 : p1 = p := hp'.1
    rw [e0] at hp0; rw [e1] at hp1
    rw [h.owner j0 h0 j1 h1 p st0 st1 hp0 hp1]

theorem GW1_launch (w : List WJob) (gid p : Pid) (h : GW1 w) (hfresh : everLaunched w p = false) (hgid : ∀ j ∈ w, j.gid ≠ gid) :
    GW1 (w ++ [{ gid := gid, procs := [(p, PState.running)] }]) := by
  refine ⟨?_, ?_, ?_⟩
  · simp only [List.map_append, List.map_cons, List.map_nil]
    rw [List.nodup_append]
    refine ⟨h.gids, by simp, ?_⟩
    intro a ha b hb
    obtain ⟨j, hj, rfl⟩ := List.mem_map.mp ha
    simp only [List.mem_singleton] at hb
    subst hb
    exact hgid j hj
  · intro j hj
    simp only [List.mem_append, List.mem_singleton] at hj
    rcases hj with hj | rfl
    · exact h.single j hj
    · exact ⟨p, .running, rfl⟩
  · intro j hj j' hj' q st st' hq hq'
    simp only [List.mem_append, List.mem_singleton] at hj hj'
    rcases hj with hj | rfl <;> rcases hj' with hj' | rfl
    · exact h.owner j hj j' hj' q st st' hq hq'
    · simp only [List.cons.injEq, Prod.mk.injEq, and_true] at hq'
      exfalso
      apply everLaunched_false hfresh j hj
      simp [WJob.pidsOf, hq, hq'.1]
    · simp only [List.cons.injEq, Prod.mk.injEq, and_true] at hq
      exfalso
      apply everLaunched_false hfresh j' hj'
      simp [WJob.pidsOf, hq', hq.1]
    · rfl

/-- the two states of a single-process job in the table -/
def okSt (j : Job) (p : Pid) : Prop :=
  (j.status = "Running" ∧ j.stoppedSet = []) ∨ (j.status = "Stopped" ∧ j.stoppedSet = [p])

/-- the table of single-process jobs against the ghost world; `D`: pids with a notification in flight -/
structure TR1 (jobs : List Job) (gw : List WJob) (D : List Pid) : Prop where
  gids : (jobs.map (·.gid)).Nodup
  sound : ∀ j ∈ jobs, ∃ wj ∈ gw, ∃ p st, wj.procs = [(p, st)] ∧ wj.gid = j.gid ∧ j.pids = [p] ∧ okSt j p ∧
    (p ∉ D → st ≠ .gone ∧ (j.status = "Stopped" ↔ st = .stopped))
  complete : ∀ wj ∈ gw, ∀ p st, wj.procs = [(p, st)] → (st ≠ .gone ∨ p ∈ D) → ∃ j ∈ jobs, j.gid = wj.gid

theorem TR1_congr {jobs : List Job} {gw : List WJob} {D D' : List Pid} (h : ∀ q, q ∈ D ↔ q ∈ D') (htr : TR1 jobs gw D) : TR1 jobs gw D' := by
  refine ⟨htr.gids, ?_, ?_⟩
  · intro j hj
    obtain ⟨wj, h1, p, st, h2, h3, h4, h5, h6⟩ := htr.sound j hj
    exact ⟨wj, h1, p, st, h2, h3, h4, h5, fun hn => h6 (fun x => hn ((h p).mp x))⟩
  · intro wj hwj p st hp hor
    exact htr.complete wj hwj p st hp (hor.imp id (fun x => (h p).mpr x))

/-- the facts used again and again: the table job of a world job is unique -/
theorem TR1_job_of (jobs : List Job) (gw : List WJob) (D : List Pid) (hgw : GW1 gw) (htr : TR1 jobs gw D)
    (j : Job) (hj : j ∈ jobs) (wj : WJob) (hwj : wj ∈ gw) (hg : wj.gid = j.gid) (p : Pid) (st : PState) (hp : wj.procs = [(p, st)]) :
    j.pids = [p] ∧ okSt j p ∧ (p ∉ D → st ≠ .gone ∧ (j.status = "Stopped" ↔ st = .stopped)) := by
  obtain ⟨wj', h1, p', st', h2, h3, h4, h5, h6⟩ := htr.sound j hj
  have := nodup_map_inj (fun (x : WJob) => x.gid) gw hgw.gids wj' h1 wj hwj (by rw [h3, hg])
  subst this
  rw [h2] at hp
  simp only [List.cons.injEq, Prod.mk.injEq, and_true] at hp
  obtain ⟨rfl, rfl⟩ := hp
  exact ⟨h4, h5, h6⟩

theorem TR1_update (jobs : List Job) (gw : List WJob) (D D' : List Pid) (hgw : GW1 gw) (htr : TR1 jobs gw D)
    (hji : ∀ a ∈ jobs, ∀ b ∈ jobs, a.id = b.id → a = b)
    (j0 : Job) (hj0 : j0 ∈ jobs) (p0 : Pid) (hD : ∀ x, x ∈ D' ↔ x ∈ D ∧ x ≠ p0) (f : Job → Job)
    (hfg : ∀ x, (f x).gid = x.gid) (hfp : ∀ x, (f x).pids = x.pids) (hok : okSt (f j0) p0)
    (wj0 : WJob) (hwj0 : wj0 ∈ gw) (hg0 : wj0.gid = j0.gid) (st0 : PState) (hp0 : wj0.procs = [(p0, st0)])
    (hst : st0 ≠ .gone ∧ ((f j0).status = "Stopped" ↔ st0 = .stopped)) :
    TR1 (jobs.map fun x => if x.id = j0.id then f x else x) gw D' := by
  have hjg := nodup_map_inj (fun (x : Job) => x.gid) jobs htr.gids
  refine ⟨?_, ?_, ?_⟩
  · rw [map_gid_updMap jobs j0.id f hfg]; exact htr.gids
  · intro j' hj'
    obtain ⟨j, hj, rfl⟩ := List.mem_map.mp hj'
    by_cases hid : j.id = j0.id
    · have := hji j hj j0 hj0 hid
      subst this
      simp only [↓reduceIte]
      obtain ⟨h4, _, _⟩ := TR1_job_of jobs gw D hgw htr j hj wj0 hwj0 hg0 p0 st0 hp0
      exact ⟨wj0, hwj0, p0, st0, hp0, by rw [hfg]; exact hg0, by rw [hfp]; exact h4, hok, fun _ => hst⟩
    · simp only [hid, ↓reduceIte]
      obtain ⟨wj, h1, p, st, h2, h3, h4, h5, h6⟩ := htr.sound j hj
      refine ⟨wj, h1, p, st, h2, h3, h4, h5, ?_⟩
      intro hn
      apply h6
      intro hd
      apply hn
      rw [hD]
      refine ⟨hd, ?_⟩
      rintro rfl
      have := hgw.owner wj h1 wj0 hwj0 p st st0 h2 hp0
      subst this
      exact hid (by rw [hjg j hj j0 hj0 (by rw [← h3, hg0])])
  · intro wj hwj p st hp hor
    obtain ⟨j, hj, hg⟩ := htr.complete wj hwj p st hp (hor.imp id (fun x => ((hD p).mp x).1))
    refine ⟨_, List.mem_map.mpr ⟨j, hj, rfl⟩, ?_⟩
    split
    · rw [hfg]; exact hg
    · exact hg

theorem TR1_drop (jobs : List Job) (gw : List WJob) (D D' : List Pid) (hgw : GW1 gw) (htr : TR1 jobs gw D)
    (hji : ∀ a ∈ jobs, ∀ b ∈ jobs, a.id = b.id → a = b)
    (j0 : Job) (hj0 : j0 ∈ jobs) (p0 : Pid) (hD : ∀ x, x ∈ D' ↔ x ∈ D ∧ x ≠ p0)
    (wj0 : WJob) (hwj0 : wj0 ∈ gw) (hg0 : wj0.gid = j0.gid) (hp0 : wj0.procs = [(p0, .gone)]) :
    TR1 (jobs.filter fun x => decide (x.id ≠ j0.id)) gw D' := by
  have hjg := nodup_map_inj (fun (x : Job) => x.gid) jobs htr.gids
  have hwg := nodup_map_inj (fun (x : WJob) => x.gid) gw hgw.gids
  refine ⟨htr.gids.sublist (List.Sublist.map _ List.filter_sublist), ?_, ?_⟩
  · intro j hj
    simp only [List.mem_filter, decide_eq_true_eq] at hj
    obtain ⟨wj, h1, p, st, h2, h3, h4, h5, h6⟩ := htr.sound j hj.1
    refine ⟨wj, h1, p, st, h2, h3, h4, h5, ?_⟩
    intro hn
    apply h6
    intro hd
    apply hn
    rw [hD]
    refine ⟨hd, ?_⟩
    rintro rfl
    have := hgw.owner wj h1 wj0 hwj0 p st .gone h2 hp0
    subst this
    exact hj.2 (by rw [hjg j hj.1 j0 hj0 (by rw [← h3, hg0])])
  · intro wj hwj p st hp hor
    obtain ⟨j, hj, hg⟩ := htr.complete wj hwj p st hp (hor.imp id (fun x => ((hD p).mp x).1))
    refine ⟨j, ?_, hg⟩
    simp only [List.mem_filter, decide_eq_true_eq]
    refine ⟨hj, ?_⟩
    intro hid
    have := hji j hj j0 hj0 hid
    subst this
    have := hwg wj hwj wj0 hwj0 (by rw [← hg, hg0])
    subst this
    rw [hp0] at hp
    simp only [List.cons.injEq, Prod.mk.injEq, and_true] at hp
    obtain ⟨rfl, rfl⟩ := hp
    rcases hor with h | h
    · exact h rfl
    · exact ((hD _).mp h).2 rfl

theorem findGid_of (s : Sh) (gid : Pid) (hnd : (s.jobs.map (·.gid)).Nodup) (j0 : Job) (hj0 : j0 ∈ s.jobs) (hg0 : j0.gid = gid) :
    findGid s gid = some j0 := by
  have hjg := nodup_map_inj (fun (x : Job) => x.gid) s.jobs hnd
  unfold findGid
  cases hf : s.jobs.find? (·.gid = gid) with
  | none =>
    have := List.find?_eq_none.mp hf j0 hj0
    simp [hg0] at this
  | some j1 =>
    have h1 := List.mem_of_find?_eq_some hf
    have h2 : j1.gid = gid := by simpa using List.find?_some hf
    rw [hjg j1 h1 j0 hj0 (by rw [h2, hg0])]

theorem removePid_single (s : Sh) (gid p : Pid) (j0 : Job) (hf : findGid s gid = some j0) (hp : j0.pids = [p]) :
    (removePid s gid p).jobs = s.jobs.filter (fun x => decide (x.id ≠ j0.id)) := by
  unfold removePid
  rw [hf]
  simp [hp]

theorem markMemberStopped_single (s : Sh) (gid p : Pid) (j0 : Job) (hf : findGid s gid = some j0) (hp : j0.pids = [p])
    (hok : okSt j0 p) :
    (markMemberStopped s p gid).jobs =
      s.jobs.map (fun x => if x.id = j0.id then { x with stoppedSet := [p], status := "Stopped", isBg := true } else x) := by
  unfold markMemberStopped
  rw [hf]
  have hst : (if j0.stoppedSet.contains p then j0.stoppedSet else j0.stoppedSet ++ [p]) = [p] := by
    rcases hok with ⟨_, h⟩ | ⟨_, h⟩ <;> simp [h]
  simp only [hst]
  have hall : ({ j0 with stoppedSet := [p] } : Job).allStopped = true := by simp [Job.allStopped, hp]
  simp only [hall, ↓reduceIte, updJob, List.map_map]
  apply List.map_congr_left
  intro x _
  simp only [Function.comp]
  by_cases hx : x.id = j0.id <;> simp [hx]

theorem markMemberContinued_single (s : Sh) (gid p : Pid) (j0 : Job) (hf : findGid s gid = some j0) (hok : okSt j0 p) :
    (markMemberContinued s p gid).jobs =
      s.jobs.map (fun x => if x.id = j0.id then { x with stoppedSet := [], status := "Running", isBg := true } else x) := by
  unfold markMemberContinued
  rw [hf]
  have hst : j0.stoppedSet.erase p = [] := by
    rcases hok with ⟨_, h⟩ | ⟨_, h⟩ <;> simp [h]
  simp only [hst, List.isEmpty_nil, ↓reduceIte, updJob, List.map_map]
  apply List.map_congr_left
  intro x _
  simp only [Function.comp]
  by_cases hx : x.id = j0.id <;> simp [hx]

/-- the notifications in flight with the state each leaves its process in -/
def inflSt (s : Sh) (pend : List Ev) : List (Pid × PState) :=
  pend.map (fun e => (e.pid, evRes e)) ++ s.reap.map (fun x => (x.1, PState.gone)) ++ s.kill.map (fun x => (x.1, PState.gone)) ++
    s.stop.map (fun p => (p, PState.stopped)) ++ s.cont.map (fun p => (p, PState.running))

structure Inv1 (s : Sh) (pend : List Ev) (gw : List WJob) : Prop where
  ids : IdsOk s
  world : GW1 gw
  nd : ((inflSt s pend).map (·.1)).Nodup
  cons : ∀ x ∈ inflSt s pend, ∃ wj ∈ gw, wj.procs = [x]
  tr : TR1 s.jobs gw ((inflSt s pend).map (·.1))

theorem Inv1_perm (s s' : Sh) (pend pend' : List Ev) (gw : List WJob) (h : Inv1 s pend gw)
    (hj : s'.jobs = s.jobs) (hperm : (inflSt s' pend').Perm (inflSt s pend)) : Inv1 s' pend' gw := by
  have hp1 := hperm.map (·.1)
  refine ⟨idsOk_of_jobs_eq hj h.ids, h.world, (hp1.nodup_iff).mpr h.nd, fun x hx => h.cons x (hperm.mem_iff.mp hx), ?_⟩
  rw [hj]
  exact TR1_congr (fun q => hp1.mem_iff.symm) h.tr

theorem Inv1_pending_irrel (s : Sh) (pend l : List Ev) (gw : List WJob) (h : Inv1 s pend gw) : Inv1 { s with pending := l } pend gw :=
  Inv1_perm s _ pend pend gw h rfl (List.Perm.refl _)

/-- a notification for a process that is not gone and has nothing in flight becomes pending -/
theorem Inv1_ev (s : Sh) (gw : List WJob) (e : Ev) (h : Inv1 s s.pending gw)
    (wq : WJob) (hwq : wq ∈ gw) (stq : PState) (hpq : wq.procs = [(e.pid, stq)]) (hlive : stq ≠ .gone)
    (hfree : e.pid ∉ (inflSt s s.pending).map (·.1)) :
    Inv1 { s with pending := s.pending ++ [e] } (s.pending ++ [e]) (gw.map (setJob e.pid (evRes e))) := by
  have hperm : (inflSt { s with pending := s.pending ++ [e] } (s.pending ++ [e])).Perm ((e.pid, evRes e) :: inflSt s s.pending) := by
    simp only [inflSt, List.map_append, List.map_cons, List.map_nil, List.append_assoc, List.singleton_append]
    exact List.perm_middle
  have hp1 := hperm.map (·.1)
  have hmem : ∀ x, x ∈ (inflSt { s with pending := s.pending ++ [e] } (s.pending ++ [e])).map (·.1) ↔
      x ∈ (inflSt s s.pending).map (·.1) ∨ x = e.pid := by
    intro x
    rw [hp1.mem_iff, List.map_cons, List.mem_cons]
    exact Or.comm
  refine ⟨idsOk_of_jobs_eq rfl h.ids, GW1_set gw _ _ h.world, ?_, ?_, ?_⟩
  · rw [hp1.nodup_iff, List.map_cons, List.nodup_cons]
    exact ⟨hfree, h.nd⟩
  · intro x hx
    rw [hperm.mem_iff, List.mem_cons] at hx
    rcases hx with rfl | hx
    · refine ⟨setJob e.pid (evRes e) wq, List.mem_map.mpr ⟨wq, hwq, rfl⟩, ?_⟩
      rw [(setJob_single _ _ wq _ stq hpq).1]
      simp [hlive]
    · obtain ⟨wj, hwj, hp⟩ := h.cons x hx
      have hne : x.1 ≠ e.pid := fun e' => hfree (e' ▸ List.mem_map.mpr ⟨x, hx, rfl⟩)
      exact ⟨wj, List.mem_map.mpr ⟨wj, hwj, setJob_other _ _ wj x.1 x.2 hp hne⟩, hp⟩
  · refine ⟨h.tr.gids, ?_, ?_⟩
    · intro j hj
      obtain ⟨wj, h1, p, st, h2, h3, h4, h5, h6⟩ := h.tr.sound j hj
      obtain ⟨k1, k2⟩ := setJob_single e.pid (evRes e) wj p st h2
      refine ⟨_, List.mem_map.mpr ⟨wj, h1, rfl⟩, p, _, k1, by rw [k2]; exact h3, h4, h5, ?_⟩
      intro hn
      have hn' : p ∉ (inflSt s s.pending).map (·.1) ∧ p ≠ e.pid := by
        constructor
        · exact fun x => hn ((hmem p).mpr (Or.inl x))
        · exact fun x => hn ((hmem p).mpr (Or.inr x))
      simp only [hn'.2, false_and, ↓reduceIte]
      exact h6 hn'.1
    · intro wj' hwj' p st hp hor
      obtain ⟨wj, hwj, rfl⟩ := List.mem_map.mp hwj'
      obtain ⟨p0, st0, hp0⟩ := h.world.single wj hwj
      obtain ⟨k1, k2⟩ := setJob_single e.pid (evRes e) wj p0 st0 hp0
      rw [k1] at hp
      simp only [List.cons.injEq, Prod.mk.injEq, and_true] at hp
      obtain ⟨rfl, hst⟩ := hp
      rw [k2]
      apply h.tr.complete wj hwj p0 st0 hp0
      by_cases hc : p0 = e.pid
      · have := h.world.owner wj hwj wq hwq p0 st0 stq hp0 (by rw [hc]; exact hpq)
        subst this
        rw [hp0] at hpq
        simp only [List.cons.injEq, Prod.mk.injEq, and_true] at hpq
        left; rw [hpq.2]; exact hlive
      · simp only [hc, false_and, ↓reduceIte] at hst
        subst hst
        rcases hor with h1 | h1
        · exact Or.inl h1
        · rcases (hmem p0).mp h1 with h2 | h2
          · exact Or.inr h2
          · exact absurd h2 hc

def keys1 (s : Sh) (pend : List Ev) : List Pid := pend.map Ev.pid ++ s.reap.map (·.1) ++ s.kill.map (·.1) ++ s.stop ++ s.cont

theorem inflSt_keys (s : Sh) (pend : List Ev) : (inflSt s pend).map (·.1) = keys1 s pend := by
  simp [inflSt, keys1, List.map_map, Function.comp_def]

theorem putMap_eq (l : List (Pid × Int)) (p : Pid) (v : Int) (h : p ∉ l.map (·.1)) : putMap l p v = l ++ [(p, v)] := by
  unfold putMap
  have : l.filter (fun x => decide (x.1 ≠ p)) = l := by
    apply List.filter_eq_self.mpr
    intro a ha
    have : a.1 ≠ p := fun e => h (List.mem_map.mpr ⟨a, ha, e⟩)
    simpa using this
  rw [this]

theorem addOnce_eq (l : List Pid) (p : Pid) (h : p ∉ l) : addOnce l p = l ++ [p] := by
  unfold addOnce
  simp [h]

theorem Inv1_parkF (s : Sh) (e : Ev) (rest : List Ev) (gw : List WJob) (h : Inv1 s (e :: rest) gw) : Inv1 (parkF s e) rest gw := by
  have hnd := h.nd
  rw [inflSt_keys] at hnd
  simp only [keys1, List.map_cons, List.cons_append, List.nodup_cons, List.mem_append, not_or] at hnd
  obtain ⟨⟨⟨⟨⟨_, hr⟩, hk⟩, hs⟩, hc⟩, _⟩ := hnd
  cases e with
  | exited p c =>
    have hr : p ∉ s.reap.map (·.1) := hr
    refine Inv1_perm s _ _ _ gw h rfl ?_
    simp only [parkF, inflSt, putMap_eq _ _ _ hr, Ev.pid, evRes]
    rw [List.perm_iff_count]
    intro a
    simp only [List.map_append, List.map_cons, List.map_nil, List.count_append, List.count_cons, List.count_nil]
    omega
  | killed p c =>
    have hk : p ∉ s.kill.map (·.1) := hk
    refine Inv1_perm s _ _ _ gw h rfl ?_
    simp only [parkF, inflSt, putMap_eq _ _ _ hk, Ev.pid, evRes]
    rw [List.perm_iff_count]
    intro a
    simp only [List.map_append, List.map_cons, List.map_nil, List.count_append, List.count_cons, List.count_nil]
    omega
  | stopped p c =>
    have hs : p ∉ s.stop := hs
    refine Inv1_perm s _ _ _ gw h rfl ?_
    simp only [parkF, inflSt, addOnce_eq _ _ hs, Ev.pid, evRes]
    rw [List.perm_iff_count]
    intro a
    simp only [List.map_append, List.map_cons, List.map_nil, List.count_append, List.count_cons, List.count_nil]
    omega
  | continued p =>
    have hc : p ∉ s.cont := hc
    refine Inv1_perm s _ _ _ gw h rfl ?_
    simp only [parkF, inflSt, addOnce_eq _ _ hc, Ev.pid, evRes]
    rw [List.perm_iff_count]
    intro a
    simp only [List.map_append, List.map_cons, List.map_nil, List.count_append, List.count_cons, List.count_nil]
    omega

theorem Inv1_parkFold (gw : List WJob) : ∀ (evs : List Ev) (s : Sh), Inv1 s evs gw → Inv1 (evs.foldl parkF s) [] gw := by
  intro evs
  induction evs with
  | nil => intro s h; exact h
  | cons e rest ih =>
    intro s h
    simp only [List.foldl_cons]
    exact ih _ (Inv1_parkF s e rest gw h)

theorem Inv1_park (s : Sh) (gw : List WJob) (h : Inv1 s s.pending gw) : Inv1 (park s) [] gw ∧ (park s).pending = [] := by
  rw [park_eq]
  exact ⟨Inv1_parkFold gw _ _ (Inv1_pending_irrel s _ [] gw h), by rw [parkFold_pending]⟩

theorem ite_only_jobs (c : Prop) [Decidable c] (a b s : Sh) (ha : a = { s with jobs := a.jobs }) (hb : b = { s with jobs := b.jobs }) :
    (if c then a else b) = { s with jobs := (if c then a else b).jobs } := by
  split <;> assumption

theorem markMemberStopped_only_jobs (s : Sh) (p g : Pid) : markMemberStopped s p g = { s with jobs := (markMemberStopped s p g).jobs } := by
  unfold markMemberStopped
  cases findGid s g with
  | none => rfl
  | some j => exact ite_only_jobs _ _ _ _ rfl rfl

theorem markMemberContinued_only_jobs (s : Sh) (p g : Pid) : markMemberContinued s p g = { s with jobs := (markMemberContinued s p g).jobs } := by
  unfold markMemberContinued
  cases findGid s g with
  | none => rfl
  | some j => exact ite_only_jobs _ _ _ _ rfl rfl

theorem inflSt_mStopped (s : Sh) (p g : Pid) (pend : List Ev) : inflSt (markMemberStopped s p g) pend = inflSt s pend := by
  have h := markMemberStopped_only_jobs s p g
  have e1 : (markMemberStopped s p g).reap = s.reap := (congrArg Sh.reap h).trans rfl
  have e2 : (markMemberStopped s p g).kill = s.kill := (congrArg Sh.kill h).trans rfl
  have e3 : (markMemberStopped s p g).stop = s.stop := (congrArg Sh.stop h).trans rfl
  have e4 : (markMemberStopped s p g).cont = s.cont := (congrArg Sh.cont h).trans rfl
  simp only [inflSt, e1, e2, e3, e4]

theorem inflSt_mContinued (s : Sh) (p g : Pid) (pend : List Ev) : inflSt (markMemberContinued s p g) pend = inflSt s pend := by
  have h := markMemberContinued_only_jobs s p g
  have e1 : (markMemberContinued s p g).reap = s.reap := (congrArg Sh.reap h).trans rfl
  have e2 : (markMemberContinued s p g).kill = s.kill := (congrArg Sh.kill h).trans rfl
  have e3 : (markMemberContinued s p g).stop = s.stop := (congrArg Sh.stop h).trans rfl
  have e4 : (markMemberContinued s p g).cont = s.cont := (congrArg Sh.cont h).trans rfl
  simp only [inflSt, e1, e2, e3, e4]

theorem inflSt_removePid (s : Sh) (gid p : Pid) (pend : List Ev) : inflSt (removePid s gid p) pend = inflSt s pend := by
  obtain ⟨h1, h2, h3, h4, _⟩ := removePid_fields s gid p
  simp only [inflSt, h1, h2, h3, h4]

/-- common part of the four applications: the state `s1` has forgotten the notification of `pid`, `s2` has applied it -/
theorem Inv1_applied (s s1 s2 : Sh) (gw : List WJob) (pid : Pid) (h : Inv1 s [] gw)
    (hsub : (inflSt s1 []).Sublist (inflSt s [])) (h2 : inflSt s2 [] = inflSt s1 []) (hids : IdsOk s2)
    (htr : TR1 s2.jobs gw (keys1 s1 [])) (hD : ∀ x, x ∈ keys1 s1 [] ↔ x ∈ keys1 s [] ∧ x ≠ pid) :
    Inv1 s2 [] gw ∧ (∀ q ∈ keys1 s2 [], q ∈ keys1 s []) ∧ pid ∉ keys1 s2 [] := by
  have hk : keys1 s2 [] = keys1 s1 [] := by rw [← inflSt_keys, ← inflSt_keys, h2]
  refine ⟨⟨hids, h.world, ?_, ?_, ?_⟩, ?_, ?_⟩
  · rw [h2]; exact h.nd.sublist (hsub.map _)
  · intro x hx; rw [h2] at hx; exact h.cons x (hsub.subset hx)
  · rw [h2, inflSt_keys]; exact htr
  · intro q hq; rw [hk] at hq; exact ((hD q).mp hq).1
  · rw [hk]; intro hq; exact ((hD pid).mp hq).2 rfl


theorem apF_inv1 (gid : Pid) (s : Sh) (pid : Pid) (gw : List WJob) (h : Inv1 s [] gw)
    (wj : WJob) (hwj : wj ∈ gw) (hgid : wj.gid = gid) (st : PState) (hp : wj.procs = [(pid, st)]) :
    Inv1 (apF gid s pid) [] gw ∧ (∀ q ∈ keys1 (apF gid s pid) [], q ∈ keys1 s []) ∧ pid ∉ keys1 (apF gid s pid) [] := by
  have hnd := h.nd
  rw [inflSt_keys] at hnd
  simp only [keys1, List.map_nil, List.nil_append] at hnd
  obtain ⟨hnd4, hndc, hd4⟩ := List.nodup_append.mp hnd
  obtain ⟨hnd3, hnds, hd3⟩ := List.nodup_append.mp hnd4
  obtain ⟨hndr, hndk, hd2⟩ := List.nodup_append.mp hnd3
  have hji := pairwise_lt_map_inj (fun (x : Job) => x.id) s.jobs h.ids
  have htr := h.tr
  rw [inflSt_keys] at htr
  -- whatever is in flight for `pid`, the world job is `wj` and the table has its job
  have hin : ∀ r, (pid, r) ∈ inflSt s [] → st = r ∧ ∃ j0 ∈ s.jobs, j0.gid = gid ∧ findGid s gid = some j0 ∧ j0.pids = [pid] ∧ okSt j0 pid := by
    intro r hr
    obtain ⟨wj', hwj', hp'⟩ := h.cons _ hr
    have := h.world.owner wj' hwj' wj hwj pid r st hp' hp
    subst this
    rw [hp] at hp'
    simp only [List.cons.injEq, Prod.mk.injEq, and_true, true_and] at hp'
    have hk : pid ∈ keys1 s [] := by rw [← inflSt_keys]; exact List.mem_map.mpr ⟨_, hr, rfl⟩
    obtain ⟨j0, hj0, hg0⟩ := htr.complete wj' hwj pid st hp (Or.inr hk)
    obtain ⟨k1, k2, _⟩ := TR1_job_of s.jobs gw _ h.world htr j0 hj0 wj' hwj hg0.symm pid st hp
    exact ⟨hp', j0, hj0, by rw [hg0, hgid], findGid_of s gid htr.gids j0 hj0 (by rw [hg0, hgid]), k1, k2⟩
  unfold apF
  by_cases hr : s.reap.any (·.1 = pid) = true
  · simp only [hr, ↓reduceIte]
    have hr' := (any_key _ _).mp hr
    have hmem : (pid, PState.gone) ∈ inflSt s [] := by
      simp only [inflSt, List.map_nil, List.nil_append, List.mem_append, List.mem_map]
      obtain ⟨a, ha, hpa⟩ := List.mem_map.mp hr'
      exact Or.inl (Or.inl (Or.inl ⟨a, ha, by rw [hpa]⟩))
    obtain ⟨hst, j0, hj0, hg0, hf, hp0, hok0⟩ := hin _ hmem
    subst hst
    have hjobs := removePid_single { s with reap := s.reap.filter (·.1 ≠ pid) } gid pid j0 hf hp0
    have hD : ∀ x, x ∈ keys1 { s with reap := s.reap.filter (·.1 ≠ pid) } [] ↔ x ∈ keys1 s [] ∧ x ≠ pid := by
      intro x
      simp only [keys1, List.map_nil, List.nil_append, List.mem_append, mem_keys_filter]
      constructor
      · rintro ((((⟨h1, h2⟩ | h1) | h1)) | h1)
        · exact ⟨Or.inl (Or.inl (Or.inl h1)), h2⟩
        · exact ⟨Or.inl (Or.inl (Or.inr h1)), fun e => hd2 pid hr' x h1 e.symm⟩
        · exact ⟨Or.inl (Or.inr h1), fun e => hd3 pid (List.mem_append_left _ hr') x h1 e.symm⟩
        · exact ⟨Or.inr h1, fun e => hd4 pid (List.mem_append_left _ (List.mem_append_left _ hr')) x h1 e.symm⟩
      · rintro ⟨((h1 | h1) | h1) | h1, h2⟩
        · exact Or.inl (Or.inl (Or.inl ⟨h1, h2⟩))
        · exact Or.inl (Or.inl (Or.inr h1))
        · exact Or.inl (Or.inr h1)
        · exact Or.inr h1
    apply Inv1_applied s { s with reap := s.reap.filter (·.1 ≠ pid) } _ gw pid h ?_ (inflSt_removePid _ _ _ _)
      (idsOk_removePid _ _ _ (idsOk_of_jobs_eq rfl h.ids)) ?_ hD
    · simp only [inflSt, List.map_nil, List.nil_append]
      exact ((((List.Sublist.map _ List.filter_sublist).append (List.Sublist.refl _)).append (List.Sublist.refl _)).append (List.Sublist.refl _))
    · rw [hjobs]
      exact TR1_drop s.jobs gw _ _ h.world htr hji j0 hj0 pid hD wj hwj (by rw [hgid, hg0]) hp
  · simp only [hr, Bool.false_eq_true, ↓reduceIte]
    have hr' : pid ∉ s.reap.map (·.1) := fun x => hr ((any_key _ _).mpr x)
    by_cases hk : s.kill.any (·.1 = pid) = true
    · simp only [hk, ↓reduceIte]
      have hk' := (any_key _ _).mp hk
      have hmem : (pid, PState.gone) ∈ inflSt s [] := by
        simp only [inflSt, List.map_nil, List.nil_append, List.mem_append, List.mem_map]
        obtain ⟨a, ha, hpa⟩ := List.mem_map.mp hk'
        exact Or.inl (Or.inl (Or.inr ⟨a, ha, by rw [hpa]⟩))
      obtain ⟨hst, j0, hj0, hg0, hf, hp0, hok0⟩ := hin _ hmem
      subst hst
      have hjobs := removePid_single { s with kill := s.kill.filter (·.1 ≠ pid) } gid pid j0 hf hp0
      have hD : ∀ x, x ∈ keys1 { s with kill := s.kill.filter (·.1 ≠ pid) } [] ↔ x ∈ keys1 s [] ∧ x ≠ pid := by
        intro x
        simp only [keys1, List.map_nil, List.nil_append, List.mem_append, mem_keys_filter]
        constructor
        · rintro ((((h1 | ⟨h1, h2⟩) | h1)) | h1)
          · exact ⟨Or.inl (Or.inl (Or.inl h1)), fun e => hr' (e ▸ h1)⟩
          · exact ⟨Or.inl (Or.inl (Or.inr h1)), h2⟩
          · exact ⟨Or.inl (Or.inr h1), fun e => hd3 pid (List.mem_append_right _ hk') x h1 e.symm⟩
          · exact ⟨Or.inr h1, fun e => hd4 pid (List.mem_append_left _ (List.mem_append_right _ hk')) x h1 e.symm⟩
        · rintro ⟨((h1 | h1) | h1) | h1, h2⟩
          · exact Or.inl (Or.inl (Or.inl h1))
          · exact Or.inl (Or.inl (Or.inr ⟨h1, h2⟩))
          · exact Or.inl (Or.inr h1)
          · exact Or.inr h1
      apply Inv1_applied s { s with kill := s.kill.filter (·.1 ≠ pid) } _ gw pid h ?_ (inflSt_removePid _ _ _ _)
        (idsOk_removePid _ _ _ (idsOk_of_jobs_eq rfl h.ids)) ?_ hD
      · simp only [inflSt, List.map_nil, List.nil_append]
        exact ((((List.Sublist.refl _).append (List.Sublist.map _ List.filter_sublist)).append (List.Sublist.refl _)).append (List.Sublist.refl _))
      · rw [hjobs]
        exact TR1_drop s.jobs gw _ _ h.world htr hji j0 hj0 pid hD wj hwj (by rw [hgid, hg0]) hp
    · simp only [hk, Bool.false_eq_true, ↓reduceIte]
      have hk' : pid ∉ s.kill.map (·.1) := fun x => hk ((any_key _ _).mpr x)
      by_cases hs : s.stop.contains pid = true
      · simp only [hs, ↓reduceIte]
        have hs' : pid ∈ s.stop := by simpa using hs
        have hmem : (pid, PState.stopped) ∈ inflSt s [] := by
          simp only [inflSt, List.map_nil, List.nil_append, List.mem_append, List.mem_map]
          exact Or.inl (Or.inr ⟨pid, hs', rfl⟩)
        obtain ⟨hst, j0, hj0, hg0, hf, hp0, hok0⟩ := hin _ hmem
        subst hst
        have hjobs := markMemberStopped_single { s with stop := s.stop.erase pid } gid pid j0 hf hp0 hok0
        have hD : ∀ x, x ∈ keys1 { s with stop := s.stop.erase pid } [] ↔ x ∈ keys1 s [] ∧ x ≠ pid := by
          intro x
          simp only [keys1, List.map_nil, List.nil_append, List.mem_append, hnds.mem_erase_iff]
          constructor
          · rintro ((((h1 | h1) | ⟨h2, h1⟩)) | h1)
            · exact ⟨Or.inl (Or.inl (Or.inl h1)), fun e => hr' (e ▸ h1)⟩
            · exact ⟨Or.inl (Or.inl (Or.inr h1)), fun e => hk' (e ▸ h1)⟩
            · exact ⟨Or.inl (Or.inr h1), h2⟩
            · exact ⟨Or.inr h1, fun e => hd4 pid (List.mem_append_right _ hs') x h1 e.symm⟩
          · rintro ⟨((h1 | h1) | h1) | h1, h2⟩
            · exact Or.inl (Or.inl (Or.inl h1))
            · exact Or.inl (Or.inl (Or.inr h1))
            · exact Or.inl (Or.inr ⟨h2, h1⟩)
            · exact Or.inr h1
        apply Inv1_applied s { s with stop := s.stop.erase pid } _ gw pid h ?_ (inflSt_mStopped _ _ _ _)
          (idsOk_markMemberStopped _ _ _ (idsOk_of_jobs_eq rfl h.ids)) ?_ hD
        · simp only [inflSt, List.map_nil, List.nil_append]
          exact ((((List.Sublist.refl _).append (List.Sublist.refl _)).append (List.Sublist.map _ List.erase_sublist)).append (List.Sublist.refl _))
        · rw [hjobs]
          exact TR1_update s.jobs gw _ _ h.world htr hji j0 hj0 pid hD _ (fun _ => rfl) (fun _ => rfl) (Or.inr ⟨rfl, rfl⟩)
            wj hwj (by rw [hgid, hg0]) .stopped hp ⟨by simp, by simp⟩
      · simp only [hs, Bool.false_eq_true, ↓reduceIte]
        have hs' : pid ∉ s.stop := by simpa using hs
        by_cases hc : s.cont.contains pid = true
        · simp only [hc, ↓reduceIte]
          have hc' : pid ∈ s.cont := by simpa using hc
          have hmem : (pid, PState.running) ∈ inflSt s [] := by
            simp only [inflSt, List.map_nil, List.nil_append, List.mem_append, List.mem_map]
            exact Or.inr ⟨pid, hc', rfl⟩
          obtain ⟨hst, j0, hj0, hg0, hf, hp0, hok0⟩ := hin _ hmem
          subst hst
          have hjobs := markMemberContinued_single { s with cont := s.cont.erase pid } gid pid j0 hf hok0
          have hD : ∀ x, x ∈ keys1 { s with cont := s.cont.erase pid } [] ↔ x ∈ keys1 s [] ∧ x ≠ pid := by
            intro x
            simp only [keys1, List.map_nil, List.nil_append, List.mem_append, hndc.mem_erase_iff]
            constructor
            · rintro ((((h1 | h1) | h1)) | ⟨h2, h1⟩)
              · exact ⟨Or.inl (Or.inl (Or.inl h1)), fun e => hr' (e ▸ h1)⟩
              · exact ⟨Or.inl (Or.inl (Or.inr h1)), fun e => hk' (e ▸ h1)⟩
              · exact ⟨Or.inl (Or.inr h1), fun e => hs' (e ▸ h1)⟩
              · exact ⟨Or.inr h1, h2⟩
            · rintro ⟨((h1 | h1) | h1) | h1, h2⟩
              · exact Or.inl (Or.inl (Or.inl h1))
              · exact Or.inl (Or.inl (Or.inr h1))
              · exact Or.inl (Or.inr h1)
              · exact Or.inr ⟨h2, h1⟩
          apply Inv1_applied s { s with cont := s.cont.erase pid } _ gw pid h ?_ (inflSt_mContinued _ _ _ _)
            (idsOk_markMemberContinued _ _ _ (idsOk_of_jobs_eq rfl h.ids)) ?_ hD
          · simp only [inflSt, List.map_nil, List.nil_append]
            exact ((((List.Sublist.refl _).append (List.Sublist.refl _)).append (List.Sublist.refl _)).append (List.Sublist.map _ List.erase_sublist))
          · rw [hjobs]
            exact TR1_update s.jobs gw _ _ h.world htr hji j0 hj0 pid hD _ (fun _ => rfl) (fun _ => rfl) (Or.inl ⟨rfl, rfl⟩)
              wj hwj (by rw [hgid, hg0]) .running hp ⟨by simp, by simp⟩
        · simp only [hc, Bool.false_eq_true, ↓reduceIte]
          have hc' : pid ∉ s.cont := by simpa using hc
          refine ⟨h, fun q hq => hq, ?_⟩
          simp only [keys1, List.map_nil, List.nil_append, List.mem_append]
          rintro (((h1 | h1) | h1) | h1)
          · exact hr' h1
          · exact hk' h1
          · exact hs' h1
          · exact hc' h1

theorem apF_outer1 (gw : List WJob) : ∀ (jobs : List Job) (s : Sh), Inv1 s [] gw →
    (∀ j ∈ jobs, ∃ wj ∈ gw, wj.gid = j.gid ∧ ∃ p st, wj.procs = [(p, st)] ∧ j.pids = [p]) →
    Inv1 (jobs.foldl (fun s job => job.pids.foldl (apF job.gid) s) s) [] gw ∧
    (∀ q ∈ keys1 (jobs.foldl (fun s job => job.pids.foldl (apF job.gid) s) s) [], q ∈ keys1 s []) ∧
    ∀ j ∈ jobs, ∀ p ∈ j.pids, p ∉ keys1 (jobs.foldl (fun s job => job.pids.foldl (apF job.gid) s) s) [] := by
  intro jobs
  induction jobs with
  | nil => intro s h _; exact ⟨h, fun q hq => hq, fun p hp => nomatch hp⟩
  | cons j js ih =>
    intro s h hc
    simp only [List.foldl_cons]
    obtain ⟨wj, hwj, hg, p, st, hp, hjp⟩ := hc j List.mem_cons_self
    rw [hjp]
    simp only [List.foldl_cons, List.foldl_nil]
    obtain ⟨a1, a2, a3⟩ := apF_inv1 j.gid s p gw h wj hwj hg st hp
    obtain ⟨b1, b2, b3⟩ := ih _ a1 (fun q hq => hc q (List.mem_cons_of_mem _ hq))
    refine ⟨b1, fun q hq => a2 q (b2 q hq), ?_⟩
    intro q hq
    simp only [List.mem_cons] at hq
    rcases hq with rfl | hq
    · intro p' hp' x
      rw [hjp] at hp'
      simp only [List.mem_singleton] at hp'
      subst hp'
      exact a3 (b2 _ x)
    · exact b3 q hq

theorem keys1_in_table (s : Sh) (pend : List Ev) (gw : List WJob) (h : Inv1 s pend gw) :
    ∀ p ∈ keys1 s pend, ∃ j ∈ s.jobs, p ∈ j.pids := by
  intro p hp
  rw [← inflSt_keys] at hp
  obtain ⟨x, hx, rfl⟩ := List.mem_map.mp hp
  obtain ⟨wj, hwj, hpx⟩ := h.cons x hx
  obtain ⟨j, hj, hg⟩ := h.tr.complete wj hwj x.1 x.2 hpx (Or.inr hp)
  obtain ⟨k1, _, _⟩ := TR1_job_of s.jobs gw _ h.world h.tr j hj wj hwj hg.symm x.1 x.2 hpx
  exact ⟨j, hj, by rw [k1]; exact List.mem_singleton.mpr rfl⟩

theorem Inv1_poll (s : Sh) (gw : List WJob) (h : Inv1 s s.pending gw) :
    Inv1 (poll s) (poll s).pending gw ∧ keys1 (poll s) (poll s).pending = [] := by
  unfold poll
  split
  · rename_i hemp
    refine ⟨h, ?_⟩
    apply List.eq_nil_iff_forall_not_mem.mpr
    intro p hp
    obtain ⟨j, hj, _⟩ := keys1_in_table s _ gw h p hp
    have : s.jobs = [] := by simpa using hemp
    rw [this] at hj; cases hj
  · obtain ⟨h1, h2⟩ := Inv1_park s gw h
    have hpend := applyParked_pending (park s) h2
    rw [hpend, applyParked_eq]
    have hcoh : ∀ j ∈ (park s).jobs, ∃ wj ∈ gw, wj.gid = j.gid ∧ ∃ p st, wj.procs = [(p, st)] ∧ j.pids = [p] := by
      intro j hj
      obtain ⟨wj, k1, p, st, k2, k3, k4, _, _⟩ := h1.tr.sound j hj
      exact ⟨wj, k1, k3, p, st, k2, k4⟩
    obtain ⟨a1, a2, a3⟩ := apF_outer1 gw (park s).jobs (park s) h1 hcoh
    refine ⟨a1, ?_⟩
    apply List.eq_nil_iff_forall_not_mem.mpr
    intro p hp
    obtain ⟨j, hj, hpj⟩ := keys1_in_table _ _ gw h1 p (a2 p hp)
    exact a3 j hj p hpj hp

/-! well-formedness of the second class: the ghost state is the world and the pids notified since the last poll -/

def liveIn (w : List WJob) (p : Pid) : Bool := w.any fun j => j.procs.any fun pr => pr.1 = p ∧ pr.2 ≠ .gone

def okOp1 (w : List WJob) (dirty : List Pid) : Op → Bool
  | .launch _ gid pids => pids.length = 1 && pids.all (fun p => !everLaunched w p) && !(w.any (·.gid = gid))
  | .ev e => liveIn w e.pid && !dirty.contains e.pid
  | .waitFg _ _ => false
  | .poll => true

def dirtyStep (dirty : List Pid) : Op → List Pid
  | .ev e => dirty ++ [e.pid]
  | .poll => []
  | _ => dirty

def wfFrom1 (w : List WJob) (dirty : List Pid) : List Op → Bool
  | [] => true
  | o :: os => okOp1 w dirty o && wfFrom1 (gStep w o) (dirtyStep dirty o) os

theorem Inv1_launch (s : Sh) (gw : List WJob) (bg : Bool) (gid p : Pid) (h : Inv1 s s.pending gw)
    (hfresh : everLaunched gw p = false) (hgid : ∀ j ∈ gw, j.gid ≠ gid) :
    Inv1 (step s (.launch bg gid [p])).1 (step s (.launch bg gid [p])).1.pending (gStep gw (.launch bg gid [p])) := by
  have hno : ∀ j ∈ s.jobs, j.gid ≠ gid := by
    intro j hj
    obtain ⟨wj, hwj, _, _, _, hg, _⟩ := h.tr.sound j hj
    rw [← hg]; exact hgid wj hwj
  have hids := idsOk_step s (.launch bg gid [p]) h.ids
  obtain ⟨i', _, _, hfree, heq⟩ := launch_jobs s gid bg [p] hno (by simp)
  simp only [step, gStep] at hids ⊢
  rw [heq] at hids ⊢
  simp only [List.map_cons, List.map_nil]
  refine ⟨hids, GW1_launch gw gid p h.world hfresh hgid, h.nd, ?_, ?_⟩
  · intro x hx
    obtain ⟨wj, hwj, hg⟩ := h.cons x hx
    exact ⟨wj, List.mem_append_left _ hwj, hg⟩
  · show TR1 (insertSorted _ s.jobs) _ ((inflSt s s.pending).map (·.1))
    refine ⟨?_, ?_, ?_⟩
    · have := (insertSorted_perm { id := i', gid := gid, pids := [p], isBg := bg } s.jobs).map (·.gid)
      rw [this.nodup_iff]
      simp only [List.map_cons, List.nodup_cons]
      refine ⟨?_, h.tr.gids⟩
      intro hm
      obtain ⟨j, hj, hg⟩ := List.mem_map.mp hm
      exact hno j hj hg
    · intro j hj
      rcases (mem_insertSorted _ _ _).mp hj with rfl | hj
      · refine ⟨_, List.mem_append_right _ (List.mem_singleton.mpr rfl), p, .running, rfl, rfl, rfl, Or.inl ⟨rfl, rfl⟩, ?_⟩
        intro _
        exact ⟨by simp, by simp⟩
      · obtain ⟨wj, h1, rest⟩ := h.tr.sound j hj
        exact ⟨wj, List.mem_append_left _ h1, rest⟩
    · intro wj hwj q st hq hor
      simp only [List.mem_append, List.mem_singleton] at hwj
      rcases hwj with hwj | rfl
      · obtain ⟨j, hj, hg⟩ := h.tr.complete wj hwj q st hq hor
        exact ⟨j, (mem_insertSorted _ _ _).mpr (Or.inr hj), hg⟩
      · exact ⟨_, (mem_insertSorted _ _ _).mpr (Or.inl rfl), rfl⟩

theorem Inv1_step (s : Sh) (gw : List WJob) (dirty : List Pid) (o : Op) (h : Inv1 s s.pending gw)
    (hd : ∀ p ∈ keys1 s s.pending, p ∈ dirty) (hok : okOp1 gw dirty o = true) :
    Inv1 (step s o).1 (step s o).1.pending (gStep gw o) ∧ ∀ p ∈ keys1 (step s o).1 (step s o).1.pending, p ∈ dirtyStep dirty o := by
  cases o with
  | launch bg gid pids =>
    simp only [okOp1, Bool.and_eq_true, decide_eq_true_eq, List.all_eq_true, Bool.not_eq_true', List.any_eq_false] at hok
    obtain ⟨⟨hlen, hfresh⟩, hgid⟩ := hok
    obtain ⟨p, rfl⟩ := List.length_eq_one_iff.mp hlen
    have hg' : ∀ j ∈ gw, j.gid ≠ gid := hgid
    have h1 := Inv1_launch s gw bg gid p h (hfresh p (List.mem_singleton.mpr rfl)) hg'
    refine ⟨h1, ?_⟩
    have hno : ∀ j ∈ s.jobs, j.gid ≠ gid := by
      intro j hj
      obtain ⟨wj, hwj, _, _, _, hg, _⟩ := h.tr.sound j hj
      rw [← hg]; exact hg' wj hwj
    obtain ⟨i', _, _, _, heq⟩ := launch_jobs s gid bg [p] hno (by simp)
    simp only [step, dirtyStep]
    rw [heq]
    exact hd
  | ev e =>
    simp only [okOp1, Bool.and_eq_true, Bool.not_eq_true', liveIn, List.any_eq_true, decide_eq_true_eq] at hok
    obtain ⟨⟨wq, hwq, pr, hpr, hp1, hp2⟩, hnd⟩ := hok
    obtain ⟨p0, st0, hp0⟩ := h.world.single wq hwq
    rw [hp0] at hpr
    simp only [List.mem_singleton] at hpr
    subst hpr
    simp only at hp1 hp2
    subst hp1
    have hfree : e.pid ∉ (inflSt s s.pending).map (·.1) := by
      rw [inflSt_keys]
      intro x
      have := hd _ x
      simp [this] at hnd
    simp only [step, gStep, applyEv_set, dirtyStep]
    refine ⟨Inv1_ev s gw e h wq hwq st0 hp0 hp2 hfree, ?_⟩
    intro p hp
    simp only [keys1, List.map_append, List.map_cons, List.map_nil, List.mem_append, List.mem_singleton] at hp ⊢
    rcases hp with (((((hp | hp) | hp) | hp) | hp) | hp)
    · exact Or.inl (hd p (by simp only [keys1, List.mem_append]; exact Or.inl (Or.inl (Or.inl (Or.inl hp)))))
    · exact Or.inr hp
    · exact Or.inl (hd p (by simp only [keys1, List.mem_append]; exact Or.inl (Or.inl (Or.inl (Or.inr hp)))))
    · exact Or.inl (hd p (by simp only [keys1, List.mem_append]; exact Or.inl (Or.inl (Or.inr hp))))
    · exact Or.inl (hd p (by simp only [keys1, List.mem_append]; exact Or.inl (Or.inr hp)))
    · exact Or.inl (hd p (by simp only [keys1, List.mem_append]; exact Or.inr hp))
  | waitFg gid pids => cases hok
  | poll =>
    obtain ⟨h1, h2⟩ := Inv1_poll s gw h
    refine ⟨h1, ?_⟩
    simp only [step]
    rw [h2]
    intro p hp; cases hp

theorem Inv1_init : Inv1 {} [] [] := by
  refine ⟨List.Pairwise.nil, ⟨List.Pairwise.nil, ?_, ?_⟩, List.Pairwise.nil, ?_, ⟨List.Pairwise.nil, ?_, ?_⟩⟩ <;>
    intro x hx <;> cases hx

theorem Inv1_run : ∀ (ops : List Op) (s : Sh) (gw : List WJob) (dirty : List Pid), Inv1 s s.pending gw →
    (∀ p ∈ keys1 s s.pending, p ∈ dirty) → wfFrom1 gw dirty ops = true →
    Inv1 (ops.foldl (fun s o => (step s o).1) s) (ops.foldl (fun s o => (step s o).1) s).pending (ops.foldl gStep gw) := by
  intro ops
  induction ops with
  | nil => intro s gw d h _ _; exact h
  | cons o os ih =>
    intro s gw d h hd hwf
    simp only [wfFrom1, Bool.and_eq_true] at hwf
    simp only [List.foldl_cons]
    obtain ⟨a1, a2⟩ := Inv1_step s gw d o h hd hwf.1
    exact ih _ _ _ a1 a2 hwf.2

theorem world_step1 (w gw : List WJob) (dirty : List Pid) (o : Op) (h : w.filter isLive = gw.filter isLive)
    (hok : okOp1 gw dirty o = true) : (worldStep w o).filter isLive = (gStep gw o).filter isLive := by
  cases o with
  | launch bg gid pids =>
    simp only [okOp1, Bool.and_eq_true, Bool.not_eq_true', List.any_eq_false] at hok
    have hgid := hok.2
    have hany : (w.filter isLive).any (fun j => decide (j.gid = gid)) = false := by
      rw [h]
      apply List.any_eq_false.mpr
      intro j hj
      exact hgid j (List.mem_filter.mp hj).1
    simp only [worldStep, gStep]
    have : (List.filter (fun j => decide (j.live ≠ [])) w) = w.filter isLive := rfl
    rw [this, hany]
    simp only [Bool.false_eq_true, ↓reduceIte, List.filter_append, List.filter_filter, Bool.and_self]
    rw [h]
  | ev e =>
    simp only [worldStep, gStep, applyEv_set]
    rw [filter_set _ _ w, filter_set _ _ gw, h]
  | waitFg gid pids => exact h
  | poll => exact h

theorem world_run1 : ∀ (ops : List Op) (w gw : List WJob) (dirty : List Pid), w.filter isLive = gw.filter isLive →
    wfFrom1 gw dirty ops = true → (ops.foldl worldStep w).filter isLive = (ops.foldl gStep gw).filter isLive := by
  intro ops
  induction ops with
  | nil => intro w gw d h _; exact h
  | cons o os ih =>
    intro w gw d h hwf
    simp only [wfFrom1, Bool.and_eq_true] at hwf
    simp only [List.foldl_cons]
    exact ih _ _ _ (world_step1 w gw d o h hwf.1) hwf.2

theorem specView_ghost1 (ops : List Op) (hwf : wfFrom1 [] [] ops = true) :
    specView (ops.foldl worldStep []) = specView (ops.foldl gStep []) := by
  rw [specView_eq, specView_eq, world_run1 ops [] [] [] rfl hwf]

theorem spec_entry1 (wj : WJob) (p : Pid) (st : PState) (hp : wj.procs = [(p, st)]) (hst : st ≠ .gone) :
    wj.live = [p] ∧ (wj.procs.filter (fun p => p.2 ≠ .gone)).all (fun p => p.2 = .stopped) = decide (st = .stopped) := by
  unfold WJob.live
  rw [hp]
  simp [hst]

theorem spec_dead1 (wj : WJob) (p : Pid) (hp : wj.procs = [(p, .gone)]) : wj.live = [] := by
  unfold WJob.live
  rw [hp]
  simp

/-- with nothing in flight the table of single-process jobs shows exactly the live jobs, Stopped exactly when the process is -/
theorem views_quiescent1 (s : Sh) (pend : List Ev) (gw : List WJob) (h : Inv1 s pend gw) (hq : keys1 s pend = []) :
    (modelView s).Perm (specView gw) := by
  have htr := h.tr
  rw [inflSt_keys, hq] at htr
  have hwg := nodup_map_inj (fun (x : WJob) => x.gid) gw h.world.gids
  have nd1 : (modelView s).Nodup := by
    have : (modelView s).map (·.1) = s.jobs.map (·.gid) := by
      simp [modelView, List.map_map, Function.comp_def]
    have hn := htr.gids
    rw [← this] at hn
    exact List.Pairwise.of_map (·.1) (fun a b hab e => hab (by rw [e])) hn
  have nd2 : (specView gw).Nodup := by
    have : (specView gw).map (·.1) = (gw.filter isLive).map (·.gid) := by
      simp [specView_eq, List.map_map, Function.comp_def]
    have hn : ((gw.filter isLive).map (·.gid)).Nodup := h.world.gids.sublist (List.Sublist.map _ List.filter_sublist)
    rw [← this] at hn
    exact List.Pairwise.of_map (·.1) (fun a b hab e => hab (by rw [e])) hn
  rw [List.perm_ext_iff_of_nodup nd1 nd2]
  intro x
  simp only [modelView, specView_eq, List.mem_map, List.mem_filter]
  constructor
  · rintro ⟨j, hj, rfl⟩
    obtain ⟨wj, h1, p, st, h2, h3, h4, h5, h6⟩ := htr.sound j hj
    obtain ⟨k1, k2⟩ := h6 (fun x => nomatch x)
    obtain ⟨e1, e2⟩ := spec_entry1 wj p st h2 k1
    refine ⟨wj, ⟨h1, by simp [isLive, e1]⟩, ?_⟩
    rw [e1, e2, h3, h4, decide_eq_decide.mpr k2]
  · rintro ⟨wj, ⟨hwj, hl⟩, rfl⟩
    obtain ⟨p, st, hp⟩ := h.world.single wj hwj
    have hst : st ≠ .gone := by
      rintro rfl
      have := spec_dead1 wj p hp
      simp [isLive, this] at hl
    obtain ⟨j, hj, hg⟩ := htr.complete wj hwj p st hp (Or.inl hst)
    obtain ⟨k1, _, k3⟩ := TR1_job_of s.jobs gw _ h.world htr j hj wj hwj hg.symm p st hp
    obtain ⟨_, k4⟩ := k3 (fun x => nomatch x)
    obtain ⟨e1, e2⟩ := spec_entry1 wj p st hp hst
    refine ⟨j, hj, ?_⟩
    rw [e1, e2, hg, k1, decide_eq_decide.mpr k4]

end Cicada.C06
