import Cicada.Lemmas.KernelChild
/-!
# Which pipe ends a plain pipeline stage ends up with (for C02)
-/
namespace Cicada.Pipeline
open Cicada.Kernel Cicada.Kernel.Table

/-- the table holds, for the `j`-th pipe of the list, the read end of pipe `k + j` and its write end -/
def Wired : Table → List Fds → Nat → Prop
  | _, [], _ => True
  | t, p :: ps, k => t p.1 = some { obj := .pipeR k } ∧ t p.2 = some { obj := .pipeW k } ∧ Wired t ps (k + 1)

theorem wired_congr {t t' : Table} : ∀ (ps : List Fds) (k : Nat), (∀ x ∈ fdsOf ps, t' x = t x) → Wired t ps k → Wired t' ps k := by
  intro ps
  induction ps with
  | nil => intro _ _ _; trivial
  | cons p ps ih =>
    intro k h hw
    obtain ⟨h1, h2, h3⟩ := hw
    refine ⟨?_, ?_, ih (k + 1) (fun x hx => h x ?_) h3⟩
    · rw [h p.1 (mem_fdsOf.mpr ⟨p, List.mem_cons_self, Or.inl rfl⟩)]; exact h1
    · rw [h p.2 (mem_fdsOf.mpr ⟨p, List.mem_cons_self, Or.inr rfl⟩)]; exact h2
    · obtain ⟨q, hq, hxq⟩ := mem_fdsOf.mp hx
      exact mem_fdsOf.mpr ⟨q, List.mem_cons_of_mem _ hq, hxq⟩

theorem wired_append {t : Table} : ∀ (ps : List Fds) (k : Nat) (q : Fds), Wired t ps k →
    t q.1 = some { obj := .pipeR (k + ps.length) } → t q.2 = some { obj := .pipeW (k + ps.length) } → Wired t (ps ++ [q]) k := by
  intro ps
  induction ps with
  | nil => intro k q _ h1 h2; exact ⟨by simpa using h1, by simpa using h2, trivial⟩
  | cons p ps ih =>
    intro k q hw h1 h2
    obtain ⟨a, b, c⟩ := hw
    refine ⟨a, b, ih (k + 1) q c ?_ ?_⟩
    · rw [h1]; simp; omega
    · rw [h2]; simp; omega

theorem wired_occupied {t : Table} : ∀ (ps : List Fds) (k : Nat), Wired t ps k → ∀ x ∈ fdsOf ps, (t x).isSome := by
  intro ps
  induction ps with
  | nil => intro _ _ x hx; simp [fdsOf] at hx
  | cons p ps ih =>
    intro k hw x hx
    obtain ⟨a, b, c⟩ := hw
    obtain ⟨q, hq, hxq⟩ := mem_fdsOf.mp hx
    rcases List.mem_cons.mp hq with rfl | hq
    · rcases hxq with rfl | rfl <;> simp [a, b]
    · exact ih (k + 1) c x (mem_fdsOf.mpr ⟨q, hq, hxq⟩)

/-- the pipe-creation loop numbers the pipes consecutively and never hands out a descriptor twice -/
theorem mkPipes_wired (lim : Nat) (k0 : Nat) : ∀ (n : Nat) (t : Table) (acc : List Fds),
    Wired t acc k0 → (fdsOf acc).Nodup →
    Wired (mkPipes lim n t (k0 + acc.length) acc).1 (mkPipes lim n t (k0 + acc.length) acc).2.2.1 k0 ∧
    (fdsOf (mkPipes lim n t (k0 + acc.length) acc).2.2.1).Nodup := by
  intro n
  induction n with
  | zero => intro t acc hw hn; exact ⟨hw, hn⟩
  | succ n ih =>
    intro t acc hw hn
    unfold mkPipes
    cases hp : t.pipe lim (k0 + acc.length) with
    | none => exact ⟨hw, hn⟩
    | some q =>
      obtain ⟨t1, r, w⟩ := q
      simp only
      obtain ⟨hr, hwf, hne, rfl⟩ := pipe_spec hp
      have hocc := wired_occupied acc k0 hw
      have hr' : r ∉ fdsOf acc := fun h => by have := hocc r h; simp [hr] at this
      have hw' : w ∉ fdsOf acc := fun h => by have := hocc w h; simp [hwf] at this
      have := ih ((t.set r { obj := .pipeR (k0 + acc.length) }).set w { obj := .pipeW (k0 + acc.length) }) (acc ++ [(r, w)]) ?_ ?_
      · simpa [Nat.add_assoc] using this
      · apply wired_append
        · apply wired_congr acc k0 _ hw
          intro x hx
          have h1 : x ≠ r := fun e => hr' (e ▸ hx)
          have h2 : x ≠ w := fun e => hw' (e ▸ hx)
          simp [h1, h2]
        · simp [hne]
        · simp
      · rw [fdsOf_append]
        simp only [fdsOf, List.flatMap_cons, List.flatMap_nil, List.append_nil]
        rw [List.nodup_append]
        refine ⟨hn, by simp [hne], ?_⟩
        intro a ha b hb
        simp only [List.mem_cons, List.not_mem_nil, or_false] at hb
        rcases hb with rfl | rfl
        · exact fun e => hr' (e ▸ ha)
        · exact fun e => hw' (e ▸ ha)

/-- a command without any redirection -/
def _root_.Cicada.Command.plain (c : Command) : Prop := c.redirectsTo = [] ∧ c.redirectFrom = none

/-- what a stage without redirections holds on 0, 1, 2 after the first phase: the neighbouring pipe ends where there
are neighbours, the inherited descriptors otherwise -/
theorem childPipes_std (prev cur : Option Fds) (right : List Fds) (tf : Table) (eo ei : Ent)
    (hprev : ∀ p, prev = some p → tf p.1 = some ei)
    (hcur : ∀ c, cur = some c → tf c.2 = some eo)
    (hge : ∀ x ∈ prevFds prev ++ optFds cur ++ fdsOf right, 3 ≤ x)
    (hnd : (prevFds prev ++ optFds cur ++ fdsOf right).Nodup) :
    let t := childPipes prev cur right (none, none) tf
    t 0 = (if prev.isSome then some { ei with cx := false } else tf 0) ∧
    t 1 = (if cur.isSome then some { eo with cx := false } else tf 1) ∧
    t 2 = tf 2 := by
  rw [childPipes_eq]
  -- after the right pipes (and no capture pipes) are closed: descriptors below 3 and the neighbours' ends are untouched
  have hA : ∀ x, x ∉ fdsOf right → (stepCap cur (none, none) (stepRight right tf)) x = tf x := by
    intro x hx
    unfold stepCap stepRight
    split
    · rw [closeCap_apply, foldl_closePair_apply]; simp [capFds, hx]
    · rw [foldl_closePair_apply]; simp [hx]
  generalize stepCap cur (none, none) (stepRight right tf) = tA at hA
  have hlow : ∀ x, x < 3 → x ∉ fdsOf right := by
    intro x hx hm
    have := hge x (by simp only [List.mem_append]; exact Or.inr hm); omega
  cases prev with
  | none =>
    cases cur with
    | none =>
      simp only [stepPrev, stepCur]
      exact ⟨hA 0 (hlow 0 (by omega)), hA 1 (hlow 1 (by omega)), hA 2 (hlow 2 (by omega))⟩
    | some c =>
      have hc2 : 3 ≤ c.2 := hge c.2 (by simp [prevFds, optFds])
      have hc1 : 3 ≤ c.1 := hge c.1 (by simp [prevFds, optFds])
      have hc2r : c.2 ∉ fdsOf right := by
        intro hm
        have := (List.nodup_append.mp hnd).2.2 c.2 (by simp [prevFds, optFds]) c.2 hm
        exact this rfl
      have hsrc : tA c.2 = some eo := by rw [hA c.2 hc2r]; exact hcur c rfl
      simp only [stepPrev, stepCur]
      have hv : ∀ x, x < 3 → ((tA.dup2 c.2 1).close c.2).close c.1 x = if x = 1 then some { eo with cx := false } else tA x := by
        intro x hx
        have h1 : x ≠ c.1 := by omega
        have h2 : x ≠ c.2 := by omega
        simp only [close_apply, h1, h2, ↓reduceIte]
        rw [dup2_apply, hsrc]
        have : c.2 ≠ 1 := by omega
        simp [this]
      refine ⟨?_, ?_, ?_⟩
      · rw [hv 0 (by omega)]; simpa using hA 0 (hlow 0 (by omega))
      · rw [hv 1 (by omega)]; simp
      · rw [hv 2 (by omega)]; simpa using hA 2 (hlow 2 (by omega))
  | some p =>
    have hp1 : 3 ≤ p.1 := hge p.1 (by simp [prevFds])
    have hp1r : p.1 ∉ fdsOf right := by
      intro hm
      have := (List.nodup_append.mp hnd).2.2 p.1 (by simp [prevFds]) p.1 hm
      exact this rfl
    have hsrcp : tA p.1 = some ei := by rw [hA p.1 hp1r]; exact hprev p rfl
    have hvp : ∀ x, x ≠ p.1 → ((tA.dup2 p.1 0).close p.1) x = if x = 0 then some { ei with cx := false } else tA x := by
      intro x hx
      simp only [close_apply, hx, ↓reduceIte]
      rw [dup2_apply, hsrcp]
      have : p.1 ≠ 0 := by omega
      simp [this]
    cases cur with
    | none =>
      simp only [stepPrev, stepCur]
      refine ⟨?_, ?_, ?_⟩
      · rw [hvp 0 (by omega)]; simp
      · rw [hvp 1 (by omega)]; simpa using hA 1 (hlow 1 (by omega))
      · rw [hvp 2 (by omega)]; simpa using hA 2 (hlow 2 (by omega))
    | some c =>
      have hc2 : 3 ≤ c.2 := hge c.2 (by simp [prevFds, optFds])
      have hc1 : 3 ≤ c.1 := hge c.1 (by simp [prevFds, optFds])
      have hc2r : c.2 ∉ fdsOf right := by
        intro hm
        have := (List.nodup_append.mp hnd).2.2 c.2 (by simp [prevFds, optFds]) c.2 hm
        exact this rfl
      have hpc : c.2 ≠ p.1 := by
        have h1 := (List.nodup_append.mp hnd).1
        simp only [prevFds, optFds, List.cons_append, List.nil_append, List.nodup_cons, List.mem_cons, List.not_mem_nil, or_false, not_or] at h1
        exact fun e => h1.1.2 e.symm
      have hsrc : ((tA.dup2 p.1 0).close p.1) c.2 = some eo := by
        rw [hvp c.2 hpc]
        have : c.2 ≠ 0 := by omega
        simp only [this, ↓reduceIte]
        rw [hA c.2 hc2r]; exact hcur c rfl
      simp only [stepPrev, stepCur]
      have hB0 := hvp 0 (by omega)
      have hB2 := hvp 2 (by omega)
      generalize (tA.dup2 p.1 0).close p.1 = tB at hsrc hB0 hB2 ⊢
      have hv : ∀ x, x < 3 → (((tB.dup2 c.2 1).close c.2).close c.1) x =
          if x = 1 then some { eo with cx := false } else tB x := by
        intro x hx
        have h1 : x ≠ c.1 := by omega
        have h2 : x ≠ c.2 := by omega
        simp only [close_apply, h1, h2, ↓reduceIte]
        rw [dup2_apply, hsrc]
        have hne1 : c.2 ≠ 1 := by omega
        simp [hne1]
      refine ⟨?_, ?_, ?_⟩
      · rw [hv 0 (by omega), hB0]; simp
      · rw [hv 1 (by omega)]; simp
      · rw [hv 2 (by omega), hB2]; simpa using hA 2 (hlow 2 (by omega))

end Cicada.Pipeline
