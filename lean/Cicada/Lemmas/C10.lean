import Cicada.Spec.C10
/-! Lemmas for C10: fuel irrelevance of the single-pass scanner, one lemma per segment kind. -/
namespace Cicada.C10
open Cicada

theorem keySpan_length (s : Str) : (keySpan s).2.length ≤ s.length := by
  have hsplit : s.length = (s.takeWhile isKeyChar).length + (s.dropWhile isKeyChar).length := by
    rw [← List.length_append, List.takeWhile_append_dropWhile]
  unfold keySpan
  by_cases h : s.takeWhile isKeyChar ≠ []
  · rw [if_pos h]; simp only; omega
  · rw [if_neg h]
    split <;> simp

theorem dollarRef_length (cs : Str) (k rest : Str) (h : dollarRef cs = some (k, rest)) : rest.length ≤ cs.length := by
  unfold dollarRef at h
  split at h
  · rename_i r
    have hk := keySpan_length r
    split at h
    · rename_i k' ks rest' heq
      simp at h
      rw [heq] at hk
      simp at hk
      rw [← h.2]; simp; omega
    · simp at h
  · have hk := keySpan_length cs
    split at h
    · simp at h
    · rename_i k' rest' _ heq
      simp at h
      rw [heq] at hk
      rw [← h.2]; exact hk

/-- more fuel than characters is always the same -/
theorem fuel_irrelevant (e : Env) : ∀ (n : Nat) (s : Str) (f g : Nat), s.length ≤ n → s.length < f → s.length < g →
    expandEnvsAux e f s = expandEnvsAux e g s := by
  intro n
  induction n with
  | zero =>
    intro s f g hn hf hg
    have : s = [] := by cases s <;> simp_all
    subst this
    cases f <;> cases g <;> simp_all [expandEnvsAux]
  | succ n ih =>
    intro s f g hn hf hg
    cases s with
    | nil => cases f <;> cases g <;> simp_all [expandEnvsAux]
    | cons c cs =>
      cases f with
      | zero => simp at hf
      | succ f =>
        cases g with
        | zero => simp at hg
        | succ g =>
          simp only [List.length_cons] at hn hf hg
          have hcs := ih cs f g (by omega) (by omega) (by omega)
          simp only [expandEnvsAux]
          split
          · rw [hcs]
          · split
            · rw [hcs]
            · rename_i key rest heq
              have := dollarRef_length cs key rest heq
              rw [ih rest f g (by omega) (by omega) (by omega)]

theorem expandEnvs_eq (e : Env) (s : Str) (f : Nat) (hf : s.length < f) : expandEnvsAux e f s = expandEnvs e s :=
  fuel_irrelevant e s.length s f (s.length + 1) (Nat.le_refl _) hf (Nat.lt_succ_self _)

/-! ### unfolding equations for `expandEnvs` (fuel-free) -/

theorem expandEnvs_nil (e : Env) : expandEnvs e [] = [] := by simp [expandEnvs, expandEnvsAux]

theorem expandEnvs_lit (e : Env) (c : Char) (cs : Str) (h : c ≠ '$') : expandEnvs e (c :: cs) = c :: expandEnvs e cs := by
  simp only [expandEnvs, List.length_cons, expandEnvsAux, h, ne_eq, not_false_eq_true, ↓reduceIte]

theorem expandEnvs_lits (e : Env) (s rest : Str) (h : ∀ c ∈ s, c ≠ '$') :
    expandEnvs e (s ++ rest) = s ++ expandEnvs e rest := by
  induction s with
  | nil => rfl
  | cons c cs ih =>
    simp only [List.cons_append]
    rw [expandEnvs_lit e c _ (h c (by simp)), ih (fun x hx => h x (by simp [hx]))]

/-- a reference: the scanner inserts the value and goes on with the rest -/
theorem expandEnvs_ref (e : Env) (cs key rest : Str) (h : dollarRef cs = some (key, rest)) :
    expandEnvs e ('$' :: cs) = e.keyValue key ++ expandEnvs e rest := by
  have hl := dollarRef_length cs key rest h
  simp only [expandEnvs, List.length_cons, expandEnvsAux, ne_eq, not_true_eq_false, ↓reduceIte, h]
  rw [expandEnvs_eq e rest _ (by omega)]; rfl

theorem keySpan_name (n rest : Str) (hn : n ≠ []) (hk : n.all isKeyChar = true)
    (hr : ∀ c, rest.head? = some c → isKeyChar c = false) : keySpan (n ++ rest) = (n, rest) := by
  have h1 : ∀ n : Str, n.all isKeyChar = true → (n ++ rest).takeWhile isKeyChar = n ∧ (n ++ rest).dropWhile isKeyChar = rest := by
    intro n
    induction n with
    | nil =>
      intro _
      cases rest with
      | nil => simp
      | cons d ds => simp [hr d rfl]
    | cons c cs ih =>
      intro hk
      simp only [List.all_cons, Bool.and_eq_true] at hk
      have := ih hk.2
      simp [List.takeWhile, List.dropWhile, hk.1, this.1, this.2]
  obtain ⟨a, b⟩ := h1 n hk
  simp [keySpan, a, b, hn]

theorem dollarRef_var (n rest : Str) (hn : isIdent n = true) (hr : ∀ c, rest.head? = some c → isKeyChar c = false) :
    dollarRef (n ++ rest) = some (n, rest) := by
  obtain ⟨c, cs, rfl⟩ : ∃ c cs, n = c :: cs := by
    cases n with
    | nil => simp [isIdent] at hn
    | cons c cs => exact ⟨c, cs, rfl⟩
  simp only [isIdent, Bool.and_eq_true] at hn
  have hc1 : isKeyChar c = true := by
    have h1 := hn.1
    simp only [isNameStart, Bool.or_eq_true, decide_eq_true_eq] at h1
    simp only [isKeyChar, Bool.or_eq_true, decide_eq_true_eq]
    rcases h1 with h1 | h1
    · exact Or.inl (Or.inl h1)
    · exact Or.inr h1
  have hall : (c :: cs).all isKeyChar = true := by
    simp only [List.all_cons, hc1, Bool.true_and]
    have := hn.2
    simp only [List.all_eq_true] at *
    intro x hx; have := this x hx; simp only [isNameChar, isKeyChar] at *; exact this
  have hc : c ≠ '{' := by intro e'; subst e'; revert hc1; decide
  have hks := keySpan_name (c :: cs) rest (by simp) hall hr
  unfold dollarRef
  split
  · rename_i r heq; simp at heq; exact absurd heq.1 hc
  · rw [hks]

theorem dollarRef_braced (n rest : Str) (hn : isIdent n = true) :
    dollarRef ('{' :: (n ++ '}' :: rest)) = some (n, rest) := by
  obtain ⟨c, cs, rfl⟩ : ∃ c cs, n = c :: cs := by
    cases n with
    | nil => simp [isIdent] at hn
    | cons c cs => exact ⟨c, cs, rfl⟩
  simp only [isIdent, Bool.and_eq_true] at hn
  have hc1 : isKeyChar c = true := by
    have h1 := hn.1
    simp only [isNameStart, Bool.or_eq_true, decide_eq_true_eq] at h1
    simp only [isKeyChar, Bool.or_eq_true, decide_eq_true_eq]
    rcases h1 with h1 | h1
    · exact Or.inl (Or.inl h1)
    · exact Or.inr h1
  have hall : (c :: cs).all isKeyChar = true := by
    simp only [List.all_cons, hc1, Bool.true_and]
    have := hn.2
    simp only [List.all_eq_true] at *
    intro x hx; have := this x hx; simp only [isNameChar, isKeyChar] at *; exact this
  have hks := keySpan_name (c :: cs) ('}' :: rest) (by simp) hall (by intro d hd; simp at hd; subst hd; decide)
  simp only [dollarRef, hks]

theorem dollarRef_status (rest : Str) : dollarRef ('?' :: rest) = some (['?'], rest) := by
  have : keySpan ('?' :: rest) = (['?'], rest) := by
    have : isKeyChar '?' = false := by decide
    simp [keySpan, List.takeWhile, this]
  unfold dollarRef
  split
  · rename_i r heq; simp at heq
  · rw [this]

theorem dollarRef_pid (rest : Str) : dollarRef ('$' :: rest) = some (['$'], rest) := by
  have : keySpan ('$' :: rest) = (['$'], rest) := by
    have : isKeyChar '$' = false := by decide
    simp [keySpan, List.takeWhile, this]
  unfold dollarRef
  split
  · rename_i r heq; simp at heq
  · rw [this]

end Cicada.C10
