import Cicada.Lemmas.Term
/-!
# What the job-table operations do to the set of jobs

`keys` = the (id, group id) pairs of the table, in table order.  Every operation except `insert_job` leaves
them alone or removes some; `insert_job` adds at most one pair, with the group id it was given.
-/
namespace Cicada.Term
open Cicada.Jobs Cicada.C07

theorem keys_of_jobs_eq {s s' : Sh} (h : s'.jobs = s.jobs) : keys s' = keys s := by simp [keys, h]

theorem updJob_keys (s : Sh) (i : Nat) (f : Job → Job) (hf : ∀ j, (f j).id = j.id ∧ (f j).gid = j.gid) : keys (updJob s i f) = keys s := by
  simp only [keys, updJob, List.map_map]
  apply List.map_congr_left
  intro j _
  simp only [Function.comp]
  split <;> simp [hf j]

theorem removePid_keys (s : Sh) (gid pid : Pid) : (keys (removePid s gid pid)).Sublist (keys s) := by
  unfold removePid
  split
  · exact List.Sublist.refl _
  · dsimp only
    split
    · exact List.Sublist.map _ List.filter_sublist
    · rw [updJob_keys]
      · exact List.Sublist.refl _
      · intro j; exact ⟨rfl, rfl⟩

theorem markMemberStopped_keys (s : Sh) (pid gid : Pid) : keys (markMemberStopped s pid gid) = keys s := by
  unfold markMemberStopped
  split
  · rfl
  · dsimp only
    repeat' split
    all_goals (repeat rw [updJob_keys])
    all_goals (intro j; exact ⟨rfl, rfl⟩)

theorem markMemberContinued_keys (s : Sh) (pid gid : Pid) : keys (markMemberContinued s pid gid) = keys s := by
  unfold markMemberContinued
  split
  · rfl
  · dsimp only
    repeat' split
    all_goals (repeat rw [updJob_keys])
    all_goals (intro j; exact ⟨rfl, rfl⟩)

theorem markRunning_keys (s : Sh) (gid : Pid) (bg : Bool) : keys (markRunning s gid bg) = keys s := by
  unfold markRunning
  split
  · rw [updJob_keys]; intro j; exact ⟨rfl, rfl⟩
  · rfl

theorem park_jobs (s : Sh) : (park s).jobs = s.jobs := by
  unfold park
  have : ∀ (evs : List Ev) (t : Sh), (evs.foldl (fun s e => match e with
      | .exited p c => { s with reap := putMap s.reap p c }
      | .killed p g => { s with kill := putMap s.kill p g }
      | .stopped p _ => { s with stop := addOnce s.stop p }
      | .continued p => { s with cont := addOnce s.cont p }) t).jobs = t.jobs := by
    intro evs
    induction evs with
    | nil => intro t; rfl
    | cons e rest ih =>
      intro t
      simp only [List.foldl_cons]
      rw [ih]
      cases e <;> rfl
  exact this _ _

/-- one pid of one job in `try_wait_bg_jobs` -/
theorem applyStep_keys (report : Bool) (job : Job) (acc : Sh × List Out) (pid : Pid) :
    (keys ((fun (acc : Sh × List Out) pid =>
      let s := acc.1
      if s.reap.any (·.1 = pid) then
        let s1 := { s with reap := s.reap.filter (·.1 ≠ pid) }
        (removePid s1 job.gid pid, acc.2 ++ doneOut s1 job.gid pid "Done")
      else match s.kill.find? (·.1 = pid) with
      | some (_, g) =>
        let s1 := { s with kill := s.kill.filter (·.1 ≠ pid) }
        (removePid s1 job.gid pid, acc.2 ++ doneOut s1 job.gid pid (killWord g))
      | none =>
        if s.stop.contains pid then
          let s1 := { s with stop := s.stop.erase pid }
          (markMemberStopped s1 pid job.gid, acc.2 ++ stopOut s1 pid job.gid report)
        else if s.cont.contains pid then (markMemberContinued { s with cont := s.cont.erase pid } pid job.gid, acc.2)
        else acc) acc pid).1).Sublist (keys acc.1) := by
  dsimp only
  split
  · exact removePid_keys _ _ _
  · split
    · exact removePid_keys _ _ _
    · split
      · rw [markMemberStopped_keys]; exact List.Sublist.refl _
      · split
        · rw [markMemberContinued_keys]; exact List.Sublist.refl _
        · exact List.Sublist.refl _

theorem foldl_sublist {α β : Type} (key : β → List (Nat × Pid)) (f : β → α → β) (hf : ∀ b a, (key (f b a)).Sublist (key b)) :
    ∀ (l : List α) (b : β), (key (l.foldl f b)).Sublist (key b) := by
  intro l
  induction l with
  | nil => intro b; exact List.Sublist.refl _
  | cons a rest ih => intro b; simp only [List.foldl_cons]; exact (ih (f b a)).trans (hf b a)

theorem applyParkedR_keys (report : Bool) (s : Sh) : (keys (applyParkedR report s).1).Sublist (keys s) := by
  unfold applyParkedR
  refine foldl_sublist (fun (b : Sh × List Out) => keys b.1) _ ?_ s.jobs (s, [])
  intro b job
  exact foldl_sublist (fun (b : Sh × List Out) => keys b.1) _ (fun acc pid => applyStep_keys report job acc pid) job.pids b

theorem waitEv_keys (s : Sh) (w : Wait) (e : Ev) : (keys (waitEv s w e).1).Sublist (keys s) := by
  unfold waitEv
  cases e with
  | continued p => dsimp only; split <;> exact List.Sublist.refl _
  | exited p c => dsimp only; split
                  · exact removePid_keys _ _ _
                  · exact List.Sublist.refl _
  | killed p g => dsimp only; split
                  · exact removePid_keys _ _ _
                  · exact List.Sublist.refl _
  | stopped p g => dsimp only; split
                   · rw [markMemberStopped_keys]; exact List.Sublist.refl _
                   · rw [markMemberStopped_keys]; exact List.Sublist.refl _

theorem mem_insertSorted (j x : Job) (l : List Job) : x ∈ insertSorted j l ↔ x = j ∨ x ∈ l := by
  induction l with
  | nil => simp [insertSorted]
  | cons y ys ih =>
    simp only [insertSorted]
    split
    · simp
    · simp only [List.mem_cons, ih]
      constructor
      · rintro (h | h | h)
        · exact Or.inr (Or.inl h)
        · exact Or.inl h
        · exact Or.inr (Or.inr h)
      · rintro (h | h | h)
        · exact Or.inr (Or.inl h)
        · exact Or.inl h
        · exact Or.inr (Or.inr h)

/-- `insert_job` adds at most one job, under the group id it was given -/
theorem insertJobGo_gids (s : Sh) (gid pid : Pid) (bg : Bool) : ∀ (f i : Nat) (j : Job), j ∈ (insertJobGo s gid pid bg f i).jobs →
    j.gid = gid ∨ ∃ j0 ∈ s.jobs, j0.gid = j.gid := by
  intro f
  induction f with
  | zero => intro i j hj; exact Or.inr ⟨j, hj, rfl⟩
  | succ f ih =>
    intro i j hj
    simp only [insertJobGo] at hj
    split at hj
    · split at hj
      · simp only [List.mem_map] at hj
        obtain ⟨j0, hj0, rfl⟩ := hj
        right
        refine ⟨j0, hj0, ?_⟩
        split <;> rfl
      · exact ih (i + 1) j hj
    · simp only [mem_insertSorted] at hj
      rcases hj with rfl | hj
      · left; rfl
      · exact Or.inr ⟨j, hj, rfl⟩

theorem insertJob_gids (s : Sh) (gid pid : Pid) (bg : Bool) (j : Job) (hj : j ∈ (insertJob s gid pid bg).jobs) :
    j.gid = gid ∨ ∃ j0 ∈ s.jobs, j0.gid = j.gid := insertJobGo_gids s gid pid bg _ 1 j hj

theorem gid_of_keys_sublist {s s' : Sh} (h : (keys s').Sublist (keys s)) (j : Job) (hj : j ∈ s'.jobs) : ∃ j0 ∈ s.jobs, j0.gid = j.gid := by
  have : (j.id, j.gid) ∈ keys s := h.subset (by simp only [keys, List.mem_map]; exact ⟨j, hj, rfl⟩)
  simp only [keys, List.mem_map] at this
  obtain ⟨j0, hj0, he⟩ := this
  exact ⟨j0, hj0, by simpa using congrArg Prod.snd he⟩

theorem pollR_keys (report : Bool) (s : State) : (keys (pollR report s).sh).Sublist (keys s.sh) := by
  unfold pollR
  split
  · exact List.Sublist.refl _
  · refine (applyParkedR_keys report _).trans ?_
    rw [keys_of_jobs_eq (park_jobs _)]
    exact List.Sublist.refl _

/-! ### the group ids of the table are never the shell's -/

/-- no job is filed under the shell's own process group, and neither will the launch in progress file one -/
def GidInv (s : State) : Prop :=
  (∀ j ∈ s.sh.jobs, j.gid ≠ s.shell) ∧
  (∀ l, s.mode = .launching l → (l.idx > 0 ∨ l.phase ≠ .fork) → l.pgid ≠ s.shell)

theorem gidInv_of_sublist {s s' : State} (h : GidInv s) (hk : (keys s'.sh).Sublist (keys s.sh)) (hs : s'.shell = s.shell)
    (hm : ∀ l, s'.mode ≠ .launching l) : GidInv s' := by
  refine ⟨?_, by intro l hl; exact absurd hl (hm l)⟩
  intro j hj
  obtain ⟨j0, hj0, he⟩ := gid_of_keys_sublist hk j hj
  rw [← he, hs]; exact h.1 j0 hj0

theorem gidInv_same {s s' : State} (h : GidInv s) (hsh : s'.sh = s.sh) (hs : s'.shell = s.shell) (hm : s'.mode = s.mode) : GidInv s' := by
  unfold GidInv; rw [hsh, hs, hm]; exact h

theorem gidInv_step {c : Cfg} {s s' : State} {a : Act} (h : GidInv s) (hs : step c s a = some s') : GidInv s' := by
  cases a with
  | launch bg cmds =>
    simp only [step] at hs
    split at hs
    · split at hs
      · simp at hs
      · simp only [Option.some.injEq] at hs; subst hs
        refine ⟨h.1, ?_⟩
        intro l hl hor
        simp only [Mode.launching.injEq] at hl; subst hl
        simp at hor
    · simp at hs
  | fg n ex =>
    simp only [step] at hs
    split at hs
    · unfold stepFg at hs
      split at hs
      · simp only [Option.some.injEq] at hs; subst hs
        exact gidInv_of_sublist h (List.Sublist.refl _) rfl (by intro l; simp)
      · split at hs
        · simp at hs
        · split at hs
          · simp only [Option.some.injEq] at hs; subst hs
            exact gidInv_of_sublist h (List.Sublist.refl _) rfl (by intro l; simp)
          · split at hs
            · simp only [Option.some.injEq] at hs; subst hs
              exact gidInv_of_sublist h (List.Sublist.refl _) rfl (by intro l; simp)
            · split at hs
              · simp only [Option.some.injEq] at hs; subst hs
                exact gidInv_of_sublist h (by rw [markRunning_keys]; exact List.Sublist.refl _) rfl (by intro l; simp)
              · simp only [Option.some.injEq] at hs; subst hs
                exact gidInv_of_sublist h (by rw [markRunning_keys]; exact List.Sublist.refl _) rfl (by intro l; simp)
    · simp at hs
  | bg n ex =>
    simp only [step] at hs
    split at hs
    · unfold stepBg at hs
      split at hs
      · simp only [Option.some.injEq] at hs; subst hs
        exact gidInv_of_sublist h (List.Sublist.refl _) rfl (by intro l; simp)
      · split at hs
        · simp at hs
        · split at hs
          · simp only [Option.some.injEq] at hs; subst hs
            exact gidInv_of_sublist h (List.Sublist.refl _) rfl (by intro l; simp)
          · split at hs
            · simp only [Option.some.injEq] at hs; subst hs
              exact gidInv_of_sublist h (List.Sublist.refl _) rfl (by intro l; simp)
            · simp only [Option.some.injEq] at hs; subst hs
              exact gidInv_of_sublist h (by rw [markRunning_keys]; exact List.Sublist.refl _) rfl (by intro l; simp)
    · simp at hs
  | jobs =>
    simp only [step] at hs
    split at hs
    · split at hs
      · simp only [Option.some.injEq] at hs; subst hs
        exact gidInv_of_sublist h (List.Sublist.refl _) rfl (by intro l; simp)
      · simp only [Option.some.injEq] at hs; subst hs
        refine gidInv_of_sublist h (pollR_keys false s) ?_ (by intro l; simp)
        simp only [pollR]; split <;> rfl
    · simp at hs
  | empty =>
    simp only [step] at hs
    split at hs
    · simp only [Option.some.injEq] at hs; subst hs
      exact gidInv_of_sublist h (List.Sublist.refl _) rfl (by intro l; simp)
    · simp at hs
  | fork pid =>
    simp only [step] at hs
    split at hs
    · rename_i l hm
      unfold stepFork at hs
      split at hs
      · split at hs
        · simp at hs
        · rename_i hfresh
          simp only [Option.some.injEq] at hs; subst hs
          simp only [Bool.or_eq_true, decide_eq_true_eq, not_or, Bool.not_eq_true] at hfresh
          refine ⟨h.1, ?_⟩
          intro l' hl' _
          simp only [Mode.launching.injEq] at hl'; subst hl'
          simp only
          split
          · exact hfresh.1.2
          · rename_i h0
            exact h.2 l hm (Or.inl (by omega))
      · simp at hs
    · simp at hs
  | psetpgid =>
    simp only [step] at hs
    split at hs
    · rename_i l hm
      unfold stepPset at hs
      split at hs
      · rename_i p hph
        simp only [Option.some.injEq] at hs; subst hs
        refine ⟨h.1, ?_⟩
        intro l' hl' _
        simp only [Mode.launching.injEq] at hl'; subst hl'
        exact h.2 l hm (Or.inr (by rw [hph]; simp))
      · simp at hs
    · simp at hs
  | give =>
    simp only [step] at hs
    split at hs
    · rename_i l hm
      unfold stepGive at hs
      split at hs
      · rename_i p hph
        have hne := h.2 l hm (Or.inr (by rw [hph]; simp))
        split at hs
        · split at hs
          · simp only [Option.some.injEq] at hs; subst hs
            refine ⟨h.1, ?_⟩
            intro l' hl' _
            simp only [Mode.launching.injEq] at hl'; subst hl'; exact hne
          · simp only [Option.some.injEq] at hs; subst hs
            refine ⟨h.1, ?_⟩
            intro l' hl' _
            simp only [Mode.launching.injEq] at hl'; subst hl'; exact hne
        · simp only [Option.some.injEq] at hs; subst hs
          refine ⟨h.1, ?_⟩
          intro l' hl' _
          simp only [Mode.launching.injEq] at hl'; subst hl'; exact hne
      · simp at hs
    · simp at hs
  | insert =>
    simp only [step] at hs
    split at hs
    · rename_i l hm
      unfold stepInsert at hs
      split at hs
      · rename_i p cmd rest hph hcm
        have hne := h.2 l hm (Or.inr (by rw [hph]; simp))
        have key : ∀ st : State, st.shell = s.shell → (st.sh = s.sh ∨ st.sh = insertJob s.sh l.pgid p l.bg) →
            (∀ l', st.mode = .launching l' → l'.pgid = l.pgid) → GidInv st := by
          intro st h1 h2 h3
          refine ⟨?_, ?_⟩
          · intro j hj
            rw [h1]
            rcases h2 with h2 | h2
            · rw [h2] at hj; exact h.1 j hj
            · rw [h2] at hj
              rcases insertJob_gids _ _ _ _ j hj with hg | ⟨j0, hj0, he⟩
              · rw [hg]; exact hne
              · rw [← he]; exact h.1 j0 hj0
          · intro l' hl' _
            rw [h3 l' hl', h1]; exact hne
        by_cases hb : l.bg = true <;> by_cases hi : c.interactive = true <;> simp [hb, hi] at hs <;> subst hs <;>
          refine key _ rfl (by simp [hb]) (by intro l' hl'; simp only [Mode.launching.injEq] at hl'; subst hl'; rfl)
      · simp at hs
    · simp at hs
  | launched =>
    simp only [step] at hs
    split at hs
    · unfold stepLaunched at hs
      split at hs
      · split at hs
        · simp only [Option.some.injEq] at hs; subst hs
          exact gidInv_of_sublist h (List.Sublist.refl _) rfl (by intro l; simp)
        · split at hs
          · simp only [Option.some.injEq] at hs; subst hs
            exact gidInv_of_sublist h (List.Sublist.refl _) rfl (by intro l; simp)
          · simp only [Option.some.injEq] at hs; subst hs
            exact gidInv_of_sublist h (List.Sublist.refl _) rfl (by intro l; simp)
      · simp at hs
    · simp at hs
  | csetpgid pid =>
    simp only [step] at hs
    split at hs
    · split at hs
      · simp only [Option.some.injEq] at hs; subst hs; exact gidInv_same h rfl rfl rfl
      · simp at hs
    · simp at hs
  | exit pid code =>
    simp only [step] at hs
    split at hs
    · split at hs
      · simp only [Option.some.injEq] at hs; subst hs; exact gidInv_same h rfl rfl rfl
      · simp at hs
    · simp at hs
  | signal pid sg =>
    simp only [step] at hs
    split at hs
    · split at hs
      · simp only [Option.some.injEq] at hs; subst hs; exact gidInv_same h rfl rfl rfl
      · simp at hs
    · simp at hs
  | ctrlC => simp only [step, Option.some.injEq] at hs; subst hs; exact gidInv_same h rfl rfl rfl
  | ctrlZ => simp only [step, Option.some.injEq] at hs; subst hs; exact gidInv_same h rfl rfl rfl
  | waitGet pid =>
    simp only [step] at hs
    split at hs
    · rename_i w hm
      unfold stepWaitGet at hs
      split at hs
      · simp at hs
      · split at hs
        · simp at hs
        · rename_i e he
          simp only [Option.some.injEq] at hs; subst hs
          refine gidInv_of_sublist h (waitEv_keys s.sh w e) rfl ?_
          intro l; simp only; split <;> simp
    · simp at hs
  | waitEchild =>
    simp only [step] at hs
    split at hs
    · split at hs
      · simp only [Option.some.injEq] at hs; subst hs
        exact gidInv_of_sublist h (List.Sublist.refl _) rfl (by intro l; simp)
      · simp at hs
    · simp at hs
  | handback =>
    simp only [step] at hs
    split at hs
    · simp only [Option.some.injEq] at hs; subst hs
      exact gidInv_of_sublist h (List.Sublist.refl _) rfl (by intro l; simp)
    · simp only [Option.some.injEq] at hs; subst hs
      exact gidInv_of_sublist h (List.Sublist.refl _) rfl (by intro l; simp)
    · simp at hs
  | poll =>
    simp only [step] at hs
    split at hs
    · simp only [Option.some.injEq] at hs; subst hs
      refine gidInv_of_sublist h (pollR_keys true s) ?_ (by intro l; simp)
      simp only [pollR]; split <;> rfl
    · simp at hs

theorem gidInv_reachable {c : Cfg} {s : State} (h : Reachable c s) : GidInv s := by
  induction h with
  | init p _ => exact ⟨by simp [init], by intro l hl; simp [init] at hl⟩
  | step a _ hs ih => exact gidInv_step ih hs

end Cicada.Term
