import Cicada.Lemmas.LocustRT
/-!
# Fuel sufficiency of the script grammar model (C14, parser half)

In `Model/Locust.lean` running out of fuel is not represented distinctly (`pIf 0 _ = none`, `pBodyItems 0 s = ([], s)`,
`pTop 0 s = ([], s)` read like an ordinary failure / end of a repetition).  The honest statement of "the driver's fuel
`parseFuel t = 2 * |t| + 4` is enough" is therefore: the result at that fuel equals the result at every larger fuel.

Plan: (1) how much text the fuel-free parsers consume; (2) the same for the seven mutually recursive fuelled parsers
(`LenInv`, by induction on the fuel); (3) one more unit of fuel changes nothing once the fuel is above twice the text
length plus a constant per parser (`Stab`, by induction on the fuel); (4) `pTop` and `parseLines`.
-/
namespace Cicada.C14
open Cicada Cicada.Locust

/-! ### (1) lengths, fuel-free parsers -/

theorem skip_len (s : Str) : (skip s).length ≤ s.length := (skip_suffix s).length_le

theorem pNewline_len {s r : Str} (h : pNewline s = some r) : r.length < s.length := by
  unfold pNewline at h
  split at h <;> simp at h <;> subst h <;> simp <;> omega

theorem pLit_len {lit s r : Str} (h : pLit lit s = some r) : r.length + lit.length = s.length := by
  unfold pLit at h
  split at h
  · rename_i hs
    have e := congrArg List.length (startsWith_eq hs)
    simp only [Option.some.injEq] at h
    subst h
    simp only [List.length_append, List.length_drop] at e ⊢
    omega
  · simp at h

theorem pNlOrEoi_len {s r : Str} (h : pNlOrEoi s = some r) : r.length ≤ s.length := by
  unfold pNlOrEoi at h
  split at h
  · rename_i r' hr
    simp only [Option.some.injEq] at h
    subst h
    exact Nat.le_of_lt (pNewline_len hr)
  · split at h
    · simp only [Option.some.injEq] at h
      subst h
      simp
    · simp at h

theorem kwIf_len {s r : Str} (h : kwIf s = some r) : r.length + 3 ≤ s.length := by
  have := pLit_len h
  have e : "if ".toList.length = 3 := by decide
  omega

theorem kwFor_len {s r : Str} (h : kwFor s = some r) : r.length + 3 ≤ s.length := by
  have := pLit_len h
  have e : "for ".toList.length = 4 := by decide
  omega

theorem kwWhile_len {s r : Str} (h : kwWhile s = some r) : r.length + 3 ≤ s.length := by
  have := pLit_len h
  have e : "while ".toList.length = 6 := by decide
  omega

theorem kwElseIf_len {s r : Str} (h : kwElseIf s = some r) : r.length + 3 ≤ s.length := by
  have := pLit_len h
  have e : "else if ".toList.length = 8 := by decide
  omega

/-- `"word" ~ fin` where `fin` does not lengthen the text: strictly shorter as soon as the word is not empty -/
theorem kwEnd_len (fin : Str → Option Str) (hfin : ∀ x y, fin x = some y → y.length ≤ x.length)
    (w : Str) (hw : 0 < w.length) {s r : Str} (h : (pLit w s).bind (fun r => fin (skip r)) = some r) :
    r.length < s.length := by
  cases h1 : pLit w s with
  | none => simp [h1] at h
  | some r1 =>
    simp only [h1, Option.bind] at h
    have := pLit_len h1
    have := hfin _ _ h
    have := skip_len r1
    omega

theorem kwFi_len {s r : Str} (h : kwFi s = some r) : r.length < s.length :=
  kwEnd_len pNlOrEoi (fun _ _ => pNlOrEoi_len) "fi".toList (by decide) h

theorem kwDone_len {s r : Str} (h : kwDone s = some r) : r.length < s.length :=
  kwEnd_len pNlOrEoi (fun _ _ => pNlOrEoi_len) "done".toList (by decide) h

theorem kwElse_len {s r : Str} (h : kwElse s = some r) : r.length < s.length :=
  kwEnd_len pNewline (fun _ _ h => Nat.le_of_lt (pNewline_len h)) "else".toList (by decide) h

theorem dummy_len (w : Str) {s r : Str} (h : dummy w s = some r) : r.length ≤ s.length := by
  unfold dummy at h
  cases h1 : pLit [';'] s with
  | none => simp [h1] at h
  | some r1 =>
    simp only [h1, Option.bind] at h
    cases h2 : pLit w (skip r1) with
    | none => simp [h2] at h
    | some r2 =>
      simp only [h2] at h
      have := pLit_len h1
      have := pLit_len h2
      have := pNewline_len h
      have := skip_len r1
      have := skip_len r2
      omega

theorem dummyThen_len {s r : Str} (h : dummyThen s = some r) : r.length ≤ s.length := dummy_len _ h
theorem dummyDo_len {s r : Str} (h : dummyDo s = some r) : r.length ≤ s.length := dummy_len _ h

/-- the `(!stop ~ ANY)*` loop never lengthens the text, and is strictly shorter once it has counted a step -/
theorem repAny_len (stop : Str → Bool) : ∀ (f : Nat) (s : Str) (n : Nat) (r : Str) (m : Nat),
    repAny stop f s n = (r, m) → r.length ≤ s.length ∧ n ≤ m ∧ (n < m → r.length < s.length) := by
  intro f
  induction f with
  | zero =>
    intro s n r m h
    simp only [repAny, Prod.mk.injEq] at h
    obtain ⟨rfl, rfl⟩ := h
    simp
  | succ f ih =>
    intro s n r m h
    have h4 : (if n > 0 then skip s else s).length ≤ s.length := by
      split
      · exact skip_len s
      · exact Nat.le_refl _
    unfold repAny at h
    generalize (if n > 0 then skip s else s) = s1 at h h4
    by_cases hst : stop s1 = true
    · simp only [hst, ↓reduceIte, Prod.mk.injEq] at h
      obtain ⟨rfl, rfl⟩ := h
      simp
    · simp only [hst, Bool.false_eq_true, ↓reduceIte] at h
      have h3 := skip_len s1
      cases hsk : skip s1 with
      | nil =>
        simp only [hsk, Prod.mk.injEq] at h
        obtain ⟨rfl, rfl⟩ := h
        simp
      | cons c r' =>
        simp only [hsk] at h
        obtain ⟨h1, h2, _⟩ := ih _ _ _ _ h
        rw [hsk] at h3
        simp only [List.length_cons] at h3
        refine ⟨by omega, by omega, fun _ => by omega⟩

theorem pTest_len {s r : Str} {t : PT} (h : pTest s = some (t, r)) : r.length ≤ s.length := by
  unfold pTest at h
  generalize hrep : repAny _ (s.length + 1) s 0 = res at h
  obtain ⟨r0, n⟩ := res
  simp only at h
  split at h
  · simp at h
  · simp only [Option.some.injEq, Prod.mk.injEq] at h
    obtain ⟨_, rfl⟩ := h
    exact (repAny_len _ _ _ _ _ _ hrep).1

theorem pCmd_len {s r : Str} {t : PT} (h : pCmd s = some (t, r)) : r.length < s.length := by
  unfold pCmd at h
  split at h
  · simp at h
  · generalize hrep : repAny atNewline (s.length + 1) (skip s) 0 = res at h
    obtain ⟨r0, n⟩ := res
    obtain ⟨h1, _, h3⟩ := repAny_len _ _ _ _ _ _ hrep
    have hs := skip_len s
    simp only at h
    split at h
    · rename_i r' hr'
      simp only [Option.some.injEq, Prod.mk.injEq] at h
      obtain ⟨_, rfl⟩ := h
      have := pNewline_len hr'
      have := skip_len r0
      omega
    · split at h
      · rename_i hn
        simp only [Option.some.injEq, Prod.mk.injEq] at h
        obtain ⟨_, rfl⟩ := h
        have := h3 hn.1
        simp only [List.length_nil]
        omega
      · simp at h

/-- a head `KW ~ TEST ~ (DUMMY | NEWLINE)` consumes at least what its keyword consumes -/
theorem pHead_len (rule : String) (kw dum : Str → Option Str)
    (hkw : ∀ x y, kw x = some y → y.length + 3 ≤ x.length) (hdum : ∀ x y, dum x = some y → y.length ≤ x.length)
    {s r : Str} {h : PT} (hh : pHead rule kw dum s = some (h, r)) : r.length + 3 ≤ s.length := by
  unfold pHead at hh
  split at hh
  · simp at hh
  · rename_i r1 h1
    split at hh
    · simp at hh
    · rename_i t r2 h2
      have := hkw _ _ h1
      have := pTest_len h2
      have := skip_len r1
      have := skip_len r2
      simp only at hh
      split at hh
      · rename_i r4 h4
        simp only [Option.some.injEq, Prod.mk.injEq] at hh
        obtain ⟨_, rfl⟩ := hh
        have := hdum _ _ h4
        omega
      · split at hh
        · rename_i r4 h4
          simp only [Option.some.injEq, Prod.mk.injEq] at hh
          obtain ⟨_, rfl⟩ := hh
          have := pNewline_len h4
          omega
        · simp at hh

theorem pForVar_len {s r : Str} {t : PT} (h : pForVar s = some (t, r)) : r.length ≤ s.length := by
  unfold pForVar at h
  split at h
  · rename_i c cs
    split at h
    · simp only [Option.some.injEq, Prod.mk.injEq] at h
      obtain ⟨_, rfl⟩ := h
      have := (List.dropWhile_suffix (l := cs) (fun x => isAlphaA x || isDigitA x || x = '_')).length_le
      simp only [List.length_cons]
      omega
    · simp at h
  · simp at h

theorem pForHead_len {s r : Str} {h : PT} (hh : pForHead s = some (h, r)) : r.length + 3 ≤ s.length := by
  unfold pForHead at hh
  split at hh
  · simp at hh
  · rename_i r0 h0
    have := kwFor_len h0
    have := skip_len r0
    simp only at hh
    split at hh
    · simp at hh
    · rename_i v r1 h1
      have := pForVar_len h1
      have := skip_len r1
      split at hh
      · simp at hh
      · rename_i r2 h2
        have := pLit_len h2
        have := skip_len r2
        split at hh
        · simp at hh
        · rename_i t r3 h3
          have := pTest_len h3
          have := skip_len r3
          split at hh
          · simp at hh
          · rename_i r5 h5
            simp only [Option.some.injEq, Prod.mk.injEq] at hh
            obtain ⟨_, rfl⟩ := hh
            have : r5.length ≤ (skip r3).length := by
              split at h5
              · rename_i x hx
                simp only [Option.some.injEq] at h5
                subst h5
                exact dummyDo_len hx
              · exact Nat.le_of_lt (pNewline_len h5)
            omega

/-! ### the fuelled parsers, one unfolding step at a time -/

theorem pBody_succ (f : Nat) (s : Str) :
    pBody (f + 1) s =
      if (pBodyItems f s).1 = [] then none
      else some (.node "EXP_BODY" (span s (pBodyItems f s).2) (pBodyItems f s).1, (pBodyItems f s).2) := by
  rw [pBody]

theorem pBranch_succ (f : Nat) (rule : String) (head : Str → Option (PT × Str)) (s : Str) :
    pBranch (f + 1) rule head s =
      match head s with
      | none => none
      | some (h, r) =>
        match pBody f (skip r) with
        | none => none
        | some (b, r2) => some (.node rule (span s r2) [h, b], r2) := by
  rw [pBranch]
  rfl

theorem pElseIfs_succ (f : Nat) (s : Str) :
    pElseIfs (f + 1) s =
      match pBranch f "IF_ELSEIF_BR" (pHead "IF_ELSEIF_HEAD" kwElseIf dummyThen) (skip s) with
      | none => ([], s)
      | some (b, r) => (b :: (pElseIfs f r).1, (pElseIfs f r).2) := by
  rw [pElseIfs]
  rfl

/-- the part of `EXP_IF` after the `else if` branches: `IF_ELSE_BR? ~ KW_FI` -/
def ifTail (body : Str → Option (PT × Str)) (s : Str) (b1 : PT) (bs : List PT) (r2 : Str) : Option (PT × Str) :=
  let r2s := skip r2
  let (els, r3) : List PT × Str :=
    match kwElse r2s with
    | none => ([], r2)
    | some re =>
      match body (skip re) with
      | none => ([], r2)
      | some (b, rb) => ([.node "IF_ELSE_BR" (span r2s rb) [.node "KW_ELSE" (span r2s re) [], b]], rb)
  match kwFi (skip r3) with
  | none => none
  | some r4 => some (.node "EXP_IF" (span s r4) ([b1] ++ bs ++ els), r4)

theorem pIf_succ (f : Nat) (s : Str) :
    pIf (f + 1) s =
      match pBranch f "IF_IF_BR" (pHead "IF_HEAD" kwIf dummyThen) (skip s) with
      | none => none
      | some (b1, r1) => ifTail (pBody f) s b1 (pElseIfs f r1).1 (pElseIfs f r1).2 := by
  rw [pIf]
  rfl

theorem pWhile_succ (f : Nat) (s : Str) :
    pWhile (f + 1) s =
      match pHead "WHILE_HEAD" kwWhile dummyDo (skip s) with
      | none => none
      | some (h, r) =>
        match pBody f (skip r) with
        | none => none
        | some (b, r2) =>
          match kwDone (skip r2) with
          | none => none
          | some r3 => some (.node "EXP_WHILE" (span s r3) [h, b], r3) := by
  rw [pWhile]
  rfl

theorem pFor_succ (f : Nat) (s : Str) :
    pFor (f + 1) s =
      match pForHead (skip s) with
      | none => none
      | some (h, r) =>
        match pBody f (skip r) with
        | none => none
        | some (b, r2) =>
          match kwDone (skip r2) with
          | none => none
          | some r3 => some (.node "EXP_FOR" (span s r3) [h, b], r3) := by
  rw [pFor]
  rfl

/-! ### (2) lengths, fuelled parsers -/

/-- a block head consumes at least three characters -/
def HeadOk (head : Str → Option (PT × Str)) : Prop := ∀ s h r, head s = some (h, r) → r.length + 3 ≤ s.length

theorem headOk_if : HeadOk (pHead "IF_HEAD" kwIf dummyThen) :=
  fun _ _ _ hh => pHead_len _ _ _ (fun _ _ => kwIf_len) (fun _ _ => dummyThen_len) hh

theorem headOk_elseif : HeadOk (pHead "IF_ELSEIF_HEAD" kwElseIf dummyThen) :=
  fun _ _ _ hh => pHead_len _ _ _ (fun _ _ => kwElseIf_len) (fun _ _ => dummyThen_len) hh

theorem headOk_while : HeadOk (pHead "WHILE_HEAD" kwWhile dummyDo) :=
  fun _ _ _ hh => pHead_len _ _ _ (fun _ _ => kwWhile_len) (fun _ _ => dummyDo_len) hh

theorem headOk_for : HeadOk pForHead := fun _ _ _ hh => pForHead_len hh

/-- no parser of the mutual block lengthens the text; the block constructs are strictly shorter afterwards -/
structure LenInv (f : Nat) : Prop where
  items : ∀ s, (pBodyItems f s).2.length ≤ s.length
  body : ∀ s b r, pBody f s = some (b, r) → r.length ≤ s.length
  branch : ∀ rule head s b r, HeadOk head → pBranch f rule head s = some (b, r) → r.length + 3 ≤ s.length
  elifs : ∀ s, (pElseIfs f s).2.length ≤ s.length
  pif : ∀ s t r, pIf f s = some (t, r) → r.length < s.length
  pwhile : ∀ s t r, pWhile f s = some (t, r) → r.length < s.length
  pfor : ∀ s t r, pFor f s = some (t, r) → r.length < s.length

theorem lenInv_zero : LenInv 0 := by
  refine ⟨?_, ?_, ?_, ?_, ?_, ?_, ?_⟩ <;> intros <;> simp_all [pBodyItems, pBody, pBranch, pElseIfs, pIf, pWhile, pFor]

theorem pItemB_len {f : Nat} (h : LenInv f) {s r : Str} {t : PT} (hi : pItemB f s = some (t, r)) :
    r.length < s.length := by
  unfold pItemB at hi
  split at hi
  · rename_i x hx
    simp only [Option.some.injEq] at hi
    subst hi
    exact pCmd_len hx
  · split at hi
    · rename_i x hx
      simp only [Option.some.injEq] at hi
      subst hi
      exact h.pif _ _ _ hx
    · split at hi
      · rename_i x hx
        simp only [Option.some.injEq] at hi
        subst hi
        exact h.pwhile _ _ _ hx
      · exact h.pfor _ _ _ hi

theorem pItemT_len {f : Nat} (h : LenInv f) {s r : Str} {t : PT} (hi : pItemT f s = some (t, r)) :
    r.length < s.length := by
  unfold pItemT at hi
  split at hi
  · rename_i x hx
    simp only [Option.some.injEq] at hi
    subst hi
    exact h.pif _ _ _ hx
  · split at hi
    · rename_i x hx
      simp only [Option.some.injEq] at hi
      subst hi
      exact h.pfor _ _ _ hx
    · split at hi
      · rename_i x hx
        simp only [Option.some.injEq] at hi
        subst hi
        exact h.pwhile _ _ _ hx
      · exact pCmd_len hi

theorem len_items_step {f : Nat} (h : LenInv f) (s : Str) : (pBodyItems (f + 1) s).2.length ≤ s.length := by
  rw [pBodyItems_succ]
  cases hi : pItemB f s with
  | none => simp
  | some p =>
    obtain ⟨t, r⟩ := p
    have h1 := pItemB_len h hi
    have h2 := h.items (skip r)
    have h3 := skip_len r
    simp only
    split
    · simp only; omega
    · simp only; omega

theorem len_body_step {f : Nat} (h : LenInv f) (s : Str) (b : PT) (r : Str) (hb : pBody (f + 1) s = some (b, r)) :
    r.length ≤ s.length := by
  rw [pBody_succ] at hb
  split at hb
  · simp at hb
  · simp only [Option.some.injEq, Prod.mk.injEq] at hb
    obtain ⟨_, rfl⟩ := hb
    exact h.items s

theorem len_branch_step {f : Nat} (h : LenInv f) (rule : String) (head : Str → Option (PT × Str)) (s : Str) (b : PT)
    (r : Str) (hh : HeadOk head) (hb : pBranch (f + 1) rule head s = some (b, r)) : r.length + 3 ≤ s.length := by
  rw [pBranch_succ] at hb
  split at hb
  · simp at hb
  · rename_i hd r1 h1
    split at hb
    · simp at hb
    · rename_i bd r2 h2
      simp only [Option.some.injEq, Prod.mk.injEq] at hb
      obtain ⟨_, rfl⟩ := hb
      have := hh _ _ _ h1
      have := h.body _ _ _ h2
      have := skip_len r1
      omega

theorem len_elifs_step {f : Nat} (h : LenInv f) (s : Str) : (pElseIfs (f + 1) s).2.length ≤ s.length := by
  rw [pElseIfs_succ]
  split
  · simp
  · rename_i b r hb
    have := h.branch _ _ _ _ _ headOk_elseif hb
    have := h.elifs r
    have := skip_len s
    simp only
    omega

theorem ifTail_len (body : Str → Option (PT × Str)) (hbody : ∀ s b r, body s = some (b, r) → r.length ≤ s.length)
    (s : Str) (b1 : PT) (bs : List PT) (r2 : Str) (t : PT) (r : Str) (h : ifTail body s b1 bs r2 = some (t, r)) :
    r.length < r2.length := by
  unfold ifTail at h
  simp only at h
  split at h
  · simp at h
  · rename_i r4 h4
    simp only [Option.some.injEq, Prod.mk.injEq] at h
    obtain ⟨_, rfl⟩ := h
    have h5 := kwFi_len h4
    revert h5
    split
    · intro h5; simp only at h5; have := skip_len r2; omega
    · rename_i re hre
      split
      · intro h5; simp only at h5; have := skip_len r2; omega
      · rename_i b rb hb
        intro h5
        simp only at h5
        have := hbody _ _ _ hb
        have := kwElse_len hre
        have := skip_len r2
        have := skip_len re
        have := skip_len rb
        omega

theorem len_if_step {f : Nat} (h : LenInv f) (s : Str) (t : PT) (r : Str) (hi : pIf (f + 1) s = some (t, r)) :
    r.length < s.length := by
  rw [pIf_succ] at hi
  split at hi
  · simp at hi
  · rename_i b1 r1 hb
    have := h.branch _ _ _ _ _ headOk_if hb
    have := h.elifs r1
    have := ifTail_len _ h.body _ _ _ _ _ _ hi
    have := skip_len s
    omega

theorem len_loop_step {f : Nat} (h : LenInv f) (rule : String) (head : Str → Option (PT × Str)) (hh : HeadOk head)
    (s : Str) (t : PT) (r : Str)
    (hi : (match head (skip s) with
      | none => none
      | some (h, r) =>
        match pBody f (skip r) with
        | none => none
        | some (b, r2) =>
          match kwDone (skip r2) with
          | none => none
          | some r3 => some (PT.node rule (span s r3) [h, b], r3)) = some (t, r)) :
    r.length < s.length := by
  split at hi
  · simp at hi
  · rename_i hd r1 h1
    split at hi
    · simp at hi
    · rename_i b r2 h2
      split at hi
      · simp at hi
      · rename_i r3 h3
        simp only [Option.some.injEq, Prod.mk.injEq] at hi
        obtain ⟨_, rfl⟩ := hi
        have := hh _ _ _ h1
        have := h.body _ _ _ h2
        have := kwDone_len h3
        have := skip_len s
        have := skip_len r1
        have := skip_len r2
        omega

theorem lenInv_succ {f : Nat} (h : LenInv f) : LenInv (f + 1) where
  items := len_items_step h
  body := len_body_step h
  branch := len_branch_step h
  elifs := len_elifs_step h
  pif := len_if_step h
  pwhile := fun s t r hi => len_loop_step h _ _ headOk_while s t r (by rw [pWhile_succ] at hi; exact hi)
  pfor := fun s t r hi => len_loop_step h _ _ headOk_for s t r (by rw [pFor_succ] at hi; exact hi)

theorem lenInv (f : Nat) : LenInv f := by
  induction f with
  | zero => exact lenInv_zero
  | succ f ih => exact lenInv_succ ih

/-! ### (3) one more unit of fuel changes nothing -/

/-- at fuel `f`, on every text short enough for `f` (twice its length plus a constant per parser), one more unit of fuel
gives the same result.  The constants: `IF_*_BR` 1; `EXP_IF`, `EXP_WHILE`, `EXP_FOR`, `IF_ELSEIF_BR*` 2; the items of
`EXP_BODY` 3; `EXP_BODY` 4.  (A parser calls the others at one unit less on the same text, which the order of the constants
pays for, or on a text at least three characters shorter after a head, which pays six units.) -/
structure Stab (f : Nat) : Prop where
  items : ∀ s, 2 * s.length + 3 ≤ f → pBodyItems f s = pBodyItems (f + 1) s
  body : ∀ s, 2 * s.length + 4 ≤ f → pBody f s = pBody (f + 1) s
  branch : ∀ rule head s, HeadOk head → 2 * s.length + 1 ≤ f → pBranch f rule head s = pBranch (f + 1) rule head s
  elifs : ∀ s, 2 * s.length + 2 ≤ f → pElseIfs f s = pElseIfs (f + 1) s
  pif : ∀ s, 2 * s.length + 2 ≤ f → pIf f s = pIf (f + 1) s
  pwhile : ∀ s, 2 * s.length + 2 ≤ f → pWhile f s = pWhile (f + 1) s
  pfor : ∀ s, 2 * s.length + 2 ≤ f → pFor f s = pFor (f + 1) s

theorem stab_zero : Stab 0 := by
  refine ⟨?_, ?_, ?_, ?_, ?_, ?_, ?_⟩ <;> intros <;> omega

theorem stab_itemB {f : Nat} (h : Stab f) (s : Str) (hs : 2 * s.length + 2 ≤ f) : pItemB (f + 1) s = pItemB f s := by
  unfold pItemB
  rw [← h.pif s hs, ← h.pwhile s hs, ← h.pfor s hs]

theorem stab_itemT {f : Nat} (h : Stab f) (s : Str) (hs : 2 * s.length + 2 ≤ f) : pItemT (f + 1) s = pItemT f s := by
  unfold pItemT
  rw [← h.pif s hs, ← h.pwhile s hs, ← h.pfor s hs]

theorem stab_items_step {f : Nat} (h : Stab f) (s : Str) (hs : 2 * s.length + 3 ≤ f + 1) :
    pBodyItems (f + 1) s = pBodyItems (f + 1 + 1) s := by
  rw [pBodyItems_succ f, pBodyItems_succ (f + 1), stab_itemB h s (by omega)]
  cases hi : pItemB f s with
  | none => rfl
  | some p =>
    obtain ⟨t, r⟩ := p
    have := pItemB_len (lenInv f) hi
    have := skip_len r
    simp only
    rw [← h.items (skip r) (by omega)]

theorem stab_body_step {f : Nat} (h : Stab f) (s : Str) (hs : 2 * s.length + 4 ≤ f + 1) :
    pBody (f + 1) s = pBody (f + 1 + 1) s := by
  rw [pBody_succ f, pBody_succ (f + 1), ← h.items s (by omega)]

theorem stab_branch_step {f : Nat} (h : Stab f) (rule : String) (head : Str → Option (PT × Str)) (s : Str)
    (hh : HeadOk head) (hs : 2 * s.length + 1 ≤ f + 1) :
    pBranch (f + 1) rule head s = pBranch (f + 1 + 1) rule head s := by
  rw [pBranch_succ f, pBranch_succ (f + 1)]
  cases h1 : head s with
  | none => rfl
  | some p =>
    obtain ⟨hd, r⟩ := p
    have := hh _ _ _ h1
    have := skip_len r
    simp only
    rw [← h.body (skip r) (by omega)]

theorem stab_elifs_step {f : Nat} (h : Stab f) (s : Str) (hs : 2 * s.length + 2 ≤ f + 1) :
    pElseIfs (f + 1) s = pElseIfs (f + 1 + 1) s := by
  have := skip_len s
  rw [pElseIfs_succ f, pElseIfs_succ (f + 1), ← h.branch _ _ (skip s) headOk_elseif (by omega)]
  cases hb : pBranch f "IF_ELSEIF_BR" (pHead "IF_ELSEIF_HEAD" kwElseIf dummyThen) (skip s) with
  | none => rfl
  | some p =>
    obtain ⟨b, r⟩ := p
    have := (lenInv f).branch _ _ _ _ _ headOk_elseif hb
    simp only
    rw [← h.elifs r (by omega)]

theorem ifTail_congr (body body' : Str → Option (PT × Str)) (s : Str) (b1 : PT) (bs : List PT) (r2 : Str)
    (hb : ∀ re, kwElse (skip r2) = some re → body (skip re) = body' (skip re)) :
    ifTail body s b1 bs r2 = ifTail body' s b1 bs r2 := by
  unfold ifTail
  simp only
  cases he : kwElse (skip r2) with
  | none => rfl
  | some re =>
    simp only
    rw [hb re he]

theorem stab_if_step {f : Nat} (h : Stab f) (s : Str) (hs : 2 * s.length + 2 ≤ f + 1) :
    pIf (f + 1) s = pIf (f + 1 + 1) s := by
  have := skip_len s
  rw [pIf_succ f, pIf_succ (f + 1), ← h.branch _ _ (skip s) headOk_if (by omega)]
  cases hb : pBranch f "IF_IF_BR" (pHead "IF_HEAD" kwIf dummyThen) (skip s) with
  | none => rfl
  | some p =>
    obtain ⟨b1, r1⟩ := p
    have := (lenInv f).branch _ _ _ _ _ headOk_if hb
    simp only
    rw [← h.elifs r1 (by omega)]
    have h2 := (lenInv f).elifs r1
    refine ifTail_congr _ _ _ _ _ _ (fun re hre => ?_)
    have := kwElse_len hre
    have := skip_len (pElseIfs f r1).2
    have := skip_len re
    exact h.body (skip re) (by omega)

theorem loop_congr (body body' : Str → Option (PT × Str)) (rule : String) (head : Str → Option (PT × Str)) (s : Str)
    (hb : ∀ hd r, head (skip s) = some (hd, r) → body (skip r) = body' (skip r)) :
    (match head (skip s) with
      | none => none
      | some (h, r) =>
        match body (skip r) with
        | none => none
        | some (b, r2) =>
          match kwDone (skip r2) with
          | none => none
          | some r3 => some (PT.node rule (span s r3) [h, b], r3)) =
    (match head (skip s) with
      | none => none
      | some (h, r) =>
        match body' (skip r) with
        | none => none
        | some (b, r2) =>
          match kwDone (skip r2) with
          | none => none
          | some r3 => some (PT.node rule (span s r3) [h, b], r3)) := by
  cases h1 : head (skip s) with
  | none => rfl
  | some p =>
    obtain ⟨hd, r⟩ := p
    simp only
    rw [hb hd r h1]

theorem stab_loop_body {f : Nat} (h : Stab f) (head : Str → Option (PT × Str)) (hh : HeadOk head) (s : Str)
    (hs : 2 * s.length + 2 ≤ f + 1) (hd : PT) (r : Str) (h1 : head (skip s) = some (hd, r)) :
    pBody f (skip r) = pBody (f + 1) (skip r) := by
  have := hh _ _ _ h1
  have := skip_len s
  have := skip_len r
  exact h.body (skip r) (by omega)

theorem stab_while_step {f : Nat} (h : Stab f) (s : Str) (hs : 2 * s.length + 2 ≤ f + 1) :
    pWhile (f + 1) s = pWhile (f + 1 + 1) s := by
  rw [pWhile_succ f, pWhile_succ (f + 1)]
  exact loop_congr _ _ _ _ _ (stab_loop_body h _ headOk_while s hs)

theorem stab_for_step {f : Nat} (h : Stab f) (s : Str) (hs : 2 * s.length + 2 ≤ f + 1) :
    pFor (f + 1) s = pFor (f + 1 + 1) s := by
  rw [pFor_succ f, pFor_succ (f + 1)]
  exact loop_congr _ _ _ _ _ (stab_loop_body h _ headOk_for s hs)

theorem stab_succ {f : Nat} (h : Stab f) : Stab (f + 1) where
  items := stab_items_step h
  body := stab_body_step h
  branch := fun rule head s hh hs => stab_branch_step h rule head s hh hs
  elifs := stab_elifs_step h
  pif := stab_if_step h
  pwhile := stab_while_step h
  pfor := stab_for_step h

theorem stab (f : Nat) : Stab f := by
  induction f with
  | zero => exact stab_zero
  | succ f ih => exact stab_succ ih

/-! ### (4) the top rule and `parse_lines` -/

/-- from fuel `2 * |t| + 3` on, one more unit of fuel does not change what the top rule `EXP` yields -/
theorem pTop_fuel_succ' : ∀ (f : Nat) (t : Str), 2 * t.length + 3 ≤ f → pTop f t = pTop (f + 1) t := by
  intro f
  induction f with
  | zero => intro t h; omega
  | succ f ih =>
    intro t h
    rw [pTop_succ f, pTop_succ (f + 1), stab_itemT (stab f) t (by omega)]
    cases hi : pItemT f t with
    | none => rfl
    | some p =>
      obtain ⟨x, r⟩ := p
      have := pItemT_len (lenInv f) hi
      have := skip_len r
      simp only
      rw [← ih (skip r) (by omega)]

/-- the general form asked for: every fuel from the driver's `2 * |t| + 4` on gives the same result as one more unit -/
theorem pTop_fuel_succ (t : Str) (f : Nat) (h : 2 * t.length + 4 ≤ f) : pTop f t = pTop (f + 1) t :=
  pTop_fuel_succ' f t (by omega)

theorem pTop_fuel_add (t : Str) (f : Nat) (h : 2 * t.length + 4 ≤ f) (k : Nat) : pTop f t = pTop (f + k) t := by
  induction k with
  | zero => rfl
  | succ k ih => rw [ih, ← Nat.add_assoc]; exact pTop_fuel_succ t (f + k) (by omega)

/-- all fuels from the driver's `2 * |t| + 4` on agree -/
theorem pTop_fuel_mono (t : Str) (f g : Nat) (h : 2 * t.length + 4 ≤ f) (hg : f ≤ g) : pTop f t = pTop g t := by
  obtain ⟨k, rfl⟩ : ∃ k, g = f + k := ⟨g - f, by omega⟩
  exact pTop_fuel_add t f h k

/-- **fuel sufficiency of `EXP`**: the driver's fuel `parseFuel t = 2 * |t| + 4` gives what every larger fuel gives, for
every text -/
theorem pTop_fuel_stable (t : Str) (k : Nat) : pTop (parseFuel t) t = pTop (parseFuel t + k) t :=
  pTop_fuel_add t (parseFuel t) (Nat.le_refl _) k

/-- **fuel sufficiency of `locust::parse_lines`** (model): the answer computed with the driver's fuel is the answer with
any larger fuel, for every text -/
theorem parseLines_fuel_stable (t : Str) (k : Nat) :
    parseLines t = (let (ts, r) := pTop (parseFuel t + k) t; if skip r = [] then some (.node "EXP" t ts) else none) := by
  unfold parseLines
  rw [← pTop_fuel_stable t k]

/-! non-vacuity: fuel does matter below the bound (a nested script needs 8 units; with 7 the model's `pTop` silently
yields nothing), and at the driver's fuel the text is parsed; `parseLines` both accepts and rejects -/
example : (pTop 7 "if a\nwhile b\nc\ndone\nfi\nd\n".toList).1.length = 0 ∧
    (pTop 8 "if a\nwhile b\nc\ndone\nfi\nd\n".toList).1.length = 2 ∧
    (pTop (parseFuel "if a\nwhile b\nc\ndone\nfi\nd\n".toList) "if a\nwhile b\nc\ndone\nfi\nd\n".toList).1.length = 2 := by
  decide +kernel
example : (parseLines "if a\nwhile b\nc\ndone\nfi\nd\n".toList).isSome = true := by decide +kernel
example : (parseLines "if a\nb\n".toList).isSome = false := by decide +kernel

end Cicada.C14
