import Cicada.Spec.C01
/-!
Scanner lemmas for `parse_line` (`PL.step`): reading plain words, single- and double-quoted words.
States are written as explicit records so that each lemma is a rewrite rule.
-/
namespace Cicada.TokLemmas
open Cicada Cicada.PL

/-- between words: nothing pending -/
def clean (r : List Tok) (hd : Bool) : St := { result := r, hasDollar := hd }
/-- inside an open quote `q`, having read `t` -/
def inQ (r : List Tok) (q : Char) (t : Str) (hd : Bool) : St :=
  { result := r, sep := [q], token := t, newRound := false, hasDollar := hd }
/-- just after the closing quote -/
def doneQ (r : List Tok) (q : Char) (t : Str) (hd : Bool) : St :=
  { result := r, sep := [q], token := t, newRound := false, hasDollar := hd, semiOk := true }
/-- inside an unquoted word -/
def inW (r : List Tok) (t : Str) (hd : Bool) : St :=
  { result := r, token := t, newRound := false, hasDollar := hd }

/-- characters of a plain program word -/
def wordChar (c : Char) : Bool := isAlphaA c || isDigitA c || c = '_' || c = '-' || c = '.' || c = '/'

theorem wordChar_facts {c : Char} (h : wordChar c = true) :
    c ≠ '$' ∧ c ≠ '(' ∧ c ≠ ')' ∧ c ≠ '\\' ∧ c ≠ ' ' ∧ c ≠ '\'' ∧ c ≠ '"' ∧ c ≠ '`' ∧ c ≠ '#' ∧ c ≠ '|' ∧ c ≠ '>' ∧ c ≠ '<' := by
  refine ⟨?_, ?_, ?_, ?_, ?_, ?_, ?_, ?_, ?_, ?_, ?_, ?_⟩ <;> (intro e; subst e; revert h; decide)

theorem step_clean_word (r : List Tok) (hd : Bool) (c : Char) (n : Option Char) (h : wordChar c = true) :
    step (clean r hd) c n = inW r [c] hd := by
  obtain ⟨a1, a2, a3, a4, a5, a6, a7, a8, a9, a10, a11, a12⟩ := wordChar_facts h
  simp [step, clean, inW, isQ, a1, a2, a3, a4, a5, a6, a7, a8, a9, a10]

theorem step_inW_word (r : List Tok) (t : Str) (hd : Bool) (c : Char) (n : Option Char) (h : wordChar c = true) :
    step (inW r t hd) c n = inW r (t ++ [c]) hd := by
  obtain ⟨a1, a2, a3, a4, a5, a6, a7, a8, a9, a10, a11, a12⟩ := wordChar_facts h
  simp [step, stepMid, stepTail, inW, isQ, a1, a2, a3, a4, a5, a6, a7, a8, a9, a10]

theorem step_inW_space (r : List Tok) (t : Str) (hd : Bool) (n : Option Char) :
    step (inW r t hd) ' ' n = clean (r ++ [([], t)]) hd := by
  simp [step, stepMid, stepTail, inW, clean, pushTok]

theorem step_clean_quote (r : List Tok) (hd : Bool) (q : Char) (n : Option Char) (hq : q = '\'' ∨ q = '"') :
    step (clean r hd) q n = inQ r q [] hd := by
  rcases hq with h | h <;> subst h <;> simp [step, clean, inQ, isQ]

theorem step_clean_space (r : List Tok) (hd : Bool) (n : Option Char) :
    step (clean r hd) ' ' n = clean r hd := by
  simp [step, clean]

theorem step_inSq (r : List Tok) (t : Str) (hd : Bool) (c : Char) (n : Option Char) (hc : c ≠ '\'') :
    step (inQ r '\'' t hd) c n = inQ r '\'' (t ++ [c]) (hd || (c = '$')) := by
  have hc' : ¬ '\'' = c := fun h => hc h.symm
  by_cases hd' : c = '$' <;> by_cases hb : c = '\\' <;> by_cases hp : c = '|' <;> by_cases hs : c = ' ' <;>
    by_cases hq : isQ c = true <;>
    simp_all [step, stepMid, stepTail, inQ, isQ]

theorem step_inDq (r : List Tok) (t : Str) (hd : Bool) (c : Char) (n : Option Char)
    (h1 : c ≠ '$') (h2 : c ≠ '`') (h3 : c ≠ '\\') (h4 : c ≠ '"') :
    step (inQ r '"' t hd) c n = inQ r '"' (t ++ [c]) hd := by
  have h4' : ¬ '"' = c := fun h => h4 h.symm
  by_cases hp : c = '|' <;> by_cases hs : c = ' ' <;> by_cases hq : c = '\'' <;>
    simp_all [step, stepMid, stepTail, inQ, isQ]

theorem step_close (r : List Tok) (t : Str) (hd : Bool) (q : Char) (n : Option Char) (hq : q = '\'' ∨ q = '"') :
    step (inQ r q t hd) q n = doneQ r q t hd := by
  rcases hq with h | h <;> subst h <;> simp [step, stepMid, stepTail, inQ, doneQ, isQ]

theorem step_doneQ_space (r : List Tok) (t : Str) (hd : Bool) (q : Char) (n : Option Char) (hq : q = '\'' ∨ q = '"') :
    step (doneQ r q t hd) ' ' n = clean (r ++ [([q], t)]) hd := by
  rcases hq with h | h <;> subst h <;> simp [step, stepMid, stepTail, doneQ, clean, pushTok, resetTok]

end Cicada.TokLemmas

namespace Cicada.TokLemmas
open Cicada Cicada.PL Cicada.C01

theorem step_clean_pipe (r : List Tok) (hd : Bool) (n : Option Char) (hn : n ≠ some '|') :
    step (clean r hd) '|' n = clean (r ++ [([], ['|'])]) hd := by
  simp [step, clean, isQ, hn]

theorem go_word (w : Str) : ∀ (r : List Tok) (t : Str) (hd : Bool) (rest : Str), w.all wordChar = true →
    go (inW r t hd) (w ++ rest) = go (inW r (t ++ w) hd) rest := by
  induction w with
  | nil => intro r t hd rest _; simp
  | cons c cs ih =>
    intro r t hd rest h
    simp only [List.all_cons, Bool.and_eq_true] at h
    simp only [List.cons_append, go]
    rw [step_inW_word r t hd c _ h.1, ih _ _ _ _ h.2]
    simp [List.append_assoc]

theorem go_sq_body (body : Str) : ∀ (r : List Tok) (t : Str) (hd : Bool) (rest : Str), (∀ c ∈ body, c ≠ '\'') →
    go (inQ r '\'' t hd) (body ++ rest) = go (inQ r '\'' (t ++ body) (hd || body.any (· = '$'))) rest := by
  induction body with
  | nil => intro r t hd rest _; simp
  | cons c cs ih =>
    intro r t hd rest h
    simp only [List.cons_append, go]
    rw [step_inSq r t hd c _ (h c (by simp)), ih _ _ _ _ (fun x hx => h x (by simp [hx]))]
    simp [List.append_assoc, Bool.or_assoc]

theorem go_dq_body (body : Str) : ∀ (r : List Tok) (t : Str) (hd : Bool) (rest : Str),
    (∀ c ∈ body, c ≠ '$' ∧ c ≠ '`' ∧ c ≠ '\\' ∧ c ≠ '"') →
    go (inQ r '"' t hd) (body ++ rest) = go (inQ r '"' (t ++ body) hd) rest := by
  induction body with
  | nil => intro r t hd rest _; simp
  | cons c cs ih =>
    intro r t hd rest h
    obtain ⟨h1, h2, h3, h4⟩ := h c (by simp)
    simp only [List.cons_append, go]
    rw [step_inDq r t hd c _ h1 h2 h3 h4, ih _ _ _ _ (fun x hx => h x (by simp [hx]))]
    simp [List.append_assoc]

/-- the token a quoted argument must become -/
def tokOf : Style × Str → Tok
  | (.sq, a) => (['\''], a)
  | (.dq, a) => (['"'], a)
  | (.esc, a) => ([], a)

/-- reading one single- or double-quoted argument from between words -/
theorem go_arg (s : Style) (a : Str) (r : List Tok) (hd : Bool) (rest : Str) (hok : styleOk (s, a) = true) :
    ∃ hd' q, (q = '\'' ∨ q = '"') ∧ tokOf (s, a) = ([q], a) ∧
      go (clean r hd) (renderArg s a ++ rest) = go (doneQ r q a hd') rest := by
  cases s with
  | sq =>
    refine ⟨hd || a.any (· = '$'), '\'', Or.inl rfl, rfl, ?_⟩
    have hb : ∀ c ∈ a, c ≠ '\'' := by
      intro c hc e; subst e
      simp [styleOk, okArg] at hok
      exact hok hc
    simp only [renderArg, List.cons_append, List.nil_append, List.append_assoc, go]
    rw [step_clean_quote r hd '\'' _ (Or.inl rfl), go_sq_body a r [] hd _ hb]
    simp only [List.nil_append, go]
    rw [step_close _ _ _ '\'' _ (Or.inl rfl)]
  | dq =>
    refine ⟨hd, '"', Or.inr rfl, rfl, ?_⟩
    have hb : ∀ c ∈ a, c ≠ '$' ∧ c ≠ '`' ∧ c ≠ '\\' ∧ c ≠ '"' := by
      intro c hc
      simp [styleOk, okArg] at hok
      have := hok c hc
      simp_all
    simp only [renderArg, List.cons_append, List.nil_append, List.append_assoc, go]
    rw [step_clean_quote r hd '"' _ (Or.inr rfl), go_dq_body a r [] hd _ hb]
    simp only [List.nil_append, go]
    rw [step_close _ _ _ '"' _ (Or.inr rfl)]
  | esc => simp [styleOk] at hok

/-- a state from which a blank completes the pending word: `r'` is the token list once it is pushed -/
structure Done (s : St) (r' : List Tok) (hd : Bool) : Prop where
  space : ∀ n, step s ' ' n = clean r' hd
  fin : finish s = r'

theorem done_inW (r : List Tok) (t : Str) (hd : Bool) (ht : t ≠ []) : Done (inW r t hd) (r ++ [([], t)]) hd :=
  ⟨fun n => step_inW_space r t hd n, by simp [finish, inW, ht]⟩

theorem done_doneQ (r : List Tok) (q : Char) (t : Str) (hd : Bool) (hq : q = '\'' ∨ q = '"') :
    Done (doneQ r q t hd) (r ++ [([q], t)]) hd :=
  ⟨fun n => step_doneQ_space r t hd q n hq, by rcases hq with h | h <;> subst h <;> simp [finish, doneQ]⟩

def argsText (args : List (Style × Str)) : Str := (args.map (fun (s, a) => ' ' :: renderArg s a)).flatten

/-- reading a whole argument list -/
theorem go_args (args : List (Style × Str)) : ∀ (s : St) (r' : List Tok) (hd : Bool) (rest : Str),
    Done s r' hd → args.all styleOk = true →
    ∃ s' hd', go s (argsText args ++ rest) = go s' rest ∧ Done s' (r' ++ args.map tokOf) hd' := by
  induction args with
  | nil => intro s r' hd rest hD _; exact ⟨s, hd, by simp [argsText], by simpa using hD⟩
  | cons x xs ih =>
    intro s r' hd rest hD hall
    obtain ⟨sty, a⟩ := x
    simp only [List.all_cons, Bool.and_eq_true] at hall
    obtain ⟨hd1, q, hq, htok, hgo⟩ := go_arg sty a r' hd (argsText xs ++ rest) hall.1
    obtain ⟨s', hd', hgo', hD'⟩ := ih (doneQ r' q a hd1) (r' ++ [([q], a)]) hd1 rest (done_doneQ r' q a hd1 hq) hall.2
    refine ⟨s', hd', ?_, ?_⟩
    · have e : argsText ((sty, a) :: xs) ++ rest = ' ' :: (renderArg sty a ++ (argsText xs ++ rest)) := by
        simp [argsText, List.append_assoc]
      rw [e]
      simp only [go]
      rw [hD.space, hgo, hgo']
    · simpa [htok, List.append_assoc] using hD'

theorem alpha_not_digit (c : Char) (h : isAlphaA c = true) : isDigitA c = false := by
  cases hd : isDigitA c with
  | false => rfl
  | true =>
    simp only [isAlphaA, isDigitA, Bool.or_eq_true, Bool.and_eq_true, decide_eq_true_eq] at h hd
    rcases h with ⟨h1, _⟩ | ⟨h1, _⟩
    · exact absurd (Char.le_trans h1 hd.2) (by decide)
    · exact absurd (Char.le_trans h1 hd.2) (by decide)

theorem alpha_not_arith (c : Char) (h : isAlphaA c = true) : arithBody c = false ∧ arithLast c = false := by
  have hd := alpha_not_digit c h
  have ne : ∀ x : Char, isAlphaA x = false → c ≠ x := by
    intro x hx e; subst e; rw [hx] at h; exact Bool.noConfusion h
  have e1 := ne ' ' (by decide); have e2 := ne '.' (by decide); have e3 := ne '(' (by decide)
  have e4 := ne ')' (by decide); have e5 := ne '+' (by decide); have e6 := ne '-' (by decide)
  have e7 := ne '*' (by decide); have e8 := ne '/' (by decide); have e9 := ne '^' (by decide)
  simp [arithBody, arithLast, hd, e1, e2, e3, e4, e5, e6, e7, e8, e9]

theorem any_alpha_not_arith (l : Str) (h : l.any isAlphaA = true) : isArithmetic l = false := by
  have key : reArithShape l = false := by
    unfold reArithShape
    cases hl : l.getLast? with
    | none => rfl
    | some last =>
      have hne : l ≠ [] := by intro e; subst e; simp at hl
      have hsplit : l = l.dropLast ++ [last] := by
        have := List.dropLast_concat_getLast hne
        rw [List.getLast?_eq_some_getLast hne] at hl
        simp at hl; rw [hl] at this; exact this.symm
      rw [hsplit, List.any_append] at h
      simp only [List.any_cons, List.any_nil, Bool.or_false, Bool.or_eq_true] at h
      rcases h with h | h
      · have : l.dropLast.all arithBody = false := by
          rw [List.all_eq_false]
          obtain ⟨x, hx1, hx2⟩ := List.any_eq_true.mp h
          exact ⟨x, hx1, by simp [(alpha_not_arith x hx2).1]⟩
        simp [this]
      · simp [(alpha_not_arith last h).2]
  simp [isArithmetic, key]

end Cicada.TokLemmas
