import Cicada.Lemmas.C06Refine
import Cicada.Thm.C02
/-!
# C06 — the foreground wait, exactly

`wait_returns_exactly` joins `C06_wait_returns_on_count` (the wait returns at the notification that completes the count,
the rest stays pending) and `C02.C02_status` (the status is the last pid's) into one statement about the consumed prefix
of the pending queue, and adds what the loop does to the state on the way: for a job whose members only exit / get
killed, `wait_fg_job` consumes exactly the prefix up to and including the last terminal notification of its own members,
parks the notifications of other children met on the way exactly as the prompt-time `park` would (`parkF`: exits,
kills, stops and continues, anywhere in the prefix), removes the job from the table, leaves the other jobs as they
were, and reports the status carried by the last pid's notification.

Guard of the main statement: no job has group id 0 (`hz`): the loop calls `markMemberStopped … pid 0` for a stop of a
non-member.  `wait_returns_exactly_core` drops that guard and describes the queue, the four maps and the
ids / group ids / pids of the table (everything but `stoppedSet` / `status` / `isBg`); `wait_gid0_witness` shows
that the difference is real.  Unique ids (`IdsOk`) and `pids.Nodup` are not needed (the latter follows by pigeonhole).
-/

namespace Cicada.C06
open Cicada.Jobs

theorem terminal_eq_exitLike (e : Ev) : e.terminal = exitLike e := by cases e <;> rfl

theorem findGid_zero_none (s : Sh) (hz : ∀ j ∈ s.jobs, j.gid ≠ 0) : findGid s 0 = none := by
  unfold findGid
  rw [List.find?_eq_none]
  intro x hx
  simpa using hz x hx

theorem markMemberStopped_zero (s : Sh) (p : Pid) (hz : ∀ j ∈ s.jobs, j.gid ≠ 0) : markMemberStopped s p 0 = s := by
  unfold markMemberStopped
  rw [findGid_zero_none s hz]

/-- what the loop does with a notification of another child (no assumption on the table) -/
def otherF (s : Sh) : Ev → Sh
  | .exited p c => { s with reap := putMap s.reap p c }
  | .killed p g => { s with kill := putMap s.kill p g }
  | .stopped p _ => markMemberStopped { s with stop := addOnce s.stop p } p 0
  | .continued p => { s with cont := addOnce s.cont p }

theorem waitFgGo_other' (gid : Pid) (pids : List Pid) (e : Ev) (rest : List Ev) (s : Sh) (w : Nat) (st : Int)
    (hfg : C02.isFg pids e = false) (hw : w < pids.length) :
    waitFgGo gid pids (e :: rest) s w st = waitFgGo gid pids rest (otherF s e) w st := by
  have hge : ¬ w ≥ pids.length := by omega
  cases e with
  | continued p =>
    have hfg' : pids.contains p = false := hfg
    simp only [waitFgGo, Ev.pid, hfg', Bool.false_eq_true, ↓reduceIte, otherF]
  | exited p c =>
    have hfg' : pids.contains p = false := hfg
    simp only [waitFgGo, Ev.pid, hfg', Bool.false_eq_true, ↓reduceIte, false_and, hge, otherF]
  | killed p c =>
    have hfg' : pids.contains p = false := hfg
    simp only [waitFgGo, Ev.pid, hfg', Bool.false_eq_true, ↓reduceIte, false_and, hge, otherF]
  | stopped p c =>
    have hfg' : pids.contains p = false := hfg
    simp only [waitFgGo, Ev.pid, hfg', Bool.false_eq_true, ↓reduceIte, false_and, hge, otherF]

/-- one step of the loop on a notification of another child, when no job has group id 0: it is parked as `parkF` does -/
theorem waitFgGo_other (gid : Pid) (pids : List Pid) (e : Ev) (rest : List Ev) (s : Sh) (w : Nat) (st : Int)
    (hfg : C02.isFg pids e = false) (hw : w < pids.length) (hz : ∀ j ∈ s.jobs, j.gid ≠ 0) :
    waitFgGo gid pids (e :: rest) s w st = waitFgGo gid pids rest (parkF s e) w st := by
  rw [waitFgGo_other' gid pids e rest s w st hfg hw]
  cases e with
  | exited p c => rfl
  | killed p c => rfl
  | continued p => rfl
  | stopped p c =>
    simp only [otherF, parkF]
    rw [markMemberStopped_zero _ _ (by exact hz)]

/-- one step of the loop on an exit / a kill of a member -/
theorem waitFgGo_own (gid : Pid) (pids : List Pid) (e : Ev) (rest : List Ev) (s : Sh) (w : Nat) (st : Int)
    (hfg : C02.isFg pids e = true) (hx : exitLike e = true) :
    waitFgGo gid pids (e :: rest) s w st =
      if w + 1 ≥ pids.length then
        ({ removePid s gid e.pid with pending := rest }, if some e.pid = pids.getLast? then e.status else st)
      else waitFgGo gid pids rest (removePid s gid e.pid) (w + 1) (if some e.pid = pids.getLast? then e.status else st) := by
  cases e with
  | continued p => cases hx
  | stopped p c => cases hx
  | exited p c =>
    have hfg' : pids.contains p = true := hfg
    simp only [waitFgGo, Ev.pid, hfg', ↓reduceIte, true_and]
    split <;> rfl
  | killed p c =>
    have hfg' : pids.contains p = true := hfg
    simp only [waitFgGo, Ev.pid, hfg', ↓reduceIte, true_and]
    split <;> rfl

theorem parkFold_with (J : List Job) (P : List Ev) : ∀ (l : List Ev) (s : Sh),
    { l.foldl parkF s with jobs := J, pending := P } = l.foldl parkF { s with jobs := J, pending := P } := by
  intro l
  induction l with
  | nil => intro s; rfl
  | cons e rest ih =>
    intro s
    simp only [List.foldl_cons]
    rw [ih]
    cases e <;> rfl

theorem findGid_updJob (s : Sh) (gid : Pid) (j : Job) (f : Job → Job) (hf : ∀ x, (f x).gid = x.gid)
    (h : findGid s gid = some j) : findGid (updJob s j.id f) gid = some (f j) := by
  unfold findGid updJob at *
  simp only
  rw [List.find?_map]
  have : ((fun x => decide (x.gid = gid)) ∘ fun x => if x.id = j.id then f x else x) = fun x : Job => decide (x.gid = gid) := by
    funext x
    simp only [Function.comp]
    split <;> simp [hf]
  rw [this, h]
  simp

theorem filter_updMap (i : Nat) (f : Job → Job) (hf : ∀ x, (f x).id = x.id) : ∀ (l : List Job),
    (l.map fun x => if x.id = i then f x else x).filter (fun x => decide (x.id ≠ i)) = l.filter (fun x => decide (x.id ≠ i)) := by
  intro l
  induction l with
  | nil => rfl
  | cons x xs ih =>
    simp only [List.map_cons, List.filter_cons, ih]
    by_cases hx : x.id = i
    · simp [hx, hf]
    · simp [hx]


theorem removePid_more (s : Sh) (gid p : Pid) (j : Job) (hf : findGid s gid = some j) (hne : j.pids.erase p ≠ []) :
    removePid s gid p = updJob s j.id (fun x => { x with pids := j.pids.erase p }) := by
  unfold removePid
  rw [hf]
  simp only
  have : (j.pids.erase p).isEmpty = false := by simpa using hne
  simp only [this, Bool.false_eq_true, ↓reduceIte]

theorem removePid_lastOne (s : Sh) (gid p : Pid) (j : Job) (hf : findGid s gid = some j) (he : j.pids.erase p = []) :
    removePid s gid p = { s with jobs := s.jobs.filter (fun x => decide (x.id ≠ j.id)) } := by
  unfold removePid
  rw [hf]
  simp only [he, List.isEmpty_nil, ↓reduceIte]

/-- the loop, from any point of the prefix -/
theorem waitFgGo_exact (gid : Pid) (pids : List Pid) (post : List Ev) (elast : Ev) (hlast : C02.isFg pids elast = true) :
    ∀ (pre : List Ev) (s : Sh) (w : Nat) (st : Int) (j : Job),
    findGid s gid = some j → (∀ x ∈ s.jobs, x.gid ≠ 0) → j.pids.Nodup → j.pids.length + w = pids.length →
    (∀ e ∈ pre ++ [elast], C02.isFg pids e = true → exitLike e = true ∧ e.pid ∈ j.pids) →
    (((pre ++ [elast]).filter (C02.isFg pids)).map Ev.pid).Nodup →
    ((pre ++ [elast]).filter (C02.isFg pids)).length + w = pids.length →
    (waitFgGo gid pids (pre ++ elast :: post) s w st).1 =
      { (pre.filter (fun e => !C02.isFg pids e)).foldl parkF s with
          jobs := s.jobs.filter (fun x => decide (x.id ≠ j.id)), pending := post } := by
  intro pre
  induction pre with
  | nil =>
    intro s w st j hfind hz hjnd hlen hev hown hcount
    simp only [List.nil_append, List.filter_cons, hlast, ↓reduceIte, List.filter_nil, List.length_cons, List.length_nil] at hcount
    obtain ⟨hx, hm⟩ := hev elast (by simp) hlast
    rw [List.nil_append, waitFgGo_own gid pids elast post s w st hlast hx]
    have hge : w + 1 ≥ pids.length := by omega
    simp only [hge, ↓reduceIte, List.filter_nil, List.foldl_nil]
    have hl1 : j.pids.length = 1 := by omega
    have he : j.pids.erase elast.pid = [] := by
      apply List.eq_nil_of_length_eq_zero
      rw [List.length_erase_of_mem hm]; omega
    rw [removePid_lastOne s gid _ j hfind he]
  | cons e rest ih =>
    intro s w st j hfind hz hjnd hlen hev hown hcount
    have hev' : ∀ x ∈ rest ++ [elast], C02.isFg pids x = true → exitLike x = true ∧ x.pid ∈ j.pids :=
      fun x hx => hev x (by simp only [List.cons_append, List.mem_cons]; exact Or.inr hx)
    have hpos : 1 ≤ ((rest ++ [elast]).filter (C02.isFg pids)).length := by
      simp [List.filter_append, hlast]
    by_cases hfg : C02.isFg pids e = true
    · obtain ⟨hx, hm⟩ := hev e (by simp) hfg
      simp only [List.cons_append, List.filter_cons, hfg, ↓reduceIte, List.map_cons, List.nodup_cons, List.length_cons] at hown hcount
      rw [List.cons_append, waitFgGo_own gid pids e _ s w st hfg hx]
      have hge : ¬ w + 1 ≥ pids.length := by omega
      simp only [hge, ↓reduceIte]
      have hlen' : (j.pids.erase e.pid).length = j.pids.length - 1 := List.length_erase_of_mem hm
      have hne : j.pids.erase e.pid ≠ [] := by
        intro h0; rw [h0] at hlen'; simp at hlen'; omega
      rw [removePid_more s gid _ j hfind hne]
      rw [ih (updJob s j.id (fun x => { x with pids := j.pids.erase e.pid })) (w + 1) _ { j with pids := j.pids.erase e.pid }
        (findGid_updJob s gid j _ (fun _ => rfl) hfind) ?_ (hjnd.erase _) (by simp only; omega) ?_ hown.2 (by omega)]
      · simp only [List.filter_cons, hfg, Bool.not_true, Bool.false_eq_true, ↓reduceIte]
        rw [parkFold_with, parkFold_with]
        congr 1
        simp only [updJob]
        rw [filter_updMap j.id (fun x => { x with pids := j.pids.erase e.pid }) (fun _ => rfl)]
      · intro x hx
        simp only [updJob, List.mem_map] at hx
        obtain ⟨y, hy, rfl⟩ := hx
        have := hz y hy
        split <;> exact this
      · intro x hx hxf
        obtain ⟨h1, h2⟩ := hev' x hx hxf
        refine ⟨h1, ?_⟩
        simp only
        rw [List.mem_erase_of_ne]
        · exact h2
        · intro heq
          exact hown.1 (List.mem_map.mpr ⟨x, List.mem_filter.mpr ⟨hx, hxf⟩, heq⟩)
    · have hfgf : C02.isFg pids e = false := by simpa using hfg
      simp only [List.cons_append, List.filter_cons, hfgf, Bool.false_eq_true, ↓reduceIte] at hown hcount
      rw [List.cons_append, waitFgGo_other gid pids e _ s w st hfgf (by omega) hz]
      have hj : (parkF s e).jobs = s.jobs := by cases e <;> rfl
      rw [ih (parkF s e) w st j (by unfold findGid at *; rw [hj]; exact hfind) (by rw [hj]; exact hz) hjnd hlen hev' hown hcount]
      simp only [List.filter_cons, hfgf, Bool.not_false, ↓reduceIte, List.foldl_cons, hj]


/-- the status does not depend on what follows the notification that completes the count -/
theorem waitFgGo_cut (gid : Pid) (pids : List Pid) (post : List Ev) (elast : Ev) (hlast : C02.isFg pids elast = true)
    (hxl : exitLike elast = true) : ∀ (pre : List Ev) (s : Sh) (w : Nat) (st : Int),
    (∀ e ∈ pre, C02.isFg pids e = true → exitLike e = true) →
    (pre.filter (C02.isFg pids)).length + 1 + w = pids.length →
    (waitFgGo gid pids (pre ++ elast :: post) s w st).2 = (waitFgGo gid pids (pre ++ [elast]) s w st).2 := by
  intro pre
  induction pre with
  | nil =>
    intro s w st _ hcount
    simp only [List.filter_nil, List.length_nil] at hcount
    have hge : w + 1 ≥ pids.length := by omega
    rw [List.nil_append, List.nil_append, waitFgGo_own gid pids elast post s w st hlast hxl,
      waitFgGo_own gid pids elast [] s w st hlast hxl]
    simp only [hge, ↓reduceIte]
  | cons e rest ih =>
    intro s w st hev hcount
    have hev' : ∀ x ∈ rest, C02.isFg pids x = true → exitLike x = true := fun x hx => hev x (List.mem_cons_of_mem _ hx)
    by_cases hfg : C02.isFg pids e = true
    · have hx := hev e List.mem_cons_self hfg
      simp only [List.filter_cons, hfg, ↓reduceIte, List.length_cons] at hcount
      have hge : ¬ w + 1 ≥ pids.length := by omega
      rw [List.cons_append, List.cons_append, waitFgGo_own gid pids e _ s w st hfg hx, waitFgGo_own gid pids e _ s w st hfg hx]
      simp only [hge, ↓reduceIte]
      exact ih _ _ _ hev' (by omega)
    · have hfgf : C02.isFg pids e = false := by simpa using hfg
      simp only [List.filter_cons, hfgf, Bool.false_eq_true, ↓reduceIte] at hcount
      rw [List.cons_append, List.cons_append, waitFgGo_other' gid pids e _ s w st hfgf (by omega),
        waitFgGo_other' gid pids e _ s w st hfgf (by omega)]
      exact ih _ _ _ hev' hcount

/-- pigeonhole: the own notifications of the prefix carry each pid of the job exactly once -/
theorem own_perm (pids : List Pid) (l : List Ev) (hown : ((l.filter (C02.isFg pids)).map Ev.pid).Nodup)
    (hcount : (l.filter (C02.isFg pids)).length = pids.length) : ((l.filter (C02.isFg pids)).map Ev.pid).Perm pids := by
  have hsub : (l.filter (C02.isFg pids)).map Ev.pid ⊆ pids := by
    intro p hp
    obtain ⟨e, he, rfl⟩ := List.mem_map.mp hp
    have := (List.mem_filter.mp he).2
    simpa [C02.isFg] using this
  have hsp := List.subperm_of_subset hown hsub
  exact hsp.perm_of_length_le (by simp only [List.length_map]; omega)

/-- **the foreground wait, exactly** -/
theorem wait_returns_exactly (s : Sh) (gid : Pid) (pids : List Pid) (j0 : Job) (pre post : List Ev) (elast : Ev)
    (hfind : findGid s gid = some j0) (hpids : j0.pids = pids) (hne : pids ≠ [])
    (hz : ∀ j ∈ s.jobs, j.gid ≠ 0)
    (hq : s.pending = pre ++ elast :: post)
    (hlast : C02.isFg pids elast = true)
    (hterm : ∀ e ∈ pre ++ [elast], C02.isFg pids e = true → exitLike e = true)
    (hown : (((pre ++ [elast]).filter (C02.isFg pids)).map Ev.pid).Nodup)
    (hcount : ((pre ++ [elast]).filter (C02.isFg pids)).length = pids.length) :
    (waitFg s gid pids).1 =
      { (pre.filter (fun e => !C02.isFg pids e)).foldl parkF s with
          jobs := s.jobs.filter (fun x => decide (x.id ≠ j0.id)), pending := post } ∧
    ∃ el ∈ pre ++ [elast], some el.pid = pids.getLast? ∧ (waitFg s gid pids).2 = el.status := by
  have hperm := own_perm pids (pre ++ [elast]) hown hcount
  have hnd : pids.Nodup := hperm.nodup_iff.mp hown
  have hlen : 0 < pids.length := List.length_pos_iff.mpr hne
  unfold waitFg
  simp only [hne, ↓reduceIte]
  rw [hq]
  refine ⟨?_, ?_⟩
  · apply waitFgGo_exact gid pids post elast hlast pre s 0 0 j0 hfind hz (by rw [hpids]; exact hnd) (by rw [hpids]; rfl) ?_ hown
      (by omega)
    intro e he hfg
    refine ⟨hterm e he hfg, ?_⟩
    rw [hpids]
    simpa [C02.isFg] using hfg
  · have hxl := hterm elast (by simp) hlast
    have hcount' : (pre.filter (C02.isFg pids)).length + 1 + 0 = pids.length := by
      simpa [List.filter_append, hlast] using hcount
    rw [waitFgGo_cut gid pids post elast hlast hxl pre s 0 0
      (fun e he => hterm e (List.mem_append_left _ he)) hcount']
    rw [C02.waitFgGo_status gid pids (pre ++ [elast]) s 0 0
      (fun e he hfg => by rw [terminal_eq_exitLike]; exact hterm e he hfg) hown (by omega) hlen]
    obtain ⟨pl, hpl⟩ : ∃ pl, pids.getLast? = some pl := by
      cases h : pids.getLast? with
      | none => simp [List.getLast?_eq_none_iff] at h; exact absurd h hne
      | some x => exact ⟨x, rfl⟩
    have hplm : pl ∈ pids := by
      obtain ⟨ys, rfl⟩ := List.getLast?_eq_some_iff.mp hpl; simp
    obtain ⟨el, hel, hep⟩ := List.mem_map.mp (hperm.symm.subset hplm)
    obtain ⟨hel1, hel2⟩ := List.mem_filter.mp hel
    have hle : C02.isLastEv pids el = true := by simp [C02.isLastEv, hel2, hep, hpl]
    cases hf : (pre ++ [elast]).find? (C02.isLastEv pids) with
    | none => exact absurd hle (by simpa using List.find?_eq_none.mp hf el hel1)
    | some e' =>
      have he'm := List.mem_of_find?_eq_some hf
      have he'l := List.find?_some hf
      simp only [C02.isLastEv, Bool.and_eq_true, beq_iff_eq] at he'l
      exact ⟨e', he'm, he'l.2, rfl⟩


/-! ### without the guard "no job has group id 0": the same, up to the stop bookkeeping of the jobs

A stop of another child met by the loop calls `markMemberStopped … pid 0`; if some job has group id 0 its `stoppedSet`
(and possibly `status` / `isBg`) change.  Ids, group ids and pids do not. -/

/-- what the table shows of a job apart from the stop bookkeeping -/
def jobCore (j : Job) : Nat × Pid × List Pid := (j.id, j.gid, j.pids)

theorem core_updMap (i : Nat) (f : Job → Job) (hf : ∀ x, jobCore (f x) = jobCore x) (l : List Job) :
    (l.map fun x => if x.id = i then f x else x).map jobCore = l.map jobCore := by
  rw [List.map_map]
  apply List.map_congr_left
  intro x _
  simp only [Function.comp]
  split
  · exact hf x
  · rfl

theorem ite_jobs_core (c : Prop) [Decidable c] (a b : Sh) (L : List (Nat × Pid × List Pid))
    (ha : a.jobs.map jobCore = L) (hb : b.jobs.map jobCore = L) : (if c then a else b).jobs.map jobCore = L := by
  split <;> assumption

theorem updJob_core (s : Sh) (i : Nat) (f : Job → Job) (hf : ∀ x, jobCore (f x) = jobCore x) :
    (updJob s i f).jobs.map jobCore = s.jobs.map jobCore := core_updMap i f hf s.jobs

theorem markMemberStopped_core (s : Sh) (p g : Pid) : (markMemberStopped s p g).jobs.map jobCore = s.jobs.map jobCore := by
  unfold markMemberStopped
  cases findGid s g with
  | none => rfl
  | some j =>
    apply ite_jobs_core
    · refine (updJob_core _ _ _ ?_).trans (updJob_core _ _ _ ?_) <;> intro x <;> rfl
    · refine updJob_core _ _ _ ?_
      intro x; rfl

theorem findGid_core (s s' : Sh) (gid : Pid) (j : Job) (h : s'.jobs.map jobCore = s.jobs.map jobCore) (hf : findGid s gid = some j) :
    ∃ j', findGid s' gid = some j' ∧ jobCore j' = jobCore j := by
  have key : ∀ (l : List Job), (l.find? (fun x => decide (x.gid = gid))).map jobCore =
      (l.map jobCore).find? (fun c => decide (c.2.1 = gid)) := by
    intro l; rw [List.find?_map]; rfl
  have h1 := key s'.jobs
  rw [h, ← key s.jobs] at h1
  unfold findGid at hf ⊢
  rw [hf] at h1
  cases hf' : s'.jobs.find? (fun x => decide (x.gid = gid)) with
  | none => rw [hf'] at h1; cases h1
  | some j' =>
    rw [hf'] at h1
    exact ⟨j', rfl, by simpa using h1⟩

theorem filter_core (a b : List Job) (i : Nat) (h : a.map jobCore = b.map jobCore) :
    (a.filter (fun x => decide (x.id ≠ i))).map jobCore = (b.filter (fun x => decide (x.id ≠ i))).map jobCore := by
  have key : ∀ (l : List Job), (l.filter (fun x => decide (x.id ≠ i))).map jobCore =
      (l.map jobCore).filter (fun c => decide (c.1 ≠ i)) := by
    intro l; rw [List.filter_map]; rfl
  rw [key, key, h]

theorem parkFold_jobs (J : List Job) : ∀ (l : List Ev) (s : Sh),
    { l.foldl parkF s with jobs := J } = l.foldl parkF { s with jobs := J } := by
  intro l
  induction l with
  | nil => intro s; rfl
  | cons e rest ih =>
    intro s
    simp only [List.foldl_cons]
    rw [ih]
    cases e <;> rfl

theorem otherF_parkF (s : Sh) (e : Ev) :
    otherF s e = { parkF s e with jobs := (otherF s e).jobs } ∧ (otherF s e).jobs.map jobCore = s.jobs.map jobCore := by
  cases e with
  | exited p c => exact ⟨rfl, rfl⟩
  | killed p c => exact ⟨rfl, rfl⟩
  | continued p => exact ⟨rfl, rfl⟩
  | stopped p c =>
    exact ⟨markMemberStopped_only_jobs _ p 0, markMemberStopped_core _ p 0⟩

/-- the loop, from any point of the prefix, without the guard on group id 0 -/
theorem waitFgGo_exact_core (gid : Pid) (pids : List Pid) (post : List Ev) (elast : Ev) (hlast : C02.isFg pids elast = true) :
    ∀ (pre : List Ev) (s : Sh) (w : Nat) (st : Int) (j : Job),
    findGid s gid = some j → j.pids.Nodup → j.pids.length + w = pids.length →
    (∀ e ∈ pre ++ [elast], C02.isFg pids e = true → exitLike e = true ∧ e.pid ∈ j.pids) →
    (((pre ++ [elast]).filter (C02.isFg pids)).map Ev.pid).Nodup →
    ((pre ++ [elast]).filter (C02.isFg pids)).length + w = pids.length →
    (waitFgGo gid pids (pre ++ elast :: post) s w st).1.pending = post ∧
    (waitFgGo gid pids (pre ++ elast :: post) s w st).1.reap = ((pre.filter (fun e => !C02.isFg pids e)).foldl parkF s).reap ∧
    (waitFgGo gid pids (pre ++ elast :: post) s w st).1.kill = ((pre.filter (fun e => !C02.isFg pids e)).foldl parkF s).kill ∧
    (waitFgGo gid pids (pre ++ elast :: post) s w st).1.stop = ((pre.filter (fun e => !C02.isFg pids e)).foldl parkF s).stop ∧
    (waitFgGo gid pids (pre ++ elast :: post) s w st).1.cont = ((pre.filter (fun e => !C02.isFg pids e)).foldl parkF s).cont ∧
    (waitFgGo gid pids (pre ++ elast :: post) s w st).1.jobs.map jobCore =
      (s.jobs.filter (fun x => decide (x.id ≠ j.id))).map jobCore := by
  intro pre
  induction pre with
  | nil =>
    intro s w st j hfind hjnd hlen hev hown hcount
    simp only [List.nil_append, List.filter_cons, hlast, ↓reduceIte, List.filter_nil, List.length_cons, List.length_nil] at hcount
    obtain ⟨hx, hm⟩ := hev elast (by simp) hlast
    rw [List.nil_append, waitFgGo_own gid pids elast post s w st hlast hx]
    have hge : w + 1 ≥ pids.length := by omega
    rw [if_pos hge]
    have he : j.pids.erase elast.pid = [] := by
      apply List.eq_nil_of_length_eq_zero
      rw [List.length_erase_of_mem hm]; omega
    rw [removePid_lastOne s gid _ j hfind he]
    exact ⟨rfl, rfl, rfl, rfl, rfl, rfl⟩
  | cons e rest ih =>
    intro s w st j hfind hjnd hlen hev hown hcount
    have hev' : ∀ x ∈ rest ++ [elast], C02.isFg pids x = true → exitLike x = true ∧ x.pid ∈ j.pids :=
      fun x hx => hev x (by simp only [List.cons_append, List.mem_cons]; exact Or.inr hx)
    have hpos : 1 ≤ ((rest ++ [elast]).filter (C02.isFg pids)).length := by
      simp [List.filter_append, hlast]
    by_cases hfg : C02.isFg pids e = true
    · obtain ⟨hx, hm⟩ := hev e (by simp) hfg
      simp only [List.cons_append, List.filter_cons, hfg, ↓reduceIte, List.map_cons, List.nodup_cons, List.length_cons] at hown hcount
      rw [List.cons_append, waitFgGo_own gid pids e _ s w st hfg hx]
      have hge : ¬ w + 1 ≥ pids.length := by omega
      simp only [hge, ↓reduceIte]
      have hlen' : (j.pids.erase e.pid).length = j.pids.length - 1 := List.length_erase_of_mem hm
      have hne : j.pids.erase e.pid ≠ [] := by
        intro h0; rw [h0] at hlen'; simp at hlen'; omega
      rw [removePid_more s gid _ j hfind hne]
      have hI := ih (updJob s j.id (fun x => { x with pids := j.pids.erase e.pid })) (w + 1)
        (if some e.pid = pids.getLast? then e.status else st) { j with pids := j.pids.erase e.pid }
        (findGid_updJob s gid j _ (fun _ => rfl) hfind) (hjnd.erase _) (by simp only; omega) ?_ hown.2 (by omega)
      · have hF : ∀ l : List Ev, l.foldl parkF (updJob s j.id (fun x => { x with pids := j.pids.erase e.pid })) =
            { l.foldl parkF s with jobs := (updJob s j.id (fun x => { x with pids := j.pids.erase e.pid })).jobs } :=
          fun l => (parkFold_jobs _ l s).symm
        rw [hF] at hI
        simp only [List.filter_cons, hfg, Bool.not_true, Bool.false_eq_true, ↓reduceIte]
        obtain ⟨h1, h2, h3, h4, h5, h6⟩ := hI
        refine ⟨h1, h2, h3, h4, h5, ?_⟩
        rw [h6]
        simp only [updJob]
        rw [filter_updMap j.id (fun x => { x with pids := j.pids.erase e.pid }) (fun _ => rfl)]
      · intro x hx hxf
        obtain ⟨h1, h2⟩ := hev' x hx hxf
        refine ⟨h1, ?_⟩
        simp only
        rw [List.mem_erase_of_ne]
        · exact h2
        · intro heq
          exact hown.1 (List.mem_map.mpr ⟨x, List.mem_filter.mpr ⟨hx, hxf⟩, heq⟩)
    · have hfgf : C02.isFg pids e = false := by simpa using hfg
      simp only [List.cons_append, List.filter_cons, hfgf, Bool.false_eq_true, ↓reduceIte] at hown hcount
      rw [List.cons_append, waitFgGo_other' gid pids e _ s w st hfgf (by omega)]
      obtain ⟨ho1, ho2⟩ := otherF_parkF s e
      obtain ⟨j', hf', hc'⟩ := findGid_core s (otherF s e) gid j ho2 hfind
      have hid : j'.id = j.id := congrArg (·.1) hc'
      have hpd : j'.pids = j.pids := congrArg (·.2.2) hc'
      have hI := ih (otherF s e) w st j' hf' (by rw [hpd]; exact hjnd) (by rw [hpd]; exact hlen)
        (by rw [hpd]; exact hev') hown hcount
      have hF : ∀ l : List Ev, l.foldl parkF (otherF s e) = { l.foldl parkF (parkF s e) with jobs := (otherF s e).jobs } :=
        fun l => (congrArg (fun x => List.foldl parkF x l) ho1).trans (parkFold_jobs _ l _).symm
      rw [hF] at hI
      simp only [List.filter_cons, hfgf, Bool.not_false, ↓reduceIte, List.foldl_cons]
      obtain ⟨h1, h2, h3, h4, h5, h6⟩ := hI
      refine ⟨h1, h2, h3, h4, h5, ?_⟩
      rw [h6, hid]
      exact filter_core _ _ _ ho2

/-- `wait_returns_exactly` without the guard "no job has group id 0": the same description of the pending queue, of the
four maps and of the ids, group ids and pids of the table (the `stoppedSet` / `status` / `isBg` of a job with group id 0
may have been touched by a stop of another child met on the way) -/
theorem wait_returns_exactly_core (s : Sh) (gid : Pid) (pids : List Pid) (j0 : Job) (pre post : List Ev) (elast : Ev)
    (hfind : findGid s gid = some j0) (hpids : j0.pids = pids) (hne : pids ≠ [])
    (hq : s.pending = pre ++ elast :: post)
    (hlast : C02.isFg pids elast = true)
    (hterm : ∀ e ∈ pre ++ [elast], C02.isFg pids e = true → exitLike e = true)
    (hown : (((pre ++ [elast]).filter (C02.isFg pids)).map Ev.pid).Nodup)
    (hcount : ((pre ++ [elast]).filter (C02.isFg pids)).length = pids.length) :
    (waitFg s gid pids).1.pending = post ∧
    (waitFg s gid pids).1.reap = ((pre.filter (fun e => !C02.isFg pids e)).foldl parkF s).reap ∧
    (waitFg s gid pids).1.kill = ((pre.filter (fun e => !C02.isFg pids e)).foldl parkF s).kill ∧
    (waitFg s gid pids).1.stop = ((pre.filter (fun e => !C02.isFg pids e)).foldl parkF s).stop ∧
    (waitFg s gid pids).1.cont = ((pre.filter (fun e => !C02.isFg pids e)).foldl parkF s).cont ∧
    (waitFg s gid pids).1.jobs.map (fun j => (j.id, j.gid, j.pids)) =
      (s.jobs.filter (fun x => decide (x.id ≠ j0.id))).map (fun j => (j.id, j.gid, j.pids)) := by
  have hperm := own_perm pids (pre ++ [elast]) hown hcount
  have hnd : pids.Nodup := hperm.nodup_iff.mp hown
  unfold waitFg
  simp only [hne, ↓reduceIte]
  rw [hq]
  apply waitFgGo_exact_core gid pids post elast hlast pre s 0 0 j0 hfind (by rw [hpids]; exact hnd) (by rw [hpids]; rfl) ?_ hown
    (by omega)
  intro e he hfg
  refine ⟨hterm e he hfg, ?_⟩
  rw [hpids]
  simpa [C02.isFg] using hfg

/-! ### non-vacuity -/

def waitExJ1 : Job := { id := 1, gid := 11, pids := [11, 12, 13] }
def waitExJ2 : Job := { id := 2, gid := 50, pids := [50] }
def waitExPre : List Ev := [.exited 13 5, .exited 50 1, .stopped 77 19, .killed 11 9]
def waitExPost : List Ev := [.exited 50 7, .continued 50]
def waitExS : Sh := { jobs := [waitExJ1, waitExJ2], pending := waitExPre ++ Ev.exited 12 0 :: waitExPost }

/-- the example satisfies every hypothesis of `wait_returns_exactly` -/
example :
    findGid waitExS 11 = some waitExJ1 ∧ waitExJ1.pids = [11, 12, 13] ∧ [11, 12, 13] ≠ ([] : List Pid) ∧
    (∀ j ∈ waitExS.jobs, j.gid ≠ 0) ∧
    waitExS.pending = waitExPre ++ Ev.exited 12 0 :: waitExPost ∧
    C02.isFg [11, 12, 13] (.exited 12 0) = true ∧
    (∀ e ∈ waitExPre ++ [Ev.exited 12 0], C02.isFg [11, 12, 13] e = true → exitLike e = true) ∧
    (((waitExPre ++ [Ev.exited 12 0]).filter (C02.isFg [11, 12, 13])).map Ev.pid).Nodup ∧
    ((waitExPre ++ [Ev.exited 12 0]).filter (C02.isFg [11, 12, 13])).length = [11, 12, 13].length := by decide

/-- the concrete result -/
example :
    (waitFg waitExS 11 [11, 12, 13]).2 = 5 ∧
    (waitFg waitExS 11 [11, 12, 13]).1.pending = [.exited 50 7, .continued 50] ∧
    (waitFg waitExS 11 [11, 12, 13]).1.reap = [(50, 1)] ∧
    (waitFg waitExS 11 [11, 12, 13]).1.kill = [] ∧
    (waitFg waitExS 11 [11, 12, 13]).1.stop = [77] ∧
    (waitFg waitExS 11 [11, 12, 13]).1.cont = [] ∧
    (waitFg waitExS 11 [11, 12, 13]).1.jobs = [waitExJ2] := by decide

/-- the theorem applied to the example -/
example : (waitFg waitExS 11 [11, 12, 13]).1 =
    { (waitExPre.filter (fun e => !C02.isFg [11, 12, 13] e)).foldl parkF waitExS with
        jobs := waitExS.jobs.filter (fun x => decide (x.id ≠ waitExJ1.id)), pending := waitExPost } :=
  (wait_returns_exactly waitExS 11 [11, 12, 13] waitExJ1 waitExPre waitExPost (.exited 12 0)
    (by decide) (by decide) (by decide) (by decide) (by decide) (by decide) (by decide) (by decide) (by decide)).1

/-- without the guard `hz` the full equality fails: with a job of group id 0 in the table, a stop of an unrelated child
(pid 77) consumed by the wait for job 1 lands in that job's `stoppedSet` (and, here, flips it to "Stopped") — the model
(= the implementation: `mark_job_member_stopped(pid, 0)`) — while the hypotheses of `wait_returns_exactly_core` hold -/
theorem wait_gid0_witness :
    let s : Sh := { jobs := [waitExJ1, { id := 2, gid := 0, pids := [77] }],
                    pending := [.stopped 77 19, .exited 13 5, .killed 11 9, .exited 12 0] }
    (waitFg s 11 [11, 12, 13]).1.jobs = [{ id := 2, gid := 0, pids := [77], stoppedSet := [77], status := "Stopped", isBg := true }] ∧
    (waitFg s 11 [11, 12, 13]).1.stop = [77] ∧ (waitFg s 11 [11, 12, 13]).2 = 5 ∧
    findGid s 11 = some waitExJ1 ∧
    (((([.stopped 77 19, .exited 13 5, .killed 11 9] : List Ev) ++ [Ev.exited 12 0]).filter (C02.isFg [11, 12, 13])).map Ev.pid).Nodup := by
  decide

end Cicada.C06
