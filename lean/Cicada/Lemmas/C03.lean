import Cicada.Spec.C03
/-! Helper lemmas for C03: `line_to_cmds` on list-safe segments, and the loop refinement. -/
namespace Cicada.C03
open Cicada Cicada.L2C

def qsep : Option Char → Str
  | none => []
  | some q => [q]

def isQuoteChar (c : Char) : Prop := c = '\'' ∨ c = '"' ∨ c = '`'

/-- state after having appended `seg` to the token, back outside quotes -/
def after (s : S) (bs : Bool) (seg : Str) : S :=
  { result := s.result, sep := [], token := s.token ++ (if bs then ['\\'] else []) ++ seg, bs := false, stop := false }

theorem go_safe (seg : Str) :
    ∀ (q : Option Char) (bs : Bool) (s : S) (rest : Str), safeSeg q bs seg = true →
      (∀ c, q = some c → isQuoteChar c) →
      s.stop = false → s.bs = bs → s.sep = qsep q →
      go s (seg ++ rest) = go (after s bs seg) rest := by
  induction seg with
  | nil =>
    intro q bs s rest h hq h1 h2 h3
    cases q <;> cases bs <;> simp [safeSeg] at h
    cases s; simp_all [after, qsep]
  | cons c cs ih =>
    intro q bs s rest h hq h1 h2 h3
    simp only [List.cons_append, go]
    cases bs with
    | true =>
      have e : ∀ n, step s c n = { s with token := s.token ++ ['\\', c], bs := false } := by
        intro n; simp [step, h1, h2]
      rw [e]
      have h' : safeSeg q false cs = true := by
        cases q <;> simpa [safeSeg] using h
      rw [ih q false _ rest h' hq (by simpa using h1) (by simp) (by simpa using h3)]
      simp [after, List.append_assoc]
    | false =>
      cases q with
      | none =>
        simp only [safeSeg] at h
        by_cases c1 : c = '\\'
        · simp only [c1, ↓reduceIte] at h
          have e : ∀ n, step s c n = { s with bs := true } := by
            intro n; simp [step, h1, h2, h3, qsep, c1]
          rw [e, ih none true _ rest h hq (by simpa using h1) (by simp) (by simpa using h3)]
          simp [after, c1]
        · simp only [c1, ↓reduceIte] at h
          by_cases c2 : c = '\'' ∨ c = '"' ∨ c = '`'
          · simp only [c2, ↓reduceIte] at h
            have e : ∀ n, step s c n = { s with sep := [c], token := s.token ++ [c] } := by
              intro n
              have : c ≠ '#' := by rcases c2 with h | h | h <;> (subst h; decide)
              simp [step, h1, h2, h3, qsep, c1, this, c2]
            rw [e, ih (some c) false _ rest h (by intro c' hc'; cases hc'; exact c2)
              (by simpa using h1) (by simpa using h2) (by simp [qsep])]
            simp [after, List.append_assoc]
          · simp only [c2, ↓reduceIte] at h
            by_cases c3 : c = '#' ∨ c = ';'
            · simp [c3] at h
            · simp only [c3, ↓reduceIte] at h
              by_cases c4 : c = '&' ∨ c = '|'
              · simp only [c4, ↓reduceIte] at h
                cases cs with
                | nil => simp at h
                | cons d ds =>
                  simp only at h
                  by_cases c5 : d = c
                  · simp [c5] at h
                  · simp only [c5, ↓reduceIte] at h
                    have e : step s c ((d :: ds ++ rest).head?) = { s with token := s.token ++ [c] } := by
                      simp only [not_or] at c2 c3
                      simp [step, h1, h2, h3, qsep, c1, c2, c3, c4, c5]
                    rw [e, ih none false _ rest h hq (by simpa using h1) (by simpa using h2) (by simpa using h3)]
                    simp [after, List.append_assoc]
              · simp only [c4, ↓reduceIte] at h
                have e : ∀ n, step s c n = { s with token := s.token ++ [c] } := by
                  intro n
                  simp only [not_or] at c2 c3 c4
                  simp [step, h1, h2, c1, c2, c3, c4]
                rw [e, ih none false _ rest h hq (by simpa using h1) (by simpa using h2) (by simpa using h3)]
                simp [after, List.append_assoc]
      | some q =>
        have hqq := hq q rfl
        have hq5 : q ≠ '#' := by rcases hqq with h | h | h <;> (subst h; decide)
        have hq6 : q ≠ '\\' := by rcases hqq with h | h | h <;> (subst h; decide)
        have hq7 : q ≠ '&' ∧ q ≠ '|' ∧ q ≠ ';' := by rcases hqq with h | h | h <;> (subst h; decide)
        simp only [safeSeg] at h
        by_cases c1 : c = q
        · simp only [c1, ↓reduceIte] at h
          have e : ∀ n, step s c n = { s with sep := [], token := s.token ++ [c] } := by
            intro n
            subst c1
            simp [step, h1, h2, h3, qsep, hq5, hq6]
            rcases hqq with h | h | h <;> simp [h]
          rw [e, ih none false _ rest h (by intro c' hc'; cases hc') (by simpa using h1) (by simpa using h2) (by simp [qsep])]
          simp [after, List.append_assoc]
        · simp only [c1, ↓reduceIte] at h
          by_cases c2 : c = '\\' ∧ q ≠ '\''
          · rw [if_pos c2] at h
            have e : ∀ n, step s c n = { s with bs := true } := by
              intro n; simp [step, h1, h2, h3, qsep, c2.1, c2.2]
            rw [e, ih (some q) true _ rest h hq (by simpa using h1) (by simp) (by simpa using h3)]
            simp [after, c2.1]
          · rw [if_neg c2] at h
            have e : ∀ n, step s c n = { s with token := s.token ++ [c] } := by
              intro n
              have hne : ¬ (c = '\\' ∧ ¬ [q] = ['\'']) := by
                intro ⟨a, b⟩; apply c2; exact ⟨a, by intro hq'; apply b; rw [hq']⟩
              have hqne : ¬ [q] = [c] := by intro h'; apply c1; simp at h'; exact h'.symm
              simp only [step, h1, h2, h3, qsep]
              simp [hqne]
              rcases hqq with h | h | h <;> subst h <;> simp_all
            rw [e, ih (some q) false _ rest h hq (by simpa using h1) (by simpa using h2) (by simpa using h3)]
            simp [after, List.append_assoc]

end Cicada.C03

namespace Cicada.C03
open Cicada Cicada.L2C

def itemsRest : List (ListOp × Str) → List Str
  | [] => []
  | (o, seg) :: rest => o.text :: trim seg :: itemsRest rest

/-- the list `line_to_cmds` is expected to produce for a program -/
def items (p : Prog) : List Str := trim p.first :: itemsRest p.rest

def renderRest (rest : List (ListOp × Str)) : Str :=
  (rest.map (fun (o, seg) => o.text ++ seg)).flatten

theorem go_op (s : S) (o : ListOp) (rest : Str) (h1 : s.stop = false) (h2 : s.bs = false) (h3 : s.sep = []) :
    go s (o.text ++ rest) =
      go { result := pushTrim s.result s.token ++ [o.text], sep := [], token := [], bs := false, stop := false } rest := by
  cases o with
  | semi =>
    simp only [ListOp.text, List.cons_append, List.nil_append, go]
    congr 1
    cases s; simp_all [step]
  | and =>
    simp only [ListOp.text, List.cons_append, List.nil_append, go, List.head?_cons]
    congr 1
    cases s; simp_all [step]
  | or =>
    simp only [ListOp.text, List.cons_append, List.nil_append, go, List.head?_cons]
    congr 1
    cases s; simp_all [step]

theorem trim_ne_nil_of {t : Str} (h : (trim t).isEmpty = false) : t ≠ [] := by
  intro e; subst e; simp [trim, trimR, trimL] at h

theorem finish_go_rest (rest : List (ListOp × Str)) :
    ∀ (s : S), s.stop = false → s.bs = false → s.sep = [] → (trim s.token).isEmpty = false →
      (rest.all (fun x => segOk x.2) = true) →
      finish (go s (renderRest rest)) = s.result ++ [trim s.token] ++ itemsRest rest := by
  induction rest with
  | nil =>
    intro s h1 h2 h3 h4 _
    have : s.token ≠ [] := trim_ne_nil_of h4
    simp [renderRest, go, finish, itemsRest, this]
  | cons x rest ih =>
    intro s h1 h2 h3 h4 hall
    obtain ⟨o, seg⟩ := x
    simp only [List.all_cons, Bool.and_eq_true] at hall
    obtain ⟨hseg, hrest⟩ := hall
    simp only [segOk, Bool.and_eq_true, Bool.not_eq_true'] at hseg
    obtain ⟨⟨hs1, hs2⟩, _⟩ := hseg
    have e : renderRest ((o, seg) :: rest) = o.text ++ (seg ++ renderRest rest) := by
      simp [renderRest, List.append_assoc]
    rw [e, go_op s o _ h1 h2 h3]
    rw [go_safe seg none false _ _ hs1 (by intro c hc; cases hc) rfl rfl rfl]
    rw [ih _ rfl rfl rfl (by simpa [after] using hs2) hrest]
    have hp : pushTrim s.result s.token = s.result ++ [trim s.token] := by
      simp [pushTrim, h4]
    simp [after, hp, itemsRest, List.append_assoc]

theorem lineToCmds_render (p : Prog) (hg : guard p = true) : lineToCmds (render p) = items p := by
  simp only [guard, Bool.and_eq_true] at hg
  obtain ⟨hf, hr⟩ := hg
  simp only [segOk, Bool.and_eq_true, Bool.not_eq_true'] at hf
  obtain ⟨⟨hf1, hf2⟩, _⟩ := hf
  have e : render p = p.first ++ renderRest p.rest := by simp [render, renderRest]
  rw [lineToCmds, e, go_safe p.first none false {} _ hf1 (by intro c hc; cases hc) rfl rfl rfl]
  rw [finish_go_rest p.rest _ rfl rfl rfl (by simpa [after] using hf2) hr]
  simp [after, items]

/-! ### the loop refines the reference semantics on item lists of that shape -/

theorem isListSep_text (o : ListOp) : isListSep o.text = true := by cases o <;> decide

theorem runItems_rest {σ} (run : σ → Str → σ × Int) (rest : List (ListOp × Str)) :
    ∀ (st : LoopSt σ), (rest.all (fun x => segOk x.2) = true) →
      ofLoop (runItems run st (itemsRest rest)) = specRest run (ofLoop st) rest := by
  induction rest with
  | nil => intro st _; simp [itemsRest, runItems, specRest]
  | cons x rest ih =>
    intro st hall
    obtain ⟨o, seg⟩ := x
    simp only [List.all_cons, Bool.and_eq_true] at hall
    obtain ⟨hseg, hrest⟩ := hall
    simp only [segOk, Bool.and_eq_true, Bool.not_eq_true'] at hseg
    obtain ⟨_, hns⟩ := hseg
    simp only [itemsRest, runItems, isListSep_text, ↓reduceIte, hns, Bool.false_eq_true]
    cases o with
    | semi =>
      simp only [ListOp.text, specRest]
      have a1 : ¬ (([';'] : Str) = ['&', '&']) := by decide
      have a2 : ¬ (([';'] : Str) = ['|', '|']) := by decide
      simp only [a1, a2, false_and, ↓reduceIte]
      rw [ih _ hrest]; simp [ofLoop]
    | and =>
      simp only [ListOp.text, specRest, true_and]
      have a2 : ¬ ((['&', '&'] : Str) = ['|', '|']) := by decide
      simp only [a2, false_and, ↓reduceIte]
      by_cases hz : st.status = 0
      · simp only [hz, ne_eq, not_true_eq_false, ↓reduceIte]
        rw [ih _ hrest]; simp [ofLoop, hz]
      · simp only [ne_eq, hz, not_false_eq_true, ↓reduceIte]
        rw [ih _ hrest]; simp [ofLoop, hz]
    | or =>
      simp only [ListOp.text, specRest, true_and]
      have a1 : ¬ ((['|', '|'] : Str) = ['&', '&']) := by decide
      simp only [a1, false_and, ↓reduceIte]
      by_cases hz : st.status = 0
      · simp only [hz, ↓reduceIte]
        rw [ih _ hrest]; simp [ofLoop, hz]
      · simp only [hz, ↓reduceIte]
        rw [ih _ hrest]; simp [ofLoop, hz]

end Cicada.C03
