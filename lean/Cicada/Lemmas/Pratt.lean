import Cicada.Model.Calc
/-! Pratt round trip (pest's `expr / nud / led` loop with cicada's table): parsing the flat form of any
tree that standard precedence and associativity print without parentheses returns that tree. -/
namespace Cicada.Calc
variable {α : Type}

/-- flat form: first atom and the (operator, atom) tail -/
def hd : E α → α
  | .atom a => a
  | .bin _ l _ => hd l
def tl : E α → List (Op × α)
  | .atom _ => []
  | .bin o l r => tl l ++ (o, hd r) :: tl r

def rootPrec : E α → Nat
  | .atom _ => 1000
  | .bin o _ _ => prec o
def rootRbp : E α → Nat
  | .atom _ => 1000
  | .bin o _ _ => rbpOf o

/-- a tree that standard precedence / associativity prints without parentheses -/
def WF : E α → Prop
  | .atom _ => True
  | .bin o l r => WF l ∧ WF r ∧
      (prec o < rootPrec l ∨ (prec o = rootPrec l ∧ rightAssoc o = false)) ∧
      (prec o < rootPrec r ∨ (prec o = rootPrec r ∧ rightAssoc o = true))

def stops (rbp : Nat) : List (Op × α) → Prop
  | [] => True
  | (o, _) :: _ => prec o ≤ rbp

def size : E α → Nat
  | .atom _ => 1
  | .bin _ l r => size l + size r + 1

theorem loop_mono (f : Nat) (lhs : E α) (rbp : Nat) (rest : List (Op × α)) (res) :
    loop f lhs rbp rest = some res → loop (f + 1) lhs rbp rest = some res := by
  induction f generalizing lhs rbp rest res with
  | zero => simp [loop]
  | succ n ih =>
    cases rest with
    | nil => simp [loop]
    | cons p rest =>
      obtain ⟨o, a⟩ := p
      simp only [loop]
      split
      · cases h1 : loop n (E.atom a) (rbpOf o) rest with
        | none => simp
        | some r1 =>
          obtain ⟨rhs, rest'⟩ := r1
          simp only [ih _ _ _ _ h1]
          intro h2
          exact ih _ _ _ _ h2
      · simp

theorem loop_mono' (f g : Nat) (h : f ≤ g) (lhs : E α) (rbp) (rest) (res) :
    loop f lhs rbp rest = some res → loop g lhs rbp rest = some res := by
  induction h with
  | refl => exact id
  | step _ ih => exact fun h => loop_mono _ _ _ _ _ (ih h)

/-- the facts about the Pratt table of `calculator/mod.rs` that the proof uses; checked by `decide` over
`Generated.prattLevels`, so editing the table in the source breaks this obligation -/
theorem table_facts : prec .add = 10 ∧ prec .sub = 10 ∧ prec .mul = 20 ∧ prec .div = 20 ∧ prec .pow = 30 ∧
    rightAssoc .pow = true ∧ rightAssoc .add = false ∧ rightAssoc .sub = false ∧ rightAssoc .mul = false ∧ rightAssoc .div = false := by
  decide

theorem prec_cases (o : Op) : (prec o = 10 ∨ prec o = 20 ∨ prec o = 30) := by
  obtain ⟨h1, h2, h3, h4, h5, _⟩ := table_facts
  cases o <;> simp [h1, h2, h3, h4, h5]

/-- key lemma: absorbing a whole parenthesis-free tree and continuing the loop -/
theorem absorb (e : E α) : ∀ (rbp : Nat) (k : List (Op × α)) (res), WF e → rbp < rootPrec e →
    stops (rootRbp e) k →
    ∀ f, loop f e rbp k = some res →
    ∃ g, loop g (.atom (hd e)) rbp (tl e ++ k) = some res := by
  induction e with
  | atom a => intro rbp k res _ _ _ f h; exact ⟨f, by simpa [hd, tl] using h⟩
  | bin o l r ihl ihr =>
    intro rbp k res hwf hlt hst f h
    obtain ⟨wl, wr, cl, cr⟩ := hwf
    simp only [rootPrec] at hlt
    -- parse r at rbpOf o, then continue with bin o l r
    have hr_lt : rbpOf o < rootPrec r := by
      unfold rbpOf; rcases cr with h1 | ⟨h1, h2⟩
      · split <;> omega
      · simp [h2]; have := prec_cases o; omega
    have hst_r : stops (rootRbp r) k := by
      cases k with
      | nil => trivial
      | cons p k =>
        obtain ⟨o', a'⟩ := p
        simp only [stops, rootRbp] at hst ⊢
        cases r with
        | atom _ => simp [rootRbp]; have := prec_cases o'; omega
        | bin o2 _ _ =>
          simp only [rootRbp, rootPrec] at cr ⊢
          have := prec_cases o; have := prec_cases o2
          unfold rbpOf at hst ⊢
          rcases cr with h1 | ⟨h1, h2⟩
          · split at hst <;> split <;> omega
          · have : rightAssoc o2 = true := by
              obtain ⟨t1, t2, t3, t4, t5, t6, t7, t8, t9, t10⟩ := table_facts
              cases o <;> cases o2 <;> simp_all
            simp [this, h2] at hst ⊢; omega
    have stop_r : loop 1 r (rbpOf o) k = some (r, k) := by
      cases k with
      | nil => simp [loop]
      | cons p k =>
        obtain ⟨o', a'⟩ := p
        simp only [stops, rootRbp] at hst
        simp [loop]; omega
    obtain ⟨g1, hg1⟩ := ihr (rbpOf o) k (r, k) wr hr_lt hst_r 1 stop_r
    -- one loop step at the level of l
    have step : loop (max g1 f + 1) l rbp ((o, hd r) :: (tl r ++ k)) = some res := by
      simp only [loop, hlt, if_true]
      rw [loop_mono' g1 (max g1 f) (Nat.le_max_left _ _) _ _ _ _ hg1]
      exact loop_mono' f (max g1 f) (Nat.le_max_right _ _) _ _ _ _ h
    have hl_lt : rbp < rootPrec l := by
      rcases cl with h1 | ⟨h1, _⟩ <;> omega
    have hst_l : stops (rootRbp l) ((o, hd r) :: (tl r ++ k)) := by
      simp only [stops]
      cases l with
      | atom _ => simp [rootRbp]; have := prec_cases o; omega
      | bin o1 _ _ =>
        simp only [rootRbp, rootPrec] at cl ⊢
        have := prec_cases o; have := prec_cases o1
        unfold rbpOf
        rcases cl with h1 | ⟨h1, h2⟩
        · split <;> omega
        · have : rightAssoc o1 = false := by
            obtain ⟨t1, t2, t3, t4, t5, t6, t7, t8, t9, t10⟩ := table_facts
            cases o <;> cases o1 <;> simp_all
          simp [this]; omega
    obtain ⟨g, hg⟩ := ihl rbp _ res wl hl_lt hst_l _ step
    exact ⟨g, by simpa [hd, tl, List.append_assoc] using hg⟩

/-- round trip: parsing the flat form of a parenthesis-free tree at binding power 0 returns the tree -/
theorem pratt_roundtrip (e : E α) (h : WF e) : ∃ g, loop g (.atom (hd e)) 0 (tl e) = some (e, []) := by
  have h0 : (0 : Nat) < rootPrec e := by
    cases e with
    | atom _ => simp [rootPrec]
    | bin o _ _ => simp [rootPrec]; have := prec_cases o; omega
  obtain ⟨g, hg⟩ := absorb e 0 [] (e, []) h h0 trivial 1 (by simp [loop])
  exact ⟨g, by simpa using hg⟩


end Cicada.Calc
