import Cicada.Lemmas.Kernel
/-!
# Lemmas about the child's side of `run_single_program`: what is open when the program is exec'd
-/
namespace Cicada.Pipeline
open Cicada.Kernel Cicada.Kernel.Table

theorem atExec_apply (t : Table) (x : Nat) : (t.atExec) x = match t x with
    | some e => if e.cx then none else some e
    | none => none := rfl

theorem atExec_none {t : Table} {x : Nat} (h : t x = none) : t.atExec x = none := by simp [atExec_apply, h]

theorem atExec_congr {t t' : Table} {x : Nat} (h : t' x = t x) : t'.atExec x = t.atExec x := by simp [atExec_apply, h]

/-- as far as the descriptors from 3 on and outside `O` are concerned, `t` would exec like `t0`; the
descriptors in `O` are free in `t0` and not 0, 1, 2; and 0, 1, 2 are open in `t` -/
structure CleanUpTo (t0 t : Table) (O : List Nat) : Prop where
  same : ∀ x, 3 ≤ x → x ∉ O → t.atExec x = t0.atExec x
  free : ∀ x ∈ O, t0 x = none ∧ 3 ≤ x
  o0 : (t 0).isSome
  o1 : (t 1).isSome
  o2 : (t 2).isSome

/-- descriptors leave `O` by being closed; everything else from 3 on is untouched; 0, 1, 2 stay open -/
theorem CleanUpTo.shrink {t0 t t' : Table} {O O' : List Nat} (h : CleanUpTo t0 t O)
    (hsub : ∀ x ∈ O', x ∈ O) (hclosed : ∀ x ∈ O, x ∉ O' → t' x = none)
    (hsame : ∀ x, 3 ≤ x → x ∉ O → t'.atExec x = t.atExec x)
    (h0 : (t' 0).isSome) (h1 : (t' 1).isSome) (h2 : (t' 2).isSome) : CleanUpTo t0 t' O' := by
  refine ⟨?_, fun x hx => h.free x (hsub x hx), h0, h1, h2⟩
  intro x hx3 hx
  by_cases hO : x ∈ O
  · rw [atExec_none (hclosed x hO hx), atExec_none (h.free x hO).1]
  · rw [hsame x hx3 hO, h.same x hx3 hO]

/-- closing descriptors that are all in `O` (so none of 0, 1, 2) -/
theorem CleanUpTo.closeList {t0 t : Table} {O : List Nat} (h : CleanUpTo t0 t O) (cs : List Nat) (t' : Table)
    (hcs : ∀ c ∈ cs, c ∈ O) (ht' : ∀ x, t' x = if x ∈ cs then none else t x) : CleanUpTo t0 t' O := by
  have h3 : ∀ c ∈ cs, 3 ≤ c := fun c hc => (h.free c (hcs c hc)).2
  refine h.shrink (fun x hx => hx) (fun x _ hn => absurd ‹x ∈ O› hn) ?_ ?_ ?_ ?_
  · intro x _ hx
    have : x ∉ cs := fun hc => hx (hcs x hc)
    exact atExec_congr (by rw [ht']; simp [this])
  · rw [ht']; have : 0 ∉ cs := fun hc => by have := h3 0 hc; omega
    simpa [this] using h.o0
  · rw [ht']; have : 1 ∉ cs := fun hc => by have := h3 1 hc; omega
    simpa [this] using h.o1
  · rw [ht']; have : 2 ∉ cs := fun hc => by have := h3 2 hc; omega
    simpa [this] using h.o2

/-- `dup2(src, dst)` onto 0, 1 or 2 -/
theorem CleanUpTo.dup2Std {t0 t : Table} {O : List Nat} (h : CleanUpTo t0 t O) (src dst : Nat) (hd : dst < 3) :
    CleanUpTo t0 (t.dup2 src dst) O := by
  have key : ∀ x, (t.dup2 src dst x).isSome ∨ x ≠ dst → True := fun _ _ => trivial
  have some_of : ∀ x, (t x).isSome → (t.dup2 src dst x).isSome := by
    intro x hx
    rw [dup2_apply]
    cases hs : t src with
    | none => simpa using hx
    | some e =>
      by_cases hsd : src = dst
      · simpa [hsd] using hx
      · by_cases hxd : x = dst
        · simp [hsd, hxd]
        · simpa [hsd, hxd] using hx
  refine ⟨?_, h.free, some_of 0 h.o0, some_of 1 h.o1, some_of 2 h.o2⟩
  intro x hx3 hx
  rw [atExec_congr (dup2_other t src dst x (by omega))]
  exact h.same x hx3 hx

/-- a descriptor allocated while 0, 1, 2 are open is at least 3 and was free -/
theorem alloc_ge3 {t0 t t' : Table} {O : List Nat} (h : CleanUpTo t0 t O) {lim fd : Nat} {e : Ent}
    (ha : t.alloc lim e = some (t', fd)) : 3 ≤ fd ∧ t fd = none ∧ t' = t.set fd e := by
  obtain ⟨hf, ht'⟩ := alloc_spec ha
  refine ⟨?_, hf, ht'⟩
  have h0 := h.o0; have h1 := h.o1; have h2 := h.o2
  rcases Nat.lt_or_ge fd 3 with hlt | hge
  · have : fd = 0 ∨ fd = 1 ∨ fd = 2 := by omega
    rcases this with rfl | rfl | rfl <;> simp [hf] at h0 h1 h2
  · exact hge

/-- allocate a temporary descriptor, `dup2` it onto 0 / 1 / 2, close it again -/
theorem CleanUpTo.tempDup {t0 t t1 : Table} {O : List Nat} (h : CleanUpTo t0 t O) {lim fd dst : Nat} {e : Ent}
    (ha : t.alloc lim e = some (t1, fd)) (hd : dst < 3) : CleanUpTo t0 ((t1.dup2 fd dst).close fd) O := by
  obtain ⟨hfd3, hfree, rfl⟩ := alloc_ge3 h ha
  have val : ∀ x, x ≠ fd → x ≠ dst → ((t.set fd e).dup2 fd dst).close fd x = t x := by
    intro x h1 h2
    simp only [close_apply, h1, ↓reduceIte]
    rw [dup2_other _ _ _ _ h2]; simp [h1]
  have std : ∀ x, x < 3 → (t x).isSome → ((((t.set fd e).dup2 fd dst).close fd) x).isSome := by
    intro x hx3 hx
    have hxf : x ≠ fd := by omega
    simp only [close_apply, hxf, ↓reduceIte]
    rw [dup2_apply]
    have : (t.set fd e) fd = some e := by simp
    simp only [this]
    have hne : fd ≠ dst := by omega
    by_cases hxd : x = dst
    · simp [hne, hxd]
    · simpa [hne, hxd, hxf] using hx
  refine ⟨?_, h.free, std 0 (by omega) h.o0, std 1 (by omega) h.o1, std 2 (by omega) h.o2⟩
  intro x hx3 hx
  by_cases hxf : x = fd
  · subst hxf
    rw [atExec_none (by simp), ← h.same x hx3 hx, atExec_none hfree]
  · rw [atExec_congr (val x hxf (by omega))]
    exact h.same x hx3 hx

/-- open a file (close-on-exec) and `dup2` it onto 1 / 2, leaving the close-on-exec original open -/
theorem CleanUpTo.openDup {t0 t t1 : Table} {O : List Nat} (h : CleanUpTo t0 t O) {lim fd dst : Nat} {path : Str} {mode : Nat}
    (ha : t.openFile lim path mode = some (t1, fd)) (hd : dst < 3) : CleanUpTo t0 (t1.dup2 fd dst) O := by
  unfold Table.openFile at ha
  obtain ⟨hfd3, hfree, rfl⟩ := alloc_ge3 h ha
  have hne : fd ≠ dst := by omega
  have std : ∀ x, x < 3 → (t x).isSome → ((((t.set fd { obj := .file path mode, cx := true }).dup2 fd dst)) x).isSome := by
    intro x hx3 hx
    have hxf : x ≠ fd := by omega
    rw [dup2_apply]
    have : (t.set fd { obj := .file path mode, cx := true }) fd = some { obj := .file path mode, cx := true } := by simp
    simp only [this]
    by_cases hxd : x = dst
    · simp [hne, hxd]
    · simpa [hne, hxd, hxf] using hx
  refine ⟨?_, h.free, std 0 (by omega) h.o0, std 1 (by omega) h.o1, std 2 (by omega) h.o2⟩
  intro x hx3 hx
  rw [atExec_congr (dup2_other _ fd dst x (by omega))]
  by_cases hxf : x = fd
  · subst hxf
    rw [← h.same x hx3 hx, atExec_none hfree]
    simp [atExec_apply]
  · rw [atExec_congr (show (t.set fd _) x = t x by simp [hxf])]
    exact h.same x hx3 hx

/-- one step of the redirection loop keeps the invariant, for any set `O` of descriptors still to be closed -/
theorem redirStep_clean {cfg : Cfg} {notLast capture : Bool} {s s' : RState} {r : Redir} {t0 : Table} {O : List Nat}
    (h : CleanUpTo t0 s.t O) (hs : redirStep cfg notLast capture s r = some s') : CleanUpTo t0 s'.t O := by
  obtain ⟨from_, op, to⟩ := r
  unfold redirStep at hs
  simp only at hs
  split at hs
  · -- 2>&1
    split at hs
    · cases hs; exact h.dup2Std 1 2 (by omega)
    · split at hs
      · cases hd : s.t.dup cfg.lim 1 with
        | none => simp [hd] at hs
        | some q =>
          obtain ⟨t1, fd⟩ := q
          simp only [hd, Option.some.injEq] at hs
          cases hs
          unfold Table.dup at hd
          cases h1 : s.t 1 with
          | none => simp [h1] at hd
          | some e => simp only [h1] at hd; exact h.tempDup hd (by omega)
      · cases hs; exact h
  · split at hs
    · -- 1>&2
      split at hs
      · cases hd : s.t.dup cfg.lim 2 with
        | none => simp [hd] at hs
        | some q =>
          obtain ⟨t1, fd⟩ := q
          simp only [hd, Option.some.injEq] at hs
          cases hs
          unfold Table.dup at hd
          cases h1 : s.t 2 with
          | none => simp [h1] at hd
          | some e => simp only [h1] at hd; exact h.tempDup hd (by omega)
      · cases hs; exact h
    · -- a file
      split at hs
      · simp at hs
      · split at hs
        · simp at hs
        · rename_i t1 fd ho
          split at hs
          · cases hs; exact h.openDup ho (by omega)
          · cases hs; exact h.openDup ho (by omega)

theorem redirLoop_clean {cfg : Cfg} {notLast capture : Bool} {t0 : Table} {O : List Nat} :
    ∀ (rs : List Redir) (s : RState), CleanUpTo t0 s.t O → CleanUpTo t0 (redirLoop cfg notLast capture s rs).1.t O := by
  intro rs
  induction rs with
  | nil => intro s h; simpa [redirLoop] using h
  | cons r rs ih =>
    intro s h
    unfold redirLoop
    cases hs : redirStep cfg notLast capture s r with
    | none => simpa using h
    | some s' => simp only; exact ih s' (redirStep_clean h hs)

end Cicada.Pipeline

namespace Cicada.Pipeline
open Cicada.Kernel Cicada.Kernel.Table

/-- closing the descriptors `cs` (all of them in `O`) removes them from what is still to be closed -/
theorem CleanUpTo.closeStep {t0 t t' : Table} {O O' : List Nat} (h : CleanUpTo t0 t O) (cs : List Nat)
    (ht' : ∀ x, t' x = if x ∈ cs then none else t x) (hcs : ∀ c ∈ cs, c ∈ O)
    (hsub : ∀ x ∈ O', x ∈ O) (hgone : ∀ x ∈ O, x ∉ O' → x ∈ cs) : CleanUpTo t0 t' O' := by
  have h1 := h.closeList cs t' hcs ht'
  refine h1.shrink hsub ?_ (fun _ _ _ => rfl) h1.o0 h1.o1 h1.o2
  intro x hx hn
  rw [ht']; simp [hgone x hx hn]

def optFds : Option Fds → List Nat
  | some p => [p.1, p.2]
  | none => []

theorem capHalf_clean {t0 t : Table} {O : List Nat} (p : Fds) (red : Bool) (dst : Nat) (hd : dst < 3)
    (h : CleanUpTo t0 t ([p.1, p.2] ++ O)) :
    CleanUpTo t0 ((if red then t.close p.1 else (t.close p.1).dup2 p.2 dst).close p.2) O := by
  have h1 : CleanUpTo t0 (t.close p.1) ([p.1, p.2] ++ O) :=
    h.closeList [p.1] _ (by simp) (by intro x; simp)
  have h2 : CleanUpTo t0 (if red then t.close p.1 else (t.close p.1).dup2 p.2 dst) ([p.1, p.2] ++ O) := by
    cases red with
    | true => simpa using h1
    | false => simpa using h1.dup2Std p.2 dst hd
  have h3 : CleanUpTo t0 ((if red then t.close p.1 else (t.close p.1).dup2 p.2 dst).close p.2) ([p.1, p.2] ++ O) :=
    h2.closeList [p.2] _ (by simp) (by intro x; simp)
  refine h3.shrink (by intro x hx; simp [hx]) ?_ (fun _ _ _ => rfl) h3.o0 h3.o1 h3.o2
  intro x hx hn
  simp only [List.cons_append, List.nil_append, List.mem_cons] at hx
  rcases hx with rfl | rfl | hx
  · -- the read end: closed first, and no later step of this half re-opens it (dup2 targets 0..2, it is ≥ 3)
    have hx3 : 3 ≤ p.1 := (h.free p.1 (by simp)).2
    simp only [close_apply]
    split
    · rfl
    · cases red with
      | true => simp
      | false =>
        simp only [Bool.false_eq_true, ↓reduceIte]
        rw [dup2_other _ _ _ _ (by omega)]; simp
  · simp
  · exact absurd hx hn

theorem capBlock_clean {t0 t : Table} (cap : Cap) (outRed errRed : Bool) (h : CleanUpTo t0 t (capFds cap)) :
    CleanUpTo t0 (capBlock cap outRed errRed t) [] := by
  obtain ⟨a, b⟩ := cap
  unfold capBlock
  cases a with
  | none =>
    cases b with
    | none => simpa [capFds] using h
    | some q =>
      have := capHalf_clean (O := []) q errRed 2 (by omega) (by simpa [capFds] using h)
      simpa using this
  | some p =>
    have hc : capFds (some p, b) = [p.1, p.2] ++ optFds b := by cases b <;> rfl
    have h1 : CleanUpTo t0 ((if outRed then t.close p.1 else (t.close p.1).dup2 p.2 1).close p.2) (optFds b) :=
      capHalf_clean p outRed 1 (by omega) (by rw [← hc]; exact h)
    cases b with
    | none => simpa [optFds] using h1
    | some q =>
      have := capHalf_clean (O := []) q errRed 2 (by omega) (by simpa [optFds] using h1)
      simpa using this

end Cicada.Pipeline

namespace Cicada.Pipeline
open Cicada.Kernel Cicada.Kernel.Table

/-- what the parent holds open beyond its original table when it forks a stage -/
def heldAtFork (prev cur : Option Fds) (right : List Fds) (cap : Cap) (hs : Option Fds) : List Nat :=
  prevFds prev ++ (optFds cur ++ (fdsOf right ++ (capFds cap ++ optFds hs)))

def stepRight (right : List Fds) (t : Table) : Table := right.foldl closePair t
def stepCap (cur : Option Fds) (cap : Cap) (t : Table) : Table := if cur.isSome then closeOpt (closeOpt t cap.1) cap.2 else t
def stepPrev (prev : Option Fds) (t : Table) : Table := match prev with | some p => (t.dup2 p.1 0).close p.1 | none => t
def stepCur (cur : Option Fds) (t : Table) : Table := match cur with | some p => ((t.dup2 p.2 1).close p.2).close p.1 | none => t

theorem childPipes_eq (prev cur : Option Fds) (right : List Fds) (cap : Cap) (t : Table) :
    childPipes prev cur right cap t = stepCur cur (stepPrev prev (stepCap cur cap (stepRight right t))) := rfl

theorem stepRight_clean {t0 t : Table} {A B : List Nat} (right : List Fds) (h : CleanUpTo t0 t (A ++ (fdsOf right ++ B))) :
    CleanUpTo t0 (stepRight right t) (A ++ B) := by
  apply h.closeStep (fdsOf right) (foldl_closePair_apply right t)
  · intro c hc; simp [hc]
  · intro x hx; simp only [List.mem_append] at hx ⊢; grind
  · intro x hx hn; simp only [List.mem_append] at hx hn; grind

theorem stepCap_clean {t0 t : Table} {A B : List Nat} (cur : Option Fds) (cap : Cap) (h : CleanUpTo t0 t (A ++ (capFds cap ++ B))) :
    CleanUpTo t0 (stepCap cur cap t) (A ++ ((if cur.isSome then [] else capFds cap) ++ B)) := by
  unfold stepCap
  cases hc : cur.isSome with
  | false => simpa using h
  | true =>
    simp only [↓reduceIte, List.nil_append]
    apply h.closeStep (capFds cap) (closeCap_apply _ cap)
    · intro c hc; simp [hc]
    · intro x hx; simp only [List.mem_append] at hx ⊢; grind
    · intro x hx hn; simp only [List.mem_append] at hx hn; grind

theorem stepPrev_clean {t0 t : Table} {B : List Nat} (prev : Option Fds) (h : CleanUpTo t0 t (prevFds prev ++ B)) :
    CleanUpTo t0 (stepPrev prev t) B := by
  unfold stepPrev
  cases prev with
  | none => simpa [prevFds] using h
  | some p =>
    simp only
    apply (h.dup2Std p.1 0 (by omega)).closeStep [p.1] (by intro x; simp)
    · intro c hc; simp [prevFds] at hc ⊢; simp [hc]
    · intro x hx; simp [hx]
    · intro x hx hn; simp only [prevFds, List.mem_append, List.mem_cons, List.not_mem_nil, or_false] at hx hn ⊢; grind

theorem stepCur_clean {t0 t : Table} {B : List Nat} (cur : Option Fds) (h : CleanUpTo t0 t (optFds cur ++ B)) :
    CleanUpTo t0 (stepCur cur t) B := by
  unfold stepCur
  cases cur with
  | none => simpa [optFds] using h
  | some p =>
    simp only
    have h1 := h.dup2Std p.2 1 (by omega)
    have h2 : CleanUpTo t0 ((t.dup2 p.2 1).close p.2) (optFds (some p) ++ B) :=
      h1.closeList [p.2] _ (by simp [optFds]) (by intro x; simp)
    apply h2.closeStep [p.1, p.2]
    · intro x
      by_cases hx1 : x = p.1 <;> by_cases hx2 : x = p.2 <;> simp [hx1, hx2]
    · intro c hc; simp only [List.mem_cons, List.not_mem_nil, or_false] at hc; rcases hc with rfl | rfl <;> simp [optFds]
    · intro x hx; simp [hx]
    · intro x hx hn; simp only [optFds, List.mem_append, List.mem_cons, List.not_mem_nil, or_false] at hx ⊢; grind

/-- first phase: everything except (for the last stage) the capture pipes and the here-string pipe is closed -/
theorem childPipes_clean {t0 t : Table} (prev cur : Option Fds) (right : List Fds) (cap : Cap) (hs : Option Fds)
    (h : CleanUpTo t0 t (heldAtFork prev cur right cap hs)) :
    CleanUpTo t0 (childPipes prev cur right cap t) ((if cur.isSome then [] else capFds cap) ++ optFds hs) := by
  rw [childPipes_eq]
  unfold heldAtFork at h
  have hA : CleanUpTo t0 (stepRight right t) ((prevFds prev ++ optFds cur) ++ (capFds cap ++ optFds hs)) :=
    stepRight_clean right (by simpa [List.append_assoc] using h)
  have hB := stepCap_clean cur cap hA
  apply stepCur_clean
  apply stepPrev_clean
  simpa [List.append_assoc] using hB

/-- second phase: `< file` and `<<< text`; afterwards only the capture pipes of the last stage are left -/
theorem childStdin_clean {t0 t t' : Table} {O : List Nat} (cfg : Cfg) (cmd : Command) (hs : Option Fds)
    (hhs : cmd.isHere = false → hs = none)
    (h : CleanUpTo t0 t (O ++ optFds hs)) (hr : childStdin cfg cmd hs t = some t') : CleanUpTo t0 t' O := by
  unfold childStdin at hr
  -- the `<` part keeps the invariant
  have hfrom : ∀ t1, (if cmd.isFrom then
        (if !cfg.canRead ((cmd.redirectFrom.map (fun (x : Tok) => x.2)).getD []) then none
         else match t.openFile cfg.lim ((cmd.redirectFrom.map (fun (x : Tok) => x.2)).getD []) 0 with
          | none => none
          | some (t1, fd) => some ((t1.dup2 fd 0).close fd))
      else some t) = some t1 → CleanUpTo t0 t1 (O ++ optFds hs) := by
    intro t1 h1
    split at h1
    · split at h1
      · simp at h1
      · split at h1
        · simp at h1
        · rename_i t2 fd ho
          cases h1
          unfold Table.openFile at ho
          exact h.tempDup ho (by omega)
    · cases h1; exact h
  simp only at hr
  split at hr
  · simp at hr
  · rename_i t1 h1
    have hc := hfrom t1 h1
    simp only [Option.some.injEq] at hr
    subst hr
    cases hh : cmd.isHere with
    | false =>
      have := hhs hh; subst this
      simpa [optFds] using hc
    | true =>
      cases hs with
      | none => simpa [optFds] using hc
      | some p =>
        simp only [↓reduceIte]
        have h2 : CleanUpTo t0 (t1.close p.2) (O ++ optFds (some p)) :=
          hc.closeList [p.2] _ (by simp [optFds]) (by intro x; simp)
        have h3 := h2.dup2Std p.1 0 (by omega)
        apply h3.closeStep [p.1, p.2]
        · intro x
          have hp2 : 3 ≤ p.2 := (h.free p.2 (by simp [optFds])).2
          by_cases hx1 : x = p.1
          · simp [hx1]
          · by_cases hx2 : x = p.2
            · subst hx2
              simp only [close_apply, hx1, ↓reduceIte, List.mem_cons, List.not_mem_nil, or_false, or_true]
              rw [dup2_other _ _ _ _ (by omega)]; simp
            · simp [hx1, hx2]
        · intro c hc; simp only [List.mem_cons, List.not_mem_nil, or_false] at hc; rcases hc with rfl | rfl <;> simp [optFds]
        · intro x hx; simp [hx]
        · intro x hx hn; simp only [optFds, List.mem_append, List.mem_cons, List.not_mem_nil, or_false] at hx ⊢; grind

end Cicada.Pipeline
