import Cicada.Model.Pipeline
/-!
# Lemmas about the descriptor world and about the parent's side of `run_pipeline`
-/
namespace Cicada.Kernel
open Table

@[simp] theorem close_apply (t : Table) (fd x : Nat) : (t.close fd) x = if x = fd then none else t x := rfl
@[simp] theorem set_apply (t : Table) (fd : Nat) (e : Ent) (x : Nat) : (t.set fd e) x = if x = fd then some e else t x := rfl

theorem dup2_apply (t : Table) (src dst x : Nat) :
    (t.dup2 src dst) x = match t src with
      | none => t x
      | some e => if src = dst then t x else if x = dst then some { e with cx := false } else t x := by
  unfold Table.dup2
  cases h : t src with
  | none => rfl
  | some e => by_cases hsd : src = dst <;> simp [hsd, Table.set]

/-- `dup2` leaves every descriptor other than its target alone -/
theorem dup2_other (t : Table) (src dst x : Nat) (h : x ≠ dst) : (t.dup2 src dst) x = t x := by
  rw [dup2_apply]
  cases t src with
  | none => rfl
  | some e => by_cases hsd : src = dst <;> simp [hsd, h]

theorem lowestFree_spec {t : Table} {lim fd : Nat} (h : t.lowestFree lim = some fd) : t fd = none ∧ fd < lim := by
  unfold Table.lowestFree at h
  have h1 := List.find?_some h
  have h2 := List.mem_of_find?_eq_some h
  simp only [List.mem_range] at h2
  cases hfd : t fd with
  | none => exact ⟨rfl, h2⟩
  | some e => simp [hfd] at h1

theorem alloc_spec {t t' : Table} {lim fd : Nat} {e : Ent} (h : t.alloc lim e = some (t', fd)) :
    t fd = none ∧ t' = t.set fd e := by
  unfold Table.alloc at h
  cases hl : t.lowestFree lim with
  | none => simp [hl] at h
  | some f =>
    simp only [hl, Option.some.injEq, Prod.mk.injEq] at h
    obtain ⟨h1, h2⟩ := h
    subst h2
    exact ⟨(lowestFree_spec hl).1, h1.symm⟩

theorem close_set_free {t : Table} {fd : Nat} (e : Ent) (h : t fd = none) : (t.set fd e).close fd = t := by
  funext x
  by_cases hx : x = fd
  · subst hx; simp [h]
  · simp [hx]

theorem pipe_spec {t t2 : Table} {lim k r w : Nat} (h : t.pipe lim k = some (t2, r, w)) :
    t r = none ∧ t w = none ∧ r ≠ w ∧ t2 = (t.set r { obj := .pipeR k }).set w { obj := .pipeW k } := by
  unfold Table.pipe at h
  cases h1 : t.alloc lim { obj := .pipeR k } with
  | none => simp [h1] at h
  | some p1 =>
    obtain ⟨t1, r1⟩ := p1
    simp only [h1] at h
    cases h2 : t1.alloc lim { obj := .pipeW k } with
    | none => simp [h2] at h
    | some p2 =>
      obtain ⟨t2', w2⟩ := p2
      simp only [h2, Option.some.injEq, Prod.mk.injEq] at h
      obtain ⟨e1, e2, e3⟩ := h
      subst e1 e2 e3
      obtain ⟨a1, a2⟩ := alloc_spec h1
      obtain ⟨b1, b2⟩ := alloc_spec h2
      subst a2
      have hne : r1 ≠ w2 := by
        intro heq
        subst heq
        simp at b1
      refine ⟨a1, ?_, hne, b2⟩
      have : (t.set r1 { obj := .pipeR k }) w2 = t w2 := by simp [Ne.symm hne]
      rw [← this]; exact b1

end Cicada.Kernel

namespace Cicada.Pipeline
open Cicada.Kernel Cicada.Kernel.Table

theorem closePair_apply (t : Table) (p : Fds) (x : Nat) : (closePair t p) x = if x = p.1 ∨ x = p.2 then none else t x := by
  unfold closePair
  by_cases h1 : x = p.1 <;> by_cases h2 : x = p.2 <;> simp [h1, h2]

/-- closing both ends of a pipe just created gives back the table -/
theorem closePair_pipe {t t2 : Table} {lim k r w : Nat} (h : t.pipe lim k = some (t2, r, w)) : closePair t2 (r, w) = t := by
  obtain ⟨hr, hw, hne, rfl⟩ := pipe_spec h
  funext x
  rw [closePair_apply]
  by_cases h1 : x = r
  · subst h1; simp [hr]
  · by_cases h2 : x = w
    · subst h2; simp [hw]
    · simp [h1, h2]

/-- the descriptors of a list of pipes -/
def fdsOf (ps : List Fds) : List Nat := ps.flatMap (fun p => [p.1, p.2])

theorem mem_fdsOf {ps : List Fds} {x : Nat} : x ∈ fdsOf ps ↔ ∃ p ∈ ps, x = p.1 ∨ x = p.2 := by
  simp [fdsOf, List.mem_flatMap]

theorem foldl_closePair_apply (ps : List Fds) : ∀ (t : Table) (x : Nat),
    (ps.foldl closePair t) x = if x ∈ fdsOf ps then none else t x := by
  induction ps with
  | nil => intro t x; simp [fdsOf]
  | cons p ps ih =>
    intro t x
    simp only [List.foldl_cons]
    rw [ih, closePair_apply]
    by_cases h : x ∈ fdsOf ps
    · have : x ∈ fdsOf (p :: ps) := by
        rw [mem_fdsOf] at h ⊢
        obtain ⟨q, hq, hx⟩ := h
        exact ⟨q, List.mem_cons_of_mem _ hq, hx⟩
      simp [h, this]
    · by_cases hp : x = p.1 ∨ x = p.2
      · have : x ∈ fdsOf (p :: ps) := by
          rw [mem_fdsOf]; exact ⟨p, List.mem_cons_self, hp⟩
        simp [h, hp, this]
      · have : x ∉ fdsOf (p :: ps) := by
          rw [mem_fdsOf]
          rintro ⟨q, hq, hx⟩
          rcases List.mem_cons.mp hq with rfl | hq
          · exact hp hx
          · exact h (mem_fdsOf.mpr ⟨q, hq, hx⟩)
        simp [h, hp, this]

def capFds : Cap → List Nat
  | (a, b) => (match a with | some p => [p.1, p.2] | none => []) ++ (match b with | some p => [p.1, p.2] | none => [])

theorem closeOpt_apply (t : Table) (o : Option Fds) (x : Nat) :
    (closeOpt t o) x = if x ∈ (match o with | some p => [p.1, p.2] | none => []) then none else t x := by
  cases o with
  | none => simp [closeOpt]
  | some p => simp [closeOpt, closePair_apply]

theorem closeCap_apply (t : Table) (cap : Cap) (x : Nat) :
    (closeOpt (closeOpt t cap.1) cap.2) x = if x ∈ capFds cap then none else t x := by
  obtain ⟨a, b⟩ := cap
  rw [closeOpt_apply, closeOpt_apply]
  simp only [capFds, List.mem_append]
  by_cases h1 : x ∈ (match a with | some p => [p.1, p.2] | none => []) <;>
  by_cases h2 : x ∈ (match b with | some p => [p.1, p.2] | none => []) <;> simp [h1, h2]

/-- `t` agrees with `t0` outside the descriptors in `O`, and every descriptor in `O` is free in `t0`:
closing everything in `O` gives `t0` back -/
def Restores (t0 t : Table) (O : List Nat) : Prop := (∀ x, x ∉ O → t x = t0 x) ∧ (∀ x ∈ O, t0 x = none)

theorem restores_refl (t0 : Table) : Restores t0 t0 [] := ⟨fun _ _ => rfl, fun _ h => by simp at h⟩

theorem restores_nil {t0 t : Table} (h : Restores t0 t []) : t = t0 := by
  funext x; exact h.1 x (by simp)

/-- the general step: descriptors leave `O` only by being closed -/
theorem restores_shrink {t0 t t' : Table} {O O' : List Nat} (h : Restores t0 t O)
    (hsub : ∀ x ∈ O', x ∈ O) (hclosed : ∀ x ∈ O, x ∉ O' → t' x = none) (hsame : ∀ x, x ∉ O → t' x = t x) :
    Restores t0 t' O' := by
  refine ⟨?_, fun x hx => h.2 x (hsub x hx)⟩
  intro x hx
  by_cases hO : x ∈ O
  · rw [hclosed x hO hx, h.2 x hO]
  · rw [hsame x hO, h.1 x hO]

theorem restores_pipe {t0 t t2 : Table} {O : List Nat} {lim k r w : Nat} (h : Restores t0 t O)
    (hp : t.pipe lim k = some (t2, r, w)) : Restores t0 t2 (O ++ [r, w]) := by
  obtain ⟨hr, hw, _, rfl⟩ := pipe_spec hp
  constructor
  · intro x hx
    simp only [List.mem_append, List.mem_cons, List.not_mem_nil, or_false, not_or] at hx
    obtain ⟨hO, h1, h2⟩ := hx
    simp [h1, h2, h.1 x hO]
  · intro x hx
    simp only [List.mem_append, List.mem_cons, List.not_mem_nil, or_false] at hx
    rcases hx with hO | rfl | rfl
    · exact h.2 x hO
    · by_cases hO : x ∈ O
      · exact h.2 x hO
      · rw [← h.1 x hO]; exact hr
    · by_cases hO : x ∈ O
      · exact h.2 x hO
      · rw [← h.1 x hO]; exact hw

theorem fdsOf_append (a b : List Fds) : fdsOf (a ++ b) = fdsOf a ++ fdsOf b := by simp [fdsOf]

/-- the pipe-creation loop keeps the invariant, whether or not it runs to the end -/
theorem mkPipes_restores (lim : Nat) (t0 : Table) : ∀ (n : Nat) (t : Table) (np : Nat) (acc : List Fds),
    Restores t0 t (fdsOf acc) →
    Restores t0 (mkPipes lim n t np acc).1 (fdsOf (mkPipes lim n t np acc).2.2.1) := by
  intro n
  induction n with
  | zero => intro t np acc h; simpa [mkPipes] using h
  | succ n ih =>
    intro t np acc h
    unfold mkPipes
    cases hp : t.pipe lim np with
    | none => simpa using h
    | some q =>
      obtain ⟨t1, r, w⟩ := q
      simp only
      apply ih
      rw [fdsOf_append]
      simpa [fdsOf] using restores_pipe h hp

theorem mkPipes_length (lim : Nat) : ∀ (n : Nat) (t : Table) (np : Nat) (acc : List Fds),
    (mkPipes lim n t np acc).2.2.2 = true → (mkPipes lim n t np acc).2.2.1.length = acc.length + n := by
  intro n
  induction n with
  | zero => intro t np acc _; simp [mkPipes]
  | succ n ih =>
    intro t np acc h
    unfold mkPipes at h ⊢
    cases hp : t.pipe lim np with
    | none => simp [hp] at h
    | some q =>
      obtain ⟨t1, r, w⟩ := q
      simp only [hp] at h ⊢
      rw [ih _ _ _ h]; simp; omega

/-- releasing the pipes created so far gives the original table back -/
theorem release_restores {t0 t : Table} {ps : List Fds} (h : Restores t0 t (fdsOf ps)) : releasePipes t ps = t0 := by
  funext x
  unfold releasePipes
  rw [foldl_closePair_apply]
  by_cases hx : x ∈ fdsOf ps
  · simp [hx, h.2 x hx]
  · simp [hx, h.1 x hx]

def prevFds : Option Fds → List Nat
  | some p => [p.1]
  | none => []

/-- what the parent releases once stage `i` is dealt with -/
def release (prev cur : Option Fds) (cap : Cap) (t : Table) : Table :=
  let t := match cur with | some p => t.close p.2 | none => t
  let t := match prev with | some p => t.close p.1 | none => t
  if cur.isNone then closeOpt (closeOpt t cap.1) cap.2 else t

/-- whatever happens to the stage (started, started with a here-string, not started because the here-string pipe
could not be created), the parent's table afterwards is the table before with the stage's ends released -/
theorem parentStage_shell (cfg : Cfg) (cmd : Command) (i : Nat) (prev cur : Option Fds) (right : List Fds) (cap : Cap)
    (capture bg : Bool) (s : PState) :
    (parentStage cfg cmd i prev cur right cap capture bg s).shell = release prev cur cap s.shell := by
  unfold parentStage release
  by_cases hh : cmd.isHere = true
  · simp only [hh, ↓reduceIte]
    cases hp : s.shell.pipe cfg.lim s.np with
    | none => rfl
    | some q =>
      obtain ⟨t1, r, w⟩ := q
      simp only [closePair_pipe hp]
      try rfl
  · simp only [hh]
    rfl

theorem release_apply (prev cur : Option Fds) (cap : Cap) (t : Table) (x : Nat) :
    (release prev cur cap t) x =
      if (∃ p, cur = some p ∧ x = p.2) ∨ (∃ p, prev = some p ∧ x = p.1) ∨ (cur = none ∧ x ∈ capFds cap) then none else t x := by
  unfold release
  cases cur with
  | none =>
    simp only [Option.isNone_none, ↓reduceIte, closeCap_apply]
    cases prev with
    | none => simp
    | some p => by_cases h1 : x ∈ capFds cap <;> by_cases h2 : x = p.1 <;> simp [h1, h2]
  | some c =>
    cases prev with
    | none => by_cases h2 : x = c.2 <;> simp [h2]
    | some p => by_cases h1 : x = c.2 <;> by_cases h2 : x = p.1 <;> simp [h1, h2]

end Cicada.Pipeline
