import Cicada.Spec.C07
/-!
# Invariants of the step system of `Model/Term.lean`

`CtlInv`: the shell's control state determines who owns the terminal.  Proved for every action of `step`,
hence for every reachable state and every interleaving of parent steps, child steps and kernel events.
-/
namespace Cicada.Term
open Cicada.Jobs Cicada.C07

/-- bookkeeping facts about a launch in progress -/
structure LaunchOk (l : Launch) : Prop where
  /-- before `give_terminal_to` ran nothing was given -/
  early : l.idx = 0 → (l.phase = .fork ∨ (∃ p, l.phase = .pset p) ∨ ∃ p, l.phase = .give p) → l.termGiven = false
  /-- the child in hand during the first stage is the group leader -/
  cur : ∀ p, (l.phase = .pset p ∨ l.phase = .give p ∨ l.phase = .insert p) → l.idx = 0 → l.pgid = p
  /-- a background launch never gets the terminal -/
  bgNo : l.bg = true → l.termGiven = false
  /-- stages remain while the first one is not done -/
  more : l.idx = 0 → l.cmds ≠ []
  /-- `give` is a step of the first stage only -/
  giveFirst : ∀ p, l.phase = .give p → l.idx = 0

/-- the terminal's foreground group is the one the control state says, and a launch in progress is well-formed -/
def CtlInv (s : State) : Prop :=
  s.tfg = (fgGid s.mode).getD s.shell ∧
  (∀ l, s.mode = .launching l → LaunchOk l)

theorem ctlInv_init (p : Pid) : CtlInv (init p) := by
  refine ⟨rfl, ?_⟩
  intro l h
  simp [init] at h

/-- actions that leave the control state and the terminal alone -/
theorem ctlInv_of_same {s s' : State} (h : CtlInv s) (hm : s'.mode = s.mode) (ht : s'.tfg = s.tfg) (hs : s'.shell = s.shell) :
    CtlInv s' := by
  unfold CtlInv at *
  rw [hm, ht, hs]
  exact h

theorem ctlInv_step {c : Cfg} {s s' : State} {a : Act} (h : CtlInv s) (hs : step c s a = some s') : CtlInv s' := by
  obtain ⟨ht, hl⟩ := h
  cases a with
  | launch bg cmds =>
    simp only [step] at hs
    split at hs
    · split at hs
      · simp at hs
      · rename_i hm hne
        simp only [Option.some.injEq] at hs
        subst hs
        refine ⟨by simpa [fgGid, hm] using ht, ?_⟩
        intro l hl'
        simp only [Mode.launching.injEq] at hl'
        subst hl'
        refine ⟨by intros; rfl, by intro p hp; simp at hp, by intros; rfl, ?_, by intro p hp; simp at hp⟩
        intro _ hc
        exact hne (by simpa using hc)
    · simp at hs
  | fg n ex =>
    simp only [step] at hs
    split at hs
    · rename_i hm
      have hts : s.tfg = s.shell := by simpa [fgGid, hm] using ht
      unfold stepFg at hs
      split at hs
      · simp only [Option.some.injEq] at hs; subst hs
        exact ⟨by simpa [fgGid] using hts, by intro l h; simp at h⟩
      · split at hs
        · simp at hs
        · split at hs
          · simp only [Option.some.injEq] at hs; subst hs
            exact ⟨by simpa [fgGid] using hts, by intro l h; simp at h⟩
          · split at hs
            · simp only [Option.some.injEq] at hs; subst hs
              exact ⟨by simpa [fgGid] using hts, by intro l h; simp at h⟩
            · split at hs
              · simp only [Option.some.injEq] at hs; subst hs
                exact ⟨by simp [fgGid], by intro l h; simp at h⟩
              · simp only [Option.some.injEq] at hs; subst hs
                exact ⟨by simp [fgGid], by intro l h; simp at h⟩
    · simp at hs
  | bg n ex =>
    simp only [step] at hs
    split at hs
    · rename_i hm
      have hts : s.tfg = s.shell := by simpa [fgGid, hm] using ht
      unfold stepBg at hs
      split at hs
      · simp only [Option.some.injEq] at hs; subst hs
        exact ⟨by simpa [fgGid] using hts, by intro l h; simp at h⟩
      · split at hs
        · simp at hs
        · split at hs
          · simp only [Option.some.injEq] at hs; subst hs
            exact ⟨by simpa [fgGid] using hts, by intro l h; simp at h⟩
          · split at hs
            · simp only [Option.some.injEq] at hs; subst hs
              exact ⟨by simpa [fgGid] using hts, by intro l h; simp at h⟩
            · simp only [Option.some.injEq] at hs; subst hs
              exact ⟨by simpa [fgGid] using hts, by intro l h; simp at h⟩
    · simp at hs
  | jobs =>
    simp only [step] at hs
    split at hs
    · rename_i hm
      have hts : s.tfg = s.shell := by simpa [fgGid, hm] using ht
      split at hs
      · simp only [Option.some.injEq] at hs; subst hs
        exact ⟨by simpa [fgGid] using hts, by intro l h; simp at h⟩
      · simp only [Option.some.injEq] at hs; subst hs
        refine ⟨?_, by intro l h; simp at h⟩
        simp only [fgGid, Option.getD_none]
        unfold pollR
        split <;> simpa using hts
    · simp at hs
  | empty =>
    simp only [step] at hs
    split at hs
    · rename_i hm
      have hts : s.tfg = s.shell := by simpa [fgGid, hm] using ht
      simp only [Option.some.injEq] at hs; subst hs
      exact ⟨by simpa [fgGid] using hts, by intro l h; simp at h⟩
    · simp at hs
  | fork pid =>
    simp only [step] at hs
    split at hs
    · rename_i l hm
      have hok := hl l hm
      unfold stepFork at hs
      split at hs
      · rename_i hph hcm
        split at hs
        · simp at hs
        · simp only [Option.some.injEq] at hs; subst hs
          refine ⟨?_, ?_⟩
          · simp only [fgGid]
            by_cases h0 : l.idx = 0
            · have := hok.early h0 (Or.inl hph)
              simpa [fgGid, hm, this] using ht
            · simpa [fgGid, hm, h0] using ht
          · intro l' hl'
            simp only [Mode.launching.injEq] at hl'
            subst hl'
            refine ⟨?_, ?_, hok.bgNo, hok.more, ?_⟩
            · intro h0 _
              exact hok.early h0 (Or.inl hph)
            · intro p hp h0
              have h0' : l.idx = 0 := h0
              simp only [if_pos h0']
              split at hp <;> simp at hp <;> (try split at hp) <;> simp_all
            · intro p hp
              simp only at hp
              split at hp
              · simp at hp
              · split at hp
                · assumption
                · simp at hp
      · simp at hs
    · simp at hs
  | psetpgid =>
    simp only [step] at hs
    split at hs
    · rename_i l hm
      have hok := hl l hm
      unfold stepPset at hs
      split at hs
      · rename_i p hph
        simp only [Option.some.injEq] at hs; subst hs
        refine ⟨by simpa [fgGid, hm] using ht, ?_⟩
        intro l' hl'
        simp only [Mode.launching.injEq] at hl'
        subst hl'
        refine ⟨?_, ?_, hok.bgNo, hok.more, ?_⟩
        · intro h0 _
          exact hok.early h0 (Or.inr (Or.inl ⟨p, hph⟩))
        · intro q hq h0
          have h0' : l.idx = 0 := h0
          have := hok.cur p (Or.inl hph) h0'
          simp only [if_pos h0'] at hq
          simp at hq
          rw [this]; exact hq
        · intro q hq
          simp only at hq
          split at hq
          · assumption
          · simp at hq
      · simp at hs
    · simp at hs
  | give =>
    simp only [step] at hs
    split at hs
    · rename_i l hm
      have hok := hl l hm
      unfold stepGive at hs
      split at hs
      · rename_i p hph
        have h0 := hok.giveFirst p hph
        have hpg := hok.cur p (Or.inr (Or.inl hph)) h0
        have hearly := hok.early h0 (Or.inr (Or.inr ⟨p, hph⟩))
        split at hs
        · rename_i hcond
          split at hs
          · simp only [Option.some.injEq] at hs; subst hs
            refine ⟨by simp [fgGid, hpg], ?_⟩
            intro l' hl'
            simp only [Mode.launching.injEq] at hl'
            subst hl'
            refine ⟨by intro _ h; simp at h, ?_, ?_, hok.more, by intro q hq; simp at hq⟩
            · intro q hq _; simp at hq; rw [← hq]; exact hpg
            · intro hb
              have hb' : l.bg = true := hb
              simp [hb'] at hcond
          · simp only [Option.some.injEq] at hs; subst hs
            refine ⟨by simpa [fgGid, hm, hearly] using ht, ?_⟩
            intro l' hl'
            simp only [Mode.launching.injEq] at hl'
            subst hl'
            refine ⟨by intros; rfl, ?_, by intros; rfl, hok.more, by intro q hq; simp at hq⟩
            intro q hq _; simp at hq; rw [← hq]; exact hpg
        · simp only [Option.some.injEq] at hs; subst hs
          refine ⟨by simpa [fgGid, hm, hearly] using ht, ?_⟩
          intro l' hl'
          simp only [Mode.launching.injEq] at hl'
          subst hl'
          refine ⟨by intro _ _; exact hearly, ?_, hok.bgNo, hok.more, by intro q hq; simp at hq⟩
          intro q hq _; simp at hq; rw [← hq]; exact hpg
      · simp at hs
    · simp at hs
  | insert =>
    simp only [step] at hs
    split at hs
    · rename_i l hm
      have hok := hl l hm
      unfold stepInsert at hs
      split at hs
      · rename_i p cmd rest hph hcm
        have key : ∀ st : State, st.tfg = s.tfg → st.shell = s.shell →
            st.mode = .launching { l with cmds := rest, idx := l.idx + 1, phase := .fork, fgPids := if l.bg then l.fgPids else l.fgPids ++ [p] } →
            CtlInv st := by
          intro st h1 h2 h3
          refine ⟨?_, ?_⟩
          · rw [h1, h2, h3]; simpa [fgGid, hm] using ht
          · intro l' hl'
            rw [h3] at hl'
            simp only [Mode.launching.injEq] at hl'
            subst hl'
            exact ⟨by intro h; simp at h, by intro q hq; simp at hq, hok.bgNo, by intro h; simp at h, by intro q hq; simp at hq⟩
        by_cases hb : l.bg = true <;> by_cases hi : c.interactive = true <;> simp [hb, hi] at hs <;> subst hs <;>
          exact key _ rfl rfl (by simp [hb])
      · simp at hs
    · simp at hs
  | launched =>
    simp only [step] at hs
    split at hs
    · rename_i l hm
      have hok := hl l hm
      unfold stepLaunched at hs
      split at hs
      · rename_i hph hcm
        split at hs
        · rename_i hb
          simp only [Option.some.injEq] at hs; subst hs
          refine ⟨?_, by intro l h; simp at h⟩
          have := hok.bgNo hb
          simpa [fgGid, hm, this] using ht
        · split at hs
          · simp only [Option.some.injEq] at hs; subst hs
            refine ⟨?_, by intro l h; simp at h⟩
            simpa [fgGid, hm] using ht
          · simp only [Option.some.injEq] at hs; subst hs
            refine ⟨?_, by intro l h; simp at h⟩
            simpa [fgGid, hm] using ht
      · simp at hs
    · simp at hs
  | csetpgid pid =>
    simp only [step] at hs
    split at hs
    · split at hs
      · simp only [Option.some.injEq] at hs; subst hs
        exact ctlInv_of_same ⟨ht, hl⟩ rfl rfl rfl
      · simp at hs
    · simp at hs
  | exit pid code =>
    simp only [step] at hs
    split at hs
    · split at hs
      · simp only [Option.some.injEq] at hs; subst hs
        exact ctlInv_of_same ⟨ht, hl⟩ rfl rfl rfl
      · simp at hs
    · simp at hs
  | signal pid sg =>
    simp only [step] at hs
    split at hs
    · split at hs
      · simp only [Option.some.injEq] at hs; subst hs
        exact ctlInv_of_same ⟨ht, hl⟩ rfl rfl rfl
      · simp at hs
    · simp at hs
  | ctrlC =>
    simp only [step, Option.some.injEq] at hs; subst hs
    exact ctlInv_of_same ⟨ht, hl⟩ rfl rfl rfl
  | ctrlZ =>
    simp only [step, Option.some.injEq] at hs; subst hs
    exact ctlInv_of_same ⟨ht, hl⟩ rfl rfl rfl
  | waitGet pid =>
    simp only [step] at hs
    split at hs
    · rename_i w hm
      unfold stepWaitGet at hs
      split at hs
      · simp at hs
      · split at hs
        · simp at hs
        · simp only [Option.some.injEq] at hs; subst hs
          refine ⟨?_, ?_⟩
          · simp only
            split
            · simpa [fgGid, hm] using ht
            · simpa [fgGid, hm] using ht
          · intro l h
            simp only at h
            split at h <;> simp at h
    · simp at hs
  | waitEchild =>
    simp only [step] at hs
    split at hs
    · rename_i w hm
      split at hs
      · simp only [Option.some.injEq] at hs; subst hs
        exact ⟨by simpa [fgGid, hm] using ht, by intro l h; simp at h⟩
      · simp at hs
    · simp at hs
  | handback =>
    simp only [step] at hs
    split at hs
    · rename_i g tg hm
      simp only [Option.some.injEq] at hs; subst hs
      refine ⟨?_, by intro l h; simp at h⟩
      cases tg <;> simpa [fgGid, hm] using ht
    · simp only [Option.some.injEq] at hs; subst hs
      exact ⟨by simp [fgGid], by intro l h; simp at h⟩
    · simp at hs
  | poll =>
    simp only [step] at hs
    split at hs
    · rename_i hm
      simp only [Option.some.injEq] at hs; subst hs
      refine ⟨?_, by intro l h; simp at h⟩
      have hts : s.tfg = s.shell := by simpa [fgGid, hm] using ht
      simp only [fgGid, Option.getD_none]
      unfold pollR
      split <;> simpa using hts
    · simp at hs

theorem ctlInv_reachable {c : Cfg} {s : State} (h : Reachable c s) : CtlInv s := by
  induction h with
  | init p _ => exact ctlInv_init p
  | step a _ hs ih => exact ctlInv_step ih hs

/-! ### processes and their groups (the code with the parent's own `setpgid`) -/

def UniqPid (procs : List Proc) : Prop := ∀ q ∈ procs, ∀ q' ∈ procs, q.pid = q'.pid → q = q'

/-- an update of a process record that keeps its identity and moves it at most into its pipeline's group -/
def Keeps (f : Proc → Proc) : Prop :=
  ∀ q, (f q).pid = q.pid ∧ (f q).first = q.first ∧ ((f q).pgid = q.pgid ∨ (f q).pgid = q.first)

/-- … and does not reap it -/
def Benign (f : Proc → Proc) : Prop := Keeps f ∧ ∀ q, q.st ≠ .reaped → (f q).st ≠ .reaped

theorem uniq_map {l : List Proc} {f : Proc → Proc} (hf : ∀ q, (f q).pid = q.pid) (h : UniqPid l) : UniqPid (l.map f) := by
  intro a ha b hb hab
  simp only [List.mem_map] at ha hb
  obtain ⟨a0, ha0, rfl⟩ := ha
  obtain ⟨b0, hb0, rfl⟩ := hb
  rw [hf, hf] at hab
  rw [h a0 ha0 b0 hb0 hab]

structure ProcInv (c : Cfg) (s : State) : Prop where
  uniq : UniqPid s.procs
  /-- every child but the one between its fork and the parent's `setpgid` is in its pipeline's group -/
  grouped : ∀ p ∈ s.procs, p.pgid = p.first ∨ ∃ l, s.mode = .launching l ∧ l.phase = .pset p.pid
  /-- the child in hand exists and has not been reaped -/
  inHand : ∀ l p, s.mode = .launching l → (l.phase = .pset p ∨ l.phase = .give p ∨ l.phase = .insert p) →
    ∃ q ∈ s.procs, q.pid = p ∧ q.st ≠ .reaped ∧ q.first = l.pgid
  /-- from the second stage on the group leader exists, in its own group, not reaped -/
  leader : ∀ l, s.mode = .launching l → l.idx > 0 →
    ∃ q ∈ s.procs, q.pid = l.pgid ∧ q.first = l.pgid ∧ q.pgid = l.pgid ∧ q.st ≠ .reaped
  /-- in an interactive session a foreground launch has the terminal from `give_terminal_to` on -/
  given : ∀ l, s.mode = .launching l → c.interactive = true → l.bg = false → (l.idx > 0 ∨ ∃ p, l.phase = .insert p) → l.termGiven = true
  waitGiven : ∀ w tg, s.mode = .waiting w → w.origin = .launch tg → c.interactive = true → tg = true

theorem sigProc_benign (sg : Sig) : Benign (fun q => sigProc q sg) := by
  refine ⟨?_, ?_⟩
  · intro q
    dsimp only
    unfold sigProc
    cases q.st <;> cases sg <;> simp <;> split <;> simp
  · intro q hq
    dsimp only
    unfold sigProc
    cases hst : q.st <;> cases sg <;> simp_all <;> split <;> simp_all

theorem consume_keeps : Keeps consume := by
  intro q; simp [consume]

theorem keeps_ite {f : Proc → Proc} (hf : Keeps f) (P : Proc → Prop) [DecidablePred P] : Keeps (fun q => if P q then f q else q) := by
  intro q
  by_cases h : P q <;> simp [h, hf q]

theorem benign_ite {f : Proc → Proc} (hf : Benign f) (P : Proc → Prop) [DecidablePred P] : Benign (fun q => if P q then f q else q) := by
  refine ⟨keeps_ite hf.1 P, ?_⟩
  intro q hq
  by_cases h : P q <;> simp [h, hq, hf.2 q hq]

/-- same control state, processes updated without reaping -/
theorem procInv_benign {c : Cfg} {s s' : State} {f : Proc → Proc} (h : ProcInv c s) (hf : Benign f)
    (hm : s'.mode = s.mode) (hp : s'.procs = s.procs.map f) : ProcInv c s' := by
  obtain ⟨hk, hr⟩ := hf
  refine ⟨?_, ?_, ?_, ?_, ?_, ?_⟩
  · rw [hp]; exact uniq_map (fun q => (hk q).1) h.uniq
  · intro p hpm
    rw [hp, List.mem_map] at hpm
    obtain ⟨q, hq, rfl⟩ := hpm
    rw [hm, (hk q).1, (hk q).2.1]
    rcases h.grouped q hq with hg | hw
    · left
      rcases (hk q).2.2 with h1 | h1
      · rw [h1, hg]
      · exact h1
    · rcases (hk q).2.2 with h1 | h1
      · rcases h.grouped q hq with hg | _
        · left; rw [h1, hg]
        · right; exact hw
      · left; exact h1
  · intro l p hl hph
    rw [hm] at hl
    obtain ⟨q, hq, h1, h2, h3⟩ := h.inHand l p hl hph
    exact ⟨f q, by rw [hp]; exact List.mem_map_of_mem hq, by rw [(hk q).1, h1], hr q h2, by rw [(hk q).2.1, h3]⟩
  · intro l hl hi
    rw [hm] at hl
    obtain ⟨q, hq, h1, h2, h3, h4⟩ := h.leader l hl hi
    refine ⟨f q, by rw [hp]; exact List.mem_map_of_mem hq, by rw [(hk q).1, h1], by rw [(hk q).2.1, h2], ?_, hr q h4⟩
    rcases (hk q).2.2 with h5 | h5
    · rw [h5, h3]
    · rw [h5, h2]
  · intro l hl; rw [hm] at hl; exact h.given l hl
  · intro w tg hw; rw [hm] at hw; exact h.waitGiven w tg hw

/-- between two control states outside a launch, processes updated (possibly reaped) -/
theorem procInv_keeps {c : Cfg} {s s' : State} {f : Proc → Proc} (h : ProcInv c s) (hf : Keeps f)
    (hm : ∀ l, s.mode ≠ .launching l) (hm' : ∀ l, s'.mode ≠ .launching l) (hp : s'.procs = s.procs.map f)
    (hw : ∀ w tg, s'.mode = .waiting w → w.origin = .launch tg → c.interactive = true → tg = true) : ProcInv c s' := by
  refine ⟨?_, ?_, ?_, ?_, ?_, hw⟩
  · rw [hp]; exact uniq_map (fun q => (hf q).1) h.uniq
  · intro p hpm
    rw [hp, List.mem_map] at hpm
    obtain ⟨q, hq, rfl⟩ := hpm
    left
    rw [(hf q).2.1]
    rcases h.grouped q hq with hg | ⟨l, hl, _⟩
    · rcases (hf q).2.2 with h1 | h1
      · rw [h1, hg]
      · exact h1
    · exact absurd hl (hm l)
  · intro l p hl; exact absurd hl (hm' l)
  · intro l hl; exact absurd hl (hm' l)
  · intro l hl; exact absurd hl (hm' l)

theorem map_id_eq (l : List Proc) : l = l.map (fun q => q) := by simp

theorem updProc_eq (procs : List Proc) (pid : Pid) (f : Proc → Proc) :
    updProc procs pid f = procs.map (fun p => if p.pid = pid then f p else p) := rfl

theorem sigGroup_eq (procs : List Proc) (g : Pid) (sg : Sig) :
    sigGroup procs g sg = procs.map (fun p => if p.pgid = g then (fun q => sigProc q sg) p else p) := rfl

theorem mem_of_findProc {procs : List Proc} {pid : Pid} {p : Proc} (h : findProc procs pid = some p) : p ∈ procs ∧ p.pid = pid := by
  unfold findProc at h
  exact ⟨List.mem_of_find?_eq_some h, by simpa using List.find?_some h⟩

/-- leaving a launch whose next step would be a fork -/
theorem procInv_leave {c : Cfg} {s s' : State} {l : Launch} (h : ProcInv c s) (hm : s.mode = .launching l) (hph : l.phase = .fork)
    (hp : s'.procs = s.procs) (hm' : ∀ l', s'.mode ≠ .launching l')
    (hw : ∀ w tg, s'.mode = .waiting w → w.origin = .launch tg → c.interactive = true → tg = true) : ProcInv c s' := by
  refine ⟨by rw [hp]; exact h.uniq, ?_, ?_, ?_, ?_, hw⟩
  · intro p hpm
    rw [hp] at hpm
    left
    rcases h.grouped p hpm with hg | ⟨l2, hl2, hph2⟩
    · exact hg
    · rw [hm] at hl2; simp only [Mode.launching.injEq] at hl2; subst hl2; rw [hph] at hph2; simp at hph2
  · intro l' p hl'; exact absurd hl' (hm' l')
  · intro l' hl'; exact absurd hl' (hm' l')
  · intro l' hl'; exact absurd hl' (hm' l')

theorem procInv_step {c : Cfg} {s s' : State} {a : Act} (hc : c.parentSetpgid = true) (hctl : CtlInv s) (h : ProcInv c s)
    (hs : step c s a = some s') : ProcInv c s' := by
  have notL_of_prompt : s.mode = .prompt → ∀ l, s.mode ≠ .launching l := by intro hm l hl; rw [hm] at hl; simp at hl
  cases a with
  | launch bg cmds =>
    simp only [step] at hs
    split at hs
    · split at hs
      · simp at hs
      · rename_i hm _
        simp only [Option.some.injEq] at hs; subst hs
        refine ⟨h.uniq, ?_, ?_, ?_, ?_, ?_⟩
        · intro p hp; left
          rcases h.grouped p hp with hg | ⟨l, hl, _⟩
          · exact hg
          · rw [hm] at hl; simp at hl
        · intro l p hl hph; simp only [Mode.launching.injEq] at hl; subst hl; simp at hph
        · intro l hl hi; simp only [Mode.launching.injEq] at hl; subst hl; simp at hi
        · intro l hl _ _ hor; simp only [Mode.launching.injEq] at hl; subst hl; simp at hor
        · intro w tg hw; simp at hw
    · simp at hs
  | fg n ex =>
    simp only [step] at hs
    split at hs
    · rename_i hm
      have hnl := notL_of_prompt hm
      unfold stepFg at hs
      split at hs
      · simp only [Option.some.injEq] at hs; subst hs
        exact procInv_keeps h (f := fun q => q) (by intro q; simp) hnl (by intro l; simp) (by simp) (by intro w tg hw; simp at hw)
      · split at hs
        · simp at hs
        · split at hs
          · simp only [Option.some.injEq] at hs; subst hs
            exact procInv_keeps h (f := fun q => q) (by intro q; simp) hnl (by intro l; simp) (by simp) (by intro w tg hw; simp at hw)
          · split at hs
            · simp only [Option.some.injEq] at hs; subst hs
              exact procInv_keeps h (f := fun q => q) (by intro q; simp) hnl (by intro l; simp) (by simp) (by intro w tg hw; simp at hw)
            · split at hs
              · simp only [Option.some.injEq] at hs; subst hs
                exact procInv_keeps h (keeps_ite (sigProc_benign .cont).1 _) hnl (by intro l; simp) (sigGroup_eq _ _ _) (by intro w tg hw; simp at hw)
              · simp only [Option.some.injEq] at hs; subst hs
                refine procInv_keeps h (keeps_ite (sigProc_benign .cont).1 _) hnl (by intro l; simp) (sigGroup_eq _ _ _) ?_
                intro w tg hw ho
                simp only [Mode.waiting.injEq] at hw
                subst hw
                simp at ho
    · simp at hs
  | bg n ex =>
    simp only [step] at hs
    split at hs
    · rename_i hm
      have hnl := notL_of_prompt hm
      unfold stepBg at hs
      split at hs
      · simp only [Option.some.injEq] at hs; subst hs
        exact procInv_keeps h (f := fun q => q) (by intro q; simp) hnl (by intro l; simp) (by simp) (by intro w tg hw; simp at hw)
      · split at hs
        · simp at hs
        · split at hs
          · simp only [Option.some.injEq] at hs; subst hs
            exact procInv_keeps h (f := fun q => q) (by intro q; simp) hnl (by intro l; simp) (by simp) (by intro w tg hw; simp at hw)
          · split at hs
            · simp only [Option.some.injEq] at hs; subst hs
              exact procInv_keeps h (keeps_ite (sigProc_benign .cont).1 _) hnl (by intro l; simp) (sigGroup_eq _ _ _) (by intro w tg hw; simp at hw)
            · simp only [Option.some.injEq] at hs; subst hs
              exact procInv_keeps h (keeps_ite (sigProc_benign .cont).1 _) hnl (by intro l; simp) (sigGroup_eq _ _ _) (by intro w tg hw; simp at hw)
    · simp at hs
  | jobs =>
    simp only [step] at hs
    split at hs
    · rename_i hm
      have hnl := notL_of_prompt hm
      split at hs
      · simp only [Option.some.injEq] at hs; subst hs
        exact procInv_keeps h (f := fun q => q) (by intro q; simp) hnl (by intro l; simp) (by simp) (by intro w tg hw; simp at hw)
      · rename_i hne
        simp only [Option.some.injEq] at hs; subst hs
        refine procInv_keeps h consume_keeps hnl (by intro l; simp) ?_ (by intro w tg hw; simp at hw)
        simp [pollR, hne]
    · simp at hs
  | empty =>
    simp only [step] at hs
    split at hs
    · rename_i hm
      simp only [Option.some.injEq] at hs; subst hs
      exact procInv_keeps h (f := fun q => q) (by intro q; simp) (notL_of_prompt hm) (by intro l; simp) (by simp) (by intro w tg hw; simp at hw)
    · simp at hs
  | fork pid =>
    simp only [step] at hs
    split at hs
    · rename_i l hm
      have hok := hctl.2 l hm
      unfold stepFork at hs
      split at hs
      · rename_i hph hcm
        split at hs
        · simp at hs
        · rename_i hfresh
          simp only [hc, ↓reduceIte, Option.some.injEq] at hs; subst hs
          simp only [Bool.or_eq_true, decide_eq_true_eq, not_or, Bool.not_eq_true] at hfresh
          obtain ⟨⟨_, _⟩, hnew⟩ := hfresh
          have hnew' : ∀ q ∈ s.procs, q.pid ≠ pid := by
            intro q hq he
            have : s.procs.any (fun x => decide (x.pid = pid)) = true := List.any_eq_true.mpr ⟨q, hq, by simp [he]⟩
            rw [this] at hnew; simp at hnew
          refine ⟨?_, ?_, ?_, ?_, ?_, ?_⟩
          · intro a ha b hb hab
            simp only [List.mem_append, List.mem_singleton] at ha hb
            rcases ha with ha | rfl <;> rcases hb with hb | rfl
            · exact h.uniq a ha b hb hab
            · exact absurd hab (hnew' a ha)
            · exact absurd hab.symm (hnew' b hb)
            · rfl
          · intro p hp
            simp only [List.mem_append, List.mem_singleton] at hp
            rcases hp with hp | rfl
            · left
              rcases h.grouped p hp with hg | ⟨l2, hl2, hph2⟩
              · exact hg
              · rw [hm] at hl2; simp only [Mode.launching.injEq] at hl2; subst hl2; rw [hph] at hph2; simp at hph2
            · right; exact ⟨_, rfl, rfl⟩
          · intro l' p hl' hp
            simp only [Mode.launching.injEq] at hl'; subst hl'
            simp at hp
            subst hp
            exact ⟨{ pid := pid, first := if l.idx = 0 then pid else l.pgid, pgid := s.shell }, by simp, rfl, by simp, rfl⟩
          · intro l' hl' hi
            simp only [Mode.launching.injEq] at hl'; subst hl'
            have hi' : l.idx > 0 := hi
            have hne : l.idx ≠ 0 := by omega
            obtain ⟨q, hq, h1, h2, h3, h4⟩ := h.leader l hm hi'
            refine ⟨q, by simp [hq], ?_, ?_, ?_, h4⟩ <;> simp [hne, h1, h2, h3]
          · intro l' hl' hi hb hor
            simp only [Mode.launching.injEq] at hl'; subst hl'
            rcases hor with hor | ⟨p, hp⟩
            · exact h.given l hm hi hb (Or.inl hor)
            · simp at hp
          · intro w tg hw; simp at hw
      · simp at hs
    · simp at hs
  | psetpgid =>
    simp only [step] at hs
    split at hs
    · rename_i l hm
      have hok := hctl.2 l hm
      unfold stepPset at hs
      split at hs
      · rename_i p hph
        simp only [Option.some.injEq] at hs; subst hs
        obtain ⟨q0, hq0, hq0pid, hq0st, hq0first⟩ := h.inHand l p hm (Or.inl hph)
        -- the parent's setpgid succeeds
        have hok2 : setpgidOk s.procs p q0.first = true := by
          unfold setpgidOk
          by_cases h0 : l.idx = 0
          · have := hok.cur p (Or.inl hph) h0
            simp [hq0first, this]
          · obtain ⟨q1, hq1, _, _, h13, h14⟩ := h.leader l hm (by omega)
            have : groupExists s.procs q0.first = true := by
              unfold groupExists
              exact List.any_eq_true.mpr ⟨q1, hq1, by simp [h13, hq0first, h14]⟩
            simp [this]
        have hf : Benign (fun q : Proc => if (q.st ≠ .reaped && setpgidOk s.procs p q.first) = true then { q with pgid := q.first, psetDone := true } else q) := by
          refine ⟨?_, ?_⟩
          · intro q; dsimp only; split <;> simp
          · intro q hq; dsimp only; split <;> simp [hq]
        have hfb := benign_ite hf (fun q => q.pid = p)
        refine ⟨?_, ?_, ?_, ?_, ?_, ?_⟩
        · rw [updProc_eq]; exact uniq_map (fun q => (hfb.1 q).1) h.uniq
        · intro x hx
          rw [updProc_eq, List.mem_map] at hx
          obtain ⟨q, hq, rfl⟩ := hx
          left
          by_cases hqp : q.pid = p
          · have : q = q0 := h.uniq q hq q0 hq0 (by rw [hqp, hq0pid])
            subst this
            simp [hqp, hq0st, hok2]
          · simp only [hqp, ↓reduceIte]
            rcases h.grouped q hq with hg | ⟨l2, hl2, hph2⟩
            · exact hg
            · rw [hm] at hl2; simp only [Mode.launching.injEq] at hl2; subst hl2; rw [hph] at hph2
              simp only [Phase.pset.injEq] at hph2
              exact absurd hph2.symm hqp
        · intro l' p' hl' hp'
          simp only [Mode.launching.injEq] at hl'; subst hl'
          have hpp : p' = p := by
            simp only at hp'
            split at hp' <;> simp at hp' <;> exact hp'.symm
          subst hpp
          refine ⟨_, by rw [updProc_eq]; exact List.mem_map_of_mem hq0, ?_, ?_, ?_⟩
          · exact ((hfb.1 q0).1).trans hq0pid
          · exact hfb.2 q0 hq0st
          · exact ((hfb.1 q0).2.1).trans hq0first
        · intro l' hl' hi
          simp only [Mode.launching.injEq] at hl'; subst hl'
          obtain ⟨q1, hq1, h11, h12, h13, h14⟩ := h.leader l hm hi
          refine ⟨_, by rw [updProc_eq]; exact List.mem_map_of_mem hq1, ?_, ?_, ?_, ?_⟩
          · exact ((hfb.1 q1).1).trans h11
          · exact ((hfb.1 q1).2.1).trans h12
          · rcases (hfb.1 q1).2.2 with h5 | h5
            · exact h5.trans h13
            · exact h5.trans h12
          · exact hfb.2 q1 h14
        · intro l' hl' hi hb hor
          simp only [Mode.launching.injEq] at hl'; subst hl'
          rcases hor with hor | ⟨p', hp'⟩
          · exact h.given l hm hi hb (Or.inl hor)
          · simp only at hp'
            split at hp'
            · simp at hp'
            · rename_i h0; exact h.given l hm hi hb (Or.inl (by omega))
        · intro w tg hw; simp at hw
      · simp at hs
    · simp at hs
  | give =>
    simp only [step] at hs
    split at hs
    · rename_i l hm
      have hok := hctl.2 l hm
      unfold stepGive at hs
      split at hs
      · rename_i p hph
        obtain ⟨q0, hq0, hq0pid, hq0st, hq0first⟩ := h.inHand l p hm (Or.inr (Or.inl hph))
        have htc : tcsetOk s.procs p = true := by
          unfold tcsetOk
          exact List.any_eq_true.mpr ⟨q0, hq0, by simp [hq0pid, hq0st]⟩
        have common : ∀ (st : State) (tg : Bool), st.procs = s.procs → st.mode = .launching { l with termGiven := tg, phase := .insert p } →
            (c.interactive = true → l.bg = false → tg = true) → ProcInv c st := by
          intro st tg hp hm' hg
          refine ⟨by rw [hp]; exact h.uniq, ?_, ?_, ?_, ?_, ?_⟩
          · intro x hx; rw [hp] at hx; left
            rcases h.grouped x hx with hg' | ⟨l2, hl2, hph2⟩
            · exact hg'
            · rw [hm] at hl2; simp only [Mode.launching.injEq] at hl2; subst hl2; rw [hph] at hph2; simp at hph2
          · intro l' p' hl' hp'
            rw [hm'] at hl'; simp only [Mode.launching.injEq] at hl'; subst hl'
            simp at hp'; subst hp'
            exact ⟨q0, by rw [hp]; exact hq0, hq0pid, hq0st, hq0first⟩
          · intro l' hl' hi
            rw [hm'] at hl'; simp only [Mode.launching.injEq] at hl'; subst hl'
            obtain ⟨q1, hq1, hr⟩ := h.leader l hm hi
            exact ⟨q1, by rw [hp]; exact hq1, hr⟩
          · intro l' hl' hi hb _
            rw [hm'] at hl'; simp only [Mode.launching.injEq] at hl'; subst hl'
            exact hg hi hb
          · intro w tg' hw; rw [hm'] at hw; simp at hw
        split at hs
        · rename_i hcond
          simp only [htc, ↓reduceIte, Option.some.injEq] at hs; subst hs
          exact common _ true rfl rfl (by intros; rfl)
        · rename_i hcond
          simp only [Option.some.injEq] at hs; subst hs
          refine common _ l.termGiven rfl rfl ?_
          intro hi hb
          simp [hi, hb] at hcond
      · simp at hs
    · simp at hs
  | insert =>
    simp only [step] at hs
    split at hs
    · rename_i l hm
      have hok := hctl.2 l hm
      unfold stepInsert at hs
      split at hs
      · rename_i p cmd rest hph hcm
        obtain ⟨q0, hq0, hq0pid, hq0st, hq0first⟩ := h.inHand l p hm (Or.inr (Or.inr hph))
        have key : ∀ st : State, st.procs = s.procs →
            st.mode = .launching { l with cmds := rest, idx := l.idx + 1, phase := .fork, fgPids := if l.bg then l.fgPids else l.fgPids ++ [p] } →
            ProcInv c st := by
          intro st hp hm'
          have hgr : ∀ x ∈ s.procs, x.pgid = x.first := by
            intro x hx
            rcases h.grouped x hx with hg' | ⟨l2, hl2, hph2⟩
            · exact hg'
            · rw [hm] at hl2; simp only [Mode.launching.injEq] at hl2; subst hl2; rw [hph] at hph2; simp at hph2
          refine ⟨by rw [hp]; exact h.uniq, ?_, ?_, ?_, ?_, ?_⟩
          · intro x hx; rw [hp] at hx; left; exact hgr x hx
          · intro l' p' hl' hp'
            rw [hm'] at hl'; simp only [Mode.launching.injEq] at hl'; subst hl'
            simp at hp'
          · intro l' hl' _
            rw [hm'] at hl'; simp only [Mode.launching.injEq] at hl'; subst hl'
            by_cases h0 : l.idx = 0
            · have hpg := hok.cur p (Or.inr (Or.inr hph)) h0
              exact ⟨q0, by rw [hp]; exact hq0, by simp [hq0pid, hpg], by simp [hq0first], by simp [hgr q0 hq0, hq0first], hq0st⟩
            · obtain ⟨q1, hq1, hr⟩ := h.leader l hm (by omega)
              exact ⟨q1, by rw [hp]; exact hq1, hr⟩
          · intro l' hl' hi hb _
            rw [hm'] at hl'; simp only [Mode.launching.injEq] at hl'; subst hl'
            exact h.given l hm hi hb (Or.inr ⟨p, hph⟩)
          · intro w tg hw; rw [hm'] at hw; simp at hw
        by_cases hb : l.bg = true <;> by_cases hi : c.interactive = true <;> simp [hb, hi] at hs <;> subst hs <;>
          exact key _ rfl (by simp [hb])
      · simp at hs
    · simp at hs
  | launched =>
    simp only [step] at hs
    split at hs
    · rename_i l hm
      have hok := hctl.2 l hm
      unfold stepLaunched at hs
      split at hs
      · rename_i hph hcm
        split at hs
        · simp only [Option.some.injEq] at hs; subst hs
          exact procInv_leave h hm hph rfl (by intro l'; simp) (by intro w tg hw; simp at hw)
        · rename_i hb
          split at hs
          · simp only [Option.some.injEq] at hs; subst hs
            exact procInv_leave h hm hph rfl (by intro l'; simp) (by intro w tg hw; simp at hw)
          · simp only [Option.some.injEq] at hs; subst hs
            refine procInv_leave h hm hph rfl (by intro l'; simp) ?_
            intro w tg hw ho hi
            simp only [Mode.waiting.injEq] at hw; subst hw
            simp only [Origin.launch.injEq] at ho
            subst ho
            have hidx : l.idx > 0 := by
              have := hok.more
              by_cases h0 : l.idx = 0
              · exact absurd hcm (this h0)
              · omega
            exact h.given l hm hi (by simpa using hb) (Or.inl hidx)
      · simp at hs
    · simp at hs
  | csetpgid pid =>
    simp only [step] at hs
    split at hs
    · split at hs
      · simp only [Option.some.injEq] at hs; subst hs
        refine procInv_benign h (benign_ite (f := fun q => if setpgidOk s.procs pid q.first = true then { q with pgid := q.first, csetDone := true } else { q with csetDone := true }) ?_ (fun p => p.pid = pid)) rfl (updProc_eq _ _ _)
        refine ⟨?_, ?_⟩
        · intro q; dsimp only; split <;> simp
        · intro q hq; dsimp only; split <;> simp [hq]
      · simp at hs
    · simp at hs
  | exit pid code =>
    simp only [step] at hs
    split at hs
    · split at hs
      · simp only [Option.some.injEq] at hs; subst hs
        refine procInv_benign h (benign_ite (f := fun q => { q with st := .zombie, note := some (.exited pid code) }) ?_ (fun p => p.pid = pid)) rfl (updProc_eq _ _ _)
        exact ⟨by intro q; simp, by intro q _; simp⟩
      · simp at hs
    · simp at hs
  | signal pid sg =>
    simp only [step] at hs
    split at hs
    · split at hs
      · simp only [Option.some.injEq] at hs; subst hs
        exact procInv_benign h (benign_ite (sigProc_benign sg) (fun p => p.pid = pid)) rfl (updProc_eq _ _ _)
      · simp at hs
    · simp at hs
  | ctrlC =>
    simp only [step, Option.some.injEq] at hs; subst hs
    exact procInv_benign h (benign_ite (sigProc_benign .int) (fun p => p.pgid = s.tfg)) rfl (sigGroup_eq _ _ _)
  | ctrlZ =>
    simp only [step, Option.some.injEq] at hs; subst hs
    exact procInv_benign h (benign_ite (sigProc_benign .tstp) (fun p => p.pgid = s.tfg)) rfl (sigGroup_eq _ _ _)
  | waitGet pid =>
    simp only [step] at hs
    split at hs
    · rename_i w hm
      have hnl : ∀ l, s.mode ≠ .launching l := by intro l hl; rw [hm] at hl; simp at hl
      unfold stepWaitGet at hs
      split at hs
      · simp at hs
      · split at hs
        · simp at hs
        · simp only [Option.some.injEq] at hs; subst hs
          refine procInv_keeps h (keeps_ite consume_keeps (fun p => p.pid = pid)) hnl ?_ (updProc_eq _ _ _) ?_
          · intro l; simp only; split <;> simp
          · intro w' tg hw ho
            simp only at hw
            split at hw
            · simp at hw
            · simp only [Mode.waiting.injEq] at hw; subst hw
              exact h.waitGiven w tg hm ho
    · simp at hs
  | waitEchild =>
    simp only [step] at hs
    split at hs
    · rename_i w hm
      have hnl : ∀ l, s.mode ≠ .launching l := by intro l hl; rw [hm] at hl; simp at hl
      split at hs
      · simp only [Option.some.injEq] at hs; subst hs
        exact procInv_keeps h (f := fun q => q) (by intro q; simp) hnl (by intro l; simp) (by simp) (by intro w tg hw; simp at hw)
      · simp at hs
    · simp at hs
  | handback =>
    simp only [step] at hs
    split at hs
    · rename_i g tg hm
      have hnl : ∀ l, s.mode ≠ .launching l := by intro l hl; rw [hm] at hl; simp at hl
      simp only [Option.some.injEq] at hs; subst hs
      exact procInv_keeps h (f := fun q => q) (by intro q; simp) hnl (by intro l; simp) (by simp) (by intro w tg hw; simp at hw)
    · rename_i g hm
      have hnl : ∀ l, s.mode ≠ .launching l := by intro l hl; rw [hm] at hl; simp at hl
      simp only [Option.some.injEq] at hs; subst hs
      exact procInv_keeps h (f := fun q => q) (by intro q; simp) hnl (by intro l; simp) (by simp) (by intro w tg hw; simp at hw)
    · simp at hs
  | poll =>
    simp only [step] at hs
    split at hs
    · rename_i hm
      have hnl : ∀ l, s.mode ≠ .launching l := by intro l hl; rw [hm] at hl; simp at hl
      simp only [Option.some.injEq] at hs; subst hs
      by_cases hne : s.sh.jobs.isEmpty = true
      · exact procInv_keeps h (f := fun q => q) (by intro q; simp) hnl (by intro l; simp) (by simp [pollR, hne]) (by intro w tg hw; simp at hw)
      · exact procInv_keeps h consume_keeps hnl (by intro l; simp) (by simp [pollR, hne]) (by intro w tg hw; simp at hw)
    · simp at hs

theorem procInv_init (c : Cfg) (p : Pid) : ProcInv c (init p) := by
  refine ⟨?_, ?_, ?_, ?_, ?_, ?_⟩ <;> simp [init, UniqPid]

theorem procInv_reachable {c : Cfg} {s : State} (hc : c.parentSetpgid = true) (h : Reachable c s) : ProcInv c s := by
  induction h with
  | init p _ => exact procInv_init c p
  | step a hr hs ih => exact procInv_step hc (ctlInv_reachable hr) ih hs

end Cicada.Term
