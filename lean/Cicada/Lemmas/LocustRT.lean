import Cicada.Lemmas.Interp
/-!
# The PEG round trip for scripts (lemmas for C14, parser half)

`parseLines (render semi b)` yields a pair tree that represents `b` (`RBlock` of `Lemmas/Interp.lean`).
Plan: (1) text facts (`skip`, `startsWith`, `trim`, `span`); (2) the `(!stop ~ ANY)*` loop `repAny` over one line
(`repAny_term`); (3) `CMD`, `TEST` and the heads on plain lines, in both spellings of a head (`hEnd`); (4) the layout
`rS` / `rB` / `rA` in continuation style (the text of the node followed by the rest `k` of the file), the guard
`okS` / `okB` / `okA`, the fuel measure `cS` / `cB` / `cA` (at most twice the text length: `rB_len`); (5) the parsers unfolded
one step (`pBodyItems_succ`, `pTop_succ`), places where a statement list ends (`Stop`); (6) one lemma per AST
constructor, each taking the statements about its sub-blocks as hypotheses (`StmtRT` / `BlockRT` / `ArmsRT`: for every
rest `k` and every fuel from the measure on), tied together by structural recursion over the mutual AST
(`stmtRT` / `blockRT` / `armsRT`).  No fuel-monotonicity of the parser is needed.
-/
namespace Cicada.C14
open Cicada Cicada.Locust

/-! ### text basics -/

theorem isWsP_isWs {c : Char} (h : isWsP c = true) : isWs c = true := by
  simp only [isWsP, Bool.or_eq_true, decide_eq_true_eq] at h
  rcases h with rfl | rfl <;> decide

theorem skip_cons_of_not {c : Char} {x : Str} (h : isWsP c = false) : skip (c :: x) = c :: x := by
  simp [skip, List.dropWhile, h]

theorem skip_append_of_not (l : Str) {c : Char} (x : Str) (h : isWsP c = false) :
    skip (l ++ c :: x) = skip l ++ c :: x := by
  induction l with
  | nil => simp [skip, List.dropWhile, h]
  | cons a l ih =>
    by_cases ha : isWsP a = true
    · simpa [skip, List.dropWhile, ha] using ih
    · simp [skip, List.dropWhile, ha]

theorem skip_skip (l : Str) : skip (skip l) = skip l := by
  induction l with
  | nil => rfl
  | cons a l ih =>
    by_cases ha : isWsP a = true
    · simpa [skip, List.dropWhile, ha] using ih
    · simp [skip, List.dropWhile, ha]

theorem skip_suffix (l : Str) : skip l <:+ l := List.dropWhile_suffix _

theorem span_append (a b : Str) : span (a ++ b) b = a := by
  simp [span]

theorem startsWith_append (p x : Str) : startsWith (p ++ x) p = true := by
  induction p with
  | nil => cases x <;> rfl
  | cons a p ih => simp [startsWith, ih]

theorem startsWith_eq {s p : Str} (h : startsWith s p = true) : s = p ++ s.drop p.length := by
  induction p generalizing s with
  | nil => simp
  | cons a p ih =>
    cases s with
    | nil => simp [startsWith] at h
    | cons c s =>
      simp only [startsWith, Bool.and_eq_true, decide_eq_true_eq] at h
      obtain ⟨rfl, h2⟩ := h
      simpa using ih h2

/-- a pattern without the character `e` cannot see past an `e` -/
theorem startsWith_term (e : Char) (l rest p : Str) (hp : e ∉ p) :
    startsWith (l ++ e :: rest) p = startsWith l p := by
  induction l generalizing p with
  | nil =>
    cases p with
    | nil => rfl
    | cons c ps =>
      have : e ≠ c := by intro h; subst h; simp at hp
      simp [startsWith, this]
  | cons a l ih =>
    cases p with
    | nil => rfl
    | cons c ps =>
      have : e ∉ ps := by intro h; exact hp (List.mem_cons_of_mem _ h)
      simp [startsWith, ih ps this]

/-- a pattern without a newline cannot see past the end of the line -/
theorem startsWith_line (l rest p : Str) (hp : '\n' ∉ p) :
    startsWith (l ++ '\n' :: rest) p = startsWith l p := startsWith_term '\n' l rest p hp

theorem pLit_append (p x : Str) : pLit p (p ++ x) = some x := by
  simp [pLit, startsWith_append]

/-! ### trimming -/

theorem trimL_cons_of_not {c : Char} {x : Str} (h : isWs c = false) : trimL (c :: x) = c :: x := by
  simp [trimL, h]

theorem trimL_append_ne (a : Str) {c : Char} (b : Str) (h : isWs c = false) : trimL (a ++ c :: b) ≠ [] := by
  induction a with
  | nil => simp [trimL, h]
  | cons d a ih =>
    by_cases hd : isWs d = true
    · simpa [trimL, hd] using ih
    · simp [trimL, hd]

/-- a text that starts with a visible character is not blank -/
theorem trim_ne_nil {c : Char} (x : Str) (h : isWs c = false) : trim (c :: x) ≠ [] := by
  simp only [trim, trimL_cons_of_not h, trimR]
  intro hh
  have : trimL (x.reverse ++ c :: []) = [] := by simpa using hh
  exact trimL_append_ne _ _ h this

/-- a line with visible first and last characters, followed by its newline, trims to itself -/
theorem trim_line (p : Str) {c d : Char} (hc : isWs c = false) (hd : isWs d = false) (x : Str)
    (h : c :: x = p ++ [d]) : trim (c :: x ++ ['\n']) = c :: x := by
  have h1 : trimL (c :: x ++ ['\n']) = c :: x ++ ['\n'] := by simp [trimL, hc]
  have hn : isWs '\n' = true := by decide
  simp only [trim, h1, trimR]
  rw [h]
  simp [trimL, hn, hd]

theorem trim_self (p : Str) {c d : Char} (hc : isWs c = false) (hd : isWs d = false) (x : Str)
    (h : c :: x = p ++ [d]) : trim (c :: x) = c :: x := by
  simp only [trim, trimL_cons_of_not hc, trimR]
  rw [h]
  simp [trimL, hd]

/-! ### the `(!stop ~ ANY)*` loop over one line -/

/-- no suffix of `l` consists of blanks only -/
def NoTrail (l : Str) : Prop := ∀ x, x <:+ l → skip x = [] → x = []

theorem noTrail_suffix {l x : Str} (h : NoTrail l) (hx : x <:+ l) : NoTrail x :=
  fun y hy => h y (hy.trans hx)

theorem skip_eq_nil {x : Str} (h : skip x = []) : ∀ c ∈ x, isWsP c = true := by
  induction x with
  | nil => simp
  | cons a x ih =>
    by_cases ha : isWsP a = true
    · have : skip x = [] := by simpa [skip, List.dropWhile, ha] using h
      intro c hc
      rcases List.mem_cons.1 hc with rfl | hc
      · exact ha
      · exact ih this c hc
    · simp [skip, List.dropWhile, ha] at h

theorem noTrail_concat (p : Str) {d : Char} (hd : isWsP d = false) : NoTrail (p ++ [d]) := by
  intro x hx hsk
  rcases List.eq_nil_or_concat x with rfl | ⟨x', e, rfl⟩
  · rfl
  · exfalso
    obtain ⟨t, ht⟩ := hx
    have : t ++ x' ++ [e] = p ++ [d] := by simpa using ht
    have hed : e = d := by
      have := List.append_inj_right' this rfl
      simpa using this
    subst hed
    have := skip_eq_nil hsk e (by simp)
    simp [hd] at this

/-- the state of `repAny` on a line that ends at a visible character `e` where the loop's stop condition holds: every
visible character of the line is consumed, the loop stops in front of `e`, with a positive count as soon as the line is
not empty -/
theorem repAny_term (stop : Str → Bool) (e : Char) (he : isWsP e = false) (rest : Str) (hnl : stop (e :: rest) = true) :
    ∀ (fuel : Nat) (l : Str) (n : Nat), NoTrail l → (n > 0 ∨ skip l = l) → l.length < fuel →
      (∀ x, x ≠ [] → x <:+ l → skip x = x → stop (x ++ e :: rest) = false) →
      ∃ n', repAny stop fuel (l ++ e :: rest) n = (e :: rest, n') ∧ n ≤ n' ∧ (l ≠ [] → n < n') := by
  intro fuel
  induction fuel with
  | zero => intro l n _ _ h; omega
  | succ f ih =>
    intro l n hnt hn hlen hst
    have hs1 : (if n > 0 then skip (l ++ e :: rest) else l ++ e :: rest) = skip l ++ e :: rest := by
      split
      · exact skip_append_of_not l rest he
      · rename_i hn0
        have : skip l = l := by rcases hn with h | h; exact absurd h hn0; exact h
        rw [this]
    unfold repAny
    simp only [hs1]
    cases hsk : skip l with
    | nil =>
      have hl : l = [] := hnt l (List.suffix_refl l) hsk
      subst hl
      simp [hnl]
    | cons c l' =>
      have hsuf : (c :: l') <:+ l := hsk ▸ skip_suffix l
      have hstab : skip (c :: l') = c :: l' := by rw [← hsk, skip_skip]
      have hstop := hst (c :: l') (by simp) hsuf hstab
      have hl'suf : l' <:+ l := (List.suffix_cons c l').trans hsuf
      have hlen' : l'.length < f := by
        have := hsuf.length_le
        simp at this
        omega
      have hskip2 : skip (c :: l' ++ e :: rest) = c :: l' ++ e :: rest := by
        rw [skip_append_of_not _ _ he, hstab]
      obtain ⟨n', h1, h2, _⟩ := ih l' (n + 1) (noTrail_suffix hnt hl'suf) (Or.inl (by omega)) hlen'
        (fun x hx hxs hxk => hst x hx (hxs.trans hl'suf) hxk)
      refine ⟨n', ?_, by omega, fun _ => by omega⟩
      simp only [hstop, Bool.false_eq_true, ↓reduceIte, hskip2]
      simpa using h1

theorem repAny_line (stop : Str → Bool) (rest : Str) (hnl : stop ('\n' :: rest) = true) :
    ∀ (fuel : Nat) (l : Str) (n : Nat), NoTrail l → (n > 0 ∨ skip l = l) → l.length < fuel →
      (∀ x, x ≠ [] → x <:+ l → skip x = x → stop (x ++ '\n' :: rest) = false) →
      ∃ n', repAny stop fuel (l ++ '\n' :: rest) n = ('\n' :: rest, n') ∧ n ≤ n' ∧ (l ≠ [] → n < n') :=
  repAny_term stop '\n' (by decide) rest hnl

/-! ### plain lines -/

/-- a line of a rendered script: visible first and last characters, no line terminator inside -/
def plainB (l : Str) : Bool :=
  l.all (fun c => c != '\n' && c != '\r') &&
  (match l.head? with | some c => !isWs c | none => false) &&
  (match l.getLast? with | some c => !isWs c | none => false)

structure Plain (l : Str) : Prop where
  noNl : ∀ c ∈ l, c ≠ '\n' ∧ c ≠ '\r'
  head : ∃ c x, l = c :: x ∧ isWs c = false
  last : ∃ p d, l = p ++ [d] ∧ isWs d = false

theorem plain_of_plainB {l : Str} (h : plainB l = true) : Plain l := by
  simp only [plainB, Bool.and_eq_true, List.all_eq_true, bne_iff_ne, ne_eq] at h
  obtain ⟨⟨h1, h2⟩, h3⟩ := h
  refine ⟨h1, ?_, ?_⟩
  · cases l with
    | nil => simp at h2
    | cons c x => exact ⟨c, x, rfl, by simpa using h2⟩
  · cases hl : l.getLast? with
    | none => simp [hl] at h3
    | some d =>
      obtain ⟨p, hp⟩ := List.getLast?_eq_some_iff.1 hl
      exact ⟨p, d, hp, by simpa [hl] using h3⟩

theorem isWsP_of_not_isWs {c : Char} (h : isWs c = false) : isWsP c = false := by
  cases hc : isWsP c with
  | false => rfl
  | true => rw [isWsP_isWs hc] at h; cases h

theorem Plain.ne_nil {l : Str} (h : Plain l) : l ≠ [] := by
  obtain ⟨c, x, rfl, _⟩ := h.head; simp

theorem Plain.skipApp {l : Str} (h : Plain l) (r : Str) : skip (l ++ r) = l ++ r := by
  obtain ⟨c, x, rfl, hc⟩ := h.head
  exact skip_cons_of_not (isWsP_of_not_isWs hc)

theorem Plain.skipSelf {l : Str} (h : Plain l) : skip l = l := by
  simpa using h.skipApp []

theorem Plain.noTrail {l : Str} (h : Plain l) : NoTrail l := by
  obtain ⟨p, d, rfl, hd⟩ := h.last
  exact noTrail_concat p (isWsP_of_not_isWs hd)

theorem Plain.trim_line {l : Str} (h : Plain l) : trim (l ++ ['\n']) = l := by
  obtain ⟨c, x, rfl, hc⟩ := h.head
  obtain ⟨p, d, hp, hd⟩ := h.last
  exact C14.trim_line p hc hd x hp

theorem Plain.trim_self {l : Str} (h : Plain l) : trim l = l := by
  obtain ⟨c, x, rfl, hc⟩ := h.head
  obtain ⟨p, d, hp, hd⟩ := h.last
  exact C14.trim_self p hc hd x hp

theorem Plain.trim_ne {l : Str} (h : Plain l) (r : Str) : trim (l ++ r) ≠ [] := by
  obtain ⟨c, x, rfl, hc⟩ := h.head
  exact trim_ne_nil _ hc

theorem atNewline_cons {c : Char} (x : Str) (h1 : c ≠ '\n') (h2 : c ≠ '\r') : pNewline (c :: x) = none := by
  unfold pNewline
  split <;> simp_all

theorem Plain.notNl {l : Str} (h : Plain l) (rest x : Str) (hx : x ≠ []) (hs : x <:+ l) :
    pNewline (x ++ '\n' :: rest) = none := by
  cases x with
  | nil => exact absurd rfl hx
  | cons c x' =>
    have hc : c ∈ l := hs.subset (by simp)
    exact atNewline_cons _ (h.noNl c hc).1 (h.noNl c hc).2

/-- `"kw" ~ (NEWLINE | EOI)`-like keywords match a plain line only if the line is the keyword -/
theorem kwEnd_none (fin : Str → Option Str) (hfin : ∀ c x, c ≠ '\n' → c ≠ '\r' → fin (c :: x) = none)
    (w l rest : Str) (hw : '\n' ∉ w) (hl : Plain l) (hne : l ≠ w) :
    (pLit w (l ++ '\n' :: rest)).bind (fun r => fin (skip r)) = none := by
  unfold pLit
  rw [startsWith_line l rest w hw]
  by_cases hsw : startsWith l w = true
  · have hl' := startsWith_eq hsw
    generalize l.drop w.length = l' at hl'
    subst hl'
    have hne' : l' ≠ [] := by intro h; subst h; simp at hne
    simp only [startsWith_append, ↓reduceIte, Option.bind, List.append_assoc, List.drop_left]
    rw [skip_append_of_not l' rest (by decide)]
    have hsuf : l' <:+ w ++ l' := List.suffix_append w l'
    cases hsk : skip l' with
    | nil => exact absurd (hl.noTrail l' hsuf hsk) hne'
    | cons c y =>
      have hc : c ∈ w ++ l' := (hsk ▸ (skip_suffix l').trans hsuf).subset (by simp)
      exact hfin c _ (hl.noNl c hc).1 (hl.noNl c hc).2
  · simp [hsw]

/-! ### commands -/

/-- the line does not begin like a block keyword of the grammar (`KW_LIST`) -/
def notKwB (l : Str) : Bool :=
  !startsWith l "if ".toList && !startsWith l "for ".toList && !startsWith l "else if ".toList &&
  !startsWith l "while ".toList && l != "fi".toList && l != "done".toList && l != "else".toList

theorem pNlOrEoi_cons {c : Char} (x : Str) (h1 : c ≠ '\n') (h2 : c ≠ '\r') : pNlOrEoi (c :: x) = none := by
  simp [pNlOrEoi, atNewline_cons x h1 h2]

theorem pLit_line_none (w l rest : Str) (hw : '\n' ∉ w) (h : startsWith l w = false) :
    pLit w (l ++ '\n' :: rest) = none := by
  unfold pLit
  rw [startsWith_line _ _ _ hw, h]
  rfl

theorem kwList_plain {l : Str} (hl : Plain l) (hk : notKwB l = true) (rest : Str) :
    kwList (l ++ '\n' :: rest) = false := by
  simp only [notKwB, Bool.and_eq_true, Bool.not_eq_true', bne_iff_ne, ne_eq] at hk
  obtain ⟨⟨⟨⟨⟨⟨h1, h2⟩, h3⟩, h4⟩, h5⟩, h6⟩, h7⟩ := hk
  have e1 : kwIf (l ++ '\n' :: rest) = none :=
    pLit_line_none _ l rest (by decide) h1
  have e2 : kwFor (l ++ '\n' :: rest) = none :=
    pLit_line_none _ l rest (by decide) h2
  have e3 : kwElseIf (l ++ '\n' :: rest) = none :=
    pLit_line_none _ l rest (by decide) h3
  have e4 : kwWhile (l ++ '\n' :: rest) = none :=
    pLit_line_none _ l rest (by decide) h4
  have e5 : kwFi (l ++ '\n' :: rest) = none :=
    kwEnd_none pNlOrEoi (fun c x => pNlOrEoi_cons x) _ l rest (by decide) hl h5
  have e6 : kwDone (l ++ '\n' :: rest) = none :=
    kwEnd_none pNlOrEoi (fun c x => pNlOrEoi_cons x) _ l rest (by decide) hl h6
  have e7 : kwElse (l ++ '\n' :: rest) = none :=
    kwEnd_none pNewline (fun c x => atNewline_cons x) _ l rest (by decide) hl h7
  simp [kwList, e1, e2, e3, e4, e5, e6, e7]

theorem plain_repAny_nl {l : Str} (hl : Plain l) (rest : Str) (fuel : Nat) (hf : l.length < fuel) :
    ∃ n, repAny atNewline fuel (l ++ '\n' :: rest) 0 = ('\n' :: rest, n) ∧ 0 < n := by
  obtain ⟨n, h1, _, h3⟩ := repAny_line atNewline rest (by simp [atNewline, pNewline]) fuel l 0 hl.noTrail
    (Or.inr hl.skipSelf) hf (fun x hx hs _ => by simp [atNewline, hl.notNl rest x hx hs])
  exact ⟨n, h1, h3 hl.ne_nil⟩

/-- `CMD` on a plain line that is no keyword: the pair spans the line and its newline -/
theorem pCmd_plain {l : Str} (hl : Plain l) (hk : notKwB l = true) (rest : Str) :
    pCmd (l ++ '\n' :: rest) = some (.node "CMD" (l ++ ['\n']) [], rest) := by
  obtain ⟨n, hn, _⟩ := plain_repAny_nl hl rest ((l ++ '\n' :: rest).length + 1) (by simp; omega)
  have hsp : span (l ++ '\n' :: rest) rest = l ++ ['\n'] := by
    have := span_append (l ++ ['\n']) rest
    simpa using this
  unfold pCmd
  simp only [kwList_plain hl hk rest, Bool.false_eq_true, ↓reduceIte, hl.skipApp, hn]
  simp [skip, List.dropWhile, isWsP, pNewline, hsp]

/-! ### conditions (`TEST`) and block heads -/

/-- the text reads `;` blanks `word` blanks: with the newline that follows it is a `DUMMY_THEN` / `DUMMY_DO` -/
def dummyHit (w : Str) : Str → Bool
  | ';' :: x' => startsWith (skip x') w && (skip ((skip x').drop w.length) = [])
  | _ => false

theorem dummy_line (w : Str) (hw : '\n' ∉ w) (x rest : Str) (hx : ∀ c ∈ x, c ≠ '\n' ∧ c ≠ '\r') :
    dummy w (x ++ '\n' :: rest) = if dummyHit w x then some rest else none := by
  cases x with
  | nil => simp [dummy, pLit, startsWith, dummyHit]
  | cons c x' =>
    by_cases hc : c = ';'
    · subst hc
      have hws : isWsP '\n' = false := by decide
      have h1 : pLit [';'] (';' :: x' ++ '\n' :: rest) = some (x' ++ '\n' :: rest) := pLit_append [';'] _
      simp only [dummy, h1, Option.bind, dummyHit]
      rw [skip_append_of_not x' rest hws]
      have hysuf : skip x' <:+ x' := skip_suffix x'
      generalize skip x' = y at hysuf
      unfold pLit
      rw [startsWith_line y rest w hw]
      by_cases hsw : startsWith y w = true
      · have hy := startsWith_eq hsw
        have hd : (y ++ '\n' :: rest).drop w.length = y.drop w.length ++ '\n' :: rest := by
          conv => lhs; rw [hy]
          simp
        have hy'suf : y.drop w.length <:+ y := List.drop_suffix _ _
        simp only [hsw, ↓reduceIte, hd, Bool.true_and]
        generalize y.drop w.length = y' at hy'suf
        rw [skip_append_of_not y' rest hws]
        cases hsk : skip y' with
        | nil => simp [pNewline]
        | cons d z =>
          have hdm : d ∈ ';' :: x' :=
            List.mem_cons_of_mem _ ((hsk ▸ ((skip_suffix y').trans (hy'suf.trans hysuf))).subset (by simp))
          simp [atNewline_cons _ (hx d hdm).1 (hx d hdm).2]
      · simp [hsw]
    · simp [dummy, pLit, startsWith, dummyHit, hc]

/-- no place of the text looks like `; then` / `; do` closing the line -/
def suffixes : Str → List Str
  | [] => [[]]
  | c :: x => (c :: x) :: suffixes x

theorem mem_suffixes {x t : Str} (h : x <:+ t) : x ∈ suffixes t := by
  induction t with
  | nil => simp [List.suffix_nil.1 h, suffixes]
  | cons c t ih =>
    rcases List.suffix_cons_iff.1 h with rfl | h'
    · simp [suffixes]
    · simp [suffixes, ih h']

def noDummyB (t : Str) : Bool :=
  (suffixes t).all (fun x => !dummyHit "then".toList x && !dummyHit "do".toList x)

/-- a condition (or `for` word list) of a rendered script -/
structure PlainTest (t : Str) : Prop extends Plain t where
  noDummy : ∀ x, x <:+ t → dummyHit "then".toList x = false ∧ dummyHit "do".toList x = false

theorem plainTest_of {t : Str} (h1 : plainB t = true) (h2 : noDummyB t = true) : PlainTest t := by
  refine ⟨plain_of_plainB h1, fun x hx => ?_⟩
  simp only [noDummyB, List.all_eq_true, Bool.and_eq_true, Bool.not_eq_true'] at h2
  exact h2 x (mem_suffixes hx)

def testStop (x : Str) : Bool := atNewline x || (dummyThen x).isSome || (dummyDo x).isSome

theorem PlainTest.stop {t : Str} (h : PlainTest t) (rest x : Str) (hx : x ≠ []) (hs : x <:+ t) :
    testStop (x ++ '\n' :: rest) = false := by
  have hnl : ∀ c ∈ x, c ≠ '\n' ∧ c ≠ '\r' := fun c hc => h.noNl c (hs.subset hc)
  have h1 := dummy_line "then".toList (by decide) x rest hnl
  have h2 := dummy_line "do".toList (by decide) x rest hnl
  rw [(h.noDummy x hs).1] at h1
  rw [(h.noDummy x hs).2] at h2
  simp only [testStop, atNewline, h.toPlain.notNl rest x hx hs, dummyThen, dummyDo, h1, h2]
  rfl

/-- `TEST` on a plain condition followed by its newline: the pair's text is the condition -/
theorem pTest_plain {t : Str} (h : PlainTest t) (rest : Str) :
    pTest (t ++ '\n' :: rest) = some (.node "TEST" t [], '\n' :: rest) := by
  obtain ⟨n, h1, _, h3⟩ := repAny_line testStop rest (by simp [testStop, atNewline, pNewline])
    ((t ++ '\n' :: rest).length + 1) t 0 h.noTrail (Or.inr h.skipSelf) (by simp; omega)
    (fun x hx hs _ => h.stop rest x hx hs)
  have hn := h3 h.ne_nil
  have hsp : span (t ++ '\n' :: rest) ('\n' :: rest) = t := span_append t _
  have h1' : repAny (fun x => atNewline x || (dummyThen x).isSome || (dummyDo x).isSome)
      ((t ++ '\n' :: rest).length + 1) (t ++ '\n' :: rest) 0 = ('\n' :: rest, n) := h1
  have : n ≠ 0 := by omega
  unfold pTest
  simp only [h1', hsp, this, ↓reduceIte]

/-- a head `KW ~ TEST ~ NEWLINE` -/
theorem pHead_plain (rule : String) (kwt : Str) (kw dum : Str → Option Str) (hkw : ∀ x, kw (kwt ++ x) = some x)
    (hdum : ∀ x, dum ('\n' :: x) = none) {t : Str} (h : PlainTest t) (rest : Str) :
    pHead rule kw dum (kwt ++ (t ++ '\n' :: rest)) =
      some (.node rule (kwt ++ t ++ ['\n']) [.node "TEST" t []], rest) := by
  have hsp : span (kwt ++ (t ++ '\n' :: rest)) rest = kwt ++ t ++ ['\n'] := by
    have := span_append (kwt ++ t ++ ['\n']) rest
    simpa using this
  have hsk : skip ('\n' :: rest) = '\n' :: rest := skip_cons_of_not (by decide)
  unfold pHead
  simp only [hkw, h.skipApp, pTest_plain h rest, hsk, hdum, pNewline, hsp]

theorem nameChar_not_ws {c : Char} (h : isNameChar c = true) : isWs c = false := by
  simp only [isNameChar, isAlphaA, isDigitA, Bool.or_eq_true, Bool.and_eq_true, decide_eq_true_eq] at h
  simp only [Char.le_def, UInt32.le_iff_toNat_le] at h
  have hv : c.toNat = c.val.toNat := rfl
  simp only [isWs, hv]
  rcases h with ((⟨h1, h2⟩ | ⟨h1, h2⟩) | ⟨h1, h2⟩) | rfl
  · simp at h1 h2 ⊢; omega
  · simp at h1 h2 ⊢; omega
  · simp at h1 h2 ⊢; omega
  · decide

/-- a loop variable: `[A-Za-z_][A-Za-z0-9_]*` -/
def identB : Str → Bool
  | c :: cs => (isAlphaA c || c = '_') && cs.all isNameChar
  | [] => false

theorem identB_all {v : Str} (h : identB v = true) : ∀ c ∈ v, isNameChar c = true := by
  cases v with
  | nil => simp [identB] at h
  | cons c cs =>
    simp only [identB, Bool.and_eq_true, List.all_eq_true] at h
    intro d hd
    rcases List.mem_cons.1 hd with rfl | hd
    · rcases Bool.or_eq_true _ _ ▸ h.1 with h1 | h1 <;> simp [isNameChar, h1]
    · exact h.2 d hd

theorem ident_plain {v : Str} (h : identB v = true) : Plain v := by
  have hall := identB_all h
  have hne : v ≠ [] := by intro e; subst e; simp [identB] at h
  refine ⟨fun c hc => ?_, ?_, ?_⟩
  · have := nameChar_not_ws (hall c hc)
    constructor <;> (intro e; subst e; revert this; decide)
  · cases v with
    | nil => exact absurd rfl hne
    | cons c x => exact ⟨c, x, rfl, nameChar_not_ws (hall c (by simp))⟩
  · rcases List.eq_nil_or_concat v with rfl | ⟨p, d, rfl⟩
    · exact absurd rfl hne
    · exact ⟨p, d, by simp, nameChar_not_ws (hall d (by simp))⟩

theorem dropWhile_all_append (p : Char → Bool) (cs : Str) (c : Char) (x : Str) (hcs : ∀ d ∈ cs, p d = true)
    (hc : p c = false) : (cs ++ c :: x).dropWhile p = c :: x := by
  induction cs with
  | nil => simp [hc]
  | cons a cs ih =>
    have ha := hcs a (by simp)
    simp only [List.cons_append, List.dropWhile, ha]
    exact ih (fun d hd => hcs d (List.mem_cons_of_mem _ hd))

theorem pForVar_ident {v : Str} (h : identB v = true) (x : Str) :
    pForVar (v ++ ' ' :: x) = some (.node "FOR_VAR" v [], ' ' :: x) := by
  cases v with
  | nil => simp [identB] at h
  | cons c cs =>
    have hall := identB_all h
    simp only [identB, Bool.and_eq_true, Bool.or_eq_true, decide_eq_true_eq] at h
    have hd : (cs ++ ' ' :: x).dropWhile (fun x => isAlphaA x || isDigitA x || x = '_') = ' ' :: x :=
      dropWhile_all_append _ cs ' ' x (fun d hd => hall d (List.mem_cons_of_mem _ hd)) (by decide)
    have hsp : span (c :: cs ++ ' ' :: x) (' ' :: x) = c :: cs := span_append (c :: cs) _
    simp only [pForVar, List.cons_append, h.1, ↓reduceIte, hd]
    rw [← List.cons_append, hsp]

/-- `FOR_HEAD` on `for v in words` -/
theorem pForHead_plain {v t : Str} (hv : identB v = true) (ht : PlainTest t) (rest : Str) :
    ∃ t1 t2, pForHead ("for ".toList ++ (v ++ (" in ".toList ++ (t ++ '\n' :: rest)))) =
      some (.node "FOR_HEAD" t1 [.node "FOR_INIT" t2 [.node "FOR_VAR" v [], .node "TEST" t []]], rest) := by
  have hvp := ident_plain hv
  have h1 : kwFor ("for ".toList ++ (v ++ (" in ".toList ++ (t ++ '\n' :: rest)))) =
      some (v ++ (" in ".toList ++ (t ++ '\n' :: rest))) := pLit_append _ _
  have h2 : pForVar (v ++ (" in ".toList ++ (t ++ '\n' :: rest))) =
      some (.node "FOR_VAR" v [], ' ' :: ("in ".toList ++ (t ++ '\n' :: rest))) := pForVar_ident hv _
  have h3 : skip (' ' :: ("in ".toList ++ (t ++ '\n' :: rest))) = "in".toList ++ (' ' :: (t ++ '\n' :: rest)) := by
    simp [skip, List.dropWhile, isWsP]
  have h4 : pLit "in".toList ("in".toList ++ (' ' :: (t ++ '\n' :: rest))) = some (' ' :: (t ++ '\n' :: rest)) :=
    pLit_append _ _
  have h5 : skip (' ' :: (t ++ '\n' :: rest)) = t ++ '\n' :: rest := by
    have := ht.skipApp ('\n' :: rest)
    simpa [skip, List.dropWhile, isWsP] using this
  have hsk : skip ('\n' :: rest) = '\n' :: rest := skip_cons_of_not (by decide)
  have hdum : dummyDo ('\n' :: rest) = none := by simp [dummyDo, dummy, pLit, startsWith]
  unfold pForHead
  simp only [h1, hvp.skipApp, h2, h3, h4, h5, pTest_plain ht rest, hsk, hdum, pNewline]
  exact ⟨_, _, rfl⟩

/-! ### the two spellings of a head: `KW test NEWLINE` and `KW test; then NEWLINE` (`; do` for loops) -/

/-- in front of a `;` that starts the closing `; then` / `; do`, no earlier `;` of the condition can be taken for one -/
theorem dummy_semi (w : Str) (hw : ';' ∉ w) (x R : Str) (hx : ∀ c ∈ x, c ≠ '\n' ∧ c ≠ '\r') (hne : x ≠ []) :
    dummy w (x ++ ';' :: R) = none := by
  cases x with
  | nil => exact absurd rfl hne
  | cons c x' =>
    by_cases hc : c = ';'
    · subst hc
      have hws : isWsP ';' = false := by decide
      have h1 : pLit [';'] (';' :: x' ++ ';' :: R) = some (x' ++ ';' :: R) := pLit_append [';'] _
      simp only [dummy, h1, Option.bind]
      rw [skip_append_of_not x' R hws]
      have hysuf : skip x' <:+ x' := skip_suffix x'
      generalize skip x' = y at hysuf
      unfold pLit
      rw [startsWith_term ';' y R w hw]
      by_cases hsw : startsWith y w = true
      · have hy := startsWith_eq hsw
        have hd : (y ++ ';' :: R).drop w.length = y.drop w.length ++ ';' :: R := by
          conv => lhs; rw [hy]
          simp
        have hy'suf : y.drop w.length <:+ y := List.drop_suffix _ _
        simp only [hsw, ↓reduceIte, hd]
        generalize y.drop w.length = y' at hy'suf
        rw [skip_append_of_not y' R hws]
        cases hsk : skip y' with
        | nil => simp [pNewline]
        | cons d z =>
          have hdm : d ∈ ';' :: x' :=
            List.mem_cons_of_mem _ ((hsk ▸ ((skip_suffix y').trans (hy'suf.trans hysuf))).subset (by simp))
          simp [atNewline_cons _ (hx d hdm).1 (hx d hdm).2]
      · simp [hsw]
    · simp [dummy, pLit, startsWith, hc]

theorem PlainTest.stop_semi {t : Str} (h : PlainTest t) (R x : Str) (hx : x ≠ []) (hs : x <:+ t) :
    testStop (x ++ ';' :: R) = false := by
  have hnl : ∀ c ∈ x, c ≠ '\n' ∧ c ≠ '\r' := fun c hc => h.noNl c (hs.subset hc)
  have h1 := dummy_semi "then".toList (by decide) x R hnl hx
  have h2 := dummy_semi "do".toList (by decide) x R hnl hx
  have h3 : pNewline (x ++ ';' :: R) = none := by
    cases x with
    | nil => exact absurd rfl hx
    | cons c x' => exact atNewline_cons _ (hnl c (by simp)).1 (hnl c (by simp)).2
  simp only [testStop, atNewline, h3, dummyThen, dummyDo, h1, h2]
  rfl

/-- `TEST` on a plain condition followed by `; then NEWLINE` / `; do NEWLINE` -/
theorem pTest_semi {t : Str} (h : PlainTest t) (R : Str) (hstop : testStop (';' :: R) = true) :
    pTest (t ++ ';' :: R) = some (.node "TEST" t [], ';' :: R) := by
  obtain ⟨n, h1, _, h3⟩ := repAny_term testStop ';' (by decide) R hstop
    ((t ++ ';' :: R).length + 1) t 0 h.noTrail (Or.inr h.skipSelf) (by simp; omega)
    (fun x hx hs _ => h.stop_semi R x hx hs)
  have hn := h3 h.ne_nil
  have hsp : span (t ++ ';' :: R) (';' :: R) = t := span_append t _
  have h1' : repAny (fun x => atNewline x || (dummyThen x).isSome || (dummyDo x).isSome)
      ((t ++ ';' :: R).length + 1) (t ++ ';' :: R) 0 = (';' :: R, n) := h1
  have : n ≠ 0 := by omega
  unfold pTest
  simp only [h1', hsp, this, ↓reduceIte]

/-- how a head line ends: a bare newline, or `; then` / `; do` and a newline -/
def hEnd (semi : Bool) (w : Str) : Str := if semi then ';' :: ' ' :: (w ++ ['\n']) else ['\n']

theorem hEnd_len (semi : Bool) (w : Str) : 1 ≤ (hEnd semi w).length := by
  cases semi <;> simp [hEnd]

theorem dummyThen_end (rest : Str) : dummyThen (hEnd true "then".toList ++ rest) = some rest := by
  simp [hEnd, dummyThen, dummy, pLit, startsWith, skip, isWsP, pNewline, List.dropWhile]

theorem dummyDo_end (rest : Str) : dummyDo (hEnd true "do".toList ++ rest) = some rest := by
  simp [hEnd, dummyDo, dummy, pLit, startsWith, skip, isWsP, pNewline, List.dropWhile]

/-- the closing word of a head and the grammar rule that recognises it -/
def IsDummy (dum : Str → Option Str) (w : Str) : Prop :=
  (dum = dummyThen ∧ w = "then".toList) ∨ (dum = dummyDo ∧ w = "do".toList)

theorem IsDummy.hit {dum : Str → Option Str} {w : Str} (h : IsDummy dum w) (rest : Str) :
    dum (hEnd true w ++ rest) = some rest := by
  rcases h with ⟨rfl, rfl⟩ | ⟨rfl, rfl⟩
  · exact dummyThen_end rest
  · exact dummyDo_end rest

theorem IsDummy.nl {dum : Str → Option Str} {w : Str} (h : IsDummy dum w) (rest : Str) :
    dum ('\n' :: rest) = none := by
  rcases h with ⟨rfl, rfl⟩ | ⟨rfl, rfl⟩ <;> simp [dummyThen, dummyDo, dummy, pLit, startsWith]

theorem hEnd_skip (semi : Bool) (w rest : Str) : skip (hEnd semi w ++ rest) = hEnd semi w ++ rest := by
  cases semi <;> exact skip_cons_of_not (by decide)

theorem pTest_hEnd {dum : Str → Option Str} {w : Str} (hd : IsDummy dum w) (semi : Bool) {t : Str} (h : PlainTest t)
    (rest : Str) : pTest (t ++ (hEnd semi w ++ rest)) = some (.node "TEST" t [], hEnd semi w ++ rest) := by
  cases semi with
  | false => exact pTest_plain h rest
  | true =>
    have hstop : testStop (hEnd true w ++ rest) = true := by
      rcases hd with ⟨rfl, rfl⟩ | ⟨rfl, rfl⟩
      · unfold testStop; rw [dummyThen_end]; simp
      · unfold testStop; rw [dummyDo_end]; simp
    exact pTest_semi h _ hstop

/-- a head `KW ~ TEST ~ (DUMMY | NEWLINE)` in either spelling -/
theorem pHead_style (rule : String) (kwt : Str) (kw dum : Str → Option Str) (w : Str)
    (hkw : ∀ x, kw (kwt ++ x) = some x) (hd : IsDummy dum w) (semi : Bool) {t : Str} (h : PlainTest t) (rest : Str) :
    ∃ y, pHead rule kw dum (kwt ++ (t ++ (hEnd semi w ++ rest))) = some (.node rule y [.node "TEST" t []], rest) := by
  unfold pHead
  simp only [hkw, h.skipApp, pTest_hEnd hd semi h rest, hEnd_skip]
  cases semi with
  | true => simp only [hd.hit]; exact ⟨_, rfl⟩
  | false =>
    have : hEnd false w ++ rest = '\n' :: rest := rfl
    simp only [this, hd.nl, pNewline]; exact ⟨_, rfl⟩

/-- `FOR_HEAD` on `for v in words` / `for v in words; do` -/
theorem pForHead_style (semi : Bool) {v t : Str} (hv : identB v = true) (ht : PlainTest t) (rest : Str) :
    ∃ t1 t2, pForHead ("for ".toList ++ (v ++ (" in ".toList ++ (t ++ (hEnd semi "do".toList ++ rest))))) =
      some (.node "FOR_HEAD" t1 [.node "FOR_INIT" t2 [.node "FOR_VAR" v [], .node "TEST" t []]], rest) := by
  have hd : IsDummy dummyDo "do".toList := Or.inr ⟨rfl, rfl⟩
  generalize hE : hEnd semi "do".toList ++ rest = E
  have hvp := ident_plain hv
  have h1 : kwFor ("for ".toList ++ (v ++ (" in ".toList ++ (t ++ E)))) =
      some (v ++ (" in ".toList ++ (t ++ E))) := pLit_append _ _
  have h2 : pForVar (v ++ (" in ".toList ++ (t ++ E))) =
      some (.node "FOR_VAR" v [], ' ' :: ("in ".toList ++ (t ++ E))) := pForVar_ident hv _
  have h3 : skip (' ' :: ("in ".toList ++ (t ++ E))) = "in".toList ++ (' ' :: (t ++ E)) := by
    simp [skip, List.dropWhile, isWsP]
  have h4 : pLit "in".toList ("in".toList ++ (' ' :: (t ++ E))) = some (' ' :: (t ++ E)) :=
    pLit_append _ _
  have h5 : skip (' ' :: (t ++ E)) = t ++ E := by
    have := ht.skipApp E
    simpa [skip, List.dropWhile, isWsP] using this
  have h6 : pTest (t ++ E) = some (.node "TEST" t [], E) := by subst hE; exact pTest_hEnd hd semi ht rest
  have h7 : skip E = E := by subst hE; exact hEnd_skip _ _ _
  unfold pForHead
  simp only [h1, hvp.skipApp, h2, h3, h4, h5, h6, h7]
  subst hE
  cases semi with
  | true => simp only [hd.hit]; exact ⟨_, _, rfl⟩
  | false =>
    have : hEnd false "do".toList ++ rest = '\n' :: rest := rfl
    simp only [this, hd.nl, pNewline]; exact ⟨_, _, rfl⟩

/-! ### the canonical layout of an AST, the class of ASTs covered, the fuel they need -/

def Block.isNil : Block → Bool
  | .nil => true
  | .cons _ _ => false

def Arms.isNil : Arms → Bool
  | .nil => true
  | .cons _ _ _ => false

mutual
/-- `rS semi s k`: the text of statement `s` followed by `k` (one statement per line, no indentation, every line ended by a
newline; `if c` / `else if c` / `else` / `fi`, `for v in words` / `done`, `while c` / `done`; with `semi` every head is
spelled `if c; then`, `else if c; then`, `for v in words; do`, `while c; do`) -/
def rS (sm : Bool) : Stmt → Str → Str
  | .cmd l, k => l ++ '\n' :: k
  | .brk, k => "break".toList ++ '\n' :: k
  | .cont, k => "continue".toList ++ '\n' :: k
  | .ite arms els, k =>
    rA sm "if ".toList arms (if els.isNil then "fi\n".toList ++ k else "else\n".toList ++ rB sm els ("fi\n".toList ++ k))
  | .for v init body, k =>
    "for ".toList ++ (v ++ (" in ".toList ++ (init ++ (hEnd sm "do".toList ++ rB sm body ("done\n".toList ++ k)))))
  | .whl t body, k => "while ".toList ++ (t ++ (hEnd sm "do".toList ++ rB sm body ("done\n".toList ++ k)))
def rB (sm : Bool) : Block → Str → Str
  | .nil, k => k
  | .cons s b, k => rS sm s (rB sm b k)
/-- the arms of an `if`: the first is introduced by `kw = "if "`, the others by `"else if "` -/
def rA (sm : Bool) (kw : Str) : Arms → Str → Str
  | .nil, k => k
  | .cons t body rest, k => kw ++ (t ++ (hEnd sm "then".toList ++ rB sm body (rA sm "else if ".toList rest k)))
end

/-- the script text of a block; `semi` selects the spelling of the heads -/
def render (sm : Bool) (b : Block) : Str := rB sm b []

variable {sm : Bool}

def testOkB (args : List Str) (t : Str) : Bool := plainB t && noDummyB t && (expandArgs args t == t)

mutual
/-- the ASTs covered by the round trip: plain command lines that are no keyword / `break` / `continue` and are untouched by
positional expansion; plain conditions with no `; then` / `; do` ending; identifiers as loop variables; no empty body;
an `if` has at least one arm -/
def okS (args : List Str) : Stmt → Bool
  | .cmd l => plainB l && notKwB l && (l != "break".toList) && (l != "continue".toList) && (expandArgs args l == l)
  | .brk => true
  | .cont => true
  | .ite arms els => !arms.isNil && okA args arms && okB args els
  | .for v init body => identB v && plainB init && noDummyB init && !body.isNil && okB args body
  | .whl t body => testOkB args t && !body.isNil && okB args body
def okB (args : List Str) : Block → Bool
  | .nil => true
  | .cons s b => okS args s && okB args b
def okA (args : List Str) : Arms → Bool
  | .nil => true
  | .cons t body rest => testOkB args t && !body.isNil && okB args body && okA args rest
end

mutual
/-- parser fuel that suffices for a statement / block / arm list -/
def cS : Stmt → Nat
  | .cmd _ => 0
  | .brk => 0
  | .cont => 0
  | .ite arms els => cA arms + cB els + 3
  | .for _ _ body => cB body + 3
  | .whl _ body => cB body + 3
def cB : Block → Nat
  | .nil => 0
  | .cons s b => cS s + cB b + 1
def cA : Arms → Nat
  | .nil => 0
  | .cons _ body rest => cB body + cA rest + 3
end

/-! ### the block parsers, one unfolding step at a time -/

/-- the alternatives of `EXP_BODY`, in the grammar's order -/
def pItemB (f : Nat) (s : Str) : Option (PT × Str) :=
  match pCmd s with
  | some x => some x
  | none => match pIf f s with
    | some x => some x
    | none => match pWhile f s with
      | some x => some x
      | none => pFor f s

/-- the alternatives of the top rule `EXP`, in the grammar's order -/
def pItemT (f : Nat) (s : Str) : Option (PT × Str) :=
  match pIf f s with
  | some x => some x
  | none => match pFor f s with
    | some x => some x
    | none => match pWhile f s with
      | some x => some x
      | none => pCmd s

theorem pBodyItems_succ (f : Nat) (s : Str) :
    pBodyItems (f + 1) s =
      match pItemB f s with
      | none => ([], s)
      | some (t, r) =>
        if (pBodyItems f (skip r)).1 = [] then ([t], r) else (t :: (pBodyItems f (skip r)).1, (pBodyItems f (skip r)).2) := by
  rw [pBodyItems]
  simp only [pItemB]
  rfl

theorem pTop_succ (f : Nat) (s : Str) :
    pTop (f + 1) s =
      match pItemT f s with
      | none => ([], s)
      | some (t, r) =>
        if r.length < s.length then
          (if (pTop f (skip r)).1 = [] then ([t], r) else (t :: (pTop f (skip r)).1, (pTop f (skip r)).2))
        else ([t], r) := by
  rw [pTop]
  simp only [pItemT]
  rfl

theorem pHead_none (rule : String) (kw dum : Str → Option Str) (s : Str) (h : kw s = none) :
    pHead rule kw dum s = none := by
  simp [pHead, h]

theorem pBranch_none (f : Nat) (rule : String) (head : Str → Option (PT × Str)) (s : Str) (h : head s = none) :
    pBranch f rule head s = none := by
  cases f with
  | zero => simp [pBranch]
  | succ f => simp [pBranch, h]

theorem pIf_none (f : Nat) (s : Str) (h : kwIf (skip s) = none) : pIf f s = none := by
  cases f with
  | zero => simp [pIf]
  | succ f => simp [pIf, pBranch_none f _ _ _ (pHead_none "IF_HEAD" kwIf dummyThen _ h)]

theorem pWhile_none (f : Nat) (s : Str) (h : kwWhile (skip s) = none) : pWhile f s = none := by
  cases f with
  | zero => simp [pWhile]
  | succ f => simp [pWhile, pHead_none "WHILE_HEAD" kwWhile dummyDo _ h]

theorem pFor_none (f : Nat) (s : Str) (h : kwFor (skip s) = none) : pFor f s = none := by
  cases f with
  | zero => simp [pFor]
  | succ f => simp [pFor, pForHead, h]

theorem pElseIfs_none (f : Nat) (s : Str) (h : kwElseIf (skip s) = none) : pElseIfs f s = ([], s) := by
  cases f with
  | zero => simp [pElseIfs]
  | succ f => simp [pElseIfs, pBranch_none f _ _ _ (pHead_none "IF_ELSEIF_HEAD" kwElseIf dummyThen _ h)]

/-- a place where a statement list ends: no statement of any kind starts here -/
structure Stop (r : Str) : Prop where
  skipSelf : skip r = r
  cmd : pCmd r = none
  kif : kwIf r = none
  kwh : kwWhile r = none
  kfor : kwFor r = none

theorem Stop.itemB {r : Str} (h : Stop r) (f : Nat) : pItemB f r = none := by
  have h1 := pIf_none f r (by rw [h.skipSelf]; exact h.kif)
  have h2 := pWhile_none f r (by rw [h.skipSelf]; exact h.kwh)
  have h3 := pFor_none f r (by rw [h.skipSelf]; exact h.kfor)
  simp [pItemB, h.cmd, h1, h2, h3]

theorem Stop.itemT {r : Str} (h : Stop r) (f : Nat) : pItemT f r = none := by
  have h1 := pIf_none f r (by rw [h.skipSelf]; exact h.kif)
  have h2 := pWhile_none f r (by rw [h.skipSelf]; exact h.kwh)
  have h3 := pFor_none f r (by rw [h.skipSelf]; exact h.kfor)
  simp [pItemT, h.cmd, h1, h2, h3]

theorem Stop.bodyItems {r : Str} (h : Stop r) (f : Nat) : pBodyItems f r = ([], r) := by
  cases f with
  | zero => simp [pBodyItems]
  | succ f => rw [pBodyItems_succ, h.itemB]

theorem Stop.top {r : Str} (h : Stop r) (f : Nat) : pTop f r = ([], r) := by
  cases f with
  | zero => simp [pTop]
  | succ f => rw [pTop_succ, h.itemT]

theorem stop_nil : Stop [] := by
  refine ⟨rfl, ?_, ?_, ?_, ?_⟩ <;>
    simp [pCmd, kwList, kwIf, kwFor, kwElseIf, kwElse, kwFi, kwWhile, kwDone, pLit, startsWith, skip, repAny, pNewline]

theorem stop_fi (x : Str) : Stop ("fi\n".toList ++ x) := by
  refine ⟨?_, ?_, ?_, ?_, ?_⟩ <;>
    simp [pCmd, kwList, kwIf, kwFor, kwElseIf, kwElse, kwFi, kwWhile, kwDone, pLit, startsWith, skip, isWsP, pNlOrEoi,
      pNewline, List.dropWhile]

theorem stop_done (x : Str) : Stop ("done\n".toList ++ x) := by
  refine ⟨?_, ?_, ?_, ?_, ?_⟩ <;>
    simp [pCmd, kwList, kwIf, kwFor, kwElseIf, kwElse, kwFi, kwWhile, kwDone, pLit, startsWith, skip, isWsP, pNlOrEoi,
      pNewline, List.dropWhile]

theorem stop_else (x : Str) : Stop ("else\n".toList ++ x) := by
  refine ⟨?_, ?_, ?_, ?_, ?_⟩ <;>
    simp [pCmd, kwList, kwIf, kwFor, kwElseIf, kwElse, kwFi, kwWhile, kwDone, pLit, startsWith, skip, isWsP, pNlOrEoi,
      pNewline, List.dropWhile]

theorem stop_elseif (x : Str) : Stop ("else if ".toList ++ x) := by
  refine ⟨?_, ?_, ?_, ?_, ?_⟩ <;>
    simp [pCmd, kwList, kwIf, kwFor, kwElseIf, kwElse, kwFi, kwWhile, kwDone, pLit, startsWith, skip, isWsP, pNlOrEoi,
      pNewline, List.dropWhile]

/-! equation lemmas, stated by hand (`rfl`) -/
theorem rS_cmd (l k : Str) : rS sm (.cmd l) k = l ++ '\n' :: k := rfl
theorem rS_brk (k : Str) : rS sm .brk k = "break".toList ++ '\n' :: k := rfl
theorem rS_cont (k : Str) : rS sm .cont k = "continue".toList ++ '\n' :: k := rfl
theorem rS_ite (arms : Arms) (els : Block) (k : Str) : rS sm (.ite arms els) k =
    rA sm "if ".toList arms (if els.isNil then "fi\n".toList ++ k else "else\n".toList ++ rB sm els ("fi\n".toList ++ k)) := rfl
theorem rS_for (v init : Str) (body : Block) (k : Str) : rS sm (.for v init body) k =
    "for ".toList ++ (v ++ (" in ".toList ++ (init ++ (hEnd sm "do".toList ++ rB sm body ("done\n".toList ++ k))))) := rfl
theorem rS_whl (t : Str) (body : Block) (k : Str) : rS sm (.whl t body) k =
    "while ".toList ++ (t ++ (hEnd sm "do".toList ++ rB sm body ("done\n".toList ++ k))) := rfl
theorem rB_nil (k : Str) : rB sm .nil k = k := rfl
theorem rB_cons (s : Stmt) (b : Block) (k : Str) : rB sm (.cons s b) k = rS sm s (rB sm b k) := rfl
theorem rA_nil (kw k : Str) : rA sm kw .nil k = k := rfl
theorem rA_cons (kw t : Str) (body : Block) (rest : Arms) (k : Str) :
    rA sm kw (.cons t body rest) k =
      kw ++ (t ++ (hEnd sm "then".toList ++ rB sm body (rA sm "else if ".toList rest k))) := rfl

theorem okS_cmd (args : List Str) (l : Str) : okS args (.cmd l) =
    (plainB l && notKwB l && (l != "break".toList) && (l != "continue".toList) && (expandArgs args l == l)) := rfl
theorem okS_ite (args : List Str) (arms : Arms) (els : Block) :
    okS args (.ite arms els) = (!arms.isNil && okA args arms && okB args els) := rfl
theorem okS_for (args : List Str) (v init : Str) (body : Block) : okS args (.for v init body) =
    (identB v && plainB init && noDummyB init && !body.isNil && okB args body) := rfl
theorem okS_whl (args : List Str) (t : Str) (body : Block) : okS args (.whl t body) =
    (testOkB args t && !body.isNil && okB args body) := rfl
theorem okB_cons (args : List Str) (s : Stmt) (b : Block) : okB args (.cons s b) = (okS args s && okB args b) := rfl
theorem okA_cons (args : List Str) (t : Str) (body : Block) (rest : Arms) : okA args (.cons t body rest) =
    (testOkB args t && !body.isNil && okB args body && okA args rest) := rfl

theorem cS_ite (arms : Arms) (els : Block) : cS (.ite arms els) = cA arms + cB els + 3 := rfl
theorem cS_for (v init : Str) (body : Block) : cS (.for v init body) = cB body + 3 := rfl
theorem cS_whl (t : Str) (body : Block) : cS (.whl t body) = cB body + 3 := rfl
theorem cB_nil : cB .nil = 0 := rfl
theorem cB_cons (s : Stmt) (b : Block) : cB (.cons s b) = cS s + cB b + 1 := rfl
theorem cA_cons (t : Str) (body : Block) (rest : Arms) : cA (.cons t body rest) = cB body + cA rest + 3 := rfl

/-! ### lengths: every statement has text; the fuel needed is at most twice the text length -/

theorem rA_len_aux (rBlen : ∀ k, 2 * k.length + cB body ≤ 2 * (rB sm body k).length)
    (rAlen : ∀ k, 2 * k.length + cA rest ≤ 2 * (rA sm "else if ".toList rest k).length)
    (kw t k : Str) (hkw : 1 ≤ kw.length) :
    2 * k.length + cA (.cons t body rest) ≤ 2 * (rA sm kw (.cons t body rest) k).length := by
  have h1 := rBlen (rA sm "else if ".toList rest k)
  have h2 := rAlen k
  have h3 := hEnd_len sm "then".toList
  simp only [rA_cons, cA_cons, List.length_append]
  omega

theorem len_line (l k : Str) : 2 * k.length + 0 + 2 ≤ 2 * (l ++ '\n' :: k).length := by
  simp only [List.length_append, List.length_cons]; omega

theorem len_ite_nil (arms : Arms) (k : Str)
    (hA : ∀ k, 2 * k.length + cA arms ≤ 2 * (rA sm "if ".toList arms k).length) :
    2 * k.length + cS (.ite arms .nil) + 2 ≤ 2 * (rS sm (.ite arms .nil) k).length := by
  have h1 := hA ("fi\n".toList ++ k)
  simp only [List.length_append] at h1
  have : "fi\n".toList.length = 3 := by decide
  simp only [rS_ite, cS_ite, cB_nil, Block.isNil, ↓reduceIte]
  omega

theorem len_ite_cons (arms : Arms) (s : Stmt) (b : Block) (k : Str)
    (hA : ∀ k, 2 * k.length + cA arms ≤ 2 * (rA sm "if ".toList arms k).length)
    (hB : ∀ k, 2 * k.length + cB (.cons s b) ≤ 2 * (rB sm (.cons s b) k).length) :
    2 * k.length + cS (.ite arms (.cons s b)) + 2 ≤ 2 * (rS sm (.ite arms (.cons s b)) k).length := by
  have h1 := hA ("else\n".toList ++ rB sm (.cons s b) ("fi\n".toList ++ k))
  have h2 := hB ("fi\n".toList ++ k)
  simp only [List.length_append] at h1 h2
  have : "fi\n".toList.length = 3 := by decide
  have : "else\n".toList.length = 5 := by decide
  simp only [rS_ite, cS_ite, Block.isNil, Bool.false_eq_true, ↓reduceIte]
  omega

theorem len_for (v init : Str) (body : Block) (k : Str)
    (hB : ∀ k, 2 * k.length + cB body ≤ 2 * (rB sm body k).length) :
    2 * k.length + cS (.for v init body) + 2 ≤ 2 * (rS sm (.for v init body) k).length := by
  have h1 := hB ("done\n".toList ++ k)
  simp only [List.length_append] at h1
  have : "done\n".toList.length = 5 := by decide
  simp only [rS_for, cS_for, List.length_append]
  omega

theorem len_whl (t : Str) (body : Block) (k : Str)
    (hB : ∀ k, 2 * k.length + cB body ≤ 2 * (rB sm body k).length) :
    2 * k.length + cS (.whl t body) + 2 ≤ 2 * (rS sm (.whl t body) k).length := by
  have h1 := hB ("done\n".toList ++ k)
  simp only [List.length_append] at h1
  have : "done\n".toList.length = 5 := by decide
  simp only [rS_whl, cS_whl, List.length_append]
  omega

theorem len_cons (s : Stmt) (b : Block) (k : Str)
    (hS : ∀ k, 2 * k.length + cS s + 2 ≤ 2 * (rS sm s k).length)
    (hB : ∀ k, 2 * k.length + cB b ≤ 2 * (rB sm b k).length) :
    2 * k.length + cB (.cons s b) ≤ 2 * (rB sm (.cons s b) k).length := by
  have h1 := hS (rB sm b k)
  have h2 := hB k
  simp only [rB_cons, cB_cons]
  omega

mutual
theorem rS_len : ∀ (s : Stmt) (k : Str), 2 * k.length + cS s + 2 ≤ 2 * (rS sm s k).length
  | .cmd l, k => len_line l k
  | .brk, k => len_line _ k
  | .cont, k => len_line _ k
  | .ite arms .nil, k => len_ite_nil arms k (fun k => rA_len _ arms k (by decide))
  | .ite arms (.cons s b), k => len_ite_cons arms s b k (fun k => rA_len _ arms k (by decide)) (fun k => rB_len _ k)
  | .for v init body, k => len_for v init body k (fun k => rB_len body k)
  | .whl t body, k => len_whl t body k (fun k => rB_len body k)
theorem rB_len : ∀ (b : Block) (k : Str), 2 * k.length + cB b ≤ 2 * (rB sm b k).length
  | .nil, k => by simp [rB_nil, cB_nil]
  | .cons s b, k => len_cons s b k (fun k => rS_len s k) (fun k => rB_len b k)
theorem rA_len : ∀ (kw : Str) (a : Arms) (k : Str), 1 ≤ kw.length → 2 * k.length + cA a ≤ 2 * (rA sm kw a k).length
  | kw, .nil, k, _ => by simp [rA_nil, cA]
  | kw, .cons t body rest, k, hkw =>
    rA_len_aux (fun k => rB_len body k) (fun k => rA_len _ rest k (by decide)) kw t k hkw
end

theorem rS_longer (s : Stmt) (k : Str) : k.length < (rS sm s k).length := by
  have := rS_len (sm := sm) s k; omega

theorem span_head {c : Char} {s' k : Str} (h : k.length < (c :: s').length) : ∃ x, span (c :: s') k = c :: x := by
  unfold span
  obtain ⟨n, hn⟩ : ∃ n, (c :: s').length - k.length = n + 1 := ⟨(c :: s').length - k.length - 1, by omega⟩
  rw [hn]
  exact ⟨_, rfl⟩

/-! ### the round trip, case by case -/

def StmtRT (sm : Bool) (args : List Str) (s : Stmt) : Prop :=
  ∀ k f, cS s ≤ f → ∃ t, pItemB f (rS sm s k) = some (t, k) ∧ pItemT f (rS sm s k) = some (t, k) ∧ RStmt args s t

def BlockRT (sm : Bool) (args : List Str) (b : Block) : Prop :=
  ∀ k f, Stop k → cB b ≤ f → ∃ ts, pBodyItems f (rB sm b k) = (ts, k) ∧ pTop f (rB sm b k) = (ts, k) ∧ RBlock args b ts

def ArmsRT (sm : Bool) (args : List Str) (arms : Arms) : Prop :=
  ∀ els k f, Stop k → kwElseIf k = none → cA arms ≤ f →
    ∃ brs, pElseIfs f (rA sm "else if ".toList arms k) = (brs, k) ∧
      ∀ brs', RArms args .nil els brs' → RArms args arms els (brs ++ brs')

theorem plain_kws {l : Str} (hk : notKwB l = true) (rest : Str) :
    kwIf (l ++ '\n' :: rest) = none ∧ kwFor (l ++ '\n' :: rest) = none ∧ kwWhile (l ++ '\n' :: rest) = none := by
  simp only [notKwB, Bool.and_eq_true, Bool.not_eq_true', bne_iff_ne, ne_eq] at hk
  obtain ⟨⟨⟨⟨⟨⟨h1, h2⟩, h3⟩, h4⟩, h5⟩, h6⟩, h7⟩ := hk
  exact ⟨pLit_line_none _ l rest (by decide) h1, pLit_line_none _ l rest (by decide) h2,
    pLit_line_none _ l rest (by decide) h4⟩

/-- a plain line is a `CMD` for both rule orders -/
theorem item_line {l : Str} (hl : Plain l) (hk : notKwB l = true) (k : Str) (f : Nat) :
    pItemB f (l ++ '\n' :: k) = some (.node "CMD" (l ++ ['\n']) [], k) ∧
    pItemT f (l ++ '\n' :: k) = some (.node "CMD" (l ++ ['\n']) [], k) := by
  obtain ⟨h1, h2, h3⟩ := plain_kws hk k
  have hs := hl.skipApp ('\n' :: k)
  have e1 := pIf_none f _ (by rw [hs]; exact h1)
  have e2 := pFor_none f _ (by rw [hs]; exact h2)
  have e3 := pWhile_none f _ (by rw [hs]; exact h3)
  simp [pItemB, pItemT, pCmd_plain hl hk k, e1, e2, e3]

theorem stmtRT_cmd (args : List Str) (l : Str) (h : okS args (.cmd l) = true) : StmtRT sm args (.cmd l) := by
  simp only [okS_cmd, Bool.and_eq_true, bne_iff_ne, ne_eq, beq_iff_eq] at h
  obtain ⟨⟨⟨⟨h1, h2⟩, h3⟩, h4⟩, h5⟩ := h
  have hl := plain_of_plainB h1
  intro k f _
  obtain ⟨e1, e2⟩ := item_line hl h2 k f
  exact ⟨_, e1, e2, .cmd hl.trim_line ⟨hl.ne_nil, h4, h3, h5⟩⟩

theorem stmtRT_brk (args : List Str) : StmtRT sm args .brk := by
  have hl : Plain "break".toList := plain_of_plainB (by decide)
  intro k f _
  obtain ⟨e1, e2⟩ := item_line hl (by decide) k f
  exact ⟨_, e1, e2, .brk hl.trim_line⟩

theorem stmtRT_cont (args : List Str) : StmtRT sm args .cont := by
  have hl : Plain "continue".toList := plain_of_plainB (by decide)
  intro k f _
  obtain ⟨e1, e2⟩ := item_line hl (by decide) k f
  exact ⟨_, e1, e2, .cont hl.trim_line⟩

theorem isNil_false_cons {b : Block} (h : b.isNil = false) : ∃ s b', b = .cons s b' := by
  cases b with
  | nil => simp [Block.isNil] at h
  | cons s b' => exact ⟨s, b', rfl⟩

theorem armsNil_false_cons {a : Arms} (h : a.isNil = false) : ∃ t body rest, a = .cons t body rest := by
  cases a with
  | nil => simp [Arms.isNil] at h
  | cons t body rest => exact ⟨t, body, rest, rfl⟩

theorem testOk_plain {args : List Str} {t : Str} (h : testOkB args t = true) : PlainTest t ∧ expandArgs args t = t := by
  simp only [testOkB, Bool.and_eq_true, beq_iff_eq] at h
  exact ⟨plainTest_of h.1.1 h.1.2, h.2⟩

/-- a rendered statement starts with a visible character -/
theorem rS_skip {args : List Str} {s : Stmt} (h : okS args s = true) (k : Str) : skip (rS sm s k) = rS sm s k := by
  cases s with
  | cmd l =>
    simp only [okS_cmd, Bool.and_eq_true] at h
    exact (plain_of_plainB h.1.1.1.1).skipApp _
  | brk => exact skip_cons_of_not (by decide)
  | cont => exact skip_cons_of_not (by decide)
  | ite arms els =>
    simp only [okS_ite, Bool.and_eq_true, Bool.not_eq_true'] at h
    obtain ⟨t, body, rest, rfl⟩ := armsNil_false_cons h.1.1
    rw [rS_ite, rA_cons]
    exact skip_cons_of_not (by decide)
  | «for» v init body => exact skip_cons_of_not (by decide)
  | whl t body => exact skip_cons_of_not (by decide)

theorem rB_skip {args : List Str} {b : Block} (h : okB args b = true) (k : Str) (hk : skip k = k) :
    skip (rB sm b k) = rB sm b k := by
  cases b with
  | nil => exact hk
  | cons s b' =>
    simp only [okB_cons, Bool.and_eq_true] at h
    exact rS_skip h.1 _

theorem rBlock_nil_inv {args : List Str} {b : Block} (h : RBlock args b []) : b = .nil := by
  cases h; rfl

/-- `EXP_BODY` -/
theorem body_rt {args : List Str} {b : Block} (hb : BlockRT sm args b) (hne : b.isNil = false) (k : Str) (f : Nat)
    (hk : Stop k) (hf : cB b + 1 ≤ f) :
    ∃ z kids, pBody f (rB sm b k) = some (.node "EXP_BODY" z kids, k) ∧ RBlock args b kids := by
  obtain ⟨g, rfl⟩ : ∃ g, f = g + 1 := ⟨f - 1, by omega⟩
  obtain ⟨ts, h1, _, h3⟩ := hb k g hk (by omega)
  have hts : ts ≠ [] := by
    intro e; subst e
    rw [rBlock_nil_inv h3] at hne
    simp [Block.isNil] at hne
  refine ⟨span (rB sm b k) k, ts, ?_, h3⟩
  simp [pBody, h1, hts]

/-- `HEAD ~ EXP_BODY` -/
theorem branch_rt {args : List Str} (rule hr : String) (kwt : Str) (kw dum : Str → Option Str) (w : Str)
    (hkw : ∀ x, kw (kwt ++ x) = some x) (hd : IsDummy dum w) {t : Str} (ht : PlainTest t)
    {body : Block} (hb : BlockRT sm args body) (hok : okB args body = true) (hne : body.isNil = false) (k : Str) (f : Nat)
    (hk : Stop k) (hf : cB body + 2 ≤ f) :
    ∃ x y z kids, pBranch f rule (pHead hr kw dum) (kwt ++ (t ++ (hEnd sm w ++ rB sm body k))) =
        some (.node rule x [.node hr y [.node "TEST" t []], .node "EXP_BODY" z kids], k) ∧ RBlock args body kids := by
  obtain ⟨g, rfl⟩ : ∃ g, f = g + 1 := ⟨f - 1, by omega⟩
  obtain ⟨z, kids, h1, h2⟩ := body_rt hb hne k g hk (by omega)
  obtain ⟨y, hy⟩ := pHead_style hr kwt kw dum w hkw hd sm ht (rB sm body k)
  refine ⟨span (kwt ++ (t ++ (hEnd sm w ++ rB sm body k))) k, y, z, kids, ?_, h2⟩
  simp only [pBranch, hy, rB_skip hok k hk.skipSelf, h1]

theorem kwDone_done (k : Str) : kwDone (skip ("done\n".toList ++ k)) = some k := by
  simp [kwDone, pLit, startsWith, skip, isWsP, pNlOrEoi, pNewline, List.dropWhile]

theorem kwFi_fi (k : Str) : kwFi (skip ("fi\n".toList ++ k)) = some k := by
  simp [kwFi, pLit, startsWith, skip, isWsP, pNlOrEoi, pNewline, List.dropWhile]

theorem trim_span_ne {c : Char} {s' k : Str} (hc : isWs c = false) (h : k.length < (c :: s').length) :
    trim (span (c :: s') k) ≠ [] := by
  obtain ⟨x, hx⟩ := span_head h
  rw [hx]
  exact trim_ne_nil x hc

theorem stmtRT_whl (args : List Str) (t : Str) (body : Block) (h : okS args (.whl t body) = true)
    (hb : BlockRT sm args body) : StmtRT sm args (.whl t body) := by
  simp only [okS_whl, Bool.and_eq_true, Bool.not_eq_true'] at h
  obtain ⟨⟨h1, hne⟩, hok⟩ := h
  obtain ⟨ht, hex⟩ := testOk_plain h1
  intro k f hf
  rw [cS_whl] at hf
  obtain ⟨g, rfl⟩ : ∃ g, f = g + 1 := ⟨f - 1, by omega⟩
  obtain ⟨z, kids, hbody, hR⟩ := body_rt hb hne ("done\n".toList ++ k) g (stop_done k) (by omega)
  have hlen := rS_longer (sm := sm) (.whl t body) k
  rw [rS_whl] at hlen ⊢
  obtain ⟨y, hhead⟩ := pHead_style "WHILE_HEAD" "while ".toList kwWhile dummyDo "do".toList (fun x => pLit_append _ x)
    (Or.inr ⟨rfl, rfl⟩) sm ht (rB sm body ("done\n".toList ++ k))
  generalize hs : "while ".toList ++ (t ++ (hEnd sm "do".toList ++ rB sm body ("done\n".toList ++ k))) = s at hlen hhead
  have hsk : skip s = s := by subst hs; exact skip_cons_of_not (by decide)
  have hcmd : pCmd s = none := by
    subst hs; simp [pCmd, kwList, kwWhile, pLit, startsWith]
  have hif : pIf (g + 1) s = none := pIf_none _ _ (by subst hs; simp [kwIf, pLit, startsWith, skip, isWsP])
  have hfor : pFor (g + 1) s = none := pFor_none _ _ (by subst hs; simp [kwFor, pLit, startsWith, skip, isWsP])
  have hw : pWhile (g + 1) s = some (.node "EXP_WHILE" (span s k)
      [.node "WHILE_HEAD" y [.node "TEST" t []], .node "EXP_BODY" z kids], k) := by
    simp only [pWhile, hsk, hhead, rB_skip hok _ (stop_done k).skipSelf, hbody, kwDone_done]
  have htrim : trim (span s k) ≠ [] := by
    subst hs; exact trim_span_ne (by decide) hlen
  refine ⟨.node "EXP_WHILE" (span s k)
      [.node "WHILE_HEAD" y [.node "TEST" t []], .node "EXP_BODY" z kids],
    ?_, ?_, .whl htrim ht.trim_self hex hR⟩
  · simp [pItemB, hcmd, hif, hw]
  · simp [pItemT, hif, hfor, hw]

theorem stmtRT_for (args : List Str) (v init : Str) (body : Block) (h : okS args (.for v init body) = true)
    (hb : BlockRT sm args body) : StmtRT sm args (.for v init body) := by
  simp only [okS_for, Bool.and_eq_true, Bool.not_eq_true'] at h
  obtain ⟨⟨⟨⟨hv, h1⟩, h2⟩, hne⟩, hok⟩ := h
  have ht := plainTest_of h1 h2
  intro k f hf
  rw [cS_for] at hf
  obtain ⟨g, rfl⟩ : ∃ g, f = g + 1 := ⟨f - 1, by omega⟩
  obtain ⟨z, kids, hbody, hR⟩ := body_rt hb hne ("done\n".toList ++ k) g (stop_done k) (by omega)
  obtain ⟨t1, t2, hhead⟩ := pForHead_style sm hv ht (rB sm body ("done\n".toList ++ k))
  have hlen := rS_longer (sm := sm) (.for v init body) k
  rw [rS_for] at hlen ⊢
  generalize hs : "for ".toList ++ (v ++ (" in ".toList ++ (init ++ (hEnd sm "do".toList ++ rB sm body ("done\n".toList ++ k))))) = s
    at hlen hhead
  have hsk : skip s = s := by subst hs; exact skip_cons_of_not (by decide)
  have hcmd : pCmd s = none := by
    subst hs; simp [pCmd, kwList, kwFor, pLit, startsWith]
  have hif : pIf (g + 1) s = none := pIf_none _ _ (by subst hs; simp [kwIf, pLit, startsWith, skip, isWsP])
  have hwh : pWhile (g + 1) s = none := pWhile_none _ _ (by subst hs; simp [kwWhile, pLit, startsWith, skip, isWsP])
  have hw : pFor (g + 1) s = some (.node "EXP_FOR" (span s k)
      [.node "FOR_HEAD" t1 [.node "FOR_INIT" t2 [.node "FOR_VAR" v [], .node "TEST" init []]],
       .node "EXP_BODY" z kids], k) := by
    simp only [pFor, hsk, hhead, rB_skip hok _ (stop_done k).skipSelf, hbody, kwDone_done]
  have htrim : trim (span s k) ≠ [] := by
    subst hs; exact trim_span_ne (by decide) hlen
  refine ⟨.node "EXP_FOR" (span s k)
      [.node "FOR_HEAD" t1 [.node "FOR_INIT" t2 [.node "FOR_VAR" v [], .node "TEST" init []]],
       .node "EXP_BODY" z kids],
    ?_, ?_, .for htrim (ident_plain hv).trim_self ht.trim_self hR⟩
  · simp [pItemB, hcmd, hif, hwh, hw]
  · simp [pItemT, hif, hw]

theorem stop_rA (rest : Arms) {k : Str} (hk : Stop k) : Stop (rA sm "else if ".toList rest k) := by
  cases rest with
  | nil => exact hk
  | cons t body rest => rw [rA_cons]; exact stop_elseif _

theorem armsRT_nil (args : List Str) : ArmsRT sm args .nil := by
  intro els k f hk hke _
  refine ⟨[], ?_, fun brs' h => h⟩
  rw [rA_nil]
  exact pElseIfs_none f k (by rw [hk.skipSelf]; exact hke)

theorem armsRT_cons (args : List Str) (t : Str) (body : Block) (rest : Arms) (h : okA args (.cons t body rest) = true)
    (hb : BlockRT sm args body) (hr : ArmsRT sm args rest) : ArmsRT sm args (.cons t body rest) := by
  simp only [okA_cons, Bool.and_eq_true, Bool.not_eq_true'] at h
  obtain ⟨⟨⟨h1, hne⟩, hok⟩, _⟩ := h
  obtain ⟨ht, hex⟩ := testOk_plain h1
  intro els k f hk hke hf
  rw [cA_cons] at hf
  obtain ⟨g, rfl⟩ : ∃ g, f = g + 1 := ⟨f - 1, by omega⟩
  obtain ⟨x, y, z, kids, hbr, hR⟩ := branch_rt "IF_ELSEIF_BR" "IF_ELSEIF_HEAD" "else if ".toList kwElseIf dummyThen
    "then".toList (fun x => pLit_append _ x) (Or.inl ⟨rfl, rfl⟩) ht hb hok hne
    (rA sm "else if ".toList rest k) g (stop_rA rest hk) (by omega)
  obtain ⟨bs, hbs, hRA⟩ := hr els k g hk hke (by omega)
  rw [rA_cons]
  have hsk : skip ("else if ".toList ++ (t ++ (hEnd sm "then".toList ++ rB sm body (rA sm "else if ".toList rest k)))) =
      "else if ".toList ++ (t ++ (hEnd sm "then".toList ++ rB sm body (rA sm "else if ".toList rest k))) :=
    skip_cons_of_not (by decide)
  refine ⟨.node "IF_ELSEIF_BR" x [.node "IF_ELSEIF_HEAD" y [.node "TEST" t []], .node "EXP_BODY" z kids] :: bs, ?_, ?_⟩
  · simp only [pElseIfs, hsk, hbr, hbs]
  · intro brs' h'
    exact .arm (Or.inr rfl) ht.trim_self hex hR (hRA brs' h')

/-- the `if` statement, given the text `K` of its else-part and `fi`, and what the parser does there -/
theorem ite_core (args : List Str) (t : Str) (body : Block) (rest : Arms) (els : Block) (k K : Str) (g : Nat)
    (hA : okA args (.cons t body rest) = true) (hb : BlockRT sm args body) (hr : ArmsRT sm args rest)
    (hf : cB body + cA rest + 3 ≤ g) (hK : Stop K) (hKe : kwElseIf K = none) (hlen : k.length < K.length)
    (elsPT : List PT)
    (hcase : (kwElse (skip K) = none ∧ kwFi (skip K) = some k ∧ elsPT = []) ∨
      (∃ re b r3, kwElse (skip K) = some re ∧ pBody g (skip re) = some (b, r3) ∧ kwFi (skip r3) = some k ∧
        elsPT = [.node "IF_ELSE_BR" (span (skip K) r3) [.node "KW_ELSE" (span (skip K) re) [], b]]))
    (hRe : RArms args .nil els elsPT) :
    ∃ tr, pItemB (g + 1) (rA sm "if ".toList (.cons t body rest) K) = some (tr, k) ∧
      pItemT (g + 1) (rA sm "if ".toList (.cons t body rest) K) = some (tr, k) ∧ RStmt args (.ite (.cons t body rest) els) tr := by
  simp only [okA_cons, Bool.and_eq_true, Bool.not_eq_true'] at hA
  obtain ⟨⟨⟨h1, hne⟩, hok⟩, _⟩ := hA
  obtain ⟨ht, hex⟩ := testOk_plain h1
  obtain ⟨x, y, z, kids, hbr, hR⟩ := branch_rt "IF_IF_BR" "IF_HEAD" "if ".toList kwIf dummyThen
    "then".toList (fun x => pLit_append _ x) (Or.inl ⟨rfl, rfl⟩) ht hb hok hne
    (rA sm "else if ".toList rest K) g (stop_rA rest hK) (by omega)
  obtain ⟨bs, hbs, hRA⟩ := hr els K g hK hKe (by omega)
  have hl1 : K.length ≤ (rA sm "if ".toList (.cons t body rest) K).length := by
    have := rA_len (sm := sm) "if ".toList (.cons t body rest) K (by decide); omega
  rw [rA_cons] at hl1 ⊢
  generalize hs : "if ".toList ++ (t ++ (hEnd sm "then".toList ++ rB sm body (rA sm "else if ".toList rest K))) = s
    at hbr hl1
  have hsk : skip s = s := by subst hs; exact skip_cons_of_not (by decide)
  have hcmd : pCmd s = none := by
    subst hs; simp [pCmd, kwList, kwIf, pLit, startsWith]
  have hw : pIf (g + 1) s = some (.node "EXP_IF" (span s k)
      ([.node "IF_IF_BR" x [.node "IF_HEAD" y [.node "TEST" t []], .node "EXP_BODY" z kids]] ++ bs ++ elsPT), k) := by
    rcases hcase with ⟨c1, c2, rfl⟩ | ⟨re, b, r3, c1, c2, c3, rfl⟩
    · simp only [pIf, hsk, hbr, hbs, c1, c2]
    · simp only [pIf, hsk, hbr, hbs, c1, c2, c3]
  have hl2 : k.length < s.length := by omega
  have htrim : trim (span s k) ≠ [] := by
    subst hs; exact trim_span_ne (by decide) hl2
  refine ⟨.node "EXP_IF" (span s k)
      ([.node "IF_IF_BR" x [.node "IF_HEAD" y [.node "TEST" t []], .node "EXP_BODY" z kids]] ++ bs ++ elsPT),
    ?_, ?_, .ite htrim (.arm (Or.inl rfl) ht.trim_self hex hR (hRA elsPT hRe))⟩
  · simp [pItemB, hcmd, hw]
  · simp [pItemT, hw]

theorem kwElse_else (x : Str) : kwElse (skip ("else\n".toList ++ x)) = some x := by
  simp [kwElse, pLit, startsWith, skip, isWsP, pNewline, List.dropWhile]

theorem stmtRT_ite (args : List Str) (t : Str) (body : Block) (rest : Arms) (els : Block)
    (h : okS args (.ite (.cons t body rest) els) = true) (hb : BlockRT sm args body) (hr : ArmsRT sm args rest)
    (he : BlockRT sm args els) : StmtRT sm args (.ite (.cons t body rest) els) := by
  simp only [okS_ite, Bool.and_eq_true, Bool.not_eq_true'] at h
  obtain ⟨⟨_, hA⟩, hokE⟩ := h
  intro k f hf
  rw [cS_ite, cA_cons] at hf
  obtain ⟨g, rfl⟩ : ∃ g, f = g + 1 := ⟨f - 1, by omega⟩
  rw [rS_ite]
  cases hels : els with
  | nil =>
    simp only [Block.isNil, ↓reduceIte]
    refine ite_core args t body rest .nil k _ g hA hb hr (by omega) (stop_fi k)
      (by simp [kwElseIf, pLit, startsWith]) (by simp; omega) [] (Or.inl ⟨?_, kwFi_fi k, rfl⟩) .done
    simp [kwElse, pLit, startsWith, skip, isWsP]
  | cons s0 b0 =>
    simp only [Block.isNil, Bool.false_eq_true, ↓reduceIte]
    subst hels
    have hlen := rB_len (sm := sm) (.cons s0 b0) ("fi\n".toList ++ k)
    obtain ⟨z, kids, hbody, hR⟩ := body_rt he (by simp [Block.isNil]) ("fi\n".toList ++ k) g (stop_fi k)
      (by omega)
    have hsk := rB_skip (sm := sm) hokE ("fi\n".toList ++ k) (stop_fi k).skipSelf
    refine ite_core args t body rest _ k _ g hA hb hr (by omega) (stop_else _)
      (by simp [kwElseIf, pLit, startsWith]) ?_ _
      (Or.inr ⟨_, .node "EXP_BODY" z kids, _, kwElse_else _, ?_, kwFi_fi k, rfl⟩) (.els hR)
    · simp only [List.length_append] at hlen ⊢
      have : "fi\n".toList.length = 3 := by decide
      omega
    · rw [hsk]; exact hbody

theorem blockRT_nil (args : List Str) : BlockRT sm args .nil := by
  intro k f hk _
  exact ⟨[], by rw [rB_nil]; exact hk.bodyItems f, by rw [rB_nil]; exact hk.top f, .nil⟩

theorem blockRT_cons (args : List Str) (s : Stmt) (b : Block) (hokB : okB args b = true)
    (hs : StmtRT sm args s) (hb : BlockRT sm args b) : BlockRT sm args (.cons s b) := by
  intro k f hk hf
  rw [cB_cons] at hf
  obtain ⟨g, rfl⟩ : ∃ g, f = g + 1 := ⟨f - 1, by omega⟩
  obtain ⟨t, e1, e2, hRs⟩ := hs (rB sm b k) g (by omega)
  obtain ⟨ts, b1, b2, hRb⟩ := hb k g hk (by omega)
  have hsk : skip (rB sm b k) = rB sm b k := rB_skip hokB k hk.skipSelf
  have hlen := rS_longer (sm := sm) s (rB sm b k)
  refine ⟨t :: ts, ?_, ?_, .cons hRs hRb⟩
  · rw [rB_cons, pBodyItems_succ, e1]
    simp only [hsk, b1]
    by_cases hts : ts = []
    · subst hts
      have : b = .nil := rBlock_nil_inv hRb
      subst this
      simp [rB_nil]
    · simp [hts]
  · rw [rB_cons, pTop_succ, e2]
    simp only [hsk, b2, hlen, ↓reduceIte]
    by_cases hts : ts = []
    · subst hts
      have : b = .nil := rBlock_nil_inv hRb
      subst this
      simp [rB_nil]
    · simp [hts]

mutual
theorem stmtRT (args : List Str) : ∀ s : Stmt, okS args s = true → StmtRT sm args s
  | .cmd l, h => stmtRT_cmd args l h
  | .brk, _ => stmtRT_brk args
  | .cont, _ => stmtRT_cont args
  | .ite .nil els, h => by simp [okS_ite, Arms.isNil] at h
  | .ite (.cons t body rest) els, h => by
    have h' := h
    simp only [okS_ite, okA_cons, Bool.and_eq_true, Bool.not_eq_true'] at h'
    exact stmtRT_ite args t body rest els h (blockRT args body h'.1.2.1.2) (armsRT args rest h'.1.2.2)
      (blockRT args els h'.2)
  | .for v init body, h => by
    have h' := h
    simp only [okS_for, Bool.and_eq_true] at h'
    exact stmtRT_for args v init body h (blockRT args body h'.2)
  | .whl t body, h => by
    have h' := h
    simp only [okS_whl, Bool.and_eq_true] at h'
    exact stmtRT_whl args t body h (blockRT args body h'.2)
theorem blockRT (args : List Str) : ∀ b : Block, okB args b = true → BlockRT sm args b
  | .nil, _ => blockRT_nil args
  | .cons s b, h => by
    have h' := h
    simp only [okB_cons, Bool.and_eq_true] at h'
    exact blockRT_cons args s b h'.2 (stmtRT args s h'.1) (blockRT args b h'.2)
theorem armsRT (args : List Str) : ∀ a : Arms, okA args a = true → ArmsRT sm args a
  | .nil, _ => armsRT_nil args
  | .cons t body rest, h => by
    have h' := h
    simp only [okA_cons, Bool.and_eq_true] at h'
    exact armsRT_cons args t body rest h (blockRT args body h'.1.2) (armsRT args rest h'.2)
end

end Cicada.C14
