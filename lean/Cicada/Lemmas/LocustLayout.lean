import Cicada.Lemmas.LocustRT
import Cicada.Lemmas.RepBlank
/-!
# The PEG round trip for scripts, layout variants (lemmas for C14, parser half)

`Lemmas/LocustRT.lean` proves the round trip for the canonical text `render semi b` (no indentation, no blank lines, every
line ended by `\n`).  Here the renderer `lB lay d fin b k` takes a `Layout`: an indentation (blanks / tabs) per nesting depth
in front of every line, `gapH` blank lines after every head line (`if c`, `else if c`, `else`, `for …`, `while c`), `gapS`
blank lines after the last line of every statement (a command line, `fi`, `done`), the content `bl` (blanks / tabs) of a
blank line; and a flag `fin`: the very last line of the text has no `\n`.

What the grammar does with that (checked with `#eval` first, proved here): indentation is eaten by the implicit
`WHITESPACE*` in front of every repetition and every sequence element, also in front of `fi` / `done` / `else` /
`else if`; a blank line is a `CMD` pair with text `\n` (`CMD_NORMAL` with an empty body), which the interpreter skips; a last
line without `\n` is a `CMD_END`, and `fi` / `done` accept the end of input.

Plan: as in `LocustRT.lean` (continuation style, one lemma per AST constructor, tied by structural recursion), with
  * `Items f S ts k`: both item loops (`pBodyItems` / `pTop`) started at `S` yield the pairs `ts` and stop at a place
    `r` with `skip r = skip k` (every caller skips blanks there);
  * the statement lemmas return the place right behind the statement's last newline (`aft`), the block lemma parses the
    blank lines there as further items (`items_blanks`);
  * the representation relation is `RBlockB B` with `B := lay.HasBlank`;
  * the first line of the file is parsed without skipping the blanks in front of it (`!KW_LIST` of `CMD` sees them): every
    statement lemma also gives the top rule's item behind a prefix of blanks (fourth part of `StmtL`), used by `topL`
    for an indented top level.
-/
namespace Cicada.C14
open Cicada Cicada.Locust

/-! ### layouts -/

structure Layout where
  /-- heads are spelled `if c; then` / `for v in w; do` / `while c; do` -/
  semi : Bool := false
  /-- the indentation in front of every line of nesting depth `d` -/
  ind : Nat → Str := fun _ => []
  /-- the content of a blank line -/
  bl : Str := []
  /-- blank lines after a head line (`if c`, `else if c`, `else`, `for v in w`, `while c`) -/
  gapH : Nat := 0
  /-- blank lines after the last line of a statement (a command line, `fi`, `done`) -/
  gapS : Nat := 0

/-- indentation and blank lines consist of blanks and tabs -/
structure Layout.OK (lay : Layout) : Prop where
  ind : ∀ d c, c ∈ lay.ind d → isWsP c = true
  bl : ∀ c, c ∈ lay.bl → isWsP c = true

/-- the layout has blank lines -/
def Layout.HasBlank (lay : Layout) : Prop := 0 < lay.gapH ∨ 0 < lay.gapS

/-- `n` blank lines, then `k` -/
def blanks (lay : Layout) : Nat → Str → Str
  | 0, k => k
  | n + 1, k => lay.bl ++ '\n' :: blanks lay n k

/-- the end of the last line of a statement: `\n` and the blank lines, or (last line of the file) nothing -/
def eol (lay : Layout) (fin : Bool) (k : Str) : Str := if fin then [] else '\n' :: blanks lay lay.gapS k

/-- what is left behind the newline that ends a statement -/
def aft (lay : Layout) (fin : Bool) (k : Str) : Str := if fin then [] else blanks lay lay.gapS k

mutual
/-- `lS lay d fin s k`: the text of statement `s` at depth `d`, from its first visible character, followed by `k` -/
def lS (lay : Layout) (d : Nat) (fin : Bool) : Stmt → Str → Str
  | .cmd l, k => l ++ eol lay fin k
  | .brk, k => "break".toList ++ eol lay fin k
  | .cont, k => "continue".toList ++ eol lay fin k
  | .ite arms els, k =>
    lA lay d [] "if ".toList arms
      (if els.isNil then lay.ind d ++ ("fi".toList ++ eol lay fin k)
       else lay.ind d ++ ("else\n".toList ++
         blanks lay lay.gapH (lB lay (d + 1) false els (lay.ind d ++ ("fi".toList ++ eol lay fin k)))))
  | .for v init body, k =>
    "for ".toList ++ (v ++ (" in ".toList ++ (init ++ (hEnd lay.semi "do".toList ++
      blanks lay lay.gapH (lB lay (d + 1) false body (lay.ind d ++ ("done".toList ++ eol lay fin k)))))))
  | .whl t body, k =>
    "while ".toList ++ (t ++ (hEnd lay.semi "do".toList ++
      blanks lay lay.gapH (lB lay (d + 1) false body (lay.ind d ++ ("done".toList ++ eol lay fin k)))))
/-- the lines of a block at depth `d`, each with its indentation; with `fin` the last line has no newline -/
def lB (lay : Layout) (d : Nat) (fin : Bool) : Block → Str → Str
  | .nil, k => k
  | .cons s b, k => lay.ind d ++ lS lay d (fin && b.isNil) s (lB lay d fin b k)
/-- the arms of an `if`; `pre` is the indentation of the arm's head line (empty for the first: `lB` has put it) -/
def lA (lay : Layout) (d : Nat) (pre kw : Str) : Arms → Str → Str
  | .nil, k => k
  | .cons t body rest, k =>
    pre ++ (kw ++ (t ++ (hEnd lay.semi "then".toList ++
      blanks lay lay.gapH (lB lay (d + 1) false body (lA lay d (lay.ind d) "else if ".toList rest k)))))
end

/-- the script text of a block in layout `lay`; with `fin` the last line is not ended by a newline (and no blank lines
follow it) -/
def renderL (lay : Layout) (fin : Bool) (b : Block) : Str := lB lay 0 fin b []

mutual
/-- parser fuel that suffices for a statement / block / arm list in layout `lay` -/
def cSL (lay : Layout) : Stmt → Nat
  | .cmd _ => 0
  | .brk => 0
  | .cont => 0
  | .ite arms els => cAL lay arms + cBL lay false els + (if els.isNil = true then 0 else lay.gapH) + 3
  | .for _ _ body => cBL lay false body + lay.gapH + 3
  | .whl _ body => cBL lay false body + lay.gapH + 3
def cBL (lay : Layout) (fin : Bool) : Block → Nat
  | .nil => 0
  | .cons s b => cSL lay s + cBL lay fin b + 1 + (if (fin && b.isNil) = true then 0 else lay.gapS)
def cAL (lay : Layout) : Arms → Nat
  | .nil => 0
  | .cons _ body rest => cBL lay false body + cAL lay rest + lay.gapH + 3
end

variable {lay : Layout}

/-! equation lemmas, stated by hand -/
theorem blanks_zero (k : Str) : blanks lay 0 k = k := rfl
theorem blanks_succ (n : Nat) (k : Str) : blanks lay (n + 1) k = lay.bl ++ '\n' :: blanks lay n k := rfl
theorem lS_cmd (d : Nat) (fin : Bool) (l k : Str) : lS lay d fin (.cmd l) k = l ++ eol lay fin k := rfl
theorem lS_brk (d : Nat) (fin : Bool) (k : Str) : lS lay d fin .brk k = "break".toList ++ eol lay fin k := rfl
theorem lS_cont (d : Nat) (fin : Bool) (k : Str) : lS lay d fin .cont k = "continue".toList ++ eol lay fin k := rfl
theorem lS_ite (d : Nat) (fin : Bool) (arms : Arms) (els : Block) (k : Str) : lS lay d fin (.ite arms els) k =
    lA lay d [] "if ".toList arms
      (if els.isNil then lay.ind d ++ ("fi".toList ++ eol lay fin k)
       else lay.ind d ++ ("else\n".toList ++
         blanks lay lay.gapH (lB lay (d + 1) false els (lay.ind d ++ ("fi".toList ++ eol lay fin k))))) := rfl
theorem lS_for (d : Nat) (fin : Bool) (v init : Str) (body : Block) (k : Str) : lS lay d fin (.for v init body) k =
    "for ".toList ++ (v ++ (" in ".toList ++ (init ++ (hEnd lay.semi "do".toList ++
      blanks lay lay.gapH (lB lay (d + 1) false body (lay.ind d ++ ("done".toList ++ eol lay fin k))))))) := rfl
theorem lS_whl (d : Nat) (fin : Bool) (t : Str) (body : Block) (k : Str) : lS lay d fin (.whl t body) k =
    "while ".toList ++ (t ++ (hEnd lay.semi "do".toList ++
      blanks lay lay.gapH (lB lay (d + 1) false body (lay.ind d ++ ("done".toList ++ eol lay fin k))))) := rfl
theorem lB_nil (d : Nat) (fin : Bool) (k : Str) : lB lay d fin .nil k = k := rfl
theorem lB_cons (d : Nat) (fin : Bool) (s : Stmt) (b : Block) (k : Str) :
    lB lay d fin (.cons s b) k = lay.ind d ++ lS lay d (fin && b.isNil) s (lB lay d fin b k) := rfl
theorem lA_nil (d : Nat) (pre kw k : Str) : lA lay d pre kw .nil k = k := rfl
theorem lA_cons (d : Nat) (pre kw t : Str) (body : Block) (rest : Arms) (k : Str) :
    lA lay d pre kw (.cons t body rest) k =
      pre ++ (kw ++ (t ++ (hEnd lay.semi "then".toList ++
        blanks lay lay.gapH (lB lay (d + 1) false body (lA lay d (lay.ind d) "else if ".toList rest k))))) := rfl

theorem cSL_ite (arms : Arms) (els : Block) : cSL lay (.ite arms els) =
    cAL lay arms + cBL lay false els + (if els.isNil = true then 0 else lay.gapH) + 3 := rfl
theorem cSL_for (v init : Str) (body : Block) : cSL lay (.for v init body) = cBL lay false body + lay.gapH + 3 := rfl
theorem cSL_whl (t : Str) (body : Block) : cSL lay (.whl t body) = cBL lay false body + lay.gapH + 3 := rfl
theorem cBL_nil (fin : Bool) : cBL lay fin .nil = 0 := rfl
theorem cBL_cons (fin : Bool) (s : Stmt) (b : Block) : cBL lay fin (.cons s b) =
    cSL lay s + cBL lay fin b + 1 + (if (fin && b.isNil) = true then 0 else lay.gapS) := rfl
theorem cAL_nil : cAL lay .nil = 0 := rfl
theorem cAL_cons (t : Str) (body : Block) (rest : Arms) :
    cAL lay (.cons t body rest) = cBL lay false body + cAL lay rest + lay.gapH + 3 := rfl

/-! ### blanks in front of a text -/

theorem skip_ws_append (w x : Str) (hw : ∀ c, c ∈ w → isWsP c = true) : skip (w ++ x) = skip x := by
  induction w with
  | nil => rfl
  | cons a w ih =>
    have ha := hw a (by simp)
    have := ih (fun c hc => hw c (List.mem_cons_of_mem _ hc))
    simpa [skip, List.dropWhile, ha] using this

theorem skip_nl (x : Str) : skip ('\n' :: x) = '\n' :: x := skip_cons_of_not (by decide)

theorem skip_ind (hl : lay.OK) (d : Nat) (x : Str) : skip (lay.ind d ++ x) = skip x :=
  skip_ws_append _ _ (hl.ind d)

theorem skip_blanks_succ (hl : lay.OK) (n : Nat) (k : Str) : skip (blanks lay (n + 1) k) = '\n' :: blanks lay n k := by
  rw [blanks_succ, skip_ws_append _ _ hl.bl, skip_nl]

theorem blanks_len_ge (n : Nat) (k : Str) : n + k.length ≤ (blanks lay n k).length := by
  induction n with
  | zero => simp [blanks_zero]
  | succ n ih => simp only [blanks_succ, List.length_append, List.length_cons]; omega

theorem eol_len (fin : Bool) (k : Str) :
    (eol lay fin k).length = if fin then 0 else (aft lay fin k).length + 1 := by
  cases fin <;> simp [eol, aft]

/-! ### a blank line is a `CMD` pair -/

/-- the pair of a blank line -/
def blankPT : PT := .node "CMD" ['\n'] []

theorem pCmd_nl (R : Str) : pCmd ('\n' :: R) = some (blankPT, R) := by
  have hsp : span ('\n' :: R) R = ['\n'] := span_append ['\n'] R
  have hk : kwList ('\n' :: R) = false := by
    simp [kwList, kwIf, kwFor, kwElseIf, kwElse, kwFi, kwWhile, kwDone, pLit, startsWith]
  have hr : repAny atNewline (('\n' :: R).length + 1) ('\n' :: R) 0 = ('\n' :: R, 0) := by
    simp [repAny, atNewline, pNewline]
  unfold pCmd
  simp only [hk, Bool.false_eq_true, ↓reduceIte, skip_nl, hr, pNewline, hsp, blankPT]

theorem item_nl (f : Nat) (R : Str) :
    pItemB f ('\n' :: R) = some (blankPT, R) ∧ pItemT f ('\n' :: R) = some (blankPT, R) := by
  have e1 := pIf_none f ('\n' :: R) (by simp [skip_nl, kwIf, pLit, startsWith])
  have e2 := pFor_none f ('\n' :: R) (by simp [skip_nl, kwFor, pLit, startsWith])
  have e3 := pWhile_none f ('\n' :: R) (by simp [skip_nl, kwWhile, pLit, startsWith])
  simp [pItemB, pItemT, pCmd_nl, e1, e2, e3]

/-! ### item loops -/

theorem pBodyItems_nil_rest (f : Nat) (s : Str) (h : (pBodyItems f s).1 = []) : pBodyItems f s = ([], s) := by
  cases f with
  | zero => simp [pBodyItems]
  | succ f =>
    rw [pBodyItems_succ] at h ⊢
    cases hi : pItemB f s with
    | none => rfl
    | some x =>
      obtain ⟨t, r⟩ := x
      simp only [hi] at h
      split at h <;> simp at h

theorem pTop_nil_rest (f : Nat) (s : Str) (h : (pTop f s).1 = []) : pTop f s = ([], s) := by
  cases f with
  | zero => simp [pTop]
  | succ f =>
    rw [pTop_succ] at h ⊢
    cases hi : pItemT f s with
    | none => rfl
    | some x =>
      obtain ⟨t, r⟩ := x
      simp only [hi] at h
      split at h
      · split at h <;> simp at h
      · simp at h

/-- both item loops, started at `S` with fuel `f`, yield the pairs `ts` and stop at a place that, blanks skipped, is `k` -/
def Items (f : Nat) (S : Str) (ts : List PT) (k : Str) : Prop :=
  (∃ r, pBodyItems f S = (ts, r) ∧ skip r = skip k) ∧ (∃ r, pTop f S = (ts, r) ∧ skip r = skip k)

theorem items_stop {k : Str} (hk : Stop (skip k)) (f : Nat) : Items f (skip k) [] k :=
  ⟨⟨skip k, hk.bodyItems f, skip_skip k⟩, ⟨skip k, hk.top f, skip_skip k⟩⟩

theorem items_cons {f : Nat} {S R k : Str} {t : PT} {ts : List PT} (h1 : pItemB f S = some (t, R))
    (h2 : pItemT f S = some (t, R)) (hlen : R.length < S.length) (h : Items f (skip R) ts k) :
    Items (f + 1) S (t :: ts) k := by
  obtain ⟨⟨r1, hr1, hs1⟩, ⟨r2, hr2, hs2⟩⟩ := h
  constructor
  · rw [pBodyItems_succ, h1]
    simp only [hr1]
    by_cases hts : ts = []
    · subst hts
      have := pBodyItems_nil_rest f (skip R) (by rw [hr1])
      rw [hr1] at this
      have hr : r1 = skip R := by simpa using this
      exact ⟨R, by simp, by rw [← hs1, hr, skip_skip]⟩
    · exact ⟨r1, by simp [hts], hs1⟩
  · rw [pTop_succ, h2]
    simp only [hlen, ↓reduceIte, hr2]
    by_cases hts : ts = []
    · subst hts
      have := pTop_nil_rest f (skip R) (by rw [hr2])
      rw [hr2] at this
      have hr : r2 = skip R := by simpa using this
      exact ⟨R, by simp, by rw [← hs2, hr, skip_skip]⟩
    · exact ⟨r2, by simp [hts], hs2⟩

/-- `n` blank lines in front: `n` more pairs, `n` more units of fuel -/
theorem items_blanks (hl : lay.OK) {f : Nat} {K k : Str} {ts : List PT} (h : Items f (skip K) ts k) :
    ∀ n, Items (f + n) (skip (blanks lay n K)) (List.replicate n blankPT ++ ts) k := by
  intro n
  induction n with
  | zero => simpa [blanks_zero] using h
  | succ n ih =>
    rw [skip_blanks_succ hl]
    obtain ⟨e1, e2⟩ := item_nl (f + n) (blanks lay n K)
    have := items_cons e1 e2 (by simp) ih
    simpa [List.replicate_succ, Nat.add_assoc] using this

/-- `EXP_BODY` from the item loop -/
theorem body_of_items {f : Nat} {S k : Str} {ts : List PT} (h : Items f S ts k) (hne : ts ≠ []) :
    ∃ z r, pBody (f + 1) S = some (.node "EXP_BODY" z ts, r) ∧ skip r = skip k := by
  obtain ⟨⟨r, hr, hs⟩, _⟩ := h
  exact ⟨span S r, r, by simp [pBody, hr, hne], hs⟩

theorem items_mono_rel {B : Prop} {args : List Str} {b : Block} {ts : List PT} (h : RBlockB B args b ts) (n : Nat)
    (hB : 0 < n → B) : RBlockB B args b (List.replicate n blankPT ++ ts) := by
  induction n with
  | zero => simpa using h
  | succ n ih =>
    have hb : B := hB (by omega)
    rw [List.replicate_succ, List.cons_append]
    exact .blank hb (by decide) (ih (fun _ => hb))

/-! ### the last line of the file, without newline -/

/-- `repAny` on a line that ends the text -/
theorem repAny_eof (stop : Str → Bool) :
    ∀ (fuel : Nat) (l : Str) (n : Nat), NoTrail l → (n > 0 ∨ skip l = l) → l.length < fuel →
      (∀ x, x ≠ [] → x <:+ l → skip x = x → stop x = false) →
      ∃ n', repAny stop fuel l n = ([], n') ∧ n ≤ n' ∧ (l ≠ [] → n < n') := by
  intro fuel
  induction fuel with
  | zero => intro l n _ _ h; omega
  | succ f ih =>
    intro l n hnt hn hlen hst
    have hs1 : (if n > 0 then skip l else l) = skip l := by
      split
      · rfl
      · rename_i hn0
        rcases hn with h | h
        · exact absurd h hn0
        · exact h.symm
    unfold repAny
    simp only [hs1]
    cases hsk : skip l with
    | nil =>
      have hl : l = [] := hnt l (List.suffix_refl l) hsk
      subst hl
      refine ⟨n, ?_, Nat.le_refl n, fun h => absurd rfl h⟩
      split <;> simp [skip]
    | cons c l' =>
      have hsuf : (c :: l') <:+ l := hsk ▸ skip_suffix l
      have hstab : skip (c :: l') = c :: l' := by rw [← hsk, skip_skip]
      have hstop := hst (c :: l') (by simp) hsuf hstab
      have hl'suf : l' <:+ l := (List.suffix_cons c l').trans hsuf
      have hlen' : l'.length < f := by
        have := hsuf.length_le
        simp at this
        omega
      obtain ⟨n', h1, h2, _⟩ := ih l' (n + 1) (noTrail_suffix hnt hl'suf) (Or.inl (by omega)) hlen'
        (fun x hx hxs hxk => hst x hx (hxs.trans hl'suf) hxk)
      refine ⟨n', ?_, by omega, fun _ => by omega⟩
      simp only [hstop, Bool.false_eq_true, ↓reduceIte, hstab]
      exact h1

theorem Plain.notNl_eof {l : Str} (h : Plain l) (x : Str) (hx : x ≠ []) (hs : x <:+ l) : pNewline x = none := by
  cases x with
  | nil => exact absurd rfl hx
  | cons c x' =>
    have hc : c ∈ l := hs.subset (by simp)
    exact atNewline_cons _ (h.noNl c hc).1 (h.noNl c hc).2

/-- `"kw" ~ (NEWLINE | EOI)`-like keywords match a plain last line only if the line is the keyword -/
theorem kwEnd_none_eof (fin : Str → Option Str) (hfin : ∀ c x, c ≠ '\n' → c ≠ '\r' → fin (c :: x) = none)
    (w l : Str) (hl : Plain l) (hne : l ≠ w) : (pLit w l).bind (fun r => fin (skip r)) = none := by
  unfold pLit
  by_cases hsw : startsWith l w = true
  · have hl' := startsWith_eq hsw
    generalize l.drop w.length = l' at hl'
    subst hl'
    have hne' : l' ≠ [] := by intro h; subst h; simp at hne
    simp only [hsw, ↓reduceIte, Option.bind]
    have hsuf : l' <:+ w ++ l' := List.suffix_append w l'
    cases hsk : skip l' with
    | nil => exact absurd (hl.noTrail l' hsuf hsk) hne'
    | cons c y =>
      have hc : c ∈ w ++ l' := (hsk ▸ (skip_suffix l').trans hsuf).subset (by simp)
      exact hfin c _ (hl.noNl c hc).1 (hl.noNl c hc).2
  · simp [hsw]

theorem kwList_plain_eof {l : Str} (hl : Plain l) (hk : notKwB l = true) : kwList l = false := by
  simp only [notKwB, Bool.and_eq_true, Bool.not_eq_true', bne_iff_ne, ne_eq] at hk
  obtain ⟨⟨⟨⟨⟨⟨h1, h2⟩, h3⟩, h4⟩, h5⟩, h6⟩, h7⟩ := hk
  have e1 : kwIf l = none := by simp only [kwIf, pLit, h1, Bool.false_eq_true, ↓reduceIte]
  have e2 : kwFor l = none := by simp only [kwFor, pLit, h2, Bool.false_eq_true, ↓reduceIte]
  have e3 : kwElseIf l = none := by simp only [kwElseIf, pLit, h3, Bool.false_eq_true, ↓reduceIte]
  have e4 : kwWhile l = none := by simp only [kwWhile, pLit, h4, Bool.false_eq_true, ↓reduceIte]
  have e5 : kwFi l = none := kwEnd_none_eof pNlOrEoi (fun c x => pNlOrEoi_cons x) _ l hl h5
  have e6 : kwDone l = none := kwEnd_none_eof pNlOrEoi (fun c x => pNlOrEoi_cons x) _ l hl h6
  have e7 : kwElse l = none := kwEnd_none_eof pNewline (fun c x => atNewline_cons x) _ l hl h7
  simp [kwList, e1, e2, e3, e4, e5, e6, e7]

/-- `CMD_END`: a plain last line that is no keyword -/
theorem pCmd_eof {l : Str} (hl : Plain l) (hk : notKwB l = true) : pCmd l = some (.node "CMD" l [], []) := by
  obtain ⟨n, hn, _, h3⟩ := repAny_eof atNewline (l.length + 1) l 0 hl.noTrail (Or.inr hl.skipSelf) (by omega)
    (fun x hx hs _ => by simp [atNewline, hl.notNl_eof x hx hs])
  have hpos := h3 hl.ne_nil
  have hsp : span l [] = l := by simp [span]
  unfold pCmd
  simp only [kwList_plain_eof hl hk, Bool.false_eq_true, ↓reduceIte, hl.skipSelf, hn]
  simp [skip, pNewline, hsp, hpos]

theorem item_line_eof {l : Str} (hl : Plain l) (hk : notKwB l = true) (f : Nat) :
    pItemB f l = some (.node "CMD" l [], []) ∧ pItemT f l = some (.node "CMD" l [], []) := by
  have hk' := hk
  simp only [notKwB, Bool.and_eq_true, Bool.not_eq_true', bne_iff_ne, ne_eq] at hk'
  obtain ⟨⟨⟨⟨⟨⟨h1, h2⟩, h3⟩, h4⟩, h5⟩, h6⟩, h7⟩ := hk'
  have e1 := pIf_none f l (by rw [hl.skipSelf]; simp only [kwIf, pLit, h1, Bool.false_eq_true, ↓reduceIte])
  have e2 := pFor_none f l (by rw [hl.skipSelf]; simp only [kwFor, pLit, h2, Bool.false_eq_true, ↓reduceIte])
  have e3 := pWhile_none f l (by rw [hl.skipSelf]; simp only [kwWhile, pLit, h4, Bool.false_eq_true, ↓reduceIte])
  simp [pItemB, pItemT, pCmd_eof hl hk, e1, e2, e3]

/-- a plain line that is no keyword is a `CMD`, whether ended by a newline or by the end of the text -/
theorem item_lineL {l : Str} (hl : Plain l) (hk : notKwB l = true) (fin : Bool) (k : Str) (f : Nat) :
    ∃ text, trim text = l ∧ pItemB f (l ++ eol lay fin k) = some (.node "CMD" text [], aft lay fin k) ∧
      pItemT f (l ++ eol lay fin k) = some (.node "CMD" text [], aft lay fin k) ∧
      (aft lay fin k).length < (l ++ eol lay fin k).length := by
  cases fin with
  | true =>
    obtain ⟨e1, e2⟩ := item_line_eof hl hk f
    have hne := hl.ne_nil
    refine ⟨l, hl.trim_self, by simpa [eol, aft] using e1, by simpa [eol, aft] using e2, ?_⟩
    cases l with
    | nil => exact absurd rfl hne
    | cons c x => simp [eol, aft]
  | false =>
    obtain ⟨e1, e2⟩ := item_line hl hk (blanks lay lay.gapS k) f
    exact ⟨l ++ ['\n'], hl.trim_line, by simpa [eol, aft] using e1, by simpa [eol, aft] using e2, by simp [eol, aft]; omega⟩

theorem span_ws (w s r : Str) (h : r.length ≤ s.length) : span (w ++ s) r = w ++ span s r := by
  simp only [span, List.length_append]
  have : w.length + s.length - r.length = w.length + (s.length - r.length) := by omega
  rw [this, List.take_length_add_append]

theorem trimL_vis (x : Str) : trimL x = [] ∨ ∃ d y, trimL x = d :: y ∧ isWs d = false := by
  induction x with
  | nil => exact Or.inl rfl
  | cons a x ih =>
    by_cases ha : isWs a = true
    · simpa [trimL, ha] using ih
    · exact Or.inr ⟨a, x, by simp [trimL, ha], by simpa using ha⟩

/-- a text with a visible character does not trim to nothing -/
theorem trim_ne_of_vis (w : Str) {c : Char} (x : Str) (hc : isWs c = false) : trim (w ++ c :: x) ≠ [] := by
  have h1 := trimL_append_ne w x hc
  rcases trimL_vis (w ++ c :: x) with h | ⟨d, y, h, hd⟩
  · exact absurd h h1
  · simp only [trim, h, trimR]
    intro hh
    have : trimL (y.reverse ++ d :: []) = [] := by simpa using hh
    exact trimL_append_ne _ _ hd this

theorem trimL_ws_prefix (w x : Str) (hw : ∀ c, c ∈ w → isWs c = true) : trimL (w ++ x) = trimL x := by
  induction w with
  | nil => rfl
  | cons a w ih =>
    have ha := hw a (by simp)
    simpa [trimL, ha] using ih (fun c hc => hw c (List.mem_cons_of_mem _ hc))

theorem trim_ws_prefix (w x : Str) (hw : ∀ c, c ∈ w → isWsP c = true) : trim (w ++ x) = trim x := by
  simp only [trim, trimL_ws_prefix w x (fun c hc => isWsP_isWs (hw c hc))]

theorem kwList_ws {c : Char} (x : Str) (hc : isWsP c = true) : kwList (c :: x) = false := by
  simp only [isWsP, Bool.or_eq_true, decide_eq_true_eq] at hc
  rcases hc with rfl | rfl <;>
    simp [kwList, kwIf, kwFor, kwElseIf, kwElse, kwFi, kwWhile, kwDone, pLit, startsWith]

theorem kwList_ws_append (w x : Str) (hw : ∀ c, c ∈ w → isWsP c = true) (hx : kwList x = false) : kwList (w ++ x) = false := by
  cases w with
  | nil => exact hx
  | cons c w => exact kwList_ws _ (hw c (by simp))


/-- `CMD_NORMAL` on a plain line with blanks in front (the first line of a file: no blanks are skipped in front of
`!KW_LIST`, which therefore holds for any line that starts with a blank) -/
theorem pCmd_plain_ws (w : Str) (hw : ∀ c, c ∈ w → isWsP c = true) {l : Str} (hl : Plain l) (hk : notKwB l = true)
    (rest : Str) : pCmd (w ++ (l ++ '\n' :: rest)) = some (.node "CMD" (w ++ (l ++ ['\n'])) [], rest) := by
  obtain ⟨n, hn, _⟩ := plain_repAny_nl hl rest ((w ++ (l ++ '\n' :: rest)).length + 1) (by simp; omega)
  have hsp : span (w ++ (l ++ '\n' :: rest)) rest = w ++ (l ++ ['\n']) := by
    have := span_append (w ++ (l ++ ['\n'])) rest
    simpa using this
  have hs : skip (w ++ (l ++ '\n' :: rest)) = l ++ '\n' :: rest := by
    rw [skip_ws_append _ _ hw]; exact hl.skipApp _
  unfold pCmd
  simp only [kwList_ws_append w _ hw (kwList_plain hl hk rest), Bool.false_eq_true, ↓reduceIte, hs, hn]
  simp [skip, List.dropWhile, isWsP, pNewline, hsp]

theorem pCmd_eof_ws (w : Str) (hw : ∀ c, c ∈ w → isWsP c = true) {l : Str} (hl : Plain l) (hk : notKwB l = true) :
    pCmd (w ++ l) = some (.node "CMD" (w ++ l) [], []) := by
  obtain ⟨n, hn, _, h3⟩ := repAny_eof atNewline ((w ++ l).length + 1) l 0 hl.noTrail (Or.inr hl.skipSelf) (by simp; omega)
    (fun x hx hs _ => by simp [atNewline, hl.notNl_eof x hx hs])
  have hpos := h3 hl.ne_nil
  have hsp : span (w ++ l) [] = w ++ l := by
    unfold span; simp only [List.length_nil, Nat.sub_zero]; exact List.take_length
  have hs : skip (w ++ l) = l := by rw [skip_ws_append _ _ hw]; exact hl.skipSelf
  unfold pCmd
  simp only [kwList_ws_append w _ hw (kwList_plain_eof hl hk), Bool.false_eq_true, ↓reduceIte, hs, hn]
  simp [skip, pNewline, hsp, hpos]

/-- a plain line with blanks in front, as the first item of the top rule -/
theorem itemT_line_ws (w : Str) (hw : ∀ c, c ∈ w → isWsP c = true) {l : Str} (hl : Plain l) (hk : notKwB l = true)
    (fin : Bool) (k : Str) (f : Nat) :
    ∃ text, trim text = l ∧ pItemT f (w ++ (l ++ eol lay fin k)) = some (.node "CMD" text [], aft lay fin k) := by
  have hk' := hk
  simp only [notKwB, Bool.and_eq_true, Bool.not_eq_true', bne_iff_ne, ne_eq] at hk'
  obtain ⟨⟨⟨⟨⟨⟨h1, h2⟩, h3⟩, h4⟩, h5⟩, h6⟩, h7⟩ := hk'
  cases fin with
  | true =>
    have hs : skip (w ++ (l ++ eol lay true k)) = l := by
      rw [skip_ws_append _ _ hw]; simpa [eol] using hl.skipSelf
    have e1 := pIf_none f (w ++ (l ++ eol lay true k))
      (by rw [hs]; simp only [kwIf, pLit, h1, Bool.false_eq_true, ↓reduceIte])
    have e2 := pFor_none f (w ++ (l ++ eol lay true k))
      (by rw [hs]; simp only [kwFor, pLit, h2, Bool.false_eq_true, ↓reduceIte])
    have e3 := pWhile_none f (w ++ (l ++ eol lay true k))
      (by rw [hs]; simp only [kwWhile, pLit, h4, Bool.false_eq_true, ↓reduceIte])
    have e4 : pCmd (w ++ (l ++ eol lay true k)) = some (.node "CMD" (w ++ l) [], []) := by
      simpa [eol] using pCmd_eof_ws w hw hl hk
    refine ⟨w ++ l, by rw [trim_ws_prefix w l hw]; exact hl.trim_self, ?_⟩
    simp [pItemT, e1, e2, e3, e4, aft]
  | false =>
    obtain ⟨k1, k2, k3⟩ := plain_kws hk (blanks lay lay.gapS k)
    have hs : skip (w ++ (l ++ eol lay false k)) = l ++ '\n' :: blanks lay lay.gapS k := by
      rw [skip_ws_append _ _ hw]; exact hl.skipApp _
    have e1 := pIf_none f (w ++ (l ++ eol lay false k)) (by rw [hs]; exact k1)
    have e2 := pFor_none f (w ++ (l ++ eol lay false k)) (by rw [hs]; exact k2)
    have e3 := pWhile_none f (w ++ (l ++ eol lay false k)) (by rw [hs]; exact k3)
    have e4 : pCmd (w ++ (l ++ eol lay false k)) =
        some (.node "CMD" (w ++ (l ++ ['\n'])) [], blanks lay lay.gapS k) := pCmd_plain_ws w hw hl hk _
    refine ⟨w ++ (l ++ ['\n']), by rw [trim_ws_prefix w _ hw]; exact hl.trim_line, ?_⟩
    simp [pItemT, e1, e2, e3, e4, aft]

/-- the span of a block statement that starts after blanks `w` does not trim to nothing -/
theorem trim_span_ws (w : Str) {c : Char} {s' k : Str} (hc : isWs c = false) (h : k.length < (c :: s').length) :
    trim (span (w ++ c :: s') k) ≠ [] := by
  rw [span_ws w (c :: s') k (by omega)]
  obtain ⟨x, hx⟩ := span_head h
  rw [hx]
  exact trim_ne_of_vis w x hc

/-! ### places where a statement list ends, in the layout -/

theorem stop_fiL (fin : Bool) (k : Str) : Stop ("fi".toList ++ eol lay fin k) := by
  cases fin with
  | false => exact stop_fi (blanks lay lay.gapS k)
  | true =>
    refine ⟨?_, ?_, ?_, ?_, ?_⟩ <;>
      simp [eol, pCmd, kwList, kwIf, kwFor, kwElseIf, kwElse, kwFi, kwWhile, kwDone, pLit, startsWith, skip, isWsP, pNlOrEoi,
        pNewline, List.dropWhile]

theorem stop_doneL (fin : Bool) (k : Str) : Stop ("done".toList ++ eol lay fin k) := by
  cases fin with
  | false => exact stop_done (blanks lay lay.gapS k)
  | true =>
    refine ⟨?_, ?_, ?_, ?_, ?_⟩ <;>
      simp [eol, pCmd, kwList, kwIf, kwFor, kwElseIf, kwElse, kwFi, kwWhile, kwDone, pLit, startsWith, skip, isWsP, pNlOrEoi,
        pNewline, List.dropWhile]

theorem kwFi_fiL (fin : Bool) (k : Str) : kwFi ("fi".toList ++ eol lay fin k) = some (aft lay fin k) := by
  cases fin <;> simp [eol, aft, kwFi, pLit, startsWith, skip, isWsP, pNlOrEoi, pNewline, List.dropWhile]

theorem kwDone_doneL (fin : Bool) (k : Str) : kwDone ("done".toList ++ eol lay fin k) = some (aft lay fin k) := by
  cases fin <;> simp [eol, aft, kwDone, pLit, startsWith, skip, isWsP, pNlOrEoi, pNewline, List.dropWhile]

theorem skip_kw {c : Char} {w x : Str} (hc : isWsP c = false) : skip (c :: w ++ x) = c :: w ++ x :=
  skip_cons_of_not hc

/-! ### lengths: the fuel needed is at most twice the text length (plus 2 when the last newline is missing) -/

theorem eol_aft (fin : Bool) (k : Str) :
    2 * (aft lay fin k).length + (if fin = true then 0 else 2) = 2 * (eol lay fin k).length := by
  cases fin <;> simp [eol, aft] <;> omega

theorem len_lineL (l : Str) (fin : Bool) (k : Str) :
    2 * (aft lay fin k).length + 0 + (if fin = true then 0 else 2) ≤ 2 * (l ++ eol lay fin k).length := by
  have := eol_aft (lay := lay) fin k
  simp only [List.length_append]
  omega

theorem len_loopL (d : Nat) (kwt : Str) (body : Block) (fin : Bool) (k : Str) (c : Nat)
    (hB : ∀ k, 2 * k.length + cBL lay false body ≤ 2 * (lB lay (d + 1) false body k).length)
    (hc : c = cBL lay false body + lay.gapH + 3) :
    2 * (aft lay fin k).length + c + (if fin = true then 0 else 2) ≤
      2 * (kwt ++ (hEnd lay.semi "do".toList ++
        blanks lay lay.gapH (lB lay (d + 1) false body (lay.ind d ++ ("done".toList ++ eol lay fin k))))).length := by
  have h1 := hB (lay.ind d ++ ("done".toList ++ eol lay fin k))
  have h2 := blanks_len_ge (lay := lay) lay.gapH (lB lay (d + 1) false body (lay.ind d ++ ("done".toList ++ eol lay fin k)))
  have h3 := hEnd_len lay.semi "do".toList
  have h4 := eol_aft (lay := lay) fin k
  have h5 : "done".toList.length = 4 := by decide
  simp only [List.length_append] at h1 ⊢
  omega

theorem len_whlL (d : Nat) (t : Str) (body : Block) (fin : Bool) (k : Str)
    (hB : ∀ k, 2 * k.length + cBL lay false body ≤ 2 * (lB lay (d + 1) false body k).length) :
    2 * (aft lay fin k).length + cSL lay (.whl t body) + (if fin = true then 0 else 2) ≤
      2 * (lS lay d fin (.whl t body) k).length := by
  have := len_loopL d t body fin k _ hB (cSL_whl t body)
  rw [lS_whl]
  simp only [List.length_append] at this ⊢
  omega

theorem len_forL (d : Nat) (v init : Str) (body : Block) (fin : Bool) (k : Str)
    (hB : ∀ k, 2 * k.length + cBL lay false body ≤ 2 * (lB lay (d + 1) false body k).length) :
    2 * (aft lay fin k).length + cSL lay (.for v init body) + (if fin = true then 0 else 2) ≤
      2 * (lS lay d fin (.for v init body) k).length := by
  have := len_loopL d init body fin k _ hB (cSL_for v init body)
  rw [lS_for]
  simp only [List.length_append] at this ⊢
  omega

theorem len_iteL (d : Nat) (arms : Arms) (els : Block) (fin : Bool) (k : Str)
    (hA : ∀ k, 2 * k.length + cAL lay arms ≤ 2 * (lA lay d [] "if ".toList arms k).length)
    (hB : ∀ k, 2 * k.length + cBL lay false els ≤ 2 * (lB lay (d + 1) false els k).length) :
    2 * (aft lay fin k).length + cSL lay (.ite arms els) + (if fin = true then 0 else 2) ≤
      2 * (lS lay d fin (.ite arms els) k).length := by
  have h4 := eol_aft (lay := lay) fin k
  have h5 : "fi".toList.length = 2 := by decide
  have h6 : "else\n".toList.length = 5 := by decide
  rw [lS_ite, cSL_ite]
  cases hn : els.isNil with
  | true =>
    have h1 := hA (lay.ind d ++ ("fi".toList ++ eol lay fin k))
    have h0 : cBL lay false els = 0 := by
      cases els with
      | nil => rfl
      | cons s b => simp [Block.isNil] at hn
    simp only [↓reduceIte, List.length_append] at h1 ⊢
    omega
  | false =>
    have h1 := hA (lay.ind d ++ ("else\n".toList ++
         blanks lay lay.gapH (lB lay (d + 1) false els (lay.ind d ++ ("fi".toList ++ eol lay fin k)))))
    have h2 := blanks_len_ge (lay := lay) lay.gapH (lB lay (d + 1) false els (lay.ind d ++ ("fi".toList ++ eol lay fin k)))
    have h3 := hB (lay.ind d ++ ("fi".toList ++ eol lay fin k))
    simp only [Bool.false_eq_true, ↓reduceIte, List.length_append] at h1 h3 ⊢
    omega

theorem len_armL (d : Nat) (pre kw t : Str) (body : Block) (rest : Arms) (k : Str) (hkw : 1 ≤ kw.length)
    (hB : ∀ k, 2 * k.length + cBL lay false body ≤ 2 * (lB lay (d + 1) false body k).length)
    (hA : ∀ k, 2 * k.length + cAL lay rest ≤ 2 * (lA lay d (lay.ind d) "else if ".toList rest k).length) :
    2 * k.length + cAL lay (.cons t body rest) ≤ 2 * (lA lay d pre kw (.cons t body rest) k).length := by
  have h1 := hB (lA lay d (lay.ind d) "else if ".toList rest k)
  have h2 := hA k
  have h3 := hEnd_len lay.semi "then".toList
  have h4 := blanks_len_ge (lay := lay) lay.gapH (lB lay (d + 1) false body (lA lay d (lay.ind d) "else if ".toList rest k))
  simp only [lA_cons, cAL_cons, List.length_append]
  omega

theorem isNil_true_nil {b : Block} (h : b.isNil = true) : b = .nil := by
  cases b with
  | nil => rfl
  | cons s b => simp [Block.isNil] at h

theorem len_consL (d : Nat) (s : Stmt) (b : Block) (fin : Bool) (k : Str) (hk : fin = true → k = [])
    (hS : ∀ fin' k', 2 * (aft lay fin' k').length + cSL lay s + (if fin' = true then 0 else 2) ≤
      2 * (lS lay d fin' s k').length)
    (hB : 2 * k.length + cBL lay fin b ≤ 2 * (lB lay d fin b k).length + (if fin = true then 2 else 0)) :
    2 * k.length + cBL lay fin (.cons s b) ≤ 2 * (lB lay d fin (.cons s b) k).length + (if fin = true then 2 else 0) := by
  rw [lB_cons, cBL_cons]
  cases hfb : (fin && b.isNil) with
  | false =>
    have h1 := hS false (lB lay d fin b k)
    have h2 := blanks_len_ge (lay := lay) lay.gapS (lB lay d fin b k)
    simp only [aft, Bool.false_eq_true, ↓reduceIte, List.length_append] at h1 ⊢
    omega
  | true =>
    simp only [Bool.and_eq_true] at hfb
    obtain ⟨rfl, hb⟩ := hfb
    have := isNil_true_nil hb
    subst this
    have hk' := hk rfl
    subst hk'
    have h1 := hS true (lB lay d true .nil [])
    simp only [aft, ↓reduceIte, List.length_nil, cBL_nil, List.length_append] at h1 ⊢
    omega

mutual
theorem lS_len : ∀ (d : Nat) (s : Stmt) (fin : Bool) (k : Str),
    2 * (aft lay fin k).length + cSL lay s + (if fin = true then 0 else 2) ≤ 2 * (lS lay d fin s k).length
  | _, .cmd l, fin, k => len_lineL l fin k
  | _, .brk, fin, k => len_lineL _ fin k
  | _, .cont, fin, k => len_lineL _ fin k
  | d, .ite arms els, fin, k =>
    len_iteL d arms els fin k (fun k => lA_len d [] _ arms k (by decide))
      (fun k => by simpa using lB_len (d + 1) els false k (by simp))
  | d, .for v init body, fin, k => len_forL d v init body fin k (fun k => by simpa using lB_len (d + 1) body false k (by simp))
  | d, .whl t body, fin, k => len_whlL d t body fin k (fun k => by simpa using lB_len (d + 1) body false k (by simp))
theorem lB_len : ∀ (d : Nat) (b : Block) (fin : Bool) (k : Str), (fin = true → k = []) →
    2 * k.length + cBL lay fin b ≤ 2 * (lB lay d fin b k).length + (if fin = true then 2 else 0)
  | _, .nil, fin, k, _ => by simp [lB_nil, cBL_nil]
  | d, .cons s b, fin, k, hk => len_consL d s b fin k hk (fun fin' k' => lS_len d s fin' k') (lB_len d b fin k hk)
theorem lA_len : ∀ (d : Nat) (pre kw : Str) (a : Arms) (k : Str), 1 ≤ kw.length →
    2 * k.length + cAL lay a ≤ 2 * (lA lay d pre kw a k).length
  | _, _, _, .nil, k, _ => by simp [lA_nil, cAL_nil]
  | d, pre, kw, .cons t body rest, k, hkw =>
    len_armL d pre kw t body rest k hkw (fun k => by simpa using lB_len (d + 1) body false k (by simp))
      (fun k => lA_len d _ _ rest k (by decide))
end

/-! ### the round trip in the layout, case by case -/

def StmtL (lay : Layout) (args : List Str) (d : Nat) (s : Stmt) : Prop :=
  ∀ fin k f, cSL lay s ≤ f → ∃ t, pItemB f (lS lay d fin s k) = some (t, aft lay fin k) ∧
    pItemT f (lS lay d fin s k) = some (t, aft lay fin k) ∧ RStmtB lay.HasBlank args s t ∧
    -- as the first item of the top rule, behind blanks
    ∀ w, (∀ c, c ∈ w → isWsP c = true) → ∃ t', pItemT f (w ++ lS lay d fin s k) = some (t', aft lay fin k) ∧
      RStmtB lay.HasBlank args s t'

def BlockL (lay : Layout) (args : List Str) (d : Nat) (b : Block) : Prop :=
  ∀ fin k f, (fin = true → k = []) → Stop (skip k) → cBL lay fin b ≤ f →
    ∃ ts, Items f (skip (lB lay d fin b k)) ts k ∧ RBlockB lay.HasBlank args b ts

def ArmsL (lay : Layout) (args : List Str) (d : Nat) (arms : Arms) : Prop :=
  ∀ els K f R, Stop (skip K) → kwElseIf (skip K) = none → cAL lay arms ≤ f →
    skip R = skip (lA lay d (lay.ind d) "else if ".toList arms K) →
    ∃ brs r', pElseIfs f R = (brs, r') ∧ skip r' = skip K ∧
      ∀ brs', RArmsB lay.HasBlank args .nil els brs' → RArmsB lay.HasBlank args arms els (brs ++ brs')

/-- a rendered statement starts with a visible character -/
theorem lS_head {args : List Str} {s : Stmt} (h : okS args s = true) (d : Nat) (fin : Bool) (k : Str) :
    ∃ c x, lS lay d fin s k = c :: x ∧ isWs c = false := by
  cases s with
  | cmd l =>
    simp only [okS_cmd, Bool.and_eq_true] at h
    obtain ⟨c, x, rfl, hc⟩ := (plain_of_plainB h.1.1.1.1).head
    exact ⟨c, _, rfl, hc⟩
  | brk => exact ⟨'b', _, rfl, by decide⟩
  | cont => exact ⟨'c', _, rfl, by decide⟩
  | ite arms els =>
    simp only [okS_ite, Bool.and_eq_true, Bool.not_eq_true'] at h
    obtain ⟨t, body, rest, rfl⟩ := armsNil_false_cons h.1.1
    rw [lS_ite, lA_cons]
    exact ⟨'i', _, rfl, by decide⟩
  | «for» v init body => exact ⟨'f', _, rfl, by decide⟩
  | whl t body => exact ⟨'w', _, rfl, by decide⟩

theorem lS_skip {args : List Str} {s : Stmt} (h : okS args s = true) (d : Nat) (fin : Bool) (k : Str) :
    skip (lS lay d fin s k) = lS lay d fin s k := by
  obtain ⟨c, x, hx, hc⟩ := lS_head (lay := lay) h d fin k
  rw [hx]
  exact skip_cons_of_not (isWsP_of_not_isWs hc)

theorem lS_longer {args : List Str} {s : Stmt} (h : okS args s = true) (d : Nat) (fin : Bool) (k : Str) :
    (aft lay fin k).length < (lS lay d fin s k).length := by
  cases fin with
  | true =>
    obtain ⟨c, x, hx, _⟩ := lS_head (lay := lay) h d true k
    rw [hx]; simp [aft]
  | false =>
    have := lS_len (lay := lay) d s false k
    simp only [Bool.false_eq_true, ↓reduceIte] at this
    omega

theorem stmtL_line {l : Str} (hl : Plain l) (hk : notKwB l = true) (fin : Bool) (k : Str) (f : Nat) :
    ∃ text, trim text = l ∧ pItemB f (l ++ eol lay fin k) = some (.node "CMD" text [], aft lay fin k) ∧
      pItemT f (l ++ eol lay fin k) = some (.node "CMD" text [], aft lay fin k) := by
  obtain ⟨text, h1, h2, h3, _⟩ := item_lineL (lay := lay) hl hk fin k f
  exact ⟨text, h1, h2, h3⟩

theorem stmtL_cmd (args : List Str) (d : Nat) (l : Str) (h : okS args (.cmd l) = true) : StmtL lay args d (.cmd l) := by
  simp only [okS_cmd, Bool.and_eq_true, bne_iff_ne, ne_eq, beq_iff_eq] at h
  obtain ⟨⟨⟨⟨h1, h2⟩, h3⟩, h4⟩, h5⟩ := h
  have hl := plain_of_plainB h1
  intro fin k f _
  obtain ⟨text, e0, e1, e2⟩ := stmtL_line (lay := lay) hl h2 fin k f
  refine ⟨_, e1, e2, .cmd e0 ⟨hl.ne_nil, h4, h3, h5⟩, fun w hw => ?_⟩
  obtain ⟨text', e0', e1'⟩ := itemT_line_ws (lay := lay) w hw hl h2 fin k f
  exact ⟨_, e1', .cmd e0' ⟨hl.ne_nil, h4, h3, h5⟩⟩

theorem stmtL_brk (args : List Str) (d : Nat) : StmtL lay args d .brk := by
  have hl : Plain "break".toList := plain_of_plainB (by decide)
  intro fin k f _
  obtain ⟨text, e0, e1, e2⟩ := stmtL_line (lay := lay) hl (by decide) fin k f
  refine ⟨_, e1, e2, .brk e0, fun w hw => ?_⟩
  obtain ⟨text', e0', e1'⟩ := itemT_line_ws (lay := lay) w hw hl (by decide) fin k f
  exact ⟨_, e1', .brk e0'⟩

theorem stmtL_cont (args : List Str) (d : Nat) : StmtL lay args d .cont := by
  have hl : Plain "continue".toList := plain_of_plainB (by decide)
  intro fin k f _
  obtain ⟨text, e0, e1, e2⟩ := stmtL_line (lay := lay) hl (by decide) fin k f
  refine ⟨_, e1, e2, .cont e0, fun w hw => ?_⟩
  obtain ⟨text', e0', e1'⟩ := itemT_line_ws (lay := lay) w hw hl (by decide) fin k f
  exact ⟨_, e1', .cont e0'⟩

theorem rBlockB_nil_inv {B : Prop} {args : List Str} {b : Block} (h : RBlockB B args b []) : b = .nil := by
  cases h; rfl

/-- `EXP_BODY` behind a head line: the blank lines after the head, then the body one level deeper -/
theorem bodyL (hl : lay.OK) {args : List Str} {d : Nat} {body : Block} (hb : BlockL lay args (d + 1) body)
    (hne : body.isNil = false) (K : Str) (g : Nat) (hK : Stop (skip K)) (hg : cBL lay false body + lay.gapH + 1 ≤ g) :
    ∃ z kids r, pBody g (skip (blanks lay lay.gapH (lB lay (d + 1) false body K))) = some (.node "EXP_BODY" z kids, r) ∧
      skip r = skip K ∧ RBlockB lay.HasBlank args body kids := by
  obtain ⟨f0, rfl⟩ : ∃ f0, g = f0 + lay.gapH + 1 := ⟨g - lay.gapH - 1, by omega⟩
  obtain ⟨ts, hI, hR⟩ := hb false K f0 (by simp) hK (by omega)
  have hts : ts ≠ [] := by
    intro e; subst e
    rw [rBlockB_nil_inv hR] at hne
    simp [Block.isNil] at hne
  have hI' := items_blanks hl hI lay.gapH
  obtain ⟨z, r, h1, h2⟩ := body_of_items hI' (by simp [hts])
  exact ⟨z, _, r, h1, h2, items_mono_rel hR _ (fun h => Or.inl h)⟩

/-- `HEAD ~ EXP_BODY` -/
theorem branchL (hl : lay.OK) {args : List Str} {d : Nat} (rule hr : String) (kwt : Str) (kw dum : Str → Option Str) (w : Str)
    (hkw : ∀ x, kw (kwt ++ x) = some x) (hd : IsDummy dum w) {t : Str} (ht : PlainTest t)
    {body : Block} (hb : BlockL lay args (d + 1) body) (hne : body.isNil = false) (K : Str) (f : Nat)
    (hK : Stop (skip K)) (hf : cBL lay false body + lay.gapH + 2 ≤ f) :
    ∃ x y z kids r, pBranch f rule (pHead hr kw dum)
        (kwt ++ (t ++ (hEnd lay.semi w ++ blanks lay lay.gapH (lB lay (d + 1) false body K)))) =
        some (.node rule x [.node hr y [.node "TEST" t []], .node "EXP_BODY" z kids], r) ∧ skip r = skip K ∧
        RBlockB lay.HasBlank args body kids := by
  obtain ⟨g, rfl⟩ : ∃ g, f = g + 1 := ⟨f - 1, by omega⟩
  obtain ⟨z, kids, r, h1, h2, h3⟩ := bodyL hl hb hne K g hK (by omega)
  obtain ⟨y, hy⟩ := pHead_style hr kwt kw dum w hkw hd lay.semi ht (blanks lay lay.gapH (lB lay (d + 1) false body K))
  exact ⟨span (kwt ++ (t ++ (hEnd lay.semi w ++ blanks lay lay.gapH (lB lay (d + 1) false body K)))) r, y, z, kids, r,
    by simp only [pBranch, hy, h1], h2, h3⟩

theorem skip_indKw (hl : lay.OK) (d : Nat) {c : Char} (w x : Str) (hc : isWsP c = false) :
    skip (lay.ind d ++ (c :: w ++ x)) = c :: w ++ x := by
  rw [skip_ind hl]; exact skip_cons_of_not hc

theorem skip_fiL (hl : lay.OK) (d : Nat) (fin : Bool) (k : Str) :
    skip (lay.ind d ++ ("fi".toList ++ eol lay fin k)) = "fi".toList ++ eol lay fin k :=
  skip_indKw hl d _ _ (by decide)

theorem skip_doneL (hl : lay.OK) (d : Nat) (fin : Bool) (k : Str) :
    skip (lay.ind d ++ ("done".toList ++ eol lay fin k)) = "done".toList ++ eol lay fin k :=
  skip_indKw hl d _ _ (by decide)

theorem stmtL_whl (hl : lay.OK) (args : List Str) (d : Nat) (t : Str) (body : Block) (h : okS args (.whl t body) = true)
    (hb : BlockL lay args (d + 1) body) : StmtL lay args d (.whl t body) := by
  have hlong := fun fin k => lS_longer (lay := lay) h d fin k
  simp only [okS_whl, Bool.and_eq_true, Bool.not_eq_true'] at h
  obtain ⟨⟨h1, hne⟩, hok⟩ := h
  obtain ⟨ht, hex⟩ := testOk_plain h1
  intro fin k f hf
  rw [cSL_whl] at hf
  obtain ⟨g, rfl⟩ : ∃ g, f = g + 1 := ⟨f - 1, by omega⟩
  have hKs := skip_doneL hl d fin k
  obtain ⟨z, kids, r, hbody, hr, hR⟩ := bodyL hl hb hne (lay.ind d ++ ("done".toList ++ eol lay fin k)) g
    (by rw [hKs]; exact stop_doneL fin k) (by omega)
  rw [hKs] at hr
  have hlen := hlong fin k
  rw [lS_whl] at hlen ⊢
  obtain ⟨y, hhead⟩ := pHead_style "WHILE_HEAD" "while ".toList kwWhile dummyDo "do".toList (fun x => pLit_append _ x)
    (Or.inr ⟨rfl, rfl⟩) lay.semi ht
    (blanks lay lay.gapH (lB lay (d + 1) false body (lay.ind d ++ ("done".toList ++ eol lay fin k))))
  generalize hs : "while ".toList ++ (t ++ (hEnd lay.semi "do".toList ++
    blanks lay lay.gapH (lB lay (d + 1) false body (lay.ind d ++ ("done".toList ++ eol lay fin k))))) = s at hlen hhead
  have hsk : skip s = s := by subst hs; exact skip_cons_of_not (by decide)
  have hcmd : pCmd s = none := by
    subst hs; simp [pCmd, kwList, kwWhile, pLit, startsWith]
  have hkif : kwIf s = none := by subst hs; simp [kwIf, pLit, startsWith]
  have hkfor : kwFor s = none := by subst hs; simp [kwFor, pLit, startsWith]
  have hif : pIf (g + 1) s = none := pIf_none _ _ (by rw [hsk]; exact hkif)
  have hfor : pFor (g + 1) s = none := pFor_none _ _ (by rw [hsk]; exact hkfor)
  have hw : pWhile (g + 1) s = some (.node "EXP_WHILE" (span s (aft lay fin k))
      [.node "WHILE_HEAD" y [.node "TEST" t []], .node "EXP_BODY" z kids], aft lay fin k) := by
    simp only [pWhile, hsk, hhead, hbody, hr, kwDone_doneL]
  have htrim : trim (span s (aft lay fin k)) ≠ [] := by
    subst hs; exact trim_span_ne (by decide) hlen
  refine ⟨.node "EXP_WHILE" (span s (aft lay fin k))
      [.node "WHILE_HEAD" y [.node "TEST" t []], .node "EXP_BODY" z kids],
    ?_, ?_, .whl htrim ht.trim_self hex hR, fun w hw' => ?_⟩
  · simp [pItemB, hcmd, hif, hw]
  · simp [pItemT, hif, hfor, hw]
  · have hsk' : skip (w ++ s) = s := by rw [skip_ws_append _ _ hw']; exact hsk
    have hif' : pIf (g + 1) (w ++ s) = none := pIf_none _ _ (by rw [hsk']; exact hkif)
    have hfor' : pFor (g + 1) (w ++ s) = none := pFor_none _ _ (by rw [hsk']; exact hkfor)
    have hw2 : pWhile (g + 1) (w ++ s) = some (.node "EXP_WHILE" (span (w ++ s) (aft lay fin k))
        [.node "WHILE_HEAD" y [.node "TEST" t []], .node "EXP_BODY" z kids], aft lay fin k) := by
      simp only [pWhile, hsk', hhead, hbody, hr, kwDone_doneL]
    have htrim' : trim (span (w ++ s) (aft lay fin k)) ≠ [] := by
      subst hs; exact trim_span_ws w (by decide) hlen
    refine ⟨.node "EXP_WHILE" (span (w ++ s) (aft lay fin k))
        [.node "WHILE_HEAD" y [.node "TEST" t []], .node "EXP_BODY" z kids], ?_, .whl htrim' ht.trim_self hex hR⟩
    simp [pItemT, hif', hfor', hw2]

theorem stmtL_for (hl : lay.OK) (args : List Str) (d : Nat) (v init : Str) (body : Block)
    (h : okS args (.for v init body) = true) (hb : BlockL lay args (d + 1) body) : StmtL lay args d (.for v init body) := by
  have hlong := fun fin k => lS_longer (lay := lay) h d fin k
  simp only [okS_for, Bool.and_eq_true, Bool.not_eq_true'] at h
  obtain ⟨⟨⟨⟨hv, h1⟩, h2⟩, hne⟩, hok⟩ := h
  have ht := plainTest_of h1 h2
  intro fin k f hf
  rw [cSL_for] at hf
  obtain ⟨g, rfl⟩ : ∃ g, f = g + 1 := ⟨f - 1, by omega⟩
  have hKs := skip_doneL hl d fin k
  obtain ⟨z, kids, r, hbody, hr, hR⟩ := bodyL hl hb hne (lay.ind d ++ ("done".toList ++ eol lay fin k)) g
    (by rw [hKs]; exact stop_doneL fin k) (by omega)
  rw [hKs] at hr
  obtain ⟨t1, t2, hhead⟩ := pForHead_style lay.semi hv ht
    (blanks lay lay.gapH (lB lay (d + 1) false body (lay.ind d ++ ("done".toList ++ eol lay fin k))))
  have hlen := hlong fin k
  rw [lS_for] at hlen ⊢
  generalize hs : "for ".toList ++ (v ++ (" in ".toList ++ (init ++ (hEnd lay.semi "do".toList ++
    blanks lay lay.gapH (lB lay (d + 1) false body (lay.ind d ++ ("done".toList ++ eol lay fin k))))))) = s
    at hlen hhead
  have hsk : skip s = s := by subst hs; exact skip_cons_of_not (by decide)
  have hcmd : pCmd s = none := by
    subst hs; simp [pCmd, kwList, kwFor, pLit, startsWith]
  have hkif : kwIf s = none := by subst hs; simp [kwIf, pLit, startsWith]
  have hif : pIf (g + 1) s = none := pIf_none _ _ (by rw [hsk]; exact hkif)
  have hwh : pWhile (g + 1) s = none := pWhile_none _ _ (by subst hs; simp [kwWhile, pLit, startsWith, skip, isWsP])
  have hw : pFor (g + 1) s = some (.node "EXP_FOR" (span s (aft lay fin k))
      [.node "FOR_HEAD" t1 [.node "FOR_INIT" t2 [.node "FOR_VAR" v [], .node "TEST" init []]],
       .node "EXP_BODY" z kids], aft lay fin k) := by
    simp only [pFor, hsk, hhead, hbody, hr, kwDone_doneL]
  have htrim : trim (span s (aft lay fin k)) ≠ [] := by
    subst hs; exact trim_span_ne (by decide) hlen
  refine ⟨.node "EXP_FOR" (span s (aft lay fin k))
      [.node "FOR_HEAD" t1 [.node "FOR_INIT" t2 [.node "FOR_VAR" v [], .node "TEST" init []]],
       .node "EXP_BODY" z kids],
    ?_, ?_, .for htrim (ident_plain hv).trim_self ht.trim_self hR, fun w hw' => ?_⟩
  · simp [pItemB, hcmd, hif, hwh, hw]
  · simp [pItemT, hif, hw]
  · have hsk' : skip (w ++ s) = s := by rw [skip_ws_append _ _ hw']; exact hsk
    have hif' : pIf (g + 1) (w ++ s) = none := pIf_none _ _ (by rw [hsk']; exact hkif)
    have hw2 : pFor (g + 1) (w ++ s) = some (.node "EXP_FOR" (span (w ++ s) (aft lay fin k))
        [.node "FOR_HEAD" t1 [.node "FOR_INIT" t2 [.node "FOR_VAR" v [], .node "TEST" init []]],
         .node "EXP_BODY" z kids], aft lay fin k) := by
      simp only [pFor, hsk', hhead, hbody, hr, kwDone_doneL]
    have htrim' : trim (span (w ++ s) (aft lay fin k)) ≠ [] := by
      subst hs; exact trim_span_ws w (by decide) hlen
    refine ⟨.node "EXP_FOR" (span (w ++ s) (aft lay fin k))
        [.node "FOR_HEAD" t1 [.node "FOR_INIT" t2 [.node "FOR_VAR" v [], .node "TEST" init []]],
         .node "EXP_BODY" z kids], ?_, .for htrim' (ident_plain hv).trim_self ht.trim_self hR⟩
    simp [pItemT, hif', hw2]

theorem skip_elseifL (hl : lay.OK) (d : Nat) (x : Str) :
    skip (lay.ind d ++ ("else if ".toList ++ x)) = "else if ".toList ++ x :=
  skip_indKw hl d _ _ (by decide)

theorem stop_lA (hl : lay.OK) (d : Nat) (rest : Arms) {k : Str} (hk : Stop (skip k)) :
    Stop (skip (lA lay d (lay.ind d) "else if ".toList rest k)) := by
  cases rest with
  | nil => exact hk
  | cons t body rest => rw [lA_cons, skip_elseifL hl]; exact stop_elseif _

theorem armsL_nil (args : List Str) (d : Nat) : ArmsL lay args d .nil := by
  intro els K f R hK hKe _ hR
  rw [lA_nil] at hR
  refine ⟨[], R, pElseIfs_none f R (by rw [hR]; exact hKe), hR, fun brs' h => h⟩

theorem armsL_cons (hl : lay.OK) (args : List Str) (d : Nat) (t : Str) (body : Block) (rest : Arms)
    (h : okA args (.cons t body rest) = true) (hb : BlockL lay args (d + 1) body) (hr : ArmsL lay args d rest) :
    ArmsL lay args d (.cons t body rest) := by
  simp only [okA_cons, Bool.and_eq_true, Bool.not_eq_true'] at h
  obtain ⟨⟨⟨h1, hne⟩, hok⟩, _⟩ := h
  obtain ⟨ht, hex⟩ := testOk_plain h1
  intro els K f R hK hKe hf hR
  rw [cAL_cons] at hf
  obtain ⟨g, rfl⟩ : ∃ g, f = g + 1 := ⟨f - 1, by omega⟩
  obtain ⟨x, y, z, kids, r, hbr, hrs, hRb⟩ := branchL hl "IF_ELSEIF_BR" "IF_ELSEIF_HEAD" "else if ".toList kwElseIf dummyThen
    "then".toList (fun x => pLit_append _ x) (Or.inl ⟨rfl, rfl⟩) ht hb hne
    (lA lay d (lay.ind d) "else if ".toList rest K) g (stop_lA hl d rest hK) (by omega)
  obtain ⟨bs, r', hbs, hr's, hRA⟩ := hr els K g r hK hKe (by omega) hrs
  rw [lA_cons, skip_elseifL hl] at hR
  refine ⟨.node "IF_ELSEIF_BR" x [.node "IF_ELSEIF_HEAD" y [.node "TEST" t []], .node "EXP_BODY" z kids] :: bs, r', ?_,
    hr's, ?_⟩
  · simp only [pElseIfs, hR, hbr, hbs]
  · intro brs' h'
    exact .arm (Or.inr rfl) ht.trim_self hex hRb (hRA brs' h')

/-- the `if` statement, given the text `KK` of its else-part and `fi`, and what the parser does there -/
theorem ite_coreL (hl : lay.OK) (args : List Str) (d : Nat) (t : Str) (body : Block) (rest : Arms) (els : Block)
    (k' KK : Str) (g : Nat)
    (hA : okA args (.cons t body rest) = true) (hb : BlockL lay args (d + 1) body) (hr : ArmsL lay args d rest)
    (hf : cBL lay false body + cAL lay rest + lay.gapH + 3 ≤ g) (hK : Stop (skip KK)) (hKe : kwElseIf (skip KK) = none)
    (hlen : k'.length < (lA lay d [] "if ".toList (.cons t body rest) KK).length)
    (elsPT : List PT)
    (hcase : (kwElse (skip KK) = none ∧ kwFi (skip KK) = some k' ∧ elsPT = []) ∨
      (∃ re b r3, kwElse (skip KK) = some re ∧ pBody g (skip re) = some (b, r3) ∧ kwFi (skip r3) = some k' ∧
        elsPT = [.node "IF_ELSE_BR" (span (skip KK) r3) [.node "KW_ELSE" (span (skip KK) re) [], b]]))
    (hRe : RArmsB lay.HasBlank args .nil els elsPT) :
    ∃ tr, pItemB (g + 1) (lA lay d [] "if ".toList (.cons t body rest) KK) = some (tr, k') ∧
      pItemT (g + 1) (lA lay d [] "if ".toList (.cons t body rest) KK) = some (tr, k') ∧
      RStmtB lay.HasBlank args (.ite (.cons t body rest) els) tr ∧
      ∀ w, (∀ c, c ∈ w → isWsP c = true) →
        ∃ t', pItemT (g + 1) (w ++ lA lay d [] "if ".toList (.cons t body rest) KK) = some (t', k') ∧
          RStmtB lay.HasBlank args (.ite (.cons t body rest) els) t' := by
  simp only [okA_cons, Bool.and_eq_true, Bool.not_eq_true'] at hA
  obtain ⟨⟨⟨h1, hne⟩, hok⟩, _⟩ := hA
  obtain ⟨ht, hex⟩ := testOk_plain h1
  obtain ⟨x, y, z, kids, r1, hbr, hr1, hR⟩ := branchL hl "IF_IF_BR" "IF_HEAD" "if ".toList kwIf dummyThen
    "then".toList (fun x => pLit_append _ x) (Or.inl ⟨rfl, rfl⟩) ht hb hne
    (lA lay d (lay.ind d) "else if ".toList rest KK) g (stop_lA hl d rest hK) (by omega)
  obtain ⟨bs, r2, hbs, hr2, hRA⟩ := hr els KK g r1 hK hKe (by omega) hr1
  rw [lA_cons, List.nil_append] at hlen ⊢
  generalize hs : "if ".toList ++ (t ++ (hEnd lay.semi "then".toList ++
    blanks lay lay.gapH (lB lay (d + 1) false body (lA lay d (lay.ind d) "else if ".toList rest KK)))) = s at hbr hlen
  have hsk : skip s = s := by subst hs; exact skip_cons_of_not (by decide)
  have hcmd : pCmd s = none := by
    subst hs; simp [pCmd, kwList, kwIf, pLit, startsWith]
  have hw : pIf (g + 1) s = some (.node "EXP_IF" (span s k')
      ([.node "IF_IF_BR" x [.node "IF_HEAD" y [.node "TEST" t []], .node "EXP_BODY" z kids]] ++ bs ++ elsPT), k') := by
    rcases hcase with ⟨c1, c2, rfl⟩ | ⟨re, b, r3, c1, c2, c3, rfl⟩
    · simp only [pIf, hsk, hbr, hbs, hr2, c1, c2]
    · simp only [pIf, hsk, hbr, hbs, hr2, c1, c2, c3]
  have htrim : trim (span s k') ≠ [] := by
    subst hs; exact trim_span_ne (by decide) hlen
  refine ⟨.node "EXP_IF" (span s k')
      ([.node "IF_IF_BR" x [.node "IF_HEAD" y [.node "TEST" t []], .node "EXP_BODY" z kids]] ++ bs ++ elsPT),
    ?_, ?_, .ite htrim (.arm (Or.inl rfl) ht.trim_self hex hR (hRA elsPT hRe)), fun w hw' => ?_⟩
  · simp [pItemB, hcmd, hw]
  · simp [pItemT, hw]
  · have hsk' : skip (w ++ s) = s := by rw [skip_ws_append _ _ hw']; exact hsk
    have hw2 : pIf (g + 1) (w ++ s) = some (.node "EXP_IF" (span (w ++ s) k')
        ([.node "IF_IF_BR" x [.node "IF_HEAD" y [.node "TEST" t []], .node "EXP_BODY" z kids]] ++ bs ++ elsPT), k') := by
      rcases hcase with ⟨c1, c2, rfl⟩ | ⟨re, b, r3, c1, c2, c3, rfl⟩
      · simp only [pIf, hsk', hbr, hbs, hr2, c1, c2]
      · simp only [pIf, hsk', hbr, hbs, hr2, c1, c2, c3]
    have htrim' : trim (span (w ++ s) k') ≠ [] := by
      subst hs; exact trim_span_ws w (by decide) hlen
    refine ⟨.node "EXP_IF" (span (w ++ s) k')
        ([.node "IF_IF_BR" x [.node "IF_HEAD" y [.node "TEST" t []], .node "EXP_BODY" z kids]] ++ bs ++ elsPT), ?_,
      .ite htrim' (.arm (Or.inl rfl) ht.trim_self hex hR (hRA elsPT hRe))⟩
    simp [pItemT, hw2]

theorem stmtL_ite (hl : lay.OK) (args : List Str) (d : Nat) (t : Str) (body : Block) (rest : Arms) (els : Block)
    (h : okS args (.ite (.cons t body rest) els) = true) (hb : BlockL lay args (d + 1) body) (hr : ArmsL lay args d rest)
    (he : BlockL lay args (d + 1) els) : StmtL lay args d (.ite (.cons t body rest) els) := by
  have hlong := fun fin k => lS_longer (lay := lay) h d fin k
  simp only [okS_ite, Bool.and_eq_true, Bool.not_eq_true'] at h
  obtain ⟨⟨_, hA⟩, hokE⟩ := h
  intro fin k f hf
  rw [cSL_ite, cAL_cons] at hf
  obtain ⟨g, rfl⟩ : ∃ g, f = g + 1 := ⟨f - 1, by omega⟩
  have hlen := hlong fin k
  have hKs := skip_fiL hl d fin k
  rw [lS_ite] at hlen ⊢
  cases els with
  | nil =>
    simp only [Block.isNil, ↓reduceIte] at hlen ⊢
    refine ite_coreL hl args d t body rest .nil _ _ g hA hb hr (by omega) (by rw [hKs]; exact stop_fiL fin k)
      ?_ hlen [] (Or.inl ⟨?_, ?_, rfl⟩) .done
    · rw [hKs]; simp [kwElseIf, pLit, startsWith]
    · rw [hKs]; cases fin <;> simp [eol, kwElse, pLit, startsWith, skip, pNewline]
    · rw [hKs]; exact kwFi_fiL fin k
  | cons s0 b0 =>
    simp only [Block.isNil, Bool.false_eq_true, ↓reduceIte] at hlen hf ⊢
    obtain ⟨z, kids, r3, hbody, hr3, hR⟩ := bodyL hl he (by simp [Block.isNil])
      (lay.ind d ++ ("fi".toList ++ eol lay fin k)) g (by rw [hKs]; exact stop_fiL fin k) (by omega)
    rw [hKs] at hr3
    have hsE : skip (lay.ind d ++ ("else\n".toList ++ blanks lay lay.gapH
        (lB lay (d + 1) false (.cons s0 b0) (lay.ind d ++ ("fi".toList ++ eol lay fin k))))) =
        "else\n".toList ++ blanks lay lay.gapH
          (lB lay (d + 1) false (.cons s0 b0) (lay.ind d ++ ("fi".toList ++ eol lay fin k))) :=
      skip_indKw hl d _ _ (by decide)
    refine ite_coreL hl args d t body rest _ _ _ g hA hb hr (by omega) (by rw [hsE]; exact stop_else _)
      ?_ hlen _ (Or.inr ⟨_, .node "EXP_BODY" z kids, r3, ?_, hbody, ?_, rfl⟩) (.els hR)
    · rw [hsE]; simp [kwElseIf, pLit, startsWith]
    · rw [hsE]; simp [kwElse, pLit, startsWith, skip, isWsP, pNewline, List.dropWhile]
    · rw [hr3]; exact kwFi_fiL fin k

theorem blockL_nil (args : List Str) (d : Nat) : BlockL lay args d .nil := by
  intro fin k f _ hk _
  exact ⟨[], by rw [lB_nil]; exact items_stop hk f, .nil⟩

theorem blockL_cons (hl : lay.OK) (args : List Str) (d : Nat) (s : Stmt) (b : Block) (hokS : okS args s = true)
    (hs : StmtL lay args d s) (hb : BlockL lay args d b) : BlockL lay args d (.cons s b) := by
  intro fin k f hk hstop hf
  rw [cBL_cons] at hf
  rw [lB_cons, skip_ind hl, lS_skip hokS]
  have hlen := lS_longer (lay := lay) hokS d (fin && b.isNil) (lB lay d fin b k)
  cases hfb : (fin && b.isNil) with
  | false =>
    simp only [hfb, Bool.false_eq_true, ↓reduceIte] at hf hlen ⊢
    obtain ⟨f0, rfl⟩ : ∃ f0, f = f0 + lay.gapS + 1 := ⟨f - lay.gapS - 1, by omega⟩
    obtain ⟨t, e1, e2, hRs, _⟩ := hs false (lB lay d fin b k) (f0 + lay.gapS) (by omega)
    obtain ⟨ts, hI, hRb⟩ := hb fin k f0 hk hstop (by omega)
    have hI' := items_blanks hl hI lay.gapS
    exact ⟨_, items_cons e1 e2 hlen hI', .cons hRs (items_mono_rel hRb _ (fun h => Or.inr h))⟩
  | true =>
    simp only [hfb, ↓reduceIte] at hf hlen ⊢
    simp only [Bool.and_eq_true] at hfb
    obtain ⟨rfl, hbn⟩ := hfb
    have := isNil_true_nil hbn
    subst this
    have hk' := hk rfl
    subst hk'
    obtain ⟨g, rfl⟩ : ∃ g, f = g + 1 := ⟨f - 1, by omega⟩
    obtain ⟨t, e1, e2, hRs, _⟩ := hs true (lB lay d true .nil []) g (by omega)
    have hI : Items g (skip (aft lay true (lB lay d true .nil []))) [] [] := by
      have := items_stop hstop g
      simpa [aft, skip] using this
    exact ⟨_, items_cons e1 e2 hlen hI, .cons hRs .nil⟩

mutual
theorem stmtL (hl : lay.OK) (args : List Str) : ∀ (d : Nat) (s : Stmt), okS args s = true → StmtL lay args d s
  | d, .cmd l, h => stmtL_cmd args d l h
  | d, .brk, _ => stmtL_brk args d
  | d, .cont, _ => stmtL_cont args d
  | _, .ite .nil els, h => by simp [okS_ite, Arms.isNil] at h
  | d, .ite (.cons t body rest) els, h => by
    have h' := h
    simp only [okS_ite, okA_cons, Bool.and_eq_true, Bool.not_eq_true'] at h'
    exact stmtL_ite hl args d t body rest els h (blockL hl args (d + 1) body h'.1.2.1.2) (armsL hl args d rest h'.1.2.2)
      (blockL hl args (d + 1) els h'.2)
  | d, .for v init body, h => by
    have h' := h
    simp only [okS_for, Bool.and_eq_true] at h'
    exact stmtL_for hl args d v init body h (blockL hl args (d + 1) body h'.2)
  | d, .whl t body, h => by
    have h' := h
    simp only [okS_whl, Bool.and_eq_true] at h'
    exact stmtL_whl hl args d t body h (blockL hl args (d + 1) body h'.2)
theorem blockL (hl : lay.OK) (args : List Str) : ∀ (d : Nat) (b : Block), okB args b = true → BlockL lay args d b
  | d, .nil, _ => blockL_nil args d
  | d, .cons s b, h => by
    have h' := h
    simp only [okB_cons, Bool.and_eq_true] at h'
    exact blockL_cons hl args d s b h'.1 (stmtL hl args d s h'.1) (blockL hl args d b h'.2)
theorem armsL (hl : lay.OK) (args : List Str) : ∀ (d : Nat) (a : Arms), okA args a = true → ArmsL lay args d a
  | d, .nil, _ => armsL_nil args d
  | d, .cons t body rest, h => by
    have h' := h
    simp only [okA_cons, Bool.and_eq_true] at h'
    exact armsL_cons hl args d t body rest h (blockL hl args (d + 1) body h'.1.2) (armsL hl args d rest h'.2)
end

/-! ### the whole text: the first line is parsed without skipping the blanks in front of it -/

theorem top_cons {f : Nat} {S R k : Str} {t : PT} {ts : List PT} (h2 : pItemT f S = some (t, R))
    (hlen : R.length < S.length) (h : Items f (skip R) ts k) :
    ∃ r, pTop (f + 1) S = (t :: ts, r) ∧ skip r = skip k := by
  obtain ⟨_, ⟨r2, hr2, hs2⟩⟩ := h
  rw [pTop_succ, h2]
  simp only [hlen, ↓reduceIte, hr2]
  by_cases hts : ts = []
  · subst hts
    have := pTop_nil_rest f (skip R) (by rw [hr2])
    rw [hr2] at this
    have hr : r2 = skip R := by simpa using this
    exact ⟨R, by simp, by rw [← hs2, hr, skip_skip]⟩
  · exact ⟨r2, by simp [hts], hs2⟩

/-- the top rule on the whole text of a block (the top level may be indented as well) -/
theorem topL (hl : lay.OK) (args : List Str) (b : Block) (hok : okB args b = true) (fin : Bool) (f : Nat)
    (hf : cBL lay fin b ≤ f) :
    ∃ ts r, pTop f (lB lay 0 fin b []) = (ts, r) ∧ skip r = [] ∧ RBlockB lay.HasBlank args b ts := by
  cases b with
  | nil => exact ⟨[], [], by rw [lB_nil]; exact stop_nil.top f, rfl, .nil⟩
  | cons s b =>
    simp only [okB_cons, Bool.and_eq_true] at hok
    have hs := stmtL hl args 0 s hok.1
    have hb := blockL hl args 0 b hok.2
    rw [cBL_cons] at hf
    rw [lB_cons]
    have hlen := lS_longer (lay := lay) hok.1 0 (fin && b.isNil) (lB lay 0 fin b [])
    have hlen' : (aft lay (fin && b.isNil) (lB lay 0 fin b [])).length <
        (lay.ind 0 ++ lS lay 0 (fin && b.isNil) s (lB lay 0 fin b [])).length := by
      simp only [List.length_append]; omega
    cases hfb : (fin && b.isNil) with
    | false =>
      simp only [hfb, Bool.false_eq_true, ↓reduceIte] at hf hlen' ⊢
      obtain ⟨f0, rfl⟩ : ∃ f0, f = f0 + lay.gapS + 1 := ⟨f - lay.gapS - 1, by omega⟩
      obtain ⟨_, _, _, _, h4⟩ := hs false (lB lay 0 fin b []) (f0 + lay.gapS) (by omega)
      obtain ⟨t', e, hRs⟩ := h4 (lay.ind 0) (hl.ind 0)
      obtain ⟨ts, hI, hRb⟩ := hb fin [] f0 (fun _ => rfl) stop_nil (by omega)
      have hI' := items_blanks hl hI lay.gapS
      obtain ⟨r, h1, h2⟩ := top_cons e hlen' hI'
      exact ⟨_, r, h1, h2, .cons hRs (items_mono_rel hRb _ (fun h => Or.inr h))⟩
    | true =>
      simp only [hfb, ↓reduceIte] at hf hlen' ⊢
      simp only [Bool.and_eq_true] at hfb
      obtain ⟨rfl, hbn⟩ := hfb
      have := isNil_true_nil hbn
      subst this
      obtain ⟨g, rfl⟩ : ∃ g, f = g + 1 := ⟨f - 1, by omega⟩
      obtain ⟨_, _, _, _, h4⟩ := hs true (lB lay 0 true .nil []) g (by omega)
      obtain ⟨t', e, hRs⟩ := h4 (lay.ind 0) (hl.ind 0)
      have hI : Items g (skip (aft lay true (lB lay 0 true .nil []))) [] [] := by
        have := items_stop (k := []) stop_nil g
        simpa [aft, skip] using this
      obtain ⟨r, h1, h2⟩ := top_cons e hlen' hI
      exact ⟨_, r, h1, h2, .cons hRs .nil⟩

end Cicada.C14
