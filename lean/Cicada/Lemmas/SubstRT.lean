import Cicada.Lemmas.Passes
import Cicada.Thm.C11
import Cicada.Lemmas.C20
/-!
# Round-trip lemmas for the two command-substitution passes (C11)

The model functions `substDotLoop`, `substDotGo`, `substDollarLoop`, `substDollarGo` are pure, so "the inner
command runs exactly once" cannot be read off their results.  This file therefore defines *instrumented
copies* (`dotLoopLog`, `dotGoLog`, `dollarLoopLog`, `dollarGoLog`) that return, beside the result, the list of
texts handed to `runInner`, in order; the erasure lemmas `…_fst` show **for all inputs** that the first
component is the model function itself.  Everything else is proved about the instrumented copies.

The inner command is abstracted by an oracle `run : Str → Option Str` (`none` = the inner text cannot be
planned) through the hypothesis `Answers se F run cmds` : for each listed command and every fuel `≥ F`,
`runInner se fuel cmd = .ok (run cmd)`.  `answers_plain` discharges it for plain program words.
-/
namespace Cicada.SubstRT
open Cicada Cicada.PassLemmas Cicada.TokLemmas

/-! ### instrumented copies: result and the texts handed to `runInner`, in order -/

/-- `substDotLoop` with its query log -/
def dotLoopLog (se : SubstEnv) : Nat → Str → Str → Outcome Str × List Str
  | 0, _, _ => (.diverge "subst-dot-loop", [])
  | f + 1, item, tok =>
    match matchBackquote tok with
    | none => (.ok (item ++ tok), [])
    | some (h, body, tl) =>
      match runInner se f body with
      | .ok r =>
        if tl = [] then (.ok (item ++ h ++ r.getD []), [body])
        else ((dotLoopLog se f (item ++ h ++ r.getD []) tl).1, body :: (dotLoopLog se f (item ++ h ++ r.getD []) tl).2)
      | .err k => (.err k, [body])
      | .panic s => (.panic s, [body])
      | .diverge s => (.diverge s, [body])

theorem dotLoopLog_fst (se : SubstEnv) : ∀ (f : Nat) (item tok : Str),
    (dotLoopLog se f item tok).1 = substDotLoop se f item tok := by
  intro f
  induction f with
  | zero => intro item tok; simp [dotLoopLog, substDotLoop]
  | succ f ih =>
    intro item tok
    simp only [dotLoopLog, substDotLoop]
    cases hm : matchBackquote tok with
    | none => rfl
    | some x =>
      obtain ⟨h, body, tl⟩ := x
      simp only []
      cases hr : runInner se f body with
      | ok r =>
        simp only []
        by_cases ht : tl = []
        · simp [ht]
        · simp only [ht, ↓reduceIte]; exact ih _ _
      | err k => rfl
      | panic k => rfl
      | diverge k => rfl

/-- `substDotGo` with its query log -/
def dotGoLog (se : SubstEnv) : Nat → Nat → List Tok → Outcome (List (Nat × Str)) × List Str
  | 0, _, _ => (.diverge "fuel", [])
  | _ + 1, _, [] => (.ok [], [])
  | f + 1, idx, (sep, tok) :: rest =>
    if sep = ['`'] then
      match runInner se f tok with
      | .ok r => ((dotGoLog se f (idx + 1) rest).1.map (fun u => (idx, r.getD []) :: u), tok :: (dotGoLog se f (idx + 1) rest).2)
      | .err k => (.err k, [tok])
      | .panic s => (.panic s, [tok])
      | .diverge s => (.diverge s, [tok])
    else if sep = ['"'] ∨ sep = [] then
      match matchBackquote tok with
      | none => dotGoLog se f (idx + 1) rest
      | some _ =>
        match (dotLoopLog se f [] tok).1 with
        | .ok item => ((dotGoLog se f (idx + 1) rest).1.map (fun u => (idx, item) :: u),
                        (dotLoopLog se f [] tok).2 ++ (dotGoLog se f (idx + 1) rest).2)
        | .err k => (.err k, (dotLoopLog se f [] tok).2)
        | .panic s => (.panic s, (dotLoopLog se f [] tok).2)
        | .diverge s => (.diverge s, (dotLoopLog se f [] tok).2)
    else dotGoLog se f (idx + 1) rest

theorem dotGoLog_fst (se : SubstEnv) : ∀ (f idx : Nat) (ts : List Tok),
    (dotGoLog se f idx ts).1 = substDotGo se f idx ts := by
  intro f
  induction f with
  | zero => intro idx ts; simp [dotGoLog, substDotGo]
  | succ f ih =>
    intro idx ts
    cases ts with
    | nil => simp [dotGoLog, substDotGo]
    | cons t rest =>
      obtain ⟨sep, tok⟩ := t
      simp only [dotGoLog, substDotGo]
      by_cases h1 : sep = ['`']
      · simp only [h1, ↓reduceIte]
        cases hr : runInner se f tok with
        | ok r => simp only []; rw [ih]
        | err k => rfl
        | panic k => rfl
        | diverge k => rfl
      · simp only [h1, ↓reduceIte]
        by_cases h2 : sep = ['"'] ∨ sep = []
        · simp only [h2, ↓reduceIte]
          cases hm : matchBackquote tok with
          | none => simp only []; exact ih _ _
          | some x =>
            simp only []
            rw [← dotLoopLog_fst]
            cases hl : (dotLoopLog se f [] tok).1 with
            | ok item => simp only [Outcome.bind]; rw [ih]
            | err k => rfl
            | panic k => rfl
            | diverge k => rfl
        · simp only [h2, ↓reduceIte]; exact ih _ _

/-- `substDollarLoop` with its query log -/
def dollarLoopLog (se : SubstEnv) : Nat → Str → Outcome (Option Str) × List Str
  | 0, _ => (.diverge "subst-dollar-loop", [])
  | f + 1, line =>
    if !shouldDoDollar line then (.ok (some line), []) else
    match findDollarGroup [] line with
    | none => (.ok none, [])
    | some (_, cmd, _) =>
      match runInner se f cmd with
      | .ok r => ((dollarLoopLog se f (spliceDollar line (r.getD []))).1,
                  cmd :: (dollarLoopLog se f (spliceDollar line (r.getD []))).2)
      | .err k => (.err k, [cmd])
      | .panic s => (.panic s, [cmd])
      | .diverge s => (.diverge s, [cmd])

theorem dollarLoopLog_fst (se : SubstEnv) : ∀ (f : Nat) (line : Str),
    (dollarLoopLog se f line).1 = substDollarLoop se f line := by
  intro f
  induction f with
  | zero => intro line; simp [dollarLoopLog, substDollarLoop]
  | succ f ih =>
    intro line
    simp only [dollarLoopLog, substDollarLoop]
    by_cases hs : shouldDoDollar line = true
    · simp only [hs, Bool.not_true, Bool.false_eq_true, ↓reduceIte]
      cases hm : findDollarGroup [] line with
      | none => rfl
      | some x =>
        obtain ⟨a, cmd, b⟩ := x
        simp only []
        cases hr : runInner se f cmd with
        | ok r => simp only []; exact ih _
        | err k => rfl
        | panic k => rfl
        | diverge k => rfl
    · simp [hs]

/-- `substDollarGo` with its query log -/
def dollarGoLog (se : SubstEnv) : Nat → Nat → List Tok → Outcome (Option (List (Nat × Str))) × List Str
  | 0, _, _ => (.diverge "fuel", [])
  | _ + 1, _, [] => (.ok (some []), [])
  | f + 1, idx, (sep, tok) :: rest =>
    if sep = ['\''] ∨ sep = ['\\'] ∨ !shouldDoDollar tok then dollarGoLog se f (idx + 1) rest
    else
      match (dollarLoopLog se f tok).1 with
      | .ok none => (.ok none, (dollarLoopLog se f tok).2)
      | .ok (some line) => ((dollarGoLog se f (idx + 1) rest).1.map (fun u => u.map (fun u => (idx, line) :: u)),
                            (dollarLoopLog se f tok).2 ++ (dollarGoLog se f (idx + 1) rest).2)
      | .err k => (.err k, (dollarLoopLog se f tok).2)
      | .panic s => (.panic s, (dollarLoopLog se f tok).2)
      | .diverge s => (.diverge s, (dollarLoopLog se f tok).2)

theorem dollarGoLog_fst (se : SubstEnv) : ∀ (f idx : Nat) (ts : List Tok),
    (dollarGoLog se f idx ts).1 = substDollarGo se f idx ts := by
  intro f
  induction f with
  | zero => intro idx ts; simp [dollarGoLog, substDollarGo]
  | succ f ih =>
    intro idx ts
    cases ts with
    | nil => simp [dollarGoLog, substDollarGo]
    | cons t rest =>
      obtain ⟨sep, tok⟩ := t
      simp only [dollarGoLog, substDollarGo]
      by_cases h1 : sep = ['\''] ∨ sep = ['\\'] ∨ (!shouldDoDollar tok) = true
      · simp only [h1, ↓reduceIte]; exact ih _ _
      · simp only [h1, ↓reduceIte]
        rw [← dollarLoopLog_fst]
        cases hl : (dollarLoopLog se f tok).1 with
        | ok r =>
          cases r with
          | none => rfl
          | some line => simp only [Outcome.bind]; rw [ih]
        | err k => rfl
        | panic k => rfl
        | diverge k => rfl

/-! ### the oracle -/

/-- the inner commands `cmds` are answered by `run` at every fuel `≥ F` -/
def Answers (se : SubstEnv) (F : Nat) (run : Str → Option Str) (cmds : List Str) : Prop :=
  ∀ c ∈ cmds, ∀ g, F ≤ g → runInner se g c = .ok (run c)

theorem Answers.mono {se : SubstEnv} {F : Nat} {run : Str → Option Str} {a b : List Str}
    (h : Answers se F run b) (hab : ∀ c ∈ a, c ∈ b) : Answers se F run a :=
  fun c hc g hg => h c (hab c hc) g hg

/-! ### backquote words as piece lists -/

def noBq (s : Str) : Bool := s.all (· ≠ '`')

/-- the word  lit `c₁` l₁ `c₂` l₂ … `cₙ` lₙ  for `ps = [(c₁,l₁), …, (cₙ,lₙ)]` -/
def bqWord : Str → List (Str × Str) → Str
  | lit, [] => lit
  | lit, (c, l) :: ps => lit ++ '`' :: (c ++ '`' :: bqWord l ps)

/-- the same word with every command replaced by what the oracle answers (nothing when rejected) -/
def bqResult (run : Str → Option Str) : Str → List (Str × Str) → Str
  | lit, [] => lit
  | lit, (c, l) :: ps => lit ++ (run c).getD [] ++ bqResult run l ps

/-- a command piece: non-empty, no backquote in the command nor in the literal after it -/
def pieceOk (p : Str × Str) : Bool := !p.1.isEmpty && noBq p.1 && noBq p.2
def pieceNoNl (p : Str × Str) : Bool := noNl p.1 && noNl p.2
/-- everything after the closing backquote of the FIRST command is on one line (the regex tail `(.*)$`) -/
def restNoNl : List (Str × Str) → Bool
  | [] => true
  | (_, l) :: ps => noNl l && ps.all pieceNoNl

/-- guard of the backquote-word theorems -/
def bqGuard (lit : Str) (ps : List (Str × Str)) : Bool := noBq lit && ps.all pieceOk && restNoNl ps

theorem noBq_mem {s : Str} (h : noBq s = true) : ∀ c ∈ s, c ≠ '`' := by
  simpa [noBq] using h

theorem noNl_bqWord : ∀ (ps : List (Str × Str)) (l : Str), noNl l = true → ps.all pieceNoNl = true →
    noNl (bqWord l ps) = true := by
  intro ps
  induction ps with
  | nil => intro l h _; simpa [bqWord] using h
  | cons p ps ih =>
    intro l h hp
    obtain ⟨c, l'⟩ := p
    simp only [List.all_cons, Bool.and_eq_true, pieceNoNl] at hp
    have := ih l' hp.1.2 hp.2
    simp only [noNl, List.all_eq_true, decide_eq_true_eq] at h this hp ⊢
    intro x hx
    simp only [bqWord, List.mem_append, List.mem_cons] at hx
    rcases hx with hx | hx | hx | hx | hx
    · exact h x hx
    · subst hx; decide
    · exact hp.1.1 x hx
    · subst hx; decide
    · exact this x hx

theorem restNoNl_tail (c l : Str) (ps : List (Str × Str)) (h : restNoNl ((c, l) :: ps) = true) :
    noNl (bqWord l ps) = true ∧ restNoNl ps = true := by
  simp only [restNoNl, Bool.and_eq_true] at h
  refine ⟨noNl_bqWord ps l h.1 h.2, ?_⟩
  cases ps with
  | nil => rfl
  | cons p ps =>
    obtain ⟨c', l'⟩ := p
    simp only [List.all_cons, Bool.and_eq_true, pieceNoNl] at h
    simp [restNoNl, h.2.1.2, h.2.2]

theorem bqWord_eq_nil (l : Str) (ps : List (Str × Str)) (h : bqWord l ps = []) : l = [] ∧ ps = [] := by
  cases ps with
  | nil => exact ⟨by simpa [bqWord] using h, rfl⟩
  | cons p ps => obtain ⟨c, l'⟩ := p; simp [bqWord] at h

/-- **the by-tail loop on a piece word**: every literal kept, every command replaced by the oracle's answer,
queried once each, left to right; the accumulated item (which holds the earlier outputs) is never re-scanned -/
theorem dotLoopLog_pieces (se : SubstEnv) (F : Nat) (run : Str → Option Str) :
    ∀ (ps : List (Str × Str)) (lit item : Str) (f : Nat),
      noBq lit = true → ps.all pieceOk = true → restNoNl ps = true →
      Answers se F run (ps.map (·.1)) → ps.length + F + 1 ≤ f →
      dotLoopLog se f item (bqWord lit ps) = (.ok (item ++ bqResult run lit ps), ps.map (·.1)) := by
  intro ps
  induction ps with
  | nil =>
    intro lit item f hl _ _ _ hf
    obtain ⟨f, rfl⟩ : ∃ k, f = k + 1 := ⟨f - 1, by omega⟩
    simp [dotLoopLog, bqWord, bqResult, matchBackquote_none lit (noBq_mem hl)]
  | cons p ps ih =>
    intro lit item f hl hp hn ha hf
    obtain ⟨c, l⟩ := p
    obtain ⟨f, rfl⟩ : ∃ k, f = k + 1 := ⟨f - 1, by omega⟩
    simp only [List.all_cons, Bool.and_eq_true, pieceOk, Bool.not_eq_true', List.isEmpty_eq_false_iff] at hp
    obtain ⟨hn1, hn2⟩ := restNoNl_tail c l ps hn
    have hm := C11.C11_backquote_match lit c (bqWord l ps) (noBq_mem hl) hp.1.1.1 (noBq_mem hp.1.1.2) hn1
    have hr : runInner se f c = .ok (run c) := ha c (by simp) f (by simp at hf; omega)
    simp only [dotLoopLog, bqWord, hm, hr]
    by_cases ht : bqWord l ps = []
    · obtain ⟨rfl, rfl⟩ := bqWord_eq_nil l ps ht
      simp [bqWord, bqResult]
    · simp only [ht, ↓reduceIte]
      rw [ih l (item ++ lit ++ (run c).getD []) f hp.1.2 hp.2 hn2
        (ha.mono (by intro x hx; simp at hx ⊢; exact Or.inr hx)) (by simp at hf; omega)]
      simp [bqResult, List.append_assoc]

/-! ### the backquote pass over a token list -/

/-- a token the backquote pass skips (weakest condition) -/
def DotSkip (t : Tok) : Prop := t.1 ≠ ['`'] ∧ ((t.1 = ['"'] ∨ t.1 = []) → matchBackquote t.2 = none)

theorem noSubst_dotSkip (t : Tok) (h : NoSubst t) : DotSkip t := by
  rcases h with h | ⟨h, hm, _⟩
  · exact ⟨by simp [h], fun h' => by rcases h' with h' | h' <;> simp [h] at h'⟩
  · exact ⟨by rcases h with h | h <;> simp [h], fun _ => hm⟩

/-- shapes of tokens for the backquote pass -/
inductive DotTok where
  /-- a token the pass leaves alone -/
  | skip (t : Tok)
  /-- a double-quoted (`dq = true`) or unquoted token that is a piece word with at least one command -/
  | word (dq : Bool) (lit : Str) (ps : List (Str × Str))
  /-- a token that is one backquote substitution as a whole (separator `` ` ``) -/
  | whole (cmd : Str)

def DotTok.render : DotTok → Tok
  | .skip t => t
  | .word dq lit ps => (if dq then ['"'] else [], bqWord lit ps)
  | .whole cmd => (['`'], cmd)

def DotTok.queries : DotTok → List Str
  | .skip _ => []
  | .word _ _ ps => ps.map (·.1)
  | .whole cmd => [cmd]

def DotTok.Ok : DotTok → Prop
  | .skip t => DotSkip t
  | .word _ lit ps => ps ≠ [] ∧ bqGuard lit ps = true
  | .whole _ => True

/-- the updates `(token index, new text)` the pass must produce -/
def dotUpdates (run : Str → Option Str) : Nat → List DotTok → List (Nat × Str)
  | _, [] => []
  | i, .skip _ :: r => dotUpdates run (i + 1) r
  | i, .word _ lit ps :: r => (i, bqResult run lit ps) :: dotUpdates run (i + 1) r
  | i, .whole cmd :: r => (i, (run cmd).getD []) :: dotUpdates run (i + 1) r

theorem map_ok {α β} (f : α → β) (a : α) : (Outcome.ok a).map f = .ok (f a) := rfl

/-- **the whole backquote pass**: over any list of skipped tokens, piece words and whole-token substitutions,
the updates are exactly `dotUpdates` and the commands are queried once each in reading order -/
theorem dotGoLog_toks (se : SubstEnv) (F : Nat) (run : Str → Option Str) :
    ∀ (ts : List DotTok) (f idx : Nat), (∀ t ∈ ts, t.Ok) →
      Answers se F run (ts.flatMap DotTok.queries) →
      ts.length + (ts.flatMap DotTok.queries).length + F + 2 ≤ f →
      dotGoLog se f idx (ts.map DotTok.render) = (.ok (dotUpdates run idx ts), ts.flatMap DotTok.queries) := by
  intro ts
  induction ts with
  | nil =>
    intro f idx _ _ hf
    obtain ⟨f, rfl⟩ : ∃ k, f = k + 1 := ⟨f - 1, by omega⟩
    simp [dotGoLog, dotUpdates]
  | cons t ts ih =>
    intro f idx hok ha hf
    obtain ⟨f, rfl⟩ : ∃ k, f = k + 1 := ⟨f - 1, by omega⟩
    simp only [List.flatMap_cons, List.length_cons, List.length_append] at hf
    have hrest := ih f (idx + 1) (fun x hx => hok x (by simp [hx]))
      (ha.mono (by intro x hx; simp only [List.flatMap_cons, List.mem_append]; exact Or.inr hx)) (by omega)
    have ht := hok t (by simp)
    cases t with
    | skip t =>
      obtain ⟨sep, tok⟩ := t
      obtain ⟨h1, h2⟩ := ht
      simp only at h1 h2
      simp only [List.map_cons, DotTok.render, dotGoLog, h1, ↓reduceIte]
      by_cases h3 : sep = ['"'] ∨ sep = []
      · simp only [h3, ↓reduceIte, h2 h3, hrest]
        simp [dotUpdates, DotTok.queries]
      · simp only [h3, ↓reduceIte, hrest]
        simp [dotUpdates, DotTok.queries]
    | word dq lit ps =>
      obtain ⟨hne, hg⟩ := ht
      simp only [bqGuard, Bool.and_eq_true] at hg
      have hsep : (if dq = true then ['"'] else ([] : Str)) ≠ ['`'] := by cases dq <;> simp
      have hsep2 : (if dq = true then ['"'] else ([] : Str)) = ['"'] ∨ (if dq = true then ['"'] else ([] : Str)) = [] := by
        cases dq <;> simp
      have hloop := dotLoopLog_pieces se F run ps lit [] f hg.1.1 hg.1.2 hg.2
        (ha.mono (by intro x hx; simp only [List.flatMap_cons, List.mem_append, DotTok.queries]; exact Or.inl hx))
        (by simp only [DotTok.queries, List.length_map] at hf; omega)
      have hm : ∃ x, matchBackquote (bqWord lit ps) = some x := by
        cases ps with
        | nil => exact absurd rfl hne
        | cons p ps =>
          obtain ⟨c, l⟩ := p
          simp only [List.all_cons, Bool.and_eq_true, pieceOk, Bool.not_eq_true', List.isEmpty_eq_false_iff] at hg
          exact ⟨_, C11.C11_backquote_match lit c (bqWord l ps) (noBq_mem hg.1.1) hg.1.2.1.1.1
            (noBq_mem hg.1.2.1.1.2) (restNoNl_tail c l ps hg.2).1⟩
      obtain ⟨x, hm⟩ := hm
      simp only [List.map_cons, DotTok.render, dotGoLog, hsep, ↓reduceIte, hsep2, hm, hloop, hrest]
      simp [dotUpdates, DotTok.queries, map_ok]
    | whole cmd =>
      have hr : runInner se f cmd = .ok (run cmd) :=
        ha cmd (by simp [DotTok.queries]) f (by omega)
      simp only [List.map_cons, DotTok.render, dotGoLog, ↓reduceIte, hr, hrest]
      simp [dotUpdates, DotTok.queries, map_ok]

/-! ### the `$(…)` pass: one substitution per word -/

/-- the word `p$(cmd)q` -/
def dolWord (p cmd q : Str) : Str := p ++ '$' :: '(' :: (cmd ++ ')' :: q)

/-- guard on the word: `p` free of `$`; `cmd` non-empty, not starting with `)`, on one line; `q` on one line and
free of `)`; and the model's own exemption `='…$(…)…'` does not apply -/
def dolGuard (p cmd q : Str) : Bool :=
  p.all (· ≠ '$') && !cmd.isEmpty && decide (cmd.head? ≠ some ')') && noNl cmd && noNl q && q.all (· ≠ ')') &&
    !reQuotedAssignWithSubst (dolWord p cmd q)

theorem reDollarParen_skip (p rest : Str) (h : ∀ c ∈ p, c ≠ '$') : reDollarParen (p ++ rest) = reDollarParen rest := by
  induction p with
  | nil => rfl
  | cons c cs ih =>
    have hc := h c (by simp)
    simp [reDollarParen, hc, ih (fun x hx => h x (by simp [hx]))]

theorem dropWhile_paren_ne (xs q : Str) : (xs ++ ')' :: q).dropWhile (fun c => !decide (c = ')')) ≠ [] := by
  induction xs with
  | nil => simp
  | cons y ys ihy =>
    by_cases hy : y = ')'
    · simp [hy]
    · simpa [List.dropWhile, hy] using ihy

theorem reDollarParen_word (p cmd q : Str) (hp : ∀ c ∈ p, c ≠ '$') (hc : cmd ≠ []) (hh : cmd.head? ≠ some ')') :
    reDollarParen (dolWord p cmd q) = true := by
  rw [dolWord, reDollarParen_skip p _ hp]
  cases cmd with
  | nil => exact absurd rfl hc
  | cons x xs =>
    have hx : x ≠ ')' := by simpa using hh
    have hd := dropWhile_paren_ne xs q
    simp [reDollarParen, List.takeWhile, List.dropWhile, hx, hd]

structure DolGuard (p cmd q : Str) : Prop where
  hp : ∀ c ∈ p, c ≠ '$'
  hc : cmd ≠ []
  hh : cmd.head? ≠ some ')'
  hcn : noNl cmd = true
  hqn : noNl q = true
  hq : ∀ c ∈ q, c ≠ ')'
  hre : reQuotedAssignWithSubst (dolWord p cmd q) = false

theorem dolGuard_iff (p cmd q : Str) (h : dolGuard p cmd q = true) : DolGuard p cmd q := by
  simp only [dolGuard, Bool.and_eq_true, List.all_eq_true, decide_eq_true_eq, Bool.not_eq_true',
    List.isEmpty_eq_false_iff] at h
  obtain ⟨⟨⟨⟨⟨⟨h1, h2⟩, h3⟩, h4⟩, h5⟩, h6⟩, h7⟩ := h
  exact ⟨h1, h2, h3, h4, h5, h6, h7⟩

/-- the rewrite loop on `p$(cmd)q`: one query (`cmd`), the answer spliced in literally, provided the rewritten
word does not itself call for a substitution (otherwise the loop goes on: KF-C11-output-rescanned) -/
theorem dollarLoopLog_word (se : SubstEnv) (F : Nat) (run : Str → Option Str) (p cmd q : Str) (f : Nat)
    (hg : dolGuard p cmd q = true) (ha : Answers se F run [cmd])
    (hstop : shouldDoDollar (p ++ (run cmd).getD [] ++ q) = false) (hf : F + 2 ≤ f) :
    dollarLoopLog se f (dolWord p cmd q) = (.ok (some (p ++ (run cmd).getD [] ++ q)), [cmd]) := by
  obtain ⟨f, rfl⟩ : ∃ k, f = k + 2 := ⟨f - 2, by omega⟩
  have g := dolGuard_iff p cmd q hg
  have hsd : shouldDoDollar (dolWord p cmd q) = true := by
    simp [shouldDoDollar, reDollarParen_word p cmd q g.hp g.hc g.hh, g.hre]
  have hfind := C11.C11_find p cmd q g.hp g.hc g.hcn g.hqn g.hq
  have hspl := C11.C11_splice_literal p cmd q ((run cmd).getD []) g.hp g.hc g.hcn g.hqn g.hq
  have hr : runInner se (f + 1) cmd = .ok (run cmd) := ha cmd (by simp) (f + 1) (by omega)
  rw [dolWord] at hsd ⊢
  simp only [dollarLoopLog, hsd, hfind, hr, hspl, hstop]
  simp

/-- shapes of tokens for the `$(…)` pass -/
inductive DolTok where
  | skip (t : Tok)
  /-- a token with separator `sep` (anything but `'` and `\`) whose text is `p$(cmd)q` -/
  | word (sep p cmd q : Str)

def DolTok.render : DolTok → Tok
  | .skip t => t
  | .word sep p cmd q => (sep, dolWord p cmd q)

def DolTok.queries : DolTok → List Str
  | .skip _ => []
  | .word _ _ cmd _ => [cmd]

/-- a token the `$(…)` pass skips (weakest condition) -/
def DolSkip (t : Tok) : Prop := t.1 = ['\''] ∨ t.1 = ['\\'] ∨ shouldDoDollar t.2 = false

theorem noSubst_dolSkip (t : Tok) (h : NoSubst t) : DolSkip t := by
  rcases h with h | ⟨_, _, h⟩
  · exact Or.inl h
  · exact Or.inr (Or.inr h)

def DolTok.Ok (run : Str → Option Str) : DolTok → Prop
  | .skip t => DolSkip t
  | .word sep p cmd q => sep ≠ ['\''] ∧ sep ≠ ['\\'] ∧ dolGuard p cmd q = true ∧
      shouldDoDollar (p ++ (run cmd).getD [] ++ q) = false

def dolUpdates (run : Str → Option Str) : Nat → List DolTok → List (Nat × Str)
  | _, [] => []
  | i, .skip _ :: r => dolUpdates run (i + 1) r
  | i, .word _ p cmd q :: r => (i, p ++ (run cmd).getD [] ++ q) :: dolUpdates run (i + 1) r

/-- **the whole `$(…)` pass** over skipped tokens and one-substitution words -/
theorem dollarGoLog_toks (se : SubstEnv) (F : Nat) (run : Str → Option Str) :
    ∀ (ts : List DolTok) (f idx : Nat), (∀ t ∈ ts, t.Ok run) →
      Answers se F run (ts.flatMap DolTok.queries) →
      ts.length + F + 3 ≤ f →
      dollarGoLog se f idx (ts.map DolTok.render) = (.ok (some (dolUpdates run idx ts)), ts.flatMap DolTok.queries) := by
  intro ts
  induction ts with
  | nil =>
    intro f idx _ _ hf
    obtain ⟨f, rfl⟩ : ∃ k, f = k + 1 := ⟨f - 1, by omega⟩
    simp [dollarGoLog, dolUpdates]
  | cons t ts ih =>
    intro f idx hok ha hf
    obtain ⟨f, rfl⟩ : ∃ k, f = k + 1 := ⟨f - 1, by omega⟩
    simp only [List.length_cons] at hf
    have hrest := ih f (idx + 1) (fun x hx => hok x (by simp [hx]))
      (ha.mono (by intro x hx; simp only [List.flatMap_cons, List.mem_append]; exact Or.inr hx)) (by omega)
    have ht := hok t (by simp)
    cases t with
    | skip t =>
      obtain ⟨sep, tok⟩ := t
      have ht' : sep = ['\''] ∨ sep = ['\\'] ∨ (!shouldDoDollar tok) = true := by
        rcases ht with h | h | h
        · exact Or.inl h
        · exact Or.inr (Or.inl h)
        · exact Or.inr (Or.inr (by simpa using h))
      simp only [List.map_cons, DolTok.render, dollarGoLog, ht', ↓reduceIte, hrest]
      simp [dolUpdates, DolTok.queries]
    | word sep p cmd q =>
      obtain ⟨h1, h2, hg, hstop⟩ := ht
      have g := dolGuard_iff p cmd q hg
      have hsd : shouldDoDollar (dolWord p cmd q) = true := by
        simp [shouldDoDollar, reDollarParen_word p cmd q g.hp g.hc g.hh, g.hre]
      have hloop := dollarLoopLog_word se F run p cmd q f hg
        (ha.mono (by intro x hx; simp only [List.flatMap_cons, List.mem_append, DolTok.queries]; exact Or.inl hx))
        hstop (by omega)
      have hno : ¬ (sep = ['\''] ∨ sep = ['\\'] ∨ (!shouldDoDollar (dolWord p cmd q)) = true) := by
        simp [h1, h2, hsd]
      simp only [List.map_cons, DolTok.render, dollarGoLog, hno, ↓reduceIte, hloop, hrest]
      simp [dolUpdates, DolTok.queries, map_ok]

/-! ### the oracle hypothesis is satisfiable: plain program words -/

/-- a plain program word that is neither an alias nor `xargs` -/
def PlainCmd (se : SubstEnv) (p : Str) : Prop :=
  p.all wordChar = true ∧ p.any isAlphaA = true ∧ lookup se.env.aliases p = none ∧ p ≠ "xargs".toList

/-- running a plain word as inner command: its trimmed output (KF-C11-trim-both-ends), at every fuel `≥ 5` -/
theorem runInner_plain (se : SubstEnv) (p : Str) (g : Nat) (h : PlainCmd se p) (hg : 5 ≤ g) :
    runInner se g p = .ok (some (trim (se.cmdOut p))) := by
  obtain ⟨hw, hl, ha, hx⟩ := h
  obtain ⟨g, rfl⟩ : ∃ k, g = k + 2 := ⟨g - 2, by omega⟩
  have hne : p ≠ [] := by intro e; subst e; simp at hl
  have n1 := word_no p hw '|' (by decide)
  have n2 := word_no p hw '<' (by decide)
  have n3 := word_no p hw '&' (by decide)
  have n4 := word_no p hw '>' (by decide)
  have n5 := word_no p hw '=' (by decide)
  have harg : ArgTok ([], p) := by
    refine Or.inr ⟨?_, ?_, ?_, n4⟩
    · intro (e : p = ['|']); exact n1 '|' (by rw [e]; simp) rfl
    · cases p with
      | nil => simp
      | cons c cs => intro e; simp at e; exact n2 c (by simp) e
    · intro (e : p = ['&']); exact n3 '&' (by rw [e]; simp) rfl
  have hplan := planOfTokens_args p [] n5 harg (by simp) (by simp)
  have hexp := doExpansion_id se p [] g hw hl (by simp) ha hx (by simp; omega)
  simp only [runInner, planOf, C20.parseLine_plain p hw hne, hexp, Outcome.map, Outcome.bind, hplan]
  simp [planKey, joinWith]

theorem answers_plain (se : SubstEnv) (cmds : List Str) (h : ∀ c ∈ cmds, PlainCmd se c) :
    Answers se 5 (fun c => some (trim (se.cmdOut c))) cmds :=
  fun c hc g hg => runInner_plain se c g (h c hc) hg

/-- the oracle read off `planOf`: if the inner texts are planned as `plan` says (at every fuel `≥ F`), the oracle is
"trimmed output of the planned command, or nothing when planning failed" -/
def runOfPlan (se : SubstEnv) (plan : Str → Except String Plan) (c : Str) : Option Str :=
  match plan c with
  | .ok p => some (trim (se.cmdOut (planKey p)))
  | .error _ => none

theorem answers_of_planOf (se : SubstEnv) (F : Nat) (plan : Str → Except String Plan) (cmds : List Str)
    (h : ∀ c ∈ cmds, ∀ g, F ≤ g → planOf se g c = .ok (plan c)) :
    Answers se (F + 1) (runOfPlan se plan) cmds := by
  intro c hc g hg
  obtain ⟨g, rfl⟩ : ∃ k, g = k + 1 := ⟨g - 1, by omega⟩
  simp only [runInner, h c hc g (by omega), runOfPlan]
  cases plan c <;> rfl

/-! ### one substitution token among skipped tokens -/

theorem dot_render_skip (ts : List Tok) : (ts.map DotTok.skip).map DotTok.render = ts := by
  induction ts with
  | nil => rfl
  | cons t ts ih => simp only [List.map_cons, DotTok.render, ih]

theorem dot_queries_skip (ts : List Tok) : (ts.map DotTok.skip).flatMap DotTok.queries = [] := by
  induction ts with
  | nil => rfl
  | cons t ts ih => simpa [DotTok.queries] using ih

theorem dotUpdates_skip_append (run : Str → Option Str) (pre : List Tok) (r : List DotTok) :
    ∀ i, dotUpdates run i (pre.map DotTok.skip ++ r) = dotUpdates run (i + pre.length) r := by
  induction pre with
  | nil => intro i; rfl
  | cons t ts ih =>
    intro i
    simp only [List.map_cons, List.cons_append, dotUpdates, ih, List.length_cons]
    congr 1; omega

theorem dotUpdates_skips (run : Str → Option Str) (post : List Tok) (i : Nat) :
    dotUpdates run i (post.map DotTok.skip) = [] := by
  have := dotUpdates_skip_append run post [] i
  simpa [dotUpdates] using this

theorem dol_render_skip (ts : List Tok) : (ts.map DolTok.skip).map DolTok.render = ts := by
  induction ts with
  | nil => rfl
  | cons t ts ih => simp only [List.map_cons, DolTok.render, ih]

theorem dol_queries_skip (ts : List Tok) : (ts.map DolTok.skip).flatMap DolTok.queries = [] := by
  induction ts with
  | nil => rfl
  | cons t ts ih => simpa [DolTok.queries] using ih

theorem dolUpdates_skip_append (run : Str → Option Str) (pre : List Tok) (r : List DolTok) :
    ∀ i, dolUpdates run i (pre.map DolTok.skip ++ r) = dolUpdates run (i + pre.length) r := by
  induction pre with
  | nil => intro i; rfl
  | cons t ts ih =>
    intro i
    simp only [List.map_cons, List.cons_append, dolUpdates, ih, List.length_cons]
    congr 1; omega

theorem dolUpdates_skips (run : Str → Option Str) (post : List Tok) (i : Nat) :
    dolUpdates run i (post.map DolTok.skip) = [] := by
  have := dolUpdates_skip_append run post [] i
  simpa [dolUpdates] using this

/-- applying one update to the token list: that token's text is replaced (separator kept), the others untouched -/
theorem applyUpdates_single (pre post : List Tok) (sep w r : Str) :
    doExpansion.applyUpdates (pre ++ (sep, w) :: post) [(pre.length, r)] = pre ++ (sep, r) :: post := by
  simp [doExpansion.applyUpdates]

/-! ### the other passes on tokens that may hold backquotes -/

/-- `expand_env` leaves alone a program word without `$` followed by tokens that are single-quoted or free of `$` -/
theorem expandEnv_noDollar (e : Env) (p : Str) (qs : List Tok) (hp : ∀ c ∈ p, c ≠ '$')
    (h : ∀ t ∈ qs, t.1 = ['\''] ∨ ∀ c ∈ t.2, c ≠ '$') :
    expandEnv e (([], p) :: qs) = ([], p) :: qs := by
  simp only [expandEnv, List.map_cons]
  congr 1
  · simp [envInToken_false p hp]
  · induction qs with
    | nil => rfl
    | cons t rest ih =>
      obtain ⟨sep, text⟩ := t
      simp only [List.map_cons]
      congr 1
      · rcases h (sep, text) (by simp) with h1 | h1
        · simp only at h1; simp [h1]
        · simp only at h1
          simp [envInToken_false text h1]
      · exact ih (fun x hx => h x (by simp [hx]))

/-- `doExpansion` on a plain program word, inert tokens and ONE double-quoted token `w` free of `$`: every pass but
the two substitution passes is the identity; what the two passes do is taken as hypotheses -/
theorem doExpansion_one_dq (se : SubstEnv) (prog : Str) (pre post : List Tok) (w r : Str)
    (us : Option (List (Nat × Str))) (f : Nat)
    (hw : prog.all wordChar = true) (hl : prog.any isAlphaA = true) (hal : lookup se.env.aliases prog = none)
    (hx : prog ≠ "xargs".toList) (hex : prog ≠ "export".toList)
    (hpre : ∀ t ∈ pre, Inert t) (hpost : ∀ t ∈ post, Inert t) (hnd : ∀ c ∈ w, c ≠ '$')
    (hdot : substDotGo se f 0 (([], prog) :: (pre ++ (['"'], w) :: post)) = .ok [(pre.length + 1, r)])
    (hdol : substDollarGo se f 0 (([], prog) :: (pre ++ (['"'], r) :: post)) = .ok us) :
    doExpansion se (f + 1) (([], prog) :: (pre ++ (['"'], w) :: post))
      = .ok (expandBraceRange ((us.map (doExpansion.applyUpdates (([], prog) :: (pre ++ (['"'], r) :: post)))).getD
          (([], prog) :: (pre ++ (['"'], r) :: post)))) := by
  have n1 := word_no prog hw '|' (by decide)
  have n2 := word_no prog hw '~' (by decide)
  have n3 := word_no prog hw '$' (by decide)
  have n4 := word_no prog hw '{' (by decide)
  have n5 := word_no prog hw '*' (by decide)
  have hp1 : prog ≠ ['|'] := by intro e; exact n1 '|' (by rw [e]; simp) rfl
  have hph : prog.head? ≠ some '~' := by
    cases prog with
    | nil => simp
    | cons c cs => intro e; simp at e; exact n2 c (by simp) e
  have hqs : ∀ (w : Str), ∀ t ∈ pre ++ (['"'], w) :: post, t.1 ≠ [] := by
    intro w t ht
    simp only [List.mem_append, List.mem_cons] at ht
    rcases ht with ht | rfl | ht
    · exact inert_sep_ne t (hpre t ht)
    · simp
    · exact inert_sep_ne t (hpost t ht)
  have henv : ∀ t ∈ pre ++ (['"'], w) :: post, t.1 = ['\''] ∨ ∀ c ∈ t.2, c ≠ '$' := by
    intro t ht
    simp only [List.mem_append, List.mem_cons] at ht
    rcases ht with ht | rfl | ht
    · rcases hpre t ht with h | ⟨_, h⟩
      · exact Or.inl h
      · exact Or.inr (fun c hc => (h c hc).1)
    · exact Or.inr hnd
    · rcases hpost t ht with h | ⟨_, h⟩
      · exact Or.inl h
      · exact Or.inr (fun c hc => (h c hc).1)
  have harith : isArithmetic (tokensToLine (([], prog) :: (pre ++ (['"'], w) :: post))) = false := by
    apply any_alpha_not_arith
    simp only [tokensToLine, List.map_cons]
    apply joinWith_any_head
    simpa [tokenToText] using hl
  have hnoexp : ¬ ((([], prog) :: (pre ++ (['"'], w) :: post)).length ≥ 2 ∧
      ((([], prog) :: (pre ++ (['"'], w) :: post)).getD 0 ([], [])).2 = "export".toList ∧
      startsWith ((([], prog) :: (pre ++ (['"'], w) :: post)).getD 1 ([], [])).2 "PROMPT=".toList = true) := by
    intro ⟨_, h2, _⟩
    exact hex (by simpa using h2)
  simp only [doExpansion, harith, Bool.false_eq_true, ↓reduceIte, hnoexp]
  rw [expandAlias_id se.env prog _ (hqs _) hp1 hx hal, expandHome_id se.env prog _ (hqs _) hph,
    expandEnv_noDollar se.env prog _ n3 henv, expandBrace_id prog _ (hqs _) n4]
  simp only [Outcome.bind]
  rw [expandGlob_id se.env prog _ (hqs _) n5, hdot]
  have happ := applyUpdates_single (([], prog) :: pre) post ['"'] w r
  simp only [List.cons_append, List.length_cons] at happ
  simp only []
  rw [happ, hdol]
  cases us <;> rfl

end Cicada.SubstRT
