import Cicada.Lemmas.C06Refine
/-!
# C06 — lemmas for the refinement `modelView ~ specView` with stop / continue events on MULTI-process jobs

Third class of histories (after the exit-only class and the single-process class of `Lemmas/C06Refine.lean`):
background jobs with several processes where a stop / continue hits the whole job before the next poll.

* `okOpM` / `wfFromM` : the decidable guard (ghost state: the never-forgetting world `gStep` and the list `dirty` of the
  pids notified since the last poll).
* `JB` : the table job against the world job BETWEEN polls (two phases: Running with an empty stopped set, Stopped with
  every pid in the stopped set), modulo the notifications in flight `inflSt`.
* `JP` : the same DURING a poll (`try_wait_bg_jobs` applies the parked notifications one process at a time: the stopped
  set grows / shrinks member by member, the status flips at the last one); it relies on the world job being *uniform*
  (no stopped member, or no running member), which the guard checks at each poll.
* `InvM JR` : the invariant (parametrised by the job relation), `InvB_step`, `InvB_poll`, `viewsM_quiescent`.
-/
namespace Cicada.C06
open Cicada.Jobs

/-! ### the ghost world with stopped processes -/

/-- facts about the ghost world kept along a well-formed history (`GW` without `nostop`) -/
structure GWM (w : List WJob) : Prop where
  gids : (w.map (·.gid)).Nodup
  pids : ∀ j ∈ w, j.pidsOf.Nodup
  owner : ∀ j ∈ w, ∀ j' ∈ w, ∀ p, p ∈ j.pidsOf → p ∈ j'.pidsOf → j = j'

theorem setJob_gid (q : Pid) (r : PState) (j : WJob) : (setJob q r j).gid = j.gid := rfl

theorem setJob_pidsOf (q : Pid) (r : PState) (j : WJob) : (setJob q r j).pidsOf = j.pidsOf := by
  unfold setJob WJob.pidsOf
  simp only [List.map_map]
  apply List.map_congr_left
  intro pr _
  simp only [Function.comp]
  split <;> rfl

theorem setJob_nonmember (q : Pid) (r : PState) (j : WJob) (h : q ∉ j.pidsOf) : setJob q r j = j := by
  unfold setJob
  have : j.procs.map (fun pr => if pr.1 = q ∧ pr.2 ≠ .gone then (pr.1, r) else pr) = j.procs := by
    conv => rhs; rw [← List.map_id j.procs]
    apply List.map_congr_left
    intro pr hpr
    have : pr.1 ≠ q := fun e => h (List.mem_map.mpr ⟨pr, hpr, e⟩)
    simp [this]
  rw [this]

/-- an entry of another pid survives `setJob` -/
theorem setJob_keeps (q : Pid) (r : PState) (j : WJob) (x : Pid × PState) (h : x ∈ j.procs) (hne : x.1 ≠ q) :
    x ∈ (setJob q r j).procs := by
  simp only [setJob, List.mem_map]
  exact ⟨x, h, by simp [hne]⟩

/-- the entry of a process that is not gone takes the new state -/
theorem setJob_sets (q : Pid) (r st : PState) (j : WJob) (h : (q, st) ∈ j.procs) (hst : st ≠ .gone) :
    (q, r) ∈ (setJob q r j).procs := by
  simp only [setJob, List.mem_map]
  exact ⟨(q, st), h, by simp [hst]⟩

/-- where an entry of `setJob` comes from -/
theorem setJob_mem (q : Pid) (r : PState) (j : WJob) (x : Pid × PState) (h : x ∈ (setJob q r j).procs) :
    (x ∈ j.procs ∧ (x.1 ≠ q ∨ x.2 = .gone)) ∨ (x = (q, r) ∧ ∃ st, (q, st) ∈ j.procs ∧ st ≠ .gone) := by
  simp only [setJob, List.mem_map] at h
  obtain ⟨pr, hpr, rfl⟩ := h
  by_cases hc : pr.1 = q ∧ pr.2 ≠ .gone
  · right
    rw [if_pos hc]
    refine ⟨by rw [← hc.1], pr.2, ?_, hc.2⟩
    rw [← hc.1]; exact hpr
  · left
    rw [if_neg hc]
    refine ⟨hpr, ?_⟩
    by_cases h1 : pr.1 = q
    · right
      by_cases h2 : pr.2 = .gone
      · exact h2
      · exact absurd ⟨h1, h2⟩ hc
    · exact Or.inl h1

theorem GWM_set (w : List WJob) (q : Pid) (r : PState) (h : GWM w) : GWM (w.map (setJob q r)) := by
  refine ⟨?_, ?_, ?_⟩
  · have : (w.map (setJob q r)).map (·.gid) = w.map (·.gid) := by
      simp only [List.map_map]; apply List.map_congr_left; intro j _; rfl
    rw [this]; exact h.gids
  · intro j hj
    obtain ⟨j0, h0, rfl⟩ := List.mem_map.mp hj
    rw [setJob_pidsOf]; exact h.pids j0 h0
  · intro j hj j' hj' p hp hp'
    obtain ⟨j0, h0, rfl⟩ := List.mem_map.mp hj
    obtain ⟨j1, h1, rfl⟩ := List.mem_map.mp hj'
    rw [setJob_pidsOf] at hp hp'
    rw [h.owner j0 h0 j1 h1 p hp hp']

theorem GWM_launch (w : List WJob) (gid : Pid) (pids : List Pid) (h : GWM w)
    (hnd : pids.Nodup) (hfresh : ∀ p ∈ pids, everLaunched w p = false) (hgid : ∀ j ∈ w, j.gid ≠ gid) :
    GWM (w ++ [{ gid := gid, procs := pids.map (fun p => (p, PState.running)) }]) := by
  have hpo : ({ gid := gid, procs := pids.map (fun p => (p, PState.running)) } : WJob).pidsOf = pids := by
    simp [WJob.pidsOf, List.map_map, Function.comp_def]
  refine ⟨?_, ?_, ?_⟩
  · simp only [List.map_append, List.map_cons, List.map_nil]
    rw [List.nodup_append]
    refine ⟨h.gids, by simp, ?_⟩
    intro a ha b hb
    obtain ⟨j, hj, rfl⟩ := List.mem_map.mp ha
    simp only [List.mem_singleton] at hb
    subst hb
    exact hgid j hj
  · intro j hj
    simp only [List.mem_append, List.mem_singleton] at hj
    rcases hj with hj | rfl
    · exact h.pids j hj
    · rw [hpo]; exact hnd
  · intro j hj j' hj' p hp hp'
    simp only [List.mem_append, List.mem_singleton] at hj hj'
    rcases hj with hj | rfl <;> rcases hj' with hj' | rfl
    · exact h.owner j hj j' hj' p hp hp'
    · rw [hpo] at hp'
      exact absurd hp (everLaunched_false (hfresh p hp') j hj)
    · rw [hpo] at hp
      exact absurd hp' (everLaunched_false (hfresh p hp) j' hj')
    · rfl

/-- under `GWM` a pid has one entry in the whole world -/
theorem GWM_entry_unique {w : List WJob} (h : GWM w) {j j' : WJob} (hj : j ∈ w) (hj' : j' ∈ w) {p : Pid} {st st' : PState}
    (h1 : (p, st) ∈ j.procs) (h2 : (p, st') ∈ j'.procs) : j = j' ∧ st = st' := by
  have hp : p ∈ j.pidsOf := List.mem_map.mpr ⟨_, h1, rfl⟩
  have hp' : p ∈ j'.pidsOf := List.mem_map.mpr ⟨_, h2, rfl⟩
  have := h.owner j hj j' hj' p hp hp'
  subst this
  have := nodup_map_inj (fun (x : Pid × PState) => x.1) j.procs (h.pids j hj) _ h1 _ h2 rfl
  exact ⟨rfl, (Prod.mk.inj this).2⟩

/-- `kept` does not move when a process that is not gone gets a notification in flight -/
theorem kept_set (D D' : List Pid) (q : Pid) (r : PState) (j : WJob) (hD : ∀ x, x ∈ D' ↔ x ∈ D ∨ x = q)
    (hq : ∀ pr ∈ j.procs, pr.1 = q → pr.2 ≠ .gone) : kept D' (setJob q r j) = kept D j := by
  unfold kept setJob
  simp only
  generalize j.procs = l at hq
  induction l with
  | nil => rfl
  | cons pr rest ih =>
    have ih := ih (fun pr h => hq pr (List.mem_cons_of_mem _ h))
    have h0 := hq pr List.mem_cons_self
    simp only [List.map_cons, List.filter_cons]
    by_cases hpq : pr.1 = q
    · subst hpq
      have h1 := h0 rfl
      have hq' : pr.1 ∈ D' := (hD pr.1).mpr (Or.inr rfl)
      simp [h1, hq'] at ih ⊢
      exact ih
    · have hmem : pr.1 ∈ D' ↔ pr.1 ∈ D := by rw [hD]; simp [hpq]
      by_cases h1 : pr.1 ∈ D
      · simp [hpq, h1, hmem.mpr h1] at ih ⊢; exact ih
      · have h2 : pr.1 ∉ D' := fun x => h1 (hmem.mp x)
        simp [hpq, h1, h2] at ih ⊢
        split <;> simp [ih]

/-- `kept` does not move when the notification in flight of a process that is not gone is applied -/
theorem kept_drop_live (D D' : List Pid) (p : Pid) (wj : WJob) (hD : ∀ x, x ∈ D' ↔ x ∈ D ∧ x ≠ p)
    (hp : ∀ pr ∈ wj.procs, pr.1 = p → pr.2 ≠ .gone) : kept D' wj = kept D wj := by
  unfold kept
  congr 1
  apply List.filter_congr
  intro pr hpr
  by_cases hpq : pr.1 = p
  · have h1 := hp pr hpr hpq
    simp [h1]
  · have hmem : pr.1 ∈ D' ↔ pr.1 ∈ D := by rw [hD]; simp [hpq]
    by_cases h1 : pr.1 ∈ D
    · simp [h1, hmem.mpr h1]
    · have h2 : pr.1 ∉ D' := fun x => h1 (hmem.mp x)
      simp [h1, h2]

/-! ### the guard -/

/-- the world job is uniform: no stopped member, or no running member -/
def uniformJ (j : WJob) : Bool :=
  j.procs.all (fun pr => pr.2 ≠ .stopped) || j.procs.all (fun pr => pr.2 ≠ .running)

/-- one operation is admissible after the history that produced the ghost world `w`, `dirty` being the pids notified since
the last poll.
* launch: a non-empty list of pairwise distinct, never used pids under a never used group id;
* every notification goes to a process without a notification since the last poll
  (`!dirty.contains p`: this is what refuses KF-C06-parked-sets);
* exit / kill: of a running process of a job in which NO member is stopped, and
* stop: of a running process of a job in which no member's exit is still unapplied (gone and dirty)
  (these two refuse KF-C06-status-not-reevaluated, first half: a member leaves while a sibling's stop is recorded or about
  to be recorded — the status is not recomputed at the removal);
* continue: of a stopped process;
* poll: every job is uniform — the stops / continues since the last poll have hit all the live members of the job
  (refuses KF-C06-status-not-reevaluated, second half: only some members continue);
* no foreground wait (refuses KF-C06-fg-continue-dropped, which needs one). -/
def okOpM (w : List WJob) (dirty : List Pid) : Op → Bool
  | .launch _ gid pids => !pids.isEmpty && decide pids.Nodup && pids.all (fun p => !everLaunched w p) && !(w.any (·.gid = gid))
  | .ev (.exited p _) => !dirty.contains p &&
      w.any fun j => j.procs.any (fun pr => pr.1 = p ∧ pr.2 = .running) && j.procs.all (fun pr => pr.2 ≠ .stopped)
  | .ev (.killed p _) => !dirty.contains p &&
      w.any fun j => j.procs.any (fun pr => pr.1 = p ∧ pr.2 = .running) && j.procs.all (fun pr => pr.2 ≠ .stopped)
  | .ev (.stopped p _) => !dirty.contains p &&
      w.any fun j => j.procs.any (fun pr => pr.1 = p ∧ pr.2 = .running) && j.procs.all (fun pr => !(pr.2 = .gone && dirty.contains pr.1))
  | .ev (.continued p) => !dirty.contains p && w.any fun j => j.procs.any (fun pr => pr.1 = p ∧ pr.2 = .stopped)
  | .waitFg _ _ => false
  | .poll => w.all uniformJ

def wfFromM (w : List WJob) (dirty : List Pid) : List Op → Bool
  | [] => true
  | o :: os => okOpM w dirty o && wfFromM (gStep w o) (dirtyStep dirty o) os

/-! ### the table against the ghost world, modulo the notifications in flight -/

theorem mem_keys (D : List (Pid × PState)) (p : Pid) : p ∈ D.map (·.1) ↔ ∃ r, (p, r) ∈ D := by
  simp only [List.mem_map]
  constructor
  · rintro ⟨x, hx, rfl⟩; exact ⟨x.2, hx⟩
  · rintro ⟨r, hr⟩; exact ⟨(p, r), hr, rfl⟩

/-- between two polls: the job is Running with an empty stopped set — its members have exits or stops in flight, not both
kinds, those without are not stopped — or Stopped with exactly its pids in the stopped set — its members have only
continues in flight, those without are not running -/
def JB (j : Job) (wj : WJob) (D : List (Pid × PState)) : Prop :=
  j.pids = kept (D.map (·.1)) wj ∧ j.pids ≠ [] ∧
  ((j.status = "Running" ∧ j.stoppedSet = [] ∧
      (∀ pr ∈ wj.procs, pr.1 ∉ D.map (·.1) → pr.2 ≠ .stopped) ∧
      (∀ pr ∈ wj.procs, (pr.1, PState.running) ∉ D) ∧
      ¬ ((∃ pr ∈ wj.procs, (pr.1, PState.gone) ∈ D) ∧ (∃ pr ∈ wj.procs, (pr.1, PState.stopped) ∈ D))) ∨
   (j.status = "Stopped" ∧ j.stoppedSet.Nodup ∧ (∀ p, p ∈ j.stoppedSet ↔ p ∈ j.pids) ∧
      (∀ pr ∈ wj.procs, pr.1 ∉ D.map (·.1) → pr.2 ≠ .running) ∧
      (∀ pr ∈ wj.procs, ∀ r, (pr.1, r) ∈ D → r = .running)))

/-- during a poll, the world job being uniform.  No running member: the parked stops are applied one by one (a pid is in
the stopped set exactly when its stop is no longer in flight; Stopped exactly when all are in).  No stopped member:
Running with an empty stopped set and only exits in flight, or Stopped with the continues being applied one by one (a
pid is in the stopped set exactly when its continue is still in flight) -/
def JP (j : Job) (wj : WJob) (D : List (Pid × PState)) : Prop :=
  j.pids = kept (D.map (·.1)) wj ∧ j.pids ≠ [] ∧ j.stoppedSet.Nodup ∧ (∀ p ∈ j.stoppedSet, p ∈ j.pids) ∧
  (((∀ pr ∈ wj.procs, pr.2 ≠ .running) ∧ (∀ pr ∈ wj.procs, ∀ r, (pr.1, r) ∈ D → r = .stopped) ∧
      (∀ p ∈ j.pids, p ∈ j.stoppedSet ↔ p ∉ D.map (·.1)) ∧
      ((j.status = "Stopped" ∧ ∀ p ∈ j.pids, p ∈ j.stoppedSet) ∨ (j.status = "Running" ∧ ∃ p ∈ j.pids, p ∉ j.stoppedSet))) ∨
   ((∀ pr ∈ wj.procs, pr.2 ≠ .stopped) ∧
      ((j.status = "Running" ∧ j.stoppedSet = [] ∧ ∀ pr ∈ wj.procs, ∀ r, (pr.1, r) ∈ D → r = .gone) ∨
       (j.status = "Stopped" ∧ j.stoppedSet ≠ [] ∧ (∀ pr ∈ wj.procs, ∀ r, (pr.1, r) ∈ D → r = .running) ∧
          ∀ p ∈ j.pids, p ∈ j.stoppedSet ↔ p ∈ D.map (·.1)))))

/-- a job relation that looks at the notifications in flight of the job's own members only -/
def Local (JR : Job → WJob → List (Pid × PState) → Prop) : Prop :=
  ∀ j wj D D', (∀ x, x.1 ∈ wj.pidsOf → (x ∈ D ↔ x ∈ D')) → JR j wj D → JR j wj D'

theorem keys_congr {wj : WJob} {D D' : List (Pid × PState)} (h : ∀ x, x.1 ∈ wj.pidsOf → (x ∈ D ↔ x ∈ D')) :
    ∀ q ∈ wj.pidsOf, (q ∈ D.map (·.1) ↔ q ∈ D'.map (·.1)) := by
  intro q hq
  rw [mem_keys, mem_keys]
  constructor
  · rintro ⟨r, hr⟩; exact ⟨r, (h (q, r) hq).mp hr⟩
  · rintro ⟨r, hr⟩; exact ⟨r, (h (q, r) hq).mpr hr⟩

theorem procs_pidsOf {wj : WJob} {pr : Pid × PState} (h : pr ∈ wj.procs) : pr.1 ∈ wj.pidsOf := List.mem_map.mpr ⟨pr, h, rfl⟩

theorem JB_local : Local JB := by
  intro j wj D D' h hj
  have hk := keys_congr h
  have hkept : kept (D.map (·.1)) wj = kept (D'.map (·.1)) wj := kept_congr _ _ wj hk
  have hm : ∀ pr ∈ wj.procs, ∀ r, ((pr.1, r) ∈ D ↔ (pr.1, r) ∈ D') := fun pr hpr r => h (pr.1, r) (procs_pidsOf (pr := pr) hpr)
  obtain ⟨h1, h2, h3⟩ := hj
  refine ⟨by rw [← hkept]; exact h1, h2, ?_⟩
  rcases h3 with ⟨a, b, c, d, e⟩ | ⟨a, b, c, d, e⟩
  · left
    refine ⟨a, b, ?_, ?_, ?_⟩
    · intro pr hpr hn
      exact c pr hpr (fun x => hn ((hk pr.1 (procs_pidsOf hpr)).mp x))
    · intro pr hpr x
      exact d pr hpr ((hm pr hpr _).mpr x)
    · rintro ⟨⟨pr, hpr, x⟩, ⟨pr', hpr', x'⟩⟩
      exact e ⟨⟨pr, hpr, (hm pr hpr _).mpr x⟩, ⟨pr', hpr', (hm pr' hpr' _).mpr x'⟩⟩
  · right
    refine ⟨a, b, c, ?_, ?_⟩
    · intro pr hpr hn
      exact d pr hpr (fun x => hn ((hk pr.1 (procs_pidsOf hpr)).mp x))
    · intro pr hpr r x
      exact e pr hpr r ((hm pr hpr r).mpr x)

theorem JP_local : Local JP := by
  intro j wj D D' h hj
  have hk := keys_congr h
  have hkept : kept (D.map (·.1)) wj = kept (D'.map (·.1)) wj := kept_congr _ _ wj hk
  have hm : ∀ pr ∈ wj.procs, ∀ r, ((pr.1, r) ∈ D ↔ (pr.1, r) ∈ D') := fun pr hpr r => h (pr.1, r) (procs_pidsOf (pr := pr) hpr)
  obtain ⟨h1, h2, h3, h4, h5⟩ := hj
  have hkp : ∀ p ∈ j.pids, (p ∈ D.map (·.1) ↔ p ∈ D'.map (·.1)) := by
    intro p hp
    rw [h1] at hp
    exact hk p (kept_sub _ wj p hp)
  refine ⟨by rw [← hkept]; exact h1, h2, h3, h4, ?_⟩
  rcases h5 with ⟨a, b, c, d⟩ | ⟨a, b⟩
  · left
    refine ⟨a, fun pr hpr r x => b pr hpr r ((hm pr hpr r).mpr x), ?_, d⟩
    intro p hp
    rw [c p hp, hkp p hp]
  · right
    refine ⟨a, ?_⟩
    rcases b with ⟨b1, b2, b3⟩ | ⟨b1, b2, b3, b4⟩
    · left
      exact ⟨b1, b2, fun pr hpr r x => b3 pr hpr r ((hm pr hpr r).mpr x)⟩
    · right
      refine ⟨b1, b2, fun pr hpr r x => b3 pr hpr r ((hm pr hpr r).mpr x), ?_⟩
      intro p hp
      rw [b4 p hp, hkp p hp]

/-- the invariant, parametrised by the job relation (`JB` between polls, `JP` during a poll) -/
structure InvM (JR : Job → WJob → List (Pid × PState) → Prop) (s : Sh) (pend : List Ev) (gw : List WJob) : Prop where
  ids : IdsOk s
  world : GWM gw
  nd : ((inflSt s pend).map (·.1)).Nodup
  cons : ∀ x ∈ inflSt s pend, ∃ wj ∈ gw, x ∈ wj.procs
  gids : (s.jobs.map (·.gid)).Nodup
  sound : ∀ j ∈ s.jobs, ∃ wj ∈ gw, wj.gid = j.gid ∧ JR j wj (inflSt s pend)
  complete : ∀ wj ∈ gw, kept ((inflSt s pend).map (·.1)) wj ≠ [] → ∃ j ∈ s.jobs, j.gid = wj.gid

theorem InvM_perm {JR} (hloc : Local JR) (s s' : Sh) (pend pend' : List Ev) (gw : List WJob) (h : InvM JR s pend gw)
    (hj : s'.jobs = s.jobs) (hperm : (inflSt s' pend').Perm (inflSt s pend)) : InvM JR s' pend' gw := by
  have hp1 := hperm.map (·.1)
  refine ⟨idsOk_of_jobs_eq hj h.ids, h.world, (hp1.nodup_iff).mpr h.nd, fun x hx => h.cons x (hperm.mem_iff.mp hx),
    by rw [hj]; exact h.gids, ?_, ?_⟩
  · rw [hj]
    intro j hjm
    obtain ⟨wj, h1, h2, h3⟩ := h.sound j hjm
    exact ⟨wj, h1, h2, hloc j wj _ _ (fun x _ => hperm.mem_iff.symm) h3⟩
  · rw [hj]
    intro wj hwj hk
    apply h.complete wj hwj
    rw [kept_congr _ _ wj (fun q _ => hp1.mem_iff.symm)]
    exact hk

theorem InvM_pending_irrel {JR} (hloc : Local JR) (s : Sh) (pend l : List Ev) (gw : List WJob) (h : InvM JR s pend gw) :
    InvM JR { s with pending := l } pend gw :=
  InvM_perm hloc s _ pend pend gw h rfl (List.Perm.refl _)

/-- draining one notification into its map permutes the notifications in flight -/
theorem parkF_perm (s : Sh) (e : Ev) (rest : List Ev) (hnd : (keys1 s (e :: rest)).Nodup) :
    (inflSt (parkF s e) rest).Perm (inflSt s (e :: rest)) := by
  simp only [keys1, List.map_cons, List.cons_append, List.nodup_cons, List.mem_append, not_or] at hnd
  obtain ⟨⟨⟨⟨⟨_, hr⟩, hk⟩, hs⟩, hc⟩, _⟩ := hnd
  cases e with
  | exited p c =>
    have hr : p ∉ s.reap.map (·.1) := hr
    simp only [parkF, inflSt, putMap_eq _ _ _ hr, Ev.pid, evRes]
    rw [List.perm_iff_count]
    intro a
    simp only [List.map_append, List.map_cons, List.map_nil, List.count_append, List.count_cons, List.count_nil]
    omega
  | killed p c =>
    have hk : p ∉ s.kill.map (·.1) := hk
    simp only [parkF, inflSt, putMap_eq _ _ _ hk, Ev.pid, evRes]
    rw [List.perm_iff_count]
    intro a
    simp only [List.map_append, List.map_cons, List.map_nil, List.count_append, List.count_cons, List.count_nil]
    omega
  | stopped p c =>
    have hs : p ∉ s.stop := hs
    simp only [parkF, inflSt, addOnce_eq _ _ hs, Ev.pid, evRes]
    rw [List.perm_iff_count]
    intro a
    simp only [List.map_append, List.map_cons, List.map_nil, List.count_append, List.count_cons, List.count_nil]
    omega
  | continued p =>
    have hc : p ∉ s.cont := hc
    simp only [parkF, inflSt, addOnce_eq _ _ hc, Ev.pid, evRes]
    rw [List.perm_iff_count]
    intro a
    simp only [List.map_append, List.map_cons, List.map_nil, List.count_append, List.count_cons, List.count_nil]
    omega

theorem parkF_jobs (s : Sh) (e : Ev) : (parkF s e).jobs = s.jobs := by cases e <;> rfl

theorem InvM_parkFold {JR} (hloc : Local JR) (gw : List WJob) : ∀ (evs : List Ev) (s : Sh), InvM JR s evs gw → InvM JR (evs.foldl parkF s) [] gw := by
  intro evs
  induction evs with
  | nil => intro s h; exact h
  | cons e rest ih =>
    intro s h
    simp only [List.foldl_cons]
    apply ih
    have hnd := h.nd
    rw [inflSt_keys] at hnd
    exact InvM_perm hloc s _ _ _ gw h (parkF_jobs s e) (parkF_perm s e rest hnd)

theorem InvM_park {JR} (hloc : Local JR) (s : Sh) (gw : List WJob) (h : InvM JR s s.pending gw) :
    InvM JR (park s) [] gw ∧ (park s).pending = [] := by
  rw [park_eq]
  exact ⟨InvM_parkFold hloc gw _ _ (InvM_pending_irrel hloc s _ [] gw h), by rw [parkFold_pending]⟩

/-! ### a notification becomes pending -/

/-- a notification for a process that is not gone and has nothing in flight becomes pending; the three side conditions
are what the guard `okOpM` gives for the three kinds of result -/
theorem InvB_ev (s : Sh) (gw : List WJob) (e : Ev) (h : InvM JB s s.pending gw)
    (wq : WJob) (hwq : wq ∈ gw) (stq : PState) (hpq : (e.pid, stq) ∈ wq.procs) (hlive : stq ≠ .gone)
    (hfree : e.pid ∉ (inflSt s s.pending).map (·.1))
    (g1 : evRes e = .gone → stq = .running ∧ ∀ pr ∈ wq.procs, pr.2 ≠ .stopped)
    (g2 : evRes e = .stopped → stq = .running ∧ ∀ pr ∈ wq.procs, ¬ (pr.2 = .gone ∧ pr.1 ∈ (inflSt s s.pending).map (·.1)))
    (g3 : evRes e = .running → stq = .stopped) :
    InvM JB { s with pending := s.pending ++ [e] } (s.pending ++ [e]) (gw.map (setJob e.pid (evRes e))) := by
  have hperm : (inflSt { s with pending := s.pending ++ [e] } (s.pending ++ [e])).Perm ((e.pid, evRes e) :: inflSt s s.pending) := by
    simp only [inflSt, List.map_append, List.map_cons, List.map_nil, List.append_assoc, List.singleton_append]
    exact List.perm_middle
  have hp1 := hperm.map (·.1)
  have hnd0 := h.nd
  have hcons0 := h.cons
  have hsound0 := h.sound
  have hcomplete0 := h.complete
  generalize hD' : inflSt { s with pending := s.pending ++ [e] } (s.pending ++ [e]) = D' at hperm hp1
  generalize hD : inflSt s s.pending = D at hperm hp1 hfree g2 hnd0 hcons0 hsound0 hcomplete0
  generalize hp : e.pid = p at *
  generalize hr : evRes e = r at *
  have hmemD : ∀ x, x ∈ D' ↔ x = (p, r) ∨ x ∈ D := by
    intro x; rw [hperm.mem_iff, List.mem_cons]
  have hmemK : ∀ x, x ∈ D'.map (·.1) ↔ x ∈ D.map (·.1) ∨ x = p := by
    intro x
    rw [hp1.mem_iff, List.map_cons, List.mem_cons]
    exact Or.comm
  have hpw : p ∈ wq.pidsOf := List.mem_map.mpr ⟨_, hpq, rfl⟩
  -- wherever `p` occurs in the world it is the entry `(p, stq)` of `wq`
  have huniq : ∀ wj ∈ gw, ∀ pr ∈ wj.procs, pr.1 = p → wj = wq ∧ pr.2 = stq := by
    intro wj hwj pr hpr hpp
    have : (p, pr.2) ∈ wj.procs := by rw [← hpp]; exact hpr
    exact GWM_entry_unique h.world hwj hwq this hpq
  have hkept : ∀ wj ∈ gw, kept (D'.map (·.1)) (setJob p r wj) = kept (D.map (·.1)) wj := by
    intro wj hwj
    apply kept_set _ _ p r wj hmemK
    intro pr hpr hpp
    rw [(huniq wj hwj pr hpr hpp).2]; exact hlive
  refine ⟨idsOk_of_jobs_eq rfl h.ids, GWM_set gw _ _ h.world, ?_, ?_, h.gids, ?_, ?_⟩
  · rw [hD', hp1.nodup_iff, List.map_cons, List.nodup_cons]
    exact ⟨hfree, hnd0⟩
  · rw [hD']
    intro x hx
    rcases (hmemD x).mp hx with rfl | hx
    · exact ⟨setJob p r wq, List.mem_map.mpr ⟨wq, hwq, rfl⟩, setJob_sets p r stq wq hpq hlive⟩
    · obtain ⟨wj, hwj, hxw⟩ := hcons0 x hx
      have hne : x.1 ≠ p := fun e' => hfree (e' ▸ List.mem_map.mpr ⟨x, hx, rfl⟩)
      exact ⟨setJob p r wj, List.mem_map.mpr ⟨wj, hwj, rfl⟩, setJob_keeps p r wj x hxw hne⟩
  · rw [hD']
    intro j hj
    obtain ⟨wj, hwj, hg, hjb⟩ := hsound0 j hj
    refine ⟨setJob p r wj, List.mem_map.mpr ⟨wj, hwj, rfl⟩, hg, ?_⟩
    by_cases hmem : p ∈ wj.pidsOf
    · have := h.world.owner wj hwj wq hwq p hmem hpw
      subst this
      -- the entries of the new world job
      have hent : ∀ x ∈ (setJob p r wj).procs, (x ∈ wj.procs ∧ x.1 ≠ p) ∨ x = (p, r) := by
        intro x hx
        rcases setJob_mem p r wj x hx with ⟨h1, h2⟩ | ⟨h1, _⟩
        · left
          refine ⟨h1, ?_⟩
          intro hpp
          rcases h2 with h2 | h2
          · exact h2 hpp
          · exact hlive (by rw [← (huniq wj hwj x h1 hpp).2]; exact h2)
        · exact Or.inr h1
      have hpk' : p ∈ D'.map (·.1) := (hmemK p).mpr (Or.inr rfl)
      obtain ⟨k1, k2, k3⟩ := hjb
      refine ⟨by rw [hkept wj hwj]; exact k1, k2, ?_⟩
      rcases k3 with ⟨a, b, c, d, e'⟩ | ⟨a, b, c, d, e'⟩
      · -- Running
        have hnr : r ≠ .running := by
          intro hrr
          exact c _ hpq hfree (g3 hrr)
        left
        refine ⟨a, b, ?_, ?_, ?_⟩
        · intro x hx hn
          rcases hent x hx with ⟨h1, h2⟩ | rfl
          · exact c x h1 (fun y => hn ((hmemK _).mpr (Or.inl y)))
          · exact absurd hpk' hn
        · intro x hx hin
          rcases (hmemD _).mp hin with heq | hin
          · exact hnr (Prod.mk.inj heq).2.symm
          · rcases hent x hx with ⟨h1, h2⟩ | rfl
            · exact d x h1 hin
            · exact hfree (List.mem_map.mpr ⟨_, hin, rfl⟩)
        · rintro ⟨⟨x, hx, hxg⟩, ⟨y, hy, hys⟩⟩
          have hxm : x.1 ∈ wj.pidsOf := by rw [← setJob_pidsOf p r wj]; exact procs_pidsOf hx
          have hym : y.1 ∈ wj.pidsOf := by rw [← setJob_pidsOf p r wj]; exact procs_pidsOf hy
          cases hrc : r with
          | running => exact hnr hrc
          | gone =>
            -- an exit: no member is stopped, so no stop is in flight
            rcases (hmemD _).mp hys with heq | hin
            · rw [hrc] at heq; cases (Prod.mk.inj heq).2
            · obtain ⟨w2, hw2, hin2⟩ := hcons0 _ hin
              have := h.world.owner w2 hw2 wj hwj y.1 (List.mem_map.mpr ⟨_, hin2, rfl⟩) hym
              subst this
              exact (g1 hrc).2 _ hin2 rfl
          | stopped =>
            -- a stop: no member's exit is in flight
            rcases (hmemD _).mp hxg with heq | hin
            · rw [hrc] at heq; cases (Prod.mk.inj heq).2
            · obtain ⟨w2, hw2, hin2⟩ := hcons0 _ hin
              have := h.world.owner w2 hw2 wj hwj x.1 (List.mem_map.mpr ⟨_, hin2, rfl⟩) hxm
              subst this
              exact (g2 hrc).2 _ hin2 ⟨rfl, List.mem_map.mpr ⟨_, hin, rfl⟩⟩
      · -- Stopped
        have hrr : r = .running := by
          cases hrc : r with
          | running => rfl
          | gone => exact absurd (g1 hrc).1 (d _ hpq hfree)
          | stopped => exact absurd (g2 hrc).1 (d _ hpq hfree)
        right
        refine ⟨a, b, ?_, ?_, ?_⟩
        · exact c
        · intro x hx hn
          rcases hent x hx with ⟨h1, h2⟩ | rfl
          · exact d x h1 (fun y => hn ((hmemK _).mpr (Or.inl y)))
          · exact absurd hpk' hn
        · intro x hx r' hin
          rcases (hmemD _).mp hin with heq | hin
          · rw [(Prod.mk.inj heq).2, hrr]
          · rcases hent x hx with ⟨h1, h2⟩ | rfl
            · exact e' x h1 r' hin
            · exact absurd (List.mem_map.mpr ⟨_, hin, rfl⟩) hfree
    · rw [setJob_nonmember p r wj hmem]
      apply JB_local j wj D D' _ hjb
      intro x hx
      rw [hmemD]
      constructor
      · exact Or.inr
      · rintro (rfl | h1)
        · exact absurd hx hmem
        · exact h1
  · rw [hD']
    intro wj' hwj' hne
    obtain ⟨wj, hwj, rfl⟩ := List.mem_map.mp hwj'
    rw [hkept wj hwj] at hne
    exact hcomplete0 wj hwj hne

/-! ### a launch -/

theorem InvB_launch (s : Sh) (gw : List WJob) (bg : Bool) (gid : Pid) (pids : List Pid) (h : InvM JB s s.pending gw)
    (hne : pids ≠ []) (hnd : pids.Nodup) (hfresh : ∀ p ∈ pids, everLaunched gw p = false) (hgid' : ∀ j ∈ gw, j.gid ≠ gid) :
    InvM JB (step s (.launch bg gid pids)).1 (step s (.launch bg gid pids)).1.pending (gStep gw (.launch bg gid pids)) := by
  have hno : ∀ j ∈ s.jobs, j.gid ≠ gid := by
    intro j hj
    obtain ⟨wj, hwj, hg, _⟩ := h.sound j hj
    rw [← hg]; exact hgid' wj hwj
  have hids := idsOk_step s (.launch bg gid pids) h.ids
  obtain ⟨i', _, _, hfree, heq⟩ := launch_jobs s gid bg pids hno hne
  simp only [step, gStep] at hids ⊢
  rw [heq] at hids ⊢
  have hgw' := GWM_launch gw gid pids h.world hnd hfresh hgid'
  -- nothing is in flight for the new pids
  have hnofl : ∀ p ∈ pids, ∀ r, (p, r) ∉ inflSt s s.pending := by
    intro p hp r hin
    obtain ⟨wj, hwj, hx⟩ := h.cons _ hin
    exact everLaunched_false (hfresh p hp) wj hwj (List.mem_map.mpr ⟨_, hx, rfl⟩)
  refine ⟨hids, hgw', h.nd, ?_, ?_, ?_, ?_⟩
  · intro x hx
    obtain ⟨wj, hwj, hg⟩ := h.cons x hx
    exact ⟨wj, List.mem_append_left _ hwj, hg⟩
  · show ((insertSorted _ s.jobs).map (·.gid)).Nodup
    have := (insertSorted_perm { id := i', gid := gid, pids := pids, isBg := bg } s.jobs).map (·.gid)
    rw [this.nodup_iff]
    simp only [List.map_cons, List.nodup_cons]
    refine ⟨?_, h.gids⟩
    intro hm
    obtain ⟨j, hj, hg⟩ := List.mem_map.mp hm
    exact hno j hj hg
  · show ∀ j ∈ insertSorted _ s.jobs, ∃ wj ∈ _, wj.gid = j.gid ∧ JB j wj (inflSt s s.pending)
    intro j hj
    rcases (mem_insertSorted _ _ _).mp hj with rfl | hj
    · refine ⟨_, List.mem_append_right _ (List.mem_singleton.mpr rfl), rfl, (kept_new _ gid pids).symm, hne, Or.inl ⟨rfl, rfl, ?_, ?_, ?_⟩⟩
      · intro pr hpr _
        simp only [List.mem_map] at hpr
        obtain ⟨p, _, rfl⟩ := hpr
        simp
      · intro pr hpr
        simp only [List.mem_map] at hpr
        obtain ⟨p, hp, rfl⟩ := hpr
        exact hnofl p hp _
      · rintro ⟨⟨pr, hpr, hin⟩, _⟩
        simp only [List.mem_map] at hpr
        obtain ⟨p, hp, rfl⟩ := hpr
        exact hnofl p hp _ hin
    · obtain ⟨wj, h3, h4, h5⟩ := h.sound j hj
      exact ⟨wj, List.mem_append_left _ h3, h4, h5⟩
  · show ∀ wj ∈ gw ++ _, kept ((inflSt s s.pending).map (·.1)) wj ≠ [] → ∃ j ∈ insertSorted _ s.jobs, j.gid = wj.gid
    intro wj hwj hk
    simp only [List.mem_append, List.mem_singleton] at hwj
    rcases hwj with hwj | rfl
    · obtain ⟨j, hj, hg⟩ := h.complete wj hwj hk
      exact ⟨j, (mem_insertSorted _ _ _).mpr (Or.inr hj), hg⟩
    · exact ⟨_, (mem_insertSorted _ _ _).mpr (Or.inl rfl), rfl⟩

/-! ### between polls ↔ during a poll -/

/-- a notification in flight for a member of `wj` is an entry of `wj` -/
theorem cons_here {gw : List WJob} (hgw : GWM gw) {D : List (Pid × PState)} (hcons : ∀ x ∈ D, ∃ wj ∈ gw, x ∈ wj.procs)
    {wj : WJob} (hwj : wj ∈ gw) {p : Pid} {r : PState} (hp : p ∈ wj.pidsOf) (hin : (p, r) ∈ D) : (p, r) ∈ wj.procs := by
  obtain ⟨w2, hw2, hx⟩ := hcons _ hin
  have := hgw.owner w2 hw2 wj hwj p (List.mem_map.mpr ⟨_, hx, rfl⟩) hp
  subst this
  exact hx

theorem entry_unique {gw : List WJob} (hgw : GWM gw) {wj : WJob} (hwj : wj ∈ gw) {p : Pid} {st st' : PState}
    (h1 : (p, st) ∈ wj.procs) (h2 : (p, st') ∈ wj.procs) : st = st' := (GWM_entry_unique hgw hwj hwj h1 h2).2

theorem uniformJ_iff (wj : WJob) : uniformJ wj = true ↔ (∀ pr ∈ wj.procs, pr.2 ≠ .stopped) ∨ (∀ pr ∈ wj.procs, pr.2 ≠ .running) := by
  simp [uniformJ]

/-- at the start of a poll: the job relation between polls and the uniformity of the world job give the relation of the poll -/
theorem JB_to_JP {gw : List WJob} (hgw : GWM gw) {D : List (Pid × PState)} (hcons : ∀ x ∈ D, ∃ wj ∈ gw, x ∈ wj.procs)
    {wj : WJob} (hwj : wj ∈ gw) (hU : uniformJ wj = true) {j : Job} (h : JB j wj D) : JP j wj D := by
  obtain ⟨k1, k2, k3⟩ := h
  have hhere : ∀ pr ∈ wj.procs, ∀ r, (pr.1, r) ∈ D → r = pr.2 := by
    intro pr hpr r hin
    exact entry_unique hgw hwj (cons_here hgw hcons hwj (procs_pidsOf hpr) hin) hpr
  have hkeptmem : ∀ p ∈ j.pids, ∃ st, (p, st) ∈ wj.procs ∧ (st ≠ .gone ∨ p ∈ D.map (·.1)) := by
    intro p hp
    rw [k1] at hp
    exact (mem_kept _ wj p).mp hp
  rcases k3 with ⟨a, b, c, d, e⟩ | ⟨a, b, c, d, e⟩
  · have hT1 : j.stoppedSet.Nodup := by rw [b]; exact List.nodup_nil
    have hT2 : ∀ p ∈ j.stoppedSet, p ∈ j.pids := by rw [b]; intro p hp; cases hp
    refine ⟨k1, k2, hT1, hT2, ?_⟩
    rcases (uniformJ_iff wj).mp hU with hU | hU
    · right
      refine ⟨hU, Or.inl ⟨a, b, ?_⟩⟩
      intro pr hpr r hin
      have := hhere pr hpr r hin
      cases hr : r with
      | gone => rfl
      | running => rw [hr] at hin; exact absurd hin (d pr hpr)
      | stopped => rw [hr] at this; exact absurd this.symm (hU pr hpr)
    · by_cases hex : ∃ pr ∈ wj.procs, (pr.1, PState.gone) ∈ D
      · have hnos : ∀ pr ∈ wj.procs, (pr.1, PState.stopped) ∉ D := fun pr hpr hin => e ⟨hex, ⟨pr, hpr, hin⟩⟩
        right
        refine ⟨?_, Or.inl ⟨a, b, ?_⟩⟩
        · intro pr hpr hst
          by_cases hk : pr.1 ∈ D.map (·.1)
          · obtain ⟨r, hin⟩ := (mem_keys D pr.1).mp hk
            have := hhere pr hpr r hin
            rw [this, hst] at hin
            exact hnos pr hpr hin
          · exact c pr hpr hk hst
        · intro pr hpr r hin
          cases hr : r with
          | gone => rfl
          | running => rw [hr] at hin; exact absurd hin (d pr hpr)
          | stopped => rw [hr] at hin; exact absurd hin (hnos pr hpr)
      · left
        have hallk : ∀ p ∈ j.pids, p ∈ D.map (·.1) := by
          intro p hp
          obtain ⟨st, h1, h2⟩ := hkeptmem p hp
          by_cases hk : p ∈ D.map (·.1)
          · exact hk
          · exfalso
            have h3 := c _ h1 hk
            have h4 := hU _ h1
            rcases h2 with h2 | h2
            · cases st <;> simp_all
            · exact hk h2
        refine ⟨hU, ?_, ?_, Or.inr ⟨a, ?_⟩⟩
        · intro pr hpr r hin
          cases hr : r with
          | stopped => rfl
          | running => rw [hr] at hin; exact absurd hin (d pr hpr)
          | gone => rw [hr] at hin; exact absurd ⟨pr, hpr, hin⟩ hex
        · intro p hp
          rw [b]
          simp [hallk p hp]
        · obtain ⟨p, hp⟩ := List.exists_mem_of_ne_nil _ k2
          exact ⟨p, hp, by rw [b]; simp⟩
  · refine ⟨k1, k2, b, fun p hp => (c p).mp hp, ?_⟩
    have hne : j.stoppedSet ≠ [] := by
      obtain ⟨p, hp⟩ := List.exists_mem_of_ne_nil _ k2
      exact List.ne_nil_of_mem ((c p).mpr hp)
    rcases (uniformJ_iff wj).mp hU with hU | hU
    · right
      refine ⟨hU, Or.inr ⟨a, hne, e, ?_⟩⟩
      intro p hp
      constructor
      · intro _
        obtain ⟨st, h1, h2⟩ := hkeptmem p hp
        by_cases hk : p ∈ D.map (·.1)
        · exact hk
        · exfalso
          have h3 := d _ h1 hk
          have h4 := hU _ h1
          rcases h2 with h2 | h2
          · cases st <;> simp_all
          · exact hk h2
      · intro _; exact (c p).mpr hp
    · left
      have hnofl : ∀ pr ∈ wj.procs, pr.1 ∉ D.map (·.1) := by
        intro pr hpr hk
        obtain ⟨r, hin⟩ := (mem_keys D pr.1).mp hk
        have h1 := e pr hpr r hin
        have h2 := hhere pr hpr r hin
        exact hU pr hpr (by rw [← h2, h1])
      refine ⟨hU, ?_, ?_, Or.inl ⟨a, fun p hp => (c p).mpr hp⟩⟩
      · intro pr hpr r hin
        exact absurd (List.mem_map.mpr ⟨_, hin, rfl⟩) (hnofl pr hpr)
      · intro p hp
        obtain ⟨st, h1, _⟩ := hkeptmem p hp
        have := hnofl _ h1
        simp only at this
        simp [this, (c p).mpr hp]

/-- at the end of a poll: with nothing in flight for the members the relation of the poll is the relation between polls -/
theorem JP_to_JB {wj : WJob} {D : List (Pid × PState)} (hno : ∀ pr ∈ wj.procs, pr.1 ∉ D.map (·.1)) {j : Job} (h : JP j wj D) :
    JB j wj D := by
  obtain ⟨k1, k2, k3, k4, k5⟩ := h
  have hmem : ∀ p ∈ j.pids, p ∉ D.map (·.1) := by
    intro p hp
    rw [k1] at hp
    obtain ⟨st, h1, _⟩ := (mem_kept _ wj p).mp hp
    exact hno _ h1
  have hnin : ∀ pr ∈ wj.procs, ∀ r, (pr.1, r) ∉ D := fun pr hpr r hin => hno pr hpr (List.mem_map.mpr ⟨_, hin, rfl⟩)
  refine ⟨k1, k2, ?_⟩
  rcases k5 with ⟨a, b, c, d⟩ | ⟨a, b⟩
  · have hall : ∀ p ∈ j.pids, p ∈ j.stoppedSet := fun p hp => (c p hp).mpr (hmem p hp)
    rcases d with ⟨d1, _⟩ | ⟨_, p, hp, hn⟩
    · right
      exact ⟨d1, k3, fun p => ⟨k4 p, hall p⟩, fun pr hpr _ => a pr hpr, fun pr hpr r hin => absurd hin (hnin pr hpr r)⟩
    · exact absurd (hall p hp) hn
  · rcases b with ⟨b1, b2, _⟩ | ⟨_, b2, _, b4⟩
    · left
      exact ⟨b1, b2, fun pr hpr _ => a pr hpr, fun pr hpr hin => hnin pr hpr _ hin, fun ⟨⟨pr, hpr, hin⟩, _⟩ => hnin pr hpr _ hin⟩
    · exfalso
      obtain ⟨p, hp⟩ := List.exists_mem_of_ne_nil _ b2
      exact hmem p (k4 p hp) ((b4 p (k4 p hp)).mp hp)

/-! ### one step of `try_wait_bg_jobs` -/

/-- the notifications in flight without those of `pid` -/
def minus (D : List (Pid × PState)) (pid : Pid) : List (Pid × PState) := D.filter (fun x => decide (x.1 ≠ pid))

theorem mem_minus (D : List (Pid × PState)) (pid : Pid) (x : Pid × PState) : x ∈ minus D pid ↔ x ∈ D ∧ x.1 ≠ pid := by
  simp [minus]

theorem keys_minus (D : List (Pid × PState)) (pid q : Pid) : q ∈ (minus D pid).map (·.1) ↔ q ∈ D.map (·.1) ∧ q ≠ pid := by
  rw [mem_keys, mem_keys]
  constructor
  · rintro ⟨r, hr⟩
    obtain ⟨h1, h2⟩ := (mem_minus D pid _).mp hr
    exact ⟨⟨r, h1⟩, h2⟩
  · rintro ⟨⟨r, hr⟩, hne⟩
    exact ⟨r, (mem_minus D pid _).mpr ⟨hr, hne⟩⟩

theorem filt_map_keep {α} (pid : Pid) (l : List α) (g : α → Pid × PState) (h : ∀ a ∈ l, (g a).1 ≠ pid) :
    (l.map g).filter (fun x => decide (x.1 ≠ pid)) = l.map g := by
  apply List.filter_eq_self.mpr
  intro x hx
  obtain ⟨a, ha, rfl⟩ := List.mem_map.mp hx
  simpa using h a ha

theorem filt_map_maps (pid : Pid) (l : List (Pid × Int)) (st : PState) :
    (l.map (fun x => (x.1, st))).filter (fun x => decide (x.1 ≠ pid)) = (l.filter (fun x => decide (x.1 ≠ pid))).map (fun x => (x.1, st)) := by
  rw [List.filter_map]
  rfl

theorem filt_map_erase (pid : Pid) (l : List Pid) (hnd : l.Nodup) (st : PState) :
    (l.map (fun p => (p, st))).filter (fun x => decide (x.1 ≠ pid)) = (l.erase pid).map (fun p => (p, st)) := by
  rw [List.filter_map, hnd.erase_eq_filter]
  congr 1
  apply List.filter_congr
  intro x _
  show decide (x ≠ pid) = (x != pid)
  by_cases h : x = pid <;> simp [h]

/-- what one step does: nothing if `pid` has no parked notification; otherwise it forgets the one parked notification
`(pid, r)` (state `s1`) and applies it to the table -/
theorem apF_cases (gid : Pid) (s : Sh) (pid : Pid) (hnd : (keys1 s []).Nodup) :
    (pid ∉ keys1 s [] ∧ apF gid s pid = s) ∨
    ∃ s1 r, s1.jobs = s.jobs ∧ (pid, r) ∈ inflSt s [] ∧ inflSt s1 [] = minus (inflSt s []) pid ∧
      ((r = .gone ∧ apF gid s pid = removePid s1 gid pid) ∨ (r = .stopped ∧ apF gid s pid = markMemberStopped s1 pid gid) ∨
       (r = .running ∧ apF gid s pid = markMemberContinued s1 pid gid)) := by
  simp only [keys1, List.map_nil, List.nil_append] at hnd
  obtain ⟨hnd4, hndc, hd4⟩ := List.nodup_append.mp hnd
  obtain ⟨hnd3, hnds, hd3⟩ := List.nodup_append.mp hnd4
  obtain ⟨hndr, hndk, hd2⟩ := List.nodup_append.mp hnd3
  unfold apF
  by_cases hr : s.reap.any (·.1 = pid) = true
  · right
    have hr' := (any_key _ _).mp hr
    refine ⟨{ s with reap := s.reap.filter (·.1 ≠ pid) }, .gone, rfl, ?_, ?_, Or.inl ⟨rfl, by simp only [hr, ↓reduceIte]⟩⟩
    · simp only [inflSt, List.map_nil, List.nil_append, List.mem_append, List.mem_map]
      obtain ⟨a, ha, hpa⟩ := List.mem_map.mp hr'
      exact Or.inl (Or.inl (Or.inl ⟨a, ha, by rw [hpa]⟩))
    · simp only [inflSt, minus, List.map_nil, List.nil_append, List.filter_append]
      rw [filt_map_maps pid s.reap, filt_map_keep pid s.kill, filt_map_keep pid s.stop, filt_map_keep pid s.cont]
      · intro a ha e; exact hd4 pid (List.mem_append_left _ (List.mem_append_left _ hr')) a ha e.symm
      · intro a ha e; exact hd3 pid (List.mem_append_left _ hr') a ha e.symm
      · intro a ha e; exact hd2 pid hr' a.1 (List.mem_map.mpr ⟨a, ha, rfl⟩) e.symm
  · have hr' : pid ∉ s.reap.map (·.1) := fun x => hr ((any_key _ _).mpr x)
    by_cases hk : s.kill.any (·.1 = pid) = true
    · right
      have hk' := (any_key _ _).mp hk
      refine ⟨{ s with kill := s.kill.filter (·.1 ≠ pid) }, .gone, rfl, ?_, ?_, Or.inl ⟨rfl, by simp only [hr, hk, Bool.false_eq_true, ↓reduceIte]⟩⟩
      · simp only [inflSt, List.map_nil, List.nil_append, List.mem_append, List.mem_map]
        obtain ⟨a, ha, hpa⟩ := List.mem_map.mp hk'
        exact Or.inl (Or.inl (Or.inr ⟨a, ha, by rw [hpa]⟩))
      · simp only [inflSt, minus, List.map_nil, List.nil_append, List.filter_append]
        rw [filt_map_maps pid s.kill, filt_map_keep pid s.reap, filt_map_keep pid s.stop, filt_map_keep pid s.cont]
        · intro a ha e; exact hd4 pid (List.mem_append_left _ (List.mem_append_right _ hk')) a ha e.symm
        · intro a ha e; exact hd3 pid (List.mem_append_right _ hk') a ha e.symm
        · intro a ha e; exact hr' (e ▸ List.mem_map.mpr ⟨a, ha, rfl⟩)
    · have hk' : pid ∉ s.kill.map (·.1) := fun x => hk ((any_key _ _).mpr x)
      have hR : ∀ a ∈ s.reap, ((fun (x : Pid × Int) => (x.1, PState.gone)) a).1 ≠ pid :=
        fun a ha e => hr' (e ▸ List.mem_map.mpr ⟨a, ha, rfl⟩)
      have hK : ∀ a ∈ s.kill, ((fun (x : Pid × Int) => (x.1, PState.gone)) a).1 ≠ pid :=
        fun a ha e => hk' (e ▸ List.mem_map.mpr ⟨a, ha, rfl⟩)
      by_cases hs : s.stop.contains pid = true
      · right
        have hs' : pid ∈ s.stop := by simpa using hs
        refine ⟨{ s with stop := s.stop.erase pid }, .stopped, rfl, ?_, ?_,
          Or.inr (Or.inl ⟨rfl, by simp only [hr, hk, hs, Bool.false_eq_true, ↓reduceIte]⟩)⟩
        · simp only [inflSt, List.map_nil, List.nil_append, List.mem_append, List.mem_map]
          exact Or.inl (Or.inr ⟨pid, hs', rfl⟩)
        · simp only [inflSt, minus, List.map_nil, List.nil_append, List.filter_append]
          rw [filt_map_keep pid s.reap _ hR, filt_map_keep pid s.kill _ hK, filt_map_erase pid s.stop hnds, filt_map_keep pid s.cont]
          intro a ha e; exact hd4 pid (List.mem_append_right _ hs') a ha e.symm
      · have hs' : pid ∉ s.stop := by simpa using hs
        by_cases hc : s.cont.contains pid = true
        · right
          have hc' : pid ∈ s.cont := by simpa using hc
          refine ⟨{ s with cont := s.cont.erase pid }, .running, rfl, ?_, ?_,
            Or.inr (Or.inr ⟨rfl, by simp only [hr, hk, hs, hc, Bool.false_eq_true, ↓reduceIte]⟩)⟩
          · simp only [inflSt, List.map_nil, List.nil_append, List.mem_append, List.mem_map]
            exact Or.inr ⟨pid, hc', rfl⟩
          · simp only [inflSt, minus, List.map_nil, List.nil_append, List.filter_append]
            rw [filt_map_keep pid s.reap _ hR, filt_map_keep pid s.kill _ hK, filt_map_erase pid s.cont hndc, filt_map_keep pid s.stop]
            intro a ha e; exact hs' (e ▸ ha)
        · left
          have hc' : pid ∉ s.cont := by simpa using hc
          refine ⟨?_, by simp only [hr, hk, hs, hc, Bool.false_eq_true, ↓reduceIte]⟩
          simp only [keys1, List.map_nil, List.nil_append, List.mem_append]
          rintro (((h1 | h1) | h1) | h1)
          · exact hr' h1
          · exact hk' h1
          · exact hs' h1
          · exact hc' h1

/-! the three table operations, the job being found -/

theorem removePid_jobs (s : Sh) (gid p : Pid) (j0 : Job) (hf : findGid s gid = some j0) :
    (removePid s gid p).jobs =
      if (j0.pids.erase p).isEmpty then s.jobs.filter (fun x => decide (x.id ≠ j0.id))
      else s.jobs.map (fun x => if x.id = j0.id then { x with pids := j0.pids.erase p } else x) := by
  unfold removePid
  rw [hf]
  simp only
  split <;> rfl

theorem mStopped_jobs (s : Sh) (gid p : Pid) (j0 : Job) (hf : findGid s gid = some j0) (hp : p ∉ j0.stoppedSet) :
    (markMemberStopped s p gid).jobs =
      s.jobs.map (fun x => if x.id = j0.id then
        (if j0.pids.all (fun q => (j0.stoppedSet ++ [p]).contains q) then
          { x with stoppedSet := j0.stoppedSet ++ [p], status := "Stopped", isBg := true }
         else { x with stoppedSet := j0.stoppedSet ++ [p] }) else x) := by
  unfold markMemberStopped
  rw [hf]
  have hst : (if j0.stoppedSet.contains p then j0.stoppedSet else j0.stoppedSet ++ [p]) = j0.stoppedSet ++ [p] := by
    simp [hp]
  simp only [hst, Job.allStopped]
  split
  · simp only [updJob, List.map_map]
    apply List.map_congr_left
    intro x _
    simp only [Function.comp]
    by_cases hx : x.id = j0.id <;> simp [hx]
  · simp only [updJob]

theorem mContinued_jobs (s : Sh) (gid p : Pid) (j0 : Job) (hf : findGid s gid = some j0) :
    (markMemberContinued s p gid).jobs =
      s.jobs.map (fun x => if x.id = j0.id then
        (if (j0.stoppedSet.erase p).isEmpty then { x with stoppedSet := [], status := "Running", isBg := true }
         else { x with stoppedSet := j0.stoppedSet.erase p }) else x) := by
  unfold markMemberContinued
  rw [hf]
  simp only
  split
  · simp only [updJob, List.map_map]
    apply List.map_congr_left
    intro x _
    simp only [Function.comp]
    by_cases hx : x.id = j0.id <;> simp [hx]
  · simp only [updJob]

/-- the table after the job `j0` has been replaced by `f j0`, the notification of `pid` (a member of its world job) being
applied -/
theorem TM_update {JR : Job → WJob → List (Pid × PState) → Prop} (hloc : Local JR) (jobs : List Job) (gw : List WJob)
    (D : List (Pid × PState)) (pid : Pid) (hgw : GWM gw) (hgids : (jobs.map (·.gid)).Nodup)
    (hji : ∀ a ∈ jobs, ∀ b ∈ jobs, a.id = b.id → a = b)
    (hsound : ∀ j ∈ jobs, ∃ wj ∈ gw, wj.gid = j.gid ∧ JR j wj D)
    (hcomplete : ∀ wj ∈ gw, kept (D.map (·.1)) wj ≠ [] → ∃ j ∈ jobs, j.gid = wj.gid)
    (j0 : Job) (hj0 : j0 ∈ jobs) (wj0 : WJob) (hwj0 : wj0 ∈ gw) (hg0 : wj0.gid = j0.gid) (hp : pid ∈ wj0.pidsOf)
    (f : Job → Job) (hfg : ∀ x, (f x).gid = x.gid) (hJ : JR (f j0) wj0 (minus D pid)) :
    ((jobs.map fun x => if x.id = j0.id then f x else x).map (·.gid)).Nodup ∧
    (∀ j ∈ jobs.map (fun x => if x.id = j0.id then f x else x), ∃ wj ∈ gw, wj.gid = j.gid ∧ JR j wj (minus D pid)) ∧
    (∀ wj ∈ gw, kept ((minus D pid).map (·.1)) wj ≠ [] → ∃ j ∈ jobs.map (fun x => if x.id = j0.id then f x else x), j.gid = wj.gid) := by
  have hjg := nodup_map_inj (fun (x : Job) => x.gid) jobs hgids
  refine ⟨?_, ?_, ?_⟩
  · rw [map_gid_updMap jobs j0.id f hfg]; exact hgids
  · intro j' hj'
    obtain ⟨j, hj, rfl⟩ := List.mem_map.mp hj'
    by_cases hid : j.id = j0.id
    · have := hji j hj j0 hj0 hid
      subst this
      simp only [↓reduceIte]
      exact ⟨wj0, hwj0, by rw [hfg]; exact hg0, hJ⟩
    · simp only [hid, ↓reduceIte]
      obtain ⟨wj, h1, h2, h3⟩ := hsound j hj
      refine ⟨wj, h1, h2, hloc j wj D _ ?_ h3⟩
      intro x hx
      rw [mem_minus]
      constructor
      · intro hxd
        refine ⟨hxd, ?_⟩
        intro e
        rw [e] at hx
        have := hgw.owner wj h1 wj0 hwj0 pid hx hp
        subst this
        exact hid (by rw [hjg j hj j0 hj0 (by rw [← h2, hg0])])
      · exact fun h => h.1
  · intro wj hwj hk
    have hk' : kept (D.map (·.1)) wj ≠ [] := by
      obtain ⟨q, hq⟩ := List.exists_mem_of_ne_nil _ hk
      obtain ⟨st, h1, h2⟩ := (mem_kept _ wj q).mp hq
      exact List.ne_nil_of_mem ((mem_kept _ wj q).mpr ⟨st, h1, h2.imp id (fun x => ((keys_minus D pid q).mp x).1)⟩)
    obtain ⟨j, hj, hg⟩ := hcomplete wj hwj hk'
    refine ⟨_, List.mem_map.mpr ⟨j, hj, rfl⟩, ?_⟩
    split
    · rw [hfg]; exact hg
    · exact hg

/-- the table after the job `j0` has been dropped: nothing of its world job is kept any more -/
theorem TM_drop {JR : Job → WJob → List (Pid × PState) → Prop} (hloc : Local JR) (jobs : List Job) (gw : List WJob)
    (D : List (Pid × PState)) (pid : Pid) (hgw : GWM gw) (hgids : (jobs.map (·.gid)).Nodup)
    (hji : ∀ a ∈ jobs, ∀ b ∈ jobs, a.id = b.id → a = b)
    (hsound : ∀ j ∈ jobs, ∃ wj ∈ gw, wj.gid = j.gid ∧ JR j wj D)
    (hcomplete : ∀ wj ∈ gw, kept (D.map (·.1)) wj ≠ [] → ∃ j ∈ jobs, j.gid = wj.gid)
    (j0 : Job) (hj0 : j0 ∈ jobs) (wj0 : WJob) (hwj0 : wj0 ∈ gw) (hg0 : wj0.gid = j0.gid) (hp : pid ∈ wj0.pidsOf)
    (hemp : kept ((minus D pid).map (·.1)) wj0 = []) :
    ((jobs.filter fun x => decide (x.id ≠ j0.id)).map (·.gid)).Nodup ∧
    (∀ j ∈ jobs.filter (fun x => decide (x.id ≠ j0.id)), ∃ wj ∈ gw, wj.gid = j.gid ∧ JR j wj (minus D pid)) ∧
    (∀ wj ∈ gw, kept ((minus D pid).map (·.1)) wj ≠ [] → ∃ j ∈ jobs.filter (fun x => decide (x.id ≠ j0.id)), j.gid = wj.gid) := by
  have hjg := nodup_map_inj (fun (x : Job) => x.gid) jobs hgids
  have hwg := nodup_map_inj (fun (x : WJob) => x.gid) gw hgw.gids
  refine ⟨hgids.sublist (List.Sublist.map _ List.filter_sublist), ?_, ?_⟩
  · intro j hj
    simp only [List.mem_filter, decide_eq_true_eq] at hj
    obtain ⟨wj, h1, h2, h3⟩ := hsound j hj.1
    refine ⟨wj, h1, h2, hloc j wj D _ ?_ h3⟩
    intro x hx
    rw [mem_minus]
    constructor
    · intro hxd
      refine ⟨hxd, ?_⟩
      intro e
      rw [e] at hx
      have := hgw.owner wj h1 wj0 hwj0 pid hx hp
      subst this
      exact hj.2 (by rw [hjg j hj.1 j0 hj0 (by rw [← h2, hg0])])
    · exact fun h => h.1
  · intro wj hwj hk
    have hk' : kept (D.map (·.1)) wj ≠ [] := by
      obtain ⟨q, hq⟩ := List.exists_mem_of_ne_nil _ hk
      obtain ⟨st, h1, h2⟩ := (mem_kept _ wj q).mp hq
      exact List.ne_nil_of_mem ((mem_kept _ wj q).mpr ⟨st, h1, h2.imp id (fun x => ((keys_minus D pid q).mp x).1)⟩)
    obtain ⟨j, hj, hg⟩ := hcomplete wj hwj hk'
    refine ⟨j, ?_, hg⟩
    simp only [List.mem_filter, decide_eq_true_eq]
    refine ⟨hj, ?_⟩
    intro hid
    have := hji j hj j0 hj0 hid
    subst this
    have := hwg wj hwj wj0 hwj0 (by rw [← hg, hg0])
    subst this
    exact hk hemp

/-- closing step: `s2` has applied the parked notification of `pid` -/
theorem InvM_applied {JR : Job → WJob → List (Pid × PState) → Prop} (s s2 : Sh) (gw : List WJob) (pid : Pid) (h : InvM JR s [] gw)
    (h2 : inflSt s2 [] = minus (inflSt s []) pid) (hids : IdsOk s2)
    (htab : (s2.jobs.map (·.gid)).Nodup ∧
      (∀ j ∈ s2.jobs, ∃ wj ∈ gw, wj.gid = j.gid ∧ JR j wj (minus (inflSt s []) pid)) ∧
      (∀ wj ∈ gw, kept ((minus (inflSt s []) pid).map (·.1)) wj ≠ [] → ∃ j ∈ s2.jobs, j.gid = wj.gid)) :
    InvM JR s2 [] gw ∧ (∀ q ∈ keys1 s2 [], q ∈ keys1 s []) ∧ pid ∉ keys1 s2 [] := by
  have hsub : (minus (inflSt s []) pid).Sublist (inflSt s []) := List.filter_sublist
  refine ⟨⟨hids, h.world, ?_, ?_, htab.1, ?_, ?_⟩, ?_, ?_⟩
  · rw [h2]; exact h.nd.sublist (hsub.map _)
  · intro x hx; rw [h2] at hx; exact h.cons x (hsub.subset hx)
  · rw [h2]; exact htab.2.1
  · rw [h2]; exact htab.2.2
  · intro q hq
    rw [← inflSt_keys, h2] at hq
    rw [← inflSt_keys]
    exact ((keys_minus _ pid q).mp hq).1
  · rw [← inflSt_keys, h2]
    intro hq
    exact ((keys_minus _ pid pid).mp hq).2 rfl

/-- **one step of the poll keeps the relation of the poll** and leaves nothing parked for `pid` -/
theorem apF_invP (gid : Pid) (s : Sh) (pid : Pid) (gw : List WJob) (h : InvM JP s [] gw)
    (wj : WJob) (hwj : wj ∈ gw) (hgid : wj.gid = gid) (hp : pid ∈ wj.pidsOf) :
    InvM JP (apF gid s pid) [] gw ∧ (∀ q ∈ keys1 (apF gid s pid) [], q ∈ keys1 s []) ∧ pid ∉ keys1 (apF gid s pid) [] := by
  have hnd := h.nd
  rw [inflSt_keys] at hnd
  rcases apF_cases gid s pid hnd with ⟨h1, h2⟩ | ⟨s1, r, hj1, hin, hD1, hcase⟩
  · rw [h2]; exact ⟨h, fun q hq => hq, h1⟩
  · have hji := pairwise_lt_map_inj (fun (x : Job) => x.id) s.jobs h.ids
    have hwg := nodup_map_inj (fun (x : WJob) => x.gid) gw h.world.gids
    have hpr : (pid, r) ∈ wj.procs := cons_here h.world h.cons hwj hp hin
    have hpkeys : pid ∈ (inflSt s []).map (·.1) := List.mem_map.mpr ⟨_, hin, rfl⟩
    have hpk : pid ∈ kept ((inflSt s []).map (·.1)) wj := (mem_kept _ wj pid).mpr ⟨r, hpr, Or.inr hpkeys⟩
    obtain ⟨j0, hj0, hg0⟩ := h.complete wj hwj (List.ne_nil_of_mem hpk)
    obtain ⟨wj', hwj', hg', hJ0⟩ := h.sound j0 hj0
    have : wj' = wj := hwg wj' hwj' wj hwj (by rw [hg', hg0])
    subst this
    have hf : findGid s1 gid = some j0 := findGid_of s1 gid (by rw [hj1]; exact h.gids) j0 (by rw [hj1]; exact hj0) (by rw [hg0, hgid])
    have hids1 : IdsOk s1 := idsOk_of_jobs_eq hj1 h.ids
    have hstate : ∀ pr ∈ wj'.procs, pr.1 = pid → pr.2 = r := by
      intro pr hpr' hpp
      have : (pid, pr.2) ∈ wj'.procs := by rw [← hpp]; exact hpr'
      exact entry_unique h.world hwj this hpr
    obtain ⟨k1, k2, k3, k4, k5⟩ := hJ0
    have hpin : pid ∈ j0.pids := by rw [k1]; exact hpk
    rcases hcase with ⟨hr, hap⟩ | ⟨hr, hap⟩ | ⟨hr, hap⟩
    · -- an exit or a kill: the pid leaves the table
      subst hr
      rw [hap]
      have hkept_wj : kept ((minus (inflSt s []) pid).map (·.1)) wj' = (kept ((inflSt s []).map (·.1)) wj').erase pid :=
        kept_erase _ _ pid wj' (h.world.pids wj' hwj) (keys_minus _ pid) hstate
      have hphase : (∀ pr ∈ wj'.procs, pr.2 ≠ .stopped) ∧ j0.status = "Running" ∧ j0.stoppedSet = [] ∧
          ∀ pr ∈ wj'.procs, ∀ r, (pr.1, r) ∈ inflSt s [] → r = .gone := by
        rcases k5 with ⟨_, b, _⟩ | ⟨a, ⟨b1, b2, b3⟩ | ⟨_, _, b3, _⟩⟩
        · cases b _ hpr _ hin
        · exact ⟨a, b1, b2, b3⟩
        · cases b3 _ hpr _ hin
      obtain ⟨a, b1, b2, b3⟩ := hphase
      apply InvM_applied s _ gw pid h (by rw [inflSt_removePid, hD1]) (idsOk_removePid _ _ _ hids1)
      rw [removePid_jobs s1 gid pid j0 hf, hj1]
      split
      · rename_i hemp
        apply TM_drop JP_local s.jobs gw _ pid h.world h.gids hji h.sound h.complete j0 hj0 wj' hwj hg' hp
        rw [hkept_wj, ← k1]
        simpa using hemp
      · rename_i hemp
        have hne' : j0.pids.erase pid ≠ [] := by simpa using hemp
        apply TM_update JP_local s.jobs gw _ pid h.world h.gids hji h.sound h.complete j0 hj0 wj' hwj hg' hp
          (fun x => { x with pids := j0.pids.erase pid }) (fun _ => rfl)
        refine ⟨by rw [hkept_wj, ← k1], hne', (by rw [b2]; exact List.nodup_nil), (by rw [b2]; intro p hp'; cases hp'), ?_⟩
        right
        exact ⟨a, Or.inl ⟨b1, b2, fun pr hpr' r hin' => b3 pr hpr' r ((mem_minus _ pid _).mp hin').1⟩⟩
    · -- a stop: the pid joins the stopped set; Stopped when it is the last one
      subst hr
      rw [hap]
      have hkept_wj : kept ((minus (inflSt s []) pid).map (·.1)) wj' = kept ((inflSt s []).map (·.1)) wj' :=
        kept_drop_live _ _ pid wj' (keys_minus _ pid) (fun pr hpr' hpp => by rw [hstate pr hpr' hpp]; simp)
      have hphase : (∀ pr ∈ wj'.procs, pr.2 ≠ .running) ∧ (∀ pr ∈ wj'.procs, ∀ r, (pr.1, r) ∈ inflSt s [] → r = .stopped) ∧
          (∀ p ∈ j0.pids, p ∈ j0.stoppedSet ↔ p ∉ (inflSt s []).map (·.1)) ∧
          ((j0.status = "Stopped" ∧ ∀ p ∈ j0.pids, p ∈ j0.stoppedSet) ∨ (j0.status = "Running" ∧ ∃ p ∈ j0.pids, p ∉ j0.stoppedSet)) := by
        rcases k5 with hl | ⟨a, ⟨_, _, b3⟩ | ⟨_, _, b3, _⟩⟩
        · exact hl
        · cases b3 _ hpr _ hin
        · cases b3 _ hpr _ hin
      obtain ⟨a, b, c, d⟩ := hphase
      have hpT : pid ∉ j0.stoppedSet := fun x => ((c pid hpin).mp x) hpkeys
      apply InvM_applied s _ gw pid h (by rw [inflSt_mStopped, hD1]) (idsOk_markMemberStopped _ _ _ hids1)
      rw [mStopped_jobs s1 gid pid j0 hf hpT, hj1]
      apply TM_update JP_local s.jobs gw _ pid h.world h.gids hji h.sound h.complete j0 hj0 wj' hwj hg' hp
        (fun x => if j0.pids.all (fun q => (j0.stoppedSet ++ [pid]).contains q) then
          { x with stoppedSet := j0.stoppedSet ++ [pid], status := "Stopped", isBg := true }
         else { x with stoppedSet := j0.stoppedSet ++ [pid] }) (fun x => by split <;> rfl)
      have hT1 : (j0.stoppedSet ++ [pid]).Nodup := by
        rw [List.nodup_append]
        refine ⟨k3, by simp, ?_⟩
        intro x hx y hy
        simp only [List.mem_singleton] at hy
        subst hy
        exact fun e => hpT (e ▸ hx)
      have hT2 : ∀ p ∈ j0.stoppedSet ++ [pid], p ∈ j0.pids := by
        intro p hp'
        simp only [List.mem_append, List.mem_singleton] at hp'
        rcases hp' with hp' | rfl
        · exact k4 p hp'
        · exact hpin
      have hc' : ∀ p ∈ j0.pids, p ∈ j0.stoppedSet ++ [pid] ↔ p ∉ (minus (inflSt s []) pid).map (·.1) := by
        intro p hp'
        rw [keys_minus, List.mem_append, List.mem_singleton, c p hp']
        by_cases hpp : p = pid
        · simp [hpp]
        · simp [hpp]
      have hb' : ∀ pr ∈ wj'.procs, ∀ r, (pr.1, r) ∈ minus (inflSt s []) pid → r = .stopped :=
        fun pr hpr' r hin' => b pr hpr' r ((mem_minus _ pid _).mp hin').1
      by_cases hall : j0.pids.all (fun q => (j0.stoppedSet ++ [pid]).contains q) = true
      · simp only [hall, ↓reduceIte]
        refine ⟨by rw [hkept_wj]; exact k1, k2, hT1, hT2, Or.inl ⟨a, hb', hc', Or.inl ⟨rfl, ?_⟩⟩⟩
        intro p hp'
        have := List.all_eq_true.mp hall p hp'
        simpa using this
      · simp only [hall, Bool.false_eq_true, ↓reduceIte]
        refine ⟨by rw [hkept_wj]; exact k1, k2, hT1, hT2, Or.inl ⟨a, hb', hc', Or.inr ⟨?_, ?_⟩⟩⟩
        · rcases d with ⟨_, d2⟩ | ⟨d1, _⟩
          · exact absurd (d2 pid hpin) hpT
          · exact d1
        · obtain ⟨p, hp', hn⟩ := List.all_eq_false.mp (Bool.eq_false_iff.mpr hall)
          exact ⟨p, hp', by simpa using hn⟩
    · -- a continue: the pid leaves the stopped set; Running when it is the last one
      subst hr
      rw [hap]
      have hkept_wj : kept ((minus (inflSt s []) pid).map (·.1)) wj' = kept ((inflSt s []).map (·.1)) wj' :=
        kept_drop_live _ _ pid wj' (keys_minus _ pid) (fun pr hpr' hpp => by rw [hstate pr hpr' hpp]; simp)
      have hphase : (∀ pr ∈ wj'.procs, pr.2 ≠ .stopped) ∧ j0.status = "Stopped" ∧ j0.stoppedSet ≠ [] ∧
          (∀ pr ∈ wj'.procs, ∀ r, (pr.1, r) ∈ inflSt s [] → r = .running) ∧
          ∀ p ∈ j0.pids, p ∈ j0.stoppedSet ↔ p ∈ (inflSt s []).map (·.1) := by
        rcases k5 with ⟨_, b, _⟩ | ⟨a, ⟨_, _, b3⟩ | ⟨b1, b2, b3, b4⟩⟩
        · cases b _ hpr _ hin
        · cases b3 _ hpr _ hin
        · exact ⟨a, b1, b2, b3, b4⟩
      obtain ⟨a, b1, b2, b3, b4⟩ := hphase
      apply InvM_applied s _ gw pid h (by rw [inflSt_mContinued, hD1]) (idsOk_markMemberContinued _ _ _ hids1)
      rw [mContinued_jobs s1 gid pid j0 hf, hj1]
      apply TM_update JP_local s.jobs gw _ pid h.world h.gids hji h.sound h.complete j0 hj0 wj' hwj hg' hp
        (fun x => if (j0.stoppedSet.erase pid).isEmpty then { x with stoppedSet := [], status := "Running", isBg := true }
         else { x with stoppedSet := j0.stoppedSet.erase pid }) (fun x => by split <;> rfl)
      have hb' : ∀ pr ∈ wj'.procs, ∀ r, (pr.1, r) ∈ minus (inflSt s []) pid → r = .running :=
        fun pr hpr' r hin' => b3 pr hpr' r ((mem_minus _ pid _).mp hin').1
      by_cases hemp : (j0.stoppedSet.erase pid).isEmpty = true
      · simp only [hemp, ↓reduceIte]
        have hemp' : j0.stoppedSet.erase pid = [] := by simpa using hemp
        refine ⟨by rw [hkept_wj]; exact k1, k2, List.nodup_nil, (fun p hp' => nomatch hp'), Or.inr ⟨a, Or.inl ⟨rfl, rfl, ?_⟩⟩⟩
        intro pr hpr' r hin'
        exfalso
        obtain ⟨hinD, hne⟩ := (mem_minus _ pid _).mp hin'
        have hrr := b3 pr hpr' r hinD
        subst hrr
        have hent : (pr.1, PState.running) ∈ wj'.procs := cons_here h.world h.cons hwj (procs_pidsOf hpr') hinD
        have hk : pr.1 ∈ j0.pids := by
          rw [k1]
          exact (mem_kept _ wj' pr.1).mpr ⟨.running, hent, Or.inl (by simp)⟩
        have hT : pr.1 ∈ j0.stoppedSet := (b4 _ hk).mpr (List.mem_map.mpr ⟨_, hinD, rfl⟩)
        have : pr.1 ∈ j0.stoppedSet.erase pid := (List.mem_erase_of_ne hne).mpr hT
        rw [hemp'] at this
        cases this
      · simp only [hemp, Bool.false_eq_true, ↓reduceIte]
        have hne' : j0.stoppedSet.erase pid ≠ [] := by simpa using hemp
        refine ⟨by rw [hkept_wj]; exact k1, k2, k3.erase pid, fun p hp' => k4 p (List.mem_of_mem_erase hp'),
          Or.inr ⟨a, Or.inr ⟨b1, hne', hb', ?_⟩⟩⟩
        intro p hp'
        rw [k3.mem_erase_iff, keys_minus, b4 p hp']
        exact And.comm

/-! ### the poll -/

theorem apF_innerP (gid : Pid) (gw : List WJob) (wj : WJob) (hwj : wj ∈ gw) (hgid : wj.gid = gid) :
    ∀ (pids : List Pid) (s : Sh), InvM JP s [] gw → (∀ p ∈ pids, p ∈ wj.pidsOf) →
    InvM JP (pids.foldl (apF gid) s) [] gw ∧ (∀ q ∈ keys1 (pids.foldl (apF gid) s) [], q ∈ keys1 s []) ∧
    ∀ p ∈ pids, p ∉ keys1 (pids.foldl (apF gid) s) [] := by
  intro pids
  induction pids with
  | nil => intro s h _; exact ⟨h, fun q hq => hq, fun p hp => nomatch hp⟩
  | cons p ps ih =>
    intro s h hsub
    simp only [List.foldl_cons]
    obtain ⟨a1, a2, a3⟩ := apF_invP gid s p gw h wj hwj hgid (hsub p List.mem_cons_self)
    obtain ⟨b1, b2, b3⟩ := ih (apF gid s p) a1 (fun q hq => hsub q (List.mem_cons_of_mem _ hq))
    refine ⟨b1, fun q hq => a2 q (b2 q hq), ?_⟩
    intro q hq
    simp only [List.mem_cons] at hq
    rcases hq with rfl | hq
    · exact fun x => a3 (b2 _ x)
    · exact b3 q hq

theorem apF_outerP (gw : List WJob) : ∀ (jobs : List Job) (s : Sh), InvM JP s [] gw →
    (∀ j ∈ jobs, ∃ wj ∈ gw, wj.gid = j.gid ∧ ∀ p ∈ j.pids, p ∈ wj.pidsOf) →
    InvM JP (jobs.foldl (fun s job => job.pids.foldl (apF job.gid) s) s) [] gw ∧
    (∀ q ∈ keys1 (jobs.foldl (fun s job => job.pids.foldl (apF job.gid) s) s) [], q ∈ keys1 s []) ∧
    ∀ j ∈ jobs, ∀ p ∈ j.pids, p ∉ keys1 (jobs.foldl (fun s job => job.pids.foldl (apF job.gid) s) s) [] := by
  intro jobs
  induction jobs with
  | nil => intro s h _; exact ⟨h, fun q hq => hq, fun p hp => nomatch hp⟩
  | cons j js ih =>
    intro s h hc
    simp only [List.foldl_cons]
    obtain ⟨wj, hwj, hg, hsub⟩ := hc j List.mem_cons_self
    obtain ⟨a1, a2, a3⟩ := apF_innerP j.gid gw wj hwj hg j.pids s h hsub
    obtain ⟨b1, b2, b3⟩ := ih _ a1 (fun q hq => hc q (List.mem_cons_of_mem _ hq))
    refine ⟨b1, fun q hq => a2 q (b2 q hq), ?_⟩
    intro q hq
    simp only [List.mem_cons] at hq
    rcases hq with rfl | hq
    · exact fun p hp x => a3 p hp (b2 _ x)
    · exact b3 q hq

/-- every pid with a notification in flight is in the table -/
theorem keysM_in_table {JR : Job → WJob → List (Pid × PState) → Prop} (hpids : ∀ j wj D, JR j wj D → j.pids = kept (D.map (·.1)) wj)
    (s : Sh) (pend : List Ev) (gw : List WJob) (h : InvM JR s pend gw) : ∀ p ∈ keys1 s pend, ∃ j ∈ s.jobs, p ∈ j.pids := by
  intro p hp
  rw [← inflSt_keys] at hp
  have hp' := hp
  obtain ⟨x, hx, rfl⟩ := List.mem_map.mp hp
  obtain ⟨wj, hwj, hxw⟩ := h.cons x hx
  have hk : x.1 ∈ kept ((inflSt s pend).map (·.1)) wj := (mem_kept _ wj x.1).mpr ⟨x.2, hxw, Or.inr hp'⟩
  obtain ⟨j, hj, hjg⟩ := h.complete wj hwj (List.ne_nil_of_mem hk)
  obtain ⟨wj', hwj', hg', hJ⟩ := h.sound j hj
  have := nodup_map_inj (fun (x : WJob) => x.gid) gw h.world.gids wj' hwj' wj hwj (by rw [hg', hjg])
  subst this
  exact ⟨j, hj, by rw [hpids _ _ _ hJ]; exact hk⟩

theorem tableM_coherent {JR : Job → WJob → List (Pid × PState) → Prop} (hpids : ∀ j wj D, JR j wj D → j.pids = kept (D.map (·.1)) wj)
    (s : Sh) (pend : List Ev) (gw : List WJob) (h : InvM JR s pend gw) :
    ∀ j ∈ s.jobs, ∃ wj ∈ gw, wj.gid = j.gid ∧ ∀ p ∈ j.pids, p ∈ wj.pidsOf := by
  intro j hj
  obtain ⟨wj, hwj, hg, hJ⟩ := h.sound j hj
  exact ⟨wj, hwj, hg, by rw [hpids _ _ _ hJ]; exact kept_sub _ wj⟩

theorem InvM_mono {JR JR' : Job → WJob → List (Pid × PState) → Prop} (s : Sh) (pend : List Ev) (gw : List WJob) (h : InvM JR s pend gw)
    (hm : ∀ j, ∀ wj ∈ gw, JR j wj (inflSt s pend) → JR' j wj (inflSt s pend)) : InvM JR' s pend gw := by
  refine ⟨h.ids, h.world, h.nd, h.cons, h.gids, ?_, h.complete⟩
  intro j hj
  obtain ⟨wj, hwj, hg, hJ⟩ := h.sound j hj
  exact ⟨wj, hwj, hg, hm j wj hwj hJ⟩

/-- **the prompt-time poll re-establishes quiescence** when every world job is uniform: afterwards nothing is in flight
and the table is in one of the two phases "between polls" -/
theorem InvB_poll (s : Sh) (gw : List WJob) (h : InvM JB s s.pending gw) (hU : ∀ wj ∈ gw, uniformJ wj = true) :
    InvM JB (poll s) (poll s).pending gw ∧ keys1 (poll s) (poll s).pending = [] := by
  unfold poll
  split
  · rename_i hemp
    refine ⟨h, ?_⟩
    apply List.eq_nil_iff_forall_not_mem.mpr
    intro p hp
    obtain ⟨j, hj, _⟩ := keysM_in_table (fun _ _ _ hJ => hJ.1) s _ gw h p hp
    have : s.jobs = [] := by simpa using hemp
    rw [this] at hj; cases hj
  · obtain ⟨h1, h2⟩ := InvM_park JB_local s gw h
    have hpend := applyParked_pending (park s) h2
    rw [hpend, applyParked_eq]
    have h1P : InvM JP (park s) [] gw :=
      InvM_mono _ _ gw h1 (fun j wj hwj hJ => JB_to_JP h1.world h1.cons hwj (hU wj hwj) hJ)
    obtain ⟨a1, a2, a3⟩ := apF_outerP gw (park s).jobs (park s) h1P (tableM_coherent (fun _ _ _ hJ => hJ.1) _ _ gw h1P)
    have hk : keys1 ((park s).jobs.foldl (fun s job => job.pids.foldl (apF job.gid) s) (park s)) [] = [] := by
      apply List.eq_nil_iff_forall_not_mem.mpr
      intro p hp
      obtain ⟨j, hj, hpj⟩ := keysM_in_table (fun _ _ _ hJ => hJ.1) _ _ gw h1P p (a2 p hp)
      exact a3 j hj p hpj hp
    refine ⟨InvM_mono _ _ gw a1 (fun j wj _ hJ => JP_to_JB ?_ hJ), hk⟩
    intro pr _ hin
    rw [inflSt_keys, hk] at hin
    cases hin

/-! ### every admissible operation keeps the invariant -/

/-- the event step with the bookkeeping of `dirty` -/
theorem InvB_ev_step (s : Sh) (gw : List WJob) (dirty : List Pid) (e : Ev) (h : InvM JB s s.pending gw)
    (hd : ∀ p ∈ keys1 s s.pending, p ∈ dirty) (hnd : e.pid ∉ dirty)
    (wq : WJob) (hwq : wq ∈ gw) (stq : PState) (hpq : (e.pid, stq) ∈ wq.procs) (hlive : stq ≠ .gone)
    (g1 : evRes e = .gone → stq = .running ∧ ∀ pr ∈ wq.procs, pr.2 ≠ .stopped)
    (g2 : evRes e = .stopped → stq = .running ∧ ∀ pr ∈ wq.procs, ¬ (pr.2 = .gone ∧ pr.1 ∈ dirty))
    (g3 : evRes e = .running → stq = .stopped) :
    InvM JB (step s (.ev e)).1 (step s (.ev e)).1.pending (gStep gw (.ev e)) ∧
      ∀ p ∈ keys1 (step s (.ev e)).1 (step s (.ev e)).1.pending, p ∈ dirtyStep dirty (.ev e) := by
  have hfree : e.pid ∉ (inflSt s s.pending).map (·.1) := by
    rw [inflSt_keys]
    exact fun x => hnd (hd _ x)
  simp only [step, gStep, applyEv_set, dirtyStep]
  refine ⟨InvB_ev s gw e h wq hwq stq hpq hlive hfree g1 ?_ g3, ?_⟩
  · intro hr
    refine ⟨(g2 hr).1, ?_⟩
    intro pr hpr ⟨h1, h2⟩
    rw [inflSt_keys] at h2
    exact (g2 hr).2 pr hpr ⟨h1, hd _ h2⟩
  · intro p hp
    simp only [keys1, List.map_append, List.map_cons, List.map_nil, List.mem_append, List.mem_singleton] at hp ⊢
    rcases hp with (((((hp | hp) | hp) | hp) | hp) | hp)
    · exact Or.inl (hd p (by simp only [keys1, List.mem_append]; exact Or.inl (Or.inl (Or.inl (Or.inl hp)))))
    · exact Or.inr hp
    · exact Or.inl (hd p (by simp only [keys1, List.mem_append]; exact Or.inl (Or.inl (Or.inl (Or.inr hp)))))
    · exact Or.inl (hd p (by simp only [keys1, List.mem_append]; exact Or.inl (Or.inl (Or.inr hp))))
    · exact Or.inl (hd p (by simp only [keys1, List.mem_append]; exact Or.inl (Or.inr hp)))
    · exact Or.inl (hd p (by simp only [keys1, List.mem_append]; exact Or.inr hp))

theorem InvB_step (s : Sh) (gw : List WJob) (dirty : List Pid) (o : Op) (h : InvM JB s s.pending gw)
    (hd : ∀ p ∈ keys1 s s.pending, p ∈ dirty) (hok : okOpM gw dirty o = true) :
    InvM JB (step s o).1 (step s o).1.pending (gStep gw o) ∧ ∀ p ∈ keys1 (step s o).1 (step s o).1.pending, p ∈ dirtyStep dirty o := by
  cases o with
  | launch bg gid pids =>
    simp only [okOpM, Bool.and_eq_true, Bool.not_eq_true', List.isEmpty_eq_false_iff, decide_eq_true_eq, List.all_eq_true,
      List.any_eq_false] at hok
    obtain ⟨⟨⟨hne, hnd⟩, hfresh⟩, hgid⟩ := hok
    have hg' : ∀ j ∈ gw, j.gid ≠ gid := hgid
    refine ⟨InvB_launch s gw bg gid pids h hne hnd hfresh hg', ?_⟩
    have hno : ∀ j ∈ s.jobs, j.gid ≠ gid := by
      intro j hj
      obtain ⟨wj, hwj, hg, _⟩ := h.sound j hj
      rw [← hg]; exact hg' wj hwj
    obtain ⟨i', _, _, _, heq⟩ := launch_jobs s gid bg pids hno hne
    simp only [step, dirtyStep]
    rw [heq]
    exact hd
  | ev e =>
    cases e with
    | exited p c =>
      simp only [okOpM, Bool.and_eq_true, Bool.not_eq_true', List.any_eq_true, List.all_eq_true, decide_eq_true_eq] at hok
      obtain ⟨hnd, wq, hwq, ⟨pr, hpr, hp1, hp2⟩, hall⟩ := hok
      have hpq : (p, PState.running) ∈ wq.procs := by rw [← hp1, ← hp2]; exact hpr
      exact InvB_ev_step s gw dirty (.exited p c) h hd (by simpa [Ev.pid] using hnd) wq hwq .running hpq (by simp)
        (fun _ => ⟨rfl, fun pr hpr => by simpa using hall pr hpr⟩) (fun hr => nomatch hr) (fun hr => nomatch hr)
    | killed p c =>
      simp only [okOpM, Bool.and_eq_true, Bool.not_eq_true', List.any_eq_true, List.all_eq_true, decide_eq_true_eq] at hok
      obtain ⟨hnd, wq, hwq, ⟨pr, hpr, hp1, hp2⟩, hall⟩ := hok
      have hpq : (p, PState.running) ∈ wq.procs := by rw [← hp1, ← hp2]; exact hpr
      exact InvB_ev_step s gw dirty (.killed p c) h hd (by simpa [Ev.pid] using hnd) wq hwq .running hpq (by simp)
        (fun _ => ⟨rfl, fun pr hpr => by simpa using hall pr hpr⟩) (fun hr => nomatch hr) (fun hr => nomatch hr)
    | stopped p c =>
      simp only [okOpM, Bool.and_eq_true, Bool.not_eq_true', List.any_eq_true, List.all_eq_true, decide_eq_true_eq] at hok
      obtain ⟨hnd, wq, hwq, ⟨pr, hpr, hp1, hp2⟩, hall⟩ := hok
      have hpq : (p, PState.running) ∈ wq.procs := by rw [← hp1, ← hp2]; exact hpr
      exact InvB_ev_step s gw dirty (.stopped p c) h hd (by simpa [Ev.pid] using hnd) wq hwq .running hpq (by simp)
        (fun hr => nomatch hr) (fun _ => ⟨rfl, fun pr hpr ⟨h1, h2⟩ => by
          have := hall pr hpr
          simp [h1, h2] at this⟩) (fun hr => nomatch hr)
    | continued p =>
      simp only [okOpM, Bool.and_eq_true, Bool.not_eq_true', List.any_eq_true, decide_eq_true_eq] at hok
      obtain ⟨hnd, wq, hwq, pr, hpr, hp1, hp2⟩ := hok
      have hpq : (p, PState.stopped) ∈ wq.procs := by rw [← hp1, ← hp2]; exact hpr
      exact InvB_ev_step s gw dirty (.continued p) h hd (by simpa [Ev.pid] using hnd) wq hwq .stopped hpq (by simp)
        (fun hr => nomatch hr) (fun hr => nomatch hr) (fun _ => rfl)
  | waitFg gid pids => cases hok
  | poll =>
    have hU : ∀ wj ∈ gw, uniformJ wj = true := by
      simpa only [okOpM, List.all_eq_true] using hok
    obtain ⟨h1, h2⟩ := InvB_poll s gw h hU
    refine ⟨h1, ?_⟩
    simp only [step]
    rw [h2]
    intro p hp; cases hp

theorem InvB_init : InvM JB {} [] [] := by
  refine ⟨List.Pairwise.nil, ⟨List.Pairwise.nil, ?_, ?_⟩, List.Pairwise.nil, ?_, List.Pairwise.nil, ?_, ?_⟩ <;>
    intro x hx <;> cases hx

theorem InvB_run : ∀ (ops : List Op) (s : Sh) (gw : List WJob) (dirty : List Pid), InvM JB s s.pending gw →
    (∀ p ∈ keys1 s s.pending, p ∈ dirty) → wfFromM gw dirty ops = true →
    InvM JB (ops.foldl (fun s o => (step s o).1) s) (ops.foldl (fun s o => (step s o).1) s).pending (ops.foldl gStep gw) ∧
    ∀ p ∈ keys1 (ops.foldl (fun s o => (step s o).1) s) (ops.foldl (fun s o => (step s o).1) s).pending, p ∈ ops.foldl dirtyStep dirty := by
  intro ops
  induction ops with
  | nil => intro s gw d h hd _; exact ⟨h, hd⟩
  | cons o os ih =>
    intro s gw d h hd hwf
    simp only [wfFromM, Bool.and_eq_true] at hwf
    simp only [List.foldl_cons]
    obtain ⟨a1, a2⟩ := InvB_step s gw d o h hd hwf.1
    exact ih _ _ _ a1 a2 hwf.2

/-! ### the reference world against the ghost world, the views at quiescence -/

theorem world_stepM (w gw : List WJob) (dirty : List Pid) (o : Op) (h : w.filter isLive = gw.filter isLive)
    (hok : okOpM gw dirty o = true) : (worldStep w o).filter isLive = (gStep gw o).filter isLive := by
  cases o with
  | launch bg gid pids =>
    simp only [okOpM, Bool.and_eq_true, Bool.not_eq_true', List.any_eq_false] at hok
    have hgid := hok.2
    have hany : (w.filter isLive).any (fun j => decide (j.gid = gid)) = false := by
      rw [h]
      apply List.any_eq_false.mpr
      intro j hj
      exact hgid j (List.mem_filter.mp hj).1
    simp only [worldStep, gStep]
    have : (List.filter (fun j => decide (j.live ≠ [])) w) = w.filter isLive := rfl
    rw [this, hany]
    simp only [Bool.false_eq_true, ↓reduceIte, List.filter_append, List.filter_filter, Bool.and_self]
    rw [h]
  | ev e =>
    simp only [worldStep, gStep, applyEv_set]
    rw [filter_set _ _ w, filter_set _ _ gw, h]
  | waitFg gid pids => exact h
  | poll => exact h

theorem world_runM : ∀ (ops : List Op) (w gw : List WJob) (dirty : List Pid), w.filter isLive = gw.filter isLive →
    wfFromM gw dirty ops = true → (ops.foldl worldStep w).filter isLive = (ops.foldl gStep gw).filter isLive := by
  intro ops
  induction ops with
  | nil => intro w gw d h _; exact h
  | cons o os ih =>
    intro w gw d h hwf
    simp only [wfFromM, Bool.and_eq_true] at hwf
    simp only [List.foldl_cons]
    exact ih _ _ _ (world_stepM w gw d o h hwf.1) hwf.2

theorem specView_ghostM (ops : List Op) (hwf : wfFromM [] [] ops = true) :
    specView (ops.foldl worldStep []) = specView (ops.foldl gStep []) := by
  rw [specView_eq, specView_eq, world_runM ops [] [] [] rfl hwf]

/-- with nothing in flight the job of the table shows the live pids of its world job, Stopped exactly when they are all stopped -/
theorem spec_entryM (wj : WJob) (j : Job) (hJ : JB j wj []) :
    j.pids = wj.live ∧ wj.live ≠ [] ∧
    (wj.procs.filter (fun p => p.2 ≠ .gone)).all (fun p => p.2 = .stopped) = decide (j.status = "Stopped") := by
  obtain ⟨k1, k2, k3⟩ := hJ
  simp only [List.map_nil, kept_nil] at k1
  have hl : wj.live ≠ [] := by rw [← k1]; exact k2
  refine ⟨k1, hl, ?_⟩
  rcases k3 with ⟨a, _, c, _, _⟩ | ⟨a, _, _, d, _⟩
  · rw [a]
    have hne : wj.procs.filter (fun p => p.2 ≠ .gone) ≠ [] := by
      intro e
      apply hl
      unfold WJob.live
      rw [e]; rfl
    obtain ⟨pr, hpr⟩ := List.exists_mem_of_ne_nil _ hne
    have h1 := c pr (List.mem_filter.mp hpr).1 (by simp)
    have : (wj.procs.filter (fun p => p.2 ≠ .gone)).all (fun p => p.2 = .stopped) = false := by
      apply List.all_eq_false.mpr
      exact ⟨pr, hpr, by simpa using h1⟩
    rw [this]
    decide
  · rw [a]
    have : (wj.procs.filter (fun p => p.2 ≠ .gone)).all (fun p => p.2 = .stopped) = true := by
      apply List.all_eq_true.mpr
      intro pr hpr
      obtain ⟨h1, h2⟩ := List.mem_filter.mp hpr
      have h3 := d pr h1 (by simp)
      have h2' : pr.2 ≠ .gone := by simpa using h2
      cases hst : pr.2 <;> simp_all
    rw [this]
    decide

/-- with nothing in flight the table shows exactly the live jobs of the world, with exactly their live pids, Stopped exactly
when all the live processes are stopped -/
theorem viewsM_quiescent (s : Sh) (pend : List Ev) (gw : List WJob) (h : InvM JB s pend gw) (hq : keys1 s pend = []) :
    (modelView s).Perm (specView gw) := by
  have hD : inflSt s pend = [] := by
    have := hq
    rw [← inflSt_keys] at this
    exact List.map_eq_nil_iff.mp this
  have hsound := h.sound
  have hcomplete := h.complete
  rw [hD] at hsound hcomplete
  have hwg := nodup_map_inj (fun (x : WJob) => x.gid) gw h.world.gids
  have nd1 : (modelView s).Nodup := by
    have : (modelView s).map (·.1) = s.jobs.map (·.gid) := by
      simp [modelView, List.map_map, Function.comp_def]
    have hn := h.gids
    rw [← this] at hn
    exact List.Pairwise.of_map (·.1) (fun a b hab e => hab (by rw [e])) hn
  have nd2 : (specView gw).Nodup := by
    have : (specView gw).map (·.1) = (gw.filter isLive).map (·.gid) := by
      simp [specView_eq, List.map_map, Function.comp_def]
    have hn : ((gw.filter isLive).map (·.gid)).Nodup := h.world.gids.sublist (List.Sublist.map _ List.filter_sublist)
    rw [← this] at hn
    exact List.Pairwise.of_map (·.1) (fun a b hab e => hab (by rw [e])) hn
  rw [List.perm_ext_iff_of_nodup nd1 nd2]
  intro x
  simp only [modelView, specView_eq, List.mem_map, List.mem_filter]
  constructor
  · rintro ⟨j, hj, rfl⟩
    obtain ⟨wj, h1, h2, h3⟩ := hsound j hj
    obtain ⟨e1, e2, e3⟩ := spec_entryM wj j h3
    refine ⟨wj, ⟨h1, by simp [isLive, e2]⟩, ?_⟩
    rw [e3, h2, e1]
  · rintro ⟨wj, ⟨hwj, hl⟩, rfl⟩
    have hl' : wj.live ≠ [] := by simpa [isLive] using hl
    obtain ⟨j, hj, hg⟩ := hcomplete wj hwj (by simp only [List.map_nil, kept_nil]; exact hl')
    obtain ⟨wj', h1, h2, h3⟩ := hsound j hj
    have : wj' = wj := hwg wj' h1 wj hwj (by rw [h2, hg])
    subst this
    obtain ⟨e1, e2, e3⟩ := spec_entryM wj' j h3
    refine ⟨j, hj, ?_⟩
    rw [e3, hg, e1]

end Cicada.C06
